(* C11 — proofs about the fine-grained model (Fine.v): structural invariant of
   every schedule, the tracked anchor through its retention period under ANY
   interleaving of mutex sections, refinement of the atomic model by the
   sequential schedules. *)
From Coq Require Import List ZArith Bool Lia Sorted.
From Verif Require Import C11.Model C11.Proofs C11.Fine.
Import ListNotations.
Open Scope Z_scope.

(* ------------------------------------------------------------------ *)
(* goroutine tables                                                     *)

Lemma flookup_fset_eq {V} k (v : V) m : flookup k (fset k v m) = Some v.
Proof.
  induction m as [|[k' v'] r IH]; cbn [fset flookup].
  - rewrite Z.eqb_refl. reflexivity.
  - destruct (k =? k') eqn:E; cbn [flookup].
    + rewrite Z.eqb_refl. reflexivity.
    + rewrite E. exact IH.
Qed.

Lemma flookup_fset_neq {V} k k' (v : V) m : k <> k' -> flookup k (fset k' v m) = flookup k m.
Proof.
  intros N. induction m as [|[k2 v2] r IH]; cbn [fset flookup].
  - apply Z.eqb_neq in N. rewrite N. reflexivity.
  - destruct (k' =? k2) eqn:E; cbn [flookup].
    + apply Z.eqb_eq in E. subst k2. apply Z.eqb_neq in N. rewrite N. reflexivity.
    + destruct (k =? k2); [reflexivity|exact IH].
Qed.

Lemma flookup_fdel_eq {V} k (m : list (Z * V)) : flookup k (fdel k m) = None.
Proof.
  induction m as [|[k' v'] r IH]; [reflexivity|].
  unfold fdel in *. cbn [filter fst]. destruct (k =? k') eqn:E; cbn [negb].
  - exact IH.
  - cbn [flookup]. rewrite E. exact IH.
Qed.

Lemma flookup_fdel_neq {V} k k' (m : list (Z * V)) : k <> k' -> flookup k (fdel k' m) = flookup k m.
Proof.
  intros N. induction m as [|[k2 v2] r IH]; [reflexivity|].
  unfold fdel in *. cbn [filter fst]. destruct (k' =? k2) eqn:E; cbn [negb flookup].
  - apply Z.eqb_eq in E. subst k2. apply Z.eqb_neq in N. rewrite N. exact IH.
  - rewrite IH. reflexivity.
Qed.

(* ------------------------------------------------------------------ *)
(* lists                                                                *)

Lemma skipn_length_app {A} (a b : list A) : skipn (length a) (a ++ b) = b.
Proof. induction a as [|x a IH]; [reflexivity|exact IH]. Qed.

Lemma skipn_snoc {A} (k : nat) (q : list A) e :
  (k <= length q)%nat -> skipn k (q ++ [e]) = skipn k q ++ [e].
Proof.
  revert k. induction q as [|x q IH]; intros k H; cbn [length] in H.
  - assert (k = O) by lia. subst. reflexivity.
  - destruct k as [|k]; [reflexivity|]. cbn [skipn app]. apply IH. lia.
Qed.

Lemma NoDup_app_r (l1 l2 : list Z) : NoDup (l1 ++ l2) -> NoDup l2.
Proof. intros H. apply NoDup_app_split in H. tauto. Qed.

(* ------------------------------------------------------------------ *)
(* the loop of one pass                                                 *)

Lemma vwalk_spec now : forall l m c m',
  vwalk now l m = (c, m') ->
  exists rem rest,
    l = rem ++ rest /\ length rem = c /\
    Forall (fun e => fst e < now) rem /\
    (forall k, In k (map snd rem) -> lookup k m' = None) /\
    (forall k, ~ In k (map snd rem) -> lookup k m' = lookup k m).
Proof.
  induction l as [|[a k] r IH]; intros m c m' E; cbn [vwalk] in E.
  - inversion E; subst. exists [], []. repeat split; try constructor. intros k [].
  - destruct (a <? now) eqn:L.
    + destruct (vwalk now r (del k m)) as [c0 m0] eqn:W. inversion E; subst. clear E.
      apply Z.ltb_lt in L. destruct (IH _ _ _ W) as (rem & rest & Hq & Hl & Hf & Hin & Hout).
      exists ((a, k) :: rem), rest. split; [cbn [app]; rewrite Hq; reflexivity|].
      split; [cbn [length]; rewrite Hl; reflexivity|].
      split; [constructor; [exact L|exact Hf]|]. split.
      * intros k0 Hk. cbn [map snd] in Hk.
        destruct (in_dec Z.eq_dec k0 (map snd rem)) as [I|NI]; [apply Hin; exact I|].
        destruct Hk as [Ek|Hk]; [|contradiction]. subst k0.
        rewrite (Hout _ NI). apply lookup_del_eq.
      * intros k0 Hk. cbn [map snd] in Hk.
        assert (k0 <> k) as Nk by (intros ->; apply Hk; left; reflexivity).
        assert (~ In k0 (map snd rem)) as NI by (intros I; apply Hk; right; exact I).
        rewrite (Hout _ NI). apply lookup_del_neq. exact Nk.
    + inversion E; subst. exists [], ((a, k) :: r). repeat split; try constructor.
      intros k0 [].
Qed.

(* the pass of Model.v is the loop over the whole queue followed by the trim *)
Lemma vacuum_vwalk now : forall q m,
  vacuum now q m = (skipn (fst (vwalk now q m)) q, snd (vwalk now q m)).
Proof.
  induction q as [|[a k] r IH]; intros m; cbn [vacuum vwalk]; [reflexivity|].
  destruct (a <? now).
  - rewrite IH. destruct (vwalk now r (del k m)) as [c m']. reflexivity.
  - reflexivity.
Qed.

(* the sections of a pass on a queue q and its map: what a pass may do *)
Lemma vac_step_cases k now p q m p' q' m' :
  vac_step k now p q m = (p', q', m') ->
  (* nothing but the goroutine's own state changes *)
  (q' = q /\ m' = m /\
   (p' = p \/ (p = VIdle /\ p' = VSnap (length q)) \/ (exists n, k = KClock /\ p = VSnap n /\ p' = VTimed n now))) \/
  (* the map section *)
  (exists n t rem rest, p = VTimed n t /\ p' = VDone (length rem) /\ q' = q /\
     q = rem ++ rest /\ Forall (fun e => fst e < t) rem /\
     (forall x, In x (map snd rem) -> lookup x m' = None) /\
     (forall x, ~ In x (map snd rem) -> lookup x m' = lookup x m)) \/
  (* the trim *)
  (exists c, p = VDone c /\ p' = VIdle /\ q' = skipn c q /\ m' = m).
Proof.
  intros E. destruct k, p; cbn [vac_step] in E; try (inversion E; subst; left; auto; fail).
  - (* KSnap, VIdle *)
    destruct q; inversion E; subst; left; auto.
    split; [reflexivity|]. split; [reflexivity|]. right. left. auto.
  - (* KClock, VSnap *)
    inversion E; subst. left. split; [reflexivity|]. split; [reflexivity|].
    right. right. exists n. auto.
  - (* KDelete, VTimed *)
    destruct (vwalk now0 (firstn n q) m) as [c m0] eqn:W. inversion E; subst. clear E.
    destruct (vwalk_spec _ _ _ _ _ W) as (rem & rest & Hq & Hl & Hf & Hin & Hout).
    right. left. exists n, now0, rem, (rest ++ skipn n q').
    split; [reflexivity|]. split; [rewrite Hl; reflexivity|]. split; [reflexivity|].
    split; [rewrite app_assoc, <- Hq; symmetry; apply firstn_skipn|]. auto.
  - (* KTrim, VDone *)
    inversion E; subst. right. right. exists k. auto.
Qed.

(* ------------------------------------------------------------------ *)
(* shape of schedules                                                   *)

Lemma fafter_cons V s a h : fafter_v V s (a :: h) = fafter_v V (fst (fstep_v V s a)) h.
Proof. reflexivity. Qed.

Lemma fafter_app V s h1 h2 : fafter_v V s (h1 ++ h2) = fafter_v V (fafter_v V s h1) h2.
Proof. unfold fafter_v. apply fold_left_app. Qed.

Lemma fouts_app V h1 : forall s h2,
  fouts_v V s (h1 ++ h2) = fouts_v V s h1 ++ fouts_v V (fafter_v V s h1) h2.
Proof.
  induction h1 as [|a h1 IH]; intros s h2; [reflexivity|].
  cbn [app fouts_v]. rewrite fafter_cons.
  destruct (fstep_v V s a) as [s' [x|]]; cbn [fst]; rewrite IH; reflexivity.
Qed.

(* ------------------------------------------------------------------ *)
(* vocabulary of the invariants                                         *)

(* goroutine g anchored txn and has not queued its entry yet *)
Definition anchoring (s : fstate) (g txn : Z) : Prop :=
  match flookup g (gth s) with
  | Some (GPinned t _) | Some (GClocked t _ _) => t = txn
  | _ => False
  end.

(* update goroutine u still has to queue version p for removal *)
Definition owes (s : fstate) (u p : Z) : Prop :=
  match flookup u (uth s) with
  | Some (UPub p') | Some (UClocked p' _) => p' = p
  | _ => False
  end.

(* entries a finished map section has already handled (they are about to be trimmed) *)
Definition doomed (p : vpc) : nat := match p with VDone k => k | _ => O end.
Definition liveT (s : fstate) : list (Z * Z) := skipn (doomed (vtx s)) (txnQ (fb s)).
Definition liveV (s : fstate) : list (Z * Z) := skipn (doomed (vvr s)) (verQ (fb s)).

(* structural invariant of the code WITH the re-check: holds after every
   schedule, whatever the clock *)
Record FInv0 (s : fstate) : Prop := {
  f_cur_in : lookup (cur (fb s)) (vers (fb s)) <> None;
  f_vers_le : forall v, lookup v (vers (fb s)) <> None -> v <= cur (fb s);
  f_vq_lt : Forall (fun e => snd e < cur (fb s)) (verQ (fb s));
  f_owes_lt : forall u p, owes s u p -> p < cur (fb s);
  f_doomed_t : (doomed (vtx s) <= length (txnQ (fb s)))%nat;
  f_doomed_v : (doomed (vvr s) <= length (verQ (fb s)))%nat;
  f_tq_nodup : NoDup (map snd (liveT s));
  f_tq_pin : forall txn, In txn (map snd (liveT s)) -> lookup txn (pins (fb s)) <> None;
  f_anch_pin : forall g txn, anchoring s g txn -> lookup txn (pins (fb s)) <> None;
  f_anch_live : forall g txn, anchoring s g txn -> ~ In txn (map snd (liveT s));
  f_anch_uniq : forall g g' txn, anchoring s g txn -> anchoring s g' txn -> g = g'
}.

Lemma FInv0_init d0 : FInv0 (finit d0).
Proof.
  constructor; cbn; try (intros; contradiction); try constructor; try lia.
  - discriminate.
  - intros v. destruct (v =? 1) eqn:E; [apply Z.eqb_eq in E; lia|congruence].
Qed.

(* ------------------------------------------------------------------ *)
(* how the vocabulary moves with the goroutine tables                   *)

Definition anchors (pc : gpc) (txn : Z) : Prop :=
  match pc with GPinned t _ | GClocked t _ _ => t = txn | _ => False end.
Definition owing (pc : upc) (p : Z) : Prop :=
  match pc with UPub p' | UClocked p' _ => p' = p | _ => False end.

Lemma anchoring_lookup s g pc txn : flookup g (gth s) = Some pc -> anchors pc txn -> anchoring s g txn.
Proof. intros L H. unfold anchoring. rewrite L. destruct pc; exact H. Qed.

Lemma anchoring_set s b g0 pc g txn :
  anchoring (with_g s b (fset g0 pc (gth s))) g txn ->
  (g = g0 /\ anchors pc txn) \/ (g <> g0 /\ anchoring s g txn).
Proof.
  unfold anchoring. cbn [with_g gth]. destruct (Z.eq_dec g g0) as [->|N].
  - rewrite flookup_fset_eq. intros H. left. split; [reflexivity|]. destruct pc; exact H.
  - rewrite flookup_fset_neq by exact N. intros H. right. split; assumption.
Qed.

Lemma anchoring_del s b g0 g txn :
  anchoring (with_g s b (fdel g0 (gth s))) g txn -> g <> g0 /\ anchoring s g txn.
Proof.
  unfold anchoring. cbn [with_g gth]. destruct (Z.eq_dec g g0) as [->|N].
  - rewrite flookup_fdel_eq. intros [].
  - rewrite flookup_fdel_neq by exact N. intros H. split; assumption.
Qed.

Lemma owes_lookup s u pc p : flookup u (uth s) = Some pc -> owing pc p -> owes s u p.
Proof. intros L H. unfold owes. rewrite L. destruct pc; exact H. Qed.

Lemma owes_set s b u0 pc u p :
  owes (with_u s b (fset u0 pc (uth s))) u p ->
  (u = u0 /\ owing pc p) \/ (u <> u0 /\ owes s u p).
Proof.
  unfold owes. cbn [with_u uth]. destruct (Z.eq_dec u u0) as [->|N].
  - rewrite flookup_fset_eq. intros H. left. split; [reflexivity|]. destruct pc; exact H.
  - rewrite flookup_fset_neq by exact N. intros H. right. split; assumption.
Qed.

Lemma owes_del s b u0 u p :
  owes (with_u s b (fdel u0 (uth s))) u p -> u <> u0 /\ owes s u p.
Proof.
  unfold owes. cbn [with_u uth]. destruct (Z.eq_dec u u0) as [->|N].
  - rewrite flookup_fdel_eq. intros [].
  - rewrite flookup_fdel_neq by exact N. intros H. split; assumption.
Qed.

Lemma st_txn_same b : st_txn b (txnQ b) (pins b) = b.
Proof. destruct b. reflexivity. Qed.
Lemma st_ver_same b : st_ver b (verQ b) (vers b) = b.
Proof. destruct b. reflexivity. Qed.

Lemma lookup_set_some k k' v m : lookup k m <> None -> lookup k (set k' v m) <> None.
Proof.
  intros H. destruct (Z.eq_dec k k') as [->|N].
  - rewrite lookup_set_eq. discriminate.
  - rewrite lookup_set_neq by exact N. exact H.
Qed.

Lemma Forall_skipn {A} (P : A -> Prop) k (l : list A) : Forall P l -> Forall P (skipn k l).
Proof.
  intros F. rewrite <- (firstn_skipn k l) in F. apply Forall_app in F. tauto.
Qed.

(* nothing but goroutine states changed, and no goroutine took on an obligation *)
Lemma FInv0_frame s s' :
  fb s' = fb s -> doomed (vtx s') = doomed (vtx s) -> doomed (vvr s') = doomed (vvr s) ->
  (forall g txn, anchoring s' g txn -> anchoring s g txn) ->
  (forall u p, owes s' u p -> owes s u p) ->
  FInv0 s -> FInv0 s'.
Proof.
  intros Eb Et Ev Ha Ho I. destruct I.
  assert (liveT s' = liveT s) as El by (unfold liveT; rewrite Eb, Et; reflexivity).
  constructor; rewrite ?Eb, ?Et, ?Ev, ?El; try assumption.
  - intros u p H. apply (f_owes_lt0 u). apply Ho. exact H.
  - intros g txn H. apply (f_anch_pin0 g). apply Ha. exact H.
  - intros g txn H. apply (f_anch_live0 g). apply Ha. exact H.
  - intros g g' txn H1 H2. apply (f_anch_uniq0 g g' txn); apply Ha; assumption.
Qed.

Lemma FInv0_step s a : FInv0 s -> FInv0 (fst (fstep_v ffixed s a)).
Proof.
  intros I. destruct a as [g txn now|g now|g now|g now|g now|g now|u d now|u now|u now|u now|u now|w k now];
    cbn [fstep_v recheck_anchor ffixed].
  - (* GRead *)
    destruct (flookup g (gth s)) as [pc|] eqn:L; [exact I|]. cbn [fst].
    apply (FInv0_frame s); try reflexivity; [|intros u p H; exact H|exact I].
    intros g' t H. apply anchoring_set in H. destruct H as [[_ H]|[_ H]]; [|exact H].
    destruct (lookup txn (pins (fb s))); destruct H.
  - (* GPin *)
    destruct (flookup g (gth s)) as [[txn|? ?|? ? ?|? ?|? ?]|] eqn:L; try exact I.
    destruct (lookup txn (pins (fb s))) as [v|] eqn:P; cbn [fst].
    + apply (FInv0_frame s); try reflexivity; [|intros u p H; exact H|exact I].
      intros g' t H. apply anchoring_set in H. destruct H as [[_ []]|[_ H]]. exact H.
    + destruct I.
      assert (liveT (with_g s (st_pin (fb s) txn) (fset g (GPinned txn (cur (fb s))) (gth s))) = liveT s)
        as El by reflexivity.
      constructor; rewrite ?El; cbn [with_g fb st_pin cur vers pins txnQ verQ vtx vvr]; try assumption.
      * intros txn' H. apply lookup_set_some. apply f_tq_pin0. exact H.
      * intros g' txn' H. apply anchoring_set in H. destruct H as [[_ H]|[_ H]].
        -- cbn in H. subst txn'. rewrite lookup_set_eq. discriminate.
        -- apply lookup_set_some. apply (f_anch_pin0 g'). exact H.
      * intros g' txn' H. apply anchoring_set in H. destruct H as [[_ H]|[_ H]].
        -- cbn in H. subst txn'. intros Hin. apply f_tq_pin0 in Hin. congruence.
        -- apply (f_anch_live0 g'). exact H.
      * intros g1 g2 txn' H1 H2. apply anchoring_set in H1. apply anchoring_set in H2.
        destruct H1 as [[E1 H1]|[N1 H1]], H2 as [[E2 H2]|[N2 H2]].
        -- congruence.
        -- cbn in H1. subst txn'. apply f_anch_pin0 in H2. congruence.
        -- cbn in H2. subst txn'. apply f_anch_pin0 in H1. congruence.
        -- apply (f_anch_uniq0 g1 g2 txn'); assumption.
  - (* GClock *)
    destruct (flookup g (gth s)) as [[?|txn v|? ? ?|? ?|? ?]|] eqn:L; try exact I. cbn [fst].
    apply (FInv0_frame s); try reflexivity; [|intros u p H; exact H|exact I].
    intros g' t H. apply anchoring_set in H. destruct H as [[-> H]|[_ H]]; [|exact H].
    cbn in H. apply (anchoring_lookup s g _ t L). exact H.
  - (* GEnq *)
    destruct (flookup g (gth s)) as [[?|? ?|txn v t|? ?|? ?]|] eqn:L; try exact I. cbn [fst].
    assert (anchoring s g txn) as Ag by (apply (anchoring_lookup s g _ txn L); reflexivity).
    destruct I.
    assert (liveT (with_g s (st_enq_txn (fb s) t txn) (fset g (GHave txn v) (gth s)))
            = liveT s ++ [(t + ttl, txn)]) as El.
    { unfold liveT. cbn [with_g fb vtx st_enq_txn txnQ]. apply skipn_snoc. exact f_doomed_t0. }
    constructor; rewrite ?El; cbn [with_g fb st_enq_txn cur vers pins txnQ verQ vtx vvr]; try assumption.
    + rewrite app_length. cbn [length]. lia.
    + rewrite map_app. cbn [map snd]. apply NoDup_snoc; [exact f_tq_nodup0|].
      apply (f_anch_live0 g). exact Ag.
    + intros txn' H. rewrite map_app in H. cbn [map snd] in H. apply in_app_or in H.
      destruct H as [H|[<-|[]]]; [apply f_tq_pin0; exact H|apply (f_anch_pin0 g); exact Ag].
    + intros g' txn' H. apply anchoring_set in H. destruct H as [[_ []]|[_ H]].
      apply (f_anch_pin0 g'). exact H.
    + intros g' txn' H. apply anchoring_set in H. destruct H as [[_ []]|[N H]].
      rewrite map_app. cbn [map snd]. intros Hin. apply in_app_or in Hin.
      destruct Hin as [Hin|[<-|[]]]; [exact (f_anch_live0 g' txn' H Hin)|].
      apply N. apply (f_anch_uniq0 g' g txn); assumption.
    + intros g1 g2 txn' H1 H2. apply anchoring_set in H1. apply anchoring_set in H2.
      destruct H1 as [[_ []]|[_ H1]], H2 as [[_ []]|[_ H2]].
      apply (f_anch_uniq0 g1 g2 txn'); assumption.
  - (* GData *)
    destruct (flookup g (gth s)) as [[?|? ?|? ? ?|txn v|? ?]|] eqn:L; try exact I.
    destruct (lookup v (vers (fb s))); cbn [fst];
      (apply (FInv0_frame s); try reflexivity; [|intros u p H; exact H|exact I]); intros g' t H.
    + apply anchoring_del in H. tauto.
    + apply anchoring_set in H. destruct H as [[_ []]|[_ H]]. exact H.
  - (* GCur *)
    destruct (flookup g (gth s)) as [[?|? ?|? ? ?|? ?|txn v]|] eqn:L; try exact I. cbn [fst].
    apply (FInv0_frame s); try reflexivity; [|intros u p H; exact H|exact I].
    intros g' t H. apply anchoring_del in H. tauto.
  - (* UBegin *)
    destruct (flookup u (uth s)) as [pc|] eqn:L; [exact I|]. cbn [fst].
    apply (FInv0_frame s); try reflexivity; [intros g t H; exact H| |exact I].
    intros u' p H. apply owes_set in H. destruct H as [[_ []]|[_ H]]. exact H.
  - (* UFail *)
    destruct (flookup u (uth s)) as [[d|?|? ?]|] eqn:L; try exact I. cbn [fst].
    apply (FInv0_frame s); try reflexivity; [intros g t H; exact H| |exact I].
    intros u' p H. apply owes_del in H. tauto.
  - (* UPublish *)
    destruct (flookup u (uth s)) as [[d|?|? ?]|] eqn:L; try exact I. cbn [fst].
    destruct I.
    assert (liveT (with_u s (publish (fb s) d) (fset u (UPub (cur (fb s))) (uth s))) = liveT s)
      as El by reflexivity.
    constructor; rewrite ?El; cbn [with_u fb publish cur vers pins txnQ verQ vtx vvr]; try assumption.
    + rewrite lookup_set_eq. discriminate.
    + intros v H. destruct (Z.eq_dec v (cur (fb s) + 1)) as [->|N]; [lia|].
      rewrite lookup_set_neq in H by exact N. apply f_vers_le0 in H. lia.
    + eapply Forall_impl; [|exact f_vq_lt0]. cbn. intros; lia.
    + intros u' p H. apply owes_set in H. destruct H as [[_ H]|[_ H]].
      * cbn in H. lia.
      * apply f_owes_lt0 in H. lia.
  - (* UClock *)
    destruct (flookup u (uth s)) as [[?|p|? ?]|] eqn:L; try exact I. cbn [fst].
    apply (FInv0_frame s); try reflexivity; [intros g t H; exact H| |exact I].
    intros u' p' H. apply owes_set in H. destruct H as [[-> H]|[_ H]]; [|exact H].
    cbn in H. apply (owes_lookup s u _ p' L). exact H.
  - (* UEnq *)
    destruct (flookup u (uth s)) as [[?|?|p t]|] eqn:L; try exact I. cbn [fst].
    assert (owes s u p) as Ou by (apply (owes_lookup s u _ p L); reflexivity).
    destruct I.
    assert (liveT (with_u s (schedule (fb s) p t) (fdel u (uth s))) = liveT s) as El by reflexivity.
    constructor; rewrite ?El; cbn [with_u fb schedule cur vers pins txnQ verQ vtx vvr]; try assumption.
    + apply Forall_app. split; [exact f_vq_lt0|]. constructor; [|constructor].
      cbn [snd]. apply (f_owes_lt0 u). exact Ou.
    + intros u' p' H. apply owes_del in H. destruct H as [_ H]. apply (f_owes_lt0 u'). exact H.
    + rewrite app_length. cbn [length]. lia.
  - (* Vac *)
    destruct w.
    + (* versions *)
      destruct (vac_step k now (vvr s) (verQ (fb s)) (vers (fb s))) as [[p' q'] m'] eqn:E. cbn [fst].
      destruct (vac_step_cases _ _ _ _ _ _ _ _ E) as
        [(-> & -> & Hp)|[(n & t & rem & rest & Hp & -> & -> & Hq & Hf & Hin & Hout)|(c & Hp & -> & -> & ->)]].
      * apply (FInv0_frame s); cbn [with_vv fb vtx vvr]; try reflexivity;
          [apply st_ver_same| |intros g t H; exact H|intros u p H; exact H|exact I].
        destruct Hp as [->|[[-> ->]|(n & _ & -> & ->)]]; reflexivity.
      * destruct I.
        assert (liveT (with_vv s (st_ver (fb s) (verQ (fb s)) m') (VDone (length rem))) = liveT s)
          as El by reflexivity.
        assert (forall v, In v (map snd rem) -> v < cur (fb s)) as Hrem.
        { intros v H. apply in_map_iff in H. destruct H as (e & <- & He).
          rewrite Forall_forall in f_vq_lt0. apply f_vq_lt0. rewrite Hq.
          apply in_or_app. left. exact He. }
        constructor; rewrite ?El; cbn [with_vv fb st_ver cur vers pins txnQ verQ vtx vvr doomed]; try assumption.
        -- rewrite Hout; [exact f_cur_in0|]. intros H. apply Hrem in H. lia.
        -- intros v H. apply f_vers_le0.
           destruct (in_dec Z.eq_dec v (map snd rem)) as [X|X];
             [rewrite (Hin _ X) in H; congruence|rewrite (Hout _ X) in H; exact H].
        -- rewrite Hq, app_length. lia.
      * destruct I.
        assert (liveT (with_vv s (st_ver (fb s) (skipn c (verQ (fb s))) (vers (fb s))) VIdle) = liveT s)
          as El by reflexivity.
        constructor; rewrite ?El; cbn [with_vv fb st_ver cur vers pins txnQ verQ vtx vvr doomed]; try assumption.
        -- apply Forall_skipn. exact f_vq_lt0.
        -- lia.
    + (* transactions *)
      destruct (vac_step k now (vtx s) (txnQ (fb s)) (pins (fb s))) as [[p' q'] m'] eqn:E. cbn [fst].
      destruct (vac_step_cases _ _ _ _ _ _ _ _ E) as
        [(-> & -> & Hp)|[(n & t & rem & rest & Hp & -> & -> & Hq & Hf & Hin & Hout)|(c & Hp & -> & -> & ->)]].
      * apply (FInv0_frame s); cbn [with_vt fb vtx vvr]; try reflexivity;
          [apply st_txn_same| |intros g t H; exact H|intros u p H; exact H|exact I].
        destruct Hp as [->|[[-> ->]|(n & _ & -> & ->)]]; reflexivity.
      * destruct I.
        assert (liveT s = rem ++ rest) as El0 by (unfold liveT; rewrite Hp; exact Hq).
        assert (liveT (with_vt s (st_txn (fb s) (txnQ (fb s)) m') (VDone (length rem))) = rest) as El.
        { unfold liveT. cbn [with_vt fb vtx st_txn txnQ doomed]. rewrite Hq. apply skipn_length_app. }
        rewrite El0, map_app in f_tq_nodup0.
        destruct (NoDup_app_split _ _ f_tq_nodup0) as [ND Hdis].
        assert (forall x, In x (map snd rest) -> In x (map snd (liveT s))) as Hsub.
        { intros x H. rewrite El0, map_app. apply in_or_app. right. exact H. }
        assert (forall x, In x (map snd rem) -> In x (map snd (liveT s))) as Hsub'.
        { intros x H. rewrite El0, map_app. apply in_or_app. left. exact H. }
        constructor; rewrite ?El; cbn [with_vt fb st_txn cur vers pins txnQ verQ vtx vvr doomed]; try assumption.
        -- rewrite Hq, app_length. lia.
        -- intros txn H. rewrite Hout; [apply f_tq_pin0, Hsub, H|].
           intros H'. exact (Hdis _ H' H).
        -- intros g txn H. rewrite Hout; [apply (f_anch_pin0 g), H|].
           intros H'. exact (f_anch_live0 g txn H (Hsub' _ H')).
        -- intros g txn H H'. exact (f_anch_live0 g txn H (Hsub _ H')).
      * destruct I.
        assert (liveT (with_vt s (st_txn (fb s) (skipn c (txnQ (fb s))) (pins (fb s))) VIdle) = liveT s)
          as El by (unfold liveT; rewrite Hp; reflexivity).
        constructor; rewrite ?El; cbn [with_vt fb st_txn cur vers pins txnQ verQ vtx vvr doomed]; try assumption.
        lia.
Qed.

Lemma FInv0_after h : forall s, FInv0 s -> FInv0 (fafter s h).
Proof.
  induction h as [|a h IH]; intros s I; [exact I|].
  unfold fafter. rewrite fafter_cons. apply IH. apply FInv0_step. exact I.
Qed.

(* ------------------------------------------------------------------ *)
(* tracking one anchored transaction through its retention period,      *)
(* under any interleaving                                               *)

(* what a goroutine of U (version not determined when txn was anchored) may
   have found for txn: only v, and never "v is missing" *)
Definition det1 (txn v : Z) (p : option gpc) : Prop :=
  match p with
  | Some (GHave t v') | Some (GPinned t v') | Some (GClocked t v' _) => t = txn -> v' = v
  | Some (GMiss t _) => t <> txn
  | _ => True
  end.
Definition Det (U : Z -> bool) (txn v : Z) (t : list (Z * gpc)) : Prop :=
  forall g, U g = true -> det1 txn v (flookup g t).

Lemma Det_set U txn v t g0 pc :
  Det U txn v t -> (U g0 = true -> det1 txn v (Some pc)) -> Det U txn v (fset g0 pc t).
Proof.
  intros D H g Ug. destruct (Z.eq_dec g g0) as [->|N].
  - rewrite flookup_fset_eq. apply H. exact Ug.
  - rewrite flookup_fset_neq by exact N. apply D. exact Ug.
Qed.

Lemma Det_del U txn v t g0 : Det U txn v t -> Det U txn v (fdel g0 t).
Proof.
  intros D g Ug. destruct (Z.eq_dec g g0) as [->|N].
  - rewrite flookup_fdel_eq. exact I.
  - rewrite flookup_fdel_neq by exact N. apply D. exact Ug.
Qed.

(* clock readings held by goroutines that will queue txn / version v *)
Definition Gclk (txn t0 : Z) (t : list (Z * gpc)) : Prop :=
  forall g v' tt, flookup g t = Some (GClocked txn v' tt) -> t0 <= tt.
Definition Uclk (v t0 : Z) (t : list (Z * upc)) : Prop :=
  forall u tt, flookup u t = Some (UClocked v tt) -> t0 <= tt.

Lemma Gclk_set txn t0 t g0 pc :
  Gclk txn t0 t -> (forall v' tt, pc = GClocked txn v' tt -> t0 <= tt) -> Gclk txn t0 (fset g0 pc t).
Proof.
  intros G H g v' tt L. destruct (Z.eq_dec g g0) as [->|N].
  - rewrite flookup_fset_eq in L. inversion L. eapply H. eassumption.
  - rewrite flookup_fset_neq in L by exact N. eapply G. eassumption.
Qed.

Lemma Gclk_del txn t0 t g0 : Gclk txn t0 t -> Gclk txn t0 (fdel g0 t).
Proof.
  intros G g v' tt L. destruct (Z.eq_dec g g0) as [->|N].
  - rewrite flookup_fdel_eq in L. discriminate.
  - rewrite flookup_fdel_neq in L by exact N. eapply G. eassumption.
Qed.

Lemma Uclk_set v t0 t u0 pc :
  Uclk v t0 t -> (forall tt, pc = UClocked v tt -> t0 <= tt) -> Uclk v t0 (fset u0 pc t).
Proof.
  intros G H u tt L. destruct (Z.eq_dec u u0) as [->|N].
  - rewrite flookup_fset_eq in L. inversion L. eapply H. eassumption.
  - rewrite flookup_fset_neq in L by exact N. eapply G. eassumption.
Qed.

Lemma Uclk_del v t0 t u0 : Uclk v t0 t -> Uclk v t0 (fdel u0 t).
Proof.
  intros G u tt L. destruct (Z.eq_dec u u0) as [->|N].
  - rewrite flookup_fdel_eq in L. discriminate.
  - rewrite flookup_fdel_neq in L by exact N. eapply G. eassumption.
Qed.

(* txn is anchored to v (anchored at instant t0), v carries d; every entry that
   could remove the anchor or the version is due no earlier than t0 + ttl, every
   clock reading from which such an entry will be made is no earlier than t0, and
   no pass holds a clock reading later than t0 + ttl *)
Record FTrack (U : Z -> bool) (txn v d t0 : Z) (s : fstate) : Prop := {
  t_pin : lookup txn (pins (fb s)) = Some v;
  t_live : forall a, In (a, txn) (liveT s) -> t0 + ttl <= a;
  t_gclk : Gclk txn t0 (gth s);
  t_vtx : forall n now, vtx s = VTimed n now -> now <= t0 + ttl;
  t_data : lookup v (vers (fb s)) = Some d;
  t_vlive : forall a, In (a, v) (liveV s) -> t0 + ttl <= a;
  t_uclk : Uclk v t0 (uth s);
  t_vvr : forall n now, vvr s = VTimed n now -> now <= t0 + ttl;
  t_det : Det U txn v (gth s)
}.

Definition in_window (t0 : Z) (a : fact) : Prop :=
  forall t, fclock a = Some t -> t0 <= t <= t0 + ttl.

Lemma in_key_of (q : list (Z * Z)) k : In k (map snd q) -> exists a, In (a, k) q.
Proof.
  intros H. apply in_map_iff in H. destruct H as ([a k'] & E & H). cbn in E. subst. exists a. exact H.
Qed.

Lemma FTrack_step U txn v d t0 s a :
  FInv0 s -> FTrack U txn v d t0 s -> in_window t0 a ->
  FTrack U txn v d t0 (fst (fstep_v ffixed s a)).
Proof.
  intros I T W. pose proof T as T0. destruct T.
  destruct a as [g tx now|g now|g now|g now|g now|g now|u d' now|u now|u now|u now|u now|w k now];
    cbn [fstep_v recheck_anchor ffixed].
  - (* GRead *)
    destruct (flookup g (gth s)) as [pc|] eqn:L; [exact T0|]. cbn [fst].
    constructor; cbn [with_g fb gth uth vtx vvr]; try assumption.
    + apply Gclk_set; [exact t_gclk0|]. intros v' tt E. destruct (lookup tx (pins (fb s))); discriminate.
    + apply Det_set; [exact t_det0|]. intros _.
      destruct (lookup tx (pins (fb s))) as [v'|] eqn:P; cbn [det1]; [|exact Logic.I].
      intros ->. congruence.
  - (* GPin *)
    destruct (flookup g (gth s)) as [[tx|? ?|? ? ?|? ?|? ?]|] eqn:L; try exact T0.
    destruct (lookup tx (pins (fb s))) as [v'|] eqn:P; cbn [fst].
    + constructor; cbn [with_g fb gth uth vtx vvr]; try assumption.
      * apply Gclk_set; [exact t_gclk0|]. discriminate.
      * apply Det_set; [exact t_det0|]. intros _. cbn [det1]. intros ->. congruence.
    + assert (tx <> txn) as N by (intros ->; congruence).
      constructor; cbn [with_g fb st_pin cur vers pins txnQ verQ gth uth vtx vvr]; try assumption.
      * rewrite lookup_set_neq by (intros E; apply N; symmetry; exact E). exact t_pin0.
      * apply Gclk_set; [exact t_gclk0|]. discriminate.
      * apply Det_set; [exact t_det0|]. intros _. cbn [det1]. intros E. contradiction.
  - (* GClock *)
    destruct (flookup g (gth s)) as [[?|tx v'|? ? ?|? ?|? ?]|] eqn:L; try exact T0. cbn [fst].
    specialize (W now eq_refl).
    constructor; cbn [with_g fb gth uth vtx vvr]; try assumption.
    + apply Gclk_set; [exact t_gclk0|]. intros v2 tt E. inversion E. lia.
    + apply Det_set; [exact t_det0|]. intros Ug. specialize (t_det0 g Ug). rewrite L in t_det0. exact t_det0.
  - (* GEnq *)
    destruct (flookup g (gth s)) as [[?|? ?|tx v' t|? ?|? ?]|] eqn:L; try exact T0. cbn [fst].
    assert (liveT (with_g s (st_enq_txn (fb s) t tx) (fset g (GHave tx v') (gth s)))
            = liveT s ++ [(t + ttl, tx)]) as El.
    { unfold liveT. cbn [with_g fb vtx st_enq_txn txnQ]. apply skipn_snoc. apply (f_doomed_t _ I). }
    constructor; rewrite ?El; cbn [with_g fb st_enq_txn cur vers pins txnQ verQ gth uth vtx vvr]; try assumption.
    + intros a H. apply in_app_or in H. destruct H as [H|[H|[]]]; [apply t_live0; exact H|].
      inversion H; subst. pose proof (t_gclk0 g v' t L). lia.
    + apply Gclk_set; [exact t_gclk0|]. discriminate.
    + apply Det_set; [exact t_det0|]. intros Ug. specialize (t_det0 g Ug). rewrite L in t_det0. exact t_det0.
  - (* GData *)
    destruct (flookup g (gth s)) as [[?|? ?|? ? ?|tx v'|? ?]|] eqn:L; try exact T0.
    destruct (lookup v' (vers (fb s))) as [d2|] eqn:Lv; cbn [fst];
      constructor; cbn [with_g fb gth uth vtx vvr]; try assumption.
    + apply Gclk_del. exact t_gclk0.
    + apply Det_del. exact t_det0.
    + apply Gclk_set; [exact t_gclk0|]. discriminate.
    + apply Det_set; [exact t_det0|]. intros Ug. specialize (t_det0 g Ug). rewrite L in t_det0.
      cbn [det1] in *. intros ->. specialize (t_det0 eq_refl). subst v'. congruence.
  - (* GCur *)
    destruct (flookup g (gth s)) as [[?|? ?|? ? ?|? ?|tx v']|] eqn:L; try exact T0. cbn [fst].
    constructor; cbn [with_g fb gth uth vtx vvr]; try assumption.
    + apply Gclk_del. exact t_gclk0.
    + apply Det_del. exact t_det0.
  - (* UBegin *)
    destruct (flookup u (uth s)) as [pc|] eqn:L; [exact T0|]. cbn [fst].
    constructor; cbn [with_u fb gth uth vtx vvr]; try assumption.
    apply Uclk_set; [exact t_uclk0|]. discriminate.
  - (* UFail *)
    destruct (flookup u (uth s)) as [[d2|?|? ?]|] eqn:L; try exact T0. cbn [fst].
    constructor; cbn [with_u fb gth uth vtx vvr]; try assumption.
    apply Uclk_del. exact t_uclk0.
  - (* UPublish *)
    destruct (flookup u (uth s)) as [[d2|?|? ?]|] eqn:L; try exact T0. cbn [fst].
    assert (v <= cur (fb s)) as Hle by (apply (f_vers_le _ I); congruence).
    constructor; cbn [with_u fb publish cur vers pins txnQ verQ gth uth vtx vvr]; try assumption.
    + rewrite lookup_set_neq by lia. exact t_data0.
    + apply Uclk_set; [exact t_uclk0|]. discriminate.
  - (* UClock *)
    destruct (flookup u (uth s)) as [[?|p|? ?]|] eqn:L; try exact T0. cbn [fst].
    specialize (W now eq_refl).
    constructor; cbn [with_u fb gth uth vtx vvr]; try assumption.
    apply Uclk_set; [exact t_uclk0|]. intros tt E. inversion E. lia.
  - (* UEnq *)
    destruct (flookup u (uth s)) as [[?|?|p t]|] eqn:L; try exact T0. cbn [fst].
    assert (liveV (with_u s (schedule (fb s) p t) (fdel u (uth s))) = liveV s ++ [(t + ttl, p)]) as El.
    { unfold liveV. cbn [with_u fb vvr schedule verQ]. apply skipn_snoc. apply (f_doomed_v _ I). }
    constructor; rewrite ?El; cbn [with_u fb schedule cur vers pins txnQ verQ gth uth vtx vvr]; try assumption.
    + intros a H. apply in_app_or in H. destruct H as [H|[H|[]]]; [apply t_vlive0; exact H|].
      inversion H; subst. pose proof (t_uclk0 u t L). lia.
    + apply Uclk_del. exact t_uclk0.
  - (* Vac *)
    destruct w.
    + destruct (vac_step k now (vvr s) (verQ (fb s)) (vers (fb s))) as [[p' q'] m'] eqn:E. cbn [fst].
      destruct (vac_step_cases _ _ _ _ _ _ _ _ E) as
        [(-> & -> & Hp)|[(n & t & rem & rest & Hp & -> & -> & Hq & Hf & Hin & Hout)|(c & Hp & -> & -> & ->)]].
      * assert (liveV (with_vv s (st_ver (fb s) (verQ (fb s)) (vers (fb s))) p') = liveV s) as El.
        { unfold liveV. cbn [with_vv fb vvr st_ver verQ].
          destruct Hp as [->|[[-> ->]|(n & _ & -> & ->)]]; reflexivity. }
        constructor; rewrite ?El; cbn [with_vv fb st_ver cur vers pins txnQ verQ gth uth vtx vvr]; try assumption.
        intros n nw Ev. destruct Hp as [->|[[_ ->]|(n0 & -> & _ & ->)]]; try discriminate.
        -- eapply t_vvr0. exact Ev.
        -- inversion Ev; subst. specialize (W nw eq_refl). lia.
      * assert (liveV s = rem ++ rest) as El0 by (unfold liveV; rewrite Hp; exact Hq).
        assert (liveV (with_vv s (st_ver (fb s) (verQ (fb s)) m') (VDone (length rem))) = rest) as El.
        { unfold liveV. cbn [with_vv fb vvr st_ver verQ doomed]. rewrite Hq. apply skipn_length_app. }
        pose proof (t_vvr0 _ _ Hp) as Ht.
        constructor; rewrite ?El; cbn [with_vv fb st_ver cur vers pins txnQ verQ gth uth vtx vvr]; try assumption.
        -- rewrite Hout; [exact t_data0|]. intros H. apply in_key_of in H. destruct H as (a & H).
           rewrite Forall_forall in Hf. pose proof (Hf _ H) as Ha. cbn [fst] in Ha.
           assert (t0 + ttl <= a) by (apply t_vlive0; rewrite El0; apply in_or_app; left; exact H). lia.
        -- intros a H. apply t_vlive0. rewrite El0. apply in_or_app. right. exact H.
        -- discriminate.
      * assert (liveV (with_vv s (st_ver (fb s) (skipn c (verQ (fb s))) (vers (fb s))) VIdle) = liveV s)
          as El by (unfold liveV; rewrite Hp; reflexivity).
        constructor; rewrite ?El; cbn [with_vv fb st_ver cur vers pins txnQ verQ gth uth vtx vvr]; try assumption.
        discriminate.
    + destruct (vac_step k now (vtx s) (txnQ (fb s)) (pins (fb s))) as [[p' q'] m'] eqn:E. cbn [fst].
      destruct (vac_step_cases _ _ _ _ _ _ _ _ E) as
        [(-> & -> & Hp)|[(n & t & rem & rest & Hp & -> & -> & Hq & Hf & Hin & Hout)|(c & Hp & -> & -> & ->)]].
      * assert (liveT (with_vt s (st_txn (fb s) (txnQ (fb s)) (pins (fb s))) p') = liveT s) as El.
        { unfold liveT. cbn [with_vt fb vtx st_txn txnQ].
          destruct Hp as [->|[[-> ->]|(n & _ & -> & ->)]]; reflexivity. }
        constructor; rewrite ?El; cbn [with_vt fb st_txn cur vers pins txnQ verQ gth uth vtx vvr]; try assumption.
        intros n nw Ev. destruct Hp as [->|[[_ ->]|(n0 & -> & _ & ->)]]; try discriminate.
        -- eapply t_vtx0. exact Ev.
        -- inversion Ev; subst. specialize (W nw eq_refl). lia.
      * assert (liveT s = rem ++ rest) as El0 by (unfold liveT; rewrite Hp; exact Hq).
        assert (liveT (with_vt s (st_txn (fb s) (txnQ (fb s)) m') (VDone (length rem))) = rest) as El.
        { unfold liveT. cbn [with_vt fb vtx st_txn txnQ doomed]. rewrite Hq. apply skipn_length_app. }
        pose proof (t_vtx0 _ _ Hp) as Ht.
        constructor; rewrite ?El; cbn [with_vt fb st_txn cur vers pins txnQ verQ gth uth vtx vvr]; try assumption.
        -- rewrite Hout; [exact t_pin0|]. intros H. apply in_key_of in H. destruct H as (a & H).
           rewrite Forall_forall in Hf. pose proof (Hf _ H) as Ha. cbn [fst] in Ha.
           assert (t0 + ttl <= a) by (apply t_live0; rewrite El0; apply in_or_app; left; exact H). lia.
        -- intros a H. apply t_live0. rewrite El0. apply in_or_app. right. exact H.
        -- discriminate.
      * assert (liveT (with_vt s (st_txn (fb s) (skipn c (txnQ (fb s))) (pins (fb s))) VIdle) = liveT s)
          as El by (unfold liveT; rewrite Hp; reflexivity).
        constructor; rewrite ?El; cbn [with_vt fb st_txn cur vers pins txnQ verQ gth uth vtx vvr]; try assumption.
        discriminate.
Qed.

(* what a completing look-up of txn returns while txn is tracked *)
Lemma FTrack_out U txn v d t0 s a o :
  FTrack U txn v d t0 s -> snd (fstep_v ffixed s a) = Some o ->
  fo_txn o = txn -> U (fo_g o) = true ->
  fo_out o = {| o_ver := v; o_data := Some d; o_fallback := false |}.
Proof.
  intros T E Et Ug. destruct T.
  destruct a as [g tx now|g now|g now|g now|g now|g now|u d' now|u now|u now|u now|u now|w k now];
    cbn [fstep_v recheck_anchor ffixed] in E.
  - destruct (flookup g (gth s)); discriminate.
  - destruct (flookup g (gth s)) as [[tx|? ?|? ? ?|? ?|? ?]|]; try discriminate.
    destruct (lookup tx (pins (fb s))); discriminate.
  - destruct (flookup g (gth s)) as [[?|? ?|? ? ?|? ?|? ?]|]; discriminate.
  - destruct (flookup g (gth s)) as [[?|? ?|? ? ?|? ?|? ?]|]; discriminate.
  - destruct (flookup g (gth s)) as [[?|? ?|? ? ?|tx v'|? ?]|] eqn:L; try discriminate.
    destruct (lookup v' (vers (fb s))) as [d2|] eqn:Lv; [|discriminate].
    cbn [snd] in E. inversion E; subst o. cbn [fo_txn fo_g fo_out] in *. subst tx.
    specialize (t_det0 g Ug). rewrite L in t_det0. cbn [det1] in t_det0.
    specialize (t_det0 eq_refl). subst v'. congruence.
  - destruct (flookup g (gth s)) as [[?|? ?|? ? ?|? ?|tx v']|] eqn:L; try discriminate.
    cbn [snd] in E. inversion E; subst o. cbn [fo_txn fo_g fo_out] in *. subst tx.
    specialize (t_det0 g Ug). rewrite L in t_det0. cbn [det1] in t_det0. contradiction.
  - destruct (flookup u (uth s)); discriminate.
  - destruct (flookup u (uth s)) as [[?|?|? ?]|]; discriminate.
  - destruct (flookup u (uth s)) as [[?|?|? ?]|]; discriminate.
  - destruct (flookup u (uth s)) as [[?|?|? ?]|]; discriminate.
  - destruct (flookup u (uth s)) as [[?|?|? ?]|]; discriminate.
  - destruct w.
    + destruct (vac_step k now (vvr s) (verQ (fb s)) (vers (fb s))) as [[? ?] ?]. discriminate.
    + destruct (vac_step k now (vtx s) (txnQ (fb s)) (pins (fb s))) as [[? ?] ?]. discriminate.
Qed.

(* ------------------------------------------------------------------ *)
(* clock readings held by the two passes                                *)

Definition FBound (T : Z) (s : fstate) : Prop :=
  (forall n now, vtx s = VTimed n now -> now <= T) /\
  (forall n now, vvr s = VTimed n now -> now <= T).

Lemma FBound_step V T s a :
  FBound T s -> (forall t, fclock a = Some t -> t <= T) -> FBound T (fst (fstep_v V s a)).
Proof.
  intros [Bt Bv] W.
  destruct a as [g tx now|g now|g now|g now|g now|g now|u d' now|u now|u now|u now|u now|w k now];
    cbn [fstep_v];
    try (repeat match goal with
                | |- context [match ?x with _ => _ end] => destruct x
                end; split; assumption).
  destruct w.
  - destruct (vac_step k now (vvr s) (verQ (fb s)) (vers (fb s))) as [[p' q'] m'] eqn:E. cbn [fst].
    split; cbn [with_vv vtx vvr]; [exact Bt|].
    destruct (vac_step_cases _ _ _ _ _ _ _ _ E) as
      [(_ & _ & Hp)|[(n & t & rem & rest & _ & -> & _)|(c & _ & -> & _)]]; try discriminate.
    intros n nw Ev. destruct Hp as [->|[[_ ->]|(n0 & -> & _ & ->)]]; try discriminate.
    + eapply Bv. exact Ev.
    + inversion Ev; subst. apply W. reflexivity.
  - destruct (vac_step k now (vtx s) (txnQ (fb s)) (pins (fb s))) as [[p' q'] m'] eqn:E. cbn [fst].
    split; cbn [with_vt vtx vvr]; [|exact Bv].
    destruct (vac_step_cases _ _ _ _ _ _ _ _ E) as
      [(_ & _ & Hp)|[(n & t & rem & rest & _ & -> & _)|(c & _ & -> & _)]]; try discriminate.
    intros n nw Ev. destruct Hp as [->|[[_ ->]|(n0 & -> & _ & ->)]]; try discriminate.
    + eapply Bt. exact Ev.
    + inversion Ev; subst. apply W. reflexivity.
Qed.

Lemma FBound_after V T h : forall s,
  FBound T s -> Forall (fun a => forall t, fclock a = Some t -> t <= T) h ->
  FBound T (fafter_v V s h).
Proof.
  induction h as [|a h IH]; intros s B F; [exact B|].
  inversion F as [|? ? Ha Fh]; subst. rewrite fafter_cons. apply IH; [|exact Fh].
  apply FBound_step; assumption.
Qed.

Lemma FBound_init T d0 : FBound T (finit d0).
Proof. split; cbn; discriminate. Qed.

(* ------------------------------------------------------------------ *)
(* anchoring starts the tracking                                        *)

(* goroutines whose version is not determined yet *)
Definition undetermined (s : fstate) (g : Z) : bool :=
  match flookup g (gth s) with
  | None | Some (GNeed _) => true
  | _ => false
  end.

Lemma In_skipn {A} (x : A) k l : In x (skipn k l) -> In x l.
Proof. intros H. rewrite <- (firstn_skipn k l). apply in_or_app. right. exact H. Qed.

Lemma FTrack_pin s g txn t0 d :
  FInv0 s -> FBound (t0 + ttl) s ->
  flookup g (gth s) = Some (GNeed txn) ->
  lookup txn (pins (fb s)) = None ->
  lookup (cur (fb s)) (vers (fb s)) = Some d ->
  FTrack (undetermined s) txn (cur (fb s)) d t0 (fst (fstep_v ffixed s (GPin g t0))).
Proof.
  intros I [Bt Bv] L P Ld. cbn [fstep_v recheck_anchor ffixed]. rewrite L, P. cbn [fst].
  assert (liveT (with_g s (st_pin (fb s) txn) (fset g (GPinned txn (cur (fb s))) (gth s))) = liveT s)
    as El by reflexivity.
  assert (liveV (with_g s (st_pin (fb s) txn) (fset g (GPinned txn (cur (fb s))) (gth s))) = liveV s)
    as Ev by reflexivity.
  constructor; rewrite ?El, ?Ev; cbn [with_g fb st_pin cur vers pins txnQ verQ gth uth vtx vvr].
  - apply lookup_set_eq.
  - intros a H. exfalso. apply (f_tq_pin _ I txn); [|exact P].
    apply in_map_iff. exists (a, txn). split; [reflexivity|exact H].
  - apply Gclk_set; [|discriminate]. intros g' v' tt Lg. exfalso.
    apply (f_anch_pin _ I g' txn); [|exact P]. apply (anchoring_lookup s g' _ txn Lg). reflexivity.
  - exact Bt.
  - exact Ld.
  - intros a H. exfalso. apply In_skipn in H. pose proof (f_vq_lt _ I) as F.
    rewrite Forall_forall in F. apply F in H. cbn [snd] in H. lia.
  - intros u tt Lu. exfalso.
    assert (cur (fb s) < cur (fb s)); [|lia].
    apply (f_owes_lt _ I u). apply (owes_lookup s u _ _ Lu). reflexivity.
  - exact Bv.
  - apply Det_set.
    + intros g' Ug. unfold undetermined in Ug.
      destruct (flookup g' (gth s)) as [[?|? ?|? ? ?|? ?|? ?]|]; try discriminate; exact Logic.I.
    + intros _. cbn [det1]. reflexivity.
Qed.

(* the tracking lasts as long as every clock reading lies in [t0, t0 + ttl] *)
Lemma FTrack_run U txn v d t0 mid : forall s,
  FInv0 s -> FTrack U txn v d t0 s -> Forall (in_window t0) mid ->
  FInv0 (fafter s mid) /\ FTrack U txn v d t0 (fafter s mid) /\
  forall o, In o (fouts s mid) -> fo_txn o = txn -> U (fo_g o) = true ->
    fo_out o = {| o_ver := v; o_data := Some d; o_fallback := false |}.
Proof.
  induction mid as [|a mid IH]; intros s I T F.
  - split; [exact I|]. split; [exact T|]. intros o [].
  - inversion F as [|? ? Wa Fm]; subst.
    pose proof (FInv0_step s a I) as I'. pose proof (FTrack_step U txn v d t0 s a I T Wa) as T'.
    destruct (IH _ I' T' Fm) as (I2 & T2 & O2).
    unfold fafter, fouts in *. rewrite fafter_cons. split; [exact I2|]. split; [exact T2|].
    intros o Hin Et Ug. cbn [fouts_v] in Hin.
    destruct (fstep_v ffixed s a) as [s' [x|]] eqn:E; cbn [fst] in *.
    + destruct Hin as [<-|Hin]; [|exact (O2 _ Hin Et Ug)].
      apply (FTrack_out U txn v d t0 s a x T); [rewrite E; reflexivity|exact Et|exact Ug].
    + exact (O2 _ Hin Et Ug).
Qed.

(* ------------------------------------------------------------------ *)
(* decidable form of the conditions on clock readings                   *)

Definition fbefore (hi : Z) (a : fact) : bool :=
  match fclock a with Some t => t <=? hi | None => true end.
Definition fwithin (lo hi : Z) (a : fact) : bool :=
  match fclock a with Some t => (lo <=? t) && (t <=? hi) | None => true end.

Lemma fbefore_all hi h :
  forallb (fbefore hi) h = true -> Forall (fun a => forall t, fclock a = Some t -> t <= hi) h.
Proof.
  intros H. rewrite forallb_forall in H. apply Forall_forall. intros a Ha t E.
  specialize (H a Ha). unfold fbefore in H. rewrite E in H. apply Z.leb_le. exact H.
Qed.

Lemma fwithin_all t0 h :
  forallb (fwithin t0 (t0 + ttl)) h = true -> Forall (in_window t0) h.
Proof.
  intros H. rewrite forallb_forall in H. apply Forall_forall. intros a Ha t E.
  specialize (H a Ha). unfold fwithin in H. rewrite E in H.
  apply andb_true_iff in H. destruct H as [H1 H2]. apply Z.leb_le in H1. apply Z.leb_le in H2. lia.
Qed.

(* the two claims for the code with the re-check, window form *)
Lemma fine_pinned_fixed d0 pre g txn t0 mid :
  let s1 := fafter (finit d0) pre in
  flookup g (gth s1) = Some (GNeed txn) ->
  lookup txn (pins (fb s1)) = None ->
  forallb (fbefore (t0 + ttl)) pre = true ->
  forallb (fwithin t0 (t0 + ttl)) mid = true ->
  exists d, lookup (cur (fb s1)) (vers (fb s1)) = Some d /\
    lookup (cur (fb s1)) (vers (fb (fafter (fst (fstep s1 (GPin g t0))) mid))) = Some d /\
    forall o, In o (fouts (fst (fstep s1 (GPin g t0))) mid) ->
      fo_txn o = txn -> undetermined s1 (fo_g o) = true ->
      fo_out o = {| o_ver := cur (fb s1); o_data := Some d; o_fallback := false |}.
Proof.
  intros s1 L P Fp Fm.
  assert (FInv0 s1) as I1 by (apply FInv0_after, FInv0_init).
  assert (FBound (t0 + ttl) s1) as B1.
  { apply FBound_after; [apply FBound_init|apply fbefore_all; exact Fp]. }
  destruct (lookup (cur (fb s1)) (vers (fb s1))) as [d|] eqn:Ld; [|destruct (f_cur_in _ I1 Ld)].
  exists d. split; [reflexivity|].
  pose proof (FTrack_pin s1 g txn t0 d I1 B1 L P Ld) as T.
  pose proof (FInv0_step s1 (GPin g t0) I1) as I2.
  destruct (FTrack_run _ _ _ _ _ mid _ I2 T (fwithin_all _ _ Fm)) as (_ & T3 & O).
  split; [exact (t_data _ _ _ _ _ _ T3)|exact O].
Qed.

(* ------------------------------------------------------------------ *)
(* the current object changes only in the Lock section of setNextVersion *)

Lemma fcur_step s a :
  FInv0 s ->
  lookup (cur (fb (fst (fstep s a)))) (vers (fb (fst (fstep s a)))) =
  match a with
  | UPublish u _ =>
      match flookup u (uth s) with
      | Some (UCall d) => Some d
      | _ => lookup (cur (fb s)) (vers (fb s))
      end
  | _ => lookup (cur (fb s)) (vers (fb s))
  end.
Proof.
  intros I. unfold fstep.
  destruct a as [g tx now|g now|g now|g now|g now|g now|u d' now|u now|u now|u now|u now|w k now];
    cbn [fstep_v recheck_anchor ffixed].
  - destruct (flookup g (gth s)); reflexivity.
  - destruct (flookup g (gth s)) as [[tx|? ?|? ? ?|? ?|? ?]|]; try reflexivity.
    destruct (lookup tx (pins (fb s))); reflexivity.
  - destruct (flookup g (gth s)) as [[?|? ?|? ? ?|? ?|? ?]|]; reflexivity.
  - destruct (flookup g (gth s)) as [[?|? ?|? ? ?|? ?|? ?]|]; reflexivity.
  - destruct (flookup g (gth s)) as [[?|? ?|? ? ?|tx v'|? ?]|]; try reflexivity.
    destruct (lookup v' (vers (fb s))); reflexivity.
  - destruct (flookup g (gth s)) as [[?|? ?|? ? ?|? ?|? ?]|]; reflexivity.
  - destruct (flookup u (uth s)); reflexivity.
  - destruct (flookup u (uth s)) as [[?|?|? ?]|]; reflexivity.
  - destruct (flookup u (uth s)) as [[d|?|? ?]|]; try reflexivity.
    cbn [fst with_u fb publish cur vers]. apply lookup_set_eq.
  - destruct (flookup u (uth s)) as [[?|?|? ?]|]; reflexivity.
  - destruct (flookup u (uth s)) as [[?|?|? ?]|]; reflexivity.
  - destruct w.
    + destruct (vac_step k now (vvr s) (verQ (fb s)) (vers (fb s))) as [[p' q'] m'] eqn:E.
      cbn [fst with_vv fb st_ver cur vers].
      destruct (vac_step_cases _ _ _ _ _ _ _ _ E) as
        [(_ & -> & _)|[(n & t & rem & rest & _ & _ & _ & Hq & _ & _ & Hout)|(c & _ & _ & _ & ->)]];
        try reflexivity.
      apply Hout. intros H. apply in_map_iff in H. destruct H as (e & He & Hin).
      pose proof (f_vq_lt _ I) as F. rewrite Forall_forall in F. specialize (F e).
      rewrite Hq in F. specialize (F (in_or_app _ _ _ (or_introl Hin))). lia.
    + destruct (vac_step k now (vtx s) (txnQ (fb s)) (pins (fb s))) as [[p' q'] m']. reflexivity.
Qed.

(* ------------------------------------------------------------------ *)
(* run one at a time, the fine steps are the atomic actions of Model.v  *)

Definition idle (b : st) : fstate := {| fb := b; gth := []; uth := []; vtx := VIdle; vvr := VIdle |}.

Lemma vac_block_steps now q m :
  let '(p1, q1, m1) := vac_step KSnap now VIdle q m in
  let '(p2, q2, m2) := vac_step KClock now p1 q1 m1 in
  let '(p3, q3, m3) := vac_step KDelete now p2 q2 m2 in
  vac_step KTrim now p3 q3 m3 = (VIdle, fst (vacuum now q m), snd (vacuum now q m)).
Proof.
  destruct q as [|e q]; [reflexivity|].
  cbn [vac_step]. rewrite firstn_all. rewrite vacuum_vwalk.
  destruct (vwalk now (e :: q) m) as [c m']. reflexivity.
Qed.

Lemma vac_no_out V s w k now : snd (fstep_v V s (Vac w k now)) = None.
Proof.
  cbn [fstep_v]. destruct w.
  - destruct (vac_step k now (vvr s) (verQ (fb s)) (vers (fb s))) as [[? ?] ?]. reflexivity.
  - destruct (vac_step k now (vtx s) (txnQ (fb s)) (pins (fb s))) as [[? ?] ?]. reflexivity.
Qed.

Lemma fouts_cons V s a h :
  fouts_v V s (a :: h) =
  match snd (fstep_v V s a) with Some x => [x] | None => [] end ++ fouts_v V (fst (fstep_v V s a)) h.
Proof. cbn [fouts_v]. destruct (fstep_v V s a) as [s' [x|]]; reflexivity. Qed.

Lemma vac_block_no_out V s w now : map fo_out (fouts_v V s (vac_block w now)) = [].
Proof. unfold vac_block. rewrite !fouts_cons, !vac_no_out. reflexivity. Qed.

Lemma fine_of_step V b a :
  fafter_v V (idle b) (fine_of a) = idle (fst (step b a)) /\
  map fo_out (fouts_v V (idle b) (fine_of a)) = match snd (step b a) with Some o => [o] | None => [] end.
Proof.
  destruct a as [txn now|d now|now|now|now]; cbn [fine_of].
  - unfold get_block, fafter_v, step, get, pin. 
    destruct (lookup txn (pins b)) as [v|] eqn:P.
    + cbn -[ttl Z.add lookup set]. rewrite P. cbn -[ttl Z.add lookup set].
      destruct (lookup v (vers b)) as [d|] eqn:L; cbn -[ttl Z.add lookup set].
      * split; reflexivity.
      * split; reflexivity.
    + cbn -[ttl Z.add lookup set]. rewrite P. destruct V as [[|]]; cbn -[ttl Z.add lookup set]; rewrite ?P;
       cbn -[ttl Z.add lookup set]. 
      all: destruct (lookup (cur b) (vers b)) as [d|] eqn:L; cbn -[ttl Z.add lookup set]; rewrite ?L; cbn -[ttl Z.add lookup set]; split; reflexivity.
  - unfold update_block, fafter_v. cbn -[ttl Z.add lookup set]. split; [|reflexivity]. unfold idle, update, publish, schedule. cbn. reflexivity.
  - split; reflexivity.
  - split; [|apply vac_block_no_out].
    unfold vac_block, fafter_v, step, vac_txn. cbn [fold_left fstep_v fst idle fb vtx vvr gth uth].
    pose proof (vac_block_steps now (txnQ b) (pins b)) as H.
    destruct (vac_step KSnap now VIdle (txnQ b) (pins b)) as [[p1 q1] m1].
    cbn [fst with_vt fb vtx st_txn txnQ pins].
    destruct (vac_step KClock now p1 q1 m1) as [[p2 q2] m2].
    cbn [fst with_vt fb vtx st_txn txnQ pins].
    destruct (vac_step KDelete now p2 q2 m2) as [[p3 q3] m3].
    cbn [fst with_vt fb vtx st_txn txnQ pins]. rewrite H.
    destruct (vacuum now (txnQ b) (pins b)) as [q m]. cbn. reflexivity.
  - split; [|apply vac_block_no_out].
    unfold vac_block, fafter_v, step, vac_ver. cbn [fold_left fstep_v fst idle fb vtx vvr gth uth].
    pose proof (vac_block_steps now (verQ b) (vers b)) as H.
    destruct (vac_step KSnap now VIdle (verQ b) (vers b)) as [[p1 q1] m1].
    cbn [fst with_vv fb vvr st_ver verQ vers].
    destruct (vac_step KClock now p1 q1 m1) as [[p2 q2] m2].
    cbn [fst with_vv fb vvr st_ver verQ vers].
    destruct (vac_step KDelete now p2 q2 m2) as [[p3 q3] m3].
    cbn [fst with_vv fb vvr st_ver verQ vers]. rewrite H.
    destruct (vacuum now (verQ b) (vers b)) as [q m]. cbn. reflexivity.
Qed.


Lemma fine_refines_atomic V h : forall b,
  fafter_v V (idle b) (flat_map fine_of h) = idle (after b h) /\
  map fo_out (fouts_v V (idle b) (flat_map fine_of h)) = outs b h.
Proof.
  induction h as [|a h IH]; intros b; [split; reflexivity|].
  cbn [flat_map]. rewrite fafter_app, fouts_app, map_app.
  destruct (fine_of_step V b a) as [E1 E2]. rewrite E1, E2.
  destruct (IH (fst (step b a))) as [H1 H2]. rewrite H1, H2. rewrite after_cons.
  split; [reflexivity|]. cbn [outs]. destruct (snd (step b a)); reflexivity.
Qed.

(* ------------------------------------------------------------------ *)
(* monotone clocks                                                      *)

Definition fmonotone (h : list fact) : Prop := Sorted Z.le (map ftime h).

Lemma fclock_time a t : fclock a = Some t -> t = ftime a.
Proof.
  destruct a as [? ? ?|? ?|? ?|? ?|? ?|? ?|? ? ?|? ?|? ?|? ?|? ?|w k ?]; cbn; try discriminate;
    try (intros E; inversion E; reflexivity).
  destruct k; try discriminate. intros E; inversion E; reflexivity.
Qed.

Lemma fmonotone_split pre a mid :
  fmonotone (pre ++ a :: mid) ->
  Forall (fun b => ftime b <= ftime a) pre /\ Forall (fun b => ftime a <= ftime b) mid.
Proof.
  unfold fmonotone. intros S. apply Sorted_StronglySorted in S; [|exact Z.le_trans].
  rewrite map_app in S. apply SSorted_app_split in S. destruct S as (_ & S & H).
  cbn [map] in S. inversion S as [|? ? _ Fa]; subst. split.
  - apply Forall_forall. intros b Hb. apply H; [apply in_map; exact Hb|left; reflexivity].
  - rewrite Forall_forall in Fa. apply Forall_forall. intros b Hb. apply Fa. apply in_map. exact Hb.
Qed.

Lemma fmonotone_window pre g t0 mid :
  fmonotone (pre ++ GPin g t0 :: mid) -> Forall (fun b => ftime b <= t0 + ttl) mid ->
  forallb (fbefore (t0 + ttl)) pre = true /\ forallb (fwithin t0 (t0 + ttl)) mid = true.
Proof.
  intros M F. destruct (fmonotone_split _ _ _ M) as [Fp Fm]. cbn [ftime] in Fp, Fm.
  rewrite Forall_forall in Fp, Fm, F. split; apply forallb_forall; intros a Ha.
  - unfold fbefore. destruct (fclock a) as [t|] eqn:E; [|reflexivity].
    apply fclock_time in E. subst t. apply Z.leb_le. specialize (Fp a Ha). unfold ttl. lia.
  - unfold fwithin. destruct (fclock a) as [t|] eqn:E; [|reflexivity].
    apply fclock_time in E. subst t. apply andb_true_iff.
    split; apply Z.leb_le; [exact (Fm a Ha)|exact (F a Ha)].
Qed.
