(* C11 — the fail-safe / reload entry points (final statements; model and lemmas
   in Failsafe.v).

   A history is a list of  EA <atomic action of Model.v> | Via entry d now  where
   entry = ReloadFromFile | UpdateRawData | RevertToLastLoaded | RevertToDiagnosisFree
   and d is the data the entry point built from its file (RevertToDiagnosisFree
   sets PoliciesData.diagnosisFreeReverted on it).  forget = the history of
   Model.v in which every entry point is Update d now.

   Variants (Failsafe.evariant): ehead = the code as it is (the variant the
   positive theorems are about), standin_dropped = seed C11-9 (refuted).  Not to
   be confused with Fine.fhead of PropertyFine.v, which is the code BEFORE
   fix-F-C11a and is the refuted variant there.

   Bridge (Extension 3): suite "failsafe" (Failsafe.run_failsafe, harness
   entry.go coqFailsafe).  Every history of suite hist in which at least one
   update went through a REAL entry point is also written as a case_failsafe:
   the entry points are distinct operations (Via RevertToDiagnosisFree d now,
   ...), evaluated by estep, and compared after every action on: object handed
   out / version anchored (look-ups), currentVersion, whether the CURRENT
   PoliciesData carries diagnosisFreeReverted (the stand-in flag, read back
   from the object the code built), retained objects with their flags.
   C11_accepted_failsafe_case_is_a_run: what the suite accepts is a run of
   erun ehead, so C11_pinned_across_failsafe / C11_retention_across_failsafe
   speak about the accepted cases (C11_accepted_failsafe_case_pinned /
   _retains restate them over the observations of an accepted case).  Split
   updates: the commit of an update that came through an entry point is its
   Via (the instant it reaches setNextVersion), its begin / failure a Refused,
   exactly Model.flat.  The suites hist / routing / fine keep recording the
   entry points as Update / UpdBegin (forget). *)
From Coq Require Import List ZArith Bool Lia Sorted.
From Verif Require Import C11.Model C11.Proofs C11.Failsafe.
Import ListNotations.
Open Scope Z_scope.

(* At HEAD every entry point IS Model.update: after any history the accessor
   state and everything the look-ups hand out are those of the forgetful
   history, so every theorem of Property.v holds for histories of reloads, raw
   updates and fail-safe reverts in any order (the two main ones are restated
   below). *)
Theorem C11_entry_points_are_updates : forall d0 h,
  ebase (eafter ehead (einit d0) h) = after (init d0) (map forget h) /\
  eouts ehead (einit d0) h = outs (init d0) (map forget h).
Proof.
  intros d0 h. split.
  - exact (eafter_head_base h (einit d0)).
  - exact (eouts_head_base h (einit d0)).
Qed.
Print Assumptions C11_entry_points_are_updates.

(* ---- C11_pinned over entry points ----
   ANY history  pre ++ [Get txn t0] ++ mid ++ [Get txn t]  (monotone clock, txn
   not anchored at t0, t <= t0 + ttl) in which pre and mid contain reverts to
   diagnosis-free, reverts to last loaded, reloads and raw updates in any number
   and order — in particular: fail-safe active at t0 and lifted (or a reload
   applied while it is active) before t: the second look-up returns what the
   first returned, the version current at t0 with the data built by the last
   entry point that got through before t0, no fallback. *)
Theorem C11_pinned_across_failsafe : pinned_entry_v ehead.
Proof. exact pinned_entry_head. Qed.
Print Assumptions C11_pinned_across_failsafe.

(* ---- C11_retention over entry points (window form) ----
   while every clock reading of mid lies in [t0, t0 + ttl] the version current
   at t0 stays in policiesVersions with its data, whichever entry point
   installed it and whichever entry points supersede it. *)
Theorem C11_retention_across_failsafe : retention_entry_v ehead.
Proof. exact retention_entry_head. Qed.
Print Assumptions C11_retention_across_failsafe.

(* hypotheses met on a non-trivial history: a transaction from before the
   fail-safe, fail-safe active when transaction 7 is first seen, lifted, a reload,
   the version vacuum passing at exactly t0 + ttl: 7 is still served the
   diagnosis-free data 11 (version 2), 3 the initial data *)
Example C11_pinned_across_failsafe_applies :
  let pre := [EA (Get 3 0); Via RevertToDiagnosisFree 11 5] in
  let mid := [Via RevertToLastLoaded 12 7; EA (Get 3 8); Via ReloadFromFile 13 9;
              EA (VacTxn (6 + ttl)); EA (VacVer (6 + ttl))] in
  let h := pre ++ EA (Get 7 6) :: mid ++ [EA (Get 7 (6 + ttl)); EA (Get 3 (6 + ttl))] in
  lookup 7 (pins (ebase (eafter ehead (einit 10) pre))) = None /\
  map o_data (eouts ehead (einit 10) h) = [Some 10; Some 11; Some 10; Some 11; Some 13] /\
  map o_ver (eouts ehead (einit 10) h) = [1; 2; 1; 2; 4] /\
  map o_fallback (eouts ehead (einit 10) h) = [false; false; false; false; false].
Proof. vm_compute. repeat split. Qed.

(* the same history: the monotone-clock hypothesis of C11_pinned_across_failsafe
   and both hypotheses of C11_retention_across_failsafe are met (mid: two entry
   points, a look-up and both vacuum passes, the passes at exactly t0 + ttl), and
   the conclusion computed: version 2 = the version current at t0 = 6 is retained
   after mid with the diagnosis-free data 11 *)
Example C11_retention_across_failsafe_applies :
  let pre := [EA (Get 3 0); Via RevertToDiagnosisFree 11 5] in
  let mid := [Via RevertToLastLoaded 12 7; EA (Get 3 8); Via ReloadFromFile 13 9;
              EA (VacTxn (6 + ttl)); EA (VacVer (6 + ttl))] in
  monotone (map forget (pre ++ EA (Get 7 6) :: mid ++ [EA (Get 7 (6 + ttl))])) /\
  lookup 7 (pins (ebase (eafter ehead (einit 10) pre))) = None /\
  Forall (fun a => 6 <= time_of (forget a) <= 6 + ttl) mid /\
  cur (ebase (eafter ehead (einit 10) pre)) = 2 /\
  last_data 10 (map forget pre) = 11 /\
  lookup 2 (vers (ebase (eafter ehead
      (fst (estep ehead (eafter ehead (einit 10) pre) (EA (Get 7 6)))) mid))) = Some 11.
Proof.
  cbn zeta. split; [|split; [|split]].
  - unfold monotone. vm_compute. repeat (constructor; try (intro X; discriminate X)).
  - vm_compute. reflexivity.
  - repeat constructor; vm_compute; discriminate.
  - vm_compute. repeat split.
Qed.

(* ---- the variant "the diagnosis-free stand-in is dropped the moment it is
   superseded" violates both ----
   fail-safe activates (data 11), transaction 7 is first seen, the fail-safe is
   lifted, transaction 7 is looked up again with no time passing: it is handed
   the re-loaded data 12 through the fallback branch. *)
Theorem C11_pinned_across_failsafe_refuted_when_standin_dropped :
  ~ pinned_entry_v standin_dropped.
Proof.
  intros H.
  specialize (H 10 [Via RevertToDiagnosisFree 11 0] 7 0 [Via RevertToLastLoaded 12 0] 0).
  cbn zeta in H. destruct H as [H _].
  - unfold monotone. vm_compute. repeat (constructor; try (intro X; discriminate X)).
  - vm_compute. reflexivity.
  - vm_compute. discriminate.
  - vm_compute in H. discriminate H.
Qed.
Print Assumptions C11_pinned_across_failsafe_refuted_when_standin_dropped.

Theorem C11_retention_across_failsafe_refuted_when_standin_dropped :
  ~ retention_entry_v standin_dropped.
Proof.
  intros H.
  specialize (H 10 [Via RevertToDiagnosisFree 11 0] 7 0 [Via RevertToLastLoaded 12 0]).
  cbn zeta in H.
  assert (X : (None : option Z) = Some 11); [|discriminate X].
  apply H.
  - vm_compute. reflexivity.
  - repeat constructor; vm_compute; discriminate.
Qed.
Print Assumptions C11_retention_across_failsafe_refuted_when_standin_dropped.

(* what the variant does, next to HEAD: request under the fail-safe, lift,
   response, a new transaction.  Variant: 11 then 12 (fallback), anchored to the
   deleted version 2, which is not retained and not queued.  HEAD: 11, 11. *)
Example C11_standin_dropped_witness :
  let h := [Via RevertToDiagnosisFree 11 0; EA (Get 7 0); Via RevertToLastLoaded 12 0;
            EA (Get 7 0); EA (Get 8 0)] in
  map o_data (eouts standin_dropped (einit 10) h) = [Some 11; Some 12; Some 12] /\
  map o_fallback (eouts standin_dropped (einit 10) h) = [false; true; false] /\
  map fst (vers (ebase (eafter standin_dropped (einit 10) h))) = [1; 3] /\
  map snd (verQ (ebase (eafter standin_dropped (einit 10) h))) = [1] /\
  map o_data (eouts ehead (einit 10) h) = [Some 11; Some 11; Some 12] /\
  map fst (vers (ebase (eafter ehead (einit 10) h))) = [1; 2; 3].
Proof. vm_compute. repeat split. Qed.

(* the variant differs from HEAD only when a flagged version is superseded:
   without RevertToDiagnosisFree in the history the two agree (why suites that
   only call UpdatePoliciesData with objects of their own cannot tell them apart) *)
Theorem C11_standin_variant_same_without_diagnosis_free : forall h s,
  flagged s = [] ->
  Forall (fun a => match a with Via RevertToDiagnosisFree _ _ => False | _ => True end) h ->
  eafter standin_dropped s h = eafter ehead s h.
Proof.
  induction h as [|a h IH]; intros s Fl F; [reflexivity|].
  inversion F as [|? ? Ha Fh]; subst.
  cbn [eafter fold_left].
  assert (E : fst (estep standin_dropped s a) = fst (estep ehead s a) /\
              flagged (fst (estep ehead s a)) = []).
  { destruct a as [a|e d now].
    - destruct a; cbn; unfold update_v, is_flagged; rewrite ?Fl; cbn; split; (reflexivity || assumption).
    - destruct e; cbn in Ha |- *; try contradiction;
        unfold update_v, is_flagged; rewrite ?Fl; cbn; split; (reflexivity || assumption). }
  destruct E as [E1 E2]. rewrite E1.
  exact (IH _ E2 Fh).
Qed.
Print Assumptions C11_standin_variant_same_without_diagnosis_free.

(* ================================================================== *)
(* suite "failsafe": what run_failsafe accepts                          *)

(* An accepted case IS a run of the entry-point model at HEAD: the observations
   the implementation showed after every action (object handed out, version
   anchored, currentVersion, stand-in flag of the current PoliciesData, retained
   objects with their flags) are those of erun ehead on the executed actions,
   entry points as distinct operations. *)
Theorem C11_accepted_failsafe_case_is_a_run : forall d0 evs,
  run_failsafe (d0, evs) = None ->
  map fs_obs evs = erun ehead (einit d0) (map fs_act evs).
Proof. intros d0 evs H. exact (echeck_is_run ehead evs O (einit d0) H). Qed.
Print Assumptions C11_accepted_failsafe_case_is_a_run.

(* conversely every run is accepted (the comparison rejects nothing the model
   can do: acceptance = being a run) *)
Theorem C11_failsafe_runs_are_accepted : forall d0 h,
  run_failsafe (d0, map (fun ao => FS (fst ao) (snd ao)) (combine h (erun ehead (einit d0) h))) = None.
Proof. intros d0 h. exact (run_is_accepted ehead h O (einit d0)). Qed.
Print Assumptions C11_failsafe_runs_are_accepted.

(* C11_pinned_across_failsafe read off an accepted case: the case contains a
   look-up of txn at t0 (observation o1) and a later one at t <= t0 + ttl
   (observation o2), any entry points before and between: the implementation
   handed out the same object under the same version both times, the object
   built by the last entry point that got through before t0. *)
Theorem C11_accepted_failsafe_case_pinned : forall d0 epre txn t0 o1 emid t o2,
  run_failsafe (d0, epre ++ FS (EA (Get txn t0)) o1 :: emid ++ [FS (EA (Get txn t)) o2]) = None ->
  let pre := map fs_act epre in
  let mid := map fs_act emid in
  monotone (map forget (pre ++ EA (Get txn t0) :: mid ++ [EA (Get txn t)])) ->
  lookup txn (pins (ebase (eafter ehead (einit d0) pre))) = None ->
  t <= t0 + ttl ->
  eo_got o2 = eo_got o1 /\ eo_ver o2 = eo_ver o1 /\
  eo_got o1 = last_data d0 (map forget pre) /\
  eo_ver o1 = cur (ebase (eafter ehead (einit d0) pre)).
Proof. exact accepted_case_pinned. Qed.
Print Assumptions C11_accepted_failsafe_case_pinned.

(* C11_retention_across_failsafe read off an accepted case: after every action
   of the window [t0, t0 + ttl] the object that was current at t0 is among the
   retained objects the implementation showed *)
Theorem C11_accepted_failsafe_case_retains : forall d0 epre txn t0 o1 emid a o,
  run_failsafe (d0, epre ++ FS (EA (Get txn t0)) o1 :: emid ++ [FS a o]) = None ->
  let pre := map fs_act epre in
  let mid := map fs_act emid ++ [a] in
  lookup txn (pins (ebase (eafter ehead (einit d0) pre))) = None ->
  Forall (fun a => t0 <= time_of (forget a) <= t0 + ttl) mid ->
  exists f, In (R (last_data d0 (map forget pre)) f) (eo_ret o).
Proof. exact accepted_case_retains. Qed.
Print Assumptions C11_accepted_failsafe_case_retains.

(* a concrete accepted case (the shape entry.go writes): fail-safe activates
   (object 1, flagged), transaction 7 first seen, lifted through
   RevertToLastLoaded (object 2), response of 7 at exactly t0 + ttl after both
   passes: still object 1 under version 2; the stand-in flag goes true, false *)
Example C11_failsafe_suite_accepts :
  run_failsafe (0, [
    FS (Via RevertToDiagnosisFree 1 5) (EObs 0 0 2 true [R 0 false; R 1 true]);
    FS (EA (Get 7 6)) (EObs 1 2 2 true [R 0 false; R 1 true]);
    FS (Via RevertToLastLoaded 2 7) (EObs 0 0 3 false [R 0 false; R 1 true; R 2 false]);
    FS (EA (VacTxn (6 + ttl))) (EObs 0 0 3 false [R 0 false; R 1 true; R 2 false]);
    FS (EA (VacVer (6 + ttl))) (EObs 0 0 3 false [R 1 true; R 2 false]);
    FS (EA (Get 7 (6 + ttl))) (EObs 1 2 3 false [R 1 true; R 2 false])]) = None.
Proof. vm_compute. reflexivity. Qed.

(* the suite tells the entry points apart: the same observations with the
   fail-safe recorded as a plain reload are rejected at the first action (the
   model says: no stand-in), and the behaviour of the variant standin_dropped
   (seed C11-9) is rejected where the stand-in is superseded *)
Example C11_failsafe_suite_rejects :
  run_failsafe (0, [
    FS (Via ReloadFromFile 1 5) (EObs 0 0 2 true [R 0 false; R 1 true])])
  = Some (O, EObs 0 0 2 false [R 0 false; R 1 false]) /\
  (let h := [Via RevertToDiagnosisFree 1 0; EA (Get 7 0); Via RevertToLastLoaded 2 0; EA (Get 7 0)] in
   run_failsafe (0, map (fun ao => FS (fst ao) (snd ao)) (combine h (erun standin_dropped (einit 0) h)))
   = Some (2%nat, EObs 0 0 3 false [R 0 false; R 1 true; R 2 false])).
Proof. vm_compute. split; reflexivity. Qed.
