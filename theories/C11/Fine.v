(* C11 — the accessor at the granularity of its mutex sections.

   Model.v treats GetTxnPoliciesData, setNextVersion + VacuumKey and one
   MapVacuum.vacuum() pass as single steps.  The code runs each of them as
   several critical sections with clock readings in between, on any number of
   goroutines.  Here every section is a step of its own and a schedule is ANY
   interleaving of the steps of any number of look-ups, updates and the two
   vacuum loops.

   GetTxnPoliciesData(txn), goroutine g             (policies_accessor.go)
     GRead g txn   getTxnPoliciesVersion: RLock; v, found := txnVersions[txn]
     GPin g        setTxnVersion: Lock; [fixed code: anchored meanwhile? take
                   that version, nothing is queued]; txnVersions[txn] := currentVersion
     GClock g      VacuumKey(txn): clock.Now()      (no lock held)
     GEnq g        VacuumKey(txn): entriesMutex; append (t + ttl, txn)
     GData g       RLock; policiesVersions[v]       (found: the look-up returns)
     GCur g        GetCurrentPoliciesData (fallback): RLock; currentVersion and its data
   UpdatePoliciesData(d), goroutine u
     UBegin u d    inside the HAProxy call (nothing published)
     UFail u       the call failed: return
     UPublish u    setNextVersion: Lock; previous := currentVersion; currentVersion++;
                   policiesVersions[currentVersion] := d
     UClock u      VacuumKey(previous): clock.Now()
     UEnq u        VacuumKey(previous): append (t + ttl, previous)
   MapVacuum.vacuum(), the one goroutine of vacuum w (false = transactions, true = versions)
     Vac w KSnap   entriesMutex.RLock; snapshot := entries  (empty: the pass ends)
     Vac w KClock  now := clock.Now()
     Vac w KDelete mapMutex.Lock (= the accessor's mutex); walk the snapshot,
                   delete the keys of the leading entries with vacuumAt < now
     Vac w KTrim   entriesMutex.Lock; entries := entries[deleteUntil:]

   Every step carries the value the clock has when it runs; only the three
   *Clock steps use it.  A step that does not fit the state of its goroutine is
   a no-op (the theorems quantify over all lists of steps).

   Variant switch [recheck_anchor]: false = setTxnVersion as it was (assigns
   without looking: two overlapping first look-ups of one transaction anchor it
   twice); true = with the re-check under the write lock (patches/C11/fix-F-C11a.patch).
   [fcode_variant] is what the correspondence suite "fine" evaluates. *)
From Coq Require Import List ZArith Bool.
From Verif Require Import C11.Model.
Import ListNotations.
Open Scope Z_scope.

(* ---- association lists with Z keys and any values (goroutine tables) ---- *)
Fixpoint flookup {V : Type} (k : Z) (m : list (Z * V)) : option V :=
  match m with
  | [] => None
  | (k', v) :: r => if k =? k' then Some v else flookup k r
  end.

Fixpoint fset {V : Type} (k : Z) (v : V) (m : list (Z * V)) : list (Z * V) :=
  match m with
  | [] => [(k, v)]
  | (k', v') :: r => if k =? k' then (k, v) :: r else (k', v') :: fset k v r
  end.

Definition fdel {V : Type} (k : Z) (m : list (Z * V)) : list (Z * V) :=
  filter (fun e => negb (k =? fst e)) m.

(* ---- where a goroutine is ---- *)
Inductive gpc :=
| GNeed (txn : Z)           (* no anchor was found; setTxnVersion not entered *)
| GPinned (txn v : Z)       (* anchored to v by this goroutine; clock not read *)
| GClocked (txn v t : Z)    (* VacuumKey read the clock; entry not appended *)
| GHave (txn v : Z)         (* version known; policiesVersions[v] not read *)
| GMiss (txn v : Z).        (* policiesVersions[v] was missing; fallback not run *)

Inductive upc :=
| UCall (d : Z)             (* inside the HAProxy call *)
| UPub (prev : Z)           (* published; VacuumKey(prev) has not read the clock *)
| UClocked (prev t : Z).    (* clock read; entry not appended *)

Inductive vpc :=
| VIdle
| VSnap (n : nat)           (* snapshot = the first n entries *)
| VTimed (n : nat) (now : Z)
| VDone (k : nat).          (* map section done; the first k entries are to be trimmed *)

Record fstate := {
  fb : st;                      (* the accessor and the two entry queues *)
  gth : list (Z * gpc);         (* look-ups in progress *)
  uth : list (Z * upc);         (* updates in progress *)
  vtx : vpc;                    (* txnVersionsVacuum's goroutine *)
  vvr : vpc                     (* policiesVersionsVacuum's goroutine *)
}.

Definition finit (d0 : Z) : fstate :=
  {| fb := init d0; gth := []; uth := []; vtx := VIdle; vvr := VIdle |}.

(* fhead = the code BEFORE fix-F-C11a (no re-check; the REFUTED variant of
   PropertyFine.v; the name dates from when that was /repo's HEAD); ffixed = the
   code with the re-check = /repo now.  Unrelated to Failsafe.evariant / ehead. *)
Record fvariant := { recheck_anchor : bool }.
Definition fhead : fvariant := {| recheck_anchor := false |}.
Definition ffixed : fvariant := {| recheck_anchor := true |}.
(* the variant the correspondence suite evaluates *)
Definition fcode_variant : fvariant := ffixed.

Inductive vkind := KSnap | KClock | KDelete | KTrim.

Inductive fact :=
| GRead (g txn now : Z)
| GPin (g now : Z)
| GClock (g now : Z)
| GEnq (g now : Z)
| GData (g now : Z)
| GCur (g now : Z)
| UBegin (u d now : Z)
| UFail (u now : Z)
| UPublish (u now : Z)
| UClock (u now : Z)
| UEnq (u now : Z)
| Vac (w : bool) (k : vkind) (now : Z).

(* value of the clock when the step runs *)
Definition ftime (a : fact) : Z :=
  match a with
  | GRead _ _ t | GPin _ t | GClock _ t | GEnq _ t | GData _ t | GCur _ t
  | UBegin _ _ t | UFail _ t | UPublish _ t | UClock _ t | UEnq _ t | Vac _ _ t => t
  end.

(* the clock reading the step makes, if it makes one *)
Definition fclock (a : fact) : option Z :=
  match a with
  | GClock _ t | UClock _ t | Vac _ KClock t => Some t
  | _ => None
  end.

(* ---- the pieces of the accessor state the steps change ---- *)
Definition st_pin (s : st) (txn : Z) : st :=
  {| cur := cur s; vers := vers s; pins := set txn (cur s) (pins s);
     txnQ := txnQ s; verQ := verQ s |}.
Definition st_enq_txn (s : st) (t txn : Z) : st :=
  {| cur := cur s; vers := vers s; pins := pins s;
     txnQ := txnQ s ++ [(t + ttl, txn)]; verQ := verQ s |}.
Definition st_txn (s : st) (q : list (Z * Z)) (m : amap) : st :=
  {| cur := cur s; vers := vers s; pins := m; txnQ := q; verQ := verQ s |}.
Definition st_ver (s : st) (q : list (Z * Z)) (m : amap) : st :=
  {| cur := cur s; vers := m; pins := pins s; txnQ := txnQ s; verQ := q |}.

(* the loop of vacuum(): number of leading entries that are due, map without their keys *)
Fixpoint vwalk (now : Z) (q : list (Z * Z)) (m : amap) : nat * amap :=
  match q with
  | [] => (O, m)
  | (at_, k) :: r =>
      if at_ <? now then let '(c, m') := vwalk now r (del k m) in (S c, m') else (O, m)
  end.

(* one section of a pass, on the goroutine state p, the queue q and the map m *)
Definition vac_step (k : vkind) (now : Z) (p : vpc) (q : list (Z * Z)) (m : amap)
  : vpc * list (Z * Z) * amap :=
  match k, p with
  | KSnap, VIdle => (match q with [] => VIdle | _ :: _ => VSnap (length q) end, q, m)
  | KClock, VSnap n => (VTimed n now, q, m)
  | KDelete, VTimed n t => let '(c, m') := vwalk t (firstn n q) m in (VDone c, q, m')
  | KTrim, VDone c => (VIdle, skipn c q, m)
  | _, _ => (p, q, m)
  end.

(* a completed look-up: goroutine, transaction, what it returns *)
Record fout := { fo_g : Z; fo_txn : Z; fo_out : out }.

Definition with_g (s : fstate) (b : st) (t : list (Z * gpc)) : fstate :=
  {| fb := b; gth := t; uth := uth s; vtx := vtx s; vvr := vvr s |}.
Definition with_u (s : fstate) (b : st) (t : list (Z * upc)) : fstate :=
  {| fb := b; gth := gth s; uth := t; vtx := vtx s; vvr := vvr s |}.
Definition with_vt (s : fstate) (b : st) (p : vpc) : fstate :=
  {| fb := b; gth := gth s; uth := uth s; vtx := p; vvr := vvr s |}.
Definition with_vv (s : fstate) (b : st) (p : vpc) : fstate :=
  {| fb := b; gth := gth s; uth := uth s; vtx := vtx s; vvr := p |}.

Definition fstep_v (V : fvariant) (s : fstate) (a : fact) : fstate * option fout :=
  let b := fb s in
  match a with
  | GRead g txn _ =>
      match flookup g (gth s) with
      | Some _ => (s, None)
      | None =>
          (with_g s b (fset g (match lookup txn (pins b) with
                               | Some v => GHave txn v
                               | None => GNeed txn
                               end) (gth s)), None)
      end
  | GPin g _ =>
      match flookup g (gth s) with
      | Some (GNeed txn) =>
          match (if recheck_anchor V then lookup txn (pins b) else None) with
          | Some v => (with_g s b (fset g (GHave txn v) (gth s)), None)
          | None => (with_g s (st_pin b txn) (fset g (GPinned txn (cur b)) (gth s)), None)
          end
      | _ => (s, None)
      end
  | GClock g now =>
      match flookup g (gth s) with
      | Some (GPinned txn v) => (with_g s b (fset g (GClocked txn v now) (gth s)), None)
      | _ => (s, None)
      end
  | GEnq g _ =>
      match flookup g (gth s) with
      | Some (GClocked txn v t) =>
          (with_g s (st_enq_txn b t txn) (fset g (GHave txn v) (gth s)), None)
      | _ => (s, None)
      end
  | GData g _ =>
      match flookup g (gth s) with
      | Some (GHave txn v) =>
          match lookup v (vers b) with
          | Some d =>
              (with_g s b (fdel g (gth s)),
               Some {| fo_g := g; fo_txn := txn;
                       fo_out := {| o_ver := v; o_data := Some d; o_fallback := false |} |})
          | None => (with_g s b (fset g (GMiss txn v) (gth s)), None)
          end
      | _ => (s, None)
      end
  | GCur g _ =>
      match flookup g (gth s) with
      | Some (GMiss txn v) =>
          (with_g s b (fdel g (gth s)),
           Some {| fo_g := g; fo_txn := txn;
                   fo_out := {| o_ver := v; o_data := lookup (cur b) (vers b); o_fallback := true |} |})
      | _ => (s, None)
      end
  | UBegin u d _ =>
      match flookup u (uth s) with
      | Some _ => (s, None)
      | None => (with_u s b (fset u (UCall d) (uth s)), None)
      end
  | UFail u _ =>
      match flookup u (uth s) with
      | Some (UCall _) => (with_u s b (fdel u (uth s)), None)
      | _ => (s, None)
      end
  | UPublish u _ =>
      match flookup u (uth s) with
      | Some (UCall d) => (with_u s (publish b d) (fset u (UPub (cur b)) (uth s)), None)
      | _ => (s, None)
      end
  | UClock u now =>
      match flookup u (uth s) with
      | Some (UPub p) => (with_u s b (fset u (UClocked p now) (uth s)), None)
      | _ => (s, None)
      end
  | UEnq u _ =>
      match flookup u (uth s) with
      | Some (UClocked p t) => (with_u s (schedule b p t) (fdel u (uth s)), None)
      | _ => (s, None)
      end
  | Vac false k now =>
      let '(p, q, m) := vac_step k now (vtx s) (txnQ b) (pins b) in
      (with_vt s (st_txn b q m) p, None)
  | Vac true k now =>
      let '(p, q, m) := vac_step k now (vvr s) (verQ b) (vers b) in
      (with_vv s (st_ver b q m) p, None)
  end.

Definition fafter_v (V : fvariant) (s : fstate) (h : list fact) : fstate :=
  fold_left (fun s a => fst (fstep_v V s a)) h s.

(* the look-ups that complete during a schedule, in order *)
Fixpoint fouts_v (V : fvariant) (s : fstate) (h : list fact) : list fout :=
  match h with
  | [] => []
  | a :: r =>
      let '(s', o) := fstep_v V s a in
      match o with
      | Some x => x :: fouts_v V s' r
      | None => fouts_v V s' r
      end
  end.

(* the code with the re-check (what the suite checks) *)
Definition fstep := fstep_v ffixed.
Definition fafter := fafter_v ffixed.
Definition fouts := fouts_v ffixed.

(* ---- the atomic actions of Model.v as blocks of fine steps ----
   (a step that does not fit is a no-op, so one block covers every path) *)
Definition get_block (g txn now : Z) : list fact :=
  [GRead g txn now; GPin g now; GClock g now; GEnq g now; GData g now; GCur g now].
Definition update_block (u d now : Z) : list fact :=
  [UBegin u d now; UPublish u now; UClock u now; UEnq u now].
Definition refused_block (u d now : Z) : list fact := [UBegin u d now; UFail u now].
Definition vac_block (w : bool) (now : Z) : list fact :=
  [Vac w KSnap now; Vac w KClock now; Vac w KDelete now; Vac w KTrim now].

Definition fine_of (a : act) : list fact :=
  match a with
  | Get txn now => get_block 0 txn now
  | Update d now => update_block 0 d now
  | Refused now => refused_block 0 0 now
  | VacTxn now => vac_block false now
  | VacVer now => vac_block true now
  end.

(* ---- correspondence entry point, suite "fine" ----
   One event = what one goroutine did between two of the places where the
   harness can hold it (the call-outs of the code: the clock readings, the two
   log calls of the look-up, the HAProxy call): the fine steps that ran, the
   goroutine, where it stopped, the object a completed look-up returned, and the
   accessor state read afterwards. *)
Inductive fth := TG (g : Z) | TU (u : Z) | TV (w : bool).

Definition gpc_code (p : option gpc) : Z :=
  match p with
  | None => 0
  | Some (GNeed _) => 1
  | Some (GPinned _ _) => 2
  | Some (GClocked _ _ _) => 3
  | Some (GHave _ _) => 4
  | Some (GMiss _ _) => 5
  end.
Definition upc_code (p : option upc) : Z :=
  match p with
  | None => 0
  | Some (UCall _) => 1
  | Some (UPub _) => 2
  | Some (UClocked _ _) => 3
  end.
Definition vpc_code (p : vpc) : Z :=
  match p with VIdle => 0 | VSnap _ => 1 | VTimed _ _ => 2 | VDone _ => 3 end.

Definition pc_of (s : fstate) (t : fth) : Z :=
  match t with
  | TG g => gpc_code (flookup g (gth s))
  | TU u => upc_code (flookup u (uth s))
  | TV false => vpc_code (vtx s)
  | TV true => vpc_code (vvr s)
  end.

Inductive fev := FE (acts : list fact) (t : fth) (pc got : Z) (o : option obs).

Definition fcase := (Z * list fev)%type.

(* run the steps of one event; got = object of the look-up that completed (0 if none) *)
Fixpoint frun (s : fstate) (h : list fact) (got : Z) : fstate * Z :=
  match h with
  | [] => (s, got)
  | a :: r =>
      let '(s', o) := fstep_v fcode_variant s a in
      frun s' r (match o with Some x => got_of (Some (fo_out x)) | None => got end)
  end.

Fixpoint fcheck (n : nat) (s : fstate) (last : obs) (h : list fev) : option (nat * (Z * Z * obs)) :=
  match h with
  | [] => None
  | FE acts t pc got o :: r =>
      let '(s', g) := frun s acts 0 in
      if (g =? got) && (pc_of s' t =? pc) && eq_obs (obs_or last o) (fb s')
      then fcheck (S n) s' (obs_or last o) r
      else Some (n, (g, pc_of s' t, obs_of (fb s')))
  end.

Definition run_fcase (k : fcase) : option (nat * (Z * Z * obs)) :=
  let '(d0, evs) := k in fcheck O (finit d0) (obs_of (init d0)) evs.
