(* C11 — UpdatePoliciesData split into begin / HAProxy call / commit-or-fail:
   at HEAD a split history acts exactly as the atomic history in which every
   committed update happens at its commit and every other step of an update is
   a no-op (flat); a failed update can be erased; the routing glue. *)
From Coq Require Import List ZArith Bool Lia Sorted.
From Verif Require Import C11.Model C11.Proofs.
Import ListNotations.
Open Scope Z_scope.

(* ------------------------------------------------------------------ *)
(* one split step at HEAD = one atomic step                             *)

Lemma sstep_base s a :
  base (fst (sstep s a)) = fst (step (base s) (flat1 (pend s) a)).
Proof.
  unfold sstep. destruct a as [a|u d now|u now|u now]; cbn [sstep_v flat1 head publish_before_call].
  - destruct (step (base s) a). reflexivity.
  - reflexivity.
  - cbn [fst base]. destruct (lookup u (pend s)); reflexivity.
  - cbn [fst base]. destruct (lookup u (pend s)); reflexivity.
Qed.

Lemma sstep_out s a :
  snd (sstep s a) = snd (step (base s) (flat1 (pend s) a)).
Proof.
  unfold sstep. destruct a as [a|u d now|u now|u now]; cbn [sstep_v flat1 head publish_before_call].
  - destruct (step (base s) a). reflexivity.
  - reflexivity.
  - cbn [snd]. destruct (lookup u (pend s)); reflexivity.
  - reflexivity.
Qed.

Lemma sstep_pend s a : pend (fst (sstep s a)) = pend1 (pend s) a.
Proof.
  unfold sstep. destruct a as [a|u d now|u now|u now]; cbn [sstep_v pend1 head publish_before_call].
  - destruct (step (base s) a). reflexivity.
  - reflexivity.
  - reflexivity.
  - reflexivity.
Qed.

Lemma safter_cons s a h : safter s (a :: h) = safter (fst (sstep s a)) h.
Proof. reflexivity. Qed.

Lemma safter_app s h1 h2 : safter s (h1 ++ h2) = safter (safter s h1) h2.
Proof. unfold safter, safter_v. apply fold_left_app. Qed.

Lemma base_safter h : forall s, base (safter s h) = after (base s) (flat (pend s) h).
Proof.
  induction h as [|a h IH]; intros s; [reflexivity|].
  rewrite safter_cons, IH, sstep_base, sstep_pend. reflexivity.
Qed.

Lemma pend_safter h : forall s, pend (safter s h) = fold_left pend1 h (pend s).
Proof.
  induction h as [|a h IH]; intros s; [reflexivity|].
  rewrite safter_cons, IH, sstep_pend. reflexivity.
Qed.

Lemma flat_app h1 : forall p h2,
  flat p (h1 ++ h2) = flat p h1 ++ flat (fold_left pend1 h1 p) h2.
Proof.
  induction h1 as [|a h1 IH]; intros p h2; [reflexivity|].
  cbn [app flat fold_left]. rewrite IH. reflexivity.
Qed.

Lemma time_flat1 p a : time_of (flat1 p a) = stime_of a.
Proof.
  destruct a as [a|u d now|u now|u now]; cbn [flat1 stime_of]; try reflexivity.
  destruct (lookup u p); reflexivity.
Qed.

Lemma time_flat h : forall p, map time_of (flat p h) = map stime_of h.
Proof.
  induction h as [|a h IH]; intros p; [reflexivity|].
  cbn [flat map]. rewrite time_flat1, IH. reflexivity.
Qed.

Lemma lookups_outs h : forall s, lookups s h = outs (base s) (flat (pend s) h).
Proof.
  induction h as [|a h IH]; intros s; [reflexivity|].
  unfold lookups in *. cbn [lookups_v flat outs].
  change (sstep_v head s a) with (sstep s a).
  rewrite <- sstep_out, <- sstep_base, <- sstep_pend.
  destruct (sstep s a) as [s' o]. cbn [fst snd]. rewrite IH. reflexivity.
Qed.

(* the atomic actions are the derived forms *)
Lemma update_is_begin_commit s u d t now :
  base (safter s [UpdBegin u d t; UpdCommit u now]) = fst (step (base s) (Update d now)).
Proof.
  rewrite base_safter. cbn [flat flat1 pend1]. rewrite lookup_set_eq. reflexivity.
Qed.

Lemma refused_is_begin_fail s u d t now :
  base (safter s [UpdBegin u d t; UpdFail u now]) = fst (step (base s) (Refused now)).
Proof. rewrite base_safter. reflexivity. Qed.

Lemma atomic_embeds h : forall s, base (safter s (map A h)) = after (base s) h.
Proof.
  intros s. rewrite base_safter. f_equal.
  generalize (pend s). induction h as [|a h IH]; intros p; [reflexivity|].
  cbn [map flat flat1 pend1]. rewrite IH. reflexivity.
Qed.

(* ------------------------------------------------------------------ *)
(* the claims over split histories                                      *)

Definition smonotone (h : list sact) : Prop := Sorted Z.le (map stime_of h).

Lemma smonotone_flat p h : smonotone h -> monotone (flat p h).
Proof. unfold smonotone, monotone. rewrite time_flat. auto. Qed.

Lemma flat_around p pre a mid z :
  flat p (pre ++ A a :: mid ++ [A z]) =
  flat p pre ++ a :: flat (fold_left pend1 pre p) mid ++ [z].
Proof.
  rewrite flat_app. cbn [flat flat1 pend1]. rewrite flat_app. reflexivity.
Qed.

Lemma flat_around' p pre a mid z :
  flat p (pre ++ A a :: mid ++ [z]) =
  flat p pre ++ a :: flat (fold_left pend1 pre p) mid
    ++ [flat1 (fold_left pend1 mid (fold_left pend1 pre p)) z].
Proof.
  rewrite flat_app. cbn [flat flat1 pend1]. rewrite flat_app. reflexivity.
Qed.

Lemma sstep_get_base s txn now :
  base (fst (sstep s (A (Get txn now)))) = fst (get (base s) txn now).
Proof. rewrite sstep_base. cbn [flat1]. apply step_get. Qed.

Lemma sstep_get_pend s txn now :
  pend (fst (sstep s (A (Get txn now)))) = pend s.
Proof. rewrite sstep_pend. reflexivity. Qed.

Lemma pinned_interleaved d0 pre txn t0 mid t :
  smonotone (pre ++ A (Get txn t0) :: mid ++ [A (Get txn t)]) ->
  lookup txn (pins (base (safter (sinit d0) pre))) = None ->
  t <= t0 + ttl ->
  let s1 := safter (sinit d0) pre in
  let o1 := snd (get (base s1) txn t0) in
  let o2 := snd (get (base (safter (fst (sstep s1 (A (Get txn t0)))) mid)) txn t) in
  o2 = o1 /\
  o1 = {| o_ver := cur (base s1); o_data := Some (committed_data d0 pre); o_fallback := false |}.
Proof.
  intros M P Ht s1 o1 o2.
  apply (smonotone_flat []) in M. rewrite flat_around in M.
  assert (base (safter (sinit d0) pre) = after (init d0) (flat [] pre)) as E1 by (apply base_safter).
  assert (pend (safter (sinit d0) pre) = fold_left pend1 pre []) as P1 by (apply pend_safter).
  rewrite E1 in P.
  pose proof (pinned_monotone d0 (flat [] pre) txn t0
                (flat (fold_left pend1 pre []) mid) t M P Ht) as H.
  cbn zeta in H. subst o1 o2 s1.
  rewrite (base_safter mid), sstep_get_base, sstep_get_pend, E1, P1. exact H.
Qed.

Lemma retention_interleaved d0 pre txn t0 mid a :
  smonotone (pre ++ A (Get txn t0) :: mid ++ [a]) ->
  lookup txn (pins (base (safter (sinit d0) pre))) = None ->
  let s1 := safter (sinit d0) pre in
  let s3 := safter (fst (sstep s1 (A (Get txn t0)))) mid in
  retained (cur (base s1)) (base (fst (sstep s3 a))) = false ->
  t0 + ttl < stime_of a.
Proof.
  intros M P s1 s3 R.
  apply (smonotone_flat []) in M. rewrite flat_around' in M.
  assert (base (safter (sinit d0) pre) = after (init d0) (flat [] pre)) as E1 by (apply base_safter).
  assert (pend (safter (sinit d0) pre) = fold_left pend1 pre []) as P1 by (apply pend_safter).
  rewrite E1 in P.
  rewrite <- (time_flat1 (fold_left pend1 mid (fold_left pend1 pre [])) a).
  apply (retention_monotone d0 (flat [] pre) txn t0 _ _ M P).
  cbn zeta. subst s3 s1. rewrite sstep_base in R.
  rewrite (base_safter mid), (pend_safter mid), sstep_get_base, sstep_get_pend, E1, P1 in R.
  exact R.
Qed.

Lemma new_sees_new_interleaved d0 h txn t :
  lookup txn (pins (base (safter (sinit d0) h))) = None ->
  snd (get (base (safter (sinit d0) h)) txn t) =
  {| o_ver := 1 + n_committed h; o_data := Some (committed_data d0 h); o_fallback := false |}.
Proof.
  rewrite base_safter. cbn [sinit base pend]. apply new_sees_new.
Qed.

Lemma served_was_committed d0 h o d :
  In o (lookups (sinit d0) h) -> o_data o = Some d -> d = d0 \/ In d (committed h).
Proof.
  rewrite lookups_outs. cbn [sinit base pend]. intros Hin Hd.
  apply (served_in (flat [] h) (fun d => d = d0 \/ In d (committed h)) (init d0)) with (o := o);
    try assumption.
  - intros v d' L. cbn [init vers lookup] in L. destruct (v =? 1); [|discriminate].
    inversion L. left. reflexivity.
  - intros d' H. right. exact H.
Qed.

(* ------------------------------------------------------------------ *)
(* a failed (never committed) update can be erased                      *)

(* same accessor state, same pending updates except possibly u *)
Definition same_but (u : Z) (s1 s2 : sst) : Prop :=
  base s1 = base s2 /\ forall k, k <> u -> lookup k (pend s1) = lookup k (pend s2).

Lemma same_but_other u s1 s2 a :
  same_but u s1 s2 -> upd_id a <> Some u ->
  same_but u (fst (sstep s1 a)) (fst (sstep s2 a)) /\ snd (sstep s1 a) = snd (sstep s2 a).
Proof.
  intros [Eb Ep] N. unfold same_but.
  rewrite !sstep_base, !sstep_out, !sstep_pend.
  assert (flat1 (pend s1) a = flat1 (pend s2) a) as Ef.
  { destruct a as [a|u' d now|u' now|u' now]; cbn [flat1]; try reflexivity.
    rewrite Ep; [reflexivity|]. intros ->. apply N. reflexivity. }
  rewrite Ef, Eb. split; [split; [reflexivity|]|reflexivity].
  intros k Hk. destruct a as [a|u' d now|u' now|u' now]; cbn [pend1].
  - apply Ep. exact Hk.
  - destruct (Z.eq_dec k u') as [->|Nk].
    + rewrite !lookup_set_eq. reflexivity.
    + rewrite !lookup_set_neq by exact Nk. apply Ep. exact Hk.
  - destruct (Z.eq_dec k u') as [->|Nk].
    + rewrite !lookup_del_eq. reflexivity.
    + rewrite !lookup_del_neq by exact Nk. apply Ep. exact Hk.
  - destruct (Z.eq_dec k u') as [->|Nk].
    + rewrite !lookup_del_eq. reflexivity.
    + rewrite !lookup_del_neq by exact Nk. apply Ep. exact Hk.
Qed.

Lemma same_but_self u s1 s2 a :
  same_but u s1 s2 -> upd_id a = Some u ->
  (forall t, a <> UpdCommit u t) ->
  same_but u (fst (sstep s1 a)) s2 /\ snd (sstep s1 a) = None.
Proof.
  intros [Eb Ep] Hu Hc. unfold same_but.
  rewrite sstep_base, sstep_out, sstep_pend.
  destruct a as [a|u' d now|u' now|u' now]; cbn [upd_id] in Hu; inversion Hu; subst u'.
  - cbn [flat1 pend1 step fst snd]. split; [split; [exact Eb|]|reflexivity].
    intros k Hk. rewrite lookup_set_neq by exact Hk. apply Ep. exact Hk.
  - exfalso. exact (Hc now eq_refl).
  - cbn [flat1 pend1 step fst snd]. split; [split; [exact Eb|]|reflexivity].
    intros k Hk. rewrite lookup_del_neq by exact Hk. apply Ep. exact Hk.
Qed.

Lemma erase_invisible u h : forall s1 s2,
  same_but u s1 s2 -> commits u h = false ->
  same_but u (safter s1 h) (safter s2 (erase u h)) /\
  lookups s1 h = lookups s2 (erase u h).
Proof.
  induction h as [|a h IH]; intros s1 s2 R C; [split; [exact R|reflexivity]|].
  cbn [commits existsb] in C. apply orb_false_iff in C. destruct C as [Ca C].
  fold (commits u h) in C.
  unfold erase. cbn [filter]. fold (erase u h).
  destruct (upd_id a) as [u'|] eqn:Eu.
  - destruct (u' =? u) eqn:E; cbn [negb].
    + apply Z.eqb_eq in E. subst u'.
      assert (forall t, a <> UpdCommit u t) as Hc.
      { intros t ->. rewrite Z.eqb_refl in Ca. discriminate. }
      destruct (same_but_self u s1 s2 a R Eu Hc) as [R' O].
      rewrite safter_cons. unfold lookups. cbn [lookups_v].
      change (sstep_v head s1 a) with (sstep s1 a).
      destruct (sstep s1 a) as [s1' o] eqn:Es. cbn [fst snd] in *. subst o.
      apply IH; assumption.
    + apply Z.eqb_neq in E.
      assert (upd_id a <> Some u) as N by (rewrite Eu; intros H; inversion H; auto).
      destruct (same_but_other u s1 s2 a R N) as [R' O].
      rewrite !safter_cons. unfold lookups. cbn [lookups_v].
      change (sstep_v head s1 a) with (sstep s1 a).
      change (sstep_v head s2 a) with (sstep s2 a).
      destruct (sstep s1 a) as [s1' o1]. destruct (sstep s2 a) as [s2' o2].
      cbn [fst snd] in *. subst o2. destruct (IH _ _ R' C) as [R2 L2].
      split; [exact R2|]. unfold lookups in L2. rewrite L2. reflexivity.
  - assert (upd_id a <> Some u) as N by (rewrite Eu; discriminate).
    destruct (same_but_other u s1 s2 a R N) as [R' O].
    rewrite !safter_cons. unfold lookups. cbn [lookups_v].
    change (sstep_v head s1 a) with (sstep s1 a).
    change (sstep_v head s2 a) with (sstep s2 a).
    destruct (sstep s1 a) as [s1' o1]. destruct (sstep s2 a) as [s2' o2].
    cbn [fst snd] in *. subst o2. destruct (IH _ _ R' C) as [R2 L2].
    split; [exact R2|]. unfold lookups in L2. rewrite L2. reflexivity.
Qed.

Lemma failed_update_invisible d0 h u :
  commits u h = false ->
  base (safter (sinit d0) h) = base (safter (sinit d0) (erase u h)) /\
  lookups (sinit d0) h = lookups (sinit d0) (erase u h).
Proof.
  intros C.
  destruct (erase_invisible u h (sinit d0) (sinit d0)) as [[Eb _] L];
    [split; reflexivity|exact C|].
  split; assumption.
Qed.

(* ------------------------------------------------------------------ *)
(* sequentially the variant "publish before the call" is invisible      *)

Lemma del_absent k m : lookup k m = None -> del k m = m.
Proof.
  induction m as [|[k' v] r IH]; intros L; [reflexivity|].
  cbn [lookup] in L. unfold del in *. cbn [filter fst].
  destruct (k =? k') eqn:E; [discriminate|]. cbn [negb]. rewrite IH by exact L. reflexivity.
Qed.

Lemma del_set_absent k v m : lookup k m = None -> del k (set k v m) = m.
Proof.
  induction m as [|[k' v'] r IH]; intros L.
  - unfold del. cbn [set filter fst]. rewrite Z.eqb_refl. reflexivity.
  - cbn [lookup] in L. cbn [set]. destruct (k =? k') eqn:E; [discriminate|].
    unfold del in *. cbn [filter fst]. rewrite E. cbn [negb]. rewrite IH by exact L. reflexivity.
Qed.

Lemma variant_commit_same s u d t now :
  base (safter_v published_first s [UpdBegin u d t; UpdCommit u now])
  = update (base s) d now.
Proof.
  unfold safter_v. cbn [fold_left sstep_v published_first publish_before_call fst base pend pprev].
  rewrite !lookup_set_eq. reflexivity.
Qed.

Lemma variant_fail_same s u d t now :
  Inv0 (base s) ->
  base (safter_v published_first s [UpdBegin u d t; UpdFail u now]) = base s.
Proof.
  intros I.
  unfold safter_v. cbn [fold_left sstep_v published_first publish_before_call fst base pend pprev].
  rewrite !lookup_set_eq. unfold discard, publish. cbn [cur vers pins txnQ verQ].
  rewrite del_set_absent.
  - destruct (base s). reflexivity.
  - destruct (lookup (cur (base s) + 1) (vers (base s))) eqn:L; [|reflexivity].
    assert (cur (base s) + 1 <= cur (base s)) by (apply (i_vers_le _ I); congruence). lia.
Qed.

(* ------------------------------------------------------------------ *)
(* routing glue: a routing history acts on the accessor exactly as its  *)
(* projection (Req/Resp of a transaction = Get of its transaction id)    *)

Lemma sstep_A_get s id now :
  fst (sstep s (A (Get id now))) = with_base s (fst (get (base s) id now)).
Proof.
  unfold sstep. cbn [sstep_v step]. destruct (get (base s) id now). reflexivity.
Qed.

Lemma racc_step s a : acc (fst (rstep s a)) = fst (sstep (acc s) (proj a)).
Proof.
  destruct a as [a|id seq now|id seq status now]; cbn [rstep proj].
  - destruct (sstep (acc s) a) as [s' o]. reflexivity.
  - rewrite sstep_A_get. reflexivity.
  - rewrite sstep_A_get. destruct (get (base (acc s)) id now) as [s' o].
    destruct (dispatch_resp (alive s) id seq status (o_data o)). reflexivity.
Qed.

Lemma racc_after h : forall s, acc (rafter s h) = safter (acc s) (map proj h).
Proof.
  induction h as [|a h IH]; intros s; [reflexivity|].
  change (rafter s (a :: h)) with (rafter (fst (rstep s a)) h).
  rewrite IH, racc_step. reflexivity.
Qed.

Lemma rstep_resp s id seq status now :
  snd (rstep s (Resp id seq status now)) =
  snd (dispatch_resp (alive s) id seq status (o_data (snd (get (base (acc s)) id now)))).
Proof.
  cbn [rstep]. destruct (get (base (acc s)) id now) as [s' o]. cbn [snd].
  destruct (dispatch_resp (alive s) id seq status (o_data o)). reflexivity.
Qed.

Lemma response_uses_request_version d0 pre id seq t0 mid seq' status t :
  smonotone (map proj (pre ++ Req id seq t0 :: mid ++ [Resp id seq' status t])) ->
  lookup id (pins (base (acc (rafter (rinit d0) pre)))) = None ->
  t <= t0 + ttl ->
  let s1 := rafter (rinit d0) pre in
  let s3 := rafter (fst (rstep s1 (Req id seq t0))) mid in
  let D := committed_data d0 (map proj pre) in
  snd (get (base (acc s3)) id t)
    = {| o_ver := cur (base (acc s1)); o_data := Some D; o_fallback := false |} /\
  snd (rstep s3 (Resp id seq' status t))
    = snd (dispatch_resp (alive s3) id seq' status (Some D)).
Proof.
  intros M P Ht s1 s3 D.
  rewrite map_app in M. cbn [map proj] in M. rewrite map_app in M. cbn [map proj] in M.
  assert (acc s1 = safter (sinit d0) (map proj pre)) as E1.
  { unfold s1. rewrite racc_after. reflexivity. }
  assert (acc s3 = safter (fst (sstep (acc s1) (A (Get id t0)))) (map proj mid)) as E3.
  { unfold s3. rewrite racc_after, racc_step. reflexivity. }
  fold s1 in P. rewrite E1 in P.
  destruct (pinned_interleaved d0 (map proj pre) id t0 (map proj mid) t M P Ht) as [H2 H1].
  cbn zeta in H1, H2. rewrite <- E1 in H1, H2. rewrite <- E3 in H2.
  assert (snd (get (base (acc s3)) id t)
          = {| o_ver := cur (base (acc s1)); o_data := Some D; o_fallback := false |}) as G.
  { rewrite H2, H1. reflexivity. }
  split; [exact G|]. rewrite rstep_resp, G. reflexivity.
Qed.

(* the request side of the same statement: the look-up made by processRequest
   and the one made by processResponse hand out the same record *)
Lemma request_and_response_same d0 pre id seq t0 mid seq' status t :
  smonotone (map proj (pre ++ Req id seq t0 :: mid ++ [Resp id seq' status t])) ->
  lookup id (pins (base (acc (rafter (rinit d0) pre)))) = None ->
  t <= t0 + ttl ->
  let s1 := rafter (rinit d0) pre in
  let s3 := rafter (fst (rstep s1 (Req id seq t0))) mid in
  let D := committed_data d0 (map proj pre) in
  snd (get (base (acc s1)) id t0)
    = {| o_ver := cur (base (acc s1)); o_data := Some D; o_fallback := false |} /\
  snd (get (base (acc s3)) id t) = snd (get (base (acc s1)) id t0).
Proof.
  intros M P Ht s1 s3 D.
  rewrite map_app in M. cbn [map proj] in M. rewrite map_app in M. cbn [map proj] in M.
  assert (acc s1 = safter (sinit d0) (map proj pre)) as E1.
  { unfold s1. rewrite racc_after. reflexivity. }
  assert (acc s3 = safter (fst (sstep (acc s1) (A (Get id t0)))) (map proj mid)) as E3.
  { unfold s3. rewrite racc_after, racc_step. reflexivity. }
  fold s1 in P. rewrite E1 in P.
  destruct (pinned_interleaved d0 (map proj pre) id t0 (map proj mid) t M P Ht) as [H2 H1].
  cbn zeta in H1, H2. rewrite <- E1 in H1, H2. rewrite <- E3 in H2.
  split; [exact H1|exact H2].
Qed.
