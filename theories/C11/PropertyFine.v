(* C11 — final statements at the granularity of the mutex sections (Fine.v).

   A schedule is ANY list of fine steps: the sections of any number of
   concurrent GetTxnPoliciesData calls (GRead / GPin / GClock / GEnq / GData /
   GCur of goroutine g), of any number of concurrent UpdatePoliciesData calls
   (UBegin / UFail / UPublish / UClock / UEnq of goroutine u) and of the passes
   of the two vacuum goroutines (Vac w KSnap / KClock / KDelete / KTrim), in any
   order.  Each step carries the value of the clock when it runs; only the
   *Clock steps read it.  fstep_v V / fafter_v V / fouts_v V are the semantics
   of variant V (ffixed: setTxnVersion re-checks the anchor under the write
   lock — the code the suite "fine" is checked against, /repo since fix-F-C11a
   was applied; fhead: it does not — the code BEFORE that fix, kept only for the
   refutation below.  Fine.fhead has nothing to do with Failsafe.ehead, which
   is the unmodified code of the entry points and the PROVED variant there).

   Proofs are in FineProofs.v. *)
From Coq Require Import List ZArith Bool Lia Sorted.
From Verif Require Import C11.Model C11.Proofs C11.Fine C11.FineProofs.
Import ListNotations.
Open Scope Z_scope.

(* ---- C11_fine_pinned ----
   Goroutine g, looking transaction txn up, found no anchor and now runs the
   Lock section of setTxnVersion (GPin g) at instant t0, after ANY schedule pre;
   txn is not anchored at that moment, so g anchors it to the current version.
   Let mid be ANY schedule that follows in which every clock reading (by
   look-ups queueing their entries, by updates queueing the superseded version,
   by the two vacuum passes) lies in [t0, t0 + ttl]; no reading of pre is later
   than t0 + ttl (monotone clock).  Then EVERY look-up of txn that completes
   during mid — by g itself, by goroutines that had also found no anchor and are
   about to enter setTxnVersion, by any number of look-ups started later,
   concurrent or not — returns the version current at t0 with the data it
   carried at t0, without fallback; whatever updates are published, fail or
   queue their entries, whatever passes take their snapshot before or after,
   read the clock, delete and trim in between.
   Only look-ups whose version was determined BEFORE the anchoring (they read
   an earlier anchor of txn that has expired since) are excepted. *)
Definition fpinned_v (V : fvariant) : Prop :=
  forall d0 pre g txn t0 mid,
  let s1 := fafter_v V (finit d0) pre in
  let s2 := fst (fstep_v V s1 (GPin g t0)) in
  flookup g (gth s1) = Some (GNeed txn) ->
  lookup txn (pins (fb s1)) = None ->
  forallb (fbefore (t0 + ttl)) pre = true ->
  forallb (fwithin t0 (t0 + ttl)) mid = true ->
  exists d, lookup (cur (fb s1)) (vers (fb s1)) = Some d /\
    forall o, In o (fouts_v V s2 mid) ->
      fo_txn o = txn -> undetermined s1 (fo_g o) = true ->
      fo_out o = {| o_ver := cur (fb s1); o_data := Some d; o_fallback := false |}.

Theorem C11_fine_pinned : fpinned_v ffixed.
Proof.
  intros d0 pre g txn t0 mid s1 s2 L P Fp Fm.
  destruct (fine_pinned_fixed d0 pre g txn t0 mid L P Fp Fm) as (d & Hd & _ & H).
  exists d. split; [exact Hd|exact H].
Qed.
Print Assumptions C11_fine_pinned.

(* Without the re-check the statement is false (finding F-C11a, repaired by
   patches/C11/fix-F-C11a.patch): goroutines 1 and 2 both look transaction 7 up
   and both find no anchor; 1 anchors it to version 1 and returns object 10; an
   update publishes object 11 as version 2; 2 enters setTxnVersion and
   overwrites the anchor: it returns (version 2, object 11) one tick after 1
   returned (version 1, object 10), and so does every later look-up. *)
Theorem C11_fine_pinned_refuted_without_recheck : ~ fpinned_v fhead.
Proof.
  intros H.
  specialize (H 10 [GRead 1 7 0; GRead 2 7 0] 1 7 0
                [GClock 1 0; GEnq 1 0; GData 1 0; UBegin 1 11 1; UPublish 1 1; UClock 1 1; UEnq 1 1;
                 GPin 2 2; GClock 2 2; GEnq 2 2; GData 2 2]).
  cbn zeta in H. destruct H as (d & _ & H); try (vm_compute; reflexivity).
  specialize (H {| fo_g := 2; fo_txn := 7;
                   fo_out := {| o_ver := 2; o_data := Some 11; o_fallback := false |} |}).
  assert (fo_out {| fo_g := 2; fo_txn := 7;
                    fo_out := {| o_ver := 2; o_data := Some 11; o_fallback := false |} |}
          = {| o_ver := 1; o_data := Some d; o_fallback := false |}) as X.
  { apply H; [vm_compute; right; left; reflexivity|reflexivity|vm_compute; reflexivity]. }
  cbn [fo_out] in X. discriminate X.
Qed.
Print Assumptions C11_fine_pinned_refuted_without_recheck.

(* what the two variants do on that schedule followed by one more look-up:
   without the re-check transaction 7 is served 10, 11, 11 and is queued twice;
   with it 10, 10, 10 and once *)
Example C11_double_anchor_witness :
  let h := [GRead 1 7 0; GRead 2 7 0; GPin 1 0; GClock 1 0; GEnq 1 0; GData 1 0;
            UBegin 1 11 1; UPublish 1 1; UClock 1 1; UEnq 1 1;
            GPin 2 2; GClock 2 2; GEnq 2 2; GData 2 2; GRead 3 7 3; GData 3 3] in
  map (fun o => o_data (fo_out o)) (fouts_v fhead (finit 10) h) = [Some 10; Some 11; Some 11] /\
  map snd (txnQ (fb (fafter_v fhead (finit 10) h))) = [7; 7] /\
  map (fun o => o_data (fo_out o)) (fouts (finit 10) h) = [Some 10; Some 10; Some 10] /\
  map snd (txnQ (fb (fafter (finit 10) h))) = [7].
Proof. vm_compute. repeat split. Qed.

(* ---- C11_fine_retention ----
   Same situation: after every such mid the version current at t0 is still
   retained and carries the same data (mid is arbitrary, so after every prefix). *)
Theorem C11_fine_retention : forall d0 pre g txn t0 mid,
  let s1 := fafter (finit d0) pre in
  flookup g (gth s1) = Some (GNeed txn) ->
  lookup txn (pins (fb s1)) = None ->
  forallb (fbefore (t0 + ttl)) pre = true ->
  forallb (fwithin t0 (t0 + ttl)) mid = true ->
  exists d, lookup (cur (fb s1)) (vers (fb s1)) = Some d /\
    lookup (cur (fb s1)) (vers (fb (fafter (fst (fstep s1 (GPin g t0))) mid))) = Some d.
Proof.
  intros d0 pre g txn t0 mid s1 L P Fp Fm.
  destruct (fine_pinned_fixed d0 pre g txn t0 mid L P Fp Fm) as (d & Hd & Hr & _).
  exists d. split; assumption.
Qed.
Print Assumptions C11_fine_retention.

(* the same two claims for a monotone clock: the steps of the whole schedule
   run on non-decreasing clock values and mid ends no later than t0 + ttl *)
Theorem C11_fine_pinned_monotone : forall d0 pre g txn t0 mid,
  let s1 := fafter (finit d0) pre in
  let s2 := fst (fstep s1 (GPin g t0)) in
  flookup g (gth s1) = Some (GNeed txn) ->
  lookup txn (pins (fb s1)) = None ->
  fmonotone (pre ++ GPin g t0 :: mid) ->
  Forall (fun a => ftime a <= t0 + ttl) mid ->
  exists d, lookup (cur (fb s1)) (vers (fb s1)) = Some d /\
    lookup (cur (fb s1)) (vers (fb (fafter s2 mid))) = Some d /\
    forall o, In o (fouts s2 mid) ->
      fo_txn o = txn -> undetermined s1 (fo_g o) = true ->
      fo_out o = {| o_ver := cur (fb s1); o_data := Some d; o_fallback := false |}.
Proof.
  intros d0 pre g txn t0 mid s1 s2 L P M F.
  destruct (fmonotone_window _ _ _ _ M F) as [Fp Fm].
  exact (fine_pinned_fixed d0 pre g txn t0 mid L P Fp Fm).
Qed.
Print Assumptions C11_fine_pinned_monotone.

(* ---- transactions that start after a reload use the new version ----
   After any schedule the current object changes in exactly one kind of step:
   the Lock section of setNextVersion of an update that is inside its HAProxy
   call (UPublish u with u in state UCall d), and it becomes that update's
   object d.  (With C11_fine_pinned: a transaction anchored after that step is
   served d or a later object, one anchored before it keeps the earlier one.) *)
Theorem C11_fine_current_changes_only_at_publish : forall d0 h a,
  let s := fafter (finit d0) h in
  lookup (cur (fb (fst (fstep s a)))) (vers (fb (fst (fstep s a)))) =
  match a with
  | UPublish u _ =>
      match flookup u (uth s) with
      | Some (UCall d) => Some d
      | _ => lookup (cur (fb s)) (vers (fb s))
      end
  | _ => lookup (cur (fb s)) (vers (fb s))
  end.
Proof. intros d0 h a s. apply fcur_step. apply FInv0_after, FInv0_init. Qed.
Print Assumptions C11_fine_current_changes_only_at_publish.

(* ---- no double anchor (code with the re-check) ----
   After every schedule: the entries of the transaction queue that a pass has
   not handled yet name each transaction at most once; a transaction that some
   goroutine has anchored but not queued yet has no such entry and no second
   goroutine in that position; and whoever is queued or about to be is anchored. *)
Theorem C11_fine_single_anchor : forall d0 h,
  let s := fafter (finit d0) h in
  NoDup (map snd (liveT s)) /\
  (forall txn, In txn (map snd (liveT s)) -> lookup txn (pins (fb s)) <> None) /\
  (forall g txn, anchoring s g txn ->
     lookup txn (pins (fb s)) <> None /\ ~ In txn (map snd (liveT s)) /\
     forall g', anchoring s g' txn -> g = g').
Proof.
  intros d0 h s. destruct (FInv0_after h _ (FInv0_init d0)) as [? ? ? ? ? ? A B C D E].
  split; [exact A|]. split; [exact B|]. intros g txn H.
  split; [exact (C g txn H)|]. split; [exact (D g txn H)|]. intros g' H'. exact (E g g' txn H H').
Qed.
Print Assumptions C11_fine_single_anchor.

(* ---- the atomic model is the sequential part of the fine one ----
   Run one at a time (all sections of an operation in a row, on one clock
   value), the fine steps act on the accessor exactly as the actions of Model.v
   and the look-ups return the same: every theorem of Property.v is the
   restriction of the fine semantics to such schedules, in either variant. *)
Theorem C11_fine_refines_atomic : forall V d0 h,
  fb (fafter_v V (finit d0) (flat_map fine_of h)) = after (init d0) h /\
  gth (fafter_v V (finit d0) (flat_map fine_of h)) = [] /\
  uth (fafter_v V (finit d0) (flat_map fine_of h)) = [] /\
  map fo_out (fouts_v V (finit d0) (flat_map fine_of h)) = outs (init d0) h.
Proof.
  intros V d0 h. destruct (fine_refines_atomic V h (init d0)) as [E O].
  change (finit d0) with (idle (init d0)). rewrite E, O. repeat split.
Qed.
Print Assumptions C11_fine_refines_atomic.

(* ---- non-vacuity ----
   Interleaving on which the hypotheses of C11_fine_pinned hold and everything
   the atomic model cannot express happens: the transaction pass takes its
   snapshot BEFORE transaction 7 is anchored; goroutines 1 and 2 both find no
   anchor; 1 anchors (t0 = 10 s); an update is published between 1's Lock
   section and 1's clock reading, reads the clock and queues version 1; 2 enters
   setTxnVersion late and finds the anchor; goroutine 3 starts afterwards; both
   passes read the clock at exactly t0 + ttl and delete; 4 looks up after the
   passes.  All four are served (version 1, object 10). *)
Definition fx_t0 : Z := 10000000000.
Definition fx_pre : list fact :=
  [GRead 9 5 0; GPin 9 0; GClock 9 0; GEnq 9 0; GData 9 0;
   Vac false KSnap 1; GRead 1 7 2; GRead 2 7 2].
Definition fx_mid : list fact :=
  [UBegin 1 11 fx_t0; UPublish 1 fx_t0; UClock 1 fx_t0; GClock 1 (fx_t0 + 1); UEnq 1 (fx_t0 + 1);
   GPin 2 (fx_t0 + 2); GEnq 1 (fx_t0 + 2); GData 2 (fx_t0 + 3); GData 1 (fx_t0 + 3);
   GRead 3 7 (fx_t0 + 4); Vac true KSnap (fx_t0 + 5);
   Vac false KClock (fx_t0 + ttl); Vac true KClock (fx_t0 + ttl); GData 3 (fx_t0 + ttl);
   Vac false KDelete (fx_t0 + ttl + 5); Vac true KDelete (fx_t0 + ttl + 5);
   Vac false KTrim (fx_t0 + ttl + 5); Vac true KTrim (fx_t0 + ttl + 5);
   GRead 4 7 (fx_t0 + ttl + 6); GData 4 (fx_t0 + ttl + 6)].

Example C11_fine_pinned_applies :
  let s1 := fafter (finit 10) fx_pre in
  flookup 1 (gth s1) = Some (GNeed 7) /\ flookup 2 (gth s1) = Some (GNeed 7) /\
  lookup 7 (pins (fb s1)) = None /\
  forallb (fbefore (fx_t0 + ttl)) fx_pre = true /\
  forallb (fwithin fx_t0 (fx_t0 + ttl)) fx_mid = true /\
  map (fun o => (fo_g o, fo_txn o, o_ver (fo_out o), o_data (fo_out o)))
      (fouts (fst (fstep s1 (GPin 1 fx_t0))) fx_mid)
    = [(2, 7, 1, Some 10); (1, 7, 1, Some 10); (3, 7, 1, Some 10); (4, 7, 1, Some 10)] /\
  cur (fb (fafter (fst (fstep s1 (GPin 1 fx_t0))) fx_mid)) = 2 /\
  map fst (vers (fb (fafter (fst (fstep s1 (GPin 1 fx_t0))) fx_mid))) = [1; 2] /\
  txnQ (fb (fafter (fst (fstep s1 (GPin 1 fx_t0))) fx_mid)) = [(fx_t0 + 1 + ttl, 7)].
Proof. vm_compute. repeat split. Qed.

(* the bound is sharp: the pass in progress ends (its snapshot predates the
   anchor), then a pass of each vacuum that reads the clock 2 ns after t0 + ttl
   (the entries are due at t0 + 1 + ttl) removes anchor and version; the next
   look-up is re-anchored to version 2 *)
Example C11_fine_bound_is_sharp :
  let s1 := fafter (finit 10) fx_pre in
  let mid' := [UBegin 1 11 fx_t0; UPublish 1 fx_t0; UClock 1 fx_t0; GClock 1 (fx_t0 + 1);
               UEnq 1 (fx_t0 + 1); GEnq 1 (fx_t0 + 2); GData 1 (fx_t0 + 3);
               Vac false KClock (fx_t0 + ttl + 2); Vac false KDelete (fx_t0 + ttl + 2);
               Vac false KTrim (fx_t0 + ttl + 2)] ++ vac_block false (fx_t0 + ttl + 2) ++
              vac_block true (fx_t0 + ttl + 2) ++
              get_block 4 7 (fx_t0 + ttl + 3) in
  map (fun o => (fo_g o, o_ver (fo_out o), o_data (fo_out o)))
      (fouts (fst (fstep s1 (GPin 1 fx_t0))) mid')
    = [(1, 1, Some 10); (4, 2, Some 11)] /\
  map fst (vers (fb (fafter (fst (fstep s1 (GPin 1 fx_t0))) mid'))) = [2].
Proof. vm_compute. repeat split. Qed.
