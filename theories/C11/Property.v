(* C11 — a transaction sees one policy version from request to response.
   Final statements only; proofs are in Proofs.v.

   Vocabulary (Model.v):  after s h = state after the history h;
   get s txn now = (state, {version anchored, data handed out, fallback flag});
   a history is a list of  Get txn now | Update d now | Refused now |
   VacTxn now | VacVer now  (look-up, successful reload/revert, refused reload,
   one pass of either vacuum), each with the clock reading it ran on.
   monotone h = the clock readings of h never decrease. *)
From Coq Require Import List ZArith Bool Lia Sorted.
From Verif Require Import C11.Model C11.Proofs.
Import ListNotations.
Open Scope Z_scope.

(* ---- C11_pinned ----
   Take ANY history  pre ++ [Get txn t0] ++ mid ++ [Get txn t]  with a monotone
   clock in which txn is not anchored when it is looked up at t0 (first sight,
   or its former anchor has been vacuumed), and t <= t0 + ttl.  Whatever
   updates, reverts, refused updates, look-ups of other transactions and passes
   of either vacuum make up pre and mid:
   - the second look-up returns exactly what the first returned: same version,
     same data, and neither took the "version not found" fallback;
   - that version is the one current at t0 and its data is the data of the last
     successful update before t0. *)
Theorem C11_pinned : forall d0 pre txn t0 mid t,
  monotone (pre ++ Get txn t0 :: mid ++ [Get txn t]) ->
  lookup txn (pins (after (init d0) pre)) = None ->
  t <= t0 + ttl ->
  let s1 := after (init d0) pre in
  let o1 := snd (get s1 txn t0) in
  let o2 := snd (get (after (fst (get s1 txn t0)) mid) txn t) in
  o2 = o1 /\
  o1 = {| o_ver := cur s1; o_data := Some (last_data d0 pre); o_fallback := false |}.
Proof. exact pinned_monotone. Qed.
Print Assumptions C11_pinned.

(* the same without any order among the intermediate clock readings: it is
   enough that each of them lies in [t0, t0 + ttl] (the final look-up does not
   read the clock at all) *)
Theorem C11_pinned_window : forall d0 pre txn t0 mid t,
  lookup txn (pins (after (init d0) pre)) = None ->
  Forall (fun a => t0 <= time_of a <= t0 + ttl) mid ->
  let s1 := after (init d0) pre in
  let o1 := snd (get s1 txn t0) in
  let o2 := snd (get (after (fst (get s1 txn t0)) mid) txn t) in
  o2 = o1 /\
  o1 = {| o_ver := cur s1; o_data := Some (last_data d0 pre); o_fallback := false |}.
Proof. exact pinned_window. Qed.
Print Assumptions C11_pinned_window.

(* a transaction id that was never looked up is not anchored, so "first seen"
   discharges the second hypothesis of C11_pinned / C11_retention *)
Theorem C11_first_seen_unpinned : forall d0 h txn,
  ~ In txn (seen h) -> lookup txn (pins (after (init d0) h)) = None.
Proof. intros d0 h txn H. apply unseen_unpinned; [reflexivity|exact H]. Qed.
Print Assumptions C11_first_seen_unpinned.

(* ---- C11_new_sees_new ----
   After ANY history h (no assumption on the clock), a transaction that is not
   anchored gets version 1 + (number of successful updates in h), carrying the
   data of the last successful update (the initial data when there was none),
   without fallback — never an older version, never the empty object. *)
Theorem C11_new_sees_new : forall d0 h txn t,
  lookup txn (pins (after (init d0) h)) = None ->
  snd (get (after (init d0) h) txn t) =
  {| o_ver := 1 + n_updates h; o_data := Some (last_data d0 h); o_fallback := false |}.
Proof. exact new_sees_new. Qed.
Print Assumptions C11_new_sees_new.

(* ---- C11_retention ----
   If txn was anchored at t0 (to the version current then), any action that
   leaves that version not retained runs on a clock reading strictly later than
   t0 + ttl — for every such txn and t0, in every monotone history. *)
Theorem C11_retention : forall d0 pre txn t0 mid a,
  monotone (pre ++ Get txn t0 :: mid ++ [a]) ->
  lookup txn (pins (after (init d0) pre)) = None ->
  let s1 := after (init d0) pre in
  let s3 := after (fst (get s1 txn t0)) mid in
  retained (cur s1) (fst (step s3 a)) = false ->
  t0 + ttl < time_of a.
Proof. exact retention_monotone. Qed.
Print Assumptions C11_retention.

(* what must not change: the data stored under a version number is never
   replaced — after any further history it is the same data or the version is
   gone (and C11_retention says when it may be gone) *)
Theorem C11_version_data_immutable : forall d0 h1 h2 v d,
  lookup v (vers (after (init d0) h1)) = Some d ->
  lookup v (vers (after (init d0) (h1 ++ h2))) = Some d \/
  lookup v (vers (after (init d0) (h1 ++ h2))) = None.
Proof. exact version_data_immutable. Qed.
Print Assumptions C11_version_data_immutable.

(* ---- the invariant behind the three claims ----
   After every monotone history, with T any upper bound of the clock readings
   so far (Inv and Inv0 are the records of Proofs.v, restated here in full):
   - the current version is retained; retained versions are <= current;
     every queued version is retained, older than the current one and queued once;
   - a transaction is anchored iff it has a queue entry, and it has only one;
   - both queues are sorted by due instant, nothing is due later than T + ttl;
   - every anchored transaction has a queue entry due at some a, and unless that
     entry is overdue (a < T) its version is current or queued for a' >= a. *)
Theorem C11_invariant : forall d0 h T,
  monotone h -> Forall (fun a => time_of a <= T) h ->
  let s := after (init d0) h in
  (lookup (cur s) (vers s) <> None /\
   (forall v, lookup v (vers s) <> None -> v <= cur s) /\
   Forall (fun e => snd e < cur s) (verQ s) /\
   NoDup (map snd (verQ s)) /\
   (forall v, In v (map snd (verQ s)) -> lookup v (vers s) <> None)) /\
  (NoDup (map snd (txnQ s)) /\
   (forall txn, In txn (map snd (txnQ s)) <-> lookup txn (pins s) <> None)) /\
  (StronglySorted Z.le (map fst (txnQ s)) /\ StronglySorted Z.le (map fst (verQ s)) /\
   Forall (fun e => fst e <= T + ttl) (txnQ s) /\
   Forall (fun e => fst e <= T + ttl) (verQ s)) /\
  (forall txn v, lookup txn (pins s) = Some v ->
     exists a, In (a, txn) (txnQ s) /\
       (a < T \/ v = cur s \/ exists a', In (a', v) (verQ s) /\ a <= a')).
Proof. exact invariant_spelled_out. Qed.
Print Assumptions C11_invariant.

(* ---- the glue: routing/messages_handler.go in policy mode ----
   Req id seq / Resp id seq status are processRequest / processResponse of a
   transaction (id) of a sequence (seq); both look the accessor up under the
   transaction id (Model.v, second part).  On the accessor a routing history
   acts exactly as its projection (Req, Resp |-> Get id). *)
Theorem C11_routing_refines_accessor : forall d0 h,
  acc (rafter (rinit d0) h) = after (init d0) (map proj h).
Proof. intros d0 h. exact (racc_after h (rinit d0)). Qed.
Print Assumptions C11_routing_refines_accessor.

(* The response of a transaction is dispatched with exactly the data that was
   current when its request was seen (the data of the last successful update
   before the request), whatever happens in between, for every sequence id on
   either message, whenever the response comes within ttl of the request and
   the clock is monotone; in particular the harness's marker observable (retry
   action or not) is the one that data produces. *)
Theorem C11_response_uses_request_version :
  forall d0 pre id seq t0 mid seq' status t,
  monotone (map proj (pre ++ Req id seq t0 :: mid ++ [Resp id seq' status t])) ->
  lookup id (pins (acc (rafter (rinit d0) pre))) = None ->
  t <= t0 + ttl ->
  let s1 := rafter (rinit d0) pre in
  let s3 := rafter (fst (rstep s1 (Req id seq t0))) mid in
  let D := last_data d0 (map proj pre) in
  snd (get (acc s3) id t)
    = {| o_ver := cur (acc s1); o_data := Some D; o_fallback := false |} /\
  snd (rstep s3 (Resp id seq' status t))
    = snd (dispatch_resp (alive s3) id seq' status (Some D)).
Proof. exact response_uses_request_version. Qed.
Print Assumptions C11_response_uses_request_version.

(* ---- non-vacuity: the hypotheses are met on concrete histories in which the
   interesting things happen ---- *)

(* txn 1 is first seen at 10 s while version 2 is current; two more updates, a
   look-up of another transaction and passes of both vacuums at exactly
   t0 + ttl follow; txn 1 still gets (version 2, data 11) at t0 + ttl.  One
   nanosecond later both vacuums remove the anchor and version 2, and the same
   transaction is re-anchored to version 4. *)
Definition ex_pre : list act := [Get 7 0; Update 11 5000000000].
Definition ex_t0 : Z := 10000000000.
Definition ex_mid : list act :=
  [Update 12 (ex_t0 + 1); Get 2 (ex_t0 + 2); Update 13 (ex_t0 + 5000000000);
   VacTxn (ex_t0 + ttl); VacVer (ex_t0 + ttl)].

Example C11_pinned_applies :
  monotone (ex_pre ++ Get 1 ex_t0 :: ex_mid ++ [Get 1 (ex_t0 + ttl)]) /\
  lookup 1 (pins (after (init 10) ex_pre)) = None /\
  snd (get (after (init 10) ex_pre) 1 ex_t0)
    = {| o_ver := 2; o_data := Some 11; o_fallback := false |} /\
  snd (get (after (fst (get (after (init 10) ex_pre) 1 ex_t0)) ex_mid) 1 (ex_t0 + ttl))
    = {| o_ver := 2; o_data := Some 11; o_fallback := false |} /\
  map fst (vers (after (fst (get (after (init 10) ex_pre) 1 ex_t0)) ex_mid)) = [2; 3; 4].
Proof.
  split.
  { unfold monotone. vm_compute.
    repeat (constructor; try (intro H; discriminate H)). }
  vm_compute. repeat split.
Qed.

(* the bound is sharp: with the first update at t0 itself and the vacuum passes
   one nanosecond after t0 + ttl the anchor is gone, version 2 is gone, and the
   transaction is re-anchored to version 4 *)
Example C11_pinned_bound_is_sharp :
  let mid' := [Update 12 ex_t0; Get 2 (ex_t0 + 2); Update 13 (ex_t0 + 5000000000);
               VacTxn (ex_t0 + ttl + 1); VacVer (ex_t0 + ttl + 1)] in
  let s := after (fst (get (after (init 10) ex_pre) 1 ex_t0)) mid' in
  snd (get s 1 (ex_t0 + ttl + 1)) = {| o_ver := 4; o_data := Some 13; o_fallback := false |} /\
  retained 2 s = false /\ map fst (vers s) = [3; 4].
Proof. vm_compute. repeat split. Qed.

(* the fallback branch is reachable outside the retention period: the version
   vacuum has run, the transaction vacuum has not; the anchored version 2 is
   gone and the current data is handed out with the fallback flag *)
Example C11_fallback_reachable_after_ttl :
  let mid' := [Update 12 (ex_t0 + 1); VacVer (ex_t0 + 1 + ttl + 1)] in
  let s := after (fst (get (after (init 10) ex_pre) 1 ex_t0)) mid' in
  snd (get s 1 (ex_t0 + 1 + ttl + 1)) = {| o_ver := 2; o_data := Some 12; o_fallback := true |}.
Proof. vm_compute. reflexivity. Qed.

(* C11_retention's hypotheses are met: the removing action is the version
   vacuum pass at t0 + 1 + ttl + 1 *)
Example C11_retention_applies :
  let mid' := [Update 12 (ex_t0 + 1)] in
  let a := VacVer (ex_t0 + 1 + ttl + 1) in
  monotone (ex_pre ++ Get 1 ex_t0 :: mid' ++ [a]) /\
  retained 2 (after (fst (get (after (init 10) ex_pre) 1 ex_t0)) mid') = true /\
  retained 2 (fst (step (after (fst (get (after (init 10) ex_pre) 1 ex_t0)) mid') a)) = false.
Proof.
  split.
  { unfold monotone. vm_compute.
    repeat (constructor; try (intro H; discriminate H)). }
  vm_compute. split; reflexivity.
Qed.

(* routing: sequence 1 opens with transaction 1 under object 0 (retry state is
   created); its retried attempt, transaction 2 of sequence 1, is first seen
   under object 0; a reload installs object 1; the response of transaction 2
   with status marker 0 still gets the retry action (processed with object 0),
   and a transaction that starts after the reload is processed with object 1. *)
Example C11_routing_applies :
  let pre := [Req 1 1 0; Resp 1 1 (marker 0) 1] in
  let mid := [Acc (Update 1 3)] in
  monotone (map proj (pre ++ Req 2 1 2 :: mid ++ [Resp 2 1 (marker 0) 4])) /\
  lookup 2 (pins (acc (rafter (rinit 0) pre))) = None /\
  map snd (rtrace (rinit 0) (pre ++ Req 2 1 2 :: mid ++
             [Resp 2 1 (marker 0) 4; Req 3 3 5; Resp 3 3 (marker 0) 6; Req 4 4 7; Resp 4 4 (marker 1) 8]))
  = [[0]; [0]; [0]; [0; 1]; [0; 1]; [0; 1]; [0; 1]; [0; 1]; [0; 1]] /\
  map fst (rtrace (rinit 0) (pre ++ Req 2 1 2 :: mid ++
             [Resp 2 1 (marker 0) 4; Req 3 3 5; Resp 3 3 (marker 0) 6; Req 4 4 7; Resp 4 4 (marker 1) 8]))
  = [0; 1; 0; 0; 1; 0; 0; 0; 1].
Proof.
  split.
  { unfold monotone. vm_compute.
    repeat (constructor; try (intro H; discriminate H)). }
  vm_compute. repeat split.
Qed.
