(* C11 — a transaction sees one policy version from request to response.
   Final statements only; proofs are in Proofs.v.

   Vocabulary (Model.v):  after s h = state after the history h;
   get s txn now = (state, {version anchored, data handed out, fallback flag});
   a history is a list of  Get txn now | Update d now | Refused now |
   VacTxn now | VacVer now  (look-up, successful reload/revert, refused reload,
   one pass of either vacuum), each with the clock reading it ran on.
   monotone h = the clock readings of h never decrease.

   Second part ("interleaved"): UpdatePoliciesData is not atomic.  A split
   history is a list of  A <atomic action> | UpdBegin u d now | UpdCommit u now |
   UpdFail u now  (update u entered its HAProxy call / its call succeeded and
   setNextVersion ran / its call failed); any number of updates may be inside
   their calls at once and anything may run meanwhile.  safter, sstep, lookups
   are the HEAD semantics; *_v V the semantics of variant V. *)
From Coq Require Import List ZArith Bool Lia Sorted.
From Verif Require Import C11.Model C11.Proofs C11.Split.
Import ListNotations.
Open Scope Z_scope.

(* ---- C11_pinned ----
   Take ANY history  pre ++ [Get txn t0] ++ mid ++ [Get txn t]  with a monotone
   clock in which txn is not anchored when it is looked up at t0 (first sight,
   or its former anchor has been vacuumed), and t <= t0 + ttl.  Whatever
   updates, reverts, refused updates, look-ups of other transactions and passes
   of either vacuum make up pre and mid:
   - the second look-up returns exactly what the first returned: same version,
     same data, and neither took the "version not found" fallback;
   - that version is the one current at t0 and its data is the data of the last
     successful update before t0. *)
Theorem C11_pinned : forall d0 pre txn t0 mid t,
  monotone (pre ++ Get txn t0 :: mid ++ [Get txn t]) ->
  lookup txn (pins (after (init d0) pre)) = None ->
  t <= t0 + ttl ->
  let s1 := after (init d0) pre in
  let o1 := snd (get s1 txn t0) in
  let o2 := snd (get (after (fst (get s1 txn t0)) mid) txn t) in
  o2 = o1 /\
  o1 = {| o_ver := cur s1; o_data := Some (last_data d0 pre); o_fallback := false |}.
Proof. exact pinned_monotone. Qed.
Print Assumptions C11_pinned.

(* the same without any order among the intermediate clock readings: it is
   enough that each of them lies in [t0, t0 + ttl] (the final look-up does not
   read the clock at all) *)
Theorem C11_pinned_window : forall d0 pre txn t0 mid t,
  lookup txn (pins (after (init d0) pre)) = None ->
  Forall (fun a => t0 <= time_of a <= t0 + ttl) mid ->
  let s1 := after (init d0) pre in
  let o1 := snd (get s1 txn t0) in
  let o2 := snd (get (after (fst (get s1 txn t0)) mid) txn t) in
  o2 = o1 /\
  o1 = {| o_ver := cur s1; o_data := Some (last_data d0 pre); o_fallback := false |}.
Proof. exact pinned_window. Qed.
Print Assumptions C11_pinned_window.

(* a transaction id that was never looked up is not anchored, so "first seen"
   discharges the second hypothesis of C11_pinned / C11_retention *)
Theorem C11_first_seen_unpinned : forall d0 h txn,
  ~ In txn (seen h) -> lookup txn (pins (after (init d0) h)) = None.
Proof. intros d0 h txn H. apply unseen_unpinned; [reflexivity|exact H]. Qed.
Print Assumptions C11_first_seen_unpinned.

(* ---- C11_new_sees_new ----
   After ANY history h (no assumption on the clock), a transaction that is not
   anchored gets version 1 + (number of successful updates in h), carrying the
   data of the last successful update (the initial data when there was none),
   without fallback — never an older version, never the empty object. *)
Theorem C11_new_sees_new : forall d0 h txn t,
  lookup txn (pins (after (init d0) h)) = None ->
  snd (get (after (init d0) h) txn t) =
  {| o_ver := 1 + n_updates h; o_data := Some (last_data d0 h); o_fallback := false |}.
Proof. exact new_sees_new. Qed.
Print Assumptions C11_new_sees_new.

(* ---- C11_retention ----
   If txn was anchored at t0 (to the version current then), any action that
   leaves that version not retained runs on a clock reading strictly later than
   t0 + ttl — for every such txn and t0, in every monotone history. *)
Theorem C11_retention : forall d0 pre txn t0 mid a,
  monotone (pre ++ Get txn t0 :: mid ++ [a]) ->
  lookup txn (pins (after (init d0) pre)) = None ->
  let s1 := after (init d0) pre in
  let s3 := after (fst (get s1 txn t0)) mid in
  retained (cur s1) (fst (step s3 a)) = false ->
  t0 + ttl < time_of a.
Proof. exact retention_monotone. Qed.
Print Assumptions C11_retention.

(* the same without any order among the intermediate clock readings (as
   C11_pinned_window): while every clock reading lies in [t0, t0 + ttl] the
   version current at t0 is retained, with the data it carried at t0 *)
Theorem C11_retention_window : forall d0 pre txn t0 mid,
  lookup txn (pins (after (init d0) pre)) = None ->
  Forall (fun a => t0 <= time_of a <= t0 + ttl) mid ->
  let s1 := after (init d0) pre in
  lookup (cur s1) (vers (after (fst (get s1 txn t0)) mid)) = Some (last_data d0 pre).
Proof. exact retained_window. Qed.
Print Assumptions C11_retention_window.

(* what must not change: the data stored under a version number is never
   replaced — after any further history it is the same data or the version is
   gone (and C11_retention says when it may be gone) *)
Theorem C11_version_data_immutable : forall d0 h1 h2 v d,
  lookup v (vers (after (init d0) h1)) = Some d ->
  lookup v (vers (after (init d0) (h1 ++ h2))) = Some d \/
  lookup v (vers (after (init d0) (h1 ++ h2))) = None.
Proof. exact version_data_immutable. Qed.
Print Assumptions C11_version_data_immutable.

(* ---- the invariant behind the three claims ----
   After every monotone history, with T any upper bound of the clock readings
   so far (Inv and Inv0 are the records of Proofs.v, restated here in full):
   - the current version is retained; retained versions are <= current;
     every queued version is retained, older than the current one and queued once;
   - a transaction is anchored iff it has a queue entry, and it has only one;
   - both queues are sorted by due instant, nothing is due later than T + ttl;
   - every anchored transaction has a queue entry due at some a, and unless that
     entry is overdue (a < T) its version is current or queued for a' >= a. *)
Theorem C11_invariant : forall d0 h T,
  monotone h -> Forall (fun a => time_of a <= T) h ->
  let s := after (init d0) h in
  (lookup (cur s) (vers s) <> None /\
   (forall v, lookup v (vers s) <> None -> v <= cur s) /\
   Forall (fun e => snd e < cur s) (verQ s) /\
   NoDup (map snd (verQ s)) /\
   (forall v, In v (map snd (verQ s)) -> lookup v (vers s) <> None)) /\
  (NoDup (map snd (txnQ s)) /\
   (forall txn, In txn (map snd (txnQ s)) <-> lookup txn (pins s) <> None)) /\
  (StronglySorted Z.le (map fst (txnQ s)) /\ StronglySorted Z.le (map fst (verQ s)) /\
   Forall (fun e => fst e <= T + ttl) (txnQ s) /\
   Forall (fun e => fst e <= T + ttl) (verQ s)) /\
  (forall txn v, lookup txn (pins s) = Some v ->
     exists a, In (a, txn) (txnQ s) /\
       (a < T \/ v = cur s \/ exists a', In (a', v) (verQ s) /\ a <= a')).
Proof. exact invariant_spelled_out. Qed.
Print Assumptions C11_invariant.

(* ================================================================== *)
(* UpdatePoliciesData split at its HAProxy call: all interleavings       *)

(* At HEAD a split history acts on the accessor exactly as the atomic history
   [flat [] h]: every committed update is an [Update d] at its commit instant,
   every other step of an update is a no-op; the look-ups hand out the same
   objects.  (So every theorem above transfers to split histories; the main ones
   are restated below in full.) *)
Theorem C11_split_refines_atomic : forall d0 h,
  base (safter (sinit d0) h) = after (init d0) (flat [] h) /\
  lookups (sinit d0) h = outs (init d0) (flat [] h) /\
  map time_of (flat [] h) = map stime_of h.
Proof.
  intros d0 h. split; [exact (base_safter h (sinit d0))|].
  split; [exact (lookups_outs h (sinit d0))|apply time_flat].
Qed.
Print Assumptions C11_split_refines_atomic.

(* the atomic actions are derived forms, and atomic histories embed *)
Theorem C11_atomic_update_is_begin_commit : forall s u d t now,
  base (safter s [UpdBegin u d t; UpdCommit u now]) = fst (step (base s) (Update d now)) /\
  base (safter s [UpdBegin u d t; UpdFail u now]) = fst (step (base s) (Refused now)).
Proof.
  intros. split; [apply update_is_begin_commit|apply (refused_is_begin_fail s u d t now)].
Qed.
Print Assumptions C11_atomic_update_is_begin_commit.

(* ---- C11_pinned over all interleavings ----
   The statement, for the semantics of variant V.  pre and mid are arbitrary
   split histories: look-ups of any transaction, vacuum passes, atomic updates,
   and begin / commit / fail steps of any number of overlapping updates — in
   particular txn may be first seen (t0) or looked up again (t) while updates are
   inside their HAProxy calls, and those updates may then commit or fail. *)
Definition pinned_interleaved_v (V : variant) : Prop :=
  forall d0 pre txn t0 mid t,
  smonotone (pre ++ A (Get txn t0) :: mid ++ [A (Get txn t)]) ->
  lookup txn (pins (base (safter_v V (sinit d0) pre))) = None ->
  t <= t0 + ttl ->
  let s1 := safter_v V (sinit d0) pre in
  let o1 := snd (get (base s1) txn t0) in
  let o2 := snd (get (base (safter_v V (fst (sstep_v V s1 (A (Get txn t0)))) mid)) txn t) in
  o2 = o1 /\
  o1 = {| o_ver := cur (base s1); o_data := Some (committed_data d0 pre); o_fallback := false |}.

Theorem C11_pinned_interleaved : pinned_interleaved_v head.
Proof. exact pinned_interleaved. Qed.
Print Assumptions C11_pinned_interleaved.

(* C11_retention and C11_new_sees_new over all interleavings *)
Theorem C11_retention_interleaved : forall d0 pre txn t0 mid a,
  smonotone (pre ++ A (Get txn t0) :: mid ++ [a]) ->
  lookup txn (pins (base (safter (sinit d0) pre))) = None ->
  let s1 := safter (sinit d0) pre in
  let s3 := safter (fst (sstep s1 (A (Get txn t0)))) mid in
  retained (cur (base s1)) (base (fst (sstep s3 a))) = false ->
  t0 + ttl < stime_of a.
Proof. exact retention_interleaved. Qed.
Print Assumptions C11_retention_interleaved.

Theorem C11_new_sees_new_interleaved : forall d0 h txn t,
  lookup txn (pins (base (safter (sinit d0) h))) = None ->
  snd (get (base (safter (sinit d0) h)) txn t) =
  {| o_ver := 1 + n_committed h; o_data := Some (committed_data d0 h); o_fallback := false |}.
Proof. exact new_sees_new_interleaved. Qed.
Print Assumptions C11_new_sees_new_interleaved.

(* ---- C11_failed_update_invisible ----
   An update that is never committed (its call failed, or is still in flight)
   changes nothing any transaction can observe: for EVERY split history h and
   update id u without a commit in h, the accessor state after h and everything
   the look-ups of h hand out are those of the history with all steps of u
   erased.  (h is arbitrary, so this holds after every prefix too.) *)
Definition failed_update_invisible_v (V : variant) : Prop :=
  forall d0 h u,
  commits u h = false ->
  base (safter_v V (sinit d0) h) = base (safter_v V (sinit d0) (erase u h)) /\
  lookups_v V (sinit d0) h = lookups_v V (sinit d0) (erase u h).

Theorem C11_failed_update_invisible : failed_update_invisible_v head.
Proof. exact failed_update_invisible. Qed.
Print Assumptions C11_failed_update_invisible.

(* no look-up ever hands out an object that was not installed: what is served
   is the initial object or the data of a COMMITTED update — never the data of
   a failed or still in-flight one *)
Theorem C11_served_data_was_committed : forall d0 h o d,
  In o (lookups (sinit d0) h) -> o_data o = Some d -> d = d0 \/ In d (committed h).
Proof. exact served_was_committed. Qed.
Print Assumptions C11_served_data_was_committed.

(* ---- the variant "publish before the call, roll back on error" ----
   (seeded change C11-4).  Run one update at a time it is indistinguishable
   from HEAD ... *)
Theorem C11_published_first_same_when_sequential : forall s u d t now,
  Inv0 (base s) ->
  base (safter_v published_first s [UpdBegin u d t; UpdCommit u now])
    = base (safter s [UpdBegin u d t; UpdCommit u now]) /\
  base (safter_v published_first s [UpdBegin u d t; UpdFail u now])
    = base (safter s [UpdBegin u d t; UpdFail u now]).
Proof.
  intros s u d t now I. split.
  - rewrite variant_commit_same, update_is_begin_commit. reflexivity.
  - rewrite (variant_fail_same s u d t now I), (refused_is_begin_fail s u d t now). reflexivity.
Qed.
Print Assumptions C11_published_first_same_when_sequential.

(* ... but a transaction first seen inside the call of an update that then
   fails was handed the never-committed object 11 and, with no time passing,
   gets object 10 at its next look-up (fallback: its version has disappeared) *)
Theorem C11_pinned_interleaved_refuted_when_published_before_call :
  ~ pinned_interleaved_v published_first.
Proof.
  intros H.
  specialize (H 10 [UpdBegin 1 11 5] 7 6 [UpdFail 1 7] 8).
  cbn zeta in H. destruct H as [H _].
  - unfold smonotone. vm_compute. repeat (constructor; try (intro X; discriminate X)).
  - vm_compute. reflexivity.
  - vm_compute. discriminate.
  - vm_compute in H. discriminate H.
Qed.
Print Assumptions C11_pinned_interleaved_refuted_when_published_before_call.

Theorem C11_failed_update_invisible_refuted_when_published_before_call :
  ~ failed_update_invisible_v published_first.
Proof.
  intros H.
  specialize (H 10 [UpdBegin 1 11 5; A (Get 7 6); UpdFail 1 7; A (Get 7 8)] 1 eq_refl).
  destruct H as [_ H]. vm_compute in H. discriminate H.
Qed.
Print Assumptions C11_failed_update_invisible_refuted_when_published_before_call.

(* what the variant does on that history and one more (committed) update:
   transaction 7 is served 11, then 10 (fallback), then 12 — the version number
   2 is re-used for other data; at HEAD it is served 10, 10, 10 *)
Example C11_published_first_witness :
  let h := [UpdBegin 1 11 5; A (Get 7 6); UpdFail 1 7; A (Get 7 8);
            UpdBegin 2 12 9; UpdCommit 2 10; A (Get 7 11)] in
  map o_data (lookups_v published_first (sinit 10) h) = [Some 11; Some 10; Some 12] /\
  map o_fallback (lookups_v published_first (sinit 10) h) = [false; true; false] /\
  map o_data (lookups (sinit 10) h) = [Some 10; Some 10; Some 10] /\
  map o_data (lookups (sinit 10) (erase 1 h)) = [Some 10; Some 10; Some 10].
Proof. vm_compute. repeat split. Qed.

(* ---- the glue: routing/messages_handler.go in policy mode ----
   Req id seq / Resp id seq status are processRequest / processResponse of a
   transaction (id) of a sequence (seq); both look the accessor up under the
   transaction id (Model.v, last part); Acc a is any split accessor action.  On
   the accessor a routing history acts exactly as its projection
   (Req, Resp |-> A (Get id)). *)
Theorem C11_routing_refines_accessor : forall d0 h,
  acc (rafter (rinit d0) h) = safter (sinit d0) (map proj h).
Proof. intros d0 h. exact (racc_after h (rinit d0)). Qed.
Print Assumptions C11_routing_refines_accessor.

(* The response of a transaction is dispatched with exactly the data that was
   current when its request was seen (the data of the last COMMITTED update
   before the request), whatever happens in between — including updates that
   begin, commit or fail while the request or the response is handled inside
   their HAProxy call —, for every sequence id on either message, whenever the
   response comes within ttl of the request and the clock is monotone; in
   particular the harness's marker observable (retry action or not) is the one
   that data produces. *)
Theorem C11_response_uses_request_version :
  forall d0 pre id seq t0 mid seq' status t,
  smonotone (map proj (pre ++ Req id seq t0 :: mid ++ [Resp id seq' status t])) ->
  lookup id (pins (base (acc (rafter (rinit d0) pre)))) = None ->
  t <= t0 + ttl ->
  let s1 := rafter (rinit d0) pre in
  let s3 := rafter (fst (rstep s1 (Req id seq t0))) mid in
  let D := committed_data d0 (map proj pre) in
  snd (get (base (acc s3)) id t)
    = {| o_ver := cur (base (acc s1)); o_data := Some D; o_fallback := false |} /\
  snd (rstep s3 (Resp id seq' status t))
    = snd (dispatch_resp (alive s3) id seq' status (Some D)).
Proof. exact response_uses_request_version. Qed.
Print Assumptions C11_response_uses_request_version.

(* the request side, spelled out: processRequest's own look-up hands out the
   version current at t0 with the data of the last committed update, and
   processResponse's look-up hands out the very same record — request and
   response of a transaction are processed with the same object *)
Theorem C11_request_and_response_use_same_version :
  forall d0 pre id seq t0 mid seq' status t,
  smonotone (map proj (pre ++ Req id seq t0 :: mid ++ [Resp id seq' status t])) ->
  lookup id (pins (base (acc (rafter (rinit d0) pre)))) = None ->
  t <= t0 + ttl ->
  let s1 := rafter (rinit d0) pre in
  let s3 := rafter (fst (rstep s1 (Req id seq t0))) mid in
  let D := committed_data d0 (map proj pre) in
  snd (get (base (acc s1)) id t0)
    = {| o_ver := cur (base (acc s1)); o_data := Some D; o_fallback := false |} /\
  snd (get (base (acc s3)) id t) = snd (get (base (acc s1)) id t0).
Proof. exact request_and_response_same. Qed.
Print Assumptions C11_request_and_response_use_same_version.

(* ---- non-vacuity: the hypotheses are met on concrete histories in which the
   interesting things happen ---- *)

(* txn 1 is first seen at 10 s while version 2 is current; two more updates, a
   look-up of another transaction and passes of both vacuums at exactly
   t0 + ttl follow; txn 1 still gets (version 2, data 11) at t0 + ttl.  One
   nanosecond later both vacuums remove the anchor and version 2, and the same
   transaction is re-anchored to version 4. *)
Definition ex_pre : list act := [Get 7 0; Update 11 5000000000].
Definition ex_t0 : Z := 10000000000.
Definition ex_mid : list act :=
  [Update 12 (ex_t0 + 1); Get 2 (ex_t0 + 2); Update 13 (ex_t0 + 5000000000);
   VacTxn (ex_t0 + ttl); VacVer (ex_t0 + ttl)].

Example C11_pinned_applies :
  monotone (ex_pre ++ Get 1 ex_t0 :: ex_mid ++ [Get 1 (ex_t0 + ttl)]) /\
  lookup 1 (pins (after (init 10) ex_pre)) = None /\
  snd (get (after (init 10) ex_pre) 1 ex_t0)
    = {| o_ver := 2; o_data := Some 11; o_fallback := false |} /\
  snd (get (after (fst (get (after (init 10) ex_pre) 1 ex_t0)) ex_mid) 1 (ex_t0 + ttl))
    = {| o_ver := 2; o_data := Some 11; o_fallback := false |} /\
  map fst (vers (after (fst (get (after (init 10) ex_pre) 1 ex_t0)) ex_mid)) = [2; 3; 4].
Proof.
  split.
  { unfold monotone. vm_compute.
    repeat (constructor; try (intro H; discriminate H)). }
  vm_compute. repeat split.
Qed.

(* the bound is sharp: with the first update at t0 itself and the vacuum passes
   one nanosecond after t0 + ttl the anchor is gone, version 2 is gone, and the
   transaction is re-anchored to version 4 *)
Example C11_pinned_bound_is_sharp :
  let mid' := [Update 12 ex_t0; Get 2 (ex_t0 + 2); Update 13 (ex_t0 + 5000000000);
               VacTxn (ex_t0 + ttl + 1); VacVer (ex_t0 + ttl + 1)] in
  let s := after (fst (get (after (init 10) ex_pre) 1 ex_t0)) mid' in
  snd (get s 1 (ex_t0 + ttl + 1)) = {| o_ver := 4; o_data := Some 13; o_fallback := false |} /\
  retained 2 s = false /\ map fst (vers s) = [3; 4].
Proof. vm_compute. repeat split. Qed.

(* the fallback branch is reachable outside the retention period: the version
   vacuum has run, the transaction vacuum has not; the anchored version 2 is
   gone and the current data is handed out with the fallback flag *)
Example C11_fallback_reachable_after_ttl :
  let mid' := [Update 12 (ex_t0 + 1); VacVer (ex_t0 + 1 + ttl + 1)] in
  let s := after (fst (get (after (init 10) ex_pre) 1 ex_t0)) mid' in
  snd (get s 1 (ex_t0 + 1 + ttl + 1)) = {| o_ver := 2; o_data := Some 12; o_fallback := true |}.
Proof. vm_compute. reflexivity. Qed.

(* C11_retention's hypotheses are met: the removing action is the version
   vacuum pass at t0 + 1 + ttl + 1 *)
Example C11_retention_applies :
  let mid' := [Update 12 (ex_t0 + 1)] in
  let a := VacVer (ex_t0 + 1 + ttl + 1) in
  monotone (ex_pre ++ Get 1 ex_t0 :: mid' ++ [a]) /\
  retained 2 (after (fst (get (after (init 10) ex_pre) 1 ex_t0)) mid') = true /\
  retained 2 (fst (step (after (fst (get (after (init 10) ex_pre) 1 ex_t0)) mid') a)) = false.
Proof.
  split.
  { unfold monotone. vm_compute.
    repeat (constructor; try (intro H; discriminate H)). }
  vm_compute. split; reflexivity.
Qed.

(* routing: sequence 1 opens with transaction 1 under object 0 (retry state is
   created); its retried attempt, transaction 2 of sequence 1, is first seen
   under object 0; a reload installs object 1; the response of transaction 2
   with status marker 0 still gets the retry action (processed with object 0),
   and a transaction that starts after the reload is processed with object 1. *)
Example C11_routing_applies :
  let pre := [Req 1 1 0; Resp 1 1 (marker 0) 1] in
  let mid := [Acc (A (Update 1 3))] in
  smonotone (map proj (pre ++ Req 2 1 2 :: mid ++ [Resp 2 1 (marker 0) 4])) /\
  lookup 2 (pins (base (acc (rafter (rinit 0) pre)))) = None /\
  map snd (rtrace (rinit 0) (pre ++ Req 2 1 2 :: mid ++
             [Resp 2 1 (marker 0) 4; Req 3 3 5; Resp 3 3 (marker 0) 6; Req 4 4 7; Resp 4 4 (marker 1) 8]))
  = [[0]; [0]; [0]; [0; 1]; [0; 1]; [0; 1]; [0; 1]; [0; 1]; [0; 1]] /\
  map fst (rtrace (rinit 0) (pre ++ Req 2 1 2 :: mid ++
             [Resp 2 1 (marker 0) 4; Req 3 3 5; Resp 3 3 (marker 0) 6; Req 4 4 7; Resp 4 4 (marker 1) 8]))
  = [0; 1; 0; 0; 1; 0; 0; 0; 1].
Proof.
  split.
  { unfold smonotone. vm_compute.
    repeat (constructor; try (intro H; discriminate H)). }
  vm_compute. repeat split.
Qed.

(* interleaved: update 1 (object 11) is inside its call when transaction 7 is
   first seen; it commits; update 2 (object 12) begins, transaction 1 is first
   seen inside ITS call (t0) and gets the committed object 11; update 3 begins
   and commits inside the call of update 2, which then fails; a pass of the
   version vacuum at t0 + ttl; transaction 1 still gets (version 2, object 11)
   while new transactions get (version 3, object 13); object 12 is never served *)
Definition ex_spre : list sact :=
  [UpdBegin 1 11 0; A (Get 7 1); UpdCommit 1 2; UpdBegin 2 12 3].
Definition ex_smid : list sact :=
  [UpdBegin 3 13 (ex_t0 + 1); A (Get 8 (ex_t0 + 2)); UpdCommit 3 (ex_t0 + 3);
   UpdFail 2 (ex_t0 + 4); A (Get 9 (ex_t0 + 5)); A (VacVer (ex_t0 + ttl))].

Example C11_pinned_interleaved_applies :
  smonotone (ex_spre ++ A (Get 1 ex_t0) :: ex_smid ++ [A (Get 1 (ex_t0 + ttl))]) /\
  lookup 1 (pins (base (safter (sinit 10) ex_spre))) = None /\
  committed_data 10 ex_spre = 11 /\
  map (fun o => (o_ver o, o_data o))
      (lookups (sinit 10) (ex_spre ++ A (Get 1 ex_t0) :: ex_smid ++ [A (Get 1 (ex_t0 + ttl))]))
    = [(1, Some 10); (2, Some 11); (2, Some 11); (3, Some 13); (2, Some 11)] /\
  commits 2 (ex_spre ++ A (Get 1 ex_t0) :: ex_smid ++ [A (Get 1 (ex_t0 + ttl))]) = false /\
  length (erase 2 (ex_spre ++ A (Get 1 ex_t0) :: ex_smid ++ [A (Get 1 (ex_t0 + ttl))])) = 10%nat.
Proof.
  split.
  { unfold smonotone. vm_compute.
    repeat (constructor; try (intro H; discriminate H)). }
  vm_compute. repeat split.
Qed.
