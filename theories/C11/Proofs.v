From Coq Require Import List ZArith Bool Lia Sorted RelationClasses.
From Verif Require Import C11.Model.
Import ListNotations.
Open Scope Z_scope.

(* ------------------------------------------------------------------ *)
(* association lists                                                    *)

Lemma lookup_set_eq k v m : lookup k (set k v m) = Some v.
Proof.
  induction m as [|[k' v'] r IH]; cbn [set lookup].
  - rewrite Z.eqb_refl. reflexivity.
  - destruct (k =? k') eqn:E; cbn [lookup].
    + rewrite Z.eqb_refl. reflexivity.
    + rewrite E. exact IH.
Qed.

Lemma lookup_set_neq k k' v m : k <> k' -> lookup k (set k' v m) = lookup k m.
Proof.
  intros N. induction m as [|[k2 v2] r IH]; cbn [set lookup].
  - apply Z.eqb_neq in N. rewrite N. reflexivity.
  - destruct (k' =? k2) eqn:E; cbn [lookup].
    + apply Z.eqb_eq in E. subst k2. apply Z.eqb_neq in N. rewrite N. reflexivity.
    + destruct (k =? k2); [reflexivity|exact IH].
Qed.

Lemma lookup_del_eq k m : lookup k (del k m) = None.
Proof.
  induction m as [|[k' v'] r IH]; [reflexivity|].
  unfold del in *. cbn [filter fst]. destruct (k =? k') eqn:E; cbn [negb].
  - exact IH.
  - cbn [lookup]. rewrite E. exact IH.
Qed.

Lemma lookup_del_neq k k' m : k <> k' -> lookup k (del k' m) = lookup k m.
Proof.
  intros N. induction m as [|[k2 v2] r IH]; [reflexivity|].
  unfold del in *. cbn [filter fst]. destruct (k' =? k2) eqn:E; cbn [negb lookup].
  - apply Z.eqb_eq in E. subst k2. apply Z.eqb_neq in N. rewrite N. exact IH.
  - rewrite IH. reflexivity.
Qed.

(* ------------------------------------------------------------------ *)
(* lists                                                                *)

Lemma NoDup_snoc (l : list Z) x : NoDup l -> ~ In x l -> NoDup (l ++ [x]).
Proof.
  induction l as [|y l IH]; intros ND NI; cbn [app].
  - constructor; [intros []|constructor].
  - inversion ND as [|? ? NIy NDl]; subst. constructor.
    + intros H. apply in_app_or in H. destruct H as [H|[H|[]]].
      * exact (NIy H).
      * subst. apply NI. left. reflexivity.
    + apply IH; [exact NDl|]. intros H. apply NI. right. exact H.
Qed.

Lemma NoDup_app_split (l1 l2 : list Z) :
  NoDup (l1 ++ l2) -> NoDup l2 /\ (forall x, In x l1 -> ~ In x l2).
Proof.
  induction l1 as [|y l1 IH]; cbn [app]; intros ND.
  - split; [exact ND|intros x []].
  - inversion ND as [|? ? NIy NDl]; subst. destruct (IH NDl) as [H1 H2].
    split; [exact H1|]. intros x [E|Hx].
    + subst. intros H. apply NIy. apply in_or_app. right. exact H.
    + apply H2. exact Hx.
Qed.

Lemma SSorted_snoc (l : list Z) x :
  StronglySorted Z.le l -> Forall (fun y => y <= x) l -> StronglySorted Z.le (l ++ [x]).
Proof.
  induction l as [|y l IH]; intros S F; cbn [app].
  - constructor; constructor.
  - inversion S as [|? ? Sl Fy]; subst. inversion F as [|? ? Hy Fl]; subst.
    constructor; [apply IH; assumption|].
    apply Forall_app. split; [exact Fy|]. constructor; [exact Hy|constructor].
Qed.

Lemma SSorted_app_split (l1 l2 : list Z) :
  StronglySorted Z.le (l1 ++ l2) ->
  StronglySorted Z.le l1 /\ StronglySorted Z.le l2 /\
  (forall x y, In x l1 -> In y l2 -> x <= y).
Proof.
  induction l1 as [|a l1 IH]; cbn [app]; intros S.
  - split; [constructor|]. split; [exact S|]. intros x y [].
  - inversion S as [|? ? Sl Fa]; subst. destruct (IH Sl) as (H1 & H2 & H3).
    apply Forall_app in Fa. destruct Fa as [Fa1 Fa2].
    split; [constructor; assumption|]. split; [exact H2|].
    intros x y [E|Hx] Hy.
    + subst. rewrite Forall_forall in Fa2. apply Fa2. exact Hy.
    + apply H3; assumption.
Qed.

(* ------------------------------------------------------------------ *)
(* one vacuum pass                                                      *)

Lemma vacuum_spec now : forall q m q' m',
  vacuum now q m = (q', m') ->
  exists rem,
    q = rem ++ q' /\
    Forall (fun e => fst e < now) rem /\
    (forall k, In k (map snd rem) -> lookup k m' = None) /\
    (forall k, ~ In k (map snd rem) -> lookup k m' = lookup k m).
Proof.
  induction q as [|[a k] r IH]; intros m q' m' E; cbn [vacuum] in E.
  - inversion E; subst. exists []. repeat split; try constructor.
    intros k [].
  - destruct (a <? now) eqn:L.
    + apply Z.ltb_lt in L. destruct (IH _ _ _ E) as (rem & Hq & Hf & Hin & Hout).
      exists ((a, k) :: rem). split; [cbn [app]; rewrite Hq; reflexivity|].
      split; [constructor; [exact L|exact Hf]|]. split.
      * intros k0 Hk. cbn [map snd] in Hk.
        destruct (in_dec Z.eq_dec k0 (map snd rem)) as [I|NI]; [apply Hin; exact I|].
        destruct Hk as [Ek|Hk]; [|contradiction]. subst k0.
        rewrite (Hout _ NI). apply lookup_del_eq.
      * intros k0 Hk. cbn [map snd] in Hk.
        assert (k0 <> k) as Nk by (intros ->; apply Hk; left; reflexivity).
        assert (~ In k0 (map snd rem)) as NI by (intros I; apply Hk; right; exact I).
        rewrite (Hout _ NI). apply lookup_del_neq. exact Nk.
    + inversion E; subst. exists []. repeat split; try constructor.
      intros k0 [].
Qed.

Lemma vacuum_lookup now q m q' m' k :
  vacuum now q m = (q', m') -> lookup k m' = None \/ lookup k m' = lookup k m.
Proof.
  intros E. destruct (vacuum_spec _ _ _ _ _ E) as (rem & _ & _ & Hin & Hout).
  destruct (in_dec Z.eq_dec k (map snd rem)) as [I|NI]; [left; auto|right; auto].
Qed.

(* ------------------------------------------------------------------ *)
(* shape of the steps                                                   *)

Lemma after_cons s a h : after s (a :: h) = after (fst (step s a)) h.
Proof. reflexivity. Qed.

Lemma after_app s h1 h2 : after s (h1 ++ h2) = after (after s h1) h2.
Proof. unfold after. apply fold_left_app. Qed.

Lemma step_get s txn now : fst (step s (Get txn now)) = fst (get s txn now).
Proof. cbn [step]. destruct (get s txn now). reflexivity. Qed.

Lemma get_fst s txn now : fst (get s txn now) = fst (pin s txn now).
Proof.
  unfold get. destruct (pin s txn now) as [s1 v].
  destruct (lookup v (vers s1)); reflexivity.
Qed.

(* ------------------------------------------------------------------ *)
(* structural invariant: holds after every history, whatever the clock  *)

Record Inv0 (s : st) : Prop := {
  i_cur_in : lookup (cur s) (vers s) <> None;
  i_vers_le : forall v, lookup v (vers s) <> None -> v <= cur s;
  i_vq_lt : Forall (fun e => snd e < cur s) (verQ s);
  i_vq_nodup : NoDup (map snd (verQ s));
  i_vq_in : forall v, In v (map snd (verQ s)) -> lookup v (vers s) <> None;
  i_tq_nodup : NoDup (map snd (txnQ s));
  i_tq_pin : forall txn, In txn (map snd (txnQ s)) <-> lookup txn (pins s) <> None
}.

Lemma Inv0_init d0 : Inv0 (init d0).
Proof.
  constructor; cbn.
  - discriminate.
  - intros v. destruct (v =? 1) eqn:E; [apply Z.eqb_eq in E; lia|congruence].
  - constructor.
  - constructor.
  - intros v [].
  - constructor.
  - intros txn. split; [intros []|congruence].
Qed.

Lemma Inv0_pin s txn now : Inv0 s -> Inv0 (fst (pin s txn now)).
Proof.
  intros I. unfold pin. destruct (lookup txn (pins s)) eqn:P; [exact I|].
  destruct I. constructor; cbn [fst cur vers pins txnQ verQ]; try assumption.
  - rewrite map_app. cbn [map snd]. apply NoDup_snoc; [assumption|].
    intros H. apply i_tq_pin0 in H. congruence.
  - intros t. rewrite map_app. cbn [map snd]. split.
    + intros H. apply in_app_or in H. destruct H as [H|[H|[]]].
      * destruct (Z.eq_dec t txn) as [->|N].
        -- rewrite lookup_set_eq. discriminate.
        -- rewrite lookup_set_neq by exact N. apply i_tq_pin0. exact H.
      * subst. rewrite lookup_set_eq. discriminate.
    + intros H. apply in_or_app. destruct (Z.eq_dec t txn) as [->|N].
      * right. left. reflexivity.
      * left. rewrite lookup_set_neq in H by exact N. apply i_tq_pin0. exact H.
Qed.

Lemma Inv0_update s d now : Inv0 s -> Inv0 (update s d now).
Proof.
  intros I. destruct I. unfold update.
  constructor; cbn [cur vers pins txnQ verQ]; try assumption.
  - rewrite lookup_set_eq. discriminate.
  - intros v H. destruct (Z.eq_dec v (cur s + 1)) as [->|N]; [lia|].
    rewrite lookup_set_neq in H by exact N. apply i_vers_le0 in H. lia.
  - apply Forall_app. split.
    + eapply Forall_impl; [|exact i_vq_lt0]. cbn. intros; lia.
    + constructor; [cbn; lia|constructor].
  - rewrite map_app. cbn [map snd]. apply NoDup_snoc; [assumption|].
    intros H. apply in_map_iff in H. destruct H as (e & He & Hin).
    rewrite Forall_forall in i_vq_lt0. apply i_vq_lt0 in Hin. lia.
  - intros v H. rewrite map_app in H. cbn [map snd] in H.
    assert (v <= cur s) as Hle.
    { apply in_app_or in H. destruct H as [H|[H|[]]]; [|lia].
      apply i_vers_le0. apply i_vq_in0. exact H. }
    rewrite lookup_set_neq by lia.
    apply in_app_or in H. destruct H as [H|[H|[]]]; [apply i_vq_in0; exact H|].
    subst. exact i_cur_in0.
Qed.

Lemma Inv0_vac_txn s now : Inv0 s -> Inv0 (vac_txn s now).
Proof.
  intros I. destruct I. unfold vac_txn.
  destruct (vacuum now (txnQ s) (pins s)) as [q m] eqn:E.
  destruct (vacuum_spec _ _ _ _ _ E) as (rem & Hq & _ & Hin & Hout).
  rewrite Hq, map_app in i_tq_nodup0.
  destruct (NoDup_app_split _ _ i_tq_nodup0) as [ND Hdis].
  constructor; cbn [cur vers pins txnQ verQ]; try assumption.
  intros t. split.
  - intros H. assert (~ In t (map snd rem)) as NI by (intros H'; exact (Hdis _ H' H)).
    rewrite (Hout _ NI). apply i_tq_pin0. rewrite Hq, map_app. apply in_or_app. right. exact H.
  - intros H. destruct (in_dec Z.eq_dec t (map snd rem)) as [I|NI].
    + rewrite (Hin _ I) in H. congruence.
    + rewrite (Hout _ NI) in H. apply i_tq_pin0 in H. rewrite Hq, map_app in H.
      apply in_app_or in H. destruct H as [H|H]; [contradiction|exact H].
Qed.

Lemma Inv0_vac_ver s now : Inv0 s -> Inv0 (vac_ver s now).
Proof.
  intros I. destruct I. unfold vac_ver.
  destruct (vacuum now (verQ s) (vers s)) as [q m] eqn:E.
  destruct (vacuum_spec _ _ _ _ _ E) as (rem & Hq & _ & Hin & Hout).
  assert (forall v, In v (map snd rem) -> v < cur s) as Hrem.
  { intros v H. apply in_map_iff in H. destruct H as (e & <- & He).
    rewrite Forall_forall in i_vq_lt0. apply i_vq_lt0. rewrite Hq.
    apply in_or_app. left. exact He. }
  pose proof i_vq_nodup0 as NDall. rewrite Hq, map_app in NDall.
  destruct (NoDup_app_split _ _ NDall) as [ND Hdis].
  constructor; cbn [cur vers pins txnQ verQ]; try assumption.
  - rewrite Hout; [exact i_cur_in0|]. intros H. apply Hrem in H. lia.
  - intros v H. apply i_vers_le0.
    destruct (vacuum_lookup _ _ _ _ _ v E) as [L|L]; rewrite L in H; congruence.
  - rewrite Hq in i_vq_lt0. apply Forall_app in i_vq_lt0. tauto.
  - intros v H. assert (~ In v (map snd rem)) as NI by (intros H'; exact (Hdis _ H' H)).
    rewrite (Hout _ NI). apply i_vq_in0. rewrite Hq, map_app. apply in_or_app. right. exact H.
Qed.

Lemma Inv0_step s a : Inv0 s -> Inv0 (fst (step s a)).
Proof.
  intros I. destruct a as [txn now|d now|now|now|now].
  - rewrite step_get, get_fst. apply Inv0_pin. exact I.
  - apply Inv0_update. exact I.
  - exact I.
  - apply Inv0_vac_txn. exact I.
  - apply Inv0_vac_ver. exact I.
Qed.

Lemma Inv0_after h : forall s, Inv0 s -> Inv0 (after s h).
Proof.
  induction h as [|a h IH]; intros s I; [exact I|].
  rewrite after_cons. apply IH. apply Inv0_step. exact I.
Qed.

(* ------------------------------------------------------------------ *)
(* the current version and its data                                     *)

Lemma n_updates_acc h : forall n,
  fold_left (fun n a => match a with Update _ _ => n + 1 | _ => n end) h n
  = n + n_updates h.
Proof.
  unfold n_updates. induction h as [|a h IH]; intros n; cbn [fold_left]; [lia|].
  destruct a; try apply IH.
  rewrite (IH (n + 1)), (IH (0 + 1)). lia.
Qed.

Lemma cur_after h : forall s, cur (after s h) = cur s + n_updates h.
Proof.
  induction h as [|a h IH]; intros s.
  - unfold n_updates. cbn. lia.
  - rewrite after_cons, IH. unfold n_updates at 2. cbn [fold_left].
    destruct a as [txn now|d now|now|now|now].
    + rewrite step_get, get_fst. unfold pin. fold (n_updates h).
      destruct (lookup txn (pins s)); reflexivity.
    + rewrite (n_updates_acc h (0 + 1)). cbn [step fst update cur]. lia.
    + reflexivity.
    + cbn [step fst]. unfold vac_txn. destruct (vacuum _ _ _). reflexivity.
    + cbn [step fst]. unfold vac_ver. destruct (vacuum _ _ _). reflexivity.
Qed.

(* the data of the current version is that of the last successful update *)
Lemma cur_data_step s a d :
  Inv0 s -> lookup (cur s) (vers s) = Some d ->
  lookup (cur (fst (step s a))) (vers (fst (step s a)))
  = Some (match a with Update d' _ => d' | _ => d end).
Proof.
  intros I L. destruct a as [txn now|d' now|now|now|now].
  - rewrite step_get, get_fst. unfold pin.
    destruct (lookup txn (pins s)); exact L.
  - cbn [step fst update cur vers]. apply lookup_set_eq.
  - exact L.
  - cbn [step fst]. unfold vac_txn. destruct (vacuum _ _ _). exact L.
  - cbn [step fst]. unfold vac_ver.
    destruct (vacuum now (verQ s) (vers s)) as [q m] eqn:E. cbn [cur vers].
    destruct (vacuum_spec _ _ _ _ _ E) as (rem & Hq & _ & _ & Hout).
    rewrite Hout; [exact L|]. intros H. apply in_map_iff in H.
    destruct H as (e & He & Hin). pose proof (i_vq_lt _ I) as F.
    rewrite Forall_forall in F. specialize (F e). rewrite Hq in F.
    specialize (F (in_or_app _ _ _ (or_introl Hin))). lia.
Qed.

Lemma cur_data_after h : forall s d,
  Inv0 s -> lookup (cur s) (vers s) = Some d ->
  lookup (cur (after s h)) (vers (after s h)) = Some (last_data d h).
Proof.
  induction h as [|a h IH]; intros s d I L; [exact L|].
  rewrite after_cons. unfold last_data. cbn [fold_left].
  apply IH; [apply Inv0_step; exact I|]. apply cur_data_step; assumption.
Qed.

(* a Get of a transaction that is not anchored *)
Lemma get_unpinned s txn now d :
  lookup txn (pins s) = None -> lookup (cur s) (vers s) = Some d ->
  snd (get s txn now) = {| o_ver := cur s; o_data := Some d; o_fallback := false |}.
Proof.
  intros P L. unfold get, pin. rewrite P. cbn [vers]. rewrite L. reflexivity.
Qed.

(* a transaction that was never looked up is not anchored *)
Lemma unseen_unpinned txn h : forall s,
  lookup txn (pins s) = None -> ~ In txn (seen h) ->
  lookup txn (pins (after s h)) = None.
Proof.
  induction h as [|a h IH]; intros s P NI; [exact P|].
  rewrite after_cons. unfold seen in NI. cbn [flat_map] in NI.
  apply IH; [|intros H; apply NI; apply in_or_app; right; exact H].
  destruct a as [t now|d now|now|now|now].
  - rewrite step_get, get_fst. unfold pin. destruct (lookup t (pins s)); [exact P|].
    cbn [fst pins]. rewrite lookup_set_neq; [exact P|].
    intros ->. apply NI. apply in_or_app. left. left. reflexivity.
  - exact P.
  - exact P.
  - cbn [step fst]. unfold vac_txn.
    destruct (vacuum now (txnQ s) (pins s)) as [q m] eqn:E. cbn [pins].
    destruct (vacuum_lookup _ _ _ _ _ txn E) as [L|L]; congruence.
  - cbn [step fst]. unfold vac_ver. destruct (vacuum _ _ _). exact P.
Qed.

(* ------------------------------------------------------------------ *)
(* tracking one anchored transaction through its retention period       *)

(* txn is anchored to v, its queue entry is due at D, v still carries d and is
   current or queued for an instant not earlier than D *)
Definition Track (txn v d D : Z) (s : st) : Prop :=
  lookup txn (pins s) = Some v /\
  In (D, txn) (txnQ s) /\
  lookup v (vers s) = Some d /\
  (v = cur s \/ exists a', In (a', v) (verQ s) /\ D <= a').

Lemma Track_pin s txn now d :
  lookup txn (pins s) = None -> lookup (cur s) (vers s) = Some d ->
  Track txn (cur s) d (now + ttl) (fst (pin s txn now)).
Proof.
  intros P L. unfold pin. rewrite P. cbn [fst]. unfold Track. cbn [pins txnQ vers cur verQ].
  split; [apply lookup_set_eq|]. split; [apply in_or_app; right; left; reflexivity|].
  split; [exact L|left; reflexivity].
Qed.

Lemma Track_step txn v d t0 s a :
  Inv0 s -> Track txn v d (t0 + ttl) s ->
  t0 <= time_of a <= t0 + ttl ->
  Track txn v d (t0 + ttl) (fst (step s a)).
Proof.
  intros I (Tp & Tq & Tv & Tc) Ht.
  destruct a as [t now|d' now|now|now|now]; cbn [time_of] in Ht.
  - (* Get *)
    rewrite step_get, get_fst. unfold pin.
    destruct (lookup t (pins s)) eqn:P; [repeat split; assumption|].
    cbn [fst]. unfold Track. cbn [pins txnQ vers cur verQ].
    assert (txn <> t) as N by (intros ->; congruence).
    split; [rewrite lookup_set_neq by exact N; exact Tp|].
    split; [apply in_or_app; left; exact Tq|]. split; assumption.
  - (* Update *)
    cbn [step fst]. unfold update, Track. cbn [pins txnQ vers cur verQ].
    assert (v <= cur s) as Hle by (apply (i_vers_le _ I); congruence).
    split; [exact Tp|]. split; [exact Tq|].
    split; [rewrite lookup_set_neq by lia; exact Tv|]. right.
    destruct Tc as [->|(a' & Ha & Hd)].
    + exists (now + ttl). split; [apply in_or_app; right; left; reflexivity|lia].
    + exists a'. split; [apply in_or_app; left; exact Ha|exact Hd].
  - (* Refused *)
    repeat split; assumption.
  - (* VacTxn *)
    cbn [step fst]. unfold vac_txn.
    destruct (vacuum now (txnQ s) (pins s)) as [q m] eqn:E.
    destruct (vacuum_spec _ _ _ _ _ E) as (rem & Hq & Hf & _ & Hout).
    unfold Track. cbn [pins txnQ vers cur verQ].
    assert (In (t0 + ttl, txn) q) as Hin.
    { rewrite Hq in Tq. apply in_app_or in Tq. destruct Tq as [H|H]; [|exact H].
      rewrite Forall_forall in Hf. apply Hf in H. cbn [fst] in H. lia. }
    pose proof (i_tq_nodup _ I) as ND. rewrite Hq, map_app in ND.
    destruct (NoDup_app_split _ _ ND) as [_ Hdis].
    split.
    { rewrite Hout; [exact Tp|]. intros H. apply (Hdis _ H).
      apply in_map_iff. exists (t0 + ttl, txn). split; [reflexivity|exact Hin]. }
    split; [exact Hin|]. split; assumption.
  - (* VacVer *)
    cbn [step fst]. unfold vac_ver.
    destruct (vacuum now (verQ s) (vers s)) as [q m] eqn:E.
    destruct (vacuum_spec _ _ _ _ _ E) as (rem & Hq & Hf & _ & Hout).
    unfold Track. cbn [pins txnQ vers cur verQ].
    split; [exact Tp|]. split; [exact Tq|].
    destruct Tc as [->|(a' & Ha & Hd)].
    + split; [|left; reflexivity]. rewrite Hout; [exact Tv|].
      intros H. apply in_map_iff in H. destruct H as (e & He & Hin).
      pose proof (i_vq_lt _ I) as F. rewrite Forall_forall in F.
      specialize (F e). rewrite Hq in F.
      specialize (F (in_or_app _ _ _ (or_introl Hin))). lia.
    + assert (In (a', v) q) as Hin.
      { rewrite Hq in Ha. apply in_app_or in Ha. destruct Ha as [H|H]; [|exact H].
        rewrite Forall_forall in Hf. apply Hf in H. cbn [fst] in H. lia. }
      pose proof (i_vq_nodup _ I) as ND. rewrite Hq, map_app in ND.
      destruct (NoDup_app_split _ _ ND) as [_ Hdis].
      split; [|right; exists a'; split; assumption].
      rewrite Hout; [exact Tv|]. intros H. apply (Hdis _ H).
      apply in_map_iff. exists (a', v). split; [reflexivity|exact Hin].
Qed.

Lemma Track_after txn v d t0 h : forall s,
  Inv0 s -> Track txn v d (t0 + ttl) s ->
  Forall (fun a => t0 <= time_of a <= t0 + ttl) h ->
  Track txn v d (t0 + ttl) (after s h).
Proof.
  induction h as [|a h IH]; intros s I T F; [exact T|].
  inversion F as [|? ? Ha Fh]; subst. rewrite after_cons.
  apply IH; [apply Inv0_step; exact I| |exact Fh].
  apply Track_step; assumption.
Qed.

Lemma get_tracked txn v d D s now :
  Track txn v d D s ->
  get s txn now = (s, {| o_ver := v; o_data := Some d; o_fallback := false |}).
Proof.
  intros (Tp & _ & Tv & _). unfold get, pin. rewrite Tp, Tv. reflexivity.
Qed.

(* ------------------------------------------------------------------ *)
(* the three claims, window form (every clock reading between the two   *)
(* look-ups lies in [t0, t0 + ttl]; no order among them is needed)       *)

Lemma pinned_window d0 pre txn t0 mid t :
  lookup txn (pins (after (init d0) pre)) = None ->
  Forall (fun a => t0 <= time_of a <= t0 + ttl) mid ->
  let s1 := after (init d0) pre in
  let o1 := snd (get s1 txn t0) in
  let o2 := snd (get (after (fst (get s1 txn t0)) mid) txn t) in
  o2 = o1 /\
  o1 = {| o_ver := cur s1; o_data := Some (last_data d0 pre); o_fallback := false |}.
Proof.
  intros P F s1 o1 o2.
  assert (Inv0 s1) as I1 by (apply Inv0_after, Inv0_init).
  assert (lookup (cur s1) (vers s1) = Some (last_data d0 pre)) as L1.
  { apply cur_data_after; [apply Inv0_init|reflexivity]. }
  assert (o1 = {| o_ver := cur s1; o_data := Some (last_data d0 pre); o_fallback := false |}) as E1.
  { apply get_unpinned; assumption. }
  split; [|exact E1]. rewrite E1. subst o2.
  rewrite get_fst.
  assert (Track txn (cur s1) (last_data d0 pre) (t0 + ttl) (after (fst (pin s1 txn t0)) mid)) as T.
  { apply Track_after; [apply Inv0_pin; exact I1| |exact F].
    apply Track_pin; assumption. }
  rewrite (get_tracked _ _ _ _ _ t T). reflexivity.
Qed.

Lemma retained_window d0 pre txn t0 mid :
  lookup txn (pins (after (init d0) pre)) = None ->
  Forall (fun a => t0 <= time_of a <= t0 + ttl) mid ->
  let s1 := after (init d0) pre in
  lookup (cur s1) (vers (after (fst (get s1 txn t0)) mid)) = Some (last_data d0 pre).
Proof.
  intros P F s1.
  assert (Inv0 s1) as I1 by (apply Inv0_after, Inv0_init).
  assert (lookup (cur s1) (vers s1) = Some (last_data d0 pre)) as L1.
  { apply cur_data_after; [apply Inv0_init|reflexivity]. }
  rewrite get_fst.
  assert (Track txn (cur s1) (last_data d0 pre) (t0 + ttl) (after (fst (pin s1 txn t0)) mid)) as T.
  { apply Track_after; [apply Inv0_pin; exact I1| |exact F].
    apply Track_pin; assumption. }
  destruct T as (_ & _ & Tv & _). exact Tv.
Qed.

(* ------------------------------------------------------------------ *)
(* monotone clocks                                                      *)

Definition monotone (h : list act) : Prop := Sorted Z.le (map time_of h).

Lemma monotone_mid pre a mid post :
  monotone (pre ++ a :: mid ++ post) ->
  Forall (fun b => time_of a <= time_of b) (mid ++ post) /\
  forall b c, In b mid -> In c post -> time_of b <= time_of c.
Proof.
  unfold monotone. intros S.
  apply Sorted_StronglySorted in S; [|exact Z.le_trans].
  rewrite map_app in S. apply SSorted_app_split in S. destruct S as (_ & S & _).
  cbn [map] in S. inversion S as [|? ? S' Fa]; subst. split.
  - rewrite Forall_forall in Fa. apply Forall_forall. intros b Hb.
    apply Fa. apply in_map. exact Hb.
  - rewrite map_app in S'. apply SSorted_app_split in S'. destruct S' as (_ & _ & H).
    intros b c Hb Hc. apply H; apply in_map; assumption.
Qed.

Lemma monotone_window pre a mid z :
  monotone (pre ++ a :: mid ++ [z]) -> forall D, time_of z <= D ->
  Forall (fun b => time_of a <= time_of b <= D) (mid ++ [z]).
Proof.
  intros M D Hz. destruct (monotone_mid _ _ _ _ M) as [F H].
  rewrite Forall_forall in F. apply Forall_forall. intros b Hb. split; [apply F; exact Hb|].
  apply in_app_or in Hb. destruct Hb as [Hb|[<-|[]]]; [|exact Hz].
  specialize (H b z Hb (or_introl eq_refl)). lia.
Qed.

Lemma pinned_monotone d0 pre txn t0 mid t :
  monotone (pre ++ Get txn t0 :: mid ++ [Get txn t]) ->
  lookup txn (pins (after (init d0) pre)) = None ->
  t <= t0 + ttl ->
  let s1 := after (init d0) pre in
  let o1 := snd (get s1 txn t0) in
  let o2 := snd (get (after (fst (get s1 txn t0)) mid) txn t) in
  o2 = o1 /\
  o1 = {| o_ver := cur s1; o_data := Some (last_data d0 pre); o_fallback := false |}.
Proof.
  intros M P Ht. apply pinned_window; [exact P|].
  pose proof (monotone_window _ _ _ _ M (t0 + ttl) Ht) as F. cbn [time_of] in F.
  apply Forall_app in F. tauto.
Qed.

Lemma retention_monotone d0 pre txn t0 mid a :
  monotone (pre ++ Get txn t0 :: mid ++ [a]) ->
  lookup txn (pins (after (init d0) pre)) = None ->
  let s1 := after (init d0) pre in
  let s3 := after (fst (get s1 txn t0)) mid in
  retained (cur s1) (fst (step s3 a)) = false ->
  t0 + ttl < time_of a.
Proof.
  intros M P s1 s3 R.
  destruct (Z.lt_ge_cases (t0 + ttl) (time_of a)) as [H|H]; [exact H|exfalso].
  pose proof (monotone_window _ _ _ _ M (t0 + ttl) H) as F. cbn [time_of] in F.
  pose proof (retained_window d0 pre txn t0 (mid ++ [a]) P F) as L. cbn zeta in L.
  rewrite after_app in L. fold s1 in L. fold s3 in L.
  change (after s3 [a]) with (fst (step s3 a)) in L.
  unfold retained in R. rewrite L in R. discriminate.
Qed.

(* the data a retained version carries never changes *)
Lemma data_immutable_step s a v d :
  Inv0 s -> lookup v (vers s) = Some d ->
  lookup v (vers (fst (step s a))) = Some d \/ lookup v (vers (fst (step s a))) = None.
Proof.
  intros I L. destruct a as [t now|d' now|now|now|now].
  - left. rewrite step_get, get_fst. unfold pin. destruct (lookup t (pins s)); exact L.
  - left. cbn [step fst update vers].
    assert (v <= cur s) by (apply (i_vers_le _ I); congruence).
    rewrite lookup_set_neq by lia. exact L.
  - left. exact L.
  - left. cbn [step fst]. unfold vac_txn. destruct (vacuum _ _ _). exact L.
  - cbn [step fst]. unfold vac_ver.
    destruct (vacuum now (verQ s) (vers s)) as [q m] eqn:E. cbn [vers].
    destruct (vacuum_lookup _ _ _ _ _ v E) as [H|H]; [right; exact H|left; congruence].
Qed.

(* a version that was removed never comes back (version numbers only grow) *)
Lemma removed_stays_step s a v :
  Inv0 s -> v <= cur s -> lookup v (vers s) = None ->
  lookup v (vers (fst (step s a))) = None.
Proof.
  intros I Hle L. destruct a as [t now|d' now|now|now|now].
  - rewrite step_get, get_fst. unfold pin. destruct (lookup t (pins s)); exact L.
  - cbn [step fst update vers]. rewrite lookup_set_neq by lia. exact L.
  - exact L.
  - cbn [step fst]. unfold vac_txn. destruct (vacuum _ _ _). exact L.
  - cbn [step fst]. unfold vac_ver.
    destruct (vacuum now (verQ s) (vers s)) as [q m] eqn:E. cbn [vers].
    destruct (vacuum_lookup _ _ _ _ _ v E) as [H|H]; congruence.
Qed.

Lemma cur_mono_step s a : cur s <= cur (fst (step s a)).
Proof.
  destruct a as [t now|d' now|now|now|now].
  - rewrite step_get, get_fst. unfold pin. destruct (lookup t (pins s)); cbn; lia.
  - cbn. lia.
  - cbn. lia.
  - cbn [step fst]. unfold vac_txn. destruct (vacuum _ _ _). cbn. lia.
  - cbn [step fst]. unfold vac_ver. destruct (vacuum _ _ _). cbn. lia.
Qed.

Lemma data_immutable h : forall s v d,
  Inv0 s -> lookup v (vers s) = Some d ->
  lookup v (vers (after s h)) = Some d \/ lookup v (vers (after s h)) = None.
Proof.
  induction h as [|a h IH]; intros s v d I L; [left; exact L|].
  rewrite after_cons.
  destruct (data_immutable_step s a v d I L) as [H|H].
  - apply IH; [apply Inv0_step; exact I|exact H].
  - right. assert (v <= cur s) as Hle by (apply (i_vers_le _ I); congruence).
    clear IH L. revert H. generalize (Inv0_step s a I).
    pose proof (cur_mono_step s a) as Hc.
    assert (v <= cur (fst (step s a))) as Hle' by lia. clear Hc Hle I.
    generalize dependent (fst (step s a)). clear s a.
    induction h as [|b h IH]; intros s Hle I L; [exact L|].
    rewrite after_cons. apply IH.
    + pose proof (cur_mono_step s b). lia.
    + apply Inv0_step. exact I.
    + apply removed_stays_step; assumption.
Qed.

(* ------------------------------------------------------------------ *)
(* the timed invariant (monotone clock)                                 *)

(* T = an upper bound of every clock reading so far *)
Record Inv (T : Z) (s : st) : Prop := {
  v_struct : Inv0 s;
  (* both queues are sorted by due instant and nothing is due later than T + ttl *)
  v_tq_sorted : StronglySorted Z.le (map fst (txnQ s));
  v_vq_sorted : StronglySorted Z.le (map fst (verQ s));
  v_tq_bound : Forall (fun e => fst e <= T + ttl) (txnQ s);
  v_vq_bound : Forall (fun e => fst e <= T + ttl) (verQ s);
  (* every anchored transaction has its queue entry; unless that entry is
     already overdue, the version it is anchored to is the current one or is
     queued for an instant that is not earlier *)
  v_pin : forall txn v, lookup txn (pins s) = Some v ->
    exists a, In (a, txn) (txnQ s) /\
      (a < T \/ v = cur s \/ exists a', In (a', v) (verQ s) /\ a <= a')
}.

Lemma Inv_init T d0 : Inv T (init d0).
Proof.
  constructor; cbn [init cur vers pins txnQ verQ map].
  - apply Inv0_init.
  - constructor.
  - constructor.
  - constructor.
  - constructor.
  - intros txn v H. cbn in H. discriminate.
Qed.

Lemma Forall_le_map (q : list (Z * Z)) x :
  Forall (fun e => fst e <= x) q -> Forall (fun y => y <= x) (map fst q).
Proof. intros F. apply Forall_map. exact F. Qed.

Lemma Inv_step T s a :
  Inv T s -> T <= time_of a -> Inv (time_of a) (fst (step s a)).
Proof.
  intros I Ht. pose proof (Inv0_step s a (v_struct _ _ I)) as I0'.
  destruct I as [I0 Stq Svq Btq Bvq Hpin].
  assert (forall q : list (Z * Z), Forall (fun e => fst e <= T + ttl) q ->
            Forall (fun e => fst e <= time_of a + ttl) q) as Hb.
  { intros q F. eapply Forall_impl; [|exact F]. cbn. intros; lia. }
  assert (forall txn v, lookup txn (pins s) = Some v ->
            exists a0, In (a0, txn) (txnQ s) /\
              (a0 < time_of a \/ v = cur s \/ exists a', In (a', v) (verQ s) /\ a0 <= a')) as Hpin'.
  { intros txn v H. destruct (Hpin _ _ H) as (a0 & Hin & Hc). exists a0. split; [exact Hin|].
    destruct Hc as [Hc|Hc]; [left; lia|right; exact Hc]. }
  destruct a as [t now|d' now|now|now|now]; cbn [time_of] in *.
  - (* Get *)
    revert I0'. rewrite step_get, get_fst. unfold pin.
    destruct (lookup t (pins s)) eqn:P; cbn [fst]; intros I0'.
    { constructor; auto. }
    constructor; cbn [cur vers pins txnQ verQ]; auto.
    + rewrite map_app. cbn [map fst]. apply SSorted_snoc; [exact Stq|].
      apply Forall_le_map in Btq. eapply Forall_impl; [|exact Btq]. cbn. intros; lia.
    + apply Forall_app. split; [auto|]. constructor; [cbn; lia|constructor].
    + intros txn v H. destruct (Z.eq_dec txn t) as [->|N].
      * rewrite lookup_set_eq in H. inversion H; subst. exists (now + ttl).
        split; [apply in_or_app; right; left; reflexivity|]. right. left. reflexivity.
      * rewrite lookup_set_neq in H by exact N. destruct (Hpin' _ _ H) as (a0 & Hin & Hc).
        exists a0. split; [apply in_or_app; left; exact Hin|exact Hc].
  - (* Update *)
    constructor; cbn [step fst update cur vers pins txnQ verQ]; auto.
    + rewrite map_app. cbn [map fst]. apply SSorted_snoc; [exact Svq|].
      apply Forall_le_map in Bvq. eapply Forall_impl; [|exact Bvq]. cbn. intros; lia.
    + apply Forall_app. split; [auto|]. constructor; [cbn; lia|constructor].
    + intros txn v H. destruct (Hpin' _ _ H) as (a0 & Hin & Hc). exists a0.
      split; [exact Hin|]. destruct Hc as [Hc|[->|(a' & Ha & Hd)]].
      * left. exact Hc.
      * right. right. exists (now + ttl).
        split; [apply in_or_app; right; left; reflexivity|].
        rewrite Forall_forall in Btq. apply Btq in Hin. cbn [fst] in Hin. lia.
      * right. right. exists a'. split; [apply in_or_app; left; exact Ha|exact Hd].
  - (* Refused *)
    constructor; auto.
  - (* VacTxn *)
    revert I0'. cbn [step fst]. unfold vac_txn.
    destruct (vacuum now (txnQ s) (pins s)) as [q m] eqn:E. intros I0'.
    destruct (vacuum_spec _ _ _ _ _ E) as (rem & Hq & Hf & Hin & Hout).
    constructor; cbn [cur vers pins txnQ verQ]; auto.
    + rewrite Hq, map_app in Stq. apply SSorted_app_split in Stq. tauto.
    + rewrite Hq in Btq. apply Forall_app in Btq. apply Hb. tauto.
    + intros txn v H.
      destruct (in_dec Z.eq_dec txn (map snd rem)) as [I|NI];
        [rewrite (Hin _ I) in H; discriminate|].
      rewrite (Hout _ NI) in H. destruct (Hpin' _ _ H) as (a0 & Hi & Hc).
      exists a0. split; [|exact Hc]. rewrite Hq in Hi. apply in_app_or in Hi.
      destruct Hi as [Hi|Hi]; [|exact Hi]. exfalso. apply NI.
      apply in_map_iff. exists (a0, txn). split; [reflexivity|exact Hi].
  - (* VacVer *)
    revert I0'. cbn [step fst]. unfold vac_ver.
    destruct (vacuum now (verQ s) (vers s)) as [q m] eqn:E. intros I0'.
    destruct (vacuum_spec _ _ _ _ _ E) as (rem & Hq & Hf & Hin & Hout).
    constructor; cbn [cur vers pins txnQ verQ]; auto.
    + rewrite Hq, map_app in Svq. apply SSorted_app_split in Svq. tauto.
    + rewrite Hq in Bvq. apply Forall_app in Bvq. apply Hb. tauto.
    + intros txn v H. destruct (Hpin' _ _ H) as (a0 & Hi & Hc). exists a0.
      split; [exact Hi|]. destruct Hc as [Hc|[->|(a' & Ha & Hd)]].
      * left. exact Hc.
      * right. left. reflexivity.
      * rewrite Hq in Ha. apply in_app_or in Ha. destruct Ha as [Ha|Ha].
        -- left. rewrite Forall_forall in Hf. apply Hf in Ha. cbn [fst] in Ha. lia.
        -- right. right. exists a'. split; assumption.
Qed.

Lemma Inv_weaken T T' s : Inv T s -> T <= T' -> Inv T' s.
Proof.
  intros [I0 Stq Svq Btq Bvq Hpin] H. constructor; auto.
  - eapply Forall_impl; [|exact Btq]. cbn. intros; lia.
  - eapply Forall_impl; [|exact Bvq]. cbn. intros; lia.
  - intros txn v P. destruct (Hpin _ _ P) as (a0 & Hin & Hc). exists a0.
    split; [exact Hin|]. destruct Hc as [Hc|Hc]; [left; lia|right; exact Hc].
Qed.

Lemma Inv_after h : forall T s,
  Inv T s -> StronglySorted Z.le (map time_of h) ->
  Forall (fun a => T <= time_of a) h ->
  forall T', Forall (fun a => time_of a <= T') h -> T <= T' -> Inv T' (after s h).
Proof.
  induction h as [|a h IH]; intros T s I S F T' F' HT.
  - cbn. eapply Inv_weaken; eassumption.
  - rewrite after_cons. cbn [map] in S.
    inversion S as [|? ? S' Fa]; subst.
    inversion F as [|? ? Ha Fh]; subst. inversion F' as [|? ? Ha' Fh']; subst.
    apply (IH (time_of a)); try assumption.
    + apply (Inv_step T); assumption.
    + rewrite Forall_forall in Fa. apply Forall_forall. intros b Hb.
      apply Fa. apply in_map. exact Hb.
Qed.

Lemma invariant_monotone d0 h T :
  monotone h -> Forall (fun a => time_of a <= T) h -> Inv T (after (init d0) h).
Proof.
  intros M F. unfold monotone in M.
  apply Sorted_StronglySorted in M; [|exact Z.le_trans].
  destruct h as [|a h]; [apply Inv_init|].
  assert (time_of a <= T) as Ha by (inversion F; assumption).
  apply (Inv_after (a :: h) (time_of a)); try assumption; try apply Inv_init.
  cbn [map] in M. inversion M as [|? ? _ Fa]; subst.
  constructor; [lia|]. rewrite Forall_forall in Fa. apply Forall_forall.
  intros b Hb. apply Fa. apply in_map. exact Hb.
Qed.

(* ------------------------------------------------------------------ *)
(* statements in the form used by Property.v                            *)

Lemma new_sees_new d0 h txn t :
  lookup txn (pins (after (init d0) h)) = None ->
  snd (get (after (init d0) h) txn t) =
  {| o_ver := 1 + n_updates h; o_data := Some (last_data d0 h); o_fallback := false |}.
Proof.
  intros P.
  replace (1 + n_updates h) with (cur (after (init d0) h))
    by (rewrite cur_after; reflexivity).
  apply get_unpinned; [exact P|].
  apply cur_data_after; [apply Inv0_init|reflexivity].
Qed.

Lemma version_data_immutable d0 h1 h2 v d :
  lookup v (vers (after (init d0) h1)) = Some d ->
  lookup v (vers (after (init d0) (h1 ++ h2))) = Some d \/
  lookup v (vers (after (init d0) (h1 ++ h2))) = None.
Proof.
  intros L. rewrite after_app.
  apply data_immutable; [apply Inv0_after, Inv0_init|exact L].
Qed.

Lemma invariant_spelled_out d0 h T :
  monotone h -> Forall (fun a => time_of a <= T) h ->
  let s := after (init d0) h in
  (lookup (cur s) (vers s) <> None /\
   (forall v, lookup v (vers s) <> None -> v <= cur s) /\
   Forall (fun e => snd e < cur s) (verQ s) /\
   NoDup (map snd (verQ s)) /\
   (forall v, In v (map snd (verQ s)) -> lookup v (vers s) <> None)) /\
  (NoDup (map snd (txnQ s)) /\
   (forall txn, In txn (map snd (txnQ s)) <-> lookup txn (pins s) <> None)) /\
  (StronglySorted Z.le (map fst (txnQ s)) /\ StronglySorted Z.le (map fst (verQ s)) /\
   Forall (fun e => fst e <= T + ttl) (txnQ s) /\
   Forall (fun e => fst e <= T + ttl) (verQ s)) /\
  (forall txn v, lookup txn (pins s) = Some v ->
     exists a, In (a, txn) (txnQ s) /\
       (a < T \/ v = cur s \/ exists a', In (a', v) (verQ s) /\ a <= a')).
Proof.
  intros M F s.
  destruct (invariant_monotone d0 h T M F) as [[A B C D E G H] I J K L N].
  repeat split; try assumption; apply H.
Qed.

(* ------------------------------------------------------------------ *)
(* every object a look-up hands out was installed: it is the initial one or *)
(* the data of a successful update                                          *)

Lemma supplied_cons a h : supplied (a :: h) =
  match a with Update d _ => [d] | _ => [] end ++ supplied h.
Proof. reflexivity. Qed.

Lemma served_in h : forall (P : Z -> Prop) s,
  (forall v d, lookup v (vers s) = Some d -> P d) ->
  (forall d, In d (supplied h) -> P d) ->
  forall o d, In o (outs s h) -> o_data o = Some d -> P d.
Proof.
  induction h as [|a h IH]; intros P s Hs Hsup o d Hin Hd; [destruct Hin|].
  cbn [outs] in Hin.
  assert (forall v d, lookup v (vers (fst (step s a))) = Some d -> P d) as Hs'.
  { intros v d' L. destruct a as [t now|d2 now|now|now|now].
    - rewrite step_get, get_fst in L. unfold pin in L.
      destruct (lookup t (pins s)); exact (Hs _ _ L).
    - cbn [step fst update vers] in L. destruct (Z.eq_dec v (cur s + 1)) as [->|N].
      + rewrite lookup_set_eq in L. inversion L; subst. apply Hsup. left. reflexivity.
      + rewrite lookup_set_neq in L by exact N. exact (Hs _ _ L).
    - exact (Hs _ _ L).
    - cbn [step fst] in L. unfold vac_txn in L. destruct (vacuum _ _ _). exact (Hs _ _ L).
    - cbn [step fst] in L. unfold vac_ver in L.
      destruct (vacuum now (verQ s) (vers s)) as [q m] eqn:E. cbn [vers] in L.
      destruct (vacuum_lookup _ _ _ _ _ v E) as [H|H]; [congruence|].
      rewrite H in L. exact (Hs _ _ L). }
  assert (forall d, In d (supplied h) -> P d) as Hsup'.
  { intros d' H. apply Hsup. rewrite supplied_cons. apply in_or_app. right. exact H. }
  destruct (snd (step s a)) as [x|] eqn:Eo.
  - destruct Hin as [<-|Hin]; [|exact (IH P _ Hs' Hsup' _ _ Hin Hd)].
    destruct a as [t now|d2 now|now|now|now]; try discriminate Eo.
    cbn [step] in Eo. destruct (get s t now) as [s1 o1] eqn:G. cbn [snd] in Eo.
    inversion Eo; subst o1. clear Eo. unfold get in G.
    destruct (pin s t now) as [s2 v] eqn:Pn.
    assert (vers s2 = vers s) as Ev.
    { unfold pin in Pn. destruct (lookup t (pins s)); inversion Pn; reflexivity. }
    destruct (lookup v (vers s2)) eqn:L; inversion G; subst; cbn [o_data] in Hd.
    + inversion Hd; subst. rewrite Ev in L. exact (Hs _ _ L).
    + rewrite Ev in Hd. exact (Hs _ _ Hd).
  - exact (IH P _ Hs' Hsup' _ _ Hin Hd).
Qed.
