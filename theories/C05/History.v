(* C05 — the executor with processors whose answers depend on the HISTORY of
   the transaction (executable definitions only; proofs: HistoryProofs.v).

   C04's executor ([exec_impl], [run_req], [run_res], reused by C05 and tied to
   the code by the `txn` suite) takes the behaviour of the processors as a
   FUNCTION of (flow, processor, direction): a processor that runs twice in one
   transaction (a diamond, two connections to the same target, a hand-over that
   comes back to it) answers the same both times.  Real processors need not: a
   Limiter's answer depends on what it counted before, a cache on what was
   stored.  Here the answer is a function of everything executed so far in the
   transaction as well:

       horacle = history -> flow -> processor -> direction -> (condition, kind)

   history = the processor executions of the transaction so far, most recent
   first.  Every function below is the function of the same name (without the
   `h`) of C04/Model.v with the history threaded through: it takes the history
   so far and returns the history afterwards.  For an oracle that ignores the
   history the two executors coincide (HistoryProofs.v, [hrun_req_blind] /
   [hrun_res_blind]): so what the suite ties to the code is the instance of
   this executor that a history-blind prediction can be compared with. *)
From Coq Require Import List ZArith Bool.
From Verif Require Import C04.Model.
Import ListNotations.
Open Scope Z_scope.

Definition history := list event.        (* most recent execution first *)
Definition horacle := history -> Z -> key -> dir -> cond * kind.

(* a history-blind oracle *)
Definition blind (beh : oracles) : horacle := fun _ fl k d => beh fl k d.

Section HWalk.
  Variable fl : Z.         (* name of the flow being walked *)
  Variable g : dgraph.     (* the direction being walked *)
  Variable gr : dgraph.    (* response direction of the same flow *)
  Variable d : dir.
  Variable hb : horacle.

  (* the edge loop of stream.ExecuteFlow (C04 [loop_impl]) *)
  Fixpoint hloop (rec : history -> key -> history * outcome) (h : history) (c : cond)
           (es : list edge) : history * outcome :=
    match es with
    | [] => (h, Done)
    | (c', None) :: rest => hloop rec h c rest
    | (c', Some t) :: rest =>
        if c' =? c
        then let r := rec h t in
             if is_done (snd r) then hloop rec (fst r) c rest else r
        else hloop rec h c rest
    end.

  (* stream.ExecuteFlow (C04 [exec_impl]) *)
  Fixpoint hexec (fuel : nat) (h : history) (k : key) : history * outcome :=
    match fuel with
    | O => (h, OutOfFuel)
    | S f =>
        let a := hb h fl k d in
        let h' := {| e_flow := fl; e_key := k; e_dir := d; e_cond := fst a |} :: h in
        if is_req d && is_early (snd a)
        then (h', if has_node gr k then Handed k else NoRespNode k)
        else hloop (hexec f) h' (fst a) (edges_of g k)
    end.

  (* C04 [starts_impl] *)
  Fixpoint hstarts (rec : history -> key -> history * outcome) (h : history) (ts : list key)
    : history * outcome :=
    match ts with
    | [] => (h, Done)
    | t :: rest =>
        let r := rec h t in
        if failed (snd r) then r else hstarts rec (fst r) rest
    end.
End HWalk.

(* streams.executeFlow (C04 [exec_flow_impl]) *)
Definition hexec_flow (fuel : nat) (f : flow) (d : dir) (start : option key) (hb : horacle)
           (h : history) : history * outcome :=
  let g := gdir f d in
  match start with
  | Some k => hstarts (hexec (fname f) g (fres f) d hb fuel) h (all_targets (edges_of g k))
  | None => match root g with
            | None => (h, Done)
            | Some r => hexec (fname f) g (fres f) d hb fuel h r
            end
  end.

Section HOrchestration.
  Variable fuel : nat.
  Variable hb : horacle.

  (* C04 [run_list] *)
  Fixpoint hrun_list (d : dir) (fs : list flow) (h : history) : history * option outcome :=
    match fs with
    | [] => (h, None)
    | f :: rest =>
        let r := hexec_flow fuel f d None hb h in
        if failed (snd r) then (fst r, Some (snd r)) else hrun_list d rest (fst r)
    end.

  (* C04 [run_users_req] *)
  Fixpoint hrun_users_req (fs : list flow) (h : history)
    : history * option (Z * key) * option outcome :=
    match fs with
    | [] => (h, None, None)
    | f :: rest =>
        let r := hexec_flow fuel f Req None hb h in
        match snd r with
        | Done => hrun_users_req rest (fst r)
        | Handed k => (fst r, Some (fname f, k), None)
        | bad => (fst r, None, Some bad)
        end
    end.

  (* C04 [run_users_res] *)
  Fixpoint hrun_users_res (sc : option (Z * key)) (fs : list flow) (h : history)
    : history * option outcome :=
    match fs with
    | [] => (h, None)
    | f :: rest =>
        let start := match sc with
                     | Some (n, k) => if n =? fname f then Some k else None
                     | None => None
                     end in
        let r := hexec_flow fuel f Res start hb h in
        if failed (snd r) then (fst r, Some (snd r)) else hrun_users_res sc rest (fst r)
    end.

  Definition hthen (r : history * option outcome)
             (rest : history -> history * option outcome) : history * option outcome :=
    match snd r with
    | Some _ => r
    | None => rest (fst r)
    end.

  (* streams.executeRes (C04 [run_res]) *)
  Definition hrun_res (s : selection) (sc : option (Z * key)) (h : history)
    : history * option outcome :=
    hthen (hrun_list Res (rev (s_start s)) h) (fun h1 =>
    hthen (hrun_users_res sc (rev (s_user s)) h1) (fun h2 =>
           hrun_list Res (rev (s_end s)) h2)).

  (* streams.executeReq (C04 [run_req]) *)
  Definition hrun_req (s : selection) (s2 : option selection) (h : history)
    : history * option outcome :=
    hthen (hrun_list Req (s_start s) h) (fun h1 =>
    let '(h2, sc, e2) := hrun_users_req (s_user s) h1 in
    hthen (h2, e2) (fun h3 =>
    hthen (hrun_list Req (s_end s) h3) (fun h4 =>
    match sc, s2 with
    | Some hd, Some s' => hrun_res s' (Some hd) h4
    | _, _ => (h4, None)
    end))).
End HOrchestration.

(* a processor that answers differently the second time it runs in the same
   transaction: hit first, miss afterwards *)
Definition once_hit : horacle :=
  fun h fl k d =>
    if existsb (fun e => (e_flow e =? fl) && (e_key e =? k)) h then (2, Plain) else (1, Plain).
