(* C05 — concrete witnesses: the graphs / configurations on which the pinned
   validator and the pinned builder fail, with the lemmas about them that need
   an induction (divergence for EVERY budget), and a good configuration on which
   the hypotheses of the theorems are met. *)
From Coq Require Import List ZArith Bool Lia.
From Verif Require Import C04.Model C04.Spec C04.Proofs C05.Model C05.Proofs C05.History.
Import ListNotations.
Open Scope Z_scope.

(* ---- F-C05a: a response cycle that only a hand-over reaches ------------------

   request : stream -> F1(1) -hit-> Gen(2)
   response: Gen(2) -""-> T1(3) -hit-> T2(4) -hit-> T1(3)      (no entry point) *)
Definition wa_req : dgraph :=
  {| root := Some 1; nodes := [(1, [(1, Some 2); (2, None)]); (2, [])] |}.
Definition wa_res : dgraph :=
  {| root := None; nodes := [(2, [(0, Some 3)]); (3, [(1, Some 4)]); (4, [(1, Some 3)])] |}.
Definition wa_flow : flow := {| fname := 1; freq := wa_req; fres := wa_res |}.
(* every Filter hits, Gen answers requests *)
Definition wa_beh : oracle :=
  fun k d => if k =? 2 then (0, match d with Req => Early | Res => Plain end) else (1, Plain).

Lemma wa_cycle_diverges : forall fuel,
  snd (exec_impl wa_res wa_res Res wa_beh fuel 3) = OutOfFuel
  /\ snd (exec_impl wa_res wa_res Res wa_beh fuel 4) = OutOfFuel.
Proof.
  induction fuel as [|f [A B]]; [split; reflexivity|].
  split; cbn [exec_impl].
  - change (answers wa_beh Res 3) with false. cbn iota.
    change (edges_of wa_res 3) with [(1, Some 4)].
    change (fst (wa_beh 3 Res)) with 1.
    cbn [loop_impl]. change (1 =? 1) with true. cbn iota.
    unfold andthen. rewrite B. cbn [is_done snd]. exact B.
  - change (answers wa_beh Res 4) with false. cbn iota.
    change (edges_of wa_res 4) with [(1, Some 3)].
    change (fst (wa_beh 4 Res)) with 1.
    cbn [loop_impl]. change (1 =? 1) with true. cbn iota.
    unfold andthen. rewrite A. cbn [is_done snd]. exact A.
Qed.

(* the continuation after Gen answered never comes back, whatever the budget *)
Lemma wa_handover_diverges : forall fuel,
  snd (exec_flow_impl fuel wa_flow Res (Some 2) wa_beh) = OutOfFuel.
Proof.
  intros fuel. unfold exec_flow_impl. cbn [gdir wa_flow fres].
  change (all_targets (edges_of wa_res 2)) with [3].
  cbn [starts_impl]. destruct (wa_cycle_diverges fuel) as [A _].
  rewrite A. cbn [failed]. exact A.
Qed.

(* the same as a configuration (flow 1 = "A"; processors 1 f1, 2 g, 3 t1, 4 t2) *)
Definition ep_stream_start : endpoint := EP (Some 0) None None.
Definition ep_stream_end : endpoint := EP (Some 1) None None.
Definition ep_p (k c : Z) : endpoint := EP None None (Some (PR None k c)).
Definition ep_flow_start (n : Z) : endpoint := EP None (Some (n, 0)) None.

Definition wa_config : config :=
  CF [FC 1 true [PD 1 false 1 [1]; PD 2 false 2 [3; 4]; PD 3 false 1 [1]; PD 4 false 1 [1]]
         [CN ep_stream_start (ep_p 1 0); CN (ep_p 1 1) (ep_p 2 0); CN (ep_p 1 2) ep_stream_end]
         [CN (ep_p 2 0) (ep_p 3 0); CN (ep_p 3 1) (ep_p 4 0); CN (ep_p 4 1) (ep_p 3 0)]]
     false.

(* ---- F-C05b: a flow that refers to itself -----------------------------------

   flow 1: stream -> f1(1);  f1 -hit-> flow 1 at start *)
Definition wb_req : list conn :=
  [CN ep_stream_start (ep_p 1 0); CN (ep_p 1 1) (ep_flow_start 1)].
Definition wb_config : config :=
  CF [FC 1 true [PD 1 false 1 [1]] wb_req [CN ep_stream_start ep_stream_end]] false.

Lemma wb_get_or_create : forall c b,
  exists b' n, get_or_create wb_config 1 (PR None 1 c) b = Some (b', n).
Proof.
  intros c b. unfold get_or_create. cbn [refkey pr_owner pr_name].
  destruct (bfind b 1) as [n|]; [eauto|].
  change (find_decl wb_config 1 1) with (Some (PD 1 false 1 [1])). cbn iota. eauto.
Qed.

Lemma wb_builder_diverges : forall fuel stack s,
  build_conns wb_config false 1 Req fuel 1 stack wb_req s = BFuel.
Proof.
  induction fuel as [|f IH]; intros stack [b foreign]; [reflexivity|].
  cbn [build_conns]. unfold wb_req at 1. cbn [build_list].
  (* first connection: stream -> f1 *)
  assert (E1 : exists s1, build_conn wb_config false 1 Req (build_conns wb_config false 1 Req f) 1 stack
                                     (CN ep_stream_start (ep_p 1 0)) (b, foreign) = BOk s1).
  { unfold build_conn.
    cbn [c_from c_to ep_stream_start ep_p ep_proc ep_stream ep_flow negb].
    change (0 =? 0) with true. cbn iota.
    destruct (wb_get_or_create 0 b) as [b1 [n E]]. rewrite E.
    destruct (bn_flow n =? 1); eauto. }
  destruct E1 as [[b1 fo1] E1]. rewrite E1.
  (* second connection: f1 -hit-> flow 1 at start: incorporates flow 1 again *)
  unfold build_conn.
  cbn [c_from c_to ep_flow_start ep_p ep_proc ep_stream ep_flow].
  change (from_cond_ok wb_config Req 1 (PR None 1 1)) with true. cbn [negb]. cbn iota.
  change (0 =? 0) with true. cbn iota.
  destruct (wb_get_or_create 1 b1) as [b2 [n E]]. rewrite E.
  unfold incorporate.
  change (find_flow wb_config 1) with (Some (FC 1 true [PD 1 false 1 [1]] wb_req [CN ep_stream_start ep_stream_end])).
  cbn iota. cbn [andb fc_conns fc_req].
  rewrite IH. reflexivity.
Qed.

(* a reference cycle through three flows: 1 -> 2 -> 3 -> 1 *)
Definition wc_config : config :=
  CF [FC 1 true [PD 1 false 1 [1]] [CN ep_stream_start (ep_p 1 0); CN (ep_p 1 1) (ep_flow_start 2)]
         [CN ep_stream_start ep_stream_end];
      FC 2 true [PD 2 false 1 [1]] [CN ep_stream_start (ep_p 2 0); CN (ep_p 2 1) (ep_flow_start 3)]
         [CN ep_stream_start ep_stream_end];
      FC 3 true [PD 3 false 1 [1]] [CN ep_stream_start (ep_p 3 0); CN (ep_p 3 1) (ep_flow_start 1)]
         [CN ep_stream_start ep_stream_end]] false.

(* ---- a good configuration: fan-out, hand-over with two response connections,
        a second flow incorporated on the response side ----------------------

   flow 1 ("A"): request  stream -> a(1); a -hit-> b(2); a -hit-> g(3); a -miss-> stream;
                          b -hit-> stream
                 response stream -> t(4); t -hit-> stream; g -""-> t; g -""-> u(5);
                          u -hit-> flow 2 at start
   flow 2 ("B"): request  stream -> stream      response stream -> c(6); c -hit-> stream *)
Definition wg_config : config :=
  CF [FC 1 true [PD 1 false 1 [1]; PD 2 false 1 [1]; PD 3 false 2 [3; 4]; PD 4 false 1 [1]; PD 5 false 1 [1]]
         [CN ep_stream_start (ep_p 1 0); CN (ep_p 1 1) (ep_p 2 0); CN (ep_p 1 1) (ep_p 3 0);
          CN (ep_p 1 2) ep_stream_end; CN (ep_p 2 1) ep_stream_end]
         [CN ep_stream_start (ep_p 4 0); CN (ep_p 4 1) ep_stream_end; CN (ep_p 3 0) (ep_p 4 0);
          CN (ep_p 3 0) (ep_p 5 0); CN (ep_p 5 1) (ep_flow_start 2)];
      FC 2 true [PD 6 false 1 [1]]
         [CN ep_stream_start ep_stream_end]
         [CN ep_stream_start (ep_p 6 0); CN (ep_p 6 1) ep_stream_end]]
     false.

Definition wg_flows : list flow :=
  match load wg_config with Accept fs => fs | _ => [] end.
Definition wg_flow1 : flow := hd wa_flow wg_flows.
Definition wg_sel : selection :=
  {| s_start := []; s_user := flows_named wg_flows [1]; s_end := [] |}.

Lemma refers_p2f : forall k c n, refers (CN (ep_p k c) (ep_flow_start n)) n.
Proof.
  intros. left. unfold refers_to. cbn. split; [eexists; reflexivity|]. repeat split.
Qed.

Definition wc_flow (i k n : Z) : flowcfg :=
  FC i true [PD k false 1 [1]] [CN ep_stream_start (ep_p k 0); CN (ep_p k 1) (ep_flow_start n)]
     [CN ep_stream_start ep_stream_end].

Lemma wc_ref_path : ref_path wc_config Req 1 1.
Proof.
  apply (rp_step wc_config Req 1 2 1 (wc_flow 1 1 2) [CN ep_stream_start (ep_p 1 0)]
                 (CN (ep_p 1 1) (ep_flow_start 2)) []);
    [reflexivity|reflexivity|apply refers_p2f|].
  apply (rp_step wc_config Req 2 3 1 (wc_flow 2 2 3) [CN ep_stream_start (ep_p 2 0)]
                 (CN (ep_p 2 1) (ep_flow_start 3)) []);
    [reflexivity|reflexivity|apply refers_p2f|].
  apply (rp_last wc_config Req 3 1 (wc_flow 3 3 1) [CN ep_stream_start (ep_p 3 0)]
                 (CN (ep_p 3 1) (ep_flow_start 1)) []);
    [reflexivity|reflexivity|apply refers_p2f].
Qed.

(* ---- F-C05l: a foreign root nothing consumed ----------------------------------

   flow 1 ("A"): request  from flow 2 at end -> a1(1); a1 -hit-> stream;
                          stream -> b1(5)      <- b1 came in with flow 2: not A's own,
                                                  filed as foreign root, never consumed
                 response from flow 2 at end -> a3(3); a3 -hit-> stream
   flow 2 ("B"): request  stream -> b1(5); b1 -hit-> stream
                 response stream -> stream     <- defines no entry: only the stale
                                                  value lets A's response reference succeed *)
Definition ep_flow_end (n : Z) : endpoint := EP None (Some (n, 1)) None.

Definition wf_config : config :=
  CF [FC 1 true [PD 1 false 1 [1]; PD 3 false 1 [1]]
         [CN (ep_flow_end 2) (ep_p 1 0); CN (ep_p 1 1) ep_stream_end; CN ep_stream_start (ep_p 5 0)]
         [CN (ep_flow_end 2) (ep_p 3 0); CN (ep_p 3 1) ep_stream_end];
      FC 2 true [PD 5 false 1 [1]]
         [CN ep_stream_start (ep_p 5 0); CN (ep_p 5 1) ep_stream_end]
         [CN ep_stream_start ep_stream_end]]
     false.

Definition wf_flows : list flow :=
  match load_stale wf_config with Accept fs => fs | _ => [] end.
Definition wf_flow1 : flow := hd wa_flow wf_flows.

(* ---- a processor that runs twice and answers differently ----------------------

   request: stream -> 1; 1 -hit-> 2; 1 -hit-> 3; 2 -hit-> 4; 3 -hit-> 4;
            4 -hit-> 5; 4 -miss-> 6
   With [once_hit] (hit the first time a processor runs, miss afterwards) the
   walk is 1 2 4 5 3 4 6: processor 4 runs twice and takes a different
   connection the second time. *)
Definition wh_req : dgraph :=
  {| root := Some 1;
     nodes := [(1, [(1, Some 2); (1, Some 3)]); (2, [(1, Some 4)]); (3, [(1, Some 4)]);
               (4, [(1, Some 5); (2, Some 6)]); (5, []); (6, [])] |}.
Definition wh_flow : flow := {| fname := 1; freq := wh_req; fres := {| root := None; nodes := [] |} |}.

Definition wh_event (k c : Z) : event := {| e_flow := 1; e_key := k; e_dir := Req; e_cond := c |}.

Lemma wh_trace : forall fuel, (5 <= fuel)%nat ->
  hexec_flow fuel wh_flow Req None once_hit []
  = (rev [wh_event 1 1; wh_event 2 1; wh_event 4 1; wh_event 5 1; wh_event 3 1; wh_event 4 2;
          wh_event 6 1], Done).
Proof.
  intros fuel L. do 5 (destruct fuel as [|fuel]; [lia|]). reflexivity.
Qed.

(* no history-blind oracle produces that walk *)
Lemma wh_not_blind : forall (beh : oracle) fuel,
  fst (hexec_flow 5 wh_flow Req None once_hit [])
  <> rev (tag wh_flow Req (fst (exec_flow_impl fuel wh_flow Req None beh))).
Proof.
  intros beh fuel E. rewrite wh_trace in E by lia. cbn [fst] in E.
  apply (f_equal (@rev event)) in E. rewrite !rev_involutive in E.
  assert (A : forall c, In (wh_event 4 c) (tag wh_flow Req (fst (exec_flow_impl fuel wh_flow Req None beh)))
                        -> c = fst (beh 4 Req)).
  { intros c I. unfold tag in I. apply in_map_iff in I. destruct I as [[k c'] [X I]].
    inversion X. subst. apply flow_on_path in I. apply I. }
  assert (A1 : 1 = fst (beh 4 Req)) by (apply A; rewrite <- E; cbn; tauto).
  assert (A2 : 2 = fst (beh 4 Req)) by (apply A; rewrite <- E; cbn; tauto).
  congruence.
Qed.
