(* C05 — lemmas.  Final statements are in Property.v. *)
From Coq Require Import List ZArith Bool Lia Arith PeanoNat.
From Verif Require Import C04.Model C04.Spec C04.Proofs C05.Model.
Import ListNotations.
Open Scope Z_scope.

(* ------------------------------------------------------------------ basics *)

Lemma memZ_true : forall x l, memZ x l = true <-> In x l.
Proof.
  intros x l. unfold memZ. rewrite existsb_exists. split.
  - intros [y [I E]]. apply Z.eqb_eq in E. subst. exact I.
  - intros I. exists x. split; [exact I|apply Z.eqb_refl].
Qed.

Lemma memZ_false : forall x l, memZ x l = false -> ~ In x l.
Proof.
  intros x l H I. apply memZ_true in I. congruence.
Qed.

Lemma visited_true : forall vis p, visited vis p = true <-> In p vis.
Proof.
  intros vis [c k]. unfold visited. rewrite existsb_exists. split.
  - intros [[c' k'] [I E]]. unfold pair_eqb in E. cbn [fst snd] in E.
    apply andb_true_iff in E. destruct E as [E1 E2].
    apply Z.eqb_eq in E1. apply Z.eqb_eq in E2. subst. exact I.
  - intros I. exists (c, k). split; [exact I|].
    unfold pair_eqb. cbn [fst snd]. rewrite !Z.eqb_refl. reflexivity.
Qed.

Lemma edges_of_in : forall g k e,
  In e (edges_of g k) -> exists n, In n (nodes g) /\ fst n = k /\ In e (snd n).
Proof.
  intros g k e I. unfold edges_of, find_node in I.
  destruct (find (fun n => fst n =? k) (nodes g)) as [n|] eqn:F; [|contradiction].
  apply find_some in F. destruct F as [Fin Fk]. apply Z.eqb_eq in Fk.
  exists n. repeat split; assumption.
Qed.

Lemma in_all_targets_iff : forall es t,
  In t (all_targets es) <-> exists c, In (c, Some t) es.
Proof.
  intros es t. unfold all_targets. rewrite in_flat_map. split.
  - intros [[c [t'|]] [I J]]; cbn [snd] in J; [|contradiction].
    destruct J as [J|[]]. subst. exists c. exact I.
  - intros [c I]. exists (c, Some t). split; [exact I|left; reflexivity].
Qed.

(* ------------------------------------------------- the detector terminates *)

(* the (condition, processor) pairs a search can ever put on its path *)
Definition pairs_of (es : list edge) : list (cond * key) :=
  flat_map (fun e => match snd e with Some t => [(norm (fst e), t)] | None => [] end) es.
Definition pairs (g : dgraph) : list (cond * key) :=
  flat_map (fun n => pairs_of (snd n)) (nodes g).

Lemma pairs_of_length : forall es, length (pairs_of es) = length (all_targets es).
Proof.
  induction es as [|[c [t|]] es IH]; cbn; [reflexivity| |exact IH].
  f_equal. exact IH.
Qed.

Lemma pairs_length : forall g, length (pairs g) = edge_count g.
Proof.
  intros g. unfold pairs, edge_count.
  induction (nodes g) as [|n ns IH]; cbn [flat_map]; [reflexivity|].
  rewrite !app_length, IH, pairs_of_length. reflexivity.
Qed.

Lemma in_pairs_of : forall es c t, In (c, Some t) es -> In (norm c, t) (pairs_of es).
Proof.
  intros es c t I. unfold pairs_of. rewrite in_flat_map.
  exists (c, Some t). split; [exact I|left; reflexivity].
Qed.

Lemma node_in_pairs : forall g n c t,
  In n (nodes g) -> In (c, Some t) (snd n) -> In (norm c, t) (pairs g).
Proof.
  intros g n c t N I. unfold pairs. rewrite in_flat_map.
  exists n. split; [exact N|apply in_pairs_of; exact I].
Qed.

Lemma edge_in_pairs : forall g k c t,
  In (c, Some t) (edges_of g k) -> In (norm c, t) (pairs g).
Proof.
  intros g k c t I. apply edges_of_in in I. destruct I as [n [N [_ I]]].
  eapply node_in_pairs; eauto.
Qed.

Lemma dfs_edges_ok : forall rec es,
  dfs_edges rec es = DOk <-> (forall c t, In (c, Some t) es -> rec t c = DOk).
Proof.
  intros rec es. induction es as [|[c [t|]] es IH]; cbn [dfs_edges].
  - split; [intros _ c t []|reflexivity].
  - destruct (rec t c) eqn:R.
    + rewrite IH. split.
      * intros H c' t' [E|I]; [inversion E; subst; exact R|apply H; exact I].
      * intros H c' t' I. apply H. right. exact I.
    + split; [discriminate|]. intros H.
      rewrite (H c t) in R by (left; reflexivity). discriminate.
    + split; [discriminate|]. intros H.
      rewrite (H c t) in R by (left; reflexivity). discriminate.
  - rewrite IH. split.
    + intros H c' t' [E|I]; [discriminate|apply H; exact I].
    + intros H c' t' I. apply H. right. exact I.
Qed.

Lemma dfs_edges_no_fuel : forall rec es,
  (forall c t, In (c, Some t) es -> rec t c <> DFuel) -> dfs_edges rec es <> DFuel.
Proof.
  intros rec es. induction es as [|[c [t|]] es IH]; intros H; cbn [dfs_edges].
  - discriminate.
  - destruct (rec t c) eqn:R.
    + apply IH. intros c' t' I. apply H. right. exact I.
    + discriminate.
    + exfalso. apply (H c t); [left; reflexivity|exact R].
  - apply IH. intros c' t' I. apply H. right. exact I.
Qed.

(* pigeonhole: the path is duplicate-free and drawn from [pairs g] *)
Lemma dfs_no_fuel : forall g fuel vis k c,
  NoDup vis -> incl vis (pairs g) -> In (norm c, k) (pairs g) ->
  (length (pairs g) - length vis < fuel)%nat ->
  dfs g fuel vis k c <> DFuel.
Proof.
  intros g. induction fuel as [|f IH]; intros vis k c ND INC IN L; [lia|].
  cbn [dfs]. destruct (visited vis (norm c, k)) eqn:V; [discriminate|].
  assert (NI : ~ In (norm c, k) vis).
  { intros I. apply visited_true in I. congruence. }
  assert (ND' : NoDup ((norm c, k) :: vis)) by (constructor; assumption).
  assert (INC' : incl ((norm c, k) :: vis) (pairs g)).
  { intros x [E|I]; [subst; exact IN|apply INC; exact I]. }
  pose proof (NoDup_incl_length ND' INC') as LEN. cbn [length] in LEN.
  apply dfs_edges_no_fuel. intros c' t I.
  apply IH; [exact ND'|exact INC'|eapply edge_in_pairs; exact I|cbn [length]; lia].
Qed.

Lemma dfs_from_no_fuel : forall g es,
  (forall c t, In (c, Some t) es -> In (norm c, t) (pairs g)) ->
  dfs_from g (detect_fuel g) es <> DFuel.
Proof.
  intros g es H. unfold dfs_from. apply dfs_edges_no_fuel. intros c t I.
  apply dfs_no_fuel; [constructor|intros x []|apply H; exact I|].
  unfold detect_fuel. rewrite pairs_length. cbn [length]. lia.
Qed.

Lemma dfs_nodes_no_fuel : forall g ns,
  incl ns (nodes g) -> dfs_nodes g (detect_fuel g) ns <> DFuel.
Proof.
  intros g ns. induction ns as [|n ns IH]; intros INC; cbn [dfs_nodes]; [discriminate|].
  assert (N : dfs_from g (detect_fuel g) (snd n) <> DFuel).
  { apply dfs_from_no_fuel. intros c t I. eapply node_in_pairs; [|exact I].
    apply INC. left. reflexivity. }
  destruct (dfs_from g (detect_fuel g) (snd n)); [|discriminate|contradiction].
  apply IH. intros x I. apply INC. right. exact I.
Qed.

Lemma detect_no_fuel : forall allstarts d g,
  detect allstarts (detect_fuel g) d g <> DFuel.
Proof.
  intros allstarts d g. unfold detect. destruct allstarts.
  - apply dfs_nodes_no_fuel. apply incl_refl.
  - destruct (root g) as [r|]; [|discriminate].
    apply dfs_from_no_fuel. intros c t I. eapply edge_in_pairs. exact I.
Qed.

Lemma validate_dir_no_fuel : forall allstarts d g, validate_dir allstarts d g <> VFuel.
Proof.
  intros allstarts d g. unfold validate_dir.
  destruct (nodes g); [discriminate|].
  destruct (is_req d && _); [discriminate|].
  destruct (negb (unconnected_ok g)); [discriminate|].
  pose proof (detect_no_fuel allstarts d g) as N.
  destruct (detect allstarts (detect_fuel g) d g); [discriminate|discriminate|contradiction].
Qed.

(* ----------------------------------------------- soundness of the detector *)

(* what the detector explored with budget f, the executor walks with budget f *)
Lemma dfs_ok_exec : forall g gr d beh fuel vis k c,
  dfs g fuel vis k c = DOk ->
  snd (exec_impl g gr d beh fuel k) <> OutOfFuel.
Proof.
  intros g gr d beh. induction fuel as [|f IH]; intros vis k c H; [discriminate|].
  cbn [dfs] in H. destruct (visited vis (norm c, k)); [discriminate|].
  cbn [exec_impl]. destruct (answers beh d k).
  - cbn [snd]. destruct (has_node gr k); discriminate.
  - cbn [snd]. apply loop_not_stuck. intros t I.
    rewrite dfs_edges_ok in H. eapply IH. apply H. exact I.
Qed.

(* depth of the graph below a processor, by budget *)
Fixpoint depth (g : dgraph) (fuel : nat) (k : key) : nat :=
  match fuel with
  | O => O
  | S f => S (fold_right Nat.max O (map (depth g f) (all_targets (edges_of g k))))
  end.

Lemma depth_le : forall g fuel k, (depth g fuel k <= fuel)%nat.
Proof.
  intros g. induction fuel as [|f IH]; intros k; cbn [depth]; [lia|].
  apply le_n_S.
  induction (all_targets (edges_of g k)) as [|t ts IHt]; cbn [map fold_right]; [lia|].
  specialize (IH t). lia.
Qed.

Lemma max_in : forall (f : key -> nat) l x,
  In x l -> (f x <= fold_right Nat.max O (map f l))%nat.
Proof.
  intros f l x. induction l as [|y l IH]; intros I; [contradiction|].
  cbn [map fold_right]. destruct I as [E|I]; [subst; lia|specialize (IH I); lia].
Qed.

Lemma dfs_depth_stable : forall g fuel vis k c,
  dfs g fuel vis k c = DOk ->
  forall fuel', (fuel <= fuel')%nat -> depth g fuel' k = depth g fuel k.
Proof.
  intros g. induction fuel as [|f IH]; intros vis k c H fuel' L; [discriminate|].
  destruct fuel' as [|f']; [lia|].
  cbn [dfs] in H. destruct (visited vis (norm c, k)); [discriminate|].
  rewrite dfs_edges_ok in H. cbn [depth]. f_equal. f_equal.
  apply map_ext_in. intros t I. apply in_all_targets_iff in I. destruct I as [c' I].
  eapply IH; [apply H; exact I|lia].
Qed.

(* the rank the detector's success gives: depth with a budget beyond it *)
Definition rank_of (g : dgraph) : key -> nat := depth g (S (S (detect_fuel g))).

Lemma dfs_nodes_ok : forall g fuel ns,
  dfs_nodes g fuel ns = DOk ->
  forall n c t, In n ns -> In (c, Some t) (snd n) -> dfs g fuel [] t c = DOk.
Proof.
  intros g fuel ns. induction ns as [|m ns IH]; intros H n c t N I; [contradiction|].
  cbn [dfs_nodes] in H. destruct (dfs_from g fuel (snd m)) eqn:F; try discriminate.
  destruct N as [E|N].
  - subst m. unfold dfs_from in F. rewrite dfs_edges_ok in F. apply F. exact I.
  - eapply IH; eauto.
Qed.

Lemma all_starts_ranked : forall g,
  dfs_nodes g (detect_fuel g) (nodes g) = DOk -> ranked g (rank_of g).
Proof.
  intros g H k c t I. unfold rank_of.
  set (F := detect_fuel g) in *.
  assert (T : forall c' t', In (c', Some t') (edges_of g k) -> dfs g F [] t' c' = DOk).
  { intros c' t' I'. apply edges_of_in in I'. destruct I' as [n [N [_ I']]].
    eapply dfs_nodes_ok; eauto. }
  (* the target is stable from F on *)
  rewrite (dfs_depth_stable g F [] t c (T c t I) (S (S F))) by lia.
  (* the source: one level above its targets, all stable *)
  change (depth g (S (S F)) k)
    with (S (fold_right Nat.max O (map (depth g (S F)) (all_targets (edges_of g k))))).
  assert (E : map (depth g (S F)) (all_targets (edges_of g k))
              = map (depth g F) (all_targets (edges_of g k))).
  { apply map_ext_in. intros t' I'. apply in_all_targets_iff in I'. destruct I' as [c' I'].
    eapply dfs_depth_stable; [apply T; exact I'|lia]. }
  rewrite E.
  assert (M : (depth g F t <= fold_right Nat.max O (map (depth g F) (all_targets (edges_of g k))))%nat).
  { apply max_in. apply in_all_targets_iff. exists c. exact I. }
  lia.
Qed.

Lemma rank_below_fuel : forall g k, (rank_of g k < exec_fuel_of g)%nat.
Proof.
  intros g k. unfold rank_of, exec_fuel_of.
  pose proof (depth_le g (S (S (detect_fuel g))) k). lia.
Qed.

Lemma validate_dir_all_starts : forall d g,
  validate_dir true d g = VOk -> dfs_nodes g (detect_fuel g) (nodes g) = DOk.
Proof.
  intros d g H. unfold validate_dir in H.
  destruct (nodes g) as [|n ns] eqn:N; [reflexivity|].
  destruct (is_req d && _); [discriminate|].
  destruct (negb (unconnected_ok g)); [discriminate|].
  unfold detect in H. rewrite N in H.
  destruct (dfs_nodes g (detect_fuel g) (n :: ns)); [reflexivity|discriminate|discriminate].
Qed.

Lemma validate_dir_ok : forall d g fuel,
  validate_dir true d g = VOk -> (exec_fuel_of g <= fuel)%nat -> dir_ok fuel g.
Proof.
  intros d g fuel H L. exists (rank_of g). split.
  - apply all_starts_ranked. eapply validate_dir_all_starts. exact H.
  - intros k. pose proof (rank_below_fuel g k). lia.
Qed.

(* ------------------------------------------------------ bounded executions *)

Definition maxdeg (g : dgraph) : nat :=
  fold_right Nat.max O (map (fun n => length (snd n)) (nodes g)).

Lemma edges_of_length : forall g k, (length (edges_of g k) <= maxdeg g)%nat.
Proof.
  intros g k. unfold edges_of, find_node.
  destruct (find (fun n => fst n =? k) (nodes g)) as [n|] eqn:F; [|cbn; lia].
  apply find_some in F. destruct F as [Fin _]. unfold maxdeg.
  induction (nodes g) as [|m ns IH]; [contradiction|].
  cbn [map fold_right]. destruct Fin as [E|I]; [subst; lia|specialize (IH I); lia].
Qed.

Lemma all_targets_length : forall es, (length (all_targets es) <= length es)%nat.
Proof.
  unfold all_targets.
  induction es as [|[c [t|]] es IH]; cbn [flat_map snd app length] in *; lia.
Qed.

Lemma loop_length : forall (rec : key -> list ev * outcome) M c es,
  (forall t, (length (fst (rec t)) <= M)%nat) ->
  (length (fst (loop_impl rec c es)) <= length es * M)%nat.
Proof.
  intros rec M c es H. induction es as [|[c' [t|]] es IH]; cbn [loop_impl length Nat.mul fst]; [lia| |lia].
  destruct (c' =? c); [|lia].
  unfold andthen. destruct (is_done (snd (rec t))).
  - cbn [fst]. rewrite app_length. specialize (H t). lia.
  - specialize (H t). lia.
Qed.

Lemma pow_pos : forall b n, (1 <= Nat.pow (S b) n)%nat.
Proof.
  intros b n. induction n as [|n IH]; cbn [Nat.pow]; lia.
Qed.

(* at most (1 + max out-degree)^budget processor executions in one walk *)
Lemma exec_length : forall g gr d beh fuel k,
  (length (fst (exec_impl g gr d beh fuel k)) <= Nat.pow (S (maxdeg g)) fuel)%nat.
Proof.
  intros g gr d beh. induction fuel as [|f IH]; intros k; [cbn; lia|].
  cbn [exec_impl]. pose proof (pow_pos (maxdeg g) f) as P.
  destruct (answers beh d k).
  - cbn [fst length Nat.pow]. lia.
  - cbn [fst length].
    pose proof (loop_length (exec_impl g gr d beh f) _ (fst (beh k d)) (edges_of g k) IH) as L.
    pose proof (edges_of_length g k) as D.
    cbn [Nat.pow].
    assert (length (edges_of g k) * Nat.pow (S (maxdeg g)) f
            <= maxdeg g * Nat.pow (S (maxdeg g)) f)%nat by (apply Nat.mul_le_mono_r; exact D).
    lia.
Qed.

Lemma starts_length : forall (rec : key -> list ev * outcome) M ts,
  (forall t, (length (fst (rec t)) <= M)%nat) ->
  (length (fst (starts_impl rec ts)) <= length ts * M)%nat.
Proof.
  intros rec M ts H. induction ts as [|t ts IH]; cbn [starts_impl length Nat.mul]; [cbn; lia|].
  destruct (failed (snd (rec t))).
  - specialize (H t). lia.
  - cbn [fst]. rewrite app_length. specialize (H t). lia.
Qed.

(* bound for one direction of one flow, from the entry point or from a hand-over *)
Definition dir_bound (fuel : nat) (g : dgraph) : nat := Nat.pow (S (maxdeg g)) (S fuel).

Lemma flow_length : forall fuel f d start beh,
  (length (fst (exec_flow_impl fuel f d start beh)) <= dir_bound fuel (gdir f d))%nat.
Proof.
  intros fuel f d start beh. unfold exec_flow_impl, dir_bound. set (g := gdir f d).
  pose proof (pow_pos (maxdeg g) fuel) as P. cbn [Nat.pow].
  destruct start as [k|].
  - pose proof (starts_length (exec_impl g (fres f) d beh fuel) _ (all_targets (edges_of g k))
                              (exec_length g (fres f) d beh fuel)) as L.
    pose proof (all_targets_length (edges_of g k)) as A.
    pose proof (edges_of_length g k) as D.
    assert (length (all_targets (edges_of g k)) * Nat.pow (S (maxdeg g)) fuel
            <= maxdeg g * Nat.pow (S (maxdeg g)) fuel)%nat by (apply Nat.mul_le_mono_r; lia).
    lia.
  - destruct (root g) as [r|]; [|cbn; lia].
    pose proof (exec_length g (fres f) d beh fuel r). lia.
Qed.

Definition flows_bound (fuel : nat) (d : dir) (fs : list flow) : nat :=
  list_sum (map (fun f => dir_bound fuel (gdir f d)) fs).

Lemma flows_bound_rev : forall fuel d fs, flows_bound fuel d (rev fs) = flows_bound fuel d fs.
Proof.
  intros fuel d fs. unfold flows_bound. induction fs as [|f fs IH]; [reflexivity|].
  cbn [rev]. rewrite map_app, list_sum_app, IH. unfold list_sum. cbn [map fold_right]. lia.
Qed.

Lemma tag_length : forall f d t, length (tag f d t) = length t.
Proof. intros. unfold tag. apply map_length. Qed.

Section TxnLength.
  Variable fuel : nat.
  Variable beh : oracles.

  Lemma run_list_length : forall d fs,
    (length (fst (run_list fuel beh d fs)) <= flows_bound fuel d fs)%nat.
  Proof.
    intros d fs. induction fs as [|f fs IH]; [cbn; lia|].
    cbn [run_list]. unfold flows_bound, list_sum in *. cbn [map fold_right].
    pose proof (flow_length fuel f d None (beh (fname f))) as L.
    destruct (failed (snd (exec_flow_impl fuel f d None (beh (fname f))))).
    - cbn [fst]. rewrite tag_length. lia.
    - cbn [fst]. rewrite app_length, tag_length. lia.
  Qed.

  Lemma run_users_res_length : forall sc fs,
    (length (fst (run_users_res fuel beh sc fs)) <= flows_bound fuel Res fs)%nat.
  Proof.
    intros sc fs. induction fs as [|f fs IH]; [cbn; lia|].
    cbn [run_users_res]. unfold flows_bound, list_sum in *. cbn [map fold_right].
    match goal with |- context [exec_flow_impl fuel f Res ?st _] => set (st0 := st) end.
    pose proof (flow_length fuel f Res st0 (beh (fname f))) as L.
    destruct (failed (snd (exec_flow_impl fuel f Res st0 (beh (fname f))))).
    - cbn [fst]. rewrite tag_length. lia.
    - cbn [fst]. rewrite app_length, tag_length. lia.
  Qed.

  Lemma run_users_req_length : forall fs,
    (length (fst (fst (run_users_req fuel beh fs))) <= flows_bound fuel Req fs)%nat.
  Proof.
    induction fs as [|f fs IH]; [cbn; lia|].
    cbn [run_users_req]. unfold flows_bound, list_sum in *. cbn [map fold_right].
    pose proof (flow_length fuel f Req None (beh (fname f))) as L.
    destruct (snd (exec_flow_impl fuel f Req None (beh (fname f)))).
    - destruct (run_users_req fuel beh fs) as [[t2 sc] e]. cbn [fst] in *.
      rewrite app_length, tag_length. lia.
    - cbn [fst]. rewrite tag_length. lia.
    - cbn [fst]. rewrite tag_length. lia.
    - cbn [fst]. rewrite tag_length. lia.
  Qed.

  Lemma then_length : forall r rest A B,
    (length (fst r) <= A)%nat -> (length (fst (rest tt)) <= B)%nat ->
    (length (fst (then_ r rest)) <= A + B)%nat.
  Proof.
    intros r rest A B HA HB. unfold then_. destruct (snd r).
    - lia.
    - cbn [fst]. rewrite app_length. lia.
  Qed.

  Definition res_bound (s : selection) : nat :=
    flows_bound fuel Res (s_start s) + (flows_bound fuel Res (s_user s) + flows_bound fuel Res (s_end s)).

  Definition req_bound (s : selection) (s2 : option selection) : nat :=
    flows_bound fuel Req (s_start s)
    + (flows_bound fuel Req (s_user s)
       + (flows_bound fuel Req (s_end s)
          + match s2 with Some s' => res_bound s' | None => O end)).

  Lemma run_res_length : forall s sc,
    (length (fst (run_res fuel beh s sc)) <= res_bound s)%nat.
  Proof.
    intros s sc. unfold run_res, res_bound.
    apply then_length; [rewrite <- flows_bound_rev; apply run_list_length|].
    apply then_length; [rewrite <- flows_bound_rev; apply run_users_res_length|].
    rewrite <- flows_bound_rev. apply run_list_length.
  Qed.

  Lemma run_req_length : forall s s2,
    (length (fst (run_req fuel beh s s2)) <= req_bound s s2)%nat.
  Proof.
    intros s s2. unfold run_req, req_bound.
    apply then_length; [apply run_list_length|].
    pose proof (run_users_req_length (s_user s)) as U.
    destruct (run_users_req fuel beh (s_user s)) as [[t2 sc] e2]. cbn [fst] in U.
    apply then_length; [exact U|].
    apply then_length; [apply run_list_length|].
    destruct sc as [h|]; [|cbn; lia].
    destruct s2 as [s'|]; [|cbn; lia].
    apply run_res_length.
  Qed.

  (* a transaction ends with actions (None) or with an error / fuel exhaustion *)
  Lemma run_list_failed : forall d fs o,
    snd (run_list fuel beh d fs) = Some o -> failed o = true.
  Proof.
    intros d fs o. induction fs as [|f fs IH]; cbn [run_list]; [discriminate|].
    destruct (failed (snd (exec_flow_impl fuel f d None (beh (fname f))))) eqn:E.
    - cbn [snd]. intros H. inversion H. subst. exact E.
    - exact IH.
  Qed.

  Lemma run_users_res_failed : forall sc fs o,
    snd (run_users_res fuel beh sc fs) = Some o -> failed o = true.
  Proof.
    intros sc fs o. induction fs as [|f fs IH]; cbn [run_users_res]; [discriminate|].
    match goal with |- context [exec_flow_impl fuel f Res ?st _] => set (st0 := st) end.
    destruct (failed (snd (exec_flow_impl fuel f Res st0 (beh (fname f))))) eqn:E.
    - cbn [snd]. intros H. inversion H. subst. exact E.
    - exact IH.
  Qed.

  Lemma run_users_req_failed : forall fs o,
    snd (run_users_req fuel beh fs) = Some o -> failed o = true.
  Proof.
    intros fs o. induction fs as [|f fs IH]; cbn [run_users_req]; [discriminate|].
    destruct (snd (exec_flow_impl fuel f Req None (beh (fname f)))) eqn:E.
    - destruct (run_users_req fuel beh fs) as [[t2 sc] e]. exact IH.
    - discriminate.
    - cbn [snd]. intros H. inversion H. reflexivity.
    - cbn [snd]. intros H. inversion H. reflexivity.
  Qed.

  Lemma then_failed : forall r rest o,
    (forall o', snd r = Some o' -> failed o' = true) ->
    (forall o', snd (rest tt) = Some o' -> failed o' = true) ->
    snd (then_ r rest) = Some o -> failed o = true.
  Proof.
    intros r rest o A B. unfold then_. destruct (snd r) eqn:E.
    - rewrite E. apply A.
    - cbn [snd]. apply B.
  Qed.

  Lemma run_res_failed : forall s sc o,
    snd (run_res fuel beh s sc) = Some o -> failed o = true.
  Proof.
    intros s sc o. unfold run_res.
    apply then_failed; [apply run_list_failed|]. intros o'.
    apply then_failed; [apply run_users_res_failed|apply run_list_failed].
  Qed.

  Lemma run_req_failed : forall s s2 o,
    snd (run_req fuel beh s s2) = Some o -> failed o = true.
  Proof.
    intros s s2 o. unfold run_req.
    apply then_failed; [apply run_list_failed|]. intros o'.
    pose proof (run_users_req_failed (s_user s)) as U.
    destruct (run_users_req fuel beh (s_user s)) as [[t2 sc] e2]. cbn [snd] in U.
    apply then_failed; [exact U|]. intros o''.
    apply then_failed; [apply run_list_failed|]. intros o3.
    destruct sc as [h|]; [|discriminate].
    destruct s2 as [s'|]; [|discriminate].
    apply run_res_failed.
  Qed.
End TxnLength.

(* ------------------------------------------------- the builder terminates *)

Lemma find_flow_in : forall cf n f,
  find_flow cf n = Some f -> In n (map fc_name (cf_flows cf)) /\ In f (cf_flows cf).
Proof.
  intros cf n f H. unfold find_flow in H. apply find_some in H.
  destruct H as [I E]. apply Z.eqb_eq in E. split; [|exact I].
  rewrite <- E. apply in_map. exact I.
Qed.

Lemma build_list_no_fuel : forall step cs s,
  (forall c s', step c s' <> BFuel) -> build_list step cs s <> BFuel.
Proof.
  intros step cs. induction cs as [|c cs IH]; intros s H; cbn [build_list]; [discriminate|].
  destruct (step c s) eqn:E; [apply IH; exact H|discriminate|].
  exfalso. eapply H. exact E.
Qed.

Section BuilderProofs.
  Variable cf : config.
  Variable top : Z.
  Variable d : dir.

  Lemma incorporate_no_fuel : forall rec stack name st,
    (forall cs st', ~ In name stack -> In name (map fc_name (cf_flows cf)) ->
                    rec name (name :: stack) cs st' <> BFuel) ->
    incorporate cf true d rec stack name st <> BFuel.
  Proof.
    intros rec stack name st H. unfold incorporate.
    destruct (find_flow cf name) as [f|] eqn:F; [|discriminate].
    cbn [andb]. destruct (memZ name stack) eqn:M; [discriminate|].
    apply H; [apply memZ_false; exact M|apply (find_flow_in _ _ _ F)].
  Qed.

  Lemma build_conn_no_fuel : forall rec cur stack c s,
    (forall name st, incorporate cf true d rec stack name st <> BFuel) ->
    build_conn cf true top d rec cur stack c s <> BFuel.
  Proof.
    intros rec cur stack c [b foreign] Hinc. unfold build_conn.
    repeat match goal with
           | |- context [match ?x with _ => _ end] => destruct x eqn:?
           end;
      try discriminate;
      try (exfalso; eapply Hinc; eassumption).
  Qed.

  Lemma build_conns_no_fuel : forall fuel cur stack cs s,
    NoDup stack -> incl stack (top :: map fc_name (cf_flows cf)) ->
    (S (length (cf_flows cf)) - length stack < fuel)%nat ->
    build_conns cf true top d fuel cur stack cs s <> BFuel.
  Proof.
    induction fuel as [|f IH]; intros cur stack cs s ND INC L; [lia|].
    cbn [build_conns]. apply build_list_no_fuel. intros c s'.
    apply build_conn_no_fuel. intros name st.
    apply incorporate_no_fuel. intros cs' st' NI IN.
    assert (ND' : NoDup (name :: stack)) by (constructor; assumption).
    assert (INC' : incl (name :: stack) (top :: map fc_name (cf_flows cf))).
    { intros x [E|I]; [subst; right; exact IN|apply INC; exact I]. }
    pose proof (NoDup_incl_length ND' INC') as LEN. cbn [length] in LEN.
    rewrite map_length in LEN.
    apply IH; [exact ND'|exact INC'|cbn [length]; lia].
  Qed.
End BuilderProofs.

Lemma build_flow_with_no_fuel : forall fresh cf allstarts fc,
  build_flow_with fresh cf true allstarts fc <> FFuel.
Proof.
  intros fresh cf allstarts fc. unfold build_flow_with.
  assert (B : forall d s, build_conns cf true (fc_name fc) d (build_fuel cf) (fc_name fc)
                                      [fc_name fc] (fc_conns fc d) s <> BFuel).
  { intros d s. apply build_conns_no_fuel.
    - constructor; [intros []|constructor].
    - intros x [E|[]]. subst. left. reflexivity.
    - unfold build_fuel. cbn [length]. lia. }
  pose proof (B Req (empty_bdir, None)) as BQ. cbn [fc_conns] in BQ.
  destruct (build_conns cf true (fc_name fc) Req (build_fuel cf) (fc_name fc) [fc_name fc]
                        (fc_req fc) (empty_bdir, None)) as [[bq foreign]| |]; [|discriminate|contradiction].
  pose proof (B Res (empty_bdir, if fresh then None else foreign)) as BS. cbn [fc_conns] in BS.
  destruct (build_conns cf true (fc_name fc) Res (build_fuel cf) (fc_name fc) [fc_name fc]
                        (fc_res fc) (empty_bdir, if fresh then None else foreign))
    as [[bs fo2]| |]; [|discriminate|contradiction].
  pose proof (validate_dir_no_fuel allstarts Req (to_dgraph bq)) as VQ.
  destruct (validate_dir allstarts Req (to_dgraph bq)); [|discriminate|contradiction].
  pose proof (validate_dir_no_fuel allstarts Res (to_dgraph bs)) as VS.
  destruct (validate_dir allstarts Res (to_dgraph bs)); [|discriminate|contradiction].
  destruct (nodes (to_dgraph bq)); destruct (nodes (to_dgraph bs)); discriminate.
Qed.

Lemma build_flow_no_fuel : forall cf allstarts fc, build_flow cf true allstarts fc <> FFuel.
Proof. intros. apply build_flow_with_no_fuel. Qed.

Lemma build_flow_with_ok : forall fresh cf guard fc f,
  build_flow_with fresh cf guard true fc = FOk f ->
  validate_dir true Req (freq f) = VOk /\ validate_dir true Res (fres f) = VOk
  /\ fname f = fc_name fc.
Proof.
  intros fresh cf guard fc f. unfold build_flow_with.
  destruct (build_conns cf guard (fc_name fc) Req _ _ _ _ _) as [[bq foreign]| |]; try discriminate.
  destruct (build_conns cf guard (fc_name fc) Res _ _ _ _ _) as [[bs fo2]| |]; try discriminate.
  destruct (validate_dir true Req (to_dgraph bq)) eqn:VQ; try discriminate.
  destruct (validate_dir true Res (to_dgraph bs)) eqn:VS; try discriminate.
  destruct (nodes (to_dgraph bq)); destruct (nodes (to_dgraph bs)); try discriminate;
    intros H; inversion H; subst; cbn [freq fres fname]; repeat split; assumption.
Qed.

Lemma build_flow_ok : forall cf fc f,
  build_flow cf true true fc = FOk f ->
  validate_dir true Req (freq f) = VOk /\ validate_dir true Res (fres f) = VOk
  /\ fname f = fc_name fc.
Proof. intros cf fc f. apply build_flow_with_ok. Qed.

Definition flow_valid (f : flow) : Prop :=
  validate_dir true Req (freq f) = VOk /\ validate_dir true Res (fres f) = VOk.

(* what [build_all_by] returns, in terms of the single builds *)
Lemma build_all_by_accept : forall build fcs fs,
  build_all_by build fcs = Accept fs -> Forall2 (fun fc f => build fc = FOk f) fcs fs.
Proof.
  intros build fcs. induction fcs as [|fc fcs IH]; intros fs H; cbn [build_all_by] in H.
  - inversion H. constructor.
  - destruct (build fc) as [f| |] eqn:B.
    + destruct (build_all_by build fcs) as [fs'| |] eqn:R; try discriminate.
      inversion H. subst. constructor; [exact B|apply IH; reflexivity].
    + destruct (build_all_by build fcs); discriminate.
    + discriminate.
Qed.

Lemma build_all_by_no_fuel : forall build fcs,
  (forall fc, build fc <> FFuel) -> build_all_by build fcs <> LoaderFuel.
Proof.
  intros build fcs N. induction fcs as [|fc fcs IH]; cbn [build_all_by]; [discriminate|].
  specialize (N fc).
  destruct (build fc); [| |contradiction].
  - destruct (build_all_by build fcs); [discriminate|discriminate|contradiction].
  - destruct (build_all_by build fcs); [discriminate|discriminate|contradiction].
Qed.

(* some flow fails to build, none runs out of budget: rejected at stage 3 *)
Lemma build_all_by_reject : forall build fcs fc,
  (forall fc', build fc' <> FFuel) -> In fc fcs -> build fc = FBad ->
  build_all_by build fcs = Reject 3.
Proof.
  intros build fcs fc N. induction fcs as [|x fcs IH]; intros I B; [contradiction|].
  cbn [build_all_by]. pose proof (build_all_by_no_fuel build fcs N) as NF.
  destruct I as [E|I].
  - subst x. rewrite B. destruct (build_all_by build fcs); [reflexivity|reflexivity|contradiction].
  - rewrite (IH I B). pose proof (N x) as Nx.
    destruct (build x); [reflexivity|reflexivity|contradiction].
Qed.

(* every flow builds: accepted, with the flows in configuration order *)
Lemma build_all_by_all_ok : forall build fcs,
  (forall fc, In fc fcs -> is_fbad (build fc) = false) -> (forall fc, build fc <> FFuel) ->
  exists fs, build_all_by build fcs = Accept fs.
Proof.
  intros build fcs. induction fcs as [|x fcs IH]; intros A N; cbn [build_all_by]; [eauto|].
  destruct IH as [fs E]; [intros fc I; apply A; right; exact I|exact N|].
  rewrite E. pose proof (A x (or_introl eq_refl)) as Ax. pose proof (N x) as Nx.
  destruct (build x); [eauto|discriminate|contradiction].
Qed.

Lemma filter_all : forall (A : Type) (p : A -> bool) l,
  (forall x, In x l -> p x = true) -> filter p l = l.
Proof.
  intros A p l. induction l as [|x l IH]; intros H; cbn [filter]; [reflexivity|].
  rewrite (H x) by (left; reflexivity). f_equal. apply IH. intros y I. apply H. right. exact I.
Qed.

Lemma filter_none : forall (A : Type) (p : A -> bool) l,
  (forall x, In x l -> p x = false) -> filter p l = [].
Proof.
  intros A p l. induction l as [|x l IH]; intros H; cbn [filter]; [reflexivity|].
  rewrite (H x) by (left; reflexivity). apply IH. intros y I. apply H. right. exact I.
Qed.

(* a flow's build does not depend on what was built before it, so the second
   pass of flowBuilder.build() over the flows that failed changes nothing *)
Lemma two_pass_is_single : forall build fcs,
  build_two_pass build fcs = build_all_by build fcs.
Proof.
  intros build fcs. unfold build_two_pass.
  set (ok := fun fc => negb (is_fbad (build fc))).
  set (bad := fun fc => is_fbad (build fc)).
  destruct (existsb (fun fc => match build fc with FFuel => true | _ => false end) fcs) eqn:XF.
  - (* some flow exhausts the budget (never the case: build_flow_with_no_fuel) *)
    assert (G : forall l, (exists fc, In fc l /\ build fc = FFuel) -> incl l fcs ->
                          build_all_by build l = LoaderFuel).
    { induction l as [|x l IH]; intros [fc [I B]] INC; [contradiction|]. cbn [build_all_by].
      destruct I as [E|I].
      - subst x. rewrite B. reflexivity.
      - rewrite IH; [|eauto|intros y Y; apply INC; right; exact Y].
        destruct (build x); reflexivity. }
    apply existsb_exists in XF. destruct XF as [fc [I B]].
    destruct (build fc) eqn:BF; try discriminate.
    rewrite (G (filter ok fcs)).
    + symmetry. apply G; [eauto|apply incl_refl].
    + exists fc. split; [|exact BF]. apply filter_In. split; [exact I|].
      unfold ok. rewrite BF. reflexivity.
    + intros y Y. apply filter_In in Y. apply Y.
  - assert (N : forall fc, In fc fcs -> build fc <> FFuel).
    { intros fc I E. assert (X : existsb (fun fc => match build fc with FFuel => true | _ => false end) fcs = true).
      { apply existsb_exists. exists fc. split; [exact I|]. rewrite E. reflexivity. }
      congruence. }
    clear XF.
    (* restrict [build] to fcs: outside it, FFuel cannot be excluded; work with lists *)
    assert (AOK : forall l, incl l fcs -> (forall fc, In fc l -> is_fbad (build fc) = false) ->
                            exists fs, build_all_by build l = Accept fs
                                       /\ Forall2 (fun fc f => build fc = FOk f) l fs).
    { induction l as [|x l IH]; intros INC A; cbn [build_all_by]; [exists []; split; [reflexivity|constructor]|].
      destruct IH as [fs [E F2]]; [intros y Y; apply INC; right; exact Y|intros y Y; apply A; right; exact Y|].
      rewrite E. pose proof (A x (or_introl eq_refl)) as Ax.
      pose proof (N x (INC x (or_introl eq_refl))) as Nx.
      destruct (build x) as [f| |] eqn:BX; [|discriminate|contradiction].
      exists (f :: fs). split; [reflexivity|constructor; assumption]. }
    assert (ABAD : forall l, incl l fcs -> l <> [] -> (forall fc, In fc l -> build fc = FBad) ->
                             build_all_by build l = Reject 3).
    { induction l as [|x l IH]; intros INC NE A; [contradiction|]. cbn [build_all_by].
      rewrite (A x) by (left; reflexivity).
      destruct l as [|y l']; [reflexivity|].
      rewrite IH; [reflexivity|intros z Z; apply INC; right; exact Z|discriminate|
                   intros z Z; apply A; right; exact Z]. }
    assert (AMIX : forall l, incl l fcs -> (exists fc, In fc l /\ build fc = FBad) ->
                             build_all_by build l = Reject 3).
    { induction l as [|x l IH]; intros INC [fc [I B]]; [contradiction|]. cbn [build_all_by].
      assert (NFl : build_all_by build l <> LoaderFuel).
      { clear IH I. assert (INCl : incl l fcs) by (intros z Z; apply INC; right; exact Z).
        clear INC. induction l as [|y l IHl]; cbn [build_all_by]; [discriminate|].
        pose proof (N y (INCl y (or_introl eq_refl))) as Ny.
        assert (IHl' : build_all_by build l <> LoaderFuel)
          by (apply IHl; intros z Z; apply INCl; right; exact Z).
        destruct (build y); [| |contradiction];
          destruct (build_all_by build l); try discriminate; contradiction. }
      destruct I as [E|I].
      - subst x. rewrite B. destruct (build_all_by build l); [reflexivity|reflexivity|contradiction].
      - rewrite IH; [|intros z Z; apply INC; right; exact Z|eauto].
        pose proof (N x (INC x (or_introl eq_refl))) as Nx.
        destruct (build x); [reflexivity|reflexivity|contradiction]. }
    destruct (existsb bad fcs) eqn:XB.
    + (* something is pending: the second pass fails on it again *)
      apply existsb_exists in XB. destruct XB as [fc [I B]].
      assert (BF : build fc = FBad) by (unfold bad, is_fbad in B; destruct (build fc); congruence).
      rewrite (AMIX fcs (incl_refl _)) by eauto.
      destruct (AOK (filter ok fcs)) as [fs [E _]].
      { intros y Y. apply filter_In in Y. apply Y. }
      { intros y Y. apply filter_In in Y. destruct Y as [_ Y]. unfold ok in Y.
        destruct (is_fbad (build y)); [discriminate|reflexivity]. }
      rewrite E. rewrite ABAD; [reflexivity| | |].
      * intros y Y. apply filter_In in Y. apply Y.
      * intros X. assert (Y : In fc (filter bad fcs)) by (apply filter_In; split; assumption).
        rewrite X in Y. contradiction.
      * intros y Y. apply filter_In in Y. destruct Y as [_ Y]. unfold bad, is_fbad in Y.
        destruct (build y); congruence.
    + (* nothing is pending *)
      assert (NB : forall fc, In fc fcs -> is_fbad (build fc) = false).
      { intros fc I. destruct (is_fbad (build fc)) eqn:E; [|reflexivity].
        assert (X : existsb bad fcs = true) by (apply existsb_exists; exists fc; split; assumption).
        congruence. }
      rewrite (filter_all _ ok fcs) by (intros x I; unfold ok; rewrite (NB x I); reflexivity).
      rewrite (filter_none _ bad fcs) by (intros x I; apply NB; exact I).
      destruct (AOK fcs (incl_refl _) NB) as [fs [E _]]. rewrite E. cbn [build_all_by].
      rewrite app_nil_r. reflexivity.
Qed.

Lemma built_valid : forall cf fcs fs,
  Forall2 (fun fc f => build_flow cf true true fc = FOk f) fcs fs -> Forall flow_valid fs.
Proof.
  intros cf fcs fs H.
  induction H as [|fc f fcs fs B _ IH]; constructor; [|exact IH].
  destruct (build_flow_ok _ _ _ B) as [A [C _]]. split; assumption.
Qed.

Lemma build_all_ok : forall cf fcs fs,
  build_all cf true true fcs = Accept fs -> Forall flow_valid fs.
Proof.
  intros cf fcs fs H. apply build_all_by_accept in H. eapply built_valid. exact H.
Qed.

Lemma build_all_no_fuel : forall cf allstarts fcs, build_all cf true allstarts fcs <> LoaderFuel.
Proof.
  intros cf allstarts fcs. apply build_all_by_no_fuel. intros fc. apply build_flow_no_fuel.
Qed.

Lemma load_gen_no_fuel : forall fresh cf allstarts, load_gen fresh true allstarts cf <> LoaderFuel.
Proof.
  intros fresh cf allstarts. unfold load_gen.
  destruct (negb (struct_ok cf)); [discriminate|].
  destruct (negb (procs_ok cf)); [discriminate|].
  apply build_all_by_no_fuel. intros fc. apply build_flow_with_no_fuel.
Qed.

Lemma load_no_fuel : forall cf allstarts, load_with true allstarts cf <> LoaderFuel.
Proof. intros. apply load_gen_no_fuel. Qed.

Lemma load_accept_built : forall cf fs,
  load cf = Accept fs ->
  struct_ok cf = true /\ procs_ok cf = true
  /\ Forall2 (fun fc f => build_flow cf true true fc = FOk f) (cf_flows cf) fs.
Proof.
  intros cf fs. unfold load, load_with, load_gen.
  destruct (struct_ok cf); [|discriminate].
  destruct (procs_ok cf); [|discriminate]. cbn [negb].
  intros H. repeat split. apply build_all_by_accept in H. exact H.
Qed.

Lemma load_accept_valid : forall cf fs, load cf = Accept fs -> Forall flow_valid fs.
Proof.
  intros cf fs H. destruct (load_accept_built cf fs H) as [_ [_ F2]].
  eapply built_valid. exact F2.
Qed.

(* ---------------------------------------------------- the whole transaction *)

Lemma exec_fuel_ge : forall fs f,
  In f fs -> (exec_fuel_of (freq f) <= exec_fuel fs)%nat /\ (exec_fuel_of (fres f) <= exec_fuel fs)%nat.
Proof.
  intros fs f. induction fs as [|g fs IH]; intros I; [contradiction|].
  cbn [exec_fuel fold_right]. fold (exec_fuel fs). destruct I as [E|I].
  - subst. lia.
  - specialize (IH I). lia.
Qed.

Lemma valid_flows_ok : forall fs,
  Forall flow_valid fs -> Forall (flow_ok (exec_fuel fs)) fs.
Proof.
  intros fs H. rewrite Forall_forall in *. intros f I.
  destruct (H f I) as [A B]. destruct (exec_fuel_ge fs f I) as [LA LB].
  split; eapply validate_dir_ok; eauto.
Qed.

(* the selected flows are among the loaded ones *)
Definition sel_from (fs : list flow) (s : selection) : Prop :=
  incl (s_start s) fs /\ incl (s_user s) fs /\ incl (s_end s) fs.

Lemma sel_from_ok : forall fs fuel s,
  Forall (flow_ok fuel) fs -> sel_from fs s -> sel_ok fuel s.
Proof.
  intros fs fuel s H [A [B C]]. rewrite Forall_forall in H.
  repeat split; apply Forall_forall; intros f I; apply H; [apply A|apply B|apply C]; exact I.
Qed.

(* --------------------------------- the detector raises no false alarm on DAGs *)

Lemma dfs_edges_no_cycle : forall rec es,
  (forall c t, In (c, Some t) es -> rec t c <> DCycle) -> dfs_edges rec es <> DCycle.
Proof.
  intros rec es. induction es as [|[c [t|]] es IH]; intros H; cbn [dfs_edges].
  - discriminate.
  - destruct (rec t c) eqn:R.
    + apply IH. intros c' t' I. apply H. right. exact I.
    + exfalso. apply (H c t); [left; reflexivity|exact R].
    + discriminate.
  - apply IH. intros c' t' I. apply H. right. exact I.
Qed.

(* on a ranked graph every processor on the current path has a larger rank than
   the one being visited, so no (condition, processor) pair can repeat *)
Lemma dfs_no_cycle : forall g rk, ranked g rk ->
  forall fuel vis k c,
  (forall p, In p vis -> (rk k < rk (snd p))%nat) ->
  dfs g fuel vis k c <> DCycle.
Proof.
  intros g rk R. induction fuel as [|f IH]; intros vis k c INV; [discriminate|].
  cbn [dfs]. destruct (visited vis (norm c, k)) eqn:V.
  - apply visited_true in V. specialize (INV _ V). cbn [snd] in INV. lia.
  - apply dfs_edges_no_cycle. intros c' t I. apply IH.
    intros p [E|P].
    + subst p. cbn [snd]. exact (R _ _ _ I).
    + specialize (INV _ P). specialize (R _ _ _ I). lia.
Qed.

Lemma dfs_nodes_no_cycle : forall g rk fuel ns,
  ranked g rk -> dfs_nodes g fuel ns <> DCycle.
Proof.
  intros g rk fuel ns R. induction ns as [|n ns IH]; cbn [dfs_nodes]; [discriminate|].
  assert (N : dfs_from g fuel (snd n) <> DCycle).
  { unfold dfs_from. apply dfs_edges_no_cycle. intros c t _.
    eapply dfs_no_cycle; [exact R|]. intros p []. }
  destruct (dfs_from g fuel (snd n)); [exact IH|contradiction|discriminate].
Qed.

Lemma detect_complete : forall g rk d,
  ranked g rk -> detect true (detect_fuel g) d g = DOk.
Proof.
  intros g rk d R.
  pose proof (detect_no_fuel true d g) as NF.
  assert (NC : detect true (detect_fuel g) d g <> DCycle).
  { unfold detect. eapply dfs_nodes_no_cycle. exact R. }
  destruct (detect true (detect_fuel g) d g); [reflexivity|contradiction|contradiction].
Qed.

(* ------------------------------------- a flow that refers to itself is rejected *)

Lemma build_list_err_at : forall step pre c post s,
  (forall s', step c s' = BErr) ->
  (forall c' s', step c' s' <> BFuel) ->
  build_list step (pre ++ c :: post) s = BErr.
Proof.
  intros step pre c post s E NF. revert s.
  induction pre as [|p pre IH]; intros s; cbn [app build_list].
  - rewrite E. reflexivity.
  - destruct (step p s) eqn:S; [apply IH|reflexivity|].
    exfalso. eapply NF. exact S.
Qed.

(* a connection `processor -> flow X at start` *)
Definition refers_to (c : conn) (x : Z) : Prop :=
  (exists r, ep_proc (c_from c) = Some r) /\ ep_proc (c_to c) = None
  /\ ep_stream (c_to c) = None /\ ep_flow (c_to c) = Some (x, 0).

Lemma self_reference_err : forall cf top d rec cur stack c s,
  refers_to c top -> In top stack -> (exists f, find_flow cf top = Some f) ->
  build_conn cf true top d rec cur stack c s = BErr.
Proof.
  intros cf top d rec cur stack c [b foreign] [[r FR] [TP [TS TF]]] IN [f FF].
  unfold build_conn. rewrite FR, TP, TS, TF.
  destruct (negb (from_cond_ok cf d cur r)); [reflexivity|].
  cbn iota. change (0 =? 0) with true. cbn iota.
  destruct (get_or_create cf cur r b) as [[b1 src]|]; [|reflexivity].
  unfold incorporate. rewrite FF.
  assert (M : memZ top stack = true) by (apply memZ_true; exact IN).
  rewrite M. reflexivity.
Qed.

Lemma build_conns_S : forall cf guard top d f cur stack cs s,
  build_conns cf guard top d (S f) cur stack cs s
  = build_list (build_conn cf guard top d (build_conns cf guard top d f) cur stack) cs s.
Proof. reflexivity. Qed.

Lemma self_reference_rejected_with : forall fresh cf allstarts fc pre c post,
  In fc (cf_flows cf) ->
  fc_req fc = pre ++ c :: post -> refers_to c (fc_name fc) ->
  build_flow_with fresh cf true allstarts fc = FBad.
Proof.
  intros fresh cf allstarts fc pre c post IN E R. unfold build_flow_with.
  assert (FF : exists f, find_flow cf (fc_name fc) = Some f).
  { unfold find_flow.
    destruct (find (fun f => fc_name f =? fc_name fc) (cf_flows cf)) as [f|] eqn:F; [eauto|].
    exfalso. pose proof (find_none _ _ F _ IN) as N. cbn in N. rewrite Z.eqb_refl in N. discriminate. }
  assert (B : build_conns cf true (fc_name fc) Req (build_fuel cf) (fc_name fc) [fc_name fc]
                          (fc_req fc) (empty_bdir, None) = BErr).
  { unfold build_fuel. rewrite build_conns_S, E. apply build_list_err_at.
    - intros s'. apply self_reference_err; [exact R|left; reflexivity|exact FF].
    - intros c' s'. apply build_conn_no_fuel. intros name st.
      apply incorporate_no_fuel. intros cs' st' NI INn.
      apply build_conns_no_fuel.
      + constructor; [exact NI|constructor; [intros []|constructor]].
      + intros x [X|[X|[]]]; subst; [right; exact INn|left; reflexivity].
      + cbn [length]. lia. }
  rewrite B. reflexivity.
Qed.

Lemma self_reference_rejected : forall cf allstarts fc pre c post,
  In fc (cf_flows cf) ->
  fc_req fc = pre ++ c :: post -> refers_to c (fc_name fc) ->
  build_flow cf true allstarts fc = FBad.
Proof. intros cf allstarts. apply self_reference_rejected_with. Qed.

(* ------------------------------------ every flow-reference cycle is rejected *)

(* a connection that makes the builder incorporate flow x:
   `processor -> flow x at start`  or  `from flow x at end -> processor` *)
Definition refers (c : conn) (x : Z) : Prop :=
  refers_to c x
  \/ ((exists tr, ep_proc (c_to c) = Some tr) /\ ep_proc (c_from c) = None
      /\ ep_stream (c_from c) = None /\ ep_flow (c_from c) = Some (x, 1)).

(* flow a reaches flow b through references written in direction d *)
Inductive ref_path (cf : config) (d : dir) : Z -> Z -> Prop :=
| rp_last : forall a b fa pre c post,
    find_flow cf a = Some fa -> fc_conns fa d = pre ++ c :: post -> refers c b ->
    ref_path cf d a b
| rp_step : forall a m b fa pre c post,
    find_flow cf a = Some fa -> fc_conns fa d = pre ++ c :: post -> refers c m ->
    ref_path cf d m b -> ref_path cf d a b.

Definition is_ok (r : bres) : bool := match r with BOk _ => true | _ => false end.

Lemma build_list_not_ok_at : forall step pre c post s,
  (forall s', is_ok (step c s') = false) ->
  is_ok (build_list step (pre ++ c :: post) s) = false.
Proof.
  intros step pre c post s E. revert s.
  induction pre as [|p pre IH]; intros s; cbn [app build_list].
  - specialize (E s). destruct (step c s); [discriminate|reflexivity|reflexivity].
  - destruct (step p s); [apply IH|reflexivity|reflexivity].
Qed.

(* a connection that refers to flow x succeeds only if incorporating x does *)
Lemma refers_conn_not_ok : forall cf top d rec cur stack c x s,
  refers c x ->
  (forall st, is_ok (incorporate cf true d rec stack x st) = false) ->
  is_ok (build_conn cf true top d rec cur stack c s) = false.
Proof.
  intros cf top d rec cur stack c x [b foreign] R H. unfold build_conn.
  destruct R as [[[r FR] [TP [TS TF]]]|[[tr TP] [FP [FS FF]]]].
  - rewrite FR, TP, TS, TF.
    destruct (negb (from_cond_ok cf d cur r)); [reflexivity|].
    cbn iota. change (0 =? 0) with true. cbn iota.
    destruct (get_or_create cf cur r b) as [[b1 src]|]; [|reflexivity].
    specialize (H (b1, foreign)).
    destruct (incorporate cf true d rec stack x (b1, foreign)) as [[b2 [fk|]]| |];
      [discriminate|reflexivity|reflexivity|reflexivity].
  - rewrite TP, FP, FS, FF. cbn iota. change (1 =? 1) with true. cbn iota.
    destruct (get_or_create cf cur tr b) as [[b1 tgt]|]; [|reflexivity].
    specialize (H (set_root b1 (bn_key tgt), foreign)).
    destruct (incorporate cf true d rec stack x (set_root b1 (bn_key tgt), foreign)) as [[b2 [fk|]]| |];
      [discriminate|reflexivity|reflexivity|reflexivity].
Qed.

Lemma ref_path_not_ok : forall cf top d a,
  ref_path cf d a top ->
  forall fuel cur stack s fa, In top stack -> find_flow cf a = Some fa ->
  is_ok (build_conns cf true top d fuel cur stack (fc_conns fa d) s) = false.
Proof.
  intros cf top d a P.
  induction P as [a b fa pre c post FA E R|a m b fa pre c post FA E R P IH];
    intros fuel cur stack s fa' IN FA'; rewrite FA' in FA; inversion FA; subst fa';
    (destruct fuel as [|f]; [reflexivity|]); rewrite build_conns_S, E;
    apply build_list_not_ok_at; intros s'.
  - (* the reference goes straight back to a flow in the chain *)
    eapply refers_conn_not_ok; [exact R|]. intros st. unfold incorporate.
    destruct (find_flow cf b); [|reflexivity].
    assert (M : memZ b stack = true) by (apply memZ_true; exact IN).
    rewrite M. reflexivity.
  - eapply refers_conn_not_ok; [exact R|]. intros st. unfold incorporate.
    destruct (find_flow cf m) as [fm|] eqn:FM; [|reflexivity].
    cbn [andb]. destruct (memZ m stack); [reflexivity|].
    apply IH; [right; exact IN|reflexivity].
Qed.

Lemma reference_cycle_rejected_with : forall fresh cf allstarts fc d,
  find_flow cf (fc_name fc) = Some fc ->
  ref_path cf d (fc_name fc) (fc_name fc) ->
  build_flow_with fresh cf true allstarts fc = FBad.
Proof.
  intros fresh cf allstarts fc d FF P.
  pose proof (build_flow_with_no_fuel fresh cf allstarts fc) as NF.
  assert (NOK : forall s, is_ok (build_conns cf true (fc_name fc) d (build_fuel cf) (fc_name fc)
                                           [fc_name fc] (fc_conns fc d) s) = false).
  { intros s. eapply ref_path_not_ok; [exact P|left; reflexivity|exact FF]. }
  unfold build_flow_with in *.
  destruct (build_conns cf true (fc_name fc) Req (build_fuel cf) (fc_name fc) [fc_name fc]
                        (fc_req fc) (empty_bdir, None)) as [[bq foreign]| |] eqn:BQ;
    [|reflexivity|contradiction].
  destruct d.
  { specialize (NOK (empty_bdir, None)). cbn [fc_conns] in NOK. rewrite BQ in NOK. discriminate. }
  destruct (build_conns cf true (fc_name fc) Res (build_fuel cf) (fc_name fc) [fc_name fc]
                        (fc_res fc) (empty_bdir, if fresh then None else foreign)) as [[bs fo2]| |] eqn:BS;
    [|reflexivity|contradiction].
  specialize (NOK (empty_bdir, if fresh then None else foreign)). cbn [fc_conns] in NOK.
  rewrite BS in NOK. discriminate.
Qed.

Lemma reference_cycle_rejected : forall cf allstarts fc d,
  find_flow cf (fc_name fc) = Some fc ->
  ref_path cf d (fc_name fc) (fc_name fc) ->
  build_flow cf true allstarts fc = FBad.
Proof. intros cf allstarts. apply reference_cycle_rejected_with. Qed.

(* ------------------------------------------------ statements as used in Property.v *)

Lemma validated_is_ranked : forall d g,
  validate d g = true ->
  ranked g (rank_of g) /\ forall k, (rank_of g k < exec_fuel_of g)%nat.
Proof.
  intros d g H. unfold validate in H.
  destruct (validate_dir true d g) eqn:V; try discriminate.
  split; [apply all_starts_ranked; eapply validate_dir_all_starts; exact V|apply rank_below_fuel].
Qed.

Lemma detector_sound : forall d g,
  validate d g = true ->
  forall gr d' beh fuel k, (exec_fuel_of g <= fuel)%nat ->
    snd (exec_impl g gr d' beh fuel k) <> OutOfFuel
    /\ (length (fst (exec_impl g gr d' beh fuel k)) <= Nat.pow (S (maxdeg g)) fuel)%nat
    /\ exec_impl g gr d' beh fuel k = exec_impl g gr d' beh (exec_fuel_of g) k.
Proof.
  intros d g H gr d' beh fuel k L.
  destruct (validated_is_ranked d g H) as [R B]. specialize (B k).
  split; [eapply ranked_not_stuck; [exact R|lia]|].
  split; [apply exec_length|].
  eapply ranked_fuel_irrelevant; [exact R|lia|lia].
Qed.

Lemma flow_safe : forall f fuel,
  validate Req (freq f) = true -> validate Res (fres f) = true ->
  (exec_fuel_of (freq f) <= fuel)%nat -> (exec_fuel_of (fres f) <= fuel)%nat ->
  forall d start beh,
    snd (exec_flow_impl fuel f d start beh) <> OutOfFuel
    /\ (length (fst (exec_flow_impl fuel f d start beh)) <= dir_bound fuel (gdir f d))%nat.
Proof.
  intros f fuel VQ VS LQ LS d start beh. split; [|apply flow_length].
  apply flow_not_stuck. unfold validate in *.
  destruct (validate_dir true Req (freq f)) eqn:A; try discriminate.
  destruct (validate_dir true Res (fres f)) eqn:B; try discriminate.
  split; eapply validate_dir_ok; eauto.
Qed.

Lemma transaction_safe : forall cf fs beh s s2,
  load cf = Accept fs ->
  sel_from fs s -> (forall s', s2 = Some s' -> sel_from fs s') ->
  let fuel := exec_fuel fs in
  (snd (run_req fuel beh s s2) = None \/ exists k, snd (run_req fuel beh s s2) = Some (NoRespNode k))
  /\ (length (fst (run_req fuel beh s s2)) <= req_bound fuel s s2)%nat
  /\ forall sc,
       (snd (run_res fuel beh s sc) = None \/ exists k, snd (run_res fuel beh s sc) = Some (NoRespNode k))
       /\ (length (fst (run_res fuel beh s sc)) <= res_bound fuel s)%nat.
Proof.
  intros cf fs beh s s2 L S S2 fuel.
  pose proof (valid_flows_ok fs (load_accept_valid cf fs L)) as OK.
  assert (SO : sel_ok fuel s) by (eapply sel_from_ok; eauto).
  assert (SO2 : forall s', s2 = Some s' -> sel_ok fuel s').
  { intros s' E. eapply sel_from_ok; eauto. }
  pose proof (run_req_not_stuck fuel beh s s2 SO SO2) as NQ.
  assert (OUT : forall r : list event * option outcome,
            (forall o, snd r = Some o -> failed o = true) -> snd r <> Some OutOfFuel ->
            snd r = None \/ exists k, snd r = Some (NoRespNode k)).
  { intros r F N. destruct (snd r) as [o|] eqn:E; [|left; reflexivity].
    specialize (F o eq_refl). destruct o; try discriminate; [right; eauto|contradiction]. }
  split; [apply OUT; [apply run_req_failed|exact NQ]|].
  split; [apply run_req_length|].
  intros sc. split; [apply OUT; [apply run_res_failed|apply run_res_not_stuck; exact SO]|apply run_res_length].
Qed.
