(* C05 — proofs about the header block of a transaction (Headers.v). *)
From Coq Require Import List ZArith Bool.
From Verif Require Import C05.Headers.
Import ListNotations.
Open Scope Z_scope.

Lemma step_op_map : forall m o, exists m', step_op (HMap m) o = HDone (HMap m').
Proof.
  intros m o. destruct o; cbn [step_op]; eexists; reflexivity.
Qed.

Lemma run_ops_map : forall ops m, exists m', run_ops (HMap m) ops = HDone (HMap m').
Proof.
  induction ops as [|o r IH]; intros m.
  - exists m. reflexivity.
  - cbn [run_ops]. destruct (step_op_map m o) as [m' Hs]. rewrite Hs. apply IH.
Qed.

Lemma parse_headers_code_is_map :
  forall parser b, exists m, parse_headers parser false b = HMap m.
Proof.
  intros parser b. unfold parse_headers.
  destruct (read_block parser b) as [m|]; eexists; reflexivity.
Qed.

Lemma txn_headers_code_never_panics :
  forall parser b ops, txn_headers parser false b ops <> HPanic.
Proof.
  intros parser b ops. unfold txn_headers.
  destruct (parse_headers_code_is_map parser b) as [m Hm]. rewrite Hm.
  destruct (run_ops_map ops m) as [m' Hr]. rewrite Hr. discriminate.
Qed.

Lemma refused_block_is_empty_map :
  forall parser b, scan_block b = BRefused -> parse_headers parser false b = HMap [].
Proof.
  intros parser b Hs. unfold parse_headers, read_block. rewrite Hs. reflexivity.
Qed.

Lemma refused_block_is_nil_map_seeded :
  forall parser b, scan_block b = BRefused -> parse_headers parser true b = HNil.
Proof.
  intros parser b Hs. unfold parse_headers, read_block. rewrite Hs. reflexivity.
Qed.

(* the nil map: everything but an assignment leaves it nil; the first assignment panics *)
Lemma run_ops_nil : forall ops,
  run_ops HNil ops = HPanic <-> existsb is_set ops = true.
Proof.
  induction ops as [|o r IH].
  - cbn. split; discriminate.
  - cbn [run_ops existsb]. destruct o; cbn [step_op is_set orb]; try exact IH.
    split; reflexivity.
Qed.

Lemma run_ops_nil_done : forall ops,
  existsb is_set ops = false -> run_ops HNil ops = HDone HNil.
Proof.
  induction ops as [|o r IH]; intros H.
  - reflexivity.
  - cbn [existsb] in H. apply orb_false_iff in H. destruct H as [Ho Hr].
    cbn [run_ops]. destruct o; cbn [step_op]; try (apply IH; exact Hr). discriminate Ho.
Qed.

Lemma txn_headers_seeded_exact :
  forall parser b ops,
    txn_headers parser true b ops = HPanic <->
    (read_block parser b = None /\ existsb is_set ops = true).
Proof.
  intros parser b ops. unfold txn_headers, parse_headers.
  destruct (read_block parser b) as [m|].
  - destruct (run_ops_map ops m) as [m' Hr]. rewrite Hr. split.
    + discriminate.
    + intros [H _]. discriminate H.
  - rewrite run_ops_nil. split.
    + intros H. split; [reflexivity | exact H].
    + intros [_ H]. exact H.
Qed.

Lemma variants_agree_on_readable :
  forall parser b m ops, read_block parser b = Some m ->
    txn_headers parser true b ops = txn_headers parser false b ops.
Proof.
  intros parser b m ops H. unfold txn_headers, parse_headers. rewrite H. reflexivity.
Qed.
