(* C05 — the header block of a transaction: final statements (definitions: Headers.v,
   proofs: HeadersProofs.v).  Part of "handling any transaction - including malformed
   headers - never panics": whatever block the proxy hands over, whatever the reader
   (textproto.ReadMIMEHeader) makes of it, and whatever sequence of look-ups, deletes
   and ASSIGNMENTS the processors and action transformers of the transaction perform on
   the header map, no operation panics - because a block that cannot be read gives the
   empty ALLOCATED map.  The seeded variant (nil map) is refuted. *)
From Coq Require Import List ZArith Bool.
From Verif Require Import C05.Headers C05.HeadersProofs.
Import ListNotations.
Open Scope Z_scope.

(* every reader, every block, every sequence of operations *)
Theorem C05_header_ops_never_panic :
  forall (parser : bytes -> option (list (bytes * bytes))) (b : bytes) (ops : list hop),
    txn_headers parser false b ops <> HPanic.
Proof. exact txn_headers_code_never_panics. Qed.
Print Assumptions C05_header_ops_never_panic.

(* a block the scanner calls refused is the empty map, whatever the reader is *)
Theorem C05_unparsable_block_is_empty_map :
  forall parser b, scan_block b = BRefused -> parse_headers parser false b = HMap [].
Proof. exact refused_block_is_empty_map. Qed.
Print Assumptions C05_unparsable_block_is_empty_map.

(* the hypothesis is satisfiable, the scanner says what the notes say, and a transaction
   that assigns (TransformAPICall's set, then SetBody's content-length) after look-ups
   and a delete ends with the two entries *)
Example C05_scan_block_examples :
  (* "Accept: */*\nthis line has no colon\n": the reader's business *)
  scan_block [65;99;99;101;112;116;58;32;42;47;42;10;116;104;105;115;10] = BUnknown /\
  (* " leading-space: x\n" *)
  scan_block [32;108;101;97;100;58;32;120;10] = BRefused /\
  (* "\tX: 1" *)
  scan_block [9;88;58;32;49] = BRefused /\
  (* "garbage" and "garbage\r\nX: 1\n" *)
  scan_block [103;97;114;98;97;103;101] = BRefused /\
  scan_block [103;97;114;98;97;103;101;13;10;88;58;32;49;10] = BRefused /\
  (* "", "\n", "\r\n", "X: 1\n" are not claimed *)
  scan_block [] = BUnknown /\ scan_block [10] = BUnknown /\ scan_block [13;10] = BUnknown /\
  scan_block [88;58;32;49;10] = BUnknown /\
  txn_headers (fun _ => None) false [103;97;114;98;97;103;101]
    [HGet [120]; HLen; HDelete [120]; HSet [120] [49]; HRange; HSet [99;108] [53]]
  = HDone (HMap [([99;108], [53]); ([120], [49])]).
Proof. vm_compute. repeat split. Qed.

(* seeded C05-12: with the nil map on the error path the statement is false *)
Definition C05_nil_headers_full : Prop :=
  forall (parser : bytes -> option (list (bytes * bytes))) (b : bytes) (ops : list hop),
    txn_headers parser true b ops <> HPanic.

Theorem C05_nil_headers_full_refuted : ~ C05_nil_headers_full.
Proof.
  intros H. apply (H (fun _ => None) [103;97;114;98;97;103;101] [HSet [120] [49]]).
  vm_compute. reflexivity.
Qed.
Print Assumptions C05_nil_headers_full_refuted.

(* ... and exactly where: the block is refused AND some operation assigns.  Reading
   processors (filters, limiter, quota, cache keys), len, range and delete never show
   the difference, nor does any readable block. *)
Theorem C05_nil_headers_panics_exactly :
  forall parser b ops,
    txn_headers parser true b ops = HPanic <->
    (read_block parser b = None /\ existsb is_set ops = true).
Proof. exact txn_headers_seeded_exact. Qed.
Print Assumptions C05_nil_headers_panics_exactly.

Theorem C05_header_variants_agree_on_readable_blocks :
  forall parser b m ops, read_block parser b = Some m ->
    txn_headers parser true b ops = txn_headers parser false b ops.
Proof. exact variants_agree_on_readable. Qed.
Print Assumptions C05_header_variants_agree_on_readable_blocks.
