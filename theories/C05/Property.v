(* C05 — Every configuration the loader accepts runs safely on all traffic.
   Final statements only.  Definitions: Model.v (the loader as coded, with the
   repairs fix-F-C05a / fix-F-C05b / fix-F-C05l as switches), C04/Model.v (the
   executor) and History.v (the executor with history-dependent processors);
   proofs: Proofs.v, Proofs2.v, HistoryProofs.v; concrete witnesses: Witness.v.

   Scope.  The statements are about graph shape and termination: which
   configurations [load] accepts, that everything it accepts is executed by
   C04's executor - for EVERY behaviour of the processors - within an explicit
   bound and ends with actions or an error, and that the loader itself (builder
   with flow references, cycle detector) always terminates within an explicit
   budget.  What a processor does inside Execute on malformed bodies, headers
   and URLs is NOT in the model: that part of "never panics" is tested by the
   harness' malformed-traffic stream only (C05 is partial there).

   Fuel.  Builder, detector and executor are structurally recursive on a
   budget; exhausting it is a distinguished result (BFuel / DFuel / VFuel /
   LoaderFuel / OutOfFuel).  The theorems prove those results unreachable with
   the budgets the model itself uses (explicit functions of the configuration);
   nothing is true "because the fuel ran out". *)
From Coq Require Import List ZArith Bool Lia.
From Verif Require Import C04.Model C04.Spec C04.Proofs C04.Property.
From Verif Require Import C05.Model C05.Proofs C05.Proofs2 C05.History C05.HistoryProofs C05.Witness.
From Verif Require Import C05.Decode C05.DecodeProofs.
Import ListNotations.
Open Scope Z_scope.

(* ---- (c) the cycle detector terminates ------------------------------------- *)

(* On every graph - cyclic or not, any start set - the search as coded finishes
   within [detect_fuel g] = (number of connections to processors) + 2 nested
   calls: its path of (condition, processor) pairs is duplicate-free
   (pigeonhole).  Holds for the repaired and for the pinned start set. *)
Theorem C05_detector_terminates : forall allstarts d g,
  detect allstarts (detect_fuel g) d g <> DFuel
  /\ validate_dir allstarts d g <> VFuel.
Proof.
  intros. split; [apply detect_no_fuel|apply validate_dir_no_fuel].
Qed.
Print Assumptions C05_detector_terminates.

(* ---- (a) the detector is sound (and exact) ---------------------------------- *)

(* A direction the validator accepts is acyclic in C04's sense: [rank_of g]
   (depth below a processor) decreases along EVERY connection of EVERY
   processor, reachable from the entry point or not, and stays below
   [exec_fuel_of g] = detect_fuel g + 3. *)
Theorem C05_validated_is_ranked : forall d g,
  validate d g = true ->
  ranked g (rank_of g) /\ forall k, (rank_of g k < exec_fuel_of g)%nat.
Proof. exact validated_is_ranked. Qed.
Print Assumptions C05_validated_is_ranked.

(* Hence: from ANY start processor (the entry point, or any target of a
   hand-over continuation), for EVERY behaviour of the processors, in either
   role, the walk of stream.ExecuteFlow ends without exhausting a budget of
   [exec_fuel_of g] or more, executes at most (1 + max out-degree)^budget
   processors, and its result does not depend on the budget. *)
Theorem C05_detector_sound : forall d g,
  validate d g = true ->
  forall gr d' beh fuel k, (exec_fuel_of g <= fuel)%nat ->
    snd (exec_impl g gr d' beh fuel k) <> OutOfFuel
    /\ (length (fst (exec_impl g gr d' beh fuel k)) <= Nat.pow (S (maxdeg g)) fuel)%nat
    /\ exec_impl g gr d' beh fuel k = exec_impl g gr d' beh (exec_fuel_of g) k.
Proof. exact detector_sound. Qed.
Print Assumptions C05_detector_sound.

(* No false alarm: a direction that is acyclic is never reported as circular. *)
Theorem C05_detector_complete : forall g rk d,
  ranked g rk -> detect true (detect_fuel g) d g = DOk.
Proof. exact detect_complete. Qed.
Print Assumptions C05_detector_complete.

(* One direction of a validated flow, from the entry point or after a hand-over
   from ANY processor h: terminates, within [dir_bound] executions. *)
Theorem C05_flow_safe : forall f fuel,
  validate Req (freq f) = true -> validate Res (fres f) = true ->
  (exec_fuel_of (freq f) <= fuel)%nat -> (exec_fuel_of (fres f) <= fuel)%nat ->
  forall d start beh,
    snd (exec_flow_impl fuel f d start beh) <> OutOfFuel
    /\ (length (fst (exec_flow_impl fuel f d start beh)) <= dir_bound fuel (gdir f d))%nat.
Proof. exact flow_safe. Qed.
Print Assumptions C05_flow_safe.

(* ---- (d) the builder terminates; reference cycles ---------------------------- *)

(* The whole loader (structural checks, processor creation, builder with flow
   references, graph validation) never exhausts its budgets - build_fuel =
   number of flows + 2 nested incorporations, detect_fuel per direction - on ANY
   configuration, with or without reference cycles: the chain of flows being
   incorporated is duplicate-free. *)
Theorem C05_loader_terminates : forall cf allstarts,
  load_with true allstarts cf <> LoaderFuel.
Proof. exact load_no_fuel. Qed.
Print Assumptions C05_loader_terminates.

(* the same with or without fix-F-C05l *)
Theorem C05_loader_terminates_either : forall fresh cf allstarts,
  load_gen fresh true allstarts cf <> LoaderFuel.
Proof. exact load_gen_no_fuel. Qed.
Print Assumptions C05_loader_terminates_either.

(* flowBuilder.build() tries the flows that failed a second time.  Building a
   flow being a function of the configuration alone (clean builder state: the
   chain of flows in progress is reset per flow, the foreign root per direction
   - fix-F-C05l), the second pass finds what the first found: the two-pass
   procedure as coded and the single pass [build_all] give the same verdict
   (and the same flows), for any way of building one flow.
   Audit 2: the statement is INDEPENDENT of [build] - it holds for any function
   whatever, so it says nothing about flowBuilder's code: its content is the
   purity premise itself (building a flow is a function of the configuration,
   props `trusted` / `assumptions`), under which a retry cannot help.  No suite
   evaluates [build_two_pass]. *)
Theorem C05_retry_pass_irrelevant : forall build fcs,
  build_two_pass build fcs = build_all_by build fcs.
Proof. exact two_pass_is_single. Qed.
Print Assumptions C05_retry_pass_irrelevant.

(* A flow one of whose request connections is `processor -> flow <itself> at
   start` is rejected (whatever else the configuration contains). *)
Theorem C05_self_reference_rejected : forall cf allstarts fc pre c post,
  In fc (cf_flows cf) ->
  fc_req fc = pre ++ c :: post -> refers_to c (fc_name fc) ->
  build_flow cf true allstarts fc = FBad.
Proof. exact self_reference_rejected. Qed.
Print Assumptions C05_self_reference_rejected.

(* Every reference cycle is rejected: if flow fc reaches itself through flow
   references written in direction d (`processor -> flow X at start` or `from
   flow X at end -> processor`, through any number of flows), building fc fails
   with an error - it neither succeeds nor exhausts the budget. *)
Theorem C05_reference_cycle_rejected : forall cf allstarts fc d,
  find_flow cf (fc_name fc) = Some fc ->
  ref_path cf d (fc_name fc) (fc_name fc) ->
  build_flow cf true allstarts fc = FBad.
Proof. exact reference_cycle_rejected. Qed.
Print Assumptions C05_reference_cycle_rejected.

(* its hypotheses on the three-flow cycle 1 -> 2 -> 3 -> 1 *)
Example C05_reference_cycle_witness :
  find_flow wc_config 1 = Some (wc_flow 1 1 2) /\ fc_name (wc_flow 1 1 2) = 1
  /\ ref_path wc_config Req 1 1.
Proof. split; [reflexivity|]. split; [reflexivity|exact wc_ref_path]. Qed.

(* The first hypothesis is met by every flow of a configuration that passed the
   structural stage (flow names are unique there) ... *)
Theorem C05_flows_found_by_name : forall cf fc,
  struct_ok cf = true -> In fc (cf_flows cf) -> find_flow cf (fc_name fc) = Some fc.
Proof. exact struct_ok_find_flow. Qed.
Print Assumptions C05_flows_found_by_name.

(* ... hence, without it: a configuration ANY flow of which reaches itself
   through flow references is rejected by the loader - at one of its three
   stages, with an error; it is neither accepted nor does a budget run out
   (with or without fix-F-C05l, for either start set of the cycle search). *)
Theorem C05_reference_cycle_config_rejected : forall fresh allstarts cf fc d,
  In fc (cf_flows cf) -> ref_path cf d (fc_name fc) (fc_name fc) ->
  exists stage, load_gen fresh true allstarts cf = Reject stage.
Proof. exact reference_cycle_load_rejected. Qed.
Print Assumptions C05_reference_cycle_config_rejected.

Example C05_reference_cycle_config_witness :
  In (wc_flow 1 1 2) (cf_flows wc_config) /\ ref_path wc_config Req (fc_name (wc_flow 1 1 2)) 1.
Proof. split; [left; reflexivity|exact wc_ref_path]. Qed.

(* ---- (b) the whole transaction ----------------------------------------------- *)

(* Accepted configuration, any flows selected among the loaded ones (which ones
   is C03's business), any behaviour of the processors: handling a request -
   including the response flows run after a processor answered it - and
   handling a response
     - never exhausts the budget [exec_fuel fs],
     - executes at most [req_bound] / [res_bound] processors
       (sum over the selected flows of (1 + max out-degree)^(budget + 1)),
     - ends with actions (None) or with the error "failed to get response node". *)
Theorem C05_transaction_safe : forall cf fs beh s s2,
  load cf = Accept fs ->
  sel_from fs s -> (forall s', s2 = Some s' -> sel_from fs s') ->
  let fuel := exec_fuel fs in
  (snd (run_req fuel beh s s2) = None \/ exists k, snd (run_req fuel beh s s2) = Some (NoRespNode k))
  /\ (length (fst (run_req fuel beh s s2)) <= req_bound fuel s s2)%nat
  /\ forall sc,
       (snd (run_res fuel beh s sc) = None \/ exists k, snd (run_res fuel beh s sc) = Some (NoRespNode k))
       /\ (length (fst (run_res fuel beh s sc)) <= res_bound fuel s)%nat.
Proof. exact transaction_safe. Qed.
Print Assumptions C05_transaction_safe.

(* The same without a budget in the statement.  The budget is an artefact of
   writing the executor as a structurally recursive function; what the property
   says is: there is a budget n (n = [exec_fuel fs]) from which on the executor
   gives ONE result, whatever budget it is given - that result is not "out of
   fuel", it is actions or the error, and it has at most [req_bound n] /
   [res_bound n] executions. *)
Theorem C05_transaction_safe_fuel_free : forall cf fs beh s s2,
  load cf = Accept fs ->
  sel_from fs s -> (forall s', s2 = Some s' -> sel_from fs s') ->
  exists n, forall fuel, (n <= fuel)%nat ->
    (run_req fuel beh s s2 = run_req n beh s s2
     /\ (snd (run_req fuel beh s s2) = None
         \/ exists k, snd (run_req fuel beh s s2) = Some (NoRespNode k))
     /\ (length (fst (run_req fuel beh s s2)) <= req_bound n s s2)%nat)
    /\ forall sc,
         run_res fuel beh s sc = run_res n beh s sc
         /\ (snd (run_res fuel beh s sc) = None
             \/ exists k, snd (run_res fuel beh s sc) = Some (NoRespNode k))
         /\ (length (fst (run_res fuel beh s sc)) <= res_bound n s)%nat.
Proof. exact transaction_safe_fuel_free. Qed.
Print Assumptions C05_transaction_safe_fuel_free.

(* The selection hypothesis is met by what the `txn` suite passes (and by any
   selection made by name among the loaded flows). *)
Theorem C05_selection_by_name_is_from : forall fs e, sel_from fs (dec_sel fs e).
Proof. exact sel_from_dec_sel. Qed.
Print Assumptions C05_selection_by_name_is_from.

(* ---- (b') processors whose answers depend on the history ----------------------

   [beh] above is a function of (flow, processor, direction): a processor that
   runs twice in one transaction answers the same both times.  History.v
   threads the history of the transaction (every execution so far, of every
   flow) through the same executor and lets the answer depend on it
   ([horacle]).  For EVERY such oracle, on every accepted configuration, from
   some budget on: one result, actions or the error, same bounds. *)
Theorem C05_transaction_safe_any_history : forall cf fs (hb : horacle) s s2,
  load cf = Accept fs ->
  sel_from fs s -> (forall s', s2 = Some s' -> sel_from fs s') ->
  exists n, forall fuel, (n <= fuel)%nat ->
    (hrun_req fuel hb s s2 [] = hrun_req n hb s s2 []
     /\ (snd (hrun_req fuel hb s s2 []) = None
         \/ exists k, snd (hrun_req fuel hb s s2 []) = Some (NoRespNode k))
     /\ (length (fst (hrun_req fuel hb s s2 [])) <= req_bound n s s2)%nat)
    /\ forall sc,
         hrun_res fuel hb s sc [] = hrun_res n hb s sc []
         /\ (snd (hrun_res fuel hb s sc []) = None
             \/ exists k, snd (hrun_res fuel hb s sc []) = Some (NoRespNode k))
         /\ (length (fst (hrun_res fuel hb s sc [])) <= res_bound n s)%nat.
Proof. exact transaction_safe_any_history_from. Qed.
Print Assumptions C05_transaction_safe_any_history.

(* The executor the suites tie to the code is the instance for oracles that
   ignore the history: same result, same executions (the history lists them
   most recent first). *)
Theorem C05_history_blind_is_C04 : forall fuel (beh : oracles) s s2 sc,
  hrun_req fuel (blind beh) s s2 [] = (rev (fst (run_req fuel beh s s2)), snd (run_req fuel beh s s2))
  /\ hrun_res fuel (blind beh) s sc [] = (rev (fst (run_res fuel beh s sc)), snd (run_res fuel beh s sc)).
Proof. exact history_blind_is_C04. Qed.
Print Assumptions C05_history_blind_is_C04.

(* The generalisation is strict: with a processor that hits the first time it
   runs and misses afterwards, the diamond 1 -> {2, 3} -> 4 -> {hit: 5, miss: 6}
   is walked 1 2 4 5 3 4 6, which no history-blind oracle produces. *)
Theorem C05_history_matters : forall (beh : oracle) fuel,
  fst (hexec_flow 5 wh_flow Req None once_hit [])
  <> rev (tag wh_flow Req (fst (exec_flow_impl fuel wh_flow Req None beh))).
Proof. exact wh_not_blind. Qed.
Print Assumptions C05_history_matters.

Example C05_history_witness :
  validate Req (freq wh_flow) = true
  /\ map e_key (rev (fst (hexec_flow 5 wh_flow Req None once_hit []))) = [1; 2; 4; 5; 3; 4; 6]
  /\ map e_cond (rev (fst (hexec_flow 5 wh_flow Req None once_hit []))) = [1; 1; 1; 1; 1; 2; 1].
Proof. vm_compute. repeat split; reflexivity. Qed.

(* ---- (e) what "accepted" means, in one place ------------------------------------ *)

(* The validator's verdict on a direction, exactly (no budget, no search): it
   accepts iff the direction is undefined, or has an entry point when it is a
   request direction, has no unconnected processor, and is acyclic - every
   connection of every processor leads to a processor of smaller rank.  It
   rejects iff the direction is defined and one of the three fails.  (Hence
   "rejected for circularity iff not acyclic": the repaired detector raises no
   false alarm and misses nothing.) *)
Theorem C05_validator_exact : forall d g,
  (validate_dir true d g = VOk <->
     (nodes g = []
      \/ ((is_req d = true -> root g <> None) /\ unconnected_ok g = true
          /\ exists rk, ranked g rk)))
  /\ (validate_dir true d g = VBad <->
       (nodes g <> []
        /\ ~ ((is_req d = true -> root g <> None) /\ unconnected_ok g = true
              /\ exists rk, ranked g rk))).
Proof. intros. split; [apply validate_dir_exact|apply validate_dir_bad_exact]. Qed.
Print Assumptions C05_validator_exact.

(* Every direction of every flow the loader returns is acyclic (ranks below the
   budget the executor is given) and closed: its entry point is one of its
   processors and so is the target of every connection - the executor never
   meets a processor the direction does not have (C04's executor treats such a
   key as a processor without connections; C04/Model.v relies on "the root of a
   direction is one of its nodes"). *)
Theorem C05_accepted_graphs : forall cf fs f d,
  load cf = Accept fs -> In f fs ->
  ranked (gdir f d) (rank_of (gdir f d))
  /\ (forall k, (rank_of (gdir f d) k < exec_fuel fs)%nat)
  /\ (forall r, root (gdir f d) = Some r -> has_node (gdir f d) r = true)
  /\ (forall n c t, In n (nodes (gdir f d)) -> In (c, Some t) (snd n) -> has_node (gdir f d) t = true).
Proof.
  intros cf fs f d L I. destruct (load_accepted_ranked cf fs f d L I) as [R B].
  destruct (load_closed cf fs f d L I) as [C1 C2]. repeat split; assumption.
Qed.
Print Assumptions C05_accepted_graphs.

Example C05_accepted_graphs_witness :
  In wg_flow1 wg_flows /\ root (fres wg_flow1) = Some 4 /\ has_node (fres wg_flow1) 4 = true.
Proof. vm_compute. repeat split. left. reflexivity. Qed.

(* F-C05l.  Without the repair the loader's graphs need not be closed: what it
   would have to satisfy ... *)
Definition C05_stale_loader_closed : Prop :=
  forall cf fs f d r, load_stale cf = Accept fs -> In f fs ->
    root (gdir f d) = Some r -> has_node (gdir f d) r = true.

(* ... is refuted by a flow that names, as its own stream entry, a processor an
   incorporated flow brought in: the entry is filed as foreign root, nothing
   consumes it, it survives into the response direction and becomes the entry
   point there - of a processor the response direction does not have.  (In the
   code the entry point is then a pointer into the REQUEST graph: a response
   walks request-side processors.  And the value survives into the build of the
   next flow as well, so that whether a third flow is accepted depends on Go's
   map iteration order: harness family `foreign-root`.) *)
Theorem C05_stale_loader_refuted : ~ C05_stale_loader_closed.
Proof.
  intros H. specialize (H wf_config wf_flows wf_flow1 Res 5).
  assert (X : has_node (gdir wf_flow1 Res) 5 = true).
  { apply H; [reflexivity|left; reflexivity|reflexivity]. }
  vm_compute in X. discriminate.
Qed.
Print Assumptions C05_stale_loader_refuted.

(* the repaired loader rejects that configuration ("foreign root node not found") *)
Example C05_stale_witness_rejected :
  load wf_config = Reject 3 /\ verdict_code (load_stale wf_config) = 0
  /\ fres wf_flow1 = {| root := Some 5; nodes := [(3, [(1, None)])] |}.
Proof. vm_compute. repeat split; reflexivity. Qed.

(* ---- the pinned tree: why the two repairs are needed ------------------------- *)

(* F-C05a.  What the pinned validator promises would be: a flow whose two
   directions it accepts can be executed, from wherever the engine starts, with
   SOME budget. *)
Definition C05_pinned_validator_safe : Prop :=
  forall f, validate_dir false Req (freq f) = VOk -> validate_dir false Res (fres f) = VOk ->
  exists fuel, forall start beh, snd (exec_flow_impl fuel f Res start beh) <> OutOfFuel.

(* Refuted: stream -> F1 -hit-> Gen; response Gen -> T1 -hit-> T2 -hit-> T1 (no
   entry point) is accepted by the pinned validator (its search starts at the
   root's connections only and is skipped for a rootless response direction),
   and the continuation after Gen answered exhausts EVERY budget. *)
Theorem C05_pinned_validator_refuted : ~ C05_pinned_validator_safe.
Proof.
  intros H. destruct (H wa_flow) as [fuel N]; [vm_compute; reflexivity|vm_compute; reflexivity|].
  apply (N (Some 2) wa_beh). apply wa_handover_diverges.
Qed.
Print Assumptions C05_pinned_validator_refuted.

(* the same witness through the whole loader: accepted by the pinned one,
   rejected by the repaired one; and the repaired detector reports it *)
Example C05_pinned_loader_accepts_witness :
  verdict_code (load_pinned wa_config) = 0 /\ load wa_config = Reject 3
  /\ validate_dir true Res wa_res = VBad.
Proof. vm_compute. repeat split; reflexivity. Qed.

(* F-C05b.  What the pinned builder would have to satisfy: some budget is
   enough to build a flow's request connections. *)
Definition C05_pinned_builder_terminates : Prop :=
  forall cf fc, In fc (cf_flows cf) ->
  exists fuel, forall s,
    build_conns cf false (fc_name fc) Req fuel (fc_name fc) [fc_name fc] (fc_req fc) s <> BFuel.

(* Refuted: a flow that refers to itself (f1 -hit-> flow A at start, inside flow
   A) exhausts EVERY budget of the pinned builder (incorporateFlow recurses
   without end: the validator process dies instead of rejecting). *)
Theorem C05_pinned_builder_refuted : ~ C05_pinned_builder_terminates.
Proof.
  intros H.
  destruct (H wb_config (FC 1 true [PD 1 false 1 [1]] wb_req [CN ep_stream_start ep_stream_end]))
    as [fuel N]; [left; reflexivity|].
  apply (N (empty_bdir, None)). apply wb_builder_diverges.
Qed.
Print Assumptions C05_pinned_builder_refuted.

(* the repaired loader rejects it, and the three-flow cycle too *)
Example C05_reference_cycles_rejected :
  load wb_config = Reject 3 /\ load wc_config = Reject 3.
Proof. vm_compute. split; reflexivity. Qed.

(* ---- non-vacuity -------------------------------------------------------------- *)

(* The hypotheses of C05_transaction_safe are met by a configuration with a
   fan-out, a hand-over with two response connections and a flow incorporated on
   the response side: it is accepted, the graphs the builder made are the
   expected ones, both directions validate ... *)
Example C05_good_config_accepted :
  load wg_config = Accept wg_flows
  /\ map fname wg_flows = [1; 2]
  /\ freq wg_flow1
     = {| root := Some 1;
          nodes := [(1, [(1, Some 2); (1, Some 3); (2, None)]); (2, [(1, None)]); (3, [])] |}
  /\ fres wg_flow1
     = {| root := Some 4;
          nodes := [(4, [(1, None)]); (3, [(0, Some 4); (0, Some 5)]); (5, [(1, Some 6)]);
                    (6, [(1, None)])] |}
  /\ validate Req (freq wg_flow1) = true /\ validate Res (fres wg_flow1) = true
  /\ exec_fuel wg_flows = 8%nat.
Proof. vm_compute. repeat split; reflexivity. Qed.

Example C05_good_config_selection : sel_from wg_flows wg_sel.
Proof.
  repeat split; intros x I; try contradiction.
  vm_compute in I. destruct I as [E|[]]. subst x. vm_compute. left. reflexivity.
Qed.

(* ... and a request on which every Filter hits runs a, b, g, then - Gen having
   answered - t, u and the incorporated c on the response side, and ends with
   actions; a response runs t alone. *)
Example C05_good_config_runs :
  run_req (exec_fuel wg_flows) (beh_of wg_config [1; 2; 4; 5; 6]) wg_sel (Some wg_sel)
  = ([ {| e_flow := 1; e_key := 1; e_dir := Req; e_cond := 1 |};
       {| e_flow := 1; e_key := 2; e_dir := Req; e_cond := 1 |};
       {| e_flow := 1; e_key := 3; e_dir := Req; e_cond := 0 |};
       {| e_flow := 1; e_key := 4; e_dir := Res; e_cond := 1 |};
       {| e_flow := 1; e_key := 5; e_dir := Res; e_cond := 1 |};
       {| e_flow := 1; e_key := 6; e_dir := Res; e_cond := 1 |} ], None)
  /\ run_res (exec_fuel wg_flows) (beh_of wg_config [4]) wg_sel None
     = ([ {| e_flow := 1; e_key := 4; e_dir := Res; e_cond := 1 |} ], None).
Proof. vm_compute. split; reflexivity. Qed.

(* the detector's budget is met with equality on a chain, so the bound in
   C05_detector_terminates is not slack by more than a constant: a chain of 3
   connections needs 4 nested calls *)
Example C05_detector_budget_witness :
  let g := {| root := Some 1; nodes := [(1, [(1, Some 2)]); (2, [(1, Some 3)]); (3, [(1, Some 4)]); (4, [])] |} in
  detect_fuel g = 5%nat
  /\ dfs_nodes g 2 (nodes g) = DFuel /\ dfs_nodes g 3 (nodes g) = DOk.
Proof. vm_compute. repeat split; reflexivity. Qed.

(* ---- (h) the decode step: files instead of decoded configurations ---------- *)

(* Decode.v makes the loader's first step explicit: every file of the four
   directories (quotas, path parameters, flows, processor definitions) is
   BYTES; [decode] says DocNone (no document / a null document: yaml.Unmarshal
   leaves the pointer nil), DocErr (the decoder returns an error) or Doc a;
   UnmarshalPolicyRawData turns DocNone into an empty object ([alloc_nil]), and
   the stages run in the order of NewValidationStream + Initialize.  The decoder
   on files with real content is a Section variable: the statements below hold
   for EVERY such decoder ([pq], [pp], [pf], [pd]). *)

(* The lexical facts, at the level of lines: a file of blank lines, comment
   lines and document-start markers holds no document; neither does one whose
   only value is a null (null / Null / NULL / ~) *)
Theorem C05_scan_no_document : forall ts,
  Forall no_content ts ->
  run_tokens Before ts = SNone.
Proof. intros ts H. apply (run_tokens_no_content ts H). Qed.
Print Assumptions C05_scan_no_document.

Theorem C05_scan_null_document : forall ts rest cm,
  Forall no_content ts -> Forall no_content rest ->
  run_tokens Before (ts ++ TVal CNull cm :: rest) = SNone.
Proof. exact run_tokens_then_null. Qed.
Print Assumptions C05_scan_null_document.

(* ... and on bytes: "# disabled\n", "---\n", "--- \n...\n", "null\n", "~", a
   byte-order mark followed by a comment, blank lines and comments are DocNone;
   "{}" is the empty object; "..." and a null continued on the next line (the
   string "null null") are errors; a null whose line ends in a comment is
   complete, whatever follows; "[]", "hello", a mapping with content and any
   file with a tab are left to the decoder proper *)
Example C05_scan_examples :
  scan [35; 32; 100; 105; 115; 97; 98; 108; 101; 100; 10] = SNone
  /\ scan [45; 45; 45; 10] = SNone
  /\ scan [45; 45; 45; 32; 10; 46; 46; 46; 10] = SNone
  /\ scan [110; 117; 108; 108; 10] = SNone
  /\ scan [126] = SNone
  /\ scan [239; 187; 191; 35; 32; 99; 10] = SNone
  /\ scan [10; 10; 32; 32; 35; 32; 97; 10; 10; 35; 98; 10; 32; 32; 32; 10] = SNone
  /\ scan [45; 45; 45; 10; 45; 45; 45; 10; 110; 97; 109; 101; 58; 32; 65; 10] = SNone
  /\ scan [] = SNone
  /\ scan [123; 125; 10] = SEmptyMap
  /\ scan [46; 46; 46; 10] = SErr
  /\ scan [110; 117; 108; 108; 10; 110; 117; 108; 108; 10] = SErr
  /\ scan [126; 32; 35; 32; 99; 10; 78; 85; 76; 76; 10] = SNone
  /\ scan [9; 10] = SOther
  /\ scan [91; 93; 10] = SOther
  /\ scan [104; 101; 108; 108; 111; 10] = SOther
  /\ scan [110; 97; 109; 101; 58; 32; 65; 10] = SOther.
Proof. vm_compute. repeat split; reflexivity. Qed.

(* Clause "a configuration that cannot be run is rejected WITH AN ERROR": the
   loader over files never hands a nil pointer to anybody - on every set of
   files, for every decoder - and never exhausts a budget *)
Theorem C05_loader_never_panics : forall pq pp pf pd d s,
  load_files pq pp pf pd d <> OPanic s.
Proof. exact load_files_never_panics. Qed.
Print Assumptions C05_loader_never_panics.

Theorem C05_file_loader_terminates : forall pq pp pf pd d,
  load_files pq pp pf pd d <> OFuel.
Proof. exact load_files_no_fuel. Qed.
Print Assumptions C05_file_loader_terminates.

(* A flow file that holds no document (DocNone) or cannot be decoded (DocErr):
   the configuration is REJECTED - at the flow-file stage, or before it by the
   quota loader - whatever the other files are.  Nothing is built, nothing
   runs: the outcome carries no flows.
   VALIDATION MODE ONLY (audit 2, item 8): [load_files] is the loader as the
   standalone validator / validate_flows / the load_flows dry run drive it.  At
   gateway start-up such a file is skipped when another flow file could be
   read - see C05_startup_* at the end of this section. *)
Theorem C05_docless_flow_file_rejected : forall pq pp pf pd d f,
  In f (d_flows d) ->
  decode_file flowcfg empty_flow pf f = DocNone \/ decode_file flowcfg empty_flow pf f = DocErr ->
  (quota_stage pq true (d_quotas d) = None /\ load_files pq pp pf pd d = OReject 1)
  \/ (quota_stage pq true (d_quotas d) = Some (OReject 4) /\ load_files pq pp pf pd d = OReject 4).
Proof. intros. eapply docless_flow_rejected; eauto. Qed.
Print Assumptions C05_docless_flow_file_rejected.

(* the same for a quota file: rejected by the quota loader, first of all stages *)
Theorem C05_docless_quota_file_rejected : forall pq pp pf pd d f,
  In f (d_quotas d) ->
  decode_file qdoc empty_qdoc pq f = DocNone \/ decode_file qdoc empty_qdoc pq f = DocErr ->
  load_files pq pp pf pd d = OReject 4.
Proof. intros. eapply docless_quota_rejected; eauto. Qed.
Print Assumptions C05_docless_quota_file_rejected.

(* Path-parameter files never change the verdict (their errors are logged by
   the caller; with fix-F-C05m an empty list entry is such an error).  A
   processor-definition file without a document is an empty definition, which
   names no processor and is ignored; one that cannot be decoded rejects. *)
Theorem C05_path_param_files_irrelevant : forall pq pp pf pd qs ps fs ds,
  load_files pq pp pf pd (DIR qs ps fs ds) = load_files pq pp pf pd (DIR qs [] fs ds).
Proof. exact pparams_irrelevant. Qed.
Print Assumptions C05_path_param_files_irrelevant.

Theorem C05_procdef_files : forall pq pp pf pd qs ps fs ds,
  ((forall f, In f ds -> decode_file ddoc DDef pd f <> DocErr) ->
   load_files pq pp pf pd (DIR qs ps fs ds) = load_files pq pp pf pd (DIR qs ps fs []))
  /\ (forall f, In f ds -> decode_file ddoc DDef pd f = DocErr ->
      exists s, load_files pq pp pf pd (DIR qs ps fs ds) = OReject s /\ (s = 4 \/ s = 1 \/ s = 5)).
Proof.
  intros. split.
  - apply procdefs_irrelevant.
  - intros f Hin He. apply (undecodable_procdef_rejected pq pp pf pd (DIR qs ps fs ds) f Hin He).
Qed.
Print Assumptions C05_procdef_files.

(* What the loader over files accepts, [load] accepted on flows every one of
   which was DECODED from one of the flow files (no flow comes from a file
   without a document): so every theorem above about [load cf = Accept fs]
   applies to it - here C05_transaction_safe. *)
Theorem C05_files_accept_is_load : forall pq pp pf pd d fl,
  load_files pq pp pf pd d = OAccept fl ->
  exists l, load (CF l (quota_defined pq true (d_quotas d))) = Accept fl
            /\ forall fc, In fc l ->
                 exists f, In f (d_flows d) /\ decode_file flowcfg empty_flow pf f = Doc fc.
Proof. intros pq pp pf pd d fl H. exact (accept_is_load pq pp pf pd d fl H). Qed.
Print Assumptions C05_files_accept_is_load.

Theorem C05_files_transaction_safe : forall pq pp pf pd d fs beh s s2,
  load_files pq pp pf pd d = OAccept fs ->
  sel_from fs s -> (forall s', s2 = Some s' -> sel_from fs s') ->
  let fuel := exec_fuel fs in
  (snd (run_req fuel beh s s2) = None \/ exists k, snd (run_req fuel beh s s2) = Some (NoRespNode k))
  /\ (length (fst (run_req fuel beh s s2)) <= req_bound fuel s s2)%nat
  /\ forall sc,
       (snd (run_res fuel beh s sc) = None \/ exists k, snd (run_res fuel beh s sc) = Some (NoRespNode k))
       /\ (length (fst (run_res fuel beh s sc)) <= res_bound fuel s)%nat.
Proof.
  intros pq pp pf pd d fs beh s s2 H.
  destruct (accept_is_load pq pp pf pd d fs H) as [l [Hl _]].
  exact (transaction_safe _ fs beh s s2 Hl).
Qed.
Print Assumptions C05_files_transaction_safe.

(* Conservative extension: on files rendered from structures (what the suites
   `load` and `txn` write) with usable quota files, the loader over files IS
   [load] on the configuration made of those flows - the duplicate-name check
   of GetFlows' loop is [nodupZ], the per-file validation [flow_struct_ok]. *)
Theorem C05_load_files_conservative : forall pq pp pf pd qs ps l ds,
  forallb (fun q => qd_quotas q && qd_valid q) qs = true ->
  load_files pq pp pf pd (DIR (map Rendered qs) ps (map Rendered l) (map Rendered ds))
  = of_verdict (load (CF l (existsb (fun q => qd_quotas q && qd_valid q) qs))).
Proof. exact load_files_rendered. Qed.
Print Assumptions C05_load_files_conservative.

(* Extension 4 (audit 2, C05-2): "a quota is defined" is a function of the
   DECODED quota documents - the file may be rendered by the harness or given as
   bytes that the decoder proper turns into a usable document; a file without a
   document (the empty object) defines nothing.  For every decoder. *)
Theorem C05_quota_defined_is_decoded : forall pq qs,
  quota_defined pq true qs = true <->
  exists f q, In f qs /\ decode_file qdoc empty_qdoc pq f = Doc q
              /\ qd_quotas q && qd_valid q = true.
Proof. exact quota_defined_decoded. Qed.
Print Assumptions C05_quota_defined_is_decoded.

(* ... and in whatever the loader over files accepts, a quota is defined exactly
   when there is a quota file (the quota loader has rejected every unusable
   one): the [cf_quota] of C05_files_accept_is_load is not left to the decoder. *)
Theorem C05_files_accept_quota_defined : forall pq pp pf pd d fl,
  load_files pq pp pf pd d = OAccept fl ->
  quota_defined pq true (d_quotas d) = match d_quotas d with [] => false | _ :: _ => true end.
Proof. intros pq pp pf pd d fl H. exact (accept_quota_defined pq pp pf pd d fl H). Qed.
Print Assumptions C05_files_accept_quota_defined.

(* non-vacuity: the good configuration, its two flows as files, next to a
   comment-only path-parameter file and a document-less processor definition,
   is accepted with the flows [load] builds; with a comment-only third flow
   file ("# disabled\n") it is rejected at the flow-file stage; with a "~"
   quota file, by the quota loader *)
Definition err_q : list Z -> doc qdoc := fun _ => DocErr.
Definition err_p : list Z -> doc pdoc := fun _ => DocErr.
Definition err_f : list Z -> doc flowcfg := fun _ => DocErr.
Definition err_d : list Z -> doc ddoc := fun _ => DocErr.
Definition comment_file : list Z := [35; 32; 100; 105; 115; 97; 98; 108; 101; 100; 10].

Example C05_files_witness :
  load_files err_q err_p err_f err_d
    (DIR [] [Bytes comment_file] (map Rendered (cf_flows wg_config)) [Bytes [45; 45; 45; 10]])
  = OAccept wg_flows
  /\ wg_flows <> []
  /\ load_files err_q err_p err_f err_d
       (DIR [] [] (map Rendered (cf_flows wg_config) ++ [Bytes comment_file]) []) = OReject 1
  /\ load_files err_q err_p err_f err_d
       (DIR [Bytes [126]] [] (map Rendered (cf_flows wg_config)) []) = OReject 4
  /\ load_files err_q err_p err_f err_d
       (DIR [] [] (map Rendered (cf_flows wg_config)) [Bytes [91; 93; 10]]) = OReject 5.
Proof. vm_compute. repeat split; try reflexivity. discriminate. Qed.

(* ... and with a quota (audit 2): a flow whose Limiter names the quota the
   configuration defines is accepted next to a usable rendered quota file - a
   non-degenerate instance of the hypothesis of C05_load_files_conservative -
   and rejected at processor creation (stage 2) without one.  Extension 4: a
   quota file given as BYTES that the scanner leaves to the decoder proper
   ("# q\n\nq: 1\n": a comment line, a blank line, content) and that the decoder
   turns into a usable document defines the quota like a rendered one - same
   flows; with a decoder that fails on it the quota loader rejects (stage 4);
   with a decoder that returns a document without quotas, too. *)
Definition wq_flow : flowcfg :=
  FC 7 true [PD 1 false 4 [2]]
     [CN ep_stream_start (ep_p 1 0); CN (ep_p 1 3) ep_stream_end; CN (ep_p 1 4) ep_stream_end]
     [CN ep_stream_start ep_stream_end].
Definition wq_bytes : list Z := [35; 32; 113; 10; 10; 113; 58; 32; 49; 10].

Example C05_files_quota_witness :
  forallb (fun q => qd_quotas q && qd_valid q) [QD true true] = true
  /\ (exists fs, fs <> [] /\
        load_files err_q err_p err_f err_d
          (DIR (map Rendered [QD true true]) [] (map Rendered [wq_flow]) []) = OAccept fs
        /\ load (CF [wq_flow] true) = Accept fs
        /\ load_files (fun _ => Doc (QD true true)) err_p err_f err_d
             (DIR [Bytes wq_bytes] [] (map Rendered [wq_flow]) []) = OAccept fs)
  /\ load_files err_q err_p err_f err_d (DIR [] [] (map Rendered [wq_flow]) []) = OReject 2
  /\ scan wq_bytes = SOther
  /\ quota_defined (fun _ => Doc (QD true true)) true [Bytes wq_bytes] = true
  /\ load_files err_q err_p err_f err_d
       (DIR [Bytes wq_bytes] [] (map Rendered [wq_flow]) []) = OReject 4
  /\ load_files (fun _ => Doc (QD false true)) err_p err_f err_d
       (DIR [Bytes wq_bytes] [] (map Rendered [wq_flow]) []) = OReject 4.
Proof.
  split; [reflexivity|]. split.
  - eexists. split; [|split; [|split]; vm_compute; reflexivity]. discriminate.
  - repeat split; vm_compute; reflexivity.
Qed.

(* The seeded decoder (C05-8): only BLANK input gets an empty object - decided
   BEFORE decoding, as in the seed (bytes.TrimSpace first; audit 2: so also for
   a blank file with a tab, last conjunct of C05_nil_decoder_sites, which the
   decoder proper - here one that fails - is never asked about); a file
   that holds no document otherwise leaves the nil pointer to the callers, all
   of which dereference it.  "Never panics" fails in each of the four
   directories - while a blank file is still rejected with an error. *)
Definition C05_nil_decoder_never_panics : Prop :=
  forall pq pp pf pd d s, load_files_nil pq pp pf pd d <> OPanic s.

Theorem C05_nil_decoder_refuted : ~ C05_nil_decoder_never_panics.
Proof.
  intros H.
  apply (H err_q err_p err_f err_d (DIR [] [] [Bytes comment_file] []) 1). vm_compute. reflexivity.
Qed.
Print Assumptions C05_nil_decoder_refuted.

Example C05_nil_decoder_sites :
  load_files_nil err_q err_p err_f err_d (DIR [] [] [Bytes comment_file] []) = OPanic 1
  /\ load_files_nil err_q err_p err_f err_d (DIR [Bytes [45; 45; 45; 10]] [] [] []) = OPanic 4
  /\ load_files_nil err_q err_p err_f err_d (DIR [] [Bytes [110; 117; 108; 108; 10]] [] []) = OPanic 6
  /\ load_files_nil err_q err_p err_f err_d (DIR [] [] [] [Bytes [126; 10]]) = OPanic 5
  /\ load_files_nil err_q err_p err_f err_d (DIR [] [] [Bytes [32; 10; 10]] []) = OReject 1
  /\ load_files_nil err_q err_p err_f err_d (DIR [] [] [Bytes []] []) = OReject 1
  /\ load_files err_q err_p err_f err_d (DIR [] [] [Bytes comment_file] []) = OReject 1
  /\ scan [9; 10] = SOther
  /\ unmarshal flowcfg empty_flow err_f false (Bytes [9; 10]) = DObj empty_flow
  /\ unmarshal flowcfg empty_flow err_f true (Bytes [9; 10]) = DError.
Proof. vm_compute. repeat split; reflexivity. Qed.

(* without fix-F-C05m an empty list entry in a path-parameter file is a panic *)
Definition C05_unguarded_path_params_never_panic : Prop :=
  forall pq pp pf pd d s, load_files_unguarded pq pp pf pd d <> OPanic s.

Theorem C05_unguarded_path_params_refuted : ~ C05_unguarded_path_params_never_panic.
Proof.
  intros H.
  apply (H err_q err_p err_f err_d (DIR [] [Rendered (PP true)] [] []) 7). vm_compute. reflexivity.
Qed.
Print Assumptions C05_unguarded_path_params_refuted.

(* ---- the gateway's START-UP mode (audit 2, item 8) ------------------------- *)

(* [load_files] is the VALIDATION-mode loader.  [load_files_startup] (Decode.v,
   Section Startup) is NewStream().Initialize(): a flow file that cannot be used
   is skipped with a warning when at least one flow file could be read
   (streams.go:267-277).  No suite evaluates it; the statements below bound how
   far it can be from [load_files]: it never panics and always answers, it
   differs from validation mode ONLY on configurations the validator rejects at
   the flow-file stage, and what it accepts is still [load] on flows each
   decoded from one of the files - so C05_transaction_safe* apply to it too. *)
Theorem C05_startup_loader_never_panics : forall pq pp pf pd d s,
  load_files_startup pq pp pf pd d <> OPanic s /\ load_files_startup pq pp pf pd d <> OFuel.
Proof.
  intros. split; [apply load_files_startup_never_panics|apply load_files_startup_no_fuel].
Qed.
Print Assumptions C05_startup_loader_never_panics.

Theorem C05_startup_differs_only_where_validator_rejects_flow_files : forall pq pp pf pd d,
  load_files pq pp pf pd d = OReject 1
  \/ load_files_startup pq pp pf pd d = load_files pq pp pf pd d.
Proof. exact startup_differs_only_on_flow_file_rejections. Qed.
Print Assumptions C05_startup_differs_only_where_validator_rejects_flow_files.

Theorem C05_startup_accept_is_load : forall pq pp pf pd d fl,
  load_files_startup pq pp pf pd d = OAccept fl ->
  exists l, load (CF l (quota_defined pq true (d_quotas d))) = Accept fl
            /\ forall fc, In fc l ->
                 exists f, In f (d_flows d) /\ decode_file flowcfg empty_flow pf f = Doc fc.
Proof. intros pq pp pf pd d fl H. exact (startup_accept_is_load pq pp pf pd d fl H). Qed.
Print Assumptions C05_startup_accept_is_load.

(* the difference is real: the good configuration next to a comment-only third
   flow file is REJECTED by the validator and LOADED (without that file) at
   start-up - so C05_docless_flow_file_rejected does not hold for start-up;
   a comment-only file alone, or next to a duplicate name, is rejected in both
   modes; a document-less quota file rejects in both *)
Definition C05_startup_rejects_docless_flow_files : Prop :=
  forall pq pp pf pd d f,
    In f (d_flows d) -> decode_file flowcfg empty_flow pf f = DocNone ->
    exists s, load_files_startup pq pp pf pd d = OReject s.

Theorem C05_startup_rejects_docless_flow_files_refuted : ~ C05_startup_rejects_docless_flow_files.
Proof.
  intros H.
  destruct (H err_q err_p err_f err_d
              (DIR [] [] (map Rendered (cf_flows wg_config) ++ [Bytes comment_file]) [])
              (Bytes comment_file)) as [s Hs].
  - cbn [d_flows]. apply in_or_app. right. left. reflexivity.
  - vm_compute. reflexivity.
  - vm_compute in Hs. discriminate Hs.
Qed.
Print Assumptions C05_startup_rejects_docless_flow_files_refuted.

Example C05_startup_witness :
  load_files_startup err_q err_p err_f err_d
    (DIR [] [] (map Rendered (cf_flows wg_config) ++ [Bytes comment_file]) []) = OAccept wg_flows
  /\ load_files err_q err_p err_f err_d
       (DIR [] [] (map Rendered (cf_flows wg_config) ++ [Bytes comment_file]) []) = OReject 1
  /\ wg_flows <> []
  /\ load_files_startup err_q err_p err_f err_d (DIR [] [] [Bytes comment_file] []) = OReject 1
  /\ load_files_startup err_q err_p err_f err_d
       (DIR [] [] (Bytes comment_file :: map Rendered (cf_flows wg_config ++ cf_flows wg_config)) [])
     = OReject 1
  /\ load_files_startup err_q err_p err_f err_d
       (DIR [Bytes [126]] [] (map Rendered (cf_flows wg_config)) []) = OReject 4
  /\ load_files_startup err_q err_p err_f err_d (DIR [] [] [] []) = OAccept [].
Proof. vm_compute. repeat split; try reflexivity. discriminate. Qed.
