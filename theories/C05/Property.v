(* C05 — Every configuration the loader accepts runs safely on all traffic.
   Final statements only.  Definitions: Model.v (the loader as coded, with the
   repairs fix-F-C05a / fix-F-C05b as switches) and C04/Model.v (the executor);
   proofs: Proofs.v; concrete witnesses: Witness.v.

   Scope.  The statements are about graph shape and termination: which
   configurations [load] accepts, that everything it accepts is executed by
   C04's executor - for EVERY behaviour of the processors - within an explicit
   bound and ends with actions or an error, and that the loader itself (builder
   with flow references, cycle detector) always terminates within an explicit
   budget.  What a processor does inside Execute on malformed bodies, headers
   and URLs is NOT in the model: that part of "never panics" is tested by the
   harness' malformed-traffic stream only (C05 is partial there).

   Fuel.  Builder, detector and executor are structurally recursive on a
   budget; exhausting it is a distinguished result (BFuel / DFuel / VFuel /
   LoaderFuel / OutOfFuel).  The theorems prove those results unreachable with
   the budgets the model itself uses (explicit functions of the configuration);
   nothing is true "because the fuel ran out". *)
From Coq Require Import List ZArith Bool Lia.
From Verif Require Import C04.Model C04.Spec C04.Proofs C04.Property.
From Verif Require Import C05.Model C05.Proofs C05.Witness.
Import ListNotations.
Open Scope Z_scope.

(* ---- (c) the cycle detector terminates ------------------------------------- *)

(* On every graph - cyclic or not, any start set - the search as coded finishes
   within [detect_fuel g] = (number of connections to processors) + 2 nested
   calls: its path of (condition, processor) pairs is duplicate-free
   (pigeonhole).  Holds for the repaired and for the pinned start set. *)
Theorem C05_detector_terminates : forall allstarts d g,
  detect allstarts (detect_fuel g) d g <> DFuel
  /\ validate_dir allstarts d g <> VFuel.
Proof.
  intros. split; [apply detect_no_fuel|apply validate_dir_no_fuel].
Qed.
Print Assumptions C05_detector_terminates.

(* ---- (a) the detector is sound (and exact) ---------------------------------- *)

(* A direction the validator accepts is acyclic in C04's sense: [rank_of g]
   (depth below a processor) decreases along EVERY connection of EVERY
   processor, reachable from the entry point or not, and stays below
   [exec_fuel_of g] = detect_fuel g + 3. *)
Theorem C05_validated_is_ranked : forall d g,
  validate d g = true ->
  ranked g (rank_of g) /\ forall k, (rank_of g k < exec_fuel_of g)%nat.
Proof. exact validated_is_ranked. Qed.
Print Assumptions C05_validated_is_ranked.

(* Hence: from ANY start processor (the entry point, or any target of a
   hand-over continuation), for EVERY behaviour of the processors, in either
   role, the walk of stream.ExecuteFlow ends without exhausting a budget of
   [exec_fuel_of g] or more, executes at most (1 + max out-degree)^budget
   processors, and its result does not depend on the budget. *)
Theorem C05_detector_sound : forall d g,
  validate d g = true ->
  forall gr d' beh fuel k, (exec_fuel_of g <= fuel)%nat ->
    snd (exec_impl g gr d' beh fuel k) <> OutOfFuel
    /\ (length (fst (exec_impl g gr d' beh fuel k)) <= Nat.pow (S (maxdeg g)) fuel)%nat
    /\ exec_impl g gr d' beh fuel k = exec_impl g gr d' beh (exec_fuel_of g) k.
Proof. exact detector_sound. Qed.
Print Assumptions C05_detector_sound.

(* No false alarm: a direction that is acyclic is never reported as circular. *)
Theorem C05_detector_complete : forall g rk d,
  ranked g rk -> detect true (detect_fuel g) d g = DOk.
Proof. exact detect_complete. Qed.
Print Assumptions C05_detector_complete.

(* One direction of a validated flow, from the entry point or after a hand-over
   from ANY processor h: terminates, within [dir_bound] executions. *)
Theorem C05_flow_safe : forall f fuel,
  validate Req (freq f) = true -> validate Res (fres f) = true ->
  (exec_fuel_of (freq f) <= fuel)%nat -> (exec_fuel_of (fres f) <= fuel)%nat ->
  forall d start beh,
    snd (exec_flow_impl fuel f d start beh) <> OutOfFuel
    /\ (length (fst (exec_flow_impl fuel f d start beh)) <= dir_bound fuel (gdir f d))%nat.
Proof. exact flow_safe. Qed.
Print Assumptions C05_flow_safe.

(* ---- (d) the builder terminates; reference cycles ---------------------------- *)

(* The whole loader (structural checks, processor creation, builder with flow
   references, graph validation) never exhausts its budgets - build_fuel =
   number of flows + 2 nested incorporations, detect_fuel per direction - on ANY
   configuration, with or without reference cycles: the chain of flows being
   incorporated is duplicate-free. *)
Theorem C05_loader_terminates : forall cf allstarts,
  load_with true allstarts cf <> LoaderFuel.
Proof. exact load_no_fuel. Qed.
Print Assumptions C05_loader_terminates.

(* A flow one of whose request connections is `processor -> flow <itself> at
   start` is rejected (whatever else the configuration contains). *)
Theorem C05_self_reference_rejected : forall cf allstarts fc pre c post,
  In fc (cf_flows cf) ->
  fc_req fc = pre ++ c :: post -> refers_to c (fc_name fc) ->
  build_flow cf true allstarts fc = FBad.
Proof. exact self_reference_rejected. Qed.
Print Assumptions C05_self_reference_rejected.

(* Every reference cycle is rejected: if flow fc reaches itself through flow
   references written in direction d (`processor -> flow X at start` or `from
   flow X at end -> processor`, through any number of flows), building fc fails
   with an error - it neither succeeds nor exhausts the budget. *)
Theorem C05_reference_cycle_rejected : forall cf allstarts fc d,
  find_flow cf (fc_name fc) = Some fc ->
  ref_path cf d (fc_name fc) (fc_name fc) ->
  build_flow cf true allstarts fc = FBad.
Proof. exact reference_cycle_rejected. Qed.
Print Assumptions C05_reference_cycle_rejected.

(* its hypotheses on the three-flow cycle 1 -> 2 -> 3 -> 1 *)
Example C05_reference_cycle_witness :
  find_flow wc_config 1 = Some (wc_flow 1 1 2) /\ fc_name (wc_flow 1 1 2) = 1
  /\ ref_path wc_config Req 1 1.
Proof. split; [reflexivity|]. split; [reflexivity|exact wc_ref_path]. Qed.

(* ---- (b) the whole transaction ----------------------------------------------- *)

(* Accepted configuration, any flows selected among the loaded ones (which ones
   is C03's business), any behaviour of the processors: handling a request -
   including the response flows run after a processor answered it - and
   handling a response
     - never exhausts the budget [exec_fuel fs],
     - executes at most [req_bound] / [res_bound] processors
       (sum over the selected flows of (1 + max out-degree)^(budget + 1)),
     - ends with actions (None) or with the error "failed to get response node". *)
Theorem C05_transaction_safe : forall cf fs beh s s2,
  load cf = Accept fs ->
  sel_from fs s -> (forall s', s2 = Some s' -> sel_from fs s') ->
  let fuel := exec_fuel fs in
  (snd (run_req fuel beh s s2) = None \/ exists k, snd (run_req fuel beh s s2) = Some (NoRespNode k))
  /\ (length (fst (run_req fuel beh s s2)) <= req_bound fuel s s2)%nat
  /\ forall sc,
       (snd (run_res fuel beh s sc) = None \/ exists k, snd (run_res fuel beh s sc) = Some (NoRespNode k))
       /\ (length (fst (run_res fuel beh s sc)) <= res_bound fuel s)%nat.
Proof. exact transaction_safe. Qed.
Print Assumptions C05_transaction_safe.

(* ---- the pinned tree: why the two repairs are needed ------------------------- *)

(* F-C05a.  What the pinned validator promises would be: a flow whose two
   directions it accepts can be executed, from wherever the engine starts, with
   SOME budget. *)
Definition C05_pinned_validator_safe : Prop :=
  forall f, validate_dir false Req (freq f) = VOk -> validate_dir false Res (fres f) = VOk ->
  exists fuel, forall start beh, snd (exec_flow_impl fuel f Res start beh) <> OutOfFuel.

(* Refuted: stream -> F1 -hit-> Gen; response Gen -> T1 -hit-> T2 -hit-> T1 (no
   entry point) is accepted by the pinned validator (its search starts at the
   root's connections only and is skipped for a rootless response direction),
   and the continuation after Gen answered exhausts EVERY budget. *)
Theorem C05_pinned_validator_refuted : ~ C05_pinned_validator_safe.
Proof.
  intros H. destruct (H wa_flow) as [fuel N]; [vm_compute; reflexivity|vm_compute; reflexivity|].
  apply (N (Some 2) wa_beh). apply wa_handover_diverges.
Qed.
Print Assumptions C05_pinned_validator_refuted.

(* the same witness through the whole loader: accepted by the pinned one,
   rejected by the repaired one; and the repaired detector reports it *)
Example C05_pinned_loader_accepts_witness :
  verdict_code (load_pinned wa_config) = 0 /\ load wa_config = Reject 3
  /\ validate_dir true Res wa_res = VBad.
Proof. vm_compute. repeat split; reflexivity. Qed.

(* F-C05b.  What the pinned builder would have to satisfy: some budget is
   enough to build a flow's request connections. *)
Definition C05_pinned_builder_terminates : Prop :=
  forall cf fc, In fc (cf_flows cf) ->
  exists fuel, forall s,
    build_conns cf false (fc_name fc) Req fuel (fc_name fc) [fc_name fc] (fc_req fc) s <> BFuel.

(* Refuted: a flow that refers to itself (f1 -hit-> flow A at start, inside flow
   A) exhausts EVERY budget of the pinned builder (incorporateFlow recurses
   without end: the validator process dies instead of rejecting). *)
Theorem C05_pinned_builder_refuted : ~ C05_pinned_builder_terminates.
Proof.
  intros H.
  destruct (H wb_config (FC 1 true [PD 1 false 1 [1]] wb_req [CN ep_stream_start ep_stream_end]))
    as [fuel N]; [left; reflexivity|].
  apply (N (empty_bdir, None)). apply wb_builder_diverges.
Qed.
Print Assumptions C05_pinned_builder_refuted.

(* the repaired loader rejects it, and the three-flow cycle too *)
Example C05_reference_cycles_rejected :
  load wb_config = Reject 3 /\ load wc_config = Reject 3.
Proof. vm_compute. split; reflexivity. Qed.

(* ---- non-vacuity -------------------------------------------------------------- *)

(* The hypotheses of C05_transaction_safe are met by a configuration with a
   fan-out, a hand-over with two response connections and a flow incorporated on
   the response side: it is accepted, the graphs the builder made are the
   expected ones, both directions validate ... *)
Example C05_good_config_accepted :
  load wg_config = Accept wg_flows
  /\ map fname wg_flows = [1; 2]
  /\ freq wg_flow1
     = {| root := Some 1;
          nodes := [(1, [(1, Some 2); (1, Some 3); (2, None)]); (2, [(1, None)]); (3, [])] |}
  /\ fres wg_flow1
     = {| root := Some 4;
          nodes := [(4, [(1, None)]); (3, [(0, Some 4); (0, Some 5)]); (5, [(1, Some 6)]);
                    (6, [(1, None)])] |}
  /\ validate Req (freq wg_flow1) = true /\ validate Res (fres wg_flow1) = true
  /\ exec_fuel wg_flows = 8%nat.
Proof. vm_compute. repeat split; reflexivity. Qed.

Example C05_good_config_selection : sel_from wg_flows wg_sel.
Proof.
  repeat split; intros x I; try contradiction.
  vm_compute in I. destruct I as [E|[]]. subst x. vm_compute. left. reflexivity.
Qed.

(* ... and a request on which every Filter hits runs a, b, g, then - Gen having
   answered - t, u and the incorporated c on the response side, and ends with
   actions; a response runs t alone. *)
Example C05_good_config_runs :
  run_req (exec_fuel wg_flows) (beh_of wg_config [1; 2; 4; 5; 6]) wg_sel (Some wg_sel)
  = ([ {| e_flow := 1; e_key := 1; e_dir := Req; e_cond := 1 |};
       {| e_flow := 1; e_key := 2; e_dir := Req; e_cond := 1 |};
       {| e_flow := 1; e_key := 3; e_dir := Req; e_cond := 0 |};
       {| e_flow := 1; e_key := 4; e_dir := Res; e_cond := 1 |};
       {| e_flow := 1; e_key := 5; e_dir := Res; e_cond := 1 |};
       {| e_flow := 1; e_key := 6; e_dir := Res; e_cond := 1 |} ], None)
  /\ run_res (exec_fuel wg_flows) (beh_of wg_config [4]) wg_sel None
     = ([ {| e_flow := 1; e_key := 4; e_dir := Res; e_cond := 1 |} ], None).
Proof. vm_compute. split; reflexivity. Qed.

(* the detector's budget is met with equality on a chain, so the bound in
   C05_detector_terminates is not slack by more than a constant: a chain of 3
   connections needs 4 nested calls *)
Example C05_detector_budget_witness :
  let g := {| root := Some 1; nodes := [(1, [(1, Some 2)]); (2, [(1, Some 3)]); (3, [(1, Some 4)]); (4, [])] |} in
  detect_fuel g = 5%nat
  /\ dfs_nodes g 2 (nodes g) = DFuel /\ dfs_nodes g 3 (nodes g) = DOk.
Proof. vm_compute. repeat split; reflexivity. Qed.
