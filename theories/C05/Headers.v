(* C05 — the header block of a transaction (strengthening round 9, seed C05-12).

   Anchors:
     routing/messages_handler.go   readRequestArgs / readResponseArgs: the proxy hands
                                   the headers over as ONE string; the result of
                                   utils.ParseHeaders becomes OnRequest.Headers /
                                   OnResponse.Headers                  -> [parse_headers]
     utils/headers_transformations.go  ParseHeaders: textproto.ReadMIMEHeader on
                                   block ++ CR LF; on an error "will continue without
                                   any headers" = an EMPTY, ALLOCATED map  -> [parse_headers]
     actions/request_action_transformers.go, response_action_transformers.go
                                   (EnsureRequestIsUpdated / EnsureResponseIsUpdated:
                                   Headers[name] = value), messages (SetBody:
                                   Headers["content-length"] = ...), processors that get the
                                   "mutable map" (UserDefinedTraces, TransformAPICall,
                                   CustomScript, DataSanitation)           -> [hop], [run_ops]

   A Go map value is either nil or allocated.  Reading (look-up, len, range) and
   delete work on both; ASSIGNMENT to an entry of a nil map panics.  [hmap] keeps
   that distinction, [hop] is one operation on the header map, [run_ops] a
   transaction's operations in order (any list: every behaviour of the processors and
   action transformers), [HPanic] the panic in the SPOE worker.

   [nil_on_error] is the variant switch: [false] = the code (an unparsable block gives
   the empty map), [true] = seeded change C05-12 (it gives the nil map).

   The reader proper is external ([parser], a Section variable: every theorem holds for
   every reader).  [scan_block] is the small lexical class this model decides itself -
   blocks ReadMIMEHeader always refuses: the first byte is a space or a tab ("malformed
   MIME header initial line"), or the first line (up to LF, one trailing CR dropped) is
   non-empty and has no colon ("missing colon").  It is tied to the code by the
   correspondence suite `hdrs` (utils.ParseHeaders on every block of the harness'
   stream: 0 nil map, 1 empty map, 2 map with entries). *)
From Coq Require Import List ZArith Bool.
Import ListNotations.
Open Scope Z_scope.

Definition bytes := list Z.

Inductive hmap :=
| HNil                                 (* the nil map *)
| HMap (m : list (bytes * bytes)).     (* an allocated map (association list) *)

(* ---- the lexical class decided here ------------------------------------------ *)

Inductive bverdict := BRefused | BUnknown.

Fixpoint first_line (b : bytes) : bytes :=
  match b with
  | [] => []
  | c :: r => if c =? 10 then [] else c :: first_line r
  end.

Definition drop_cr (l : bytes) : bytes :=
  match rev l with
  | 13 :: r => rev r
  | _ => l
  end.

Definition has_colon (l : bytes) : bool := existsb (Z.eqb 58) l.

Definition scan_block (b : bytes) : bverdict :=
  match b with
  | [] => BUnknown
  | c :: _ =>
      if (c =? 32) || (c =? 9) then BRefused
      else match drop_cr (first_line b) with
           | [] => BUnknown
           | l => if has_colon l then BUnknown else BRefused
           end
  end.

(* ---- ParseHeaders -------------------------------------------------------------- *)

Section Parse.
  (* textproto.ReadMIMEHeader + first value + lower-casing on the blocks the scanner
     does not decide: None = refused *)
  Variable parser : bytes -> option (list (bytes * bytes)).

  Definition read_block (b : bytes) : option (list (bytes * bytes)) :=
    match scan_block b with
    | BRefused => None
    | BUnknown => parser b
    end.

  Definition parse_headers (nil_on_error : bool) (b : bytes) : hmap :=
    match read_block b with
    | Some m => HMap m
    | None => if nil_on_error then HNil else HMap []
    end.
End Parse.

(* ---- operations on the header map ---------------------------------------------- *)

Inductive hop :=
| HGet (k : bytes)          (* Headers[k], GetHeader, DoesHeaderExist *)
| HLen                      (* len(Headers) *)
| HRange                    (* for k, v := range Headers (DumpHeaders, copies, metrics) *)
| HDelete (k : bytes)       (* delete(Headers, k) *)
| HSet (k v : bytes).       (* Headers[k] = v *)

Definition is_set (o : hop) : bool := match o with HSet _ _ => true | _ => false end.

Fixpoint beq_bytes (a b : bytes) : bool :=
  match a, b with
  | [], [] => true
  | x :: a', y :: b' => (x =? y) && beq_bytes a' b'
  | _, _ => false
  end.

Definition remove_key (k : bytes) (m : list (bytes * bytes)) : list (bytes * bytes) :=
  filter (fun e => negb (beq_bytes (fst e) k)) m.

Inductive houtcome := HPanic | HDone (h : hmap).

Definition step_op (h : hmap) (o : hop) : houtcome :=
  match o, h with
  | HSet _ _, HNil => HPanic                                  (* assignment to entry in nil map *)
  | HSet k v, HMap m => HDone (HMap ((k, v) :: remove_key k m))
  | HDelete _, HNil => HDone HNil
  | HDelete k, HMap m => HDone (HMap (remove_key k m))
  | _, _ => HDone h
  end.

Fixpoint run_ops (h : hmap) (ops : list hop) : houtcome :=
  match ops with
  | [] => HDone h
  | o :: r => match step_op h o with
              | HPanic => HPanic
              | HDone h' => run_ops h' r
              end
  end.

(* the header part of one transaction: the block is read, then the processors and the
   action transformers operate on the map *)
Definition txn_headers (parser : bytes -> option (list (bytes * bytes))) (nil_on_error : bool)
           (b : bytes) (ops : list hop) : houtcome :=
  run_ops (parse_headers parser nil_on_error b) ops.

(* ---- correspondence suite `hdrs` ------------------------------------------------ *)

Definition hmap_class (h : hmap) : Z :=
  match h with
  | HNil => 0
  | HMap [] => 1
  | HMap _ => 2
  end.

(* a block, "the harness expects the scanner to call it refused", observed class.
   A block the scanner does not decide makes the case void - or a mismatch (98) when
   the harness claimed otherwise. *)
Inductive case_hdrs := HdrCase (b : bytes) (claimed : bool) (cls : Z).

Definition run_hdrs_with (nil_on_error : bool) (k : case_hdrs) : option Z :=
  let '(HdrCase b claimed cls) := k in
  match scan_block b with
  | BUnknown => if claimed then Some 98 else None
  | BRefused =>
      let m := hmap_class (parse_headers (fun _ => None) nil_on_error b) in
      if m =? cls then None else Some m
  end.

Definition run_hdrs : case_hdrs -> option Z := run_hdrs_with false.
