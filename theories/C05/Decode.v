(* C05 — the decode step of the loader as an explicit stage, and the loader over
   FILES (bytes) instead of decoded configurations.

   Anchors:
     libs/toolkit-core/configuration/yaml.go  DecodeYAML / UnmarshalPolicyRawData
                                                                  -> [decode], [unmarshal]
     streams/resources/quota/quota_loader.go  loadAndParseQuotaFiles      -> [quota_stage]
     streams/resources/path_params/path_params.go
                                  loadAndParsePathParamsFiles, storePathParams -> [pparam_stage]
     streams/config/streams.utils.go          GetFlows, ReadStreamFlowConfig -> [flow_stage]
     streams/processors/processor_util.go     Init, readProcessorConfig   -> [procdef_stage]
     streams/streams.go                       NewValidationStream + Initialize (order of
                                              the stages)                 -> [load_dir]

   decode : bytes -> DocNone | DocErr | Doc a.  yaml.Unmarshal into a pointer
   leaves the pointer nil when the input holds NO document (nothing but blank
   lines, comments, document markers) or a NULL document (null, ~), returns an
   error when the first document is not a mapping of the expected type, and
   otherwise fills an object.  The lexical part of that - everything that can
   be decided without knowing the schema - is [scan] below, a function of the
   BYTES; it is tied to yaml.v3 by the correspondence suite `files` (fixed shapes
   and random compositions of degenerate lines through the real loader).  The
   decoder on files with real content is external ([parse_*], Section
   variables: every theorem holds for every such decoder).

   UnmarshalPolicyRawData replaces a nil result by an empty object ("callers
   always get a non-nil UnmarshaledData"), and every caller dereferences the
   result unconditionally.  [alloc_nil] is that post-check: [true] = the code;
   [false] = only BLANK input gets an empty object (seeded change C05-8), and
   the callers' dereference of the nil pointer is the outcome [OPanic site].

   [ppguard] = fix-F-C05m present (storePathParams checks list entries for nil;
   without it an empty list entry `path_params:\n  -` is a nil-pointer panic).

   The model describes the code WITH fix-F-C05m; [load_files] is the loader. *)
From Coq Require Import List ZArith Bool.
From Verif Require Import C04.Model C05.Model.
Import ListNotations.
Open Scope Z_scope.

(* ------------------------------------------------------------ lexical stage *)

Inductive scanres :=
| SNone       (* no document, or a null document: the target pointer stays nil *)
| SEmptyMap   (* the first document is the empty mapping {} *)
| SErr        (* the decoder returns an error *)
| SOther.     (* not decided here: a document with content (or bytes outside the
                 class this scanner claims) - the external decoder's business *)

Fixpoint eqb_list (a b : list Z) : bool :=
  match a, b with
  | [], [] => true
  | x :: r, y :: s => (x =? y) && eqb_list r s
  | _, _ => false
  end.

(* lines end at LF or CR *)
Fixpoint lines_aux (b : list Z) (cur : list Z) : list (list Z) :=
  match b with
  | [] => [rev cur]
  | c :: r => if (c =? 10) || (c =? 13) then rev cur :: lines_aux r [] else lines_aux r (c :: cur)
  end.
Definition lines (b : list Z) : list (list Z) := lines_aux b [].

Fixpoint strip_sp (l : list Z) (n : nat) : nat * list Z :=
  match l with
  | 32 :: r => strip_sp r (S n)
  | _ => (n, l)
  end.

(* the part of the line before a comment: '#' at the start or after a space *)
Fixpoint uncomment (l : list Z) (prev_space : bool) : list Z :=
  match l with
  | [] => []
  | c :: r => if (c =? 35) && prev_space then [] else c :: uncomment r (c =? 32)
  end.

Definition rstrip (l : list Z) : list Z := rev (snd (strip_sp (rev l) 0)).

Inductive content := CNothing | CNull | CMap.

(* [cm]: the value is followed by a comment on the same line (which ends a plain scalar) *)
Inductive ltok :=
| TBlank                             (* nothing but spaces *)
| TComment                           (* a comment and nothing else *)
| TStart (c : content) (cm : bool)   (* --- [value] at column 0 *)
| TEnd                               (* ... at column 0 *)
| TVal (c : content) (cm : bool)     (* null / ~ / {} on its own line *)
| TOther.

Definition value_of (body : list Z) : option content :=
  if eqb_list body [110; 117; 108; 108] || eqb_list body [78; 117; 108; 108]
     || eqb_list body [78; 85; 76; 76] || eqb_list body [126] then Some CNull
  else if eqb_list body [123; 125] then Some CMap
  else None.

Definition classify_line (l : list Z) : ltok :=
  let '(n, rest) := strip_sp l 0 in
  let code := uncomment rest true in
  let cm := negb (length code =? length rest)%nat in
  let body := rstrip code in
  match body with
  | [] => if cm then TComment else TBlank
  | [45; 45; 45] => match n with O => TStart CNothing cm | _ => TOther end
  | 45 :: 45 :: 45 :: 32 :: v =>
      match n with
      | O => match value_of (snd (strip_sp v 0)) with
             | Some c => TStart c cm
             | None => TOther
             end
      | _ => TOther
      end
  | [46; 46; 46] => match n with O => TEnd | _ => TOther end
  | _ => match value_of body with
         | Some c => TVal c cm
         | None => TOther
         end
  end.

(* Before: nothing of a document seen; Started: an explicit --- without a value;
   OpenNull: a plain null scalar that the next line may continue *)
Inductive dstate := Before | Started | OpenNull.

(* a value met where a document may begin *)
Definition on_value (c : content) (cm : bool) (k : dstate -> scanres) : scanres :=
  match c with
  | CNothing => k Started
  | CMap => SEmptyMap
  | CNull => if cm then SNone else k OpenNull
  end.

(* Only the FIRST document is read: once it is complete the rest of the file is
   not looked at. *)
Fixpoint run_tokens (st : dstate) (ts : list ltok) : scanres :=
  match ts with
  | [] => SNone
  | t :: r =>
      match t with
      | TOther => SOther
      | TBlank => run_tokens st r
      | TComment => match st with
                    | OpenNull => SNone                (* a comment ends the scalar *)
                    | _ => run_tokens st r
                    end
      | TEnd => match st with
                | Before => SErr                      (* "did not find expected node content" *)
                | _ => SNone
                end
      | TStart c cm => match st with
                       | Before => on_value c cm (fun st' => run_tokens st' r)
                       | _ => SNone                    (* the next document *)
                       end
      | TVal c cm => match st with
                     | OpenNull => SErr                (* the scalar goes on: a string, not null *)
                     | _ => on_value c cm (fun st' => run_tokens st' r)
                     end
      end
  end.

(* one UTF-8 byte-order mark at the start is skipped *)
Definition strip_bom (b : list Z) : list Z :=
  match b with
  | 239 :: 187 :: 191 :: r => r
  | _ => b
  end.

(* a byte the scanner claims nothing about - anywhere in the file: tabs (whether
   a tab is white space depends on the decoder's state), other control
   characters, DEL, anything outside ASCII *)
Definition odd_byte (c : Z) : bool :=
  ((c <? 32) && negb ((c =? 10) || (c =? 13))) || (126 <? c).

Definition scan (b : list Z) : scanres :=
  let b' := strip_bom b in
  if existsb odd_byte b' then SOther
  else run_tokens Before (map classify_line (lines b')).

(* bytes.TrimSpace(data) is empty (ASCII part: tab, LF, VT, FF, CR, space) *)
Definition is_blank (b : list Z) : bool :=
  forallb (fun c => ((9 <=? c) && (c <=? 13)) || (c =? 32)) b.

(* ------------------------------------------------------------- decode step *)

Inductive doc (A : Type) := DocNone | DocErr | Doc (a : A).
Arguments DocNone {A}.
Arguments DocErr {A}.
Arguments Doc {A} a.

(* a file: its bytes, or - for a file the harness rendered from a structure -
   the structure (decoding such a file gives it back: the trust of suite `load`) *)
Inductive file (A : Type) := Bytes (b : list Z) | Rendered (a : A).
Arguments Bytes {A} b.
Arguments Rendered {A} a.

(* what the caller of DecodeYAML holds: an error, an object, or - no error and -
   a nil pointer *)
Inductive decoded (A : Type) := DNil | DError | DObj (a : A).
Arguments DNil {A}.
Arguments DError {A}.
Arguments DObj {A} a.

Section Decode.
  Variable A : Type.
  Variable empty : A.                 (* the zero value of the decoded type *)
  Variable parse : list Z -> doc A.   (* the decoder on files with content (external) *)

  Definition decode (b : list Z) : doc A :=
    match scan b with
    | SNone => DocNone
    | SErr => DocErr
    | SEmptyMap => Doc empty
    | SOther => parse b
    end.

  Definition decode_file (f : file A) : doc A :=
    match f with
    | Bytes b => decode b
    | Rendered a => Doc a
    end.

  Definition blank_file (f : file A) : bool :=
    match f with Bytes b => is_blank b | Rendered _ => false end.

  (* UnmarshalPolicyRawData.  [alloc_nil = true] is the tree: decode, then the
     post-check replaces a nil pointer by an empty object.  [alloc_nil = false]
     is seeded change C05-8 in ITS order: bytes.TrimSpace(data) empty => an empty
     object BEFORE the decoder is asked (so also for a blank file with a tab,
     which the scanner leaves to the decoder proper), otherwise decode without
     the post-check (audit 2: the blankness test used to come after decoding). *)
  Definition unmarshal_post (alloc_nil : bool) (d : doc A) : decoded A :=
    match d with
    | DocErr => DError
    | Doc a => DObj a
    | DocNone => if alloc_nil then DObj empty else DNil
    end.

  Definition unmarshal (alloc_nil : bool) (f : file A) : decoded A :=
    if alloc_nil then unmarshal_post true (decode_file f)
    else if blank_file f then DObj empty
    else unmarshal_post false (decode_file f).
End Decode.

(* ------------------------------------------------------ the decoded types *)

(* quota file: the `quotas` key holds a list; the rest of the quota loader
   (struct validation, provider validation, NewQuota) accepts it - not
   modelled, an input *)
Record qdoc := QD { qd_quotas : bool; qd_valid : bool }.
(* path-params file: some list entry is empty (a nil pointer after decoding) *)
Record pdoc := PP { pp_null_entry : bool }.
(* processor definition whose name is not in the factory table (it is ignored) *)
Inductive ddoc := DDef.

Definition empty_flow : flowcfg := FC 0 false [] [] [].
Definition empty_qdoc : qdoc := QD false false.
Definition empty_pdoc : pdoc := PP false.

Record dirs := DIR { d_quotas : list (file qdoc); d_pparams : list (file pdoc);
                     d_flows : list (file flowcfg); d_procdefs : list (file ddoc) }.

(* sites of the nil dereference: 1 ReadStreamFlowConfig, 4 loadAndParseQuotaFiles,
   5 readProcessorConfig, 6 loadAndParsePathParamsFiles, 7 storePathParams.
   stages of a rejection: 1 flow files, 2 processors, 3 flow graphs (as in
   Model.v), 4 quota files (NewValidationStream), 5 processor definitions *)
Inductive outcome :=
| OPanic (site : Z)
| OReject (stage : Z)
| OAccept (fs : list flow)
| OFuel.

Definition of_verdict (v : verdict) : outcome :=
  match v with
  | Accept fs => OAccept fs
  | Reject s => OReject s
  | LoaderFuel => OFuel
  end.

Inductive fstage := FSOut (o : outcome) | FSFlows (l : list flowcfg).

Section Loader.
  Variable parse_q : list Z -> doc qdoc.
  Variable parse_p : list Z -> doc pdoc.
  Variable parse_f : list Z -> doc flowcfg.
  Variable parse_d : list Z -> doc ddoc.
  Variable alloc_nil : bool.
  Variable ppguard : bool.

  (* loadAndParseQuotaFiles: the first file that cannot be used ends the load *)
  Fixpoint quota_stage (qs : list (file qdoc)) : option outcome :=
    match qs with
    | [] => None
    | f :: r =>
        match unmarshal qdoc empty_qdoc parse_q alloc_nil f with
        | DNil => Some (OPanic 4)
        | DError => Some (OReject 4)
        | DObj q => if qd_quotas q && qd_valid q then quota_stage r
                    else Some (OReject 4)        (* "quota part is missing" / invalid *)
        end
    end.

  (* loadAndParsePathParamsFiles: an error is LOGGED by its caller and the
     remaining files are not read; it never rejects *)
  Fixpoint pparam_stage (ps : list (file pdoc)) : option outcome :=
    match ps with
    | [] => None
    | f :: r =>
        match unmarshal pdoc empty_pdoc parse_p alloc_nil f with
        | DNil => Some (OPanic 6)
        | DError => None
        | DObj p => if pp_null_entry p
                    then (if ppguard then None else Some (OPanic 7))
                    else pparam_stage r
        end
    end.

  (* GetFlows: a file that cannot be read or fails validateFlowRepresentation is
     noted and skipped; a duplicate name ends the loop at once; afterwards (in
     validation mode) any noted error rejects *)
  Fixpoint flow_stage (fs : list (file flowcfg)) (seen : list Z) (bad : bool) (acc : list flowcfg)
    : fstage :=
    match fs with
    | [] => if bad then FSOut (OReject 1) else FSFlows (rev acc)
    | f :: r =>
        match unmarshal flowcfg empty_flow parse_f alloc_nil f with
        | DNil => FSOut (OPanic 1)
        | DError => flow_stage r seen true acc
        | DObj fc =>
            if negb (flow_struct_ok fc) then flow_stage r seen true acc
            else if memZ (fc_name fc) seen then FSOut (OReject 1)
            else flow_stage r (fc_name fc :: seen) bad (fc :: acc)
        end
    end.

  (* ProcessorManager.Init *)
  Fixpoint procdef_stage (ds : list (file ddoc)) : option outcome :=
    match ds with
    | [] => None
    | f :: r =>
        match unmarshal ddoc DDef parse_d alloc_nil f with
        | DNil => Some (OPanic 5)
        | DError => Some (OReject 5)
        | DObj _ => procdef_stage r
        end
    end.

  (* "some quota is defined" = some quota file DECODES to a usable quota document
     (audit 2, C05-2: a function of the decoded documents, as in the code - the
     quota loader registers what UnmarshalPolicyRawData returned, whether the
     file was rendered by the harness or written as bytes) *)
  Definition usable_quota (f : file qdoc) : bool :=
    match unmarshal qdoc empty_qdoc parse_q alloc_nil f with
    | DObj q => qd_quotas q && qd_valid q
    | _ => false
    end.

  Definition quota_defined (qs : list (file qdoc)) : bool := existsb usable_quota qs.

  Definition load_dir (d : dirs) : outcome :=
    match quota_stage (d_quotas d) with
    | Some o => o
    | None =>
        match pparam_stage (d_pparams d) with
        | Some o => o
        | None =>
            match flow_stage (d_flows d) [] false [] with
            | FSOut o => o
            | FSFlows l =>
                match procdef_stage (d_procdefs d) with
                | Some o => o
                | None => of_verdict (load (CF l (quota_defined (d_quotas d))))
                end
            end
        end
    end.
End Loader.

(* the loader of the tree (with fix-F-C05m); the seeded decoder; the tree without fix m *)
Definition load_files pq pp pf pd : dirs -> outcome := load_dir pq pp pf pd true true.
Definition load_files_nil pq pp pf pd : dirs -> outcome := load_dir pq pp pf pd false true.
Definition load_files_unguarded pq pp pf pd : dirs -> outcome := load_dir pq pp pf pd true false.

(* ------------------------------------------------- the gateway's START-UP mode *)

(* [flow_stage] / [load_dir] above are GetFlows as the VALIDATION paths use it
   (NewValidationStream / validate_flows / load_flows dry-run: Stream.getFlows
   with validationMode = true returns the joined error).  At gateway start-up
   (NewStream().Initialize(), validationMode = false, streams.go:267-277) the
   same joined error is only LOGGED when at least one flow was read
   ("Part of flows have errors and have been skipped") and the flows that were
   read are loaded; with no flow read it is returned; a duplicate name makes
   GetFlows return no flows at all, so it is returned as well.  The other
   stages (quota loader, path parameters, processor definitions, builder) do
   not look at the mode.  Audit 2, item 8.  NO suite evaluates this variant
   (the `files` suite drives the validation path): its tie to streams.go is by
   reading; the theorems about it say how far it can differ from [load_dir]. *)
Section Startup.
  Variable parse_q : list Z -> doc qdoc.
  Variable parse_p : list Z -> doc pdoc.
  Variable parse_f : list Z -> doc flowcfg.
  Variable parse_d : list Z -> doc ddoc.
  Variable alloc_nil : bool.
  Variable ppguard : bool.

  Definition none_read (acc : list flowcfg) : bool :=
    match acc with [] => true | _ :: _ => false end.

  Fixpoint flow_stage_startup (fs : list (file flowcfg)) (seen : list Z) (bad : bool)
           (acc : list flowcfg) : fstage :=
    match fs with
    | [] => if bad && none_read acc then FSOut (OReject 1) else FSFlows (rev acc)
    | f :: r =>
        match unmarshal flowcfg empty_flow parse_f alloc_nil f with
        | DNil => FSOut (OPanic 1)
        | DError => flow_stage_startup r seen true acc
        | DObj fc =>
            if negb (flow_struct_ok fc) then flow_stage_startup r seen true acc
            else if memZ (fc_name fc) seen then FSOut (OReject 1)
            else flow_stage_startup r (fc_name fc :: seen) bad (fc :: acc)
        end
    end.

  Definition load_dir_startup (d : dirs) : outcome :=
    match quota_stage parse_q alloc_nil (d_quotas d) with
    | Some o => o
    | None =>
        match pparam_stage parse_p alloc_nil ppguard (d_pparams d) with
        | Some o => o
        | None =>
            match flow_stage_startup (d_flows d) [] false [] with
            | FSOut o => o
            | FSFlows l =>
                match procdef_stage parse_d alloc_nil (d_procdefs d) with
                | Some o => o
                | None => of_verdict (load (CF l (quota_defined parse_q alloc_nil (d_quotas d))))
                end
            end
        end
    end.
End Startup.

Definition load_files_startup pq pp pf pd : dirs -> outcome :=
  load_dir_startup pq pp pf pd true true.

(* ---------------------------------------------------- correspondence entry *)

Definition outcome_code (o : outcome) : Z :=
  match o with
  | OAccept _ => 0
  | OReject s => s
  | OFuel => 7
  | OPanic _ => 8
  end.

Definition unclaimed {A : Type} (f : file A) : bool :=
  match f with
  | Bytes b => match scan b with SOther => true | _ => false end
  | Rendered _ => false
  end.

(* suite "files": the files of the four directories in the order the loader
   reads them; [claimed] = the harness expects every Bytes file to be decided by
   the scanner; observed code: 0 accepted, 1 / 2 / 3 / 4 / 5 rejected at that
   stage, 8 panic, 9 no answer.  A file the scanner does not decide makes the
   case void (None) - or a mismatch (98) when the harness claimed otherwise.

   [qdec] (extension 4): the decoder's answer on BYTE quota files with content -
   a table bytes -> quota document supplied by the harness for the files it
   wrote as raw bytes from a valid quota document (with comments, blank lines,
   markers around): the same trust as [Rendered], but the bytes go through
   [scan] (which must leave them to the decoder: SOther), [unmarshal],
   [quota_stage] and [quota_defined].  Such a file does not void the case;
   every other file the scanner does not decide still does. *)
Inductive case_files :=
  FilesCase (qs : list (file qdoc)) (ps : list (file pdoc)) (fs : list (file flowcfg))
            (ds : list (file ddoc)) (claimed : bool) (code : Z)
            (qdec : list (list Z * qdoc)).

Fixpoint qlookup (t : list (list Z * qdoc)) (b : list Z) : doc qdoc :=
  match t with
  | [] => DocErr
  | (k, q) :: r => if eqb_list k b then Doc q else qlookup r b
  end.

Definition qunclaimed (t : list (list Z * qdoc)) (f : file qdoc) : bool :=
  unclaimed f
  && match f with
     | Bytes b => match qlookup t b with Doc _ => false | _ => true end
     | Rendered _ => false
     end.

Definition run_files_with (loader : (list Z -> doc qdoc) -> dirs -> outcome) (k : case_files) : option Z :=
  let '(FilesCase qs ps fs ds claimed code qdec) := k in
  if existsb (qunclaimed qdec) qs || existsb unclaimed ps || existsb unclaimed fs || existsb unclaimed ds
  then (if claimed then Some 98 else None)
  else
    let m := outcome_code (loader (qlookup qdec) (DIR qs ps fs ds)) in
    if m =? code then None else Some m.

Definition run_files : case_files -> option Z :=
  run_files_with (fun pq => load_files pq (fun _ => DocErr) (fun _ => DocErr) (fun _ => DocErr)).

(* the same against the seeded decoder (C05-8): used once, on a tree with that
   change, to check that the scanner tells "no document" (nil pointer, panic)
   from "empty mapping" (an object) - on the tree itself the two are
   indistinguishable (harness: C05_FILES_VARIANT=nil) *)
Definition run_files_nil : case_files -> option Z :=
  run_files_with (fun pq => load_files_nil pq (fun _ => DocErr) (fun _ => DocErr) (fun _ => DocErr)).
