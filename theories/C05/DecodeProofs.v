(* C05 — lemmas about the decode stage and the loader over files (Decode.v). *)
From Coq Require Import List ZArith Bool Lia.
From Verif Require Import C04.Model C05.Model C05.Proofs C05.Decode.
Import ListNotations.
Open Scope Z_scope.

(* ------------------------------------------------------------ the scanner *)

(* a file of blank lines, comment lines and document-start markers holds no document *)
Definition no_content (t : ltok) : Prop :=
  t = TBlank \/ t = TComment \/ exists cm, t = TStart CNothing cm.

Lemma run_tokens_no_content : forall ts,
  Forall no_content ts ->
  run_tokens Before ts = SNone /\ run_tokens Started ts = SNone /\ run_tokens OpenNull ts = SNone.
Proof.
  induction 1 as [|t ts Ht _ IH]; [repeat split; reflexivity|].
  destruct IH as [IHb [IHs IHo]].
  destruct Ht as [-> | [-> | [cm ->]]]; cbn [run_tokens on_value]; auto.
Qed.

(* ... and a null value (null, ~) after them does not change that *)
Lemma run_tokens_then_null : forall ts rest cm,
  Forall no_content ts ->
  Forall no_content rest ->
  run_tokens Before (ts ++ TVal CNull cm :: rest) = SNone.
Proof.
  intros ts rest cm Hts Hrest.
  assert (E : run_tokens OpenNull rest = SNone) by (apply (run_tokens_no_content rest Hrest)).
  assert (G : forall st, st = Before \/ st = Started ->
                         run_tokens st (ts ++ TVal CNull cm :: rest) = SNone).
  { induction Hts as [|t ts Ht _ IH]; intros st Hst.
    - cbn [app run_tokens on_value].
      destruct Hst as [-> | ->]; destruct cm; auto.
    - destruct Ht as [-> | [-> | [cm' ->]]]; cbn [app run_tokens on_value].
      + apply IH; exact Hst.
      + destruct Hst as [-> | ->]; apply IH; auto.
      + destruct Hst as [-> | ->]; [apply IH; right; reflexivity|reflexivity]. }
  apply G. left. reflexivity.
Qed.

(* ------------------------------------------------------------- unmarshal *)

Lemma unmarshal_alloc_not_nil : forall A empty parse f,
  unmarshal A empty parse true f <> DNil.
Proof.
  intros. unfold unmarshal. destruct (decode_file A empty parse f); cbn; congruence.
Qed.

Definition undecodable {A : Type} (empty : A) (parse : list Z -> doc A) (f : file A) : Prop :=
  decode_file A empty parse f = DocNone \/ decode_file A empty parse f = DocErr.

Lemma unmarshal_undecodable : forall A empty parse f,
  undecodable empty parse f ->
  unmarshal A empty parse true f = DObj empty \/ unmarshal A empty parse true f = DError.
Proof.
  intros A empty parse f [E|E]; unfold unmarshal; rewrite E; cbn; auto.
Qed.

Lemma unmarshal_obj_doc : forall A empty parse f a,
  unmarshal A empty parse true f = DObj a ->
  decode_file A empty parse f = Doc a \/ (decode_file A empty parse f = DocNone /\ a = empty).
Proof.
  intros A empty parse f a. unfold unmarshal.
  destruct (decode_file A empty parse f); cbn; intros E; inversion E; auto.
Qed.

Section Stages.
  Variable parse_q : list Z -> doc qdoc.
  Variable parse_p : list Z -> doc pdoc.
  Variable parse_f : list Z -> doc flowcfg.
  Variable parse_d : list Z -> doc ddoc.

  Notation qstage := (quota_stage parse_q true).
  Notation pstage := (pparam_stage parse_p true true).
  Notation fstage_ := (flow_stage parse_f true).
  Notation dstage := (procdef_stage parse_d true).
  Notation loadf := (load_files parse_q parse_p parse_f parse_d).

  (* ---- the stages never hand a nil pointer to anybody *)

  Lemma quota_stage_alloc : forall qs,
    qstage qs = None \/ qstage qs = Some (OReject 4).
  Proof.
    induction qs as [|f r IH]; cbn [quota_stage]; auto.
    destruct (unmarshal qdoc empty_qdoc parse_q true f) eqn:E.
    - exfalso. eapply unmarshal_alloc_not_nil; eauto.
    - auto.
    - destruct (qd_quotas a && qd_valid a); auto.
  Qed.

  Lemma pparam_stage_none : forall ps, pstage ps = None.
  Proof.
    induction ps as [|f r IH]; cbn [pparam_stage]; auto.
    destruct (unmarshal pdoc empty_pdoc parse_p true f) eqn:E.
    - exfalso. eapply unmarshal_alloc_not_nil; eauto.
    - reflexivity.
    - destruct (pp_null_entry a); auto.
  Qed.

  Lemma flow_stage_alloc : forall fs seen bad acc,
    (exists l, fstage_ fs seen bad acc = FSFlows l) \/ fstage_ fs seen bad acc = FSOut (OReject 1).
  Proof.
    induction fs as [|f r IH]; intros seen bad acc; cbn [flow_stage].
    - destruct bad; eauto.
    - destruct (unmarshal flowcfg empty_flow parse_f true f) eqn:E.
      + exfalso. eapply unmarshal_alloc_not_nil; eauto.
      + apply IH.
      + destruct (negb (flow_struct_ok a)); [apply IH|].
        destruct (memZ (fc_name a) seen); [auto|apply IH].
  Qed.

  Lemma procdef_stage_alloc : forall ds,
    dstage ds = None \/ dstage ds = Some (OReject 5).
  Proof.
    induction ds as [|f r IH]; cbn [procdef_stage]; auto.
    destruct (unmarshal ddoc DDef parse_d true f) eqn:E.
    - exfalso. eapply unmarshal_alloc_not_nil; eauto.
    - auto.
    - exact IH.
  Qed.

  Lemma of_verdict_not_panic : forall v s, of_verdict v <> OPanic s.
  Proof. destruct v; cbn; congruence. Qed.

  Lemma load_files_never_panics : forall d s, loadf d <> OPanic s.
  Proof.
    intros d s. unfold load_files, load_dir.
    destruct (quota_stage_alloc (d_quotas d)) as [-> | ->]; [|congruence].
    rewrite pparam_stage_none.
    destruct (flow_stage_alloc (d_flows d) [] false []) as [[l ->] | ->]; [|congruence].
    destruct (procdef_stage_alloc (d_procdefs d)) as [-> | ->]; [|congruence].
    apply of_verdict_not_panic.
  Qed.

  Lemma load_files_no_fuel : forall d, loadf d <> OFuel.
  Proof.
    intros d. unfold load_files, load_dir.
    destruct (quota_stage_alloc (d_quotas d)) as [-> | ->]; [|congruence].
    rewrite pparam_stage_none.
    destruct (flow_stage_alloc (d_flows d) [] false []) as [[l ->] | ->]; [|congruence].
    destruct (procdef_stage_alloc (d_procdefs d)) as [-> | ->]; [|congruence].
    pose proof (load_no_fuel (CF l (quota_defined parse_q true (d_quotas d))) true) as H.
    unfold load. destruct (load_with true true (CF l (quota_defined parse_q true (d_quotas d)))); cbn; congruence.
  Qed.

  (* ---- a flow file without a document / that cannot be decoded *)

  Lemma empty_flow_not_ok : flow_struct_ok empty_flow = false.
  Proof. reflexivity. Qed.

  Lemma flow_stage_bad : forall fs seen acc, fstage_ fs seen true acc = FSOut (OReject 1).
  Proof.
    induction fs as [|f r IH]; intros seen acc; cbn [flow_stage]; [reflexivity|].
    destruct (unmarshal flowcfg empty_flow parse_f true f) eqn:E.
    - exfalso. eapply unmarshal_alloc_not_nil; eauto.
    - apply IH.
    - destruct (negb (flow_struct_ok a)); [apply IH|].
      destruct (memZ (fc_name a) seen); [reflexivity|apply IH].
  Qed.

  Lemma flow_stage_undecodable : forall fs f,
    In f fs -> undecodable empty_flow parse_f f ->
    forall seen bad acc, fstage_ fs seen bad acc = FSOut (OReject 1).
  Proof.
    induction fs as [|g r IH]; intros f Hin Hu seen bad acc; [contradiction|].
    cbn [flow_stage]. destruct Hin as [-> | Hin].
    - destruct (unmarshal_undecodable _ _ _ _ Hu) as [-> | ->].
      + rewrite empty_flow_not_ok. cbn [negb]. apply flow_stage_bad.
      + apply flow_stage_bad.
    - destruct (unmarshal flowcfg empty_flow parse_f true g) eqn:E.
      + exfalso. eapply unmarshal_alloc_not_nil; eauto.
      + apply flow_stage_bad.
      + destruct (negb (flow_struct_ok a)); [apply flow_stage_bad|].
        destruct (memZ (fc_name a) seen); [reflexivity|eapply IH; eauto].
  Qed.

  Lemma docless_flow_rejected : forall d f,
    In f (d_flows d) -> undecodable empty_flow parse_f f ->
    (qstage (d_quotas d) = None /\ loadf d = OReject 1)
    \/ (qstage (d_quotas d) = Some (OReject 4) /\ loadf d = OReject 4).
  Proof.
    intros d f Hin Hu. unfold load_files, load_dir.
    destruct (quota_stage_alloc (d_quotas d)) as [E | E]; rewrite E; [left|right; auto].
    split; [reflexivity|].
    rewrite pparam_stage_none.
    rewrite (flow_stage_undecodable _ _ Hin Hu). reflexivity.
  Qed.

  (* ---- a quota file without a document / that cannot be decoded *)

  Lemma quota_stage_undecodable : forall qs f,
    In f qs -> undecodable empty_qdoc parse_q f -> qstage qs = Some (OReject 4).
  Proof.
    induction qs as [|g r IH]; intros f Hin Hu; [contradiction|].
    cbn [quota_stage]. destruct Hin as [-> | Hin].
    - destruct (unmarshal_undecodable _ _ _ _ Hu) as [-> | ->]; reflexivity.
    - destruct (unmarshal qdoc empty_qdoc parse_q true g) eqn:E.
      + exfalso. eapply unmarshal_alloc_not_nil; eauto.
      + reflexivity.
      + destruct (qd_quotas a && qd_valid a); [eapply IH; eauto|reflexivity].
  Qed.

  Lemma docless_quota_rejected : forall d f,
    In f (d_quotas d) -> undecodable empty_qdoc parse_q f -> loadf d = OReject 4.
  Proof.
    intros d f Hin Hu. unfold load_files, load_dir.
    rewrite (quota_stage_undecodable _ _ Hin Hu). reflexivity.
  Qed.

  (* ---- path-parameter files never change the verdict; processor-definition
     files only when the decoder returns an error *)

  Lemma pparams_irrelevant : forall qs ps fs ds,
    loadf (DIR qs ps fs ds) = loadf (DIR qs [] fs ds).
  Proof.
    intros. unfold load_files, load_dir. cbn [d_quotas d_pparams d_flows d_procdefs].
    rewrite pparam_stage_none. reflexivity.
  Qed.

  Lemma procdef_stage_no_err : forall ds,
    (forall f, In f ds -> decode_file ddoc DDef parse_d f <> DocErr) -> dstage ds = None.
  Proof.
    induction ds as [|f r IH]; intros H; cbn [procdef_stage]; [reflexivity|].
    destruct (unmarshal ddoc DDef parse_d true f) eqn:E.
    - exfalso. eapply unmarshal_alloc_not_nil; eauto.
    - exfalso. apply (H f); [left; reflexivity|].
      unfold unmarshal in E. destruct (decode_file ddoc DDef parse_d f); cbn in E; congruence.
    - apply IH. intros g Hg. apply H. right. exact Hg.
  Qed.

  Lemma procdefs_irrelevant : forall qs ps fs ds,
    (forall f, In f ds -> decode_file ddoc DDef parse_d f <> DocErr) ->
    loadf (DIR qs ps fs ds) = loadf (DIR qs ps fs []).
  Proof.
    intros qs ps fs ds H. unfold load_files, load_dir. cbn [d_quotas d_pparams d_flows d_procdefs].
    rewrite (procdef_stage_no_err _ H). reflexivity.
  Qed.

  Lemma procdef_stage_err : forall ds f,
    In f ds -> decode_file ddoc DDef parse_d f = DocErr -> dstage ds = Some (OReject 5).
  Proof.
    induction ds as [|g r IH]; intros f Hin He; [contradiction|].
    cbn [procdef_stage]. destruct Hin as [-> | Hin].
    - unfold unmarshal. rewrite He. reflexivity.
    - destruct (unmarshal ddoc DDef parse_d true g) eqn:E.
      + exfalso. eapply unmarshal_alloc_not_nil; eauto.
      + reflexivity.
      + eapply IH; eauto.
  Qed.

  Lemma undecodable_procdef_rejected : forall d f,
    In f (d_procdefs d) -> decode_file ddoc DDef parse_d f = DocErr ->
    exists s, loadf d = OReject s /\ (s = 4 \/ s = 1 \/ s = 5).
  Proof.
    intros d f Hin He. unfold load_files, load_dir.
    destruct (quota_stage_alloc (d_quotas d)) as [-> | ->]; [|eauto].
    rewrite pparam_stage_none.
    destruct (flow_stage_alloc (d_flows d) [] false []) as [[l ->] | ->]; [|eauto].
    rewrite (procdef_stage_err _ _ Hin He). eauto.
  Qed.

  (* ---- what is accepted was accepted by [load] on the decoded flows *)

  Definition from_file (fs : list (file flowcfg)) (fc : flowcfg) : Prop :=
    exists f, In f fs /\ decode_file flowcfg empty_flow parse_f f = Doc fc.

  Lemma flow_stage_flows : forall all fs seen bad acc l,
    (forall f, In f fs -> In f all) ->
    (forall fc, In fc acc -> from_file all fc) ->
    fstage_ fs seen bad acc = FSFlows l ->
    forall fc, In fc l -> from_file all fc.
  Proof.
    intros all. induction fs as [|f r IH]; intros seen bad acc l Hsub Hacc; cbn [flow_stage].
    - destruct bad; [intros E; discriminate E|]. intros E fc Hin. inversion E; subst l.
      apply Hacc. apply in_rev. exact Hin.
    - destruct (unmarshal flowcfg empty_flow parse_f true f) eqn:E.
      + intros E0; discriminate E0.
      + apply IH; auto. intros g Hg. apply Hsub. right. exact Hg.
      + destruct (flow_struct_ok a) eqn:Ok; cbn [negb].
        * destruct (memZ (fc_name a) seen); [intros E0; discriminate E0|].
          apply IH; [intros g Hg; apply Hsub; right; exact Hg|].
          intros fc [<- | Hin]; [|apply Hacc; exact Hin].
          exists f. split; [apply Hsub; left; reflexivity|].
          destruct (unmarshal_obj_doc _ _ _ _ _ E) as [D | [_ Ee]]; [exact D|].
          subst a. rewrite empty_flow_not_ok in Ok. discriminate.
        * apply IH; auto. intros g Hg. apply Hsub. right. exact Hg.
  Qed.

  Lemma accept_is_load : forall d fl,
    loadf d = OAccept fl ->
    exists l, load (CF l (quota_defined parse_q true (d_quotas d))) = Accept fl
              /\ forall fc, In fc l -> from_file (d_flows d) fc.
  Proof.
    intros d fl. unfold load_files, load_dir.
    destruct (quota_stage_alloc (d_quotas d)) as [-> | ->]; [|intros E0; discriminate E0].
    rewrite pparam_stage_none.
    destruct (flow_stage parse_f true (d_flows d) [] false []) as [o|l] eqn:F.
    { destruct (flow_stage_alloc (d_flows d) [] false []) as [[l' El] | El]; rewrite El in F;
        [discriminate F|inversion F; subst o; intros E0; discriminate E0]. }
    destruct (procdef_stage_alloc (d_procdefs d)) as [-> | ->]; [|intros E0; discriminate E0].
    intros E. exists l. split.
    - destruct (load (CF l (quota_defined parse_q true (d_quotas d)))); cbn in E; congruence.
    - eapply flow_stage_flows; [| |exact F]; [auto|intros fc []].
  Qed.

  (* ---- conservative extension: on rendered files the loader over files is [load] *)

  Fixpoint dn (seen l : list Z) : bool :=
    match l with
    | [] => true
    | x :: r => negb (memZ x seen) && dn (x :: seen) r
    end.

  Lemma forallb_andb : forall (A : Type) (f g : A -> bool) l,
    forallb (fun y => f y && g y) l = forallb f l && forallb g l.
  Proof.
    induction l as [|x r IH]; cbn; [reflexivity|]. rewrite IH.
    destruct (f x), (g x), (forallb f r), (forallb g r); reflexivity.
  Qed.

  Lemma forallb_ext_ : forall (A : Type) (f g : A -> bool) l,
    (forall y, f y = g y) -> forallb f l = forallb g l.
  Proof. induction l as [|x r IH]; intros H; cbn; [reflexivity|]. rewrite H, IH; auto. Qed.

  Lemma negb_memZ_forallb : forall x l, negb (memZ x l) = forallb (fun y => negb (y =? x)) l.
  Proof.
    intros x l. unfold memZ. induction l as [|y r IH]; cbn; [reflexivity|].
    rewrite negb_orb, IH, (Z.eqb_sym x y). reflexivity.
  Qed.

  Lemma dn_spec : forall l seen,
    dn seen l = nodupZ l && forallb (fun y => negb (memZ y seen)) l.
  Proof.
    induction l as [|x r IH]; intros seen; cbn [dn nodupZ forallb]; [reflexivity|].
    rewrite IH.
    assert (E : forallb (fun y => negb (memZ y (x :: seen))) r
                = forallb (fun y => negb (y =? x)) r && forallb (fun y => negb (memZ y seen)) r).
    { rewrite <- forallb_andb. apply forallb_ext_. intros y. unfold memZ. cbn [existsb].
      rewrite negb_orb. reflexivity. }
    rewrite E, (negb_memZ_forallb x r).
    destruct (negb (memZ x seen)), (nodupZ r), (forallb (fun y => negb (y =? x)) r),
             (forallb (fun y => negb (memZ y seen)) r); reflexivity.
  Qed.

  Lemma dn_nil : forall l, dn [] l = nodupZ l.
  Proof.
    intros l. rewrite dn_spec.
    assert (E : forallb (fun y => negb (memZ y [])) l = true) by (apply forallb_forall; reflexivity).
    rewrite E. apply andb_true_r.
  Qed.

  Lemma unmarshal_rendered : forall A empty parse b a, unmarshal A empty parse b (Rendered a) = DObj a.
  Proof. intros A empty parse b a. destruct b; reflexivity. Qed.

  Lemma flow_stage_rendered_ok : forall l seen acc,
    forallb flow_struct_ok l = true ->
    fstage_ (map Rendered l) seen false acc
    = if dn seen (map fc_name l) then FSFlows (rev acc ++ l) else FSOut (OReject 1).
  Proof.
    induction l as [|fc r IH]; intros seen acc Hok; cbn [map flow_stage dn].
    - rewrite app_nil_r. reflexivity.
    - cbn [forallb] in Hok. apply andb_true_iff in Hok. destruct Hok as [Hfc Hr].
      rewrite unmarshal_rendered, Hfc. cbn [negb].
      destruct (memZ (fc_name fc) seen); cbn [negb andb]; [reflexivity|].
      rewrite (IH _ _ Hr). cbn [rev]. rewrite <- app_assoc. reflexivity.
  Qed.

  Lemma flow_stage_rendered_bad : forall l,
    forallb flow_struct_ok l = false ->
    forall seen bad acc, fstage_ (map Rendered l) seen bad acc = FSOut (OReject 1).
  Proof.
    induction l as [|fc r IH]; intros Hno seen bad acc; [discriminate|].
    cbn [map flow_stage]. rewrite unmarshal_rendered.
    cbn [forallb] in Hno.
    destruct (flow_struct_ok fc); cbn [negb andb] in *.
    - destruct (memZ (fc_name fc) seen); [reflexivity|apply IH; exact Hno].
    - apply flow_stage_bad.
  Qed.

  Lemma quota_stage_rendered : forall qs,
    forallb (fun q => qd_quotas q && qd_valid q) qs = true -> qstage (map Rendered qs) = None.
  Proof.
    induction qs as [|q r IH]; intros H; cbn [map quota_stage]; [reflexivity|].
    cbn [forallb] in H. apply andb_true_iff in H. destruct H as [Hq Hr].
    rewrite unmarshal_rendered, Hq. apply IH. exact Hr.
  Qed.

  Lemma procdef_stage_rendered : forall ds, dstage (map Rendered ds) = None.
  Proof. induction ds as [|x r IH]; cbn [map procdef_stage]; [reflexivity|exact IH]. Qed.

  (* ---- [quota_defined] is a function of the DECODED documents (extension 4) *)

  Notation usable := (fun q : qdoc => qd_quotas q && qd_valid q).

  Lemma usable_quota_rendered : forall b q, usable_quota parse_q b (Rendered q) = usable q.
  Proof. intros b q. unfold usable_quota. rewrite unmarshal_rendered. reflexivity. Qed.

  Lemma quota_defined_rendered : forall b qs,
    quota_defined parse_q b (map Rendered qs) = existsb usable qs.
  Proof.
    intros b qs. unfold quota_defined. induction qs as [|q r IH]; cbn [map existsb]; [reflexivity|].
    rewrite usable_quota_rendered, IH. reflexivity.
  Qed.

  Lemma usable_quota_decoded : forall f,
    usable_quota parse_q true f = true <->
    exists q, decode_file qdoc empty_qdoc parse_q f = Doc q /\ usable q = true.
  Proof.
    intros f. unfold usable_quota. split.
    - destruct (unmarshal qdoc empty_qdoc parse_q true f) as [| |q] eqn:E; try discriminate.
      intros U. destruct (unmarshal_obj_doc _ _ _ _ _ E) as [D | [_ Ee]].
      + exists q. split; assumption.
      + subst q. discriminate U.
    - intros [q [D U]]. unfold unmarshal. rewrite D. cbn [unmarshal_post]. exact U.
  Qed.

  Lemma quota_defined_decoded : forall qs,
    quota_defined parse_q true qs = true <->
    exists f q, In f qs /\ decode_file qdoc empty_qdoc parse_q f = Doc q /\ usable q = true.
  Proof.
    intros qs. unfold quota_defined. rewrite existsb_exists. split.
    - intros [f [Hin U]]. apply usable_quota_decoded in U. destruct U as [q [D U]].
      exists f, q. auto.
    - intros [f [q [Hin [D U]]]]. exists f. split; [exact Hin|].
      apply usable_quota_decoded. exists q. auto.
  Qed.

  (* once the quota loader has read every file, each of them is usable: a quota
     is defined exactly when there is a quota file - rendered or bytes alike *)
  Lemma quota_stage_passed_all_usable : forall qs,
    qstage qs = None -> forallb (usable_quota parse_q true) qs = true.
  Proof.
    induction qs as [|f r IH]; cbn [quota_stage forallb]; [reflexivity|].
    unfold usable_quota at 1.
    destruct (unmarshal qdoc empty_qdoc parse_q true f) as [| |q]; try discriminate.
    destruct (qd_quotas q && qd_valid q); [cbn [andb]; exact IH|discriminate].
  Qed.

  Lemma quota_stage_passed_defined : forall qs,
    qstage qs = None ->
    quota_defined parse_q true qs = match qs with [] => false | _ :: _ => true end.
  Proof.
    intros [|f r] H; [reflexivity|].
    apply quota_stage_passed_all_usable in H. cbn [forallb] in H.
    apply andb_true_iff in H. destruct H as [H _].
    unfold quota_defined. cbn [existsb]. rewrite H. reflexivity.
  Qed.

  Lemma accept_quota_defined : forall d fl,
    loadf d = OAccept fl ->
    quota_defined parse_q true (d_quotas d) = match d_quotas d with [] => false | _ :: _ => true end.
  Proof.
    intros d fl. unfold load_files, load_dir.
    destruct (quota_stage_alloc (d_quotas d)) as [E | E]; rewrite E; [|intros E0; discriminate E0].
    intros _. apply quota_stage_passed_defined. exact E.
  Qed.

  Lemma load_files_rendered : forall qs ps l ds,
    forallb (fun q => qd_quotas q && qd_valid q) qs = true ->
    loadf (DIR (map Rendered qs) ps (map Rendered l) (map Rendered ds))
    = of_verdict (load (CF l (existsb (fun q => qd_quotas q && qd_valid q) qs))).
  Proof.
    intros qs ps l ds Hq. unfold load_files, load_dir. cbn [d_quotas d_pparams d_flows d_procdefs].
    rewrite (quota_stage_rendered _ Hq), pparam_stage_none, quota_defined_rendered.
    set (q := existsb (fun q => qd_quotas q && qd_valid q) qs).
    destruct (forallb flow_struct_ok l) eqn:Hok.
    - rewrite (flow_stage_rendered_ok _ _ _ Hok), dn_nil. cbn [rev app].
      destruct (nodupZ (map fc_name l)) eqn:Hnd.
      + rewrite procdef_stage_rendered. reflexivity.
      + unfold load, load_with, load_gen, struct_ok. cbn [cf_flows]. rewrite Hok, Hnd. reflexivity.
    - rewrite (flow_stage_rendered_bad _ Hok).
      unfold load, load_with, load_gen, struct_ok. cbn [cf_flows]. rewrite Hok. reflexivity.
  Qed.

  (* ---- the gateway's start-up mode (Decode.v, Section Startup; audit 2 item 8) *)

  Notation fstart := (flow_stage_startup parse_f true).
  Notation loads := (load_files_startup parse_q parse_p parse_f parse_d).

  Lemma flow_stage_startup_alloc : forall fs seen bad acc,
    (exists l, fstart fs seen bad acc = FSFlows l) \/ fstart fs seen bad acc = FSOut (OReject 1).
  Proof.
    induction fs as [|f r IH]; intros seen bad acc; cbn [flow_stage_startup].
    - destruct (bad && none_read acc); eauto.
    - destruct (unmarshal flowcfg empty_flow parse_f true f) eqn:E.
      + exfalso. eapply unmarshal_alloc_not_nil; eauto.
      + apply IH.
      + destruct (negb (flow_struct_ok a)); [apply IH|].
        destruct (memZ (fc_name a) seen); [auto|apply IH].
  Qed.

  Lemma load_files_startup_never_panics : forall d s, loads d <> OPanic s.
  Proof.
    intros d s. unfold load_files_startup, load_dir_startup.
    destruct (quota_stage_alloc (d_quotas d)) as [-> | ->]; [|congruence].
    rewrite pparam_stage_none.
    destruct (flow_stage_startup_alloc (d_flows d) [] false []) as [[l ->] | ->]; [|congruence].
    destruct (procdef_stage_alloc (d_procdefs d)) as [-> | ->]; [|congruence].
    apply of_verdict_not_panic.
  Qed.

  Lemma load_files_startup_no_fuel : forall d, loads d <> OFuel.
  Proof.
    intros d. unfold load_files_startup, load_dir_startup.
    destruct (quota_stage_alloc (d_quotas d)) as [-> | ->]; [|congruence].
    rewrite pparam_stage_none.
    destruct (flow_stage_startup_alloc (d_flows d) [] false []) as [[l ->] | ->]; [|congruence].
    destruct (procdef_stage_alloc (d_procdefs d)) as [-> | ->]; [|congruence].
    pose proof (load_no_fuel (CF l (quota_defined parse_q true (d_quotas d))) true) as H.
    unfold load. destruct (load_with true true (CF l (quota_defined parse_q true (d_quotas d)))); cbn; congruence.
  Qed.

  (* where the validation-mode stage hands flows on, the start-up stage hands on the same *)
  Lemma flow_stage_startup_same : forall fs seen bad acc l,
    fstage_ fs seen bad acc = FSFlows l -> fstart fs seen bad acc = FSFlows l.
  Proof.
    induction fs as [|f r IH]; intros seen bad acc l; cbn [flow_stage flow_stage_startup].
    - destruct bad; [intros E; discriminate E|]. cbn [andb]. auto.
    - destruct (unmarshal flowcfg empty_flow parse_f true f) eqn:E.
      + auto.
      + apply IH.
      + destruct (negb (flow_struct_ok a)); [apply IH|].
        destruct (memZ (fc_name a) seen); [intros E0; discriminate E0|apply IH].
  Qed.

  (* the two modes differ only where validation rejects at the flow-file stage *)
  Lemma startup_differs_only_on_flow_file_rejections : forall d,
    loadf d = OReject 1 \/ loads d = loadf d.
  Proof.
    intros d. unfold load_files, load_dir, load_files_startup, load_dir_startup.
    destruct (quota_stage_alloc (d_quotas d)) as [-> | ->]; [|right; reflexivity].
    rewrite pparam_stage_none.
    destruct (flow_stage_alloc (d_flows d) [] false []) as [[l El] | ->]; [|left; reflexivity].
    rewrite El, (flow_stage_startup_same _ _ _ _ _ El). right. reflexivity.
  Qed.

  Lemma flow_stage_startup_flows : forall all fs seen bad acc l,
    (forall f, In f fs -> In f all) ->
    (forall fc, In fc acc -> from_file all fc) ->
    fstart fs seen bad acc = FSFlows l ->
    forall fc, In fc l -> from_file all fc.
  Proof.
    intros all. induction fs as [|f r IH]; intros seen bad acc l Hsub Hacc; cbn [flow_stage_startup].
    - destruct (bad && none_read acc); [intros E; discriminate E|]. intros E fc Hin. inversion E; subst l.
      apply Hacc. apply in_rev. exact Hin.
    - destruct (unmarshal flowcfg empty_flow parse_f true f) eqn:E.
      + intros E0; discriminate E0.
      + apply IH; auto. intros g Hg. apply Hsub. right. exact Hg.
      + destruct (flow_struct_ok a) eqn:Ok; cbn [negb].
        * destruct (memZ (fc_name a) seen); [intros E0; discriminate E0|].
          apply IH; [intros g Hg; apply Hsub; right; exact Hg|].
          intros fc [<- | Hin]; [|apply Hacc; exact Hin].
          exists f. split; [apply Hsub; left; reflexivity|].
          destruct (unmarshal_obj_doc _ _ _ _ _ E) as [D | [_ Ee]]; [exact D|].
          subst a. rewrite empty_flow_not_ok in Ok. discriminate.
        * apply IH; auto. intros g Hg. apply Hsub. right. exact Hg.
  Qed.

  Lemma startup_accept_is_load : forall d fl,
    loads d = OAccept fl ->
    exists l, load (CF l (quota_defined parse_q true (d_quotas d))) = Accept fl
              /\ forall fc, In fc l -> from_file (d_flows d) fc.
  Proof.
    intros d fl. unfold load_files_startup, load_dir_startup.
    destruct (quota_stage_alloc (d_quotas d)) as [-> | ->]; [|intros E0; discriminate E0].
    rewrite pparam_stage_none.
    destruct (flow_stage_startup parse_f true (d_flows d) [] false []) as [o|l] eqn:F.
    { destruct (flow_stage_startup_alloc (d_flows d) [] false []) as [[l' El] | El]; rewrite El in F;
        [discriminate F|inversion F; subst o; intros E0; discriminate E0]. }
    destruct (procdef_stage_alloc (d_procdefs d)) as [-> | ->]; [|intros E0; discriminate E0].
    intros E. exists l. split.
    - destruct (load (CF l (quota_defined parse_q true (d_quotas d)))); cbn in E; congruence.
    - eapply flow_stage_startup_flows; [| |exact F]; [auto|intros fc []].
  Qed.
End Stages.
