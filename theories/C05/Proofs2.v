(* C05 — lemmas of the audit round: the budget disappears from the transaction
   statement, the hypotheses of the final theorems are met by what the suites
   pass and by every configuration the structural stage lets through, the
   graphs the builder makes are closed (entry point and every connection target
   are nodes of the direction), the validator's verdict characterised exactly.
   Final statements are in Property.v. *)
From Coq Require Import List ZArith Bool Lia Arith PeanoNat.
From Verif Require Import C04.Model C04.Spec C04.Proofs C05.Model C05.Proofs.
Import ListNotations.
Open Scope Z_scope.

(* ----------------------------------------------------------- no budget left *)

Lemma accepted_sel_ok : forall cf fs s,
  load cf = Accept fs -> sel_from fs s -> sel_ok (exec_fuel fs) s.
Proof.
  intros cf fs s L S. eapply sel_from_ok; [|exact S].
  apply valid_flows_ok. eapply load_accept_valid. exact L.
Qed.

Lemma transaction_fuel_irrelevant : forall cf fs beh s s2,
  load cf = Accept fs ->
  sel_from fs s -> (forall s', s2 = Some s' -> sel_from fs s') ->
  forall fuel, (exec_fuel fs <= fuel)%nat ->
    run_req fuel beh s s2 = run_req (exec_fuel fs) beh s s2
    /\ forall sc, run_res fuel beh s sc = run_res (exec_fuel fs) beh s sc.
Proof.
  intros cf fs beh s s2 L S S2 fuel LE.
  pose proof (accepted_sel_ok cf fs s L S) as SO. split.
  - symmetry. apply run_req_fuel_le; [exact LE|exact SO|].
    intros s' E. eapply accepted_sel_ok; eauto.
  - intros sc. symmetry. apply run_res_fuel_le; assumption.
Qed.

Lemma transaction_safe_fuel_free : forall cf fs beh s s2,
  load cf = Accept fs ->
  sel_from fs s -> (forall s', s2 = Some s' -> sel_from fs s') ->
  exists n, forall fuel, (n <= fuel)%nat ->
    (run_req fuel beh s s2 = run_req n beh s s2
     /\ (snd (run_req fuel beh s s2) = None
         \/ exists k, snd (run_req fuel beh s s2) = Some (NoRespNode k))
     /\ (length (fst (run_req fuel beh s s2)) <= req_bound n s s2)%nat)
    /\ forall sc,
         run_res fuel beh s sc = run_res n beh s sc
         /\ (snd (run_res fuel beh s sc) = None
             \/ exists k, snd (run_res fuel beh s sc) = Some (NoRespNode k))
         /\ (length (fst (run_res fuel beh s sc)) <= res_bound n s)%nat.
Proof.
  intros cf fs beh s s2 L S S2. exists (exec_fuel fs). intros fuel LE.
  destruct (transaction_fuel_irrelevant cf fs beh s s2 L S S2 fuel LE) as [EQ ES].
  destruct (transaction_safe cf fs beh s s2 L S S2) as [O [B R]].
  split.
  - rewrite EQ. repeat split; assumption.
  - intros sc. rewrite ES. destruct (R sc) as [O' B']. repeat split; assumption.
Qed.

(* ------------------------------------- the hypotheses are what the suites pass *)

Lemma sel_from_dec_sel : forall fs e, sel_from fs (dec_sel fs e).
Proof.
  intros fs [[a u] z]. unfold sel_from, dec_sel. cbn [s_start s_user s_end].
  repeat split; apply flows_named_incl.
Qed.

Lemma nodup_find_name : forall (l : list flowcfg) fc,
  nodupZ (map fc_name l) = true -> In fc l ->
  find (fun f => fc_name f =? fc_name fc) l = Some fc.
Proof.
  induction l as [|x l IH]; intros fc ND I; [contradiction|].
  cbn [map nodupZ] in ND. apply andb_true_iff in ND. destruct ND as [NM ND].
  cbn [find]. destruct I as [E|I].
  - subst x. rewrite Z.eqb_refl. reflexivity.
  - destruct (fc_name x =? fc_name fc) eqn:E.
    + exfalso. apply Z.eqb_eq in E. apply negb_true_iff in NM. apply memZ_false in NM.
      apply NM. rewrite E. apply in_map. exact I.
    + apply IH; assumption.
Qed.

(* after the structural stage a flow is found under its own name *)
Lemma struct_ok_find_flow : forall cf fc,
  struct_ok cf = true -> In fc (cf_flows cf) -> find_flow cf (fc_name fc) = Some fc.
Proof.
  intros cf fc S I. unfold struct_ok in S. apply andb_true_iff in S. destruct S as [_ ND].
  unfold find_flow. apply nodup_find_name; assumption.
Qed.

(* a reference cycle anywhere: the loader rejects the configuration (with an
   error of one of its three stages; it neither accepts nor exhausts a budget) *)
Lemma reference_cycle_load_rejected : forall fresh allstarts cf fc d,
  In fc (cf_flows cf) -> ref_path cf d (fc_name fc) (fc_name fc) ->
  exists st, load_gen fresh true allstarts cf = Reject st.
Proof.
  intros fresh allstarts cf fc d I P. unfold load_gen.
  destruct (struct_ok cf) eqn:S; cbn [negb]; [|eauto].
  destruct (procs_ok cf); cbn [negb]; [|eauto].
  exists 3. apply (build_all_by_reject _ _ fc).
  - intros fc'. apply build_flow_with_no_fuel.
  - exact I.
  - eapply reference_cycle_rejected_with; [|exact P]. apply struct_ok_find_flow; assumption.
Qed.

(* ------------------------------------------------ the built graphs are closed *)

Definition keys (b : bdir) : list key := map bn_key (bd_nodes b).

(* entry point, foreign root and every connection target are nodes *)
Definition binv (s : bstate) : Prop :=
  (forall r, bd_root (fst s) = Some r -> In r (keys (fst s)))
  /\ (forall k, snd s = Some k -> In k (keys (fst s)))
  /\ (forall n c t, In n (bd_nodes (fst s)) -> In (c, Some t) (bn_edges n) -> In t (keys (fst s))).

Lemma keys_add_edge : forall b k e, keys (add_edge b k e) = keys b.
Proof.
  intros b k e. unfold keys, add_edge. cbn [bd_nodes]. rewrite map_map.
  apply map_ext. intros n. destruct (bn_key n =? k); [|reflexivity].
  destruct (existsb (edge_eqb e) (bn_edges n)); reflexivity.
Qed.

Lemma add_edge_edges : forall b k e n c t,
  In n (bd_nodes (add_edge b k e)) -> In (c, Some t) (bn_edges n) ->
  (exists n', In n' (bd_nodes b) /\ In (c, Some t) (bn_edges n')) \/ e = (c, Some t).
Proof.
  intros b k e n c t I J. unfold add_edge in I. cbn [bd_nodes] in I.
  apply in_map_iff in I. destruct I as [m [E M]].
  destruct (bn_key m =? k); [|subst n; left; eauto].
  destruct (existsb (edge_eqb e) (bn_edges m)); [subst n; left; eauto|].
  subst n. cbn [bn_edges] in J. apply in_app_or in J. destruct J as [J|[J|[]]].
  - left. eauto.
  - right. exact J.
Qed.

Lemma bfind_key : forall b k n, bfind b k = Some n -> In n (bd_nodes b) /\ bn_key n = k.
Proof.
  intros b k n H. unfold bfind in H. apply find_some in H. destruct H as [I E].
  apply Z.eqb_eq in E. split; assumption.
Qed.

Lemma get_or_create_spec : forall cf cur r b b1 n,
  get_or_create cf cur r b = Some (b1, n) ->
  In (bn_key n) (keys b1) /\ incl (keys b) (keys b1) /\ bd_root b1 = bd_root b
  /\ (forall m c t, In m (bd_nodes b1) -> In (c, Some t) (bn_edges m) ->
                    exists m', In m' (bd_nodes b) /\ In (c, Some t) (bn_edges m')).
Proof.
  intros cf cur r b b1 n H. unfold get_or_create in H.
  destruct (bfind b (refkey r)) as [n0|] eqn:F.
  - inversion H. subst b1 n0. apply bfind_key in F. destruct F as [I E].
    repeat split; [unfold keys; apply in_map; exact I|apply incl_refl|eauto].
  - destruct (find_decl cf _ (pr_name r)); [|discriminate].
    inversion H. subst b1 n. clear H. unfold keys. cbn [bd_nodes bd_root bn_key].
    repeat split.
    + rewrite map_app. apply in_or_app. right. left. reflexivity.
    + intros x X. rewrite map_app. apply in_or_app. left. exact X.
    + intros m c t M J. apply in_app_or in M. destruct M as [M|[M|[]]]; [eauto|].
      subst m. contradiction.
Qed.

Lemma binv_add_edge : forall b fo k c t,
  binv (b, fo) -> In t (keys b) -> binv (add_edge b k (c, Some t), fo).
Proof.
  intros b fo k c t [R [F E]] T. cbn [fst snd] in *. unfold binv. cbn [fst snd].
  rewrite keys_add_edge. repeat split; [exact R|exact F|].
  intros n c' t' I J. destruct (add_edge_edges _ _ _ _ _ _ I J) as [[n' [I' J']]|X].
  - eapply E; eauto.
  - inversion X. subst. exact T.
Qed.

Lemma binv_add_stream_edge : forall b fo k c,
  binv (b, fo) -> binv (add_edge b k (c, None), fo).
Proof.
  intros b fo k c [R [F E]]. cbn [fst snd] in *. unfold binv. cbn [fst snd].
  rewrite keys_add_edge. repeat split; [exact R|exact F|].
  intros n c' t' I J. destruct (add_edge_edges _ _ _ _ _ _ I J) as [[n' [I' J']]|X].
  - eapply E; eauto.
  - discriminate.
Qed.

Lemma binv_created : forall cf cur r b fo b1 n,
  binv (b, fo) -> get_or_create cf cur r b = Some (b1, n) -> binv (b1, fo).
Proof.
  intros cf cur r b fo b1 n [R [F E]] G. cbn [fst snd] in *.
  destruct (get_or_create_spec _ _ _ _ _ _ G) as [_ [INC [RT ED]]].
  unfold binv. cbn [fst snd]. repeat split.
  - intros x X. rewrite RT in X. apply INC. apply R. exact X.
  - intros x X. apply INC. apply F. exact X.
  - intros m c t M J. destruct (ED _ _ _ M J) as [m' [M' J']]. apply INC. eapply E; eauto.
Qed.

Lemma binv_set_root : forall b fo k, binv (b, fo) -> In k (keys b) -> binv (set_root b k, fo).
Proof.
  intros b fo k [R [F E]] K. cbn [fst snd] in *. unfold binv, set_root, keys. cbn [fst snd bd_nodes bd_root].
  repeat split; [intros r X; inversion X; subst; exact K|exact F|exact E].
Qed.

Lemma binv_set_foreign : forall b fo k, binv (b, fo) -> In k (keys b) -> binv (b, Some k).
Proof.
  intros b fo k [R [F E]] K. cbn [fst snd] in *. unfold binv. cbn [fst snd].
  repeat split; [exact R|intros x X; inversion X; subst; exact K|exact E].
Qed.

Lemma binv_drop_foreign : forall b fo, binv (b, fo) -> binv (b, None).
Proof.
  intros b fo [R [F E]]. cbn [fst snd] in *. unfold binv. cbn [fst snd].
  repeat split; [exact R|discriminate|exact E].
Qed.

Definition preserves (rec : Z -> list Z -> list conn -> bstate -> bres) : Prop :=
  forall cur stack cs s s', binv s -> rec cur stack cs s = BOk s' -> binv s'.

Section BuilderInvariant.
  Variable cf : config.
  Variable guard : bool.
  Variable top : Z.
  Variable d : dir.

  Lemma incorporate_binv : forall rec stack name s s',
    preserves rec -> binv s -> incorporate cf guard d rec stack name s = BOk s' -> binv s'.
  Proof.
    intros rec stack name s s' P I H. unfold incorporate in H.
    destruct (find_flow cf name); [|discriminate].
    destruct (guard && memZ name stack); [discriminate|].
    eapply P; eauto.
  Qed.

  Lemma build_conn_binv : forall rec cur stack c s s',
    preserves rec -> binv s -> build_conn cf guard top d rec cur stack c s = BOk s' -> binv s'.
  Proof.
    intros rec cur stack c [b fo] s' P I H. unfold build_conn in H.
    destruct (match ep_proc (c_from c) with Some r => negb (from_cond_ok cf d cur r) | None => false end);
      [discriminate|].
    destruct (ep_proc (c_to c)) as [tr|] eqn:TP; destruct (ep_proc (c_from c)) as [r|] eqn:FP.
    - (* processor -> processor *)
      destruct (get_or_create cf cur r b) as [[b1 src]|] eqn:G1; [|discriminate].
      destruct (get_or_create cf cur tr b1) as [[b2 tgt]|] eqn:G2; [|discriminate].
      inversion H. subst s'. apply binv_add_edge.
      + eapply binv_created; [|exact G2]. eapply binv_created; [exact I|exact G1].
      + destruct (get_or_create_spec _ _ _ _ _ _ G2) as [K _]. exact K.
    - destruct (match ep_stream (c_from c) with Some a => a =? 0 | None => false end).
      + (* stream -> processor *)
        destruct (get_or_create cf cur tr b) as [[b1 tgt]|] eqn:G; [|discriminate].
        pose proof (binv_created _ _ _ _ _ _ _ I G) as I1.
        destruct (get_or_create_spec _ _ _ _ _ _ G) as [K _].
        destruct (bn_flow tgt =? top); inversion H; subst s'.
        * apply binv_set_root; assumption.
        * eapply binv_set_foreign; eassumption.
      + destruct (match ep_flow (c_from c) with Some (_, a) => a =? 1 | None => false end).
        * (* flow -> processor *)
          destruct (get_or_create cf cur tr b) as [[b1 tgt]|] eqn:G; [|discriminate].
          pose proof (binv_created _ _ _ _ _ _ _ I G) as I1.
          destruct (get_or_create_spec _ _ _ _ _ _ G) as [K _].
          destruct (incorporate cf guard d rec stack _ (set_root b1 (bn_key tgt), fo))
            as [[b2 [fk|]]| |] eqn:INC; try discriminate.
          inversion H. subst s'.
          assert (I2 : binv (b2, Some fk)).
          { eapply incorporate_binv; [exact P| |exact INC]. apply binv_set_root; assumption. }
          apply binv_set_root; [eapply binv_drop_foreign; exact I2|].
          destruct I2 as [_ [F _]]. apply F. reflexivity.
        * destruct (match ep_stream (c_from c), ep_stream (c_to c) with Some _, Some _ => true | _, _ => false end);
            [|discriminate]. inversion H. subst s'. exact I.
    - destruct (match ep_stream (c_to c) with Some a => a =? 1 | None => false end).
      + (* processor -> stream *)
        destruct (get_or_create cf cur r b) as [[b1 src]|] eqn:G; [|discriminate].
        pose proof (binv_created _ _ _ _ _ _ _ I G) as I1.
        destruct (is_req d && negb (bn_flow src =? top)).
        * destruct (bd_root b1) as [rk|] eqn:RT; [|discriminate].
          inversion H. subst s'. apply binv_add_edge; [exact I1|].
          destruct I1 as [R _]. apply R. exact RT.
        * inversion H. subst s'. apply binv_add_stream_edge. exact I1.
      + destruct (match ep_flow (c_to c) with Some (_, a) => a =? 0 | None => false end).
        * (* processor -> flow *)
          destruct (get_or_create cf cur r b) as [[b1 src]|] eqn:G; [|discriminate].
          pose proof (binv_created _ _ _ _ _ _ _ I G) as I1.
          destruct (incorporate cf guard d rec stack _ (b1, fo)) as [[b2 [fk|]]| |] eqn:INC;
            try discriminate.
          inversion H. subst s'.
          assert (I2 : binv (b2, Some fk)) by (eapply incorporate_binv; eauto).
          apply binv_add_edge; [eapply binv_drop_foreign; exact I2|].
          destruct I2 as [_ [F _]]. apply F. reflexivity.
        * destruct (match ep_stream (c_from c), ep_stream (c_to c) with Some _, Some _ => true | _, _ => false end);
            [|discriminate]. inversion H. subst s'. exact I.
    - destruct (match ep_stream (c_from c), ep_stream (c_to c) with Some _, Some _ => true | _, _ => false end);
        [|discriminate]. inversion H. subst s'. exact I.
  Qed.

  Lemma build_list_binv : forall step cs s s',
    (forall c s0 s1, binv s0 -> step c s0 = BOk s1 -> binv s1) ->
    binv s -> build_list step cs s = BOk s' -> binv s'.
  Proof.
    intros step cs. induction cs as [|c cs IH]; intros s s' ST I H; cbn [build_list] in H.
    - inversion H. subst. exact I.
    - destruct (step c s) as [s1| |] eqn:E; try discriminate.
      eapply IH; [exact ST|eapply ST; eauto|exact H].
  Qed.

  Lemma build_conns_preserves : forall fuel, preserves (build_conns cf guard top d fuel).
  Proof.
    induction fuel as [|f IH]; intros cur stack cs s s' I H; [discriminate|].
    cbn [build_conns] in H. eapply build_list_binv; [|exact I|exact H].
    intros c s0 s1 I0 H0. eapply build_conn_binv; eauto.
  Qed.
End BuilderInvariant.

Lemma binv_empty : binv (empty_bdir, None).
Proof. unfold binv. cbn. repeat split; try discriminate. intros n c t []. Qed.

Lemma keys_has_node : forall b k, In k (keys b) -> has_node (to_dgraph b) k = true.
Proof.
  intros b k I. unfold has_node, find_node, to_dgraph. cbn [nodes].
  destruct (find (fun n => fst n =? k) (map (fun n => (bn_key n, bn_edges n)) (bd_nodes b))) eqn:F;
    [reflexivity|].
  exfalso. unfold keys in I. apply in_map_iff in I. destruct I as [n [E N]].
  pose proof (find_none _ _ F (bn_key n, bn_edges n)) as X. cbn [fst] in X.
  rewrite E, Z.eqb_refl in X. discriminate X. rewrite <- E.
  apply (in_map (fun n0 : bnode => (bn_key n0, bn_edges n0))). exact N.
Qed.

(* a direction is closed: its entry point is one of its nodes, and so is the
   target of every connection of every node *)
Definition closed (g : dgraph) : Prop :=
  (forall r, root g = Some r -> has_node g r = true)
  /\ (forall n c t, In n (nodes g) -> In (c, Some t) (snd n) -> has_node g t = true).

Lemma binv_closed : forall b fo, binv (b, fo) -> closed (to_dgraph b).
Proof.
  intros b fo [R [_ E]]. cbn [fst snd] in *. split.
  - intros r X. apply keys_has_node. apply R. exact X.
  - intros n c t N J. apply keys_has_node. unfold to_dgraph in N. cbn [nodes] in N.
    apply in_map_iff in N. destruct N as [m [X M]]. subst n. cbn [snd] in J. eapply E; eauto.
Qed.

Lemma build_flow_closed : forall cf guard allstarts fc f,
  build_flow cf guard allstarts fc = FOk f -> closed (freq f) /\ closed (fres f).
Proof.
  intros cf guard allstarts fc f. unfold build_flow, build_flow_with.
  destruct (build_conns cf guard (fc_name fc) Req _ _ _ _ _) as [[bq foreign]| |] eqn:BQ; try discriminate.
  destruct (build_conns cf guard (fc_name fc) Res _ _ _ _ _) as [[bs fo2]| |] eqn:BS; try discriminate.
  destruct (validate_dir allstarts Req (to_dgraph bq)); try discriminate.
  destruct (validate_dir allstarts Res (to_dgraph bs)); try discriminate.
  assert (CQ : closed (to_dgraph bq)).
  { eapply binv_closed. eapply build_conns_preserves; [apply binv_empty|exact BQ]. }
  assert (CS : closed (to_dgraph bs)).
  { eapply binv_closed. eapply build_conns_preserves; [apply binv_empty|exact BS]. }
  destruct (nodes (to_dgraph bq)); destruct (nodes (to_dgraph bs)); try discriminate;
    intros H; inversion H; subst; cbn [freq fres]; split; assumption.
Qed.

Lemma load_closed : forall cf fs f d,
  load cf = Accept fs -> In f fs -> closed (gdir f d).
Proof.
  intros cf fs f d L I. destruct (load_accept_built cf fs L) as [_ [_ F2]].
  assert (G : exists fc, build_flow cf true true fc = FOk f).
  { clear L. induction F2 as [|fc f' fcs fs' B _ IH]; [contradiction|].
    destruct I as [E|I]; [subst; eauto|apply IH; exact I]. }
  destruct G as [fc B]. destruct (build_flow_closed _ _ _ _ _ B) as [CQ CS].
  destruct d; assumption.
Qed.

(* ----------------------------------------- the validator's verdict, exactly *)

Lemma validate_dir_exact : forall d g,
  validate_dir true d g = VOk <->
  (nodes g = []
   \/ ((is_req d = true -> root g <> None) /\ unconnected_ok g = true
       /\ exists rk, ranked g rk)).
Proof.
  intros d g. split.
  - intros H. destruct (nodes g) as [|n ns] eqn:N; [left; reflexivity|right].
    pose proof (all_starts_ranked g (validate_dir_all_starts d g H)) as R.
    unfold validate_dir in H. rewrite N in H.
    destruct (is_req d) eqn:Q; cbn [andb] in H.
    + destruct (root g) eqn:RT; [|discriminate].
      destruct (unconnected_ok g); [|discriminate].
      repeat split; [discriminate|eauto].
    + destruct (unconnected_ok g); [|discriminate].
      repeat split; [discriminate|eauto].
  - intros [N|[RT [U [rk R]]]]; unfold validate_dir.
    + rewrite N. reflexivity.
    + destruct (nodes g) as [|n ns] eqn:N; [reflexivity|].
      destruct (is_req d) eqn:Q; cbn [andb].
      * destruct (root g) eqn:RG; [|exfalso; apply RT; reflexivity].
        rewrite U. cbn [negb]. rewrite (detect_complete g rk d R). reflexivity.
      * rewrite U. cbn [negb]. rewrite (detect_complete g rk d R). reflexivity.
Qed.

Lemma validate_dir_bad_exact : forall d g,
  validate_dir true d g = VBad <->
  (nodes g <> []
   /\ ~ ((is_req d = true -> root g <> None) /\ unconnected_ok g = true
         /\ exists rk, ranked g rk)).
Proof.
  intros d g. split.
  - intros H. split.
    + intros N. unfold validate_dir in H. rewrite N in H. discriminate.
    + intros C. assert (Y : validate_dir true d g = VOk) by (apply validate_dir_exact; right; exact C).
      congruence.
  - intros [N C]. pose proof (validate_dir_no_fuel true d g) as NF.
    destruct (validate_dir true d g) eqn:V; [|reflexivity|contradiction].
    exfalso. apply validate_dir_exact in V. destruct V as [V|V]; contradiction.
Qed.

Lemma load_accepted_ranked : forall cf fs f d,
  load cf = Accept fs -> In f fs ->
  ranked (gdir f d) (rank_of (gdir f d)) /\ forall k, (rank_of (gdir f d) k < exec_fuel fs)%nat.
Proof.
  intros cf fs f d L I.
  pose proof (load_accept_valid cf fs L) as V. rewrite Forall_forall in V.
  destruct (V f I) as [VQ VS]. destruct (exec_fuel_ge fs f I) as [LQ LS].
  assert (G : validate_dir true d (gdir f d) = VOk) by (destruct d; assumption).
  split.
  - apply all_starts_ranked. eapply validate_dir_all_starts. exact G.
  - intros k. pose proof (rank_below_fuel (gdir f d) k). destruct d; cbn [gdir] in *; lia.
Qed.
