(* C05 — model of what the loader accepts: the structural validator of the flow
   YAML, processor creation, the flow builder with flow references, and the
   graph validation (root, unconnected processors, circular connections).
   Executing an accepted configuration is C04's model ([exec_impl], [run_req],
   [run_res]), reused as is.

   Anchors (lunar-engine/streams):
     config/streams.validator.go   validateFlowRepresentation -> [struct_ok]
     config/streams.utils.go       GetFlows (duplicate names)  -> [struct_ok]
     streams.go Initialize         CreateProcessor loop        -> [procs_ok]
     processors/processor_util.go  extractProcessorParameters, the constructors of
                                   Filter / Limiter            -> [decl_ok]
     flow/flow_builder.go          buildConnection & friends   -> [build_conn],
                                   incorporateFlow             -> [incorporate]
     flow/flow_direction.go        getOrCreateNode             -> [get_or_create]
     flow/flow_graph_node.go       addEdge                     -> [add_edge]
     types/processor.utils.go      CheckCondition              -> [cond_ok]
     flow/validations.go           validateFlow/validateDirection -> [validate_dir],
                                   validateUnconnectedProcessors  -> [unconnected_ok],
                                   detectCircularConnections      -> [detect],
                                   dfsDetectCycles                -> [dfs]

   The model describes the code WITH the repairs fix-F-C05a (the cycle search
   starts from the connections of every processor of the direction),
   fix-F-C05b (a flow reference back into the chain of flows being incorporated
   is an error) and fix-F-C05l (flowBuilder.foreignRoot is cleared before each
   direction of each flow is built).  The repairs are switches ([allstarts],
   [guard], [fresh]) so that the behaviour of the unrepaired tree stays
   available for the refutations in Property.v.

   fb.foreignRoot.  In the code it is a field of the builder holding a POINTER
   to a graph node.  Without fix-F-C05l a value nothing consumed (`stream -> k`
   naming a processor that an incorporated flow brought in) survives into the
   response direction of the same flow and into the build of whichever flow Go's
   map iteration visits next.  [fresh = false] threads the KEY from the request
   to the response direction, which is all a key-based graph can say about it
   (the pointer drags the request-side connections of that node along; the
   harness family `foreign-root` shows the difference on the real code) and
   says nothing about the next flow.  With fix-F-C05l ([fresh = true], the
   model used everywhere else) each direction starts without a foreign root,
   every flow is built from a clean builder state, and key and pointer agree
   because both always denote a node of the direction being built
   (C05_root_is_node).

   flowBuilder.build() tries every flow once and the failed ones a second time;
   a flow's build being a function of the configuration alone (clean state),
   the second pass changes nothing: [build_all] is the single pass,
   [build_two_pass] the code's two, C05_retry_pass_irrelevant their equality.

   This file starts from DECODED configurations.  The decode step (files as
   bytes: no document / decoder error / object; the order in which quota,
   path-parameter, flow and processor-definition files are read) is Decode.v,
   whose last stage is [load] below.

   Not modelled: YAML decoding of files with content, URL / path-parameter
   handling, the filter tree (AddFlow), the quota loader's own validation
   (tested only), what processors do inside Execute. *)
From Coq Require Import List ZArith Bool.
From Verif Require Import C04.Model.
Import ListNotations.
Open Scope Z_scope.

(* ------------------------------------------------------ configuration as written *)

(* processor reference "k" / "B.k": owner B (created_by), name k, condition *)
Record procref := PR { pr_owner : option Z; pr_name : Z; pr_cond : cond }.

(* one end of a connection: any subset of stream / flow / processor may be
   written.  at: 0 = start, 1 = end, 2 = anything else *)
Record endpoint := EP { ep_stream : option Z; ep_flow : option (Z * Z); ep_proc : option procref }.
Record conn := CN { c_from : endpoint; c_to : endpoint }.

(* processor types: 0 = `processor:` left empty, 1 Filter, 2 GenerateResponse,
   3 MockProcessor, 4 Limiter, anything else = unknown to the registry.
   parameter keys: 1 header (a Filter criterion), 2 quota_id (of the quota the
   configuration defines), 3 status, 4 body, 5 some other key, 6 quota_id naming
   a quota that does not exist *)
Record pdecl := PD { pd_key : Z; pd_dot : bool; pd_type : Z; pd_params : list Z }.

Record flowcfg := FC { fc_name : Z; fc_url : bool; fc_procs : list pdecl;
                    fc_req : list conn; fc_res : list conn }.
Record config := CF { cf_flows : list flowcfg; cf_quota : bool }.

Definition memZ (x : Z) (l : list Z) : bool := existsb (Z.eqb x) l.

Fixpoint nodupZ (l : list Z) : bool :=
  match l with
  | [] => true
  | x :: r => negb (memZ x r) && nodupZ r
  end.

Definition find_flow (cf : config) (n : Z) : option flowcfg :=
  find (fun f => fc_name f =? n) (cf_flows cf).
Definition find_decl (cf : config) (fl : Z) (k : Z) : option pdecl :=
  match find_flow cf fl with
  | Some f => find (fun p => pd_key p =? k) (fc_procs f)
  | None => None
  end.

Definition fc_conns (f : flowcfg) (d : dir) : list conn :=
  match d with Req => fc_req f | Res => fc_res f end.

(* ------------------------------------------------- stage 1: structural validator *)

Definition ep_named (e : endpoint) : bool :=
  match ep_stream e, ep_flow e, ep_proc e with
  | None, None, None => false
  | _, _, _ => true
  end.

(* validateFlowConnection: the list is not empty, both ends name something *)
Definition conns_ok (cs : list conn) : bool :=
  match cs with
  | [] => false
  | _ => forallb (fun c => ep_named (c_from c) && ep_named (c_to c)) cs
  end.

(* the param key as written in the YAML: 6 is written as quota_id too *)
Definition param_written (p : Z) : Z := if p =? 6 then 2 else p.

(* validateProcessor: type named, no parameter key twice.  (Its test "the key
   contains no '.'" reads Processor.Key, which GetFlows fills in only AFTER the
   validation: it never fires, so [pd_dot] is not consulted - as coded.) *)
Definition decl_struct_ok (p : pdecl) : bool :=
  negb (pd_type p =? 0) && nodupZ (map param_written (pd_params p)).

Definition flow_struct_ok (f : flowcfg) : bool :=
  fc_url f && conns_ok (fc_req f) && conns_ok (fc_res f) && forallb decl_struct_ok (fc_procs f).

Definition struct_ok (cf : config) : bool :=
  forallb flow_struct_ok (cf_flows cf) && nodupZ (map fc_name (cf_flows cf)).

(* --------------------------------------------------- stage 2: processor creation *)

(* CreateProcessor: the type is known, required parameters are present
   (Limiter: quota_id), the constructor succeeds (Filter: at least one
   criterion; Limiter: the quota exists) *)
Definition decl_ok (cf : config) (p : pdecl) : bool :=
  let ps := pd_params p in
  if pd_type p =? 1 then memZ 1 ps
  else if pd_type p =? 2 then true
  else if pd_type p =? 3 then true
  else if pd_type p =? 4 then memZ 2 ps && cf_quota cf
  else false.

Definition procs_ok (cf : config) : bool :=
  forallb (fun f => forallb (decl_ok cf) (fc_procs f)) (cf_flows cf).

(* ------------------------------------------------------------ stage 3: the builder *)

(* ProcessorDefinition.CheckCondition: the condition is an output of the
   processor type for this direction *)
Definition cond_ok (ty : Z) (c : cond) (d : dir) : bool :=
  if ty =? 1 then (c =? 1) || (c =? 2)
  else if ty =? 2 then (c =? 0) && negb (is_req d)
  else if ty =? 3 then (c =? 5) || (c =? 6)
  else if ty =? 4 then ((c =? 3) || (c =? 4)) && is_req d
  else false.

(* key of the graph node of a processor reference (its reference name) *)
Definition refkey (r : procref) : key :=
  match pr_owner r with
  | None => pr_name r
  | Some o => 1000 * o + pr_name r
  end.

(* a node while the direction is being built: key, the flow on whose behalf it
   was created (flowGraphName), connections *)
Record bnode := { bn_key : key; bn_flow : Z; bn_edges : list edge }.
Record bdir := { bd_nodes : list bnode; bd_root : option key }.
(* the direction under construction and fb.foreignRoot *)
Definition bstate := (bdir * option key)%type.

Inductive bres := BOk (s : bstate) | BErr | BFuel.

Definition bfind (b : bdir) (k : key) : option bnode :=
  find (fun n => bn_key n =? k) (bd_nodes b).

Definition edge_eqb (a b : edge) : bool :=
  (fst a =? fst b) &&
  match snd a, snd b with
  | None, None => true
  | Some x, Some y => x =? y
  | _, _ => false
  end.

(* FlowGraphNode.addEdge: an equal connection is not added twice *)
Definition add_edge (b : bdir) (k : key) (e : edge) : bdir :=
  {| bd_nodes := map (fun n => if bn_key n =? k
                               then if existsb (edge_eqb e) (bn_edges n) then n
                                    else {| bn_key := bn_key n; bn_flow := bn_flow n;
                                            bn_edges := bn_edges n ++ [e] |}
                               else n) (bd_nodes b);
     bd_root := bd_root b |}.

Definition set_root (b : bdir) (k : key) : bdir :=
  {| bd_nodes := bd_nodes b; bd_root := Some k |}.

Section Builder.
  Variable cf : config.
  Variable guard : bool.   (* fix-F-C05b present *)
  Variable top : Z.        (* the flow being built (FlowDirection.flowName) *)
  Variable d : dir.

  (* FlowDirection.getOrCreateNode on behalf of flow [cur] *)
  Definition get_or_create (cur : Z) (r : procref) (b : bdir) : option (bdir * bnode) :=
    let k := refkey r in
    match bfind b k with
    | Some n => Some (b, n)
    | None =>
        let by_ := match pr_owner r with Some o => o | None => cur end in
        match find_decl cf by_ (pr_name r) with
        | None => None              (* "processor ... created by flow ... not found" *)
        | Some _ =>
            let n := {| bn_key := k; bn_flow := cur; bn_edges := [] |} in
            Some ({| bd_nodes := bd_nodes b ++ [n]; bd_root := bd_root b |}, n)
        end
    end.

  (* flowBuilder.validateCondition: checked only when a definition is found *)
  Definition from_cond_ok (cur : Z) (r : procref) : bool :=
    let def := match find_decl cf cur (pr_name r) with
               | Some p => Some p
               | None => match pr_owner r with
                         | Some o => find_decl cf o (pr_name r)
                         | None => None
                         end
               end in
    match def with
    | Some p => cond_ok (pd_type p) (pr_cond r) d
    | None => true
    end.

  (* flowBuilder.incorporateFlow; [rec] builds a connection list on behalf of a flow *)
  Definition incorporate (rec : Z -> list Z -> list conn -> bstate -> bres)
             (stack : list Z) (name : Z) (s : bstate) : bres :=
    match find_flow cf name with
    | None => BErr                                   (* "flow ... not found" *)
    | Some f =>
        if guard && memZ name stack then BErr         (* "circular flow reference" *)
        else rec name (name :: stack) (fc_conns f d) s
    end.

  (* flowBuilder.buildConnection *)
  Definition build_conn (rec : Z -> list Z -> list conn -> bstate -> bres)
             (cur : Z) (stack : list Z) (c : conn) (s : bstate) : bres :=
    let fr := c_from c in
    let to := c_to c in
    let '(b, foreign) := s in
    if match ep_proc fr with Some r => negb (from_cond_ok cur r) | None => false end
    then BErr                                         (* "invalid condition" *)
    else
    match ep_proc to, ep_proc fr with
    | Some tr, Some r =>
        (* connectProcessors *)
        match get_or_create cur r b with
        | None => BErr
        | Some (b1, src) =>
            match get_or_create cur tr b1 with
            | None => BErr
            | Some (b2, tgt) =>
                BOk (add_edge b2 (bn_key src) (pr_cond r, Some (bn_key tgt)), foreign)
            end
        end
    | Some tr, None =>
        if match ep_stream fr with Some a => a =? 0 | None => false end
        then (* connectStreamToProcessor *)
          match get_or_create cur tr b with
          | None => BErr
          | Some (b1, tgt) =>
              if bn_flow tgt =? top then BOk (set_root b1 (bn_key tgt), foreign)
              else BOk (b1, Some (bn_key tgt))
          end
        else if match ep_flow fr with Some (_, a) => a =? 1 | None => false end
        then (* connectFlowToProcessor *)
          match get_or_create cur tr b with
          | None => BErr
          | Some (b1, tgt) =>
              let name := match ep_flow fr with Some (n, _) => n | None => 0 end in
              match incorporate rec stack name (set_root b1 (bn_key tgt), foreign) with
              | BOk (b2, Some fk) => BOk (set_root b2 fk, None)
              | BOk (_, None) => BErr                 (* "foreign root node not found" *)
              | other => other
              end
          end
        else if match ep_stream fr, ep_stream to with Some _, Some _ => true | _, _ => false end
        then BOk s                                     (* stream -> stream *)
        else BErr                                      (* "invalid connection configuration" *)
    | None, Some r =>
        if match ep_stream to with Some a => a =? 1 | None => false end
        then (* connectProcessorToStream *)
          match get_or_create cur r b with
          | None => BErr
          | Some (b1, src) =>
              if is_req d && negb (bn_flow src =? top)
              then match bd_root b1 with
                   | None => BErr                      (* "root node not found" *)
                   | Some rk => BOk (add_edge b1 (bn_key src) (pr_cond r, Some rk), foreign)
                   end
              else BOk (add_edge b1 (bn_key src) (pr_cond r, None), foreign)
          end
        else if match ep_flow to with Some (_, a) => a =? 0 | None => false end
        then (* connectProcessorToFlow *)
          match get_or_create cur r b with
          | None => BErr
          | Some (b1, src) =>
              let name := match ep_flow to with Some (n, _) => n | None => 0 end in
              match incorporate rec stack name (b1, foreign) with
              | BOk (b2, Some fk) => BOk (add_edge b2 (bn_key src) (pr_cond r, Some fk), None)
              | BOk (_, None) => BErr
              | other => other
              end
          end
        else if match ep_stream fr, ep_stream to with Some _, Some _ => true | _, _ => false end
        then BOk s
        else BErr
    | None, None =>
        if match ep_stream fr, ep_stream to with Some _, Some _ => true | _, _ => false end
        then BOk s
        else BErr
    end.

  (* flowBuilder.buildConnections: the first error ends the list *)
  Fixpoint build_list (step : conn -> bstate -> bres) (cs : list conn) (s : bstate) : bres :=
    match cs with
    | [] => BOk s
    | c :: rest =>
        match step c s with
        | BOk s' => build_list step rest s'
        | other => other
        end
    end.

  (* fuel = depth of the incorporateFlow recursion *)
  Fixpoint build_conns (fuel : nat) (cur : Z) (stack : list Z) (cs : list conn) (s : bstate)
    : bres :=
    match fuel with
    | O => BFuel
    | S f => build_list (build_conn (build_conns f) cur stack) cs s
    end.
End Builder.

Definition empty_bdir : bdir := {| bd_nodes := []; bd_root := None |}.

Definition to_dgraph (b : bdir) : dgraph :=
  {| root := bd_root b; nodes := map (fun n => (bn_key n, bn_edges n)) (bd_nodes b) |}.

(* --------------------------------------------------------- graph validation *)

(* validateUnconnectedProcessors: a processor is connected when it has a
   connection or is the target of one (or is a root with connections) *)
Definition unconnected_ok (g : dgraph) : bool :=
  let targets := flat_map (fun n => all_targets (snd n)) (nodes g) in
  forallb (fun n =>
             negb (match snd n with [] => true | _ => false end)
             || memZ (fst n) targets
             || match root g with
                | Some r => (r =? fst n) && negb (match edges_of g r with [] => true | _ => false end)
                | None => false
                end) (nodes g).

Inductive dres := DOk | DCycle | DFuel.

(* the empty condition is filed under "*" *)
Definition star : cond := 100.
Definition norm (c : cond) : cond := if c =? 0 then star else c.

Definition pair_eqb (a b : cond * key) : bool := (fst a =? fst b) && (snd a =? snd b).
Definition visited (vis : list (cond * key)) (p : cond * key) : bool := existsb (pair_eqb p) vis.

(* the connection loop of dfsDetectCycles / detectCircularConnections: the first
   search that does not come back clean ends it *)
Fixpoint dfs_edges (rec : key -> cond -> dres) (es : list edge) : dres :=
  match es with
  | [] => DOk
  | (c, Some t) :: rest =>
      match rec t c with
      | DOk => dfs_edges rec rest
      | other => other
      end
  | (_, None) :: rest => dfs_edges rec rest
  end.

Section Detect.
  Variable g : dgraph.

  (* dfsDetectCycles: [vis] = the (condition, processor) pairs on the current
     path (the map is cloned for every connection followed, so siblings do not
     see each other's visits) *)
  Fixpoint dfs (fuel : nat) (vis : list (cond * key)) (k : key) (c : cond) : dres :=
    match fuel with
    | O => DFuel
    | S f =>
        let p := (norm c, k) in
        if visited vis p then DCycle
        else dfs_edges (dfs f (p :: vis)) (edges_of g k)
    end.

  (* one search per connection of a start processor, each with an empty map *)
  Definition dfs_from (fuel : nat) (es : list edge) : dres := dfs_edges (dfs fuel []) es.

  Fixpoint dfs_nodes (fuel : nat) (ns : list (key * list edge)) : dres :=
    match ns with
    | [] => DOk
    | n :: rest =>
        match dfs_from fuel (snd n) with
        | DOk => dfs_nodes fuel rest
        | other => other
        end
    end.
End Detect.

(* detectCircularConnections.  [allstarts] = fix-F-C05a present: start from the
   connections of every processor; pinned tree: only from the root's, and not
   at all for a response direction without root *)
Definition detect (allstarts : bool) (fuel : nat) (d : dir) (g : dgraph) : dres :=
  if allstarts then dfs_nodes g fuel (nodes g)
  else match root g with
       | None => DOk     (* request: excluded before; response: exempt *)
       | Some r => dfs_from g fuel (edges_of g r)
       end.

(* number of connections to processors: bounds the length of a visited list *)
Definition edge_count (g : dgraph) : nat :=
  length (flat_map (fun n => all_targets (snd n)) (nodes g)).
Definition detect_fuel (g : dgraph) : nat := S (S (edge_count g)).

Inductive vres := VOk | VBad | VFuel.

(* validateDirection *)
Definition validate_dir (allstarts : bool) (d : dir) (g : dgraph) : vres :=
  match nodes g with
  | [] => VOk                                          (* not defined: nothing to check *)
  | _ =>
      if is_req d && match root g with None => true | Some _ => false end then VBad
      else if negb (unconnected_ok g) then VBad
      else match detect allstarts (detect_fuel g) d g with
           | DOk => VOk
           | DCycle => VBad
           | DFuel => VFuel
           end
  end.

(* the Boolean reading used in the theorems: accepted, and not by exhaustion *)
Definition validate (d : dir) (g : dgraph) : bool :=
  match validate_dir true d g with VOk => true | _ => false end.

(* ------------------------------------------------------------------ one flow *)

Inductive fresult := FOk (f : flow) | FBad | FFuel.

Definition build_fuel (cf : config) : nat := S (S (length (cf_flows cf))).

(* flowBuilder.buildFlow: request connections, response connections, validateFlow.
   [fresh] = fix-F-C05l present: fb.foreignRoot is cleared before each direction;
   without it the response direction inherits what the request direction left *)
Definition build_flow_with (fresh : bool) (cf : config) (guard allstarts : bool) (fc : flowcfg)
  : fresult :=
  let top := fc_name fc in
  let fuel := build_fuel cf in
  match build_conns cf guard top Req fuel top [top] (fc_req fc) (empty_bdir, None) with
  | BErr => FBad
  | BFuel => FFuel
  | BOk (bq, foreign) =>
      match build_conns cf guard top Res fuel top [top] (fc_res fc)
                        (empty_bdir, if fresh then None else foreign) with
      | BErr => FBad
      | BFuel => FFuel
      | BOk (bs, _) =>
          let gq := to_dgraph bq in
          let gs := to_dgraph bs in
          match validate_dir allstarts Req gq with
          | VBad => FBad
          | VFuel => FFuel
          | VOk =>
              match validate_dir allstarts Res gs with
              | VBad => FBad
              | VFuel => FFuel
              | VOk =>
                  match nodes gq, nodes gs with
                  | [], [] => FBad                     (* "no flow direction defined" *)
                  | _, _ => FOk {| fname := top; freq := gq; fres := gs |}
                  end
              end
          end
      end
  end.

(* the builder of the repaired tree *)
Definition build_flow : config -> bool -> bool -> flowcfg -> fresult := build_flow_with true.

(* ------------------------------------------------------------ the whole loader *)

Inductive verdict :=
| Accept (fs : list flow)
| Reject (stage : Z)      (* 1 flow files, 2 processors, 3 flow graphs *)
| LoaderFuel.             (* model artefact, excluded by the theorems *)

Section BuildAll.
  Variable build : flowcfg -> fresult.      (* how one flow is built *)

  Fixpoint build_all_by (fcs : list flowcfg) : verdict :=
    match fcs with
    | [] => Accept []
    | fc :: rest =>
        match build fc with
        | FBad => match build_all_by rest with
                  | LoaderFuel => LoaderFuel
                  | _ => Reject 3
                  end
        | FFuel => LoaderFuel
        | FOk f => match build_all_by rest with
                   | Accept fs => Accept (f :: fs)
                   | other => other
                   end
        end
    end.

  (* flowBuilder.build() as coded: every flow once; the ones that failed are
     tried a second time, and only a failure then is an error.  (A flow built
     in the first pass is in the filter tree already; its graph is the first
     pass' one.) *)
  Definition is_fbad (r : fresult) : bool := match r with FBad => true | _ => false end.
  Definition build_two_pass (fcs : list flowcfg) : verdict :=
    let pending := filter (fun fc => is_fbad (build fc)) fcs in
    match build_all_by (filter (fun fc => negb (is_fbad (build fc))) fcs) with
    | Accept fs =>
        match build_all_by pending with
        | Accept fs2 => Accept (fs ++ fs2)
        | other => other
        end
    | other => other
    end.
End BuildAll.

Definition build_all (cf : config) (guard allstarts : bool) : list flowcfg -> verdict :=
  build_all_by (build_flow cf guard allstarts).

Definition load_gen (fresh guard allstarts : bool) (cf : config) : verdict :=
  if negb (struct_ok cf) then Reject 1
  else if negb (procs_ok cf) then Reject 2
  else build_all_by (build_flow_with fresh cf guard allstarts) (cf_flows cf).

Definition load_with : bool -> bool -> config -> verdict := load_gen true.

(* the loader with the repairs; the one of the pinned tree (before a, b); the
   one without fix-F-C05l (request-to-response part of the stale foreign root) *)
Definition load : config -> verdict := load_with true true.
Definition load_pinned : config -> verdict := load_gen false false false.
Definition load_stale : config -> verdict := load_gen false true true.

(* ---------------------------------------------------- executing transactions *)

(* behaviour of the processors during one transaction: Filter k answers hit iff
   its steering header is present; GenerateResponse answers a request itself *)
Definition type_of_name (cf : config) (k : Z) : Z :=
  match flat_map (fun f => match find (fun p => pd_key p =? k) (fc_procs f) with
                           | Some p => [pd_type p] | None => [] end) (cf_flows cf) with
  | t :: _ => t
  | [] => 0
  end.

Definition beh_of (cf : config) (hdrs : list Z) : oracles :=
  fun _ k d =>
    let name := k mod 1000 in
    let ty := type_of_name cf name in
    if ty =? 1 then (if memZ name hdrs then 1 else 2, Plain)
    else if ty =? 2 then (0, if is_req d then Early else Plain)
    else if ty =? 4 then (3, Plain)
    else (0, Plain).

(* fuel for C04's executor: above every rank of every direction *)
Definition exec_fuel_of (g : dgraph) : nat := S (S (S (detect_fuel g))).
Definition exec_fuel (fs : list flow) : nat :=
  fold_right (fun f n => Nat.max (Nat.max (exec_fuel_of (freq f)) (exec_fuel_of (fres f))) n) 1%nat fs.

(* ---------------------------------------------------- correspondence entries *)

(* The harness writes configurations with the record constructors above (PR, EP,
   CN, PD, FC, CF) and the case constructors below: no tuples, so that coqc
   elaborates the case files quickly. *)

(* verdict code: 0 accepted, 1 / 2 / 3 rejected at that stage, 7 fuel *)
Definition verdict_code (v : verdict) : Z :=
  match v with Accept _ => 0 | Reject s => s | LoaderFuel => 7 end.

(* suite "load": configuration, observed verdict code *)
Inductive case_load := LoadCase (cf : config) (code : Z).
Definition run_load (k : case_load) : option Z :=
  let '(LoadCase cf code) := k in
  let m := verdict_code (load cf) in
  if m =? code then None else Some m.

Inductive sel_e := SEL (start user end_ : list Z).
Inductive ev_e := EV (fl : Z) (k : Z) (isreq : bool) (c : Z).
Definition sel_of (s : sel_e) : sel_enc := let '(SEL a u z) := s in (a, u, z).
Definition ev_of (e : ev_e) : Z * Z * bool * Z := let '(EV f k q c) := e in (f, k, q, c).

(* suite "txn": configuration, selection, (has-second, selection as response
   after a hand-over), names of the Filters whose header is present, is-request,
   observed events, observed result code.
   result code as in C04: 0 nothing special, 1 answered by a processor, 2 error,
   3 fuel; 8 = the model does not accept the configuration *)
Inductive case_txn :=
  TxnCase (cf : config) (s1 : sel_e) (has2 : bool) (s2 : sel_e) (hdrs : list Z)
          (isreq : bool) (obs : list ev_e) (code : Z).

Definition run_txn (k : case_txn) : option (list (Z * Z * bool * Z) * Z) :=
  let '(TxnCase cf s1 has2 s2 hdrs isreq obs code) := k in
  match load cf with
  | Accept fs =>
      let beh := beh_of cf hdrs in
      let fuel := exec_fuel fs in
      let r := if isreq
               then run_req fuel beh (dec_sel fs (sel_of s1))
                            (if has2 then Some (dec_sel fs (sel_of s2)) else None)
               else run_res fuel beh (dec_sel fs (sel_of s1)) None in
      let m := (map enc_event (fst r), result_code beh r) in
      if eq_events (fst m) (map ev_of obs) && (snd m =? code) then None else Some m
  | _ => Some ([], 8)
  end.
