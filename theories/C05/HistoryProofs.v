(* C05 — lemmas about the history-dependent executor (History.v):
     A. for a history-blind oracle it is C04's executor (events in reverse);
     B. for EVERY oracle: on ranked (acyclic) graphs it never exhausts a budget
        above the ranks, the result does not depend on the budget, the number of
        executions obeys the same bound as C04's executor, and a transaction
        ends with actions or the error "failed to get response node".
   Final statements are in Property.v. *)
From Coq Require Import List ZArith Bool Lia Arith PeanoNat.
From Verif Require Import C04.Model C04.Spec C04.Proofs C05.Model C05.Proofs C05.Proofs2 C05.History.
Import ListNotations.
Open Scope Z_scope.

(* ======================================================================= A *)

Definition tagn (n : Z) (d : dir) (t : list ev) : list event :=
  map (fun kc => {| e_flow := n; e_key := fst kc; e_dir := d; e_cond := snd kc |}) t.

Lemma tag_tagn : forall f d t, tag f d t = tagn (fname f) d t.
Proof. reflexivity. Qed.

(* the history after the events [t] (in execution order) were added to [h] *)
Definition after (h : history) (t : list event) : history := rev t ++ h.

Lemma after_nil : forall h, after h [] = h.
Proof. reflexivity. Qed.

Lemma after_app : forall h t1 t2, after (after h t1) t2 = after h (t1 ++ t2).
Proof. intros. unfold after. rewrite rev_app_distr, app_assoc. reflexivity. Qed.

Lemma after_cons : forall h e t, after (e :: h) t = after h (e :: t).
Proof. intros. unfold after. cbn [rev]. rewrite <- app_assoc. reflexivity. Qed.

Section BlindWalk.
  Variable fl : Z.
  Variable g gr : dgraph.
  Variable d : dir.
  Variable beh : oracle.
  Variable hb : horacle.
  Hypothesis B : forall h k, hb h fl k d = beh k d.

  Lemma hloop_blind : forall (hrec : history -> key -> history * outcome)
                             (rec : key -> list ev * outcome),
    (forall h t, hrec h t = (after h (tagn fl d (fst (rec t))), snd (rec t))) ->
    forall c es h,
      hloop hrec h c es
      = (after h (tagn fl d (fst (loop_impl rec c es))), snd (loop_impl rec c es)).
  Proof.
    intros hrec rec H c es. induction es as [|[c' [t|]] es IH]; intros h; cbn [hloop loop_impl].
    - reflexivity.
    - destruct (c' =? c); [|apply IH].
      rewrite H. unfold andthen. cbn [fst snd].
      destruct (is_done (snd (rec t))); [|reflexivity].
      rewrite IH. cbn [fst snd]. unfold tagn. rewrite map_app, after_app. reflexivity.
    - apply IH.
  Qed.

  Lemma hexec_blind : forall fuel h k,
    hexec fl g gr d hb fuel h k
    = (after h (tagn fl d (fst (exec_impl g gr d beh fuel k))), snd (exec_impl g gr d beh fuel k)).
  Proof.
    induction fuel as [|f IH]; intros h k; cbn [hexec exec_impl]; [reflexivity|].
    rewrite B. unfold answers.
    destruct (is_req d && is_early (snd (beh k d))); [reflexivity|].
    rewrite (hloop_blind (hexec fl g gr d hb f) (exec_impl g gr d beh f) IH).
    cbn [fst snd]. rewrite after_cons. reflexivity.
  Qed.

  Lemma hstarts_blind : forall (hrec : history -> key -> history * outcome)
                               (rec : key -> list ev * outcome),
    (forall h t, hrec h t = (after h (tagn fl d (fst (rec t))), snd (rec t))) ->
    forall ts h,
      hstarts hrec h ts
      = (after h (tagn fl d (fst (starts_impl rec ts))), snd (starts_impl rec ts)).
  Proof.
    intros hrec rec H ts. induction ts as [|t ts IH]; intros h; cbn [hstarts starts_impl].
    - reflexivity.
    - rewrite H. cbn [fst snd]. destruct (failed (snd (rec t))); [reflexivity|].
      rewrite IH. cbn [fst snd]. unfold tagn. rewrite map_app, after_app. reflexivity.
  Qed.
End BlindWalk.

Lemma hexec_flow_blind : forall fuel f d start (beh : oracle) (hb : horacle) h,
  (forall h' k, hb h' (fname f) k d = beh k d) ->
  hexec_flow fuel f d start hb h
  = (after h (tag f d (fst (exec_flow_impl fuel f d start beh))),
     snd (exec_flow_impl fuel f d start beh)).
Proof.
  intros fuel f d start beh hb h B. unfold hexec_flow, exec_flow_impl. rewrite tag_tagn.
  destruct start as [k|].
  - apply hstarts_blind. intros h' t. apply hexec_blind. exact B.
  - destruct (root (gdir f d)) as [r|]; [apply hexec_blind; exact B|reflexivity].
Qed.

Section BlindOrchestration.
  Variable fuel : nat.
  Variable beh : oracles.

  Notation hb := (blind beh).

  Lemma hflow_blind : forall f d start h,
    hexec_flow fuel f d start hb h
    = (after h (tag f d (fst (exec_flow_impl fuel f d start (beh (fname f))))),
       snd (exec_flow_impl fuel f d start (beh (fname f)))).
  Proof. intros. apply hexec_flow_blind. reflexivity. Qed.

  Lemma hrun_list_blind : forall d fs h,
    hrun_list fuel hb d fs h
    = (after h (fst (run_list fuel beh d fs)), snd (run_list fuel beh d fs)).
  Proof.
    intros d fs. induction fs as [|f fs IH]; intros h; cbn [hrun_list run_list]; [reflexivity|].
    rewrite hflow_blind. cbn [fst snd].
    destruct (failed (snd (exec_flow_impl fuel f d None (beh (fname f))))); [reflexivity|].
    rewrite IH. cbn [fst snd]. rewrite after_app. reflexivity.
  Qed.

  Lemma hrun_users_req_blind : forall fs h,
    hrun_users_req fuel hb fs h
    = (after h (fst (fst (run_users_req fuel beh fs))),
       snd (fst (run_users_req fuel beh fs)), snd (run_users_req fuel beh fs)).
  Proof.
    induction fs as [|f fs IH]; intros h; cbn [hrun_users_req run_users_req]; [reflexivity|].
    rewrite hflow_blind. cbn [fst snd].
    destruct (snd (exec_flow_impl fuel f Req None (beh (fname f)))); try reflexivity.
    rewrite IH. destruct (run_users_req fuel beh fs) as [[t2 sc] e]. cbn [fst snd].
    rewrite after_app. reflexivity.
  Qed.

  Lemma hrun_users_res_blind : forall sc fs h,
    hrun_users_res fuel hb sc fs h
    = (after h (fst (run_users_res fuel beh sc fs)), snd (run_users_res fuel beh sc fs)).
  Proof.
    intros sc fs. induction fs as [|f fs IH]; intros h; cbn [hrun_users_res run_users_res];
      [reflexivity|].
    rewrite hflow_blind. cbn [fst snd].
    match goal with |- context [failed (snd ?x)] => destruct (failed (snd x)) end; [reflexivity|].
    rewrite IH. cbn [fst snd]. rewrite after_app. reflexivity.
  Qed.

  Lemma hthen_blind : forall (hr : history * option outcome) (hrest : history -> history * option outcome)
                             (r : list event * option outcome)
                             (rest : unit -> list event * option outcome) h,
    hr = (after h (fst r), snd r) ->
    (forall h', hrest h' = (after h' (fst (rest tt)), snd (rest tt))) ->
    hthen hr hrest = (after h (fst (then_ r rest)), snd (then_ r rest)).
  Proof.
    intros hr hrest r rest h E R. unfold hthen, then_. rewrite E. cbn [fst snd].
    destruct (snd r) eqn:S; [rewrite S; reflexivity|].
    rewrite R. cbn [fst snd]. rewrite after_app. reflexivity.
  Qed.

  Lemma hrun_res_blind : forall s sc h,
    hrun_res fuel hb s sc h = (after h (fst (run_res fuel beh s sc)), snd (run_res fuel beh s sc)).
  Proof.
    intros s sc h. unfold hrun_res, run_res.
    apply hthen_blind; [apply hrun_list_blind|]. intros h1.
    apply hthen_blind; [apply hrun_users_res_blind|]. intros h2. apply hrun_list_blind.
  Qed.

  Lemma hrun_req_blind : forall s s2 h,
    hrun_req fuel hb s s2 h = (after h (fst (run_req fuel beh s s2)), snd (run_req fuel beh s s2)).
  Proof.
    intros s s2 h. unfold hrun_req, run_req.
    apply hthen_blind; [apply hrun_list_blind|]. intros h1.
    rewrite hrun_users_req_blind.
    destruct (run_users_req fuel beh (s_user s)) as [[t2 sc] e2]. cbn [fst snd].
    apply hthen_blind; [reflexivity|]. intros h3.
    apply hthen_blind; [apply hrun_list_blind|]. intros h4.
    destruct sc as [hd|]; [|reflexivity].
    destruct s2 as [s'|]; [|reflexivity].
    apply hrun_res_blind.
  Qed.
End BlindOrchestration.

(* ======================================================================= B *)

(* h' extends h by at most N executions *)
Definition ext_by (h h' : history) (N : nat) : Prop :=
  exists t, h' = t ++ h /\ (length t <= N)%nat.

Lemma ext_refl : forall h N, ext_by h h N.
Proof. intros. exists []. split; [reflexivity|cbn; lia]. Qed.

Lemma ext_trans : forall h h1 h2 A B, ext_by h h1 A -> ext_by h1 h2 B -> ext_by h h2 (A + B).
Proof.
  intros h h1 h2 A B [t1 [E1 L1]] [t2 [E2 L2]]. exists (t2 ++ t1). split.
  - rewrite E2, E1, app_assoc. reflexivity.
  - rewrite app_length. lia.
Qed.

Lemma ext_mono : forall h h' A B, (A <= B)%nat -> ext_by h h' A -> ext_by h h' B.
Proof. intros h h' A B L [t [E Lt]]. exists t. split; [exact E|lia]. Qed.

Lemma ext_cons : forall h e, ext_by h (e :: h) 1.
Proof. intros. exists [e]. split; [reflexivity|cbn; lia]. Qed.

Lemma ext_length : forall h' N, ext_by [] h' N -> (length h' <= N)%nat.
Proof. intros h' N [t [E L]]. subst. rewrite app_nil_r. exact L. Qed.

Section HWalkProofs.
  Variable fl : Z.
  Variable g gr : dgraph.
  Variable d : dir.
  Variable hb : horacle.

  Notation hexec := (hexec fl g gr d hb).

  (* ---- how many executions, for every graph ---- *)

  Lemma hloop_ext : forall (rec : history -> key -> history * outcome) M c es h,
    (forall h' t, ext_by h' (fst (rec h' t)) M) ->
    ext_by h (fst (hloop rec h c es)) (length es * M).
  Proof.
    intros rec M c es. induction es as [|[c' [t|]] es IH]; intros h H; cbn [hloop length Nat.mul].
    - apply ext_refl.
    - destruct (c' =? c); [|eapply ext_mono; [|apply IH; exact H]; lia].
      destruct (is_done (snd (rec h t))).
      + eapply ext_trans; [apply H|apply IH; exact H].
      + eapply ext_mono; [|apply H]. lia.
    - eapply ext_mono; [|apply IH; exact H]. lia.
  Qed.

  Lemma hexec_ext : forall fuel h k,
    ext_by h (fst (hexec fuel h k)) (Nat.pow (S (maxdeg g)) fuel).
  Proof.
    induction fuel as [|f IH]; intros h k; cbn [History.hexec]; [apply ext_refl|].
    pose proof (pow_pos (maxdeg g) f) as P.
    destruct (is_req d && is_early (snd (hb h fl k d))).
    - cbn [fst]. eapply ext_mono; [|apply ext_cons]. cbn [Nat.pow]. lia.
    - eapply ext_mono; [|eapply ext_trans; [apply ext_cons|apply hloop_ext; exact IH]].
      pose proof (edges_of_length g k) as D. cbn [Nat.pow].
      assert (length (edges_of g k) * Nat.pow (S (maxdeg g)) f
              <= maxdeg g * Nat.pow (S (maxdeg g)) f)%nat by (apply Nat.mul_le_mono_r; exact D).
      lia.
  Qed.

  Lemma hstarts_ext : forall (rec : history -> key -> history * outcome) M ts h,
    (forall h' t, ext_by h' (fst (rec h' t)) M) ->
    ext_by h (fst (hstarts rec h ts)) (length ts * M).
  Proof.
    intros rec M ts. induction ts as [|t ts IH]; intros h H; cbn [hstarts length Nat.mul].
    - apply ext_refl.
    - destruct (failed (snd (rec h t))).
      + eapply ext_mono; [|apply H]. lia.
      + eapply ext_trans; [apply H|apply IH; exact H].
  Qed.

  (* ---- budget: never exhausted, irrelevant, on ranked graphs ---- *)

  Lemma hloop_not_stuck : forall (rec : history -> key -> history * outcome) c es h,
    (forall h' t, In (c, Some t) es -> snd (rec h' t) <> OutOfFuel) ->
    snd (hloop rec h c es) <> OutOfFuel.
  Proof.
    intros rec c es. induction es as [|[c' [t|]] es IH]; intros h H; cbn [hloop].
    - discriminate.
    - destruct (c' =? c) eqn:E.
      + apply Z.eqb_eq in E. subst c'.
        destruct (is_done (snd (rec h t))).
        * apply IH. intros; apply H; right; assumption.
        * apply H. left; reflexivity.
      + apply IH. intros; apply H; right; assumption.
    - apply IH. intros; apply H; right; assumption.
  Qed.

  Lemma hloop_rec_ext : forall (r1 r2 : history -> key -> history * outcome) c es h,
    (forall h' t, In (c, Some t) es -> r1 h' t = r2 h' t) ->
    hloop r1 h c es = hloop r2 h c es.
  Proof.
    intros r1 r2 c es. induction es as [|[c' [t|]] es IH]; intros h H; cbn [hloop].
    - reflexivity.
    - destruct (c' =? c) eqn:E.
      + apply Z.eqb_eq in E. subst c'. rewrite (H h t) by (left; reflexivity).
        destruct (is_done (snd (r2 h t))); [|reflexivity].
        apply IH. intros; apply H; right; assumption.
      + apply IH. intros; apply H; right; assumption.
    - apply IH. intros; apply H; right; assumption.
  Qed.

  Variable rk : key -> nat.
  Hypothesis RK : ranked g rk.

  Lemma hexec_not_stuck : forall fuel h k,
    (rk k < fuel)%nat -> snd (hexec fuel h k) <> OutOfFuel.
  Proof.
    induction fuel as [|f IH]; intros h k L; [lia|]. cbn [History.hexec].
    destruct (is_req d && is_early (snd (hb h fl k d))).
    - cbn [snd]. destruct (has_node gr k); discriminate.
    - apply hloop_not_stuck. intros h' t I. apply IH. specialize (RK _ _ _ I). lia.
  Qed.

  Lemma hexec_fuel_irrelevant : forall f1 f2 h k,
    (rk k < f1)%nat -> (rk k < f2)%nat -> hexec f1 h k = hexec f2 h k.
  Proof.
    induction f1 as [|f1 IH]; intros f2 h k L1 L2; [lia|].
    destruct f2 as [|f2]; [lia|]. cbn [History.hexec].
    destruct (is_req d && is_early (snd (hb h fl k d))); [reflexivity|].
    apply hloop_rec_ext. intros h' t I. specialize (RK _ _ _ I). apply IH; lia.
  Qed.
End HWalkProofs.

Lemma hstarts_not_stuck : forall (rec : history -> key -> history * outcome) ts h,
  (forall h' t, snd (rec h' t) <> OutOfFuel) -> snd (hstarts rec h ts) <> OutOfFuel.
Proof.
  intros rec ts. induction ts as [|t ts IH]; intros h H; cbn [hstarts]; [discriminate|].
  destruct (failed (snd (rec h t))); [apply H|apply IH; exact H].
Qed.

Lemma hstarts_rec_ext : forall (r1 r2 : history -> key -> history * outcome) ts h,
  (forall h' t, r1 h' t = r2 h' t) -> hstarts r1 h ts = hstarts r2 h ts.
Proof.
  intros r1 r2 ts. induction ts as [|t ts IH]; intros h H; cbn [hstarts]; [reflexivity|].
  rewrite H. destruct (failed (snd (r2 h t))); [reflexivity|apply IH; exact H].
Qed.

(* ---------------------------------------------------- one direction of a flow *)

Lemma hflow_ext : forall fuel f d start hb h,
  ext_by h (fst (hexec_flow fuel f d start hb h)) (dir_bound fuel (gdir f d)).
Proof.
  intros fuel f d start hb h. unfold hexec_flow, dir_bound. set (g := gdir f d).
  pose proof (pow_pos (maxdeg g) fuel) as P. cbn [Nat.pow].
  destruct start as [k|].
  - eapply ext_mono; [|apply hstarts_ext; intros h' t; apply hexec_ext].
    pose proof (all_targets_length (edges_of g k)) as A.
    pose proof (edges_of_length g k) as D.
    assert (length (all_targets (edges_of g k)) * Nat.pow (S (maxdeg g)) fuel
            <= maxdeg g * Nat.pow (S (maxdeg g)) fuel)%nat by (apply Nat.mul_le_mono_r; lia).
    lia.
  - destruct (root g) as [r|]; [|apply ext_refl].
    eapply ext_mono; [|apply hexec_ext]. lia.
Qed.

Lemma hflow_not_stuck : forall fuel f d start hb h,
  flow_ok fuel f -> snd (hexec_flow fuel f d start hb h) <> OutOfFuel.
Proof.
  intros fuel f d start hb h [[rq [Rq Lq]] [rs [Rs Ls]]].
  assert (G : exists rk, ranked (gdir f d) rk /\ forall k, (rk k < fuel)%nat).
  { destruct d; [exists rq|exists rs]; split; assumption. }
  destruct G as [rk [R L]]. unfold hexec_flow. destruct start as [k|].
  - apply hstarts_not_stuck. intros h' t. eapply hexec_not_stuck; eauto.
  - destruct (root (gdir f d)) as [r|]; [|discriminate]. eapply hexec_not_stuck; eauto.
Qed.

Lemma hflow_fuel_le : forall f1 f2 f d start hb h,
  flow_ok f1 f -> (f1 <= f2)%nat ->
  hexec_flow f1 f d start hb h = hexec_flow f2 f d start hb h.
Proof.
  intros f1 f2 f d start hb h [[rq [Rq Lq]] [rs [Rs Ls]]] L.
  assert (G : exists rk, ranked (gdir f d) rk /\ forall k, (rk k < f1)%nat).
  { destruct d; [exists rq|exists rs]; split; assumption. }
  destruct G as [rk [R B]]. unfold hexec_flow. destruct start as [k|].
  - apply hstarts_rec_ext. intros h' t. eapply hexec_fuel_irrelevant; [exact R|apply B|].
    specialize (B t). lia.
  - destruct (root (gdir f d)) as [r|]; [|reflexivity].
    eapply hexec_fuel_irrelevant; [exact R|apply B|]. specialize (B r). lia.
Qed.

(* ------------------------------------------------------------ orchestration *)

(* a step of the orchestration is good: it adds at most N executions, does not
   exhaust the budget, and ends normally or with an error *)
Definition good (N : nat) (h : history) (r : history * option outcome) : Prop :=
  ext_by h (fst r) N /\ snd r <> Some OutOfFuel /\ (forall o, snd r = Some o -> failed o = true).

Lemma good_outcome : forall N h r, good N h r ->
  snd r = None \/ exists k, snd r = Some (NoRespNode k).
Proof.
  intros N h r [_ [NF F]]. destruct (snd r) as [o|] eqn:E; [|left; reflexivity].
  specialize (F o eq_refl). destruct o; try discriminate; [right; eauto|contradiction].
Qed.

Lemma hthen_good : forall A B h r rest,
  good A h r -> (forall h1, good B h1 (rest h1)) -> good (A + B) h (hthen r rest).
Proof.
  intros A B h r rest [E [NF F]] R. unfold hthen. destruct (snd r) as [o|] eqn:S.
  - repeat split; [eapply ext_mono; [|exact E]; lia|rewrite S; exact NF|rewrite S; exact F].
  - destruct (R (fst r)) as [E2 [NF2 F2]]. repeat split; [eapply ext_trans; eauto|exact NF2|exact F2].
Qed.

Section HTxn.
  Variable fuel : nat.
  Variable hb : horacle.

  Lemma hrun_list_good : forall d fs h,
    Forall (flow_ok fuel) fs -> good (flows_bound fuel d fs) h (hrun_list fuel hb d fs h).
  Proof.
    intros d fs. induction fs as [|f fs IH]; intros h H; cbn [hrun_list].
    - repeat split; [apply ext_refl|discriminate|discriminate].
    - inversion H as [|? ? F FS]; subst.
      unfold flows_bound, list_sum in *. cbn [map fold_right].
      pose proof (hflow_ext fuel f d None hb h) as E.
      pose proof (hflow_not_stuck fuel f d None hb h F) as NS.
      destruct (failed (snd (hexec_flow fuel f d None hb h))) eqn:FL; cbn [fst snd].
      + repeat split; [eapply ext_mono; [|exact E]; lia| |].
        * intros X. inversion X. contradiction.
        * intros o X. inversion X. subst. exact FL.
      + destruct (IH (fst (hexec_flow fuel f d None hb h)) FS) as [E2 [NF2 F2]].
        repeat split; [eapply ext_trans; eauto|exact NF2|exact F2].
  Qed.

  Lemma hrun_users_res_good : forall sc fs h,
    Forall (flow_ok fuel) fs -> good (flows_bound fuel Res fs) h (hrun_users_res fuel hb sc fs h).
  Proof.
    intros sc fs. induction fs as [|f fs IH]; intros h H; cbn [hrun_users_res].
    - repeat split; [apply ext_refl|discriminate|discriminate].
    - inversion H as [|? ? F FS]; subst.
      unfold flows_bound, list_sum in *. cbn [map fold_right].
      match goal with |- context [hexec_flow fuel f Res ?st hb h] => set (st0 := st) end.
      pose proof (hflow_ext fuel f Res st0 hb h) as E.
      pose proof (hflow_not_stuck fuel f Res st0 hb h F) as NS.
      destruct (failed (snd (hexec_flow fuel f Res st0 hb h))) eqn:FL; cbn [fst snd].
      + repeat split; [eapply ext_mono; [|exact E]; lia| |].
        * intros X. inversion X. contradiction.
        * intros o X. inversion X. subst. exact FL.
      + destruct (IH (fst (hexec_flow fuel f Res st0 hb h)) FS) as [E2 [NF2 F2]].
        repeat split; [eapply ext_trans; eauto|exact NF2|exact F2].
  Qed.

  Lemma hrun_users_req_good : forall fs h,
    Forall (flow_ok fuel) fs ->
    good (flows_bound fuel Req fs) h
         (fst (fst (hrun_users_req fuel hb fs h)), snd (hrun_users_req fuel hb fs h)).
  Proof.
    induction fs as [|f fs IH]; intros h H; cbn [hrun_users_req].
    - repeat split; [apply ext_refl|discriminate|discriminate].
    - inversion H as [|? ? F FS]; subst.
      unfold flows_bound, list_sum in *. cbn [map fold_right].
      pose proof (hflow_ext fuel f Req None hb h) as E.
      pose proof (hflow_not_stuck fuel f Req None hb h F) as NS.
      destruct (snd (hexec_flow fuel f Req None hb h)) eqn:O; cbn [fst snd].
      + destruct (IH (fst (hexec_flow fuel f Req None hb h)) FS) as [E2 [NF2 F2]].
        repeat split; [eapply ext_trans; eauto|exact NF2|exact F2].
      + repeat split; [eapply ext_mono; [|exact E]; lia|discriminate|discriminate].
      + repeat split; [eapply ext_mono; [|exact E]; lia|discriminate|].
        intros o X. inversion X. reflexivity.
      + contradiction.
  Qed.

  Lemma hrun_res_good : forall s sc h,
    sel_ok fuel s -> good (res_bound fuel s) h (hrun_res fuel hb s sc h).
  Proof.
    intros s sc h [A [U Z]]. unfold hrun_res, res_bound.
    apply hthen_good; [rewrite <- flows_bound_rev; apply hrun_list_good, Forall_rev, A|]. intros h1.
    apply hthen_good; [rewrite <- flows_bound_rev; apply hrun_users_res_good, Forall_rev, U|]. intros h2.
    rewrite <- flows_bound_rev. apply hrun_list_good, Forall_rev, Z.
  Qed.

  Lemma hrun_req_good : forall s s2 h,
    sel_ok fuel s -> (forall s', s2 = Some s' -> sel_ok fuel s') ->
    good (req_bound fuel s s2) h (hrun_req fuel hb s s2 h).
  Proof.
    intros s s2 h [A [U Z]] S2. unfold hrun_req, req_bound.
    apply hthen_good; [apply hrun_list_good, A|]. intros h1.
    pose proof (hrun_users_req_good (s_user s) h1 U) as G.
    destruct (hrun_users_req fuel hb (s_user s) h1) as [[h2 sc] e2]. cbn [fst snd] in G.
    apply hthen_good; [exact G|]. intros h3.
    apply hthen_good; [apply hrun_list_good, Z|]. intros h4.
    destruct sc as [hd|]; [|repeat split; [apply ext_refl|discriminate|discriminate]].
    destruct s2 as [s'|]; [|repeat split; [apply ext_refl|discriminate|discriminate]].
    apply hrun_res_good. apply S2. reflexivity.
  Qed.
End HTxn.

Section HFuelLe.
  Variable f1 f2 : nat.
  Variable hb : horacle.
  Hypothesis L : (f1 <= f2)%nat.

  Lemma hrun_list_fuel_le : forall d fs h,
    Forall (flow_ok f1) fs -> hrun_list f1 hb d fs h = hrun_list f2 hb d fs h.
  Proof.
    intros d fs. induction fs as [|f fs IH]; intros h H; cbn [hrun_list]; [reflexivity|].
    inversion H as [|? ? F FS]; subst.
    rewrite (hflow_fuel_le f1 f2 f d None hb h F L).
    destruct (failed (snd (hexec_flow f2 f d None hb h))); [reflexivity|apply IH; exact FS].
  Qed.

  Lemma hrun_users_req_fuel_le : forall fs h,
    Forall (flow_ok f1) fs -> hrun_users_req f1 hb fs h = hrun_users_req f2 hb fs h.
  Proof.
    induction fs as [|f fs IH]; intros h H; cbn [hrun_users_req]; [reflexivity|].
    inversion H as [|? ? F FS]; subst.
    rewrite (hflow_fuel_le f1 f2 f Req None hb h F L).
    destruct (snd (hexec_flow f2 f Req None hb h)); try reflexivity. apply IH; exact FS.
  Qed.

  Lemma hrun_users_res_fuel_le : forall sc fs h,
    Forall (flow_ok f1) fs -> hrun_users_res f1 hb sc fs h = hrun_users_res f2 hb sc fs h.
  Proof.
    intros sc fs. induction fs as [|f fs IH]; intros h H; cbn [hrun_users_res]; [reflexivity|].
    inversion H as [|? ? F FS]; subst.
    rewrite (hflow_fuel_le f1 f2 f Res _ hb h F L).
    match goal with |- context [failed (snd ?x)] => destruct (failed (snd x)) end;
      [reflexivity|apply IH; exact FS].
  Qed.

  Lemma hthen_ext : forall r (k1 k2 : history -> history * option outcome),
    (forall h, k1 h = k2 h) -> hthen r k1 = hthen r k2.
  Proof. intros r k1 k2 H. unfold hthen. destruct (snd r); [reflexivity|apply H]. Qed.

  Lemma hrun_res_fuel_le : forall s sc h,
    sel_ok f1 s -> hrun_res f1 hb s sc h = hrun_res f2 hb s sc h.
  Proof.
    intros s sc h [A [U Z]]. unfold hrun_res.
    rewrite (hrun_list_fuel_le Res _ h (Forall_rev A)). apply hthen_ext. intros h1.
    rewrite (hrun_users_res_fuel_le sc _ h1 (Forall_rev U)). apply hthen_ext. intros h2.
    apply hrun_list_fuel_le, Forall_rev, Z.
  Qed.

  Lemma hrun_req_fuel_le : forall s s2 h,
    sel_ok f1 s -> (forall s', s2 = Some s' -> sel_ok f1 s') ->
    hrun_req f1 hb s s2 h = hrun_req f2 hb s s2 h.
  Proof.
    intros s s2 h [A [U Z]] S2. unfold hrun_req.
    rewrite (hrun_list_fuel_le Req _ h A). apply hthen_ext. intros h1.
    rewrite (hrun_users_req_fuel_le _ h1 U).
    destruct (hrun_users_req f2 hb (s_user s) h1) as [[h2 sc] e2].
    apply hthen_ext. intros h3.
    rewrite (hrun_list_fuel_le Req _ h3 Z). apply hthen_ext. intros h4.
    destruct sc as [hd|]; [|reflexivity].
    destruct s2 as [s'|]; [|reflexivity].
    apply hrun_res_fuel_le. apply S2. reflexivity.
  Qed.
End HFuelLe.

(* ------------------------------------------------ the whole transaction, loaded *)

Lemma transaction_safe_any_history : forall cf fs (hb : horacle) s s2,
  load cf = Accept fs ->
  sel_from fs s -> (forall s', s2 = Some s' -> sel_from fs s') ->
  forall fuel, (exec_fuel fs <= fuel)%nat ->
    (good (req_bound (exec_fuel fs) s s2) [] (hrun_req fuel hb s s2 [])
     /\ hrun_req fuel hb s s2 [] = hrun_req (exec_fuel fs) hb s s2 [])
    /\ forall sc,
         good (res_bound (exec_fuel fs) s) [] (hrun_res fuel hb s sc [])
         /\ hrun_res fuel hb s sc [] = hrun_res (exec_fuel fs) hb s sc [].
Proof.
  intros cf fs hb s s2 L S S2 fuel LE.
  pose proof (accepted_sel_ok cf fs s L S) as SO.
  assert (SO2 : forall s', s2 = Some s' -> sel_ok (exec_fuel fs) s').
  { intros s' E. eapply accepted_sel_ok; eauto. }
  assert (EQ : hrun_req fuel hb s s2 [] = hrun_req (exec_fuel fs) hb s s2 []).
  { symmetry. apply hrun_req_fuel_le; assumption. }
  split.
  - split; [rewrite EQ; apply hrun_req_good; assumption|exact EQ].
  - intros sc.
    assert (ES : hrun_res fuel hb s sc [] = hrun_res (exec_fuel fs) hb s sc []).
    { symmetry. apply hrun_res_fuel_le; assumption. }
    split; [rewrite ES; apply hrun_res_good; assumption|exact ES].
Qed.

Lemma transaction_safe_any_history_from : forall cf fs (hb : horacle) s s2,
  load cf = Accept fs ->
  sel_from fs s -> (forall s', s2 = Some s' -> sel_from fs s') ->
  exists n, forall fuel, (n <= fuel)%nat ->
    (hrun_req fuel hb s s2 [] = hrun_req n hb s s2 []
     /\ (snd (hrun_req fuel hb s s2 []) = None
         \/ exists k, snd (hrun_req fuel hb s s2 []) = Some (NoRespNode k))
     /\ (length (fst (hrun_req fuel hb s s2 [])) <= req_bound n s s2)%nat)
    /\ forall sc,
         hrun_res fuel hb s sc [] = hrun_res n hb s sc []
         /\ (snd (hrun_res fuel hb s sc []) = None
             \/ exists k, snd (hrun_res fuel hb s sc []) = Some (NoRespNode k))
         /\ (length (fst (hrun_res fuel hb s sc [])) <= res_bound n s)%nat.
Proof.
  intros cf fs hb s s2 L S S2. exists (exec_fuel fs). intros fuel LE.
  destruct (transaction_safe_any_history cf fs hb s s2 L S S2 fuel LE) as [[G EQ] R].
  split.
  - split; [exact EQ|]. split; [eapply good_outcome; exact G|].
    apply ext_length. apply G.
  - intros sc. destruct (R sc) as [G' ES].
    split; [exact ES|]. split; [eapply good_outcome; exact G'|].
    apply ext_length. apply G'.
Qed.

Lemma history_blind_is_C04 : forall fuel (beh : oracles) s s2 sc,
  hrun_req fuel (blind beh) s s2 [] = (rev (fst (run_req fuel beh s s2)), snd (run_req fuel beh s s2))
  /\ hrun_res fuel (blind beh) s sc [] = (rev (fst (run_res fuel beh s sc)), snd (run_res fuel beh s sc)).
Proof.
  intros. rewrite hrun_req_blind, hrun_res_blind. unfold after. rewrite !app_nil_r. split; reflexivity.
Qed.
