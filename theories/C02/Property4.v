(* C02 — final statements about members as STRINGS and the gateway instance id
   (Model4.v).

   Model.v's GC item frame collects a member iff its expiry has passed, reading
   the expiry off the pair (expiry, request).  The code reads it off the string
   "<expiry>::<request id>::<instance id>" it wrote itself, and the instance id
   is an input: empty when GATEWAY_INSTANCE_ID is (an engine started outside the
   stock container start-up), "unknown" without a liveness object, any byte
   string an operator chose.  The property does not mention it: a slot is given
   back at the latest when its expiry passes, whatever the gateway is called.

   Every statement is for ALL expiries, ALL ':'-free request ids and ALL
   instance ids (any list of byte codes: empty, "::" inside, any length), and
   for any decimal rendering [dec] / [undec] with [dec_ok] (fmt %d /
   strconv.ParseInt); section K at the end discharges [dec_ok] for the real
   rendering [dec10] / [undec10] (strconv.FormatInt / ParseInt, base 10, 64
   bits) and restates the J theorems without that hypothesis.  Variants: [head4] = the code as it is in /repo
   (fix F-C02c, commit 42201a6: SplitN); [unfixed4] = /repo before that commit
   (Split, exactly three parts: refuted); [seeded12] / [seeded12u] = seeded
   change C02-12 (refuted).

   Suites [res] / [eng] do not evaluate [parse] / [gc_item] on strings (the
   instance id is not part of their cases); the formal tie to the frame they do
   evaluate is C02_gc_item_is_GItem below: [Model.exec]'s frame [GItem q e r]
   does exactly what [gc_item] says about the string the code wrote for (e, r).
   Suite [member] (section L, extension 4) evaluates [render] / [parse] /
   [gc_item] themselves on whole member strings against the real
   generateMember / extractMemberFromItem / validateMemberIntegrity. *)
From Coq Require Import List ZArith Bool Lia.
From Verif Require Import C02.Model C02.Model4 C02.Proofs8 C02.Proofs10 C02.Proofs11.
Import ListNotations.
Open Scope Z_scope.

(* (J.1) the GC reads back what generateMember wrote *)
Definition C02_member_read_back (v : variant4) : Prop :=
  forall dec undec, dec_ok dec undec -> forall e rid inst, cfree rid ->
    parse undec v (render dec e rid inst) = Some (e, rid, inst).

Theorem C02_member_read_back_head : C02_member_read_back head4.
Proof. intros dec undec D e rid inst Hr. exact (parse_head dec undec e rid inst D Hr). Qed.
Print Assumptions C02_member_read_back_head.

(* (J.2) one GC item collects a member iff its expiry has passed — the decision
   of Model.exec's frame [GItem q e r] ([e <=? now]) — and therefore does not
   depend on the instance id *)
Definition C02_expiry_collection (v : variant4) : Prop :=
  forall dec undec, dec_ok dec undec -> forall now e rid inst, cfree rid ->
    gc_item undec v now (render dec e rid inst) = (e <=? now).

Theorem C02_expiry_collection_head : C02_expiry_collection head4.
Proof.
  intros dec undec D now e rid inst Hr. unfold gc_item.
  rewrite (parse_head dec undec e rid inst D Hr). reflexivity.
Qed.
Print Assumptions C02_expiry_collection_head.

Theorem C02_expiry_collection_ignores_instance_id :
  forall dec undec, dec_ok dec undec -> forall now e rid inst inst', cfree rid ->
    gc_item undec head4 now (render dec e rid inst) = gc_item undec head4 now (render dec e rid inst').
Proof.
  intros dec undec D now e rid inst inst' Hr.
  rewrite !(C02_expiry_collection_head dec undec D) by exact Hr. reflexivity.
Qed.
Print Assumptions C02_expiry_collection_ignores_instance_id.

(* in particular: an expired member is collected, an unexpired one is kept *)
Corollary C02_expired_member_collected :
  forall dec undec, dec_ok dec undec -> forall now e rid inst, cfree rid ->
    (e <= now -> gc_item undec head4 now (render dec e rid inst) = true) /\
    (now < e -> gc_item undec head4 now (render dec e rid inst) = false).
Proof.
  intros dec undec D now e rid inst Hr.
  rewrite (C02_expiry_collection_head dec undec D now e rid inst Hr). split; intros H.
  - apply Z.leb_le. exact H.
  - apply Z.leb_gt. exact H.
Qed.
Print Assumptions C02_expired_member_collected.

(* (J.2') the tie to Model.v (audit 2): the frame [GItem q e r] of [Model.exec]
   — the frame the GC threads of both suites step with — collects (SRem + the
   pending delete) exactly when [gc_item] collects the string the code wrote
   for the member (e, r), under whatever request-id rendering [rid] (':'-free)
   and whatever instance id; otherwise it only pops the frame *)
Theorem C02_gc_item_is_GItem :
  forall dec undec, dec_ok dec undec -> forall c s t q e r rest rid inst, cfree rid ->
    exec c s t (GItem q e r) rest =
      if gc_item undec head4 (Model.now s) (render dec e rid inst)
      then set_stk (set_members s q (remove_first (e, r) (members s q))) t (GDel q r :: rest)
      else set_stk s t rest.
Proof.
  intros dec undec D c s t q e r rest rid inst Hr.
  rewrite (C02_expiry_collection_head dec undec D (Model.now s) e rid inst Hr). reflexivity.
Qed.
Print Assumptions C02_gc_item_is_GItem.

Corollary C02_gc_item_members :
  forall dec undec, dec_ok dec undec -> forall c s t q e r rest rid inst, cfree rid ->
    members (exec c s t (GItem q e r) rest) q =
      if gc_item undec head4 (Model.now s) (render dec e rid inst)
      then remove_first (e, r) (members s q) else members s q.
Proof.
  intros dec undec D c s t q e r rest rid inst Hr.
  rewrite (C02_gc_item_is_GItem dec undec D c s t q e r rest rid inst Hr).
  destruct (gc_item undec head4 (Model.now s) (render dec e rid inst)); [|reflexivity].
  cbn [members set_stk set_members]. unfold upd. rewrite Z.eqb_refl. reflexivity.
Qed.
Print Assumptions C02_gc_item_members.

(* seeded C02-12 ("a member is only well formed when every component is
   present"): with the EMPTY instance id no member is ever collected, however
   long ago it expired — under either way of splitting *)
Theorem C02_expiry_collection_reject_empty_refuted :
  forall v, reject_empty v = true -> ~ C02_expiry_collection v.
Proof.
  intros v Hv H.
  specialize (H dec1 undec1 dec1_ok 10 0 [116; 48] []).
  assert (Hr : cfree [116; 48]) by (apply cfreeb_spec; reflexivity).
  specialize (H Hr). unfold gc_item in H.
  rewrite (parse_reject_empty dec1 undec1 v 0 [116; 48] dec1_ok Hr Hv) in H.
  discriminate H.
Qed.
Print Assumptions C02_expiry_collection_reject_empty_refuted.

Corollary C02_expiry_collection_seeded12_refuted :
  ~ C02_expiry_collection seeded12 /\ ~ C02_expiry_collection seeded12u.
Proof. split; apply C02_expiry_collection_reject_empty_refuted; reflexivity. Qed.
Print Assumptions C02_expiry_collection_seeded12_refuted.

(* /repo before fix F-C02c (42201a6; strings.Split + "exactly three parts"): an instance
   id with the member separator inside ("d::g") makes every member of this
   gateway unreadable; nothing is ever collected *)
Theorem C02_expiry_collection_split_all_refuted :
  forall v, split_all v = true -> ~ C02_expiry_collection v.
Proof.
  intros v Hv H.
  specialize (H dec1 undec1 dec1_ok 10 0 [116; 48] [100; 58; 58; 103]).
  assert (Hr : cfree [116; 48]) by (apply cfreeb_spec; reflexivity).
  specialize (H Hr). unfold gc_item in H.
  rewrite (parse_split_all_sep dec1 undec1 v 0 [116; 48] dec1_ok Hr Hv) in H.
  discriminate H.
Qed.
Print Assumptions C02_expiry_collection_split_all_refuted.

(* the strongest statement true of the unfixed parser: instance ids without ':' *)
Theorem C02_expiry_collection_unfixed_outside_separator :
  forall dec undec, dec_ok dec undec -> forall now e rid inst, cfree rid -> cfree inst ->
    gc_item undec unfixed4 now (render dec e rid inst) = (e <=? now).
Proof.
  intros dec undec D now e rid inst Hr Hi. unfold gc_item.
  rewrite (parse_unfixed_cfree dec undec e rid inst D Hr Hi). reflexivity.
Qed.
Print Assumptions C02_expiry_collection_unfixed_outside_separator.

(* (J.3) the member encoding GenEquiv.v is parameterised by: for EVERY instance
   id, (expiry, request) |-> "<expiry>::<rid request>::<instance id>" is
   injective as soon as the request ids are ':'-free and distinct — the
   hypothesis [enc_inj] of section Encoding there is met by the real encoding,
   whatever the gateway is called (instantiated, not only claimed:
   GenEquiv.C02_gen_SRem_real_encoding) *)
Theorem C02_member_encoding_injective :
  forall dec undec, dec_ok dec undec ->
  forall (ridof : Z -> str) (inst : str),
    (forall r, cfree (ridof r)) -> (forall r r', ridof r = ridof r' -> r = r') ->
    forall a b : Z * Z,
      render dec (fst a) (ridof (snd a)) inst = render dec (fst b) (ridof (snd b)) inst -> a = b.
Proof.
  intros dec undec D ridof inst Hf Hi [e r] [e' r'] E. cbn [fst snd] in E.
  pose proof (parse_head dec undec e (ridof r) inst D (Hf r)) as P1.
  pose proof (parse_head dec undec e' (ridof r') inst D (Hf r')) as P2.
  rewrite E in P1. rewrite P1 in P2. inversion P2 as [[He Hr]].
  apply Hi in Hr. subst. reflexivity.
Qed.
Print Assumptions C02_member_encoding_injective.

(* the hypotheses are satisfiable, and the variants side by side on the members
   of the seed's demo (expiry 1.01 s, request "t0"), real decimal digits *)
Example C02_ex_dec_ok : dec_ok dec1 undec1.
Proof. exact dec1_ok. Qed.

Example C02_ex_members :
  let gw := [103; 119] in let sepd := [100; 99; 49; 58; 58; 103; 119; 50] in
  let item inst := render dec10 1010000000 [116; 48] inst in
  (* written as the code writes it: "1010000000::t0::" *)
  item [] = [49;48;49;48;48;48;48;48;48;48; 58;58; 116;48; 58;58] /\
  (* HEAD with the fix: collected at / after the expiry, whatever the id *)
  map (fun i => gc_item undec10 head4 1010000000 (item i)) [[]; gw; sepd] = [true; true; true] /\
  map (fun i => gc_item undec10 head4 1009999999 (item i)) [[]; gw; sepd] = [false; false; false] /\
  (* before the fix: the id with "::" inside is never collected *)
  map (fun i => gc_item undec10 unfixed4 5000000000 (item i)) [[]; gw; sepd] = [true; true; false] /\
  (* seeded C02-12: the empty id is never collected *)
  map (fun i => gc_item undec10 seeded12 5000000000 (item i)) [[]; gw; sepd] = [false; true; true] /\
  parse undec10 head4 (item sepd) = Some (1010000000, [116; 48], sepd).
Proof. vm_compute. repeat split; reflexivity. Qed.

(* ------------------------------------------------------------------ K: the real decimal

   [dec_ok] is not a free hypothesis: Model4.dec10 (strconv.FormatInt(e, 10) =
   fmt %d of an int64: '-' and the digits) and Model4.undec10
   (strconv.ParseInt(s, 10, 64): optional sign, digits only, ParseUint's
   overflow check per digit, ParseInt's cutoff 2^63; None = any error) are
   executable Gallina, compared with Go's own functions on every run (suite
   [dec]), and proved here to be what the J theorems need — for every int64
   expiry with the range checks, for EVERY integer without them (undecZ). *)

(* (K.1) ParseInt reads back what FormatInt wrote, for every int64 *)
Theorem C02_dec10_round_trip : forall e, int64 e -> undec10 (dec10 e) = Some e.
Proof. exact undec10_dec10. Qed.
Print Assumptions C02_dec10_round_trip.

(* ... with the error class: never a syntax or range error on its own output *)
Theorem C02_dec10_parse10 : forall e, int64 e -> parse10 true (dec10 e) = POk e.
Proof. intros e H. exact (parse10_dec10 true e (fun _ => H)). Qed.
Print Assumptions C02_dec10_parse10.

(* (K.2) the rendering never contains ':' (any integer) *)
Theorem C02_dec10_no_colon : forall e, cfree (dec10 e).
Proof. exact dec10_cfree. Qed.
Print Assumptions C02_dec10_no_colon.

(* (K.3) [dec_ok] itself, for ALL integers, with the reading that has no range
   check: the hypothesis of the J theorems and of GenEquiv's real encoding is
   met by the real rendering (this is what makes the encoding injective) *)
Theorem C02_dec10_dec_ok : dec_ok dec10 undecZ.
Proof. exact dec10_ok_ideal. Qed.
Print Assumptions C02_dec10_dec_ok.

(* (K.4) ParseInt accepts exactly the strings the range-free reading accepts
   with a value inside int64, with that value: the range checks (per digit
   against 2^64-1, at the end against 2^63) never change a result, they only
   refuse — so nothing ParseInt returns is out of range, and a long run of
   leading zeros is fine *)
Theorem C02_undec10_is_ranged_reading :
  forall s z, undec10 s = Some z <-> undecZ s = Some z /\ int64 z.
Proof. exact undec10_spec. Qed.
Print Assumptions C02_undec10_is_ranged_reading.

(* (K.5) the J theorems for the real decimal: no hypothesis about dec / undec *)
Theorem C02_member_read_back_real_decimal :
  forall e rid inst, int64 e -> cfree rid ->
    parse undec10 head4 (render dec10 e rid inst) = Some (e, rid, inst).
Proof.
  intros e rid inst He Hr.
  exact (parse_head_at dec10 undec10 e rid inst (undec10_dec10 e He) (dec10_cfree e) Hr).
Qed.
Print Assumptions C02_member_read_back_real_decimal.

Theorem C02_expiry_collection_real_decimal :
  forall now e rid inst, int64 e -> cfree rid ->
    gc_item undec10 head4 now (render dec10 e rid inst) = (e <=? now).
Proof.
  intros now e rid inst He Hr. unfold gc_item.
  rewrite (C02_member_read_back_real_decimal e rid inst He Hr). reflexivity.
Qed.
Print Assumptions C02_expiry_collection_real_decimal.

Theorem C02_expiry_collection_ignores_instance_id_real_decimal :
  forall now e rid inst inst', int64 e -> cfree rid ->
    gc_item undec10 head4 now (render dec10 e rid inst) =
    gc_item undec10 head4 now (render dec10 e rid inst').
Proof.
  intros now e rid inst inst' He Hr.
  rewrite !C02_expiry_collection_real_decimal by assumption. reflexivity.
Qed.
Print Assumptions C02_expiry_collection_ignores_instance_id_real_decimal.

Corollary C02_expired_member_collected_real_decimal :
  forall now e rid inst, int64 e -> cfree rid ->
    (e <= now -> gc_item undec10 head4 now (render dec10 e rid inst) = true) /\
    (now < e -> gc_item undec10 head4 now (render dec10 e rid inst) = false).
Proof.
  intros now e rid inst He Hr.
  rewrite (C02_expiry_collection_real_decimal now e rid inst He Hr). split; intros H.
  - apply Z.leb_le. exact H.
  - apply Z.leb_gt. exact H.
Qed.
Print Assumptions C02_expired_member_collected_real_decimal.

(* the frame GItem of Model.exec decides as the code does on the string it
   wrote with real digits *)
Theorem C02_gc_item_is_GItem_real_decimal :
  forall c s t q e r rest rid inst, int64 e -> cfree rid ->
    exec c s t (GItem q e r) rest =
      if gc_item undec10 head4 (Model.now s) (render dec10 e rid inst)
      then set_stk (set_members s q (remove_first (e, r) (members s q))) t (GDel q r :: rest)
      else set_stk s t rest.
Proof.
  intros c s t q e r rest rid inst He Hr.
  rewrite (C02_expiry_collection_real_decimal (Model.now s) e rid inst He Hr). reflexivity.
Qed.
Print Assumptions C02_gc_item_is_GItem_real_decimal.

(* the parser of /repo before fix F-C02c, real digits: right outside ':' in the
   instance id, and refuted with it (the refutation of section J used the
   one-code rendering; this one is the member the code writes) *)
Theorem C02_expiry_collection_unfixed_real_decimal :
  (forall now e rid inst, int64 e -> cfree rid -> cfree inst ->
     gc_item undec10 unfixed4 now (render dec10 e rid inst) = (e <=? now)) /\
  gc_item undec10 unfixed4 5000000000 (render dec10 1010000000 [116; 48] [100; 58; 58; 103]) = false.
Proof.
  split; [|vm_compute; reflexivity].
  intros now e rid inst He Hr Hi. unfold gc_item.
  rewrite (parse_unfixed_cfree_at dec10 undec10 e rid inst (undec10_dec10 e He) (dec10_cfree e) Hr Hi).
  reflexivity.
Qed.
Print Assumptions C02_expiry_collection_unfixed_real_decimal.

(* the real encoding is injective for every integer expiry (no int64 side
   condition: injectivity needs a left inverse, not ParseInt's range check) *)
Theorem C02_member_encoding_injective_real_decimal :
  forall (ridof : Z -> str) (inst : str),
    (forall r, cfree (ridof r)) -> (forall r r', ridof r = ridof r' -> r = r') ->
    forall a b : Z * Z,
      render dec10 (fst a) (ridof (snd a)) inst = render dec10 (fst b) (ridof (snd b)) inst -> a = b.
Proof. exact (C02_member_encoding_injective dec10 undecZ C02_dec10_dec_ok). Qed.
Print Assumptions C02_member_encoding_injective_real_decimal.

(* the boundaries, computed: both ends of int64 go round; one past either end
   is a RANGE error, as are 2^64 and a digit run that overflows before a bad
   byte is reached; sign alone, empty, '_' , blanks, a second sign are SYNTAX
   errors; '+' and leading zeros are accepted *)
Example C02_ex_dec10 :
  dec10 0 = [48] /\ dec10 (-1) = [45; 49] /\ dec10 1010000000 = [49;48;49;48;48;48;48;48;48;48] /\
  dec10 (-9223372036854775808) = [45;57;50;50;51;51;55;50;48;51;54;56;53;52;55;55;53;56;48;56] /\
  map (fun e => undec10 (dec10 e)) [0; -1; 9223372036854775807; -9223372036854775808]
    = [Some 0; Some (-1); Some 9223372036854775807; Some (-9223372036854775808)] /\
  map (fun e => parse10 true (dec10 e))
      [9223372036854775808; -9223372036854775809; 18446744073709551615; 18446744073709551616]
    = [PRange; PRange; PRange; PRange] /\
  parse10 true (dec10 99999999999999999999 ++ [120]) = PRange /\
  parse10 true (120 :: dec10 99999999999999999999) = PSyntax /\
  map (parse10 true) [[]; [45]; [43]; [49; 95; 48]; [32; 49]; [49; 32]; [45; 45; 49]; [43; 45; 49]]
    = [PSyntax; PSyntax; PSyntax; PSyntax; PSyntax; PSyntax; PSyntax; PSyntax] /\
  map (parse10 true) [[43; 53]; [45; 48]; [48; 48; 48; 48; 48; 48; 48; 48; 48; 48; 48; 48; 48; 48; 48; 48; 48; 48; 48; 48; 48; 48; 55]]
    = [POk 5; POk 0; POk 7] /\
  undecZ (dec10 18446744073709551616) = Some 18446744073709551616.
Proof. vm_compute. repeat split; reflexivity. Qed.

(* ------------------------------------------------------------------ L
   Suite [member] (extension 4): Model4.run_member evaluates [render dec10],
   [parse undec10 head4] and [gc_item undec10 head4] on whole member strings —
   the ones the real generateMember wrote (clock g, request expiry ttl, request
   id, instance id) and made-up ones — against what the real
   extractMemberFromItem / validateMemberIntegrity did with them at clock
   cm_now.  An ACCEPTED case (run_member k = None) whose member was generated
   with an int64 expiry and a ':'-free request id is an instance of
   C02_expiry_collection_real_decimal: the string the code wrote is the
   model's rendering, the code collected it iff its expiry had passed, and read
   back the request id, the instance id and the (saturated, clamped) time left. *)

Theorem C02_slack_is_delta : slack = Model.delta.
Proof. reflexivity. Qed.
Print Assumptions C02_slack_is_delta.

Theorem C02_accepted_member_case :
  forall k g ttl, run_member k = None -> cm_gen k = Some (g, ttl) ->
    int64 (member_expiry g ttl) -> cfree (cm_rid k) ->
    cm_item k = render dec10 (member_expiry g ttl) (cm_rid k) (cm_inst k) /\
    cm_coll k = (member_expiry g ttl <=? cm_now k) /\
    cm_coll k = gc_item undec10 head4 (cm_now k) (render dec10 (member_expiry g ttl) (cm_rid k) (cm_inst k)) /\
    cm_parsed k = Some (remaining (cm_now k) (member_expiry g ttl), cm_rid k, cm_inst k).
Proof.
  intros k g ttl Hk Hg He Hr.
  destruct (run_member_accepted k Hk) as [Hw [Hp Hc]].
  specialize (Hw g ttl Hg).
  rewrite Hp, Hc, Hw. unfold parsed_obs.
  rewrite (C02_member_read_back_real_decimal _ _ (cm_inst k) He Hr).
  rewrite (C02_expiry_collection_real_decimal (cm_now k) _ _ (cm_inst k) He Hr).
  repeat split; reflexivity.
Qed.
Print Assumptions C02_accepted_member_case.

(* made-up strings too: whatever item an accepted case carries, the code
   collected it exactly when the model's GC item does, and read what the
   model's parser reads *)
Theorem C02_accepted_member_case_any_item :
  forall k, run_member k = None ->
    cm_coll k = gc_item undec10 head4 (cm_now k) (cm_item k) /\
    cm_parsed k = parsed_obs (cm_now k) (cm_item k).
Proof.
  intros k Hk. destruct (run_member_accepted k Hk) as [_ [Hp Hc]]. split; assumption.
Qed.
Print Assumptions C02_accepted_member_case_any_item.

(* the hypotheses are satisfiable on the shapes the suite generates: expiry at
   the top of int64 under an instance id with "::" inside, read 1 ns before and
   at the expiry; and run_member refuses a wrong collection verdict *)
Example C02_ex_member_case :
  let g := 9223372036854775807 - 1000000000 - slack in
  let rid := [116; 48] in let inst := [100; 99; 49; 58; 58; 103; 119] in
  let item := render dec10 9223372036854775807 rid inst in
  member_expiry g 1000000000 = 9223372036854775807 /\
  int64b (member_expiry g 1000000000) = true /\ cfreeb rid = true /\
  run_member (mkCM (Some (g, 1000000000)) rid inst item 9223372036854775806 (Some (1, rid, inst)) false) = None /\
  run_member (mkCM (Some (g, 1000000000)) rid inst item 9223372036854775807 (Some (0, rid, inst)) true) = None /\
  run_member (mkCM (Some (g, 1000000000)) rid inst item 9223372036854775807 (Some (0, rid, inst)) false) <> None /\
  run_member (mkCM (Some (g, 1000000000)) rid inst item (-9223372036854775808) (Some (9223372036854775807, rid, inst)) false) = None /\
  run_member (mkCM None [] [] [49; 58; 58; 58; 58; 58] 5 (Some (0, [], [58])) true) = None /\
  run_member (mkCM None [] [] [49; 58; 58; 116] 5 None false) = None.
Proof. vm_compute. repeat split; try reflexivity. discriminate. Qed.
