(* C02 — final statements about quota FILTERS and the selection of the release
   flow (Model3.v).

   The slot a transaction holds under a quota is given back on its response by
   the quota's system end flow, and that flow is selected for the response
   stream through the quota's own filter.  A response is not an echo of its
   request (same URL and method; the provider's headers; no query string), so
   the statement is: whatever headers and query the response stream carries,
   every quota whose filter selected the request has its release selected for
   the response — and the walk then frees the slot (section H of Property.v).
   Variant switch [hdr_on_resp]: HEAD = false; seeded change C02-9 = true
   (refuted). *)
From Coq Require Import List ZArith Bool Lia.
From Verif Require Import C02.Model C02.Proofs C02.Phased C02.Model2 C02.Proofs7 C02.Property C02.Model3.
Import ListNotations.
Open Scope Z_scope.

(* the suite the harness evaluates now checks everything suite eng2 checked *)
Theorem C02_suite_eng3_is_eng2 : forall fs ats k2,
  run_eng3h (fs, ats, k2) = None -> run_eng2h k2 = None.
Proof.
  intros fs ats [rows script]. unfold run_eng3h, run_eng3, run_eng2h, run_eng2.
  destruct (wfb rows && eobs_eqb _ _) eqn:E; cbn [andb]; [reflexivity|discriminate].
Qed.
Print Assumptions C02_suite_eng3_is_eng2.

(* resp is (the stream of) a response to the request req: a response stream
   with the request's URL and method — NOTHING is assumed about its headers or
   its query *)
Definition response_of (req resp : sattr) : Prop :=
  a_resp req = false /\ a_resp resp = true /\ a_path resp = a_path req /\ a_method resp = a_method req.

(* (I.1) the release flow of every quota whose filter selected the request is
   selected for the response, for ALL filters, requests and responses *)
Definition C02_end_flow_selected (v : variant3) : Prop :=
  forall f req resp, response_of req resp -> sel v f req = true -> sel v f resp = true.

Theorem C02_end_flow_selected_head : C02_end_flow_selected head3.
Proof.
  intros f req resp [Rq [Rs [P M]]] S. unfold sel in *. rewrite Rq in S. rewrite Rs.
  unfold path_ok, method_ok in *. rewrite P, M. cbn [hdr_on_resp head3].
  apply andb_prop in S. destruct S as [S _]. rewrite S. reflexivity.
Qed.
Print Assumptions C02_end_flow_selected_head.

(* seeded C02-9: a quota filtered by the request header x-plan=gold (1,1); the
   provider answers with content-type only (3,5) *)
Definition hf_filter : qfilter := mkF true 0 [] [(1, 1)] [].
Definition hf_req : sattr := mkA false 0 1 [(1, 1)] [].
Definition hf_resp : sattr := mkA true 0 1 [(3, 5)] [].

Theorem C02_end_flow_header_filter_refuted : ~ C02_end_flow_selected seeded9.
Proof.
  intros H. specialize (H hf_filter hf_req hf_resp).
  assert (X : sel seeded9 hf_filter hf_resp = true).
  { apply H; [repeat split|vm_compute; reflexivity]. }
  vm_compute in X. discriminate X.
Qed.
Print Assumptions C02_end_flow_header_filter_refuted.

(* the walk over the response flows that follows an early answer sees the
   request's own headers: selected under BOTH readings (the seeded change does
   not touch early answers) *)
Theorem C02_walk_selected : forall v f req,
  a_resp req = false -> sel v f req = true -> sel v f (as_walk req) = true.
Proof.
  intros v f req Rq S. unfold sel, path_ok, method_ok in *. rewrite Rq in S.
  cbn [as_walk a_resp a_headers a_path a_method a_query].
  apply andb_prop in S. destruct S as [S T]. rewrite S. cbn [andb].
  apply andb_prop in T. destruct T as [T _]. rewrite T. destruct (hdr_on_resp v); reflexivity.
Qed.
Print Assumptions C02_walk_selected.

(* what is NOT promised: a quota whose filter does not cover the request (here:
   the method) is not selected for the response either — a limiter that consults
   a quota for traffic outside the quota's URL / method gets no release on the
   response (observation in notes/C02.md) *)
Example C02_ex_uncovered_method :
  sel head3 (mkF true 0 [1; 2] [] []) (mkA false 0 3 [] []) = false /\
  sel head3 (mkF true 0 [1; 2] [] []) (mkA true 0 3 [] []) = false.
Proof. vm_compute. split; reflexivity. Qed.

(* ---- selection lists ---- *)
Lemma sel_from_mono : forall v (P : sattr -> sattr -> Prop) a b,
  (forall f, sel v f a = true -> sel v f b = true) ->
  forall fs i q, In q (sel_from v i fs a) -> In q (sel_from v i fs b).
Proof.
  intros v P a b H. induction fs as [|f fs IH]; intros i q I; cbn [sel_from] in *; [exact I|].
  apply in_app_or in I. apply in_or_app. destruct I as [I|I].
  - left. destruct (sel v f a) eqn:E; [|destruct I]. rewrite (H f E). exact I.
  - right. apply IH. exact I.
Qed.

Lemma sel_from_range : forall v a fs i q,
  In q (sel_from v i fs a) -> i <= q < i + Z.of_nat (length fs).
Proof.
  intros v a. induction fs as [|f fs IH]; intros i q I; cbn [sel_from] in *; [destruct I|].
  cbn [length]. rewrite Nat2Z.inj_succ. apply in_app_or in I. destruct I as [I|I].
  - destruct (sel v f a); [|destruct I]. destruct I as [<-|[]]. lia.
  - apply IH in I. lia.
Qed.

(* (I.2) the response walk frees every slot taken under a quota whose filter
   selected the request: response processed, whatever the response carries.
   From ANY state, whatever the transaction holds (Property.v, section H). *)
Definition C02_response_frees_filtered (v : variant3) : Prop :=
  forall c, wf c -> forall s r fs req resp,
    stk s (Req r) = [] -> Z.of_nat (length fs) <= 49 ->
    (forall q1, firstq s r = Some q1 -> q1 <= 48) ->
    response_of req resp ->
    let s' := fst (run_ops c s r (ops_of_trace head false (end_response (sel_list v fs resp)))) in
    stk s' (Req r) = [] /\
    (forall q, In q (sel_list v fs req) -> status s' q r = None) /\
    (forall q r', r' <> r -> status s' q r' = status s q r').

Theorem C02_response_frees_filtered_head : C02_response_frees_filtered head3.
Proof.
  intros c WF s r fs req resp E L F R. cbn zeta.
  destruct (C02_response_frees_every_slot c WF s r (sel_list head3 fs resp) E) as [A [B D]].
  - intros q I. apply sel_from_range in I. lia.
  - exact F.
  - cbn zeta in *. split; [exact A|]. split; [|exact D].
    intros q I. apply B. unfold sel_list in *.
    apply (sel_from_mono head3 (fun _ _ => True) req resp); [|exact I].
    intros f. apply C02_end_flow_selected_head. exact R.
Qed.
Print Assumptions C02_response_frees_filtered_head.

(* seeded C02-9 on a reachable state: max 1, transaction 1 admitted under the
   header-filtered quota 0; the provider's response carries no x-plan: no Dec
   processor is selected, the walk is OnResponseFinish alone, status and slot
   stay (until the expiry) *)
Definition hf_state : state := fst (run_ops ea_cfg (init 0) 1 [OGetQ 0; OInc 0; OAllowed 0]).

Theorem C02_response_header_filter_refuted : ~ C02_response_frees_filtered seeded9.
Proof.
  intros H.
  destruct (H ea_cfg C02_ea_wf hf_state 1 [hf_filter] hf_req hf_resp) as [_ [X _]].
  - vm_compute. reflexivity.
  - cbn. lia.
  - intros q1 Fq. vm_compute in Fq. inversion Fq. lia.
  - repeat split.
  - specialize (X 0). cbn zeta in X. vm_compute in X. specialize (X (or_introl eq_refl)). discriminate X.
Qed.
Print Assumptions C02_response_header_filter_refuted.

(* the hypotheses are satisfiable on that state, and the two readings side by
   side on the engine-level history the harness replays (corpus-filters
   "headers / response"): a admitted, b refused and answered 429, a's response
   (content-type only), c admitted.  The trace is what HEAD executes: the model
   of HEAD agrees, the model of the seeded change expects no Dec on the response. *)
Definition hf_case : case_eng3 :=
  ([hf_filter],
   [Some hf_req; Some hf_req; Some hf_resp; Some hf_req],
   (ea_rows,
    [(Ev2Txn 0 0 [POld (PInc 0 false); POld (PLim 0)], ([1], [1]));
     (Ev2Txn 1 1 [POld (PInc 0 false); POld (PLim 0); POld PGen; POld (PDec 0); POld PFinish], ([0], [1]));
     (Ev2Txn 0 0 [POld (PDec 0); POld PFinish], ([], [0]));
     (Ev2Txn 2 2 [POld (PInc 0 false); POld (PLim 0)], ([1], [1]))])).

Example C02_ex_header_filtered_release :
  stk hf_state (Req 1) = [] /\ status hf_state 0 1 = Some 2010000000 /\
  sel_list head3 [hf_filter] hf_req = [0] /\
  sel_list head3 [hf_filter] hf_resp = [0] /\ sel_list seeded9 [hf_filter] hf_resp = [] /\
  members (fst (run_ops ea_cfg hf_state 1 (ops_of_trace head false (end_response (sel_list head3 [hf_filter] hf_resp))))) 0 = [] /\
  members (fst (run_ops ea_cfg hf_state 1 (ops_of_trace head false (end_response (sel_list seeded9 [hf_filter] hf_resp))))) 0 = [(2010000000, 1)] /\
  run_eng3 head head3 hf_case = None /\
  (exists m, run_eng3 head seeded9 hf_case = Some (m, [([0], []); ([0], [0]); ([], []); ([0], [])])).
Proof. vm_compute. repeat split; try reflexivity. eexists. reflexivity. Qed.

(* effective filters: a child limit with a filter of its own is extended by its
   parent's; one without shares the parent's *)
Example C02_ex_effective_filters :
  effs [(2, 2000000000, None); (1, 2000000000, Some 0); (1, 2000000000, Some 0)]
       [mkF true 0 [1] [(1, 1)] []; mkF true 1 [] [(2, 4)] []; mkF false 0 [] [] []] [] =
  [mkF true 0 [1] [(1, 1)] []; mkF true 1 [1] [(2, 4); (1, 1)] []; mkF true 0 [1] [(1, 1)] []].
Proof. vm_compute. reflexivity. Qed.
