(* C02 — lemmas, part 9 (audit 2): the release walk of Proofs7.v composed with
   the invariant of phased schedules.

   [release_ops] (Proofs7.v) speaks about STATUSES, from an arbitrary state: a
   member without status can exist there and a Dec does not remove it.  In a
   state reached by a phased schedule there is no such member (Inv2, field
   j_E = C02_release_once), and the walk consists of release operations only, so
   the schedule extended by the walk is phased again: after the walk the request
   is no MEMBER of any quota whose Dec ran. *)
From Coq Require Import List ZArith Bool Lia.
From Verif Require Import C02.Model C02.Proofs C02.Proofs2 C02.Phased C02.Proofs7.
Import ListNotations.
Open Scope Z_scope.

(* an event that is not an acquire call is allowed under every ghost set *)
Definition noacq (ev : event) : Prop :=
  match ev with
  | ECall (Req _) o => is_acquire o = false
  | _ => True
  end.

Lemma phased_from_noacq : forall c evs g s, Forall noacq evs -> phased_from c g s evs.
Proof.
  intros c. induction evs as [|ev evs IH]; intros g s H; cbn [phased_from]; [exact I|].
  inversion H as [|? ? H1 H2]; subst. split; [|apply IH; exact H2].
  destruct ev as [[r|q] o|t|x]; cbn [ok_ev]; try exact I.
  cbn [noacq] in H1. intros A. rewrite A in H1. discriminate H1.
Qed.

Lemma phased_from_app : forall c a b g s,
  phased_from c g s a -> (forall g' s', phased_from c g' s' b) -> phased_from c g s (a ++ b).
Proof.
  intros c. induction a as [|ev a IH]; intros b g s Ha Hb; cbn [app]; [apply Hb|].
  cbn [phased_from] in *. destruct Ha as [A B]. split; [exact A|]. apply IH; [exact B|exact Hb].
Qed.

Lemma rel_op_noacq : forall o, rel_op o = true -> is_acquire o = false.
Proof. intros o H. destruct o; try reflexivity; discriminate H. Qed.

Lemma noacq_ops : forall r n os, forallb rel_op os = true ->
  Forall noacq (flat_map (fun o => ECall (Req r) o :: repeat (EStep (Req r)) n) os).
Proof.
  intros r n. induction os as [|o os IH]; intros H; cbn [flat_map]; [constructor|].
  cbn [forallb] in H. apply andb_prop in H. destruct H as [Ho Hos].
  cbn [app]. constructor; [cbn [noacq]; apply rel_op_noacq; exact Ho|].
  apply Forall_app. split; [|apply IH; exact Hos].
  apply Forall_forall. intros ev Hin. apply repeat_spec in Hin. subst ev. exact I.
Qed.

(* a phased schedule extended by a walk of release operations of one request,
   each run to completion, is phased *)
Lemma phased_release_ops : forall c t0 evs r os, phased c t0 evs -> forallb rel_op os = true ->
  phased c t0 (evs ++ flat_map (fun o => ECall (Req r) o :: repeat (EStep (Req r)) fuel0) os).
Proof.
  intros c t0 evs r os P R. unfold phased. apply phased_from_app; [exact P|].
  intros g' s'. apply phased_from_noacq. apply noacq_ops. exact R.
Qed.

(* the composed statement: reachable by a phased schedule + idle => after the
   walk the request is no member of any quota whose Dec the walk ran *)
Lemma release_ops_members : forall c t0 evs, wf c -> phased c t0 evs ->
  let s := run c (init t0) evs in
  forall os r, stk s (Req r) = [] -> forallb rel_op os = true ->
  (forall o, In o os -> op_quota o <= 48) ->
  (forall q1, firstq s r = Some q1 -> q1 <= 48) ->
  let s' := fst (run_ops c s r os) in
  forall q e, In (ODec q) os -> ~ In (e, r) (members s' q).
Proof.
  intros c t0 evs WF P s os r E R Q F s' q e Hq Hin.
  destruct (release_ops c WF os s r E R Q F) as [A [_ [B _]]]. cbn zeta in A, B.
  fold s' in A, B.
  destruct (run_ops_events c os s r) as [evs2 [SB Eq]]. fold s' in SB.
  assert (P2 : phased c t0 (evs ++ evs2)) by (rewrite Eq; apply phased_release_ops; assumption).
  destruct (Inv2_reachable c t0 (evs ++ evs2) WF P2) as [g J].
  pose proof (j_E g _ J q e r) as X. rewrite run_app in X. fold s in X.
  destruct SB as [_ [M [S [_ K]]]]. rewrite <- M, <- S, <- K in X.
  destruct (X Hin) as [Y|Y].
  - rewrite (B q Hq) in Y. discriminate Y.
  - rewrite A in Y. destruct Y.
Qed.
