(* C02 — the hand-written model equals what the translator reads off the source.

   theories/C02/Gen.v is regenerated from streams/lunar-context/memory_state.go on
   every check run (AtomicSAddWithMaxValuesAllowed, SRem, SMembers, SCard): the
   set operations behind the frames FSAdd / FDecRem / GItem / GSnap of
   Model.exec.

   The code keeps a quota's set as a []string under the quota's key of the
   generic store; a member is the string encoding of (expiry, request id).  The
   model keeps [members s q : list (Z * Z)].  [Rm p key ms] relates them through
   an injective encoding [enc]: the entry under [key] is the slice [map enc ms]
   (or is absent and ms = []).  The theorems are simulation squares against
   Model.exec itself, for ALL stores, keys, members and limits:

     Rm p key (members s q)  ->  the generated function does not panic, returns
     what the frame's branch says, and  Rm p' key (members (exec … frame …) q).

   A run-time panic of the generated code (the stored value is not a []string)
   is excluded by Rm; C02_gen_panics_only_on_foreign_value states when it happens.

   Audit 2 (after the section): the squares restated for the step function the
   suites' request threads use today (Model2.exec2 under [head]:
   C02_gen_SAdd_stream, C02_gen_SRem_FDecRem_stream), and the hypothesis
   [enc_inj] of the two SRem squares discharged for the encoding the code uses,
   "<expiry>::<request id>::<instance id>" (C02_gen_SRem_real_encoding, by
   Property4.C02_member_encoding_injective).  The squares are per frame; they
   are not lifted to runs. *)
From Coq Require Import List ZArith Bool Lia.
From Verif Require Import Lib.GoSem C02.Model.
From Verif Require C02.Gen.
From Verif Require C02.Model2 C02.Proofs7 C02.Model4 C02.Property4.
Import ListNotations.
Open Scope Z_scope.

Section Encoding.

(* member (expiry, request id) -> the string kept in the slice *)
Variable enc : Z * Z -> gostring.
Hypothesis enc_inj : forall a b, enc a = enc b -> a = b.

Definition Rm (p : Gen.ms) (key : gostring) (ms : list (Z * Z)) : Prop :=
  match smap_get (Gen.ms_contextMemory p) key with
  | Some (VStrs l) => l = map enc ms
  | None => ms = []
  | Some _ => False
  end.

(* every other entry of the store *)
Definition frame_ok (p p' : Gen.ms) (key : gostring) : Prop :=
  forall k', k' <> key ->
    smap_get (Gen.ms_contextMemory p') k' = smap_get (Gen.ms_contextMemory p) k'.

(* ---------------------------------------------------------------- list facts *)

Fixpoint remove_first_str (v : gostring) (l : list gostring) : list gostring :=
  match l with
  | [] => []
  | x :: t => if gostring_eqb x v then t else x :: remove_first_str v t
  end.

Lemma enc_eqb x m : gostring_eqb (enc x) (enc m) = mem_eqb x m.
Proof.
  unfold mem_eqb. destruct (gostring_eqb (enc x) (enc m)) eqn:E.
  - apply gostring_eqb_eq, enc_inj in E. subst. now rewrite !Z.eqb_refl.
  - symmetry. apply andb_false_iff.
    destruct (fst x =? fst m) eqn:E1; [|now left]. right.
    destruct (snd x =? snd m) eqn:E2; [|reflexivity].
    apply Z.eqb_eq in E1, E2. destruct x, m; cbn in *; subst.
    now rewrite gostring_eqb_refl in E.
Qed.

Lemma remove_first_enc m ms :
  remove_first_str (enc m) (map enc ms) = map enc (remove_first m ms).
Proof.
  induction ms as [|x t IH]; cbn; [reflexivity|].
  rewrite enc_eqb. destruct (mem_eqb x m); [reflexivity|]. cbn. now rewrite IH.
Qed.

Lemma firstn_len_app {A} (pre suf : list A) : firstn (length pre) (pre ++ suf) = pre.
Proof. induction pre; cbn; [now destruct suf|now f_equal]. Qed.

Lemma skipn_len_app {A} (pre suf : list A) : skipn (length pre) (pre ++ suf) = suf.
Proof. induction pre; cbn; [reflexivity|assumption]. Qed.

(* the loop of SRem: scanning [suf] at index |pre| with the whole slice pre ++ suf
   in the variable [set], it leaves pre ++ (suf without the first v) and never
   panics *)
Lemma srem_loop (p : Gen.ms) (value : gostring) : forall suf pre,
  range_loop
    (fun (i : Z) (v : gostring) (acc : Gen.ms * goval) =>
       let '(p0, set) := acc in
       if gostring_eqb v value
       then
         if orb (orb (orb (negb (is_strs set)) (slice_len (strs_of set) <? i))
                     (negb (is_strs set)))
                (orb (i + 1 <? 0) (slice_len (strs_of set) <? i + 1))
         then LReturn (Panicked p0 : outcome Gen.ms goerror)
         else LBreak (p0, VStrs (slice_appendv (slice_to (strs_of set) i)
                                               (slice_from (strs_of set) (i + 1))))
       else LNext (p0, set))
    (Z.of_nat (length pre)) suf (p, VStrs (pre ++ suf))
  = inl (p, VStrs (pre ++ remove_first_str value suf)).
Proof.
  induction suf as [|x t IH]; intros pre; cbn [range_loop remove_first_str].
  - reflexivity.
  - destruct (gostring_eqb x value) eqn:E.
    + cbn [is_strs strs_of negb orb].
      unfold slice_len. rewrite app_length. cbn [length].
      assert (H1 : (Z.of_nat (length pre + S (length t)) <? Z.of_nat (length pre)) = false)
        by (apply Z.ltb_ge; lia).
      assert (H2 : (Z.of_nat (length pre) + 1 <? 0) = false) by (apply Z.ltb_ge; lia).
      assert (H3 : (Z.of_nat (length pre + S (length t)) <? Z.of_nat (length pre) + 1) = false)
        by (apply Z.ltb_ge; lia).
      rewrite H1, H2, H3. cbn [orb].
      unfold slice_appendv, slice_to, slice_from.
      rewrite Nat2Z.id.
      replace (Z.to_nat (Z.of_nat (length pre) + 1)) with (length (pre ++ [x])) by
        (rewrite app_length; cbn; lia).
      rewrite firstn_len_app.
      replace (pre ++ x :: t) with ((pre ++ [x]) ++ t) by (now rewrite <- app_assoc).
      rewrite skipn_len_app. reflexivity.
    + specialize (IH (pre ++ [x])).
      rewrite app_length in IH. cbn [length] in IH.
      replace (Z.of_nat (length pre + 1)) with (Z.of_nat (length pre) + 1) in IH by lia.
      rewrite <- app_assoc in IH. cbn [app] in IH. rewrite IH.
      now rewrite <- app_assoc.
Qed.

(* ---------------------------------------------------------------- store facts *)

Lemma ctx_exists_get c k : ctx_exists c k = match smap_get c k with Some _ => true | None => false end.
Proof. reflexivity. Qed.

Lemma ctx_set_nonempty c k v : k <> [] -> ctx_set c k v = (smap_set c k v, ErrNil).
Proof. intros H. unfold ctx_set. destruct k; [contradiction|reflexivity]. Qed.

Lemma upd_same {A} (f : Z -> A) k v : upd f k v k = v.
Proof. unfold upd. now rewrite Z.eqb_refl. Qed.

(* ---------------------------------------------------------------- AtomicSAddWithMaxValuesAllowed / FSAdd *)

Theorem C02_gen_SAdd : forall c s t q e rest p key,
  key <> [] ->
  Rm p key (members s q) ->
  exists p',
    Gen.AtomicSAddWithMaxValuesAllowed p key (enc (e, self t)) (cmax c q)
      = Normal p' (Z.of_nat (length (members s q)) <? cmax c q, ErrNil)
    /\ Rm p' key (members (exec c s t (FSAdd q e) rest) q)
    /\ frame_ok p p' key.
Proof.
  intros c s t q e rest p key Hk HR.
  unfold Rm in HR. unfold Gen.AtomicSAddWithMaxValuesAllowed.
  rewrite ctx_exists_get.
  assert (Hmodel : members (exec c s t (FSAdd q e) rest) q
                   = if Z.of_nat (length (members s q)) <? cmax c q
                     then members s q ++ [(e, self t)] else members s q).
  { cbn [exec]. destruct (Z.of_nat (length (members s q)) <? cmax c q); cbn; [|reflexivity].
    apply upd_same. }
  rewrite Hmodel. clear Hmodel.
  destruct p as [cm]. cbn [Gen.ms_contextMemory Gen.set_ms_contextMemory] in *.
  destruct (smap_get cm key) as [[| z | l | tg | zi]|] eqn:Eg; try contradiction.
  - (* the set exists *)
    cbn [negb]. unfold ctx_get. rewrite Eg. cbn [is_strs negb strs_of err_is_nil].
    subst l. unfold slice_len. rewrite map_length.
    rewrite Z.leb_antisym.
    destruct (Z.of_nat (length (members s q)) <? cmax c q) eqn:El; cbn [negb].
    + rewrite ctx_set_nonempty by exact Hk. cbn [err_is_nil negb Gen.set_ms_contextMemory].
      eexists; split; [reflexivity|]. split.
      * unfold Rm. cbn [Gen.ms_contextMemory Gen.set_ms_contextMemory]. rewrite smap_get_set_same.
        unfold slice_append1. now rewrite map_app.
      * intros k' Hn. cbn [Gen.ms_contextMemory Gen.set_ms_contextMemory]. now apply smap_get_set_other.
    + eexists; split; [reflexivity|]. split.
      * unfold Rm. cbn [Gen.ms_contextMemory Gen.set_ms_contextMemory]. now rewrite Eg.
      * intros k' Hn. reflexivity.
  - (* first use: the empty set is stored first *)
    cbn [negb]. rewrite ctx_set_nonempty by exact Hk.
    cbn [err_is_nil negb Gen.set_ms_contextMemory Gen.ms_contextMemory].
    unfold ctx_get. rewrite smap_get_set_same. cbn [is_strs negb strs_of err_is_nil].
    rewrite HR. cbn [length slice_len]. unfold slice_len. cbn [length].
    rewrite Z.leb_antisym.
    destruct (Z.of_nat 0 <? cmax c q) eqn:El; cbn [negb].
    + rewrite ctx_set_nonempty by exact Hk. cbn [err_is_nil negb Gen.set_ms_contextMemory].
      eexists; split; [reflexivity|]. split.
      * unfold Rm. cbn [Gen.ms_contextMemory Gen.set_ms_contextMemory]. rewrite smap_get_set_same. reflexivity.
      * intros k' Hn. cbn [Gen.ms_contextMemory Gen.set_ms_contextMemory]. rewrite !smap_get_set_other by exact Hn.
        reflexivity.
    + eexists; split; [reflexivity|]. split.
      * unfold Rm. cbn [Gen.ms_contextMemory Gen.set_ms_contextMemory]. rewrite smap_get_set_same. reflexivity.
      * intros k' Hn. cbn [Gen.ms_contextMemory Gen.set_ms_contextMemory]. now rewrite smap_get_set_other by exact Hn.
Qed.

(* ---------------------------------------------------------------- SRem / FDecRem, GItem *)

Lemma gen_SRem_spec : forall p key m ms,
  key <> [] ->
  Rm p key ms ->
  exists p',
    Gen.SRem p key (enc m) = Normal p' ErrNil
    /\ Rm p' key (remove_first m ms)
    /\ frame_ok p p' key.
Proof.
  intros p key m ms Hk HR.
  unfold Rm in HR. unfold Gen.SRem. rewrite ctx_exists_get.
  destruct p as [cm]. cbn [Gen.ms_contextMemory Gen.set_ms_contextMemory] in *.
  destruct (smap_get cm key) as [[| z | l | tg | zi]|] eqn:Eg; try contradiction.
  - cbn [negb]. unfold ctx_get. rewrite Eg. cbn [err_is_nil negb is_strs strs_of].
    pose proof (srem_loop (Gen.mk_ms cm) (enc m) l []) as HL.
    cbn [length app Z.of_nat] in HL. rewrite HL.
    rewrite ctx_set_nonempty by exact Hk. cbn [Gen.set_ms_contextMemory].
    eexists; split; [reflexivity|]. split.
    + unfold Rm. cbn [Gen.ms_contextMemory Gen.set_ms_contextMemory]. rewrite smap_get_set_same.
      subst l. apply remove_first_enc.
    + intros k' Hn. cbn [Gen.ms_contextMemory Gen.set_ms_contextMemory]. now apply smap_get_set_other.
  - cbn [negb]. subst ms. eexists; split; [reflexivity|]. split.
    + unfold Rm. cbn [Gen.ms_contextMemory Gen.set_ms_contextMemory]. now rewrite Eg.
    + intros k' Hn. reflexivity.
Qed.

(* Dec removes its own member *)
Theorem C02_gen_SRem_FDecRem : forall c s t q e rest p key,
  key <> [] ->
  Rm p key (members s q) ->
  exists p',
    Gen.SRem p key (enc (e, self t)) = Normal p' ErrNil
    /\ Rm p' key (members (exec c s t (FDecRem q e) rest) q)
    /\ frame_ok p p' key.
Proof.
  intros c s t q e rest p key Hk HR.
  destruct (gen_SRem_spec p key (e, self t) (members s q) Hk HR) as (p' & H1 & H2 & H3).
  exists p'. split; [exact H1|]. split; [|exact H3].
  cbn [exec]. cbn. now rewrite upd_same.
Qed.

(* the expiry sweep removes an expired member of its snapshot (the clock test is
   the caller's: concurrent_strategy.go, not translated) *)
Theorem C02_gen_SRem_GItem : forall c s t q e r' rest p key,
  key <> [] ->
  (e <=? now s) = true ->
  Rm p key (members s q) ->
  exists p',
    Gen.SRem p key (enc (e, r')) = Normal p' ErrNil
    /\ Rm p' key (members (exec c s t (GItem q e r') rest) q)
    /\ frame_ok p p' key.
Proof.
  intros c s t q e r' rest p key Hk Hexp HR.
  destruct (gen_SRem_spec p key (e, r') (members s q) Hk HR) as (p' & H1 & H2 & H3).
  exists p'. split; [exact H1|]. split; [|exact H3].
  cbn [exec]. rewrite Hexp. cbn. now rewrite upd_same.
Qed.

(* ---------------------------------------------------------------- SMembers / GSnap, SCard *)

(* the snapshot the sweep iterates over is the member list (as a copy: the
   generated function returns no receiver, the store is not written) *)
Theorem C02_gen_SMembers : forall p key ms,
  Rm p key ms ->
  Gen.SMembers p key = Normal p (map enc ms, ErrNil).
Proof.
  intros p key ms HR. unfold Rm in HR. unfold Gen.SMembers. rewrite ctx_exists_get.
  destruct (smap_get (Gen.ms_contextMemory p) key) as [[| z | l | tg | zi]|] eqn:Eg; try contradiction.
  - cbn [negb]. unfold ctx_get. rewrite Eg. cbn [err_is_nil negb is_strs strs_of].
    subst l. reflexivity.
  - cbn [negb]. subst ms. reflexivity.
Qed.

Theorem C02_gen_SMembers_GSnap : forall c s q rest p key,
  Rm p key (members s q) ->
  exists l, Gen.SMembers p key = Normal p (map enc l, ErrNil)
            /\ stk (exec c s (Gc q) (GSnap q) rest) (Gc q)
               = map (fun m => GItem q (fst m) (snd m)) l ++ rest.
Proof.
  intros c s q rest p key HR. exists (members s q). split.
  - now apply C02_gen_SMembers.
  - cbn [exec]. cbn. unfold updt. cbn. now rewrite Z.eqb_refl.
Qed.

Theorem C02_gen_SCard : forall p key ms,
  Rm p key ms ->
  Gen.SCard p key = Normal p (Z.of_nat (length ms), ErrNil).
Proof.
  intros p key ms HR. unfold Rm in HR. unfold Gen.SCard. rewrite ctx_exists_get.
  destruct (smap_get (Gen.ms_contextMemory p) key) as [[| z | l | tg | zi]|] eqn:Eg; try contradiction.
  - cbn [negb]. unfold ctx_get. rewrite Eg. cbn [err_is_nil negb is_strs strs_of].
    subst l. unfold slice_len. now rewrite map_length.
  - cbn [negb]. subst ms. reflexivity.
Qed.

End Encoding.

(* ---------------------------------------------------------------- streams *)

(* The request threads of both suites step with [Model2.exec2 c s (Req r) r
   (skey v r sq)] (Model2.v), a copy of [Model.exec] that keeps the two
   identities of a stream apart.  Under [head] the key is the transaction id
   and the copy IS [exec] (Proofs7.exec2_same): the squares of the two
   request-thread frames, for the function the suites evaluate.  (GC threads
   still step with [Model.exec]: C02_gen_SRem_GItem / C02_gen_SMembers_GSnap
   as they are.  Nothing is claimed for [seeded7], where the key is not the
   thread's own id.) *)
Theorem C02_gen_SAdd_stream : forall enc c s r sq q e rest p key,
  key <> [] ->
  Rm enc p key (members s q) ->
  exists p',
    Gen.AtomicSAddWithMaxValuesAllowed p key (enc (e, r)) (cmax c q)
      = Normal p' (Z.of_nat (length (members s q)) <? cmax c q, ErrNil)
    /\ Rm enc p' key (members (Model2.exec2 c s (Req r) r (Model2.skey Model2.head r sq) (FSAdd q e) rest) q)
    /\ frame_ok p p' key.
Proof.
  intros enc c s r sq q e rest p key Hk HR.
  change (Model2.skey Model2.head r sq) with r. rewrite Proofs7.exec2_same.
  exact (C02_gen_SAdd enc c s (Req r) q e rest p key Hk HR).
Qed.
Print Assumptions C02_gen_SAdd_stream.

Theorem C02_gen_SRem_FDecRem_stream : forall enc, (forall a b, enc a = enc b -> a = b) ->
  forall c s r sq q e rest p key,
  key <> [] ->
  Rm enc p key (members s q) ->
  exists p',
    Gen.SRem p key (enc (e, r)) = Normal p' ErrNil
    /\ Rm enc p' key (members (Model2.exec2 c s (Req r) r (Model2.skey Model2.head r sq) (FDecRem q e) rest) q)
    /\ frame_ok p p' key.
Proof.
  intros enc enc_inj c s r sq q e rest p key Hk HR.
  change (Model2.skey Model2.head r sq) with r. rewrite Proofs7.exec2_same.
  exact (C02_gen_SRem_FDecRem enc enc_inj c s (Req r) q e rest p key Hk HR).
Qed.
Print Assumptions C02_gen_SRem_FDecRem_stream.

(* ---------------------------------------------------------------- the real encoding *)

(* generateMember: "<expiry>::<request id>::<instance id>" (Model4.render), for
   a decimal rendering [dec] and a rendering [ridof] of the request ids *)
Definition enc_of (dec : Z -> Model4.str) (ridof : Z -> Model4.str) (inst : Model4.str)
  (a : Z * Z) : gostring := Model4.render dec (fst a) (ridof (snd a)) inst.

(* [enc_inj] is not a free hypothesis: for EVERY instance id it follows from
   what is trusted about fmt %d / strconv.ParseInt ([dec_ok]) and from request
   ids being ':'-free and distinct — the two SRem squares for the encoding the
   code uses *)
Theorem C02_gen_SRem_real_encoding :
  forall dec undec, Model4.dec_ok dec undec ->
  forall (ridof : Z -> Model4.str) (inst : Model4.str),
    (forall r, Model4.cfree (ridof r)) -> (forall r r', ridof r = ridof r' -> r = r') ->
    let enc := enc_of dec ridof inst in
    (forall c s t q e rest p key, key <> [] -> Rm enc p key (members s q) ->
       exists p', Gen.SRem p key (enc (e, self t)) = Normal p' ErrNil
         /\ Rm enc p' key (members (exec c s t (FDecRem q e) rest) q) /\ frame_ok p p' key) /\
    (forall c s t q e r' rest p key, key <> [] -> (e <=? now s) = true -> Rm enc p key (members s q) ->
       exists p', Gen.SRem p key (enc (e, r')) = Normal p' ErrNil
         /\ Rm enc p' key (members (exec c s t (GItem q e r') rest) q) /\ frame_ok p p' key).
Proof.
  intros dec undec D ridof inst Hf Hi enc.
  assert (I : forall a b, enc a = enc b -> a = b)
    by exact (Property4.C02_member_encoding_injective dec undec D ridof inst Hf Hi).
  split; [exact (C02_gen_SRem_FDecRem enc I)|exact (C02_gen_SRem_GItem enc I)].
Qed.
Print Assumptions C02_gen_SRem_real_encoding.

(* ... and [dec_ok] is not a free hypothesis either (extension 3): the real
   decimal rendering Model4.dec10 (strconv.FormatInt base 10) meets it
   (Property4.C02_dec10_dec_ok), so the two SRem squares hold for the member
   strings the code writes, digits included, for every instance id; what is
   left is the rendering of the request ids *)
Theorem C02_gen_SRem_real_decimal :
  forall (ridof : Z -> Model4.str) (inst : Model4.str),
    (forall r, Model4.cfree (ridof r)) -> (forall r r', ridof r = ridof r' -> r = r') ->
    let enc := enc_of Model4.dec10 ridof inst in
    (forall c s t q e rest p key, key <> [] -> Rm enc p key (members s q) ->
       exists p', Gen.SRem p key (enc (e, self t)) = Normal p' ErrNil
         /\ Rm enc p' key (members (exec c s t (FDecRem q e) rest) q) /\ frame_ok p p' key) /\
    (forall c s t q e r' rest p key, key <> [] -> (e <=? now s) = true -> Rm enc p key (members s q) ->
       exists p', Gen.SRem p key (enc (e, r')) = Normal p' ErrNil
         /\ Rm enc p' key (members (exec c s t (GItem q e r') rest) q) /\ frame_ok p p' key).
Proof. exact (C02_gen_SRem_real_encoding Model4.dec10 Model4.undecZ Property4.C02_dec10_dec_ok). Qed.
Print Assumptions C02_gen_SRem_real_decimal.

(* its hypotheses are satisfiable (one-code renderings, as Property4.C02_ex_dec_ok),
   with an instance id that contains the separator: "d::g" *)
Definition ridof1 (r : Z) : Model4.str := [if r <? 58 then r else r + 1].

Example C02_ex_real_encoding :
  Model4.dec_ok Model4.dec1 Model4.undec1 /\
  (forall r, Model4.cfree (ridof1 r)) /\ (forall r r', ridof1 r = ridof1 r' -> r = r') /\
  enc_of Model4.dec1 ridof1 [100; 58; 58; 103] (7, 3) = [7; 58; 58; 3; 58; 58; 100; 58; 58; 103].
Proof.
  split; [exact Property4.C02_ex_dec_ok|]. split; [|split; [|reflexivity]].
  - intros r. unfold ridof1, Model4.cfree. constructor; [|constructor].
    destruct (Z.ltb_spec r 58); lia.
  - intros r r'. unfold ridof1. intros H. inversion H as [H1].
    destruct (Z.ltb_spec r 58), (Z.ltb_spec r' 58); lia.
Qed.

(* when the generated code panics: exactly when something that is not a []string
   is stored under the key (excluded by Rm; the quota code never does it) *)
Theorem C02_gen_panics_only_on_foreign_value : forall p key,
  (exists p', Gen.SMembers p key = Panicked p') <->
  (exists v, smap_get (Gen.ms_contextMemory p) key = Some v /\ is_strs v = false).
Proof.
  intros p key. unfold Gen.SMembers. rewrite ctx_exists_get. unfold ctx_get.
  destruct (smap_get (Gen.ms_contextMemory p) key) as [v|] eqn:Eg; cbn [negb err_is_nil].
  - destruct (is_strs v) eqn:Ev; cbn [negb].
    + split; [intros [p' H]; discriminate H|].
      intros (v' & Hv & Hs). inversion Hv; subst. congruence.
    + split; [intros _; exists v; auto|intros _; eexists; reflexivity].
  - split; [intros [p' H]; discriminate H|intros (v & Hv & _); discriminate Hv].
Qed.
