(* C02 — second layer of the model: STREAMS and ENGINE CALLS.

   Model.v identifies a transaction with one number.  The code sees more: every
   stage of a call arrives on a stream that carries a TRANSACTION id
   (APIStream.GetID) and a SEQUENCE id (APIStream.GetSequenceID) — HAProxy sets
   the sequence id to the transaction id unless the client sent the header
   x-lunar-sequence-id (interceptors send it on every retry of a call; a client
   can stamp anything), and Stream.OnError builds the stream of a proxy error
   with ID = SequenceID = transaction id.  This file adds that dimension, and
   the walk over the response flows that follows an early answer, each with a
   [variant] switch that says which reading of the code is modelled:

     key_by_seq              false (HEAD): Inc / Allowed / Dec of the concurrent
                             strategy key allowedReq and the member by
                             APIStream.GetID();
                             true  (seeded change C02-7): by the sequence id.
                             reqIDToQuota (GetQuota / OnRequestDrop /
                             OnResponseFinish) is keyed by GetID() in both.
     dec_skips_after_early   false (HEAD): every QuotaProcessorDec of the
                             response walk that follows an early answer calls
                             GetQuota + Dec;
                             true  (seeded change C02-8): it does nothing there
                             (the stream carries no response object).

   Executable definitions only.  Proofs7.v proves that under [head] the
   sequence ids are irrelevant (the machine below IS the machine of Model.v on
   the schedule with the sequence ids erased — every theorem about all
   schedules carries over to all schedules of streams), Property.v states the
   consequences and refutes them for the two seeded variants. *)
From Coq Require Import List ZArith Bool.
From Verif Require Import C02.Model.
Import ListNotations.
Open Scope Z_scope.

Record variant := { key_by_seq : bool; dec_skips_after_early : bool }.

Definition head : variant := {| key_by_seq := false; dec_skips_after_early := false |}.
Definition seeded7 : variant := {| key_by_seq := true; dec_skips_after_early := false |}.
Definition seeded8 : variant := {| key_by_seq := false; dec_skips_after_early := true |}.

(* the id under which the strategy tracks the slot of the stream (r, sq) *)
Definition skey (v : variant) (r sq : Z) : Z := if key_by_seq v then sq else r.

(* [Model.exec] with the two identities of a stream kept apart:
   ri = APIStream.GetID()  — reqIDToQuota, and the result register of Allowed;
   rk = the strategy's key — allowedReq and the member string. *)
Definition exec2 (c : config) (s : state) (t : tid) (ri rk : Z) (f : frame) (rest : list frame) : state :=
  match f with
  | FIncCheck q =>
      match status s q rk with
      | Some _ => set_stk s t rest
      | None => set_stk s t (FGen q :: rest)
      end
  | FGen q => set_stk s t (FSAdd q (now s + cttl c q + delta) :: rest)
  | FSAdd q e =>
      if Z.of_nat (length (members s q)) <? cmax c q
      then set_stk (set_members s q (members s q ++ [(e, rk)])) t
                   (par_inc c q ++ FSet q e :: rest)
      else set_stk s t rest
  | FSet q e => set_stk (set_status s q rk (Some e)) t rest
  | FACheck q =>
      match status s q rk with
      | None => set_stk (set_verdict s ri (Some false)) t rest
      | Some _ =>
          match cpar c q with
          | Some p => set_stk s t (FIncCheck p :: FACheck p :: rest)
          | None => set_stk (set_verdict s ri (Some true)) t rest
          end
      end
  | FGetQ q =>
      match firstq s ri with
      | Some _ => set_stk s t rest
      | None => set_stk (set_firstq s ri (Some q)) t rest
      end
  | FDec1 q =>
      match status s q rk with
      | None => set_stk s t rest
      | Some e => set_stk s t (FDec2 q e :: rest)
      end
  | FDec2 q e =>
      match status s q rk with
      | Some _ => set_stk s t (FDecRem q e :: par_dec c q ++ FDecDel q :: rest)
      | None => set_stk s t (par_dec c q ++ FDecDel q :: rest)
      end
  | FDecRem q e => set_stk (set_members s q (remove_first (e, rk) (members s q))) t rest
  | FDecDel q => set_stk (set_status s q rk None) t rest
  | FDrop =>
      match firstq s ri with
      | Some q => set_stk (set_firstq s ri None) t (FDec1 q :: rest)
      | None => set_stk s t rest
      end
  | FFinish => set_stk (set_firstq s ri None) t rest
  | GSnap _ | GItem _ _ _ | GDel _ _ => exec c s t f rest      (* the GC has no stream *)
  end.

(* ---- the machine over streams ---- *)
(* A transaction thread is named by its TRANSACTION id; every call it starts is
   made with a stream, whose sequence id the thread keeps until the operation is
   over ([cur]).  Different calls of one transaction may carry different
   sequence ids (the proxy-error stream), different transactions may carry the
   same one (retries, parallel calls stamped alike). *)
Inductive kevent :=
| KCall (r sq : Z) (o : op)   (* transaction r (idle) starts o with the stream (r, sq) *)
| KGc (q : Z)                 (* the GC goroutine of q (idle) starts a pass *)
| KStep (t : tid)             (* thread t executes its next lock region *)
| KTick (x : Z).              (* the clock is read as max(now, x) *)

Record kstate := { base : state; cur : Z -> Z }.

Definition kinit (t0 : Z) : kstate := {| base := init t0; cur := fun r => r |}.

(* the schedule of Model.v a schedule of streams becomes when the sequence ids are forgotten *)
Definition erase (ev : kevent) : event :=
  match ev with
  | KCall r _ o => ECall (Req r) o
  | KGc q => ECall (Gc q) (OGc q)
  | KStep t => EStep t
  | KTick x => ETick x
  end.

Definition kstep (v : variant) (c : config) (ks : kstate) (ev : kevent) : kstate :=
  match ev with
  | KCall r sq o =>
      match stk (base ks) (Req r) with
      | [] => if op_fits (Req r) o
              then {| base := set_stk (base ks) (Req r) (frames_of o); cur := upd (cur ks) r sq |}
              else ks
      | _ :: _ => ks
      end
  | KStep (Req r) =>
      match stk (base ks) (Req r) with
      | [] => ks
      | f :: rest =>
          {| base := exec2 c (base ks) (Req r) r (skey v r (cur ks r)) f rest; cur := cur ks |}
      end
  | KStep (Gc _) | KGc _ | KTick _ => {| base := step c (base ks) (erase ev); cur := cur ks |}
  end.

Definition krun (v : variant) (c : config) (ks : kstate) (evs : list kevent) : kstate :=
  fold_left (kstep v c) evs ks.

Fixpoint ksteps (v : variant) (c : config) (n : nat) (t : tid) (ks : kstate) : kstate :=
  match n with
  | O => ks
  | S n' => match stk (base ks) t with
            | [] => ks
            | _ :: _ => ksteps v c n' t (kstep v c ks (KStep t))
            end
  end.

(* an operation of transaction r with the stream (r, sq), run to completion *)
Definition krun_op (v : variant) (c : config) (fuel : nat) (ks : kstate) (r sq : Z) (o : op) : kstate :=
  ksteps v c fuel (Req r) (kstep v c ks (KCall r sq o)).

Definition kgc (c : config) (fuel : nat) (ks : kstate) (q : Z) : kstate :=
  {| base := run_op c fuel (base ks) (Gc q) (OGc q); cur := cur ks |}.

Definition kclear (ks : kstate) (r : Z) : kstate :=
  {| base := clear_verdict (base ks) r; cur := cur ks |}.

(* ------------------------------------------------------------------ *)
(* suite "res2": operations with their streams                          *)

Inductive rstep2 := R2Tick (dt : Z) | R2Op (r sq : Z) (o : op) | R2Gc (q : Z).

Definition do_rstep2 (v : variant) (c : config) (ks : kstate) (x : rstep2) : kstate * Z :=
  match x with
  | R2Tick dt => (kstep v c ks (KTick (now (base ks) + dt)), -1)
  | R2Op r sq o =>
      let ks' := krun_op v c fuel0 (kclear ks r) r sq o in (ks', vcode (base ks') (Req r) r)
  | R2Gc q =>
      let ks' := kgc c fuel0 ks q in
      (ks', match stk (base ks') (Gc q) with [] => -1 | _ :: _ => -99 end)
  end.

Fixpoint run_rsteps2 (v : variant) (rows : list qrow) (c : config) (ks : kstate) (xs : list rstep2) : list obs :=
  match xs with
  | [] => []
  | x :: rest =>
      let '(ks', w) := do_rstep2 v c ks x in
      (w, counts rows (base ks')) :: run_rsteps2 v rows c ks' rest
  end.

Definition case_res2 := (list qrow * list (rstep2 * obs))%type.

Definition run_res2 (v : variant) (k : case_res2) : option (list obs) :=
  let '(rows, script) := k in
  let m := run_rsteps2 v rows (mkcfg rows) (kinit 0) (map fst script) in
  if wfb rows && obs_eqb m (map snd script) then None else Some m.

(* what the harness evaluates: the code as it is *)
Definition run_res2h : case_res2 -> option (list obs) := run_res2 head.

(* ------------------------------------------------------------------ *)
(* suite "eng2": ExecuteFlow calls with their streams                   *)

(* A quota id outside the rows of the configuration stands for a quota of
   ANOTHER strategy (fixed window: a rate limit) that lives on the same URL.  Its
   Inc / Allowed / Dec touch no concurrency state; what matters is that its
   processors look it up with the transaction id, i.e. register it in
   reqIDToQuota when it is the first quota the transaction meets. *)
Inductive pev2 :=
| POld (p : pev)        (* a processor of a concurrency quota / GenerateResponse / end of executeRes *)
| PTouch (q : Z).       (* Limiter / QuotaProcessorInc of a non-concurrency quota: GetQuota(q, id) *)

(* [early] = a GenerateResponse answered the request earlier in this call: what
   follows is the walk over the response flows on the request's stream, which
   carries no response object. *)
Fixpoint ops_of_trace (v : variant) (early : bool) (tr : list pev2) : list op :=
  match tr with
  | [] => []
  | POld PGen :: rest => ODrop :: ops_of_trace v true rest
  | POld (PDec q) :: rest =>
      (if dec_skips_after_early v && early then [] else [OGetQ q; ODec q]) ++ ops_of_trace v early rest
  | POld p :: rest => ops_of_pev p ++ ops_of_trace v early rest
  | PTouch q :: rest => OGetQ q :: ops_of_trace v early rest
  end.

Fixpoint krun_ops (v : variant) (c : config) (ks : kstate) (r sq : Z) (os : list op) : kstate * list Z :=
  match os with
  | [] => (ks, [])
  | o :: rest =>
      let ks1 := krun_op v c fuel0 (kclear ks r) r sq o in
      let w := vcode (base ks1) (Req r) r in
      let '(ks2, ws) := krun_ops v c ks1 r sq rest in
      (ks2, match o with OAllowed _ => w :: ws | _ => if w =? -99 then w :: ws else ws end)
  end.

Inductive eev2 :=
| Ev2Txn (r sq : Z) (trace : list pev2)   (* one ExecuteFlow call of transaction r on a stream with sequence id sq *)
| Ev2Err (r : Z)                          (* Stream.OnError(r): a stream with ID = SequenceID = r *)
| Ev2Adv (dt : Z)
| Ev2Gc (qs : list Z).

Definition do_eev2 (v : variant) (c : config) (ks : kstate) (e : eev2) : kstate * list Z :=
  match e with
  | Ev2Txn r sq trace => krun_ops v c ks r sq (ops_of_trace v false trace)
  | Ev2Err r => krun_ops v c ks r r [ODrop]
  | Ev2Adv dt => (kstep v c ks (KTick (now (base ks) + dt)), [])
  | Ev2Gc qs =>
      fold_left (fun (a : kstate * list Z) q =>
                   let ks' := kgc c fuel0 (fst a) q in
                   (ks', match stk (base ks') (Gc q) with [] => snd a | _ :: _ => -99 :: snd a end))
                qs (ks, [])
  end.

Fixpoint run_eevs2 (v : variant) (rows : list qrow) (c : config) (ks : kstate) (es : list eev2) : list eobs :=
  match es with
  | [] => []
  | e :: rest =>
      let '(ks', ws) := do_eev2 v c ks e in
      (ws, counts rows (base ks')) :: run_eevs2 v rows c ks' rest
  end.

Definition case_eng2 := (list qrow * list (eev2 * eobs))%type.

Definition run_eng2 (v : variant) (k : case_eng2) : option (list eobs) :=
  let '(rows, script) := k in
  let m := run_eevs2 v rows (mkcfg rows) (kinit 0) (map fst script) in
  if wfb rows && eobs_eqb m (map snd script) then None else Some m.

Definition run_eng2h : case_eng2 -> option (list eobs) := run_eng2 head.
