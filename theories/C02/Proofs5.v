(* C02 — lemmas, part 5: release under EVERY interleaving (phased schedules).
   (a) a Dec / drop that was started and whose thread is idle again has freed
       the request's slot in that quota, whatever the other threads did;
   (b) if none of the statuses the request holds on the chain expires before
       the end, the interleaved Dec / drop frees exactly what the solo run
       frees (the maximal held prefix): the releasing thread's view — its
       stack and its own statuses on the chain — evolves as in the solo run;
   (c) a GC pass interleaved with anything removes every member that was
       expired at its snapshot and belongs to a request that takes no step
       during the pass; if no request steps at all, the quota is swept. *)
From Coq Require Import List ZArith Bool Lia.
From Verif Require Import C02.Model C02.Proofs C02.Proofs2 C02.Proofs3 C02.Proofs4.
Import ListNotations.
Open Scope Z_scope.

Ltac proj :=
  cbn [now members status firstq stk verdict set_now set_members set_status
       set_firstq set_stk set_verdict] in *.

(* ------------------------------------------------------------------ *)
(* the ghost set along a run, explicitly                                *)

Fixpoint ghosts (c : config) (g : Z -> bool) (s : state) (evs : list event) : Z -> bool :=
  match evs with
  | [] => g
  | ev :: rest => ghosts c (ghost' g s ev) (step c s ev) rest
  end.

Lemma ghost'_mono : forall g s ev r, g r = true -> ghost' g s ev r = true.
Proof.
  intros g s ev r H. destruct ev as [[r0|q0] o| |]; cbn [ghost']; auto.
  destruct (stk s (Req r0)); auto. destruct (is_release o); auto.
  unfold upd. destruct (r =? r0); auto.
Qed.

Lemma ghosts_mono : forall c evs g s r, g r = true -> ghosts c g s evs r = true.
Proof.
  intros c. induction evs as [|ev evs IH]; intros g s r H; cbn [ghosts]; auto.
  apply IH. apply ghost'_mono. exact H.
Qed.

Lemma phased_from_app : forall c a b g s,
  phased_from c g s (a ++ b) ->
  phased_from c g s a /\ phased_from c (ghosts c g s a) (run c s a) b.
Proof.
  intros c. induction a as [|ev a IH]; intros b g s H; cbn in *; [tauto|].
  destruct H as [OK H]. destruct (IH _ _ _ H) as [H1 H2]. auto.
Qed.

Lemma Inv1_run : forall c evs s, Inv1 s -> Inv1 (run c s evs).
Proof.
  intros c. induction evs as [|ev evs IH]; intros s I; cbn; auto.
  apply IH. apply Inv1_step. exact I.
Qed.

Lemma Inv2_runs : forall c, wf c -> forall evs g s, Inv1 s -> Inv2 g s ->
  phased_from c g s evs -> Inv2 (ghosts c g s evs) (run c s evs).
Proof.
  intros c WF. induction evs as [|ev evs IH]; intros g s I J P; cbn; auto.
  destruct P as [OK P]. apply IH; [apply Inv1_step; exact I|apply Inv2_step; assumption|exact P].
Qed.

Lemma now_step : forall c s ev, now s <= now (step c s ev).
Proof.
  intros c s ev. destruct ev as [t o|t|x]; cbn [step].
  - destruct (stk s t); [destruct (op_fits t o)|]; cbn; lia.
  - destruct (stk s t) as [|f rest]; [lia|]. rewrite exec_now. lia.
  - cbn. lia.
Qed.

Lemma now_run : forall c evs s, now s <= now (run c s evs).
Proof.
  intros c. induction evs as [|ev evs IH]; intros s; cbn; [lia|].
  assert (A := now_step c s ev). assert (B := IH (step c s ev)). unfold run in B. lia.
Qed.

(* effect of an accepted / ignored call on everything but the stack *)
Lemma call_fields : forall c s t o,
  members (step c s (ECall t o)) = members s /\ status (step c s (ECall t o)) = status s /\
  firstq (step c s (ECall t o)) = firstq s /\ now (step c s (ECall t o)) = now s /\
  forall t', t' <> t -> stk (step c s (ECall t o)) t' = stk s t'.
Proof.
  intros c s t o. cbn [step]. destruct (stk s t); [destruct (op_fits t o)|]; repeat split; auto.
  intros t' N. proj. apply updt_other. exact N.
Qed.

(* a request in its release phase never writes a status again *)
Lemma release_no_FSet : forall g s r q e rest, Inv2 g s -> g r = true ->
  stk s (Req r) = FSet q e :: rest -> False.
Proof.
  intros g s r q e rest J G E. assert (RL := j_RL g s J r G). rewrite E in RL.
  inversion RL; subst. discriminate.
Qed.

Lemma status_none_step : forall c g s ev q r, Inv1 s -> Inv2 g s -> g r = true ->
  status s q r = None -> status (step c s ev) q r = None.
Proof.
  intros c g s ev q r I J G S. destruct ev as [t o|t|x].
  - destruct (call_fields c s t o) as [_ [X _]]. rewrite X. exact S.
  - cbn [step]. destruct (stk s t) as [|f rest] eqn:E; [exact S|].
    apply (x_status_none c s t f rest I E q r S).
    intros [e0 [F T]]. subst. eapply release_no_FSet; eauto.
  - exact S.
Qed.

Lemma status_some_back : forall c g s ev q r e, Inv1 s -> Inv2 g s -> g r = true ->
  status (step c s ev) q r = Some e -> status s q r = Some e.
Proof.
  intros c g s ev q r e I J G S. destruct (status s q r) as [e0|] eqn:S0.
  - destruct ev as [t o|t|x].
    + destruct (call_fields c s t o) as [_ [X _]]. rewrite X in S. congruence.
    + cbn [step] in S. destruct (stk s t) as [|f rest] eqn:E; [congruence|].
      destruct (x_status_some c s t f rest I E q r e0 S0) as [A|[A|[e1 [F T]]]]; try congruence.
      exfalso. subst. eapply release_no_FSet; eauto.
    + cbn in S. congruence.
  - rewrite (status_none_step c g s ev q r I J G S0) in S. discriminate.
Qed.

(* only thread r (or a GC thread, for nobody) writes firstq r *)
Lemma firstq_other : forall c s t r, Inv1 s -> t <> Req r ->
  firstq (step c s (EStep t)) r = firstq s r.
Proof.
  intros c s t r I N. cbn [step]. destruct (stk s t) as [|f rest] eqn:E; [reflexivity|].
  destruct t as [r0|q0].
  - assert (r0 <> r) by congruence.
    unfold exec. cbn [self].
    destruct f; repeat match goal with
      | |- context [match ?x with _ => _ end] => destruct x
      end; proj; rewrite ?upd_other by congruence; reflexivity.
  - assert (G := gc_top s q0 f rest I E).
    destruct f; try discriminate G; unfold exec;
      repeat match goal with
      | |- context [if ?x then _ else _] => destruct x
      end; reflexivity.
Qed.

(* ------------------------------------------------------------------ *)
(* (a) a started release ends with the slot of that quota freed          *)

(* the release of q by request r is under way *)
Definition dec_pending (s : state) (q r : Z) : Prop :=
  In (FDec1 q) (stk s (Req r)) \/ (exists e, In (FDec2 q e) (stk s (Req r))) \/
  In (FDecDel q) (stk s (Req r)) \/ (stk s (Req r) = [FDrop] /\ firstq s r = Some q).

Definition will_free (s : state) (q r : Z) : Prop := dec_pending s q r \/ status s q r = None.

Lemma will_free_step : forall c g s ev q r, Inv1 s -> Inv2 g s -> g r = true ->
  will_free s q r -> will_free (step c s ev) q r.
Proof.
  intros c g s ev q r I J G [D|Sn]; [|right; eapply status_none_step; eauto].
  destruct ev as [t o|t|x].
  - (* a call: thread r is busy (something is pending), other threads do not matter *)
    destruct (call_fields c s t o) as [_ [_ [F [_ K]]]].
    destruct (tid_eqb_spec t (Req r)) as [->|N].
    + assert (B : stk s (Req r) <> []).
      { destruct D as [D|[[e D]|[D|[D _]]]]; intros X; rewrite X in D; try contradiction; discriminate. }
      cbn [step]. destruct (stk s (Req r)); [congruence|]. left. exact D.
    + left. unfold dec_pending. rewrite K, F by congruence. exact D.
  - cbn [step]. destruct (stk s t) as [|f rest] eqn:E; [left; exact D|].
    destruct (tid_eqb_spec t (Req r)) as [->|N].
    + (* the releasing thread steps *)
      assert (K : stk (exec c s (Req r) f rest) (Req r) = pushed c s (Req r) f ++ rest).
      { rewrite exec_stk. destruct (tid_eqb_spec (Req r) (Req r)); congruence. }
      assert (Keep : forall x, In x rest -> In x (stk (exec c s (Req r) f rest) (Req r))).
      { intros x Hx. rewrite K. apply in_or_app. right. exact Hx. }
      unfold dec_pending in D. rewrite E in D.
      destruct D as [[D|D]|[[e [D|D]]|[[D|D]|[D F]]]].
      * subst f. cbn [pushed self] in K. destruct (status s q r) as [e|] eqn:S.
        -- left. right. left. exists e. rewrite K. left. reflexivity.
        -- right. rewrite exec_status. exact S.
      * left. left. apply Keep. exact D.
      * subst f. left. right. right. left. rewrite K. apply in_or_app. left.
        cbn [pushed self]. unfold par_dec.
        destruct (status s q r), (cpar c q); cbn; auto.
      * left. right. left. exists e. apply Keep. exact D.
      * subst f. right. rewrite exec_status. cbn [status_after self]. rewrite !Z.eqb_refl. reflexivity.
      * left. right. right. left. apply Keep. exact D.
      * inversion D; subst f rest. left. left. rewrite K. cbn [pushed self]. rewrite F. left. reflexivity.
    + (* another thread steps *)
      left. unfold dec_pending. rewrite (x_stk_other c s t f rest (Req r)) by congruence.
      assert (F := firstq_other c s t r I N). cbn [step] in F. rewrite E in F. rewrite F. exact D.
  - left. exact D.
Qed.

Lemma will_free_run : forall c, wf c -> forall q r evs g s, Inv1 s -> Inv2 g s -> g r = true ->
  phased_from c g s evs -> will_free s q r -> will_free (run c s evs) q r.
Proof.
  intros c WF q r. induction evs as [|ev evs IH]; intros g s I J G P W; cbn; [exact W|].
  destruct P as [OK P]. apply (IH (ghost' g s ev)).
  - apply Inv1_step; exact I.
  - apply Inv2_step; assumption.
  - apply ghost'_mono; exact G.
  - exact P.
  - eapply will_free_step; eauto.
Qed.

(* state after [evs1] of a phased schedule, with its invariants *)
Lemma phased_prefix : forall c t0 evs1 evs2, wf c -> phased c t0 (evs1 ++ evs2) ->
  let s1 := run c (init t0) evs1 in
  exists g1, Inv1 s1 /\ Inv2 g1 s1 /\ phased_from c g1 s1 evs2.
Proof.
  intros c t0 evs1 evs2 WF P. cbn zeta. unfold phased in P.
  destruct (phased_from_app c evs1 evs2 _ _ P) as [P1 P2].
  exists (ghosts c (fun _ => false) (init t0) evs1). split; [|split; [|exact P2]].
  - apply Inv1_run. apply Inv1_init.
  - apply Inv2_runs; auto. apply Inv1_init. apply Inv2_init.
Qed.

(* an accepted release call of thread r puts r into the ghost set *)
Lemma release_call_ghost : forall g s r o, stk s (Req r) = [] -> is_release o = true ->
  ghost' g s (ECall (Req r) o) r = true.
Proof. intros g s r o E R. cbn [ghost']. rewrite E, R. apply upd_same. Qed.

Lemma no_member_without_status : forall g s q r, Inv2 g s ->
  status s q r = None -> stk s (Req r) = [] -> forall e, ~ In (e, r) (members s q).
Proof.
  intros g s q r J S E e M. destruct (j_E g s J q e r M) as [A|A]; [congruence|].
  rewrite E in A. contradiction.
Qed.

Lemma release_completes : forall c t0 evs1 evs2 r o q, wf c ->
  phased c t0 (evs1 ++ ECall (Req r) o :: evs2) ->
  let s1 := run c (init t0) evs1 in
  let s2 := run c s1 (ECall (Req r) o :: evs2) in
  stk s1 (Req r) = [] ->
  (o = ODec q \/ (o = ODrop /\ firstq s1 r = Some q)) ->
  stk s2 (Req r) = [] ->
  status s2 q r = None /\ forall e, ~ In (e, r) (members s2 q).
Proof.
  intros c t0 evs1 evs2 r o q WF P s1 s2 E O E2.
  destruct (phased_prefix c t0 evs1 _ WF P) as [g1 [I1 [J1 P1]]]. fold s1 in I1, J1, P1.
  destruct P1 as [OK P2].
  set (s1' := step c s1 (ECall (Req r) o)) in *.
  set (g1' := ghost' g1 s1 (ECall (Req r) o)) in *.
  assert (R : is_release o = true) by (destruct O as [->|[-> _]]; reflexivity).
  assert (G : g1' r = true) by (apply release_call_ghost; assumption).
  assert (I1' : Inv1 s1') by (apply Inv1_step; exact I1).
  assert (J1' : Inv2 g1' s1') by (apply Inv2_step; assumption).
  assert (W : will_free s1' q r).
  { left. unfold dec_pending, s1'. cbn [step]. rewrite E.
    destruct O as [->|[-> F]]; cbn [op_fits frames_of]; proj; rewrite updt_same.
    - left. left. reflexivity.
    - right. right. right. split; [reflexivity|exact F]. }
  assert (W2 := will_free_run c WF q r evs2 g1' s1' I1' J1' G P2 W).
  change (run c s1' evs2) with s2 in W2.
  assert (S2 : status s2 q r = None).
  { destruct W2 as [D|S]; [|exact S]. exfalso. unfold dec_pending in D. rewrite E2 in D.
    destruct D as [D|[[e D]|[D|[D _]]]]; try contradiction; discriminate. }
  split; [exact S2|].
  assert (J2 : Inv2 (ghosts c g1' s1' evs2) s2) by (apply Inv2_runs; assumption).
  eapply no_member_without_status; eauto.
Qed.

(* ------------------------------------------------------------------ *)
(* (b) the releasing thread's view evolves as in the solo run            *)

Lemma pushed_dec_view : forall c s a r f q0,
  dec_quota f = Some q0 -> status s q0 r = status a q0 r ->
  pushed c s (Req r) f = pushed c a (Req r) f.
Proof.
  intros c s a r f q0 D S. destruct f; cbn in D; inversion D; subst;
    cbn [pushed self]; rewrite ?S; reflexivity.
Qed.

Lemma status_after_view : forall s a t f q' r',
  status s q' r' = status a q' r' -> status_after s t f q' r' = status_after a t f q' r'.
Proof.
  intros s a t f q' r' H. destruct f; cbn [status_after]; try exact H;
    match goal with |- context [if ?b then _ else _] => destruct b end; auto.
Qed.

(* where the frames of a thread's stack after one event come from *)
Lemma stk_step_in : forall c s ev t' x, In x (stk (step c s ev) t') ->
  In x (stk s t') \/
  (exists f rest, ev = EStep t' /\ stk s t' = f :: rest /\ In x (pushed c s t' f)) \/
  (exists o, ev = ECall t' o /\ In x (frames_of o)).
Proof.
  intros c s ev t' x H. destruct ev as [t o|t|y]; cbn [step] in H.
  - destruct (stk s t) eqn:E; [destruct (op_fits t o)|]; auto.
    proj. destruct (tid_eqb_spec t' t) as [->|N].
    + rewrite updt_same in H. right. right. eauto.
    + rewrite updt_other in H by exact N. auto.
  - destruct (stk s t) as [|f rest] eqn:E; auto.
    rewrite exec_stk in H. destruct (tid_eqb_spec t' t) as [->|N]; auto.
    apply in_app_or in H. destruct H as [H|H].
    + right. left. exists f, rest. auto.
    + left. rewrite E. right. exact H.
  - auto.
Qed.

Lemma event_eq_step : forall (ev : event) r, ev = EStep (Req r) \/ ev <> EStep (Req r).
Proof.
  intros [t o|[r0|q0]|x] r; try (right; discriminate).
  destruct (Z.eq_dec r0 r) as [->|N]; [left; reflexivity|right; congruence].
Qed.

Section Sim.
Variable c : config.
Hypothesis WF : wf c.
Variables (q r T : Z).

(* nothing the GC of a chain quota has in hand can delete a status r holds:
   the statuses r holds on the chain expire after T, the pending GC items of r
   carry the expiry of the status, no status deletion of r is pending *)
Definition guarded (s : state) : Prop :=
  forall q', anc c q q' ->
    (forall e, status s q' r = Some e -> T < e) /\
    (forall e e', status s q' r = Some e -> In (GItem q' e' r) (stk s (Gc q')) -> e' = e) /\
    (status s q' r <> None -> ~ In (GDel q' r) (stk s (Gc q'))).

Lemma guarded_step : forall g s ev, Inv1 s -> Inv2 g s -> g r = true -> now s <= T ->
  guarded s -> guarded (step c s ev).
Proof.
  intros g s ev I J G NT GU q' A. destruct (GU q' A) as [Ga [Gb Gd]].
  assert (B : forall e, status (step c s ev) q' r = Some e -> status s q' r = Some e)
    by (intros e; eapply status_some_back; eauto).
  split; [|split].
  - intros e S. apply Ga. apply B. exact S.
  - intros e e' S HI. apply B in S.
    destruct (stk_step_in c s ev _ _ HI) as [Old|[[f [rest [-> [E P]]]]|[o [-> F]]]].
    + eapply Gb; eauto.
    + apply pushed_GItem in P. destruct P as [_ M].
      destruct (j_E g s J q' e' r M) as [X|X]; [congruence|].
      exfalso. assert (RL := j_RL g s J r G). rewrite Forall_forall in RL.
      apply RL in X. discriminate X.
    + destruct o; cbn in F; intuition discriminate.
  - intros NS HD.
    destruct (status (step c s ev) q' r) as [e|] eqn:S'; [|congruence].
    assert (S := B e eq_refl). clear B.
    destruct (stk_step_in c s ev _ _ HD) as [Old|[[f [rest [-> [E P]]]]|[o [-> F]]]].
    + apply Gd; [congruence|exact Old].
    + apply pushed_GDel in P. destruct P as [e0 [F L]].
      assert (HI : In (GItem q' e0 r) (stk s (Gc q'))) by (rewrite E, F; left; reflexivity).
      assert (e0 = e) by (eapply Gb; eauto). subst e0.
      assert (X := Ga e S). lia.
    + destruct o; cbn in F; intuition discriminate.
Qed.

(* events of other threads do not touch r's stack, r's association and, under
   the guard, r's statuses on the chain *)
Lemma other_view : forall s ev, Inv1 s -> guarded s -> ev <> EStep (Req r) ->
  (forall o, ev = ECall (Req r) o -> stk s (Req r) <> []) ->
  stk (step c s ev) (Req r) = stk s (Req r) /\ firstq (step c s ev) r = firstq s r /\
  forall q', anc c q q' -> status (step c s ev) q' r = status s q' r.
Proof.
  intros s ev I GU NE NC. destruct ev as [t o|t|x].
  - destruct (call_fields c s t o) as [_ [St [F [_ K]]]]. rewrite St, F.
    destruct (tid_eqb_spec t (Req r)) as [->|N].
    + specialize (NC o eq_refl). cbn [step]. destruct (stk s (Req r)) eqn:E; [congruence|]. rewrite ?E. auto.
    + rewrite K by congruence. auto.
  - assert (N : t <> Req r) by congruence.
    split; [|split; [apply firstq_other; assumption|]];
      cbn [step]; destruct (stk s t) as [|f rest] eqn:E; auto.
    + apply x_stk_other. congruence.
    + intros q' A. rewrite exec_status. destruct f; cbn [status_after]; try reflexivity.
      * destruct ((q' =? q0) && (r =? self t)) eqn:B; [|reflexivity]. exfalso.
        apply andb_prop in B. destruct B as [_ B]. apply Z.eqb_eq in B.
        destruct (top_req s t _ rest I E) as [r0 ->]; [left; reflexivity|]. cbn in B. congruence.
      * destruct ((q' =? q0) && (r =? self t)) eqn:B; [|reflexivity]. exfalso.
        apply andb_prop in B. destruct B as [_ B]. apply Z.eqb_eq in B.
        destruct (top_req s t _ rest I E) as [r1 ->]; [right; reflexivity|]. cbn in B. congruence.
      * destruct ((q' =? q0) && (r =? r0)) eqn:B; [|reflexivity].
        apply andb_prop in B. destruct B as [B1 B2]. apply Z.eqb_eq in B1. apply Z.eqb_eq in B2. subst q0 r0.
        destruct (top_gc s t _ rest I E) as [q1 [-> K]]; [exists q'; cbn; apply Z.eqb_refl|].
        cbn in K. apply Z.eqb_eq in K. subst q1.
        destruct (GU q' A) as [_ [_ Gd]].
        destruct (status s q' r) eqn:S; [|reflexivity]. exfalso.
        apply Gd; [congruence|]. rewrite E. left. reflexivity.
  - cbn. auto.
Qed.

Variable a0 : state.                       (* start of the solo run *)
Hypothesis A0 : stk a0 (Req r) = [FDec1 q].

Let solo (k : nat) := alone c a0 (Req r) k.

Lemma solo_stack : forall k, dec_stack (anc c q) (stk (solo k) (Req r)).
Proof.
  intros k. unfold solo.
  assert (D : dec_stack (anc c q) (stk a0 (Req r))) by (rewrite A0; apply held_closed_stack).
  destruct (dec_alone_outside c (anc c q) r (anc_closed c q) k a0 D) as [X _]. exact X.
Qed.

Lemma solo_S : forall k, solo (S k) = step c (solo k) (EStep (Req r)).
Proof.
  intros k. unfold solo. replace (S k) with (k + 1)%nat by lia. rewrite alone_add. reflexivity.
Qed.

Lemma solo_done : forall k, stk (solo k) (Req r) = [] ->
  forall q', held c a0 r q q' -> status (solo k) q' r = None.
Proof.
  intros k E q' H. destruct (dec_drain_prefix c WF q a0 [] r A0) as [n [_ [F1 [F2 _]]]].
  cbn zeta in *. unfold solo in *.
  rewrite (alone_done_unique c a0 (Req r) k n E F1). apply F2. exact H.
Qed.

(* the interleaved run is done with the prefix, or in step with the solo run *)
Definition synced (s : state) : Prop :=
  (forall q', held c a0 r q q' -> status s q' r = None) \/
  exists k, stk s (Req r) = stk (solo k) (Req r) /\
            forall q', anc c q q' -> status s q' r = status (solo k) q' r.

Lemma synced_step : forall g s ev, Inv1 s -> Inv2 g s -> g r = true -> guarded s ->
  synced s -> synced (step c s ev).
Proof.
  intros g s ev I J G GU [L|[k [K1 K2]]].
  { left. intros q' H. eapply status_none_step; eauto. }
  destruct (event_eq_step ev r) as [->|NE].
  - (* thread r steps *)
    cbn [step]. destruct (stk s (Req r)) as [|f rest] eqn:E; [right; exists k; rewrite E; auto|].
    right. exists (S k). rewrite solo_S.
    assert (Ea : stk (solo k) (Req r) = f :: rest) by (rewrite <- K1; reflexivity).
    cbn [step]. rewrite Ea.
    assert (D := solo_stack k). rewrite Ea in D.
    destruct (D f (or_introl eq_refl)) as [q0 [DQ Aq]].
    split.
    + rewrite !exec_stk. destruct (tid_eqb_spec (Req r) (Req r)); [|congruence].
      rewrite (pushed_dec_view c s (solo k) r f q0 DQ (K2 q0 Aq)). reflexivity.
    + intros q' A. rewrite !exec_status. apply status_after_view. apply K2. exact A.
  - destruct (stk s (Req r)) as [|f0 rest0] eqn:E.
    + (* r is idle: the solo run has ended, the prefix is free *)
      left. intros q' H. eapply status_none_step; eauto.
      rewrite (K2 q' (held_anc _ _ _ _ _ H)). apply solo_done; [|exact H].
      rewrite <- K1. reflexivity.
    + destruct (other_view s ev I GU NE) as [V1 [_ V3]].
      { intros o _. rewrite E. discriminate. }
      right. exists k. rewrite V1, E. split; [exact K1|].
      intros q' A. rewrite V3 by exact A. apply K2. exact A.
Qed.

Lemma sim_run : forall evs g s, Inv1 s -> Inv2 g s -> g r = true -> phased_from c g s evs ->
  now (run c s evs) <= T -> guarded s -> synced s -> synced (run c s evs).
Proof.
  induction evs as [|ev evs IH]; intros g s I J G P NT GU SY; cbn; [exact SY|].
  destruct P as [OK P].
  assert (N1 := now_step c s ev). assert (N2 := now_run c evs (step c s ev)).
  change (run c s (ev :: evs)) with (run c (step c s ev) evs) in NT.
  apply (IH (ghost' g s ev)).
  - apply Inv1_step; exact I.
  - apply Inv2_step; assumption.
  - apply ghost'_mono; exact G.
  - exact P.
  - exact NT.
  - eapply guarded_step; eauto. lia.
  - eapply synced_step; eauto.
Qed.

Lemma sim_end : forall s, synced s -> stk s (Req r) = [] ->
  forall q', held c a0 r q q' -> status s q' r = None.
Proof.
  intros s [L|[k [K1 K2]]] E q' H; [apply L; exact H|].
  rewrite (K2 q' (held_anc _ _ _ _ _ H)). apply solo_done; [|exact H]. rewrite <- K1. exact E.
Qed.

Lemma synced_start : synced a0.
Proof. right. exists 0%nat. split; reflexivity || (intros; reflexivity). Qed.
End Sim.

(* the guard holds when r holds unexpired statuses and is not yet deleting them *)
Lemma guarded_start : forall c g s q r T, Inv1 s -> Inv2 g s ->
  (forall q', ~ In (FDecDel q') (stk s (Req r))) -> now s <= T ->
  (forall q' e, anc c q q' -> status s q' r = Some e -> T < e) ->
  guarded c q r T s.
Proof.
  intros c g s q r T I J ND NT H q' A.
  assert (M : forall e, status s q' r = Some e -> In (e, r) (members s q')).
  { intros e S. destruct (i_A s I q' e r S) as [X|[X|X]]; [exact X| |exfalso; exact (ND q' X)].
    assert (Y := H q' e A S). lia. }
  split; [|split].
  - intros e S. eapply H; eauto.
  - intros e e' S HI. apply M in S.
    destruct (j_SN g s J q' e' r HI) as [X|[_ X]]; [|exfalso; exact (X e S)].
    eapply snd_unique; eauto. apply (j_H g s J).
  - intros NS HD. destruct (status s q' r) as [e|] eqn:S; [|congruence].
    destruct (j_G g s J q' r HD) as [X _]. exact (X e (M e eq_refl)).
Qed.

(* Dec, interleaved with anything: exactly the solo result on the held prefix *)
Lemma dec_interleaved_prefix : forall c t0 evs1 evs2 r q, wf c ->
  phased c t0 (evs1 ++ ECall (Req r) (ODec q) :: evs2) ->
  let s1 := run c (init t0) evs1 in
  let s2 := run c s1 (ECall (Req r) (ODec q) :: evs2) in
  stk s1 (Req r) = [] -> stk s2 (Req r) = [] ->
  (forall q' e, anc c q q' -> status s1 q' r = Some e -> now s2 < e) ->
  forall q', held c s1 r q q' ->
    status s2 q' r = None /\ forall e, ~ In (e, r) (members s2 q').
Proof.
  intros c t0 evs1 evs2 r q WF P s1 s2 E E2 HX q' HH.
  destruct (phased_prefix c t0 evs1 _ WF P) as [g1 [I1 [J1 P1]]]. fold s1 in I1, J1, P1.
  destruct P1 as [OK P2].
  set (s1' := step c s1 (ECall (Req r) (ODec q))) in *.
  set (g1' := ghost' g1 s1 (ECall (Req r) (ODec q))) in *.
  assert (G : g1' r = true) by (apply release_call_ghost; [assumption|reflexivity]).
  assert (I1' : Inv1 s1') by (apply Inv1_step; exact I1).
  assert (J1' : Inv2 g1' s1') by (apply Inv2_step; assumption).
  assert (A0 : stk s1' (Req r) = [FDec1 q]).
  { unfold s1'. cbn [step]. rewrite E. cbn [op_fits frames_of]. proj. apply updt_same. }
  destruct (call_fields c s1 (Req r) (ODec q)) as [_ [St [_ [Nw _]]]]. fold s1' in St, Nw.
  change (run c s1' evs2) with s2 in *.
  assert (NT : now s1' <= now s2) by (apply (now_run c evs2 s1')).
  assert (GU : guarded c q r (now s2) s1').
  { apply (guarded_start c g1' s1'); auto.
    - intros q0. rewrite A0. intros [X|[]]. discriminate.
    - intros q0 e A S. rewrite St in S. eapply HX; eauto. }
  assert (SY := sim_run c WF q r (now s2) s1' A0 evs2 g1' s1' I1' J1' G P2 (Z.le_refl _) GU
                  (synced_start c q r s1')).
  change (run c s1' evs2) with s2 in SY.
  assert (S2 : status s2 q' r = None).
  { apply (sim_end c WF q r s1' A0 s2 SY E2).
    eapply held_ext; [|exact HH]. intros. rewrite St. reflexivity. }
  split; [exact S2|].
  assert (J2 : Inv2 (ghosts c g1' s1' evs2) s2) by (apply Inv2_runs; assumption).
  eapply no_member_without_status; eauto.
Qed.

(* drop: until thread r executes FDrop nothing it holds changes; then as Dec *)
Lemma drop_phaseA : forall c, wf c -> forall q1 r T evs g s, Inv1 s -> Inv2 g s -> g r = true ->
  phased_from c g s evs -> now (run c s evs) <= T -> guarded c q1 r T s ->
  stk s (Req r) = [FDrop] -> firstq s r = Some q1 ->
  stk (run c s evs) (Req r) = [] ->
  forall q', held c s r q1 q' -> status (run c s evs) q' r = None.
Proof.
  intros c WF q1 r T. induction evs as [|ev evs IH]; intros g s I J G P NT GU E F E2 q' HH.
  { cbn in E2. rewrite E in E2. discriminate. }
  destruct P as [OK P].
  assert (N1 := now_step c s ev). assert (N2 := now_run c evs (step c s ev)).
  change (run c s (ev :: evs)) with (run c (step c s ev) evs) in *.
  assert (I' : Inv1 (step c s ev)) by (apply Inv1_step; exact I).
  assert (J' : Inv2 (ghost' g s ev) (step c s ev)) by (apply Inv2_step; assumption).
  assert (G' : ghost' g s ev r = true) by (apply ghost'_mono; exact G).
  assert (GU' : guarded c q1 r T (step c s ev)) by (eapply guarded_step; eauto; lia).
  destruct (event_eq_step ev r) as [->|NE].
  - (* FDrop executes: Dec of the first quota starts *)
    set (a0 := step c s (EStep (Req r))) in *.
    assert (X : stk a0 (Req r) = [FDec1 q1] /\ status a0 = status s).
    { unfold a0. cbn [step]. rewrite E. cbn [exec self]. rewrite F. proj. rewrite updt_same. auto. }
    destruct X as [A0 St].
    assert (SY := sim_run c WF q1 r T a0 A0 evs _ a0 I' J' G' P NT GU' (synced_start c q1 r a0)).
    apply (sim_end c WF q1 r a0 A0 _ SY E2).
    eapply held_ext; [|exact HH]. intros. rewrite St. reflexivity.
  - destruct (other_view c q1 r T s ev I GU NE) as [V1 [V2 V3]].
    { intros o _. rewrite E. discriminate. }
    apply (IH (ghost' g s ev) (step c s ev)); auto; try congruence.
    eapply held_ext; [|exact HH]. intros q0 A. apply V3. exact A.
Qed.

Lemma drop_interleaved_prefix : forall c t0 evs1 evs2 r q1, wf c ->
  phased c t0 (evs1 ++ ECall (Req r) ODrop :: evs2) ->
  let s1 := run c (init t0) evs1 in
  let s2 := run c s1 (ECall (Req r) ODrop :: evs2) in
  stk s1 (Req r) = [] -> firstq s1 r = Some q1 -> stk s2 (Req r) = [] ->
  (forall q' e, anc c q1 q' -> status s1 q' r = Some e -> now s2 < e) ->
  forall q', held c s1 r q1 q' ->
    status s2 q' r = None /\ forall e, ~ In (e, r) (members s2 q').
Proof.
  intros c t0 evs1 evs2 r q1 WF P s1 s2 E F E2 HX q' HH.
  destruct (phased_prefix c t0 evs1 _ WF P) as [g1 [I1 [J1 P1]]]. fold s1 in I1, J1, P1.
  destruct P1 as [OK P2].
  set (s1' := step c s1 (ECall (Req r) ODrop)) in *.
  set (g1' := ghost' g1 s1 (ECall (Req r) ODrop)) in *.
  assert (G : g1' r = true) by (apply release_call_ghost; [assumption|reflexivity]).
  assert (I1' : Inv1 s1') by (apply Inv1_step; exact I1).
  assert (J1' : Inv2 g1' s1') by (apply Inv2_step; assumption).
  assert (A0 : stk s1' (Req r) = [FDrop]).
  { unfold s1'. cbn [step]. rewrite E. cbn [op_fits frames_of]. proj. apply updt_same. }
  destruct (call_fields c s1 (Req r) ODrop) as [_ [St [Fq [Nw _]]]]. fold s1' in St, Fq, Nw.
  change (run c s1' evs2) with s2 in *.
  assert (NT : now s1' <= now s2) by (apply (now_run c evs2 s1')).
  assert (GU : guarded c q1 r (now s2) s1').
  { apply (guarded_start c g1' s1'); auto.
    - intros q0. rewrite A0. intros [X|[]]. discriminate.
    - intros q0 e A S. rewrite St in S. eapply HX; eauto. }
  assert (S2 : status s2 q' r = None).
  { apply (drop_phaseA c WF q1 r (now s2) evs2 g1' s1'); auto.
    - apply Z.le_refl.
    - rewrite Fq. exact F.
    - eapply held_ext; [|exact HH]. intros. rewrite St. reflexivity. }
  split; [exact S2|].
  assert (J2 : Inv2 (ghosts c g1' s1' evs2) s2) by (apply Inv2_runs; assumption).
  eapply no_member_without_status; eauto.
Qed.
