(* C02 — model of the concurrency quota
   (streams/resources/quota/concurrent_strategy.go, the set operations of
   streams/lunar-context/memory_state.go and reqIDToQuota / OnRequestDrop /
   OnResponseFinish of streams/resources/resource_management.go).

   Granularity.  The Go methods Inc / Allowed / Dec / checkForExpiredRequests
   are NOT under one mutex: each takes and releases cs.mutex and the
   memory-state mutex several times.  The model therefore is a small-step
   machine whose atomic step is ONE lock region of the Go code (a [frame]);
   every thread (one per transaction id, one GC goroutine per quota) owns a
   stack of pending frames, i.e. the continuation of the method it is
   executing.  A schedule is any list of [event]s:
     ECall t o   thread t (idle) starts operation o
     EStep t     thread t executes its next lock region
     ETick x     the clock is read as max(now, x)   (monotone by construction)
   Operations run to completion ([run_op]) are what the harness can drive
   deterministically on the real objects; the theorems are about all event
   lists.

   Per quota q:  members q : list (expiry, request)   -- the set, in slice order
                 status  q r = Some e                 -- allowedReq[r] = {reqAllowed, member e::r}
   global:       firstq r                             -- reqIDToQuota
   Time is Z nanoseconds; a member's expiry is  now + ttl + 10 ms. *)
From Coq Require Import List ZArith Bool.
Import ListNotations.
Open Scope Z_scope.

Definition delta : Z := 10000000.   (* timeDeltaForDeadRequestDecision *)

Record config := { cmax : Z -> Z; cttl : Z -> Z; cpar : Z -> option Z }.

Inductive tid := Req (r : Z) | Gc (q : Z).

Definition tid_eqb (a b : tid) : bool :=
  match a, b with
  | Req x, Req y => x =? y
  | Gc x, Gc y => x =? y
  | _, _ => false
  end.

(* One frame = one lock region of the Go code (the comment names it). *)
Inductive frame :=
| FIncCheck (q : Z)        (* Inc: checkReqStatus(id, reqNotFound)              (cs.mutex R) *)
| FGen (q : Z)             (* Inc: generateMember reads the clock                            *)
| FSAdd (q e : Z)          (* Inc: AtomicSAddWithMaxValuesAllowed        (memory-state mutex) *)
| FSet (q e : Z)           (* Inc: setReqStatus + member assignment       (cs.mutex W, twice) *)
| FACheck (q : Z)          (* Allowed: checkReqStatus(id, reqAllowed), then parent.Allowed    *)
| FGetQ (q : Z)            (* ResourceManagement.GetQuota(q, id): reqIDToQuota set-if-absent  *)
| FDec1 (q : Z)            (* Dec: allowedReq[id] lookup                           (cs.mutex) *)
| FDec2 (q e : Z)          (* Dec: checkReqStatus(id, reqAllowed)                (cs.mutex R) *)
| FDecRem (q e : Z)        (* Dec: SRem(member)                          (memory-state mutex) *)
| FDecDel (q : Z)          (* Dec: delete(allowedReq, id)                          (cs.mutex) *)
| FDrop                    (* OnRequestDrop: reqIDToQuota.Pop(id)                  (sync.Map) *)
| FFinish                  (* OnResponseFinish: reqIDToQuota.Pop(id)               (sync.Map) *)
| GSnap (q : Z)            (* GC: SMembers (a copy of the set)           (memory-state mutex) *)
| GItem (q e r : Z)        (* GC: clock read; if expired SRem(member)    (memory-state mutex) *)
| GDel (q r : Z).          (* GC: delete(allowedReq, member.ReqID)                 (cs.mutex) *)

Inductive op :=
| OGetQ (q : Z) | OInc (q : Z) | OAllowed (q : Z) | ODec (q : Z)
| ODrop | OFinish | OGc (q : Z).

Inductive event := ECall (t : tid) (o : op) | EStep (t : tid) | ETick (x : Z).

Record state := {
  now : Z;
  members : Z -> list (Z * Z);
  status : Z -> Z -> option Z;
  firstq : Z -> option Z;
  stk : tid -> list frame;
  verdict : Z -> option bool       (* result register of the last Allowed of a request *)
}.

Definition init (t0 : Z) : state :=
  {| now := t0; members := fun _ => []; status := fun _ _ => None;
     firstq := fun _ => None; stk := fun _ => []; verdict := fun _ => None |}.

(* ---- functional updates ---- *)
Definition upd {A} (f : Z -> A) (k : Z) (v : A) : Z -> A :=
  fun k' => if k' =? k then v else f k'.
Definition upd2 {A} (f : Z -> Z -> A) (k1 k2 : Z) (v : A) : Z -> Z -> A :=
  fun a b => if (a =? k1) && (b =? k2) then v else f a b.
Definition updt {A} (f : tid -> A) (k : tid) (v : A) : tid -> A :=
  fun k' => if tid_eqb k' k then v else f k'.

Definition set_now (s : state) (x : Z) : state :=
  {| now := x; members := members s; status := status s; firstq := firstq s;
     stk := stk s; verdict := verdict s |}.
Definition set_members (s : state) (q : Z) (l : list (Z * Z)) : state :=
  {| now := now s; members := upd (members s) q l; status := status s;
     firstq := firstq s; stk := stk s; verdict := verdict s |}.
Definition set_status (s : state) (q r : Z) (v : option Z) : state :=
  {| now := now s; members := members s; status := upd2 (status s) q r v;
     firstq := firstq s; stk := stk s; verdict := verdict s |}.
Definition set_firstq (s : state) (r : Z) (v : option Z) : state :=
  {| now := now s; members := members s; status := status s;
     firstq := upd (firstq s) r v; stk := stk s; verdict := verdict s |}.
Definition set_stk (s : state) (t : tid) (l : list frame) : state :=
  {| now := now s; members := members s; status := status s; firstq := firstq s;
     stk := updt (stk s) t l; verdict := verdict s |}.
Definition set_verdict (s : state) (r : Z) (v : option bool) : state :=
  {| now := now s; members := members s; status := status s; firstq := firstq s;
     stk := stk s; verdict := upd (verdict s) r v |}.

(* SRem: removes the first element equal to the given member *)
Definition mem_eqb (a b : Z * Z) : bool := (fst a =? fst b) && (snd a =? snd b).
Fixpoint remove_first (m : Z * Z) (l : list (Z * Z)) : list (Z * Z) :=
  match l with
  | [] => []
  | x :: t => if mem_eqb x m then t else x :: remove_first m t
  end.

Definition self (t : tid) : Z := match t with Req r => r | Gc _ => -1 end.

Definition par_inc (c : config) (q : Z) : list frame :=
  match cpar c q with Some p => [FIncCheck p] | None => [] end.
Definition par_dec (c : config) (q : Z) : list frame :=
  match cpar c q with Some p => [FDec1 p] | None => [] end.

(* Thread t executes frame f (the top of its stack); rest = the frames below. *)
Definition exec (c : config) (s : state) (t : tid) (f : frame) (rest : list frame) : state :=
  let r := self t in
  match f with
  | FIncCheck q =>
      match status s q r with
      | Some _ => set_stk s t rest                    (* already processed: Inc returns *)
      | None => set_stk s t (FGen q :: rest)
      end
  | FGen q => set_stk s t (FSAdd q (now s + cttl c q + delta) :: rest)
  | FSAdd q e =>
      if Z.of_nat (length (members s q)) <? cmax c q          (* !(len(set) >= max) *)
      then set_stk (set_members s q (members s q ++ [(e, r)])) t
                   (par_inc c q ++ FSet q e :: rest)
      else set_stk s t rest                            (* refused: nothing is recorded *)
  | FSet q e => set_stk (set_status s q r (Some e)) t rest
  | FACheck q =>
      match status s q r with
      | None => set_stk (set_verdict s r (Some false)) t rest
      | Some _ =>
          match cpar c q with
          | Some p => set_stk s t (FIncCheck p :: FACheck p :: rest)
          | None => set_stk (set_verdict s r (Some true)) t rest
          end
      end
  | FGetQ q =>
      match firstq s r with
      | Some _ => set_stk s t rest
      | None => set_stk (set_firstq s r (Some q)) t rest
      end
  | FDec1 q =>
      match status s q r with
      | None => set_stk s t rest                       (* not found: Dec returns *)
      | Some e => set_stk s t (FDec2 q e :: rest)
      end
  | FDec2 q e =>
      match status s q r with
      | Some _ => set_stk s t (FDecRem q e :: par_dec c q ++ FDecDel q :: rest)
      | None => set_stk s t (par_dec c q ++ FDecDel q :: rest)
      end
  | FDecRem q e => set_stk (set_members s q (remove_first (e, r) (members s q))) t rest
  | FDecDel q => set_stk (set_status s q r None) t rest
  | FDrop =>
      match firstq s r with
      | Some q => set_stk (set_firstq s r None) t (FDec1 q :: rest)
      | None => set_stk s t rest
      end
  | FFinish => set_stk (set_firstq s r None) t rest
  | GSnap q =>
      set_stk s t (map (fun m => GItem q (fst m) (snd m)) (members s q) ++ rest)
  | GItem q e r' =>
      if e <=? now s                                   (* Until(expiry) <= 0 *)
      then set_stk (set_members s q (remove_first (e, r') (members s q))) t
                   (GDel q r' :: rest)
      else set_stk s t rest
  | GDel q r' => set_stk (set_status s q r' None) t rest
  end.

Definition frames_of (o : op) : list frame :=
  match o with
  | OGetQ q => [FGetQ q]
  | OInc q => [FIncCheck q]
  | OAllowed q => [FIncCheck q; FACheck q]
  | ODec q => [FDec1 q]
  | ODrop => [FDrop]
  | OFinish => [FFinish]
  | OGc q => [GSnap q]
  end.

(* request threads run request operations, the GC thread of q runs GC ticks of q *)
Definition op_fits (t : tid) (o : op) : bool :=
  match t, o with
  | Req _, OGc _ => false
  | Req _, _ => true
  | Gc q, OGc q' => q =? q'
  | Gc _, _ => false
  end.

Definition step (c : config) (s : state) (ev : event) : state :=
  match ev with
  | ETick x => set_now s (Z.max (now s) x)
  | ECall t o =>
      match stk s t with
      | [] => if op_fits t o then set_stk s t (frames_of o) else s
      | _ :: _ => s                                     (* busy: a thread is sequential *)
      end
  | EStep t =>
      match stk s t with
      | [] => s
      | f :: rest => exec c s t f rest
      end
  end.

Definition run (c : config) (s : state) (evs : list event) : state :=
  fold_left (step c) evs s.

(* ---- operations run to completion (what the harness drives) ---- *)
Fixpoint steps (c : config) (n : nat) (t : tid) (s : state) : state :=
  match n with
  | O => s
  | S n' => match stk s t with
            | [] => s
            | _ :: _ => steps c n' t (step c s (EStep t))
            end
  end.

Definition run_op (c : config) (fuel : nat) (s : state) (t : tid) (o : op) : state :=
  steps c fuel t (step c s (ECall t o)).

(* ------------------------------------------------------------------ *)
(* Correspondence entry points.                                        *)

(* configuration as data: quota ids are 0,1,2,...; entry = (max, ttl ns, parent) *)
Definition qrow := (Z * Z * option Z)%type.

Fixpoint zth {A} (l : list A) (i : Z) (d : A) : A :=
  match l with
  | [] => d
  | x :: t => if i =? 0 then x else zth t (i - 1) d
  end.

Definition mkcfg (rows : list qrow) : config :=
  {| cmax := fun q => fst (fst (zth rows q (0, 0, None)));
     cttl := fun q => snd (fst (zth rows q (0, 0, None)));
     cpar := fun q => snd (zth rows q (0, 0, None)) |}.

Fixpoint zseq (start : Z) (n : nat) : list Z :=
  match n with O => [] | S n' => start :: zseq (start + 1) n' end.

Definition counts (rows : list qrow) (s : state) : list Z :=
  map (fun q => Z.of_nat (length (members s q))) (zseq 0 (length rows)).

Definition fuel0 : nat := 200.

(* the configurations-as-data the suites may use: an acyclic forest, every
   parent index below its child's (checked on every case; Phased.wfb_spec:
   wfb rows = true <-> Proofs.wf (mkcfg rows)) *)
Fixpoint wf_rows_from (i : Z) (rows : list qrow) : bool :=
  match rows with
  | [] => true
  | row :: t =>
      (match snd row with None => true | Some p => (0 <=? p) && (p <? i) end)
      && wf_rows_from (i + 1) t
  end.

Definition wfb (rows : list qrow) : bool := wf_rows_from 0 rows.

(* verdict code of a finished operation: 1 allowed, 0 refused, -1 no verdict,
   -99 the operation did not finish within the fuel (never equal to an
   observation, so it is always reported) *)
Definition vcode (s : state) (t : tid) (r : Z) : Z :=
  match stk s t with
  | _ :: _ => -99
  | [] => match verdict s r with Some true => 1 | Some false => 0 | None => -1 end
  end.

Definition clear_verdict (s : state) (r : Z) : state := set_verdict s r None.

(* --- suite "res": operations on the real quota objects / resource management --- *)
Inductive rstep := RTick (dt : Z) | ROp (r : Z) (o : op) | RGc (q : Z).

Definition do_rstep (c : config) (s : state) (x : rstep) : state * Z :=
  match x with
  | RTick dt => (step c s (ETick (now s + dt)), -1)
  | ROp r o =>
      let s' := run_op c fuel0 (clear_verdict s r) (Req r) o in (s', vcode s' (Req r) r)
  | RGc q =>
      let s' := run_op c fuel0 s (Gc q) (OGc q) in
      (s', match stk s' (Gc q) with [] => -1 | _ :: _ => -99 end)
  end.

Definition obs := (Z * list Z)%type.    (* verdict code, member count per quota *)

Fixpoint run_rsteps (rows : list qrow) (c : config) (s : state) (xs : list rstep) : list obs :=
  match xs with
  | [] => []
  | x :: rest =>
      let '(s', v) := do_rstep c s x in
      (v, counts rows s') :: run_rsteps rows c s' rest
  end.

Fixpoint zlist_eqb (a b : list Z) : bool :=
  match a, b with
  | [], [] => true
  | x :: a', y :: b' => (x =? y) && zlist_eqb a' b'
  | _, _ => false
  end.

Fixpoint obs_eqb (a b : list obs) : bool :=
  match a, b with
  | [], [] => true
  | (v, l) :: a', (w, m) :: b' => (v =? w) && zlist_eqb l m && obs_eqb a' b'
  | _, _ => false
  end.

Definition case_res := (list qrow * list (rstep * obs))%type.

(* SUPERSEDED as a suite entry point (audit 2): the harness declares
   Model2.run_res2h for suite "res"; [run_res] is evaluated by no suite any more
   and is kept because it is the right-hand side of the bridge
   C02_suite_res2_is_res (run_res2h k = run_res (erase_case_res k)) and the
   function the statements C02_suite_res_states_reachable / C02_bound_suite_res
   are about. *)
Definition run_res (k : case_res) : option (list obs) :=
  let '(rows, script) := k in
  let m := run_rsteps rows (mkcfg rows) (init 0) (map fst script) in
  if wfb rows && obs_eqb m (map snd script) then None else Some m.

(* --- suite "eng": transactions through the engine ---
   The quota-relevant processors the engine executed for an event are part of
   the case (which processors run is flow-graph semantics: C03/C04); the model
   says what each of them does to the quotas. *)
Inductive pev :=
| PInc (q : Z) (apply : bool)   (* <q>_QuotaProcessorInc; apply = should_apply_logic *)
| PLim (q : Z)                  (* Limiter on q: GetQuota; Inc; Allowed *)
| PGen                          (* GenerateResponse in the request direction: early return => OnRequestDrop *)
| PDec (q : Z)                  (* <q>_QuotaProcessorDec: GetQuota; Dec *)
| PFinish.                      (* end of executeRes: OnResponseFinish *)

Inductive eev :=
| EvTxn (r : Z) (trace : list pev)   (* one ExecuteFlow call (request or response) of transaction r *)
| EvErr (r : Z)                      (* Stream.OnError(r) *)
| EvAdv (dt : Z)                     (* clock advance, no GC wake-up inside *)
| EvGc (qs : list Z).                (* GC wake-up of these quotas at the current instant *)

Definition ops_of_pev (p : pev) : list op :=
  match p with
  | PInc q true => [OGetQ q; OInc q]
  | PInc q false => []
  | PLim q => [OGetQ q; OInc q; OAllowed q]
  | PGen => [ODrop]
  | PDec q => [OGetQ q; ODec q]
  | PFinish => [OFinish]
  end.

(* runs the operations; collects the verdict code of every Allowed *)
Fixpoint run_ops (c : config) (s : state) (r : Z) (os : list op) : state * list Z :=
  match os with
  | [] => (s, [])
  | o :: rest =>
      let s1 := run_op c fuel0 (clear_verdict s r) (Req r) o in
      let v := vcode s1 (Req r) r in
      let '(s2, vs) := run_ops c s1 r rest in
      (s2, match o with OAllowed _ => v :: vs | _ => if v =? -99 then v :: vs else vs end)
  end.

Definition do_eev (c : config) (s : state) (e : eev) : state * list Z :=
  match e with
  | EvTxn r trace => run_ops c s r (flat_map ops_of_pev trace)
  | EvErr r => run_ops c s r [ODrop]
  | EvAdv dt => (step c s (ETick (now s + dt)), [])
  | EvGc qs =>
      fold_left (fun (a : state * list Z) q =>
                   let s' := run_op c fuel0 (fst a) (Gc q) (OGc q) in
                   (s', match stk s' (Gc q) with [] => snd a | _ :: _ => -99 :: snd a end))
                qs (s, [])
  end.

Definition eobs := (list Z * list Z)%type.   (* Limiter verdicts of the event, counts after it *)

Fixpoint run_eevs (rows : list qrow) (c : config) (s : state) (es : list eev) : list eobs :=
  match es with
  | [] => []
  | e :: rest =>
      let '(s', vs) := do_eev c s e in
      (vs, counts rows s') :: run_eevs rows c s' rest
  end.

(* an empty observed count list = the counts were not observable at that
   point (clock moved and GC goroutines woke in the same call) *)
Fixpoint eobs_eqb (a b : list eobs) : bool :=
  match a, b with
  | [], [] => true
  | (v, l) :: a', (w, m) :: b' =>
      zlist_eqb v w && (match m with [] => true | _ :: _ => zlist_eqb l m end) && eobs_eqb a' b'
  | _, _ => false
  end.

Definition case_eng := (list qrow * list (eev * eobs))%type.

(* SUPERSEDED as a suite entry point (audit 2): the harness declares
   Model3.run_eng3h for suite "eng" (C02_suite_eng3_is_eng2, then
   C02_suite_eng2_ops / C02_suite_eng2_states_reachable tie it to [run_ops] /
   reachable states of this file); [run_eng] is evaluated by no suite any more
   and no theorem is stated about it; it is kept only as the record of the older
   suite ([run_eevs] / [do_eev] above it are still used: Phased.eevs_state,
   C02_suite_eng_states_reachable). *)
Definition run_eng (k : case_eng) : option (list eobs) :=
  let '(rows, script) := k in
  let m := run_eevs rows (mkcfg rows) (init 0) (map fst script) in
  if wfb rows && eobs_eqb m (map snd script) then None else Some m.
