(* C02 — lemmas (work in progress) *)
From Coq Require Import List ZArith Bool Lia.
From Verif Require Import C02.Model.
Import ListNotations.
Open Scope Z_scope.
