(* C02 — lemmas. *)
From Coq Require Import List ZArith Bool Lia.
From Verif Require Import C02.Model.
Import ListNotations.
Open Scope Z_scope.

(* ------------------------------------------------------------------ *)
(* basic facts                                                          *)

Lemma tid_eqb_spec : forall a b, reflect (a = b) (tid_eqb a b).
Proof.
  intros [x|x] [y|y]; cbn; try (constructor; congruence);
    destruct (Z.eqb_spec x y); constructor; congruence.
Qed.

Lemma mem_eqb_spec : forall a b, reflect (a = b) (mem_eqb a b).
Proof.
  intros [a1 a2] [b1 b2]; unfold mem_eqb; cbn.
  destruct (Z.eqb_spec a1 b1), (Z.eqb_spec a2 b2); cbn; constructor; congruence.
Qed.

Lemma in_remove_first : forall m x l, In x (remove_first m l) -> In x l.
Proof.
  induction l as [|y l IH]; cbn; [tauto|].
  destruct (mem_eqb_spec y m); cbn; intuition.
Qed.

Lemma in_remove_first_neq : forall m x l, In x l -> x <> m -> In x (remove_first m l).
Proof.
  induction l as [|y l IH]; cbn; [tauto|].
  intros H N. destruct (mem_eqb_spec y m) as [E|E]; cbn.
  - subst y. destruct H as [H|H]; [congruence|exact H].
  - destruct H as [H|H]; [left; exact H|right; apply IH; assumption].
Qed.

Lemma length_remove_first : forall m l,
  (length (remove_first m l) <= length l)%nat.
Proof.
  induction l as [|y l IH]; cbn; [lia|]. destruct (mem_eqb y m); cbn; lia.
Qed.

Lemma remove_first_notin : forall m l, ~ In m l -> remove_first m l = l.
Proof.
  induction l as [|y l IH]; cbn; [reflexivity|].
  intros N. destruct (mem_eqb_spec y m); [subst; tauto|]. f_equal. apply IH. tauto.
Qed.

Lemma frame_eq_dec : forall a b : frame, {a = b} + {a <> b}.
Proof. decide equality; apply Z.eq_dec. Qed.

(* ------------------------------------------------------------------ *)
(* frame kinds                                                          *)

Definition acqf (f : frame) : bool :=
  match f with
  | FIncCheck _ | FGen _ | FSAdd _ _ | FSet _ _ | FACheck _ | FGetQ _ => true
  | _ => false
  end.
Definition relf (f : frame) : bool :=
  match f with
  | FDec1 _ | FDec2 _ _ | FDecRem _ _ | FDecDel _ | FDrop | FFinish => true
  | _ => false
  end.
Definition gcf (q : Z) (f : frame) : bool :=
  match f with
  | GSnap q' | GItem q' _ _ | GDel q' _ => q' =? q
  | _ => false
  end.

(* every SRem frame of a Dec is followed, deeper in the stack, by the
   status deletion of the same quota *)
Fixpoint rem_ok (st : list frame) : Prop :=
  match st with
  | [] => True
  | FDecRem q _ :: rest => In (FDecDel q) rest /\ rem_ok rest
  | _ :: rest => rem_ok rest
  end.

Lemma rem_ok_app : forall a b, rem_ok b -> (forall f, In f a -> match f with FDecRem _ _ => False | _ => True end) ->
  rem_ok (a ++ b).
Proof.
  induction a as [|f a IH]; cbn; intros b Hb Ha; [exact Hb|].
  assert (Hf := Ha f (or_introl eq_refl)).
  assert (Ha' : forall g, In g a -> match g with FDecRem _ _ => False | _ => True end)
    by (intros g Hg; apply Ha; right; exact Hg).
  destruct f; cbn; try contradiction; apply IH; auto.
Qed.

Lemma rem_ok_tail : forall f st, rem_ok (f :: st) -> rem_ok st.
Proof. intros f st H. destruct f; cbn in H; tauto. Qed.

Definition wf (c : config) : Prop := forall q p, cpar c q = Some p -> 0 <= p < q.

Definition reachable (c : config) (t0 : Z) (s : state) : Prop :=
  exists evs, s = run c (init t0) evs.

Lemma run_app : forall c evs1 evs2 s, run c s (evs1 ++ evs2) = run c (run c s evs1) evs2.
Proof. intros. unfold run. apply fold_left_app. Qed.

Lemma reachable_ind : forall c t0 (P : state -> Prop),
  P (init t0) -> (forall s ev, P s -> P (step c s ev)) ->
  forall s, reachable c t0 s -> P s.
Proof.
  intros c t0 P H0 HS s [evs ->].
  induction evs as [|ev evs IH] using rev_ind; [exact H0|].
  rewrite run_app. cbn. apply HS. exact IH.
Qed.

(* ------------------------------------------------------------------ *)
(* simplification of state projections                                  *)

Ltac proj :=
  cbn [now members status firstq stk verdict set_now set_members set_status
       set_firstq set_stk set_verdict] in *.

Lemma updt_same : forall A (f : tid -> A) k v, updt f k v k = v.
Proof. intros. unfold updt. destruct (tid_eqb_spec k k); congruence. Qed.
Lemma updt_other : forall A (f : tid -> A) k v k', k' <> k -> updt f k v k' = f k'.
Proof. intros. unfold updt. destruct (tid_eqb_spec k' k); congruence. Qed.
Lemma upd_same : forall A (f : Z -> A) k v, upd f k v k = v.
Proof. intros. unfold upd. rewrite Z.eqb_refl. reflexivity. Qed.
Lemma upd_other : forall A (f : Z -> A) k v k', k' <> k -> upd f k v k' = f k'.
Proof. intros. unfold upd. destruct (Z.eqb_spec k' k); congruence. Qed.
Lemma upd2_same : forall A (f : Z -> Z -> A) a b v, upd2 f a b v a b = v.
Proof. intros. unfold upd2. rewrite !Z.eqb_refl. reflexivity. Qed.
Lemma upd2_other : forall A (f : Z -> Z -> A) a b v a' b', (a', b') <> (a, b) -> upd2 f a b v a' b' = f a' b'.
Proof.
  intros. unfold upd2. destruct (Z.eqb_spec a' a), (Z.eqb_spec b' b); cbn; congruence.
Qed.

(* the stack of the stepping thread after a step: new frames on top of [rest] *)
Definition pushed (c : config) (s : state) (t : tid) (f : frame) : list frame :=
  let r := self t in
  match f with
  | FIncCheck q => match status s q r with Some _ => [] | None => [FGen q] end
  | FGen q => [FSAdd q (now s + cttl c q + delta)]
  | FSAdd q e => if Z.of_nat (length (members s q)) <? cmax c q
                 then par_inc c q ++ [FSet q e] else []
  | FSet _ _ => []
  | FACheck q => match status s q r with
                 | None => []
                 | Some _ => match cpar c q with Some p => [FIncCheck p; FACheck p] | None => [] end
                 end
  | FGetQ _ => []
  | FDec1 q => match status s q r with None => [] | Some e => [FDec2 q e] end
  | FDec2 q e => match status s q r with
                 | Some _ => FDecRem q e :: par_dec c q ++ [FDecDel q]
                 | None => par_dec c q ++ [FDecDel q]
                 end
  | FDecRem _ _ => []
  | FDecDel _ => []
  | FDrop => match firstq s r with Some q => [FDec1 q] | None => [] end
  | FFinish => []
  | GSnap q => map (fun m => GItem q (fst m) (snd m)) (members s q)
  | GItem q e r' => if e <=? now s then [GDel q r'] else []
  | GDel _ _ => []
  end.

Lemma exec_stk_fun : forall c s t f rest,
  stk (exec c s t f rest) = updt (stk s) t (pushed c s t f ++ rest).
Proof.
  intros. unfold exec, pushed, par_inc, par_dec.
  destruct f; repeat match goal with
    | |- context [match ?x with _ => _ end] => destruct x
    end; proj; cbn [app]; rewrite <- ?app_assoc; reflexivity.
Qed.

Lemma exec_stk : forall c s t f rest t',
  stk (exec c s t f rest) t' = if tid_eqb t' t then pushed c s t f ++ rest else stk s t'.
Proof. intros. rewrite exec_stk_fun. reflexivity. Qed.

Lemma exec_now : forall c s t f rest, now (exec c s t f rest) = now s.
Proof.
  intros. unfold exec.
  destruct f; repeat match goal with
    | |- context [match ?x with _ => _ end] => destruct x
    end; reflexivity.
Qed.

(* effect of a step on the member lists *)
Definition members_after (c : config) (s : state) (t : tid) (f : frame) (q' : Z) : list (Z * Z) :=
  match f with
  | FSAdd q e =>
      if (q' =? q) && (Z.of_nat (length (members s q)) <? cmax c q)
      then members s q ++ [(e, self t)] else members s q'
  | FDecRem q e => if q' =? q then remove_first (e, self t) (members s q) else members s q'
  | GItem q e r' => if (q' =? q) && (e <=? now s) then remove_first (e, r') (members s q) else members s q'
  | _ => members s q'
  end.

Lemma exec_members : forall c s t f rest q',
  members (exec c s t f rest) q' = members_after c s t f q'.
Proof.
  intros. unfold exec, members_after.
  destruct f;
    try (repeat match goal with
         | |- context [match ?x with Some _ => _ | None => _ end] => destruct x
         end; reflexivity).
  - destruct (Z.of_nat (length (members s q)) <? cmax c q); proj; unfold upd;
      destruct (q' =? q); reflexivity.
  - destruct (e <=? now s); proj; unfold upd; destruct (q' =? q); reflexivity.
Qed.

(* effect of a step on the status maps *)
Definition status_after (s : state) (t : tid) (f : frame) (q' r' : Z) : option Z :=
  match f with
  | FSet q e => if (q' =? q) && (r' =? self t) then Some e else status s q' r'
  | FDecDel q => if (q' =? q) && (r' =? self t) then None else status s q' r'
  | GDel q r => if (q' =? q) && (r' =? r) then None else status s q' r'
  | _ => status s q' r'
  end.

Lemma exec_status : forall c s t f rest q' r',
  status (exec c s t f rest) q' r' = status_after s t f q' r'.
Proof.
  intros. unfold exec, status_after.
  destruct f;
    try (repeat match goal with
         | |- context [match ?x with Some _ => _ | None => _ end] => destruct x
         end; reflexivity).
  - destruct (Z.of_nat (length (members s q)) <? cmax c q); reflexivity.
  - destruct (e <=? now s); reflexivity.
Qed.

(* ------------------------------------------------------------------ *)
(* Invariant, part 1 (holds for every schedule and every program)       *)

Record Inv1 (s : state) : Prop := {
  i_hom : forall r, Forall (fun f => acqf f = true) (stk s (Req r)) \/
                    Forall (fun f => relf f = true) (stk s (Req r));
  i_gc : forall q, Forall (fun f => gcf q f = true) (stk s (Gc q));
  i_rem : forall r, rem_ok (stk s (Req r));
  i_B : forall q e r, In (FSet q e) (stk s (Req r)) -> In (e, r) (members s q) \/ e <= now s;
  i_A : forall q e r, status s q r = Some e ->
          In (e, r) (members s q) \/ e <= now s \/ In (FDecDel q) (stk s (Req r))
}.

Lemma Inv1_init : forall t0, Inv1 (init t0).
Proof.
  intros. constructor; cbn; intros; try (left; constructor); try constructor; try tauto; discriminate.
Qed.

Lemma pushed_kind_req : forall c s r f,
  (acqf f = true -> Forall (fun g => acqf g = true) (pushed c s (Req r) f)) /\
  (relf f = true -> Forall (fun g => relf g = true) (pushed c s (Req r) f)).
Proof.
  intros. unfold pushed, par_inc, par_dec.
  split; intros K; destruct f; try discriminate K;
    repeat match goal with
    | |- context [match ?x with _ => _ end] => destruct x
    end; cbn [app]; repeat constructor.
Qed.

Lemma pushed_kind_gc : forall c s q f,
  gcf q f = true -> Forall (fun g => gcf q g = true) (pushed c s (Gc q) f).
Proof.
  intros c s q f K. unfold pushed. destruct f; try discriminate K; cbn in K.
  - apply Z.eqb_eq in K. subst. apply Forall_forall. intros g Hg.
    apply in_map_iff in Hg. destruct Hg as [m [<- _]]. cbn. apply Z.eqb_refl.
  - destruct (e <=? now s); repeat constructor. exact K.
  - constructor.
Qed.

Lemma Forall_tail : forall A (P : A -> Prop) x l, Forall P (x :: l) -> Forall P l.
Proof. intros. inversion H; assumption. Qed.
Lemma Forall_head : forall A (P : A -> Prop) x l, Forall P (x :: l) -> P x.
Proof. intros. inversion H; assumption. Qed.

(* a request thread never holds GC frames and vice versa *)
Lemma req_top_kind : forall s r f rest, Inv1 s -> stk s (Req r) = f :: rest ->
  (acqf f = true /\ Forall (fun g => acqf g = true) rest) \/
  (relf f = true /\ Forall (fun g => relf g = true) rest).
Proof.
  intros s r f rest I E. destruct (i_hom s I r) as [H|H]; rewrite E in H; [left|right];
    inversion H; subst; split; assumption.
Qed.

(* inversion of membership in the pushed frames *)
Ltac inpush H :=
  repeat (first
    [ progress cbn [In app] in H
    | match type of H with context [match ?x with _ => _ end] => destruct x eqn:? end
    | match type of H with In _ (map _ _) =>
        apply in_map_iff in H; let m := fresh "m" in let H1 := fresh "Hm" in
        destruct H as [m [H H1]] end
    | match type of H with _ \/ _ => destruct H as [H|H] end
    | match type of H with False => contradiction end
    | match type of H with _ = _ => (discriminate H || (inversion H; subst; clear H)) end ]).

Lemma pushed_FSet : forall c s t f q e, In (FSet q e) (pushed c s t f) ->
  f = FSAdd q e /\ (Z.of_nat (length (members s q)) <? cmax c q) = true.
Proof.
  intros c s t f q e H. unfold pushed, par_inc, par_dec in H.
  destruct f; inpush H; auto.
Qed.

Lemma pushed_FDecDel : forall c s t f q, In (FDecDel q) (pushed c s t f) -> exists e, f = FDec2 q e.
Proof.
  intros c s t f q H. unfold pushed, par_inc, par_dec in H.
  destruct f; inpush H; eauto.
Qed.

(* what a step can do to a member *)
Lemma members_after_keep : forall c s t f q x, In x (members s q) ->
  In x (members_after c s t f q) \/
  (exists e, f = FDecRem q e /\ x = (e, self t)) \/
  (exists e r, f = GItem q e r /\ x = (e, r) /\ e <= now s).
Proof.
  intros c s t f q x H. destruct f; cbn [members_after]; auto.
  - destruct ((q =? q0) && (Z.of_nat (length (members s q0)) <? cmax c q0)) eqn:B; auto.
    apply andb_prop in B. destruct B as [B _]. apply Z.eqb_eq in B. subst.
    left. apply in_or_app. left. exact H.
  - destruct (Z.eqb_spec q q0); auto. subst.
    destruct (mem_eqb_spec x (e, self t)) as [X|X]; [right; left; eauto|].
    left. apply in_remove_first_neq; auto.
  - destruct ((q =? q0) && (e <=? now s)) eqn:B; auto.
    apply andb_prop in B. destruct B as [B1 B2]. apply Z.eqb_eq in B1. apply Z.leb_le in B2. subst.
    destruct (mem_eqb_spec x (e, r)) as [X|X]; [right; right; eauto|].
    left. apply in_remove_first_neq; auto.
Qed.

(* a GC thread never executes request frames and vice versa *)
Lemma gc_top : forall s q f rest, Inv1 s -> stk s (Gc q) = f :: rest -> gcf q f = true.
Proof.
  intros s q f rest I E. assert (G := i_gc s I q). rewrite E in G. inversion G; assumption.
Qed.

Lemma Inv1_step : forall c s ev, Inv1 s -> Inv1 (step c s ev).
Proof.
  intros c s ev I. destruct ev as [t o|t|x]; cbn [step].
  - (* ECall *)
    destruct (stk s t) eqn:E; [|exact I].
    destruct (op_fits t o) eqn:F; [|exact I].
    constructor; proj.
    + intros r. destruct (tid_eqb_spec (Req r) t) as [<-|N].
      * rewrite updt_same. destruct o; cbn in *; try discriminate;
          try (left; repeat constructor; fail); right; repeat constructor.
      * rewrite updt_other by congruence. apply (i_hom s I).
    + intros q. destruct (tid_eqb_spec (Gc q) t) as [<-|N].
      * rewrite updt_same. destruct o; cbn in *; try discriminate.
        repeat constructor. cbn. rewrite Z.eqb_sym. exact F.
      * rewrite updt_other by congruence. apply (i_gc s I).
    + intros r. destruct (tid_eqb_spec (Req r) t) as [<-|N].
      * rewrite updt_same. destruct o; cbn; tauto.
      * rewrite updt_other by congruence. apply (i_rem s I).
    + intros q e r H. destruct (tid_eqb_spec (Req r) t) as [<-|N].
      * rewrite updt_same in H. destruct o; cbn in H; intuition; discriminate.
      * rewrite updt_other in H by congruence. apply (i_B s I); assumption.
    + intros q e r H. destruct (i_A s I q e r H) as [A|[A|A]]; auto.
      destruct (tid_eqb_spec (Req r) t) as [<-|N].
      * rewrite E in A. contradiction.
      * rewrite updt_other by congruence. auto.
  - (* EStep *)
    destruct (stk s t) as [|f rest] eqn:E; [exact I|].
    constructor.
    + (* i_hom *)
      intros r. rewrite exec_stk. destruct (tid_eqb_spec (Req r) t) as [<-|N]; [|apply (i_hom s I)].
      destruct (req_top_kind s r f rest I E) as [[K R]|[K R]]; [left|right];
        apply Forall_app; split; auto; apply pushed_kind_req; assumption.
    + (* i_gc *)
      intros q. rewrite exec_stk. destruct (tid_eqb_spec (Gc q) t) as [<-|N]; [|apply (i_gc s I)].
      assert (G := i_gc s I q). rewrite E in G.
      inversion G; subst. apply Forall_app; split; [apply pushed_kind_gc; assumption|assumption].
    + (* i_rem *)
      intros r. rewrite exec_stk. destruct (tid_eqb_spec (Req r) t) as [<-|N]; [|apply (i_rem s I)].
      assert (R := i_rem s I r). rewrite E in R.
      assert (Rt := rem_ok_tail _ _ R).
      destruct f; cbn [pushed app]; try exact Rt;
        repeat match goal with
        | |- context [match ?x with _ => _ end] => destruct x
        end; cbn [app]; try exact Rt; unfold par_inc, par_dec;
        repeat match goal with
        | |- context [match ?x with _ => _ end] => destruct x
        end; cbn [app rem_ok In]; auto.
      apply rem_ok_app; [exact Rt|]. intros g Hg. apply in_map_iff in Hg.
      destruct Hg as [? [<- _]]. exact Logic.I.
    + (* i_B *)
      intros q e r H. rewrite exec_now, exec_members. rewrite exec_stk in H.
      destruct (tid_eqb_spec (Req r) t) as [<-|N].
      * (* the stepping thread *)
        apply in_app_or in H. destruct H as [H|H].
        -- (* FSet freshly pushed by FSAdd: the member was just added *)
           apply pushed_FSet in H. destruct H as [-> B]. left.
           cbn [members_after self]. rewrite Z.eqb_refl, B. cbn [andb].
           apply in_or_app. right. left. reflexivity.
        -- (* FSet deeper in the stack: the thread is acquiring, it removes nothing *)
           assert (Hin : In (FSet q e) (stk s (Req r))) by (rewrite E; right; exact H).
           destruct (i_B s I q e r Hin) as [A|A]; [|right; exact A].
           destruct (req_top_kind s r f rest I E) as [[K R]|[K R]].
           ++ destruct (members_after_keep c s (Req r) f q _ A) as [M|[[e' [-> _]]|[e' [r' [-> _]]]]];
                [left; exact M|discriminate K|discriminate K].
           ++ rewrite Forall_forall in R. apply R in H. discriminate H.
      * (* another thread steps *)
        destruct (i_B s I q e r H) as [A|A]; [|right; exact A].
        destruct (members_after_keep c s t f q _ A) as [M|[[e' [-> X]]|[e' [r' [-> [X L]]]]]].
        -- left; exact M.
        -- (* FDecRem by another thread removes another request's member *)
           inversion X; subst. destruct t as [r'|q']; cbn [self] in *; [congruence|].
           assert (G := gc_top s q' _ _ I E). discriminate G.
        -- inversion X; subst. right. exact L.
    + (* i_A *)
      intros q e r H. rewrite exec_now, exec_members, exec_stk. rewrite exec_status in H.
      destruct (tid_eqb_spec (Req r) t) as [<-|N].
      * (* the stepping thread *)
        destruct (frame_eq_dec f (FSet q e)) as [->|NS].
        -- (* status written now *)
           assert (Hin : In (FSet q e) (stk s (Req r))) by (rewrite E; left; reflexivity).
           destruct (i_B s I q e r Hin) as [A|A]; [left; exact A|right; left; exact A].
        -- assert (Hs : status s q r = Some e /\ f <> FDecDel q).
           { destruct f; cbn [status_after self] in H; try (split; [exact H|discriminate]).
             - destruct (Z.eqb_spec q q0); [subst|split; [exact H|discriminate]].
               rewrite Z.eqb_refl in H. cbn in H. inversion H; subst. congruence.
             - destruct (Z.eqb_spec q q0); [subst|split; [exact H|congruence]].
               rewrite Z.eqb_refl in H. cbn in H. discriminate H.
             - exfalso. destruct (req_top_kind s r _ rest I E) as [[K _]|[K _]]; discriminate K. }
           destruct Hs as [Hs ND].
           destruct (i_A s I q e r Hs) as [A|[A|A]]; [|right; left; exact A|].
           ++ destruct (members_after_keep c s (Req r) f q _ A) as [M|[[e' [-> X]]|[e' [r' [-> [X L]]]]]].
              ** left; exact M.
              ** (* own SRem: the status deletion is still pending below *)
                 right. right. cbn [pushed app].
                 assert (R := i_rem s I r). rewrite E in R. cbn in R. tauto.
              ** inversion X; subst. right. left. exact L.
           ++ right. right. rewrite E in A. destruct A as [A|A]; [congruence|].
              apply in_or_app. right. exact A.
      * (* another thread steps *)
        assert (Hs : status s q r = Some e).
        { destruct f; cbn [status_after] in H; auto.
          - destruct t as [r'|q']; cbn [self] in H.
            + destruct ((q =? q0) && (r =? r')) eqn:B; auto.
              apply andb_prop in B. destruct B as [_ B]. apply Z.eqb_eq in B. congruence.
            + assert (G := gc_top s q' _ _ I E). discriminate G.
          - destruct ((q =? q0) && (r =? self t)); [discriminate|exact H].
          - destruct ((q =? q0) && (r =? r0)); [discriminate|exact H]. }
        destruct (i_A s I q e r Hs) as [A|[A|A]]; [|right; left; exact A|right; right; exact A].
        destruct (members_after_keep c s t f q _ A) as [M|[[e' [-> X]]|[e' [r' [-> [X L]]]]]].
        -- left; exact M.
        -- inversion X; subst. destruct t as [r'|q']; cbn [self] in *; [congruence|].
           assert (G := gc_top s q' _ _ I E). discriminate G.
        -- inversion X; subst. right. left. exact L.
  - (* ETick *)
    constructor; proj; try apply I.
    + intros q e r H. destruct (i_B s I q e r H); [left; assumption|right; lia].
    + intros q e r H. destruct (i_A s I q e r H) as [A|[A|A]]; auto. right. left. lia.
Qed.

Lemma Inv1_reachable : forall c t0 s, reachable c t0 s -> Inv1 s.
Proof.
  intros c t0. apply reachable_ind; [apply Inv1_init|]. intros. apply Inv1_step. assumption.
Qed.

(* ------------------------------------------------------------------ *)
(* Bound                                                                *)

Lemma bound_step : forall c s ev q,
  Z.of_nat (length (members s q)) <= Z.max 0 (cmax c q) ->
  Z.of_nat (length (members (step c s ev) q)) <= Z.max 0 (cmax c q).
Proof.
  intros c s ev q H. destruct ev as [t o|t|x]; cbn [step].
  - destruct (stk s t); [destruct (op_fits t o)|]; exact H.
  - destruct (stk s t) as [|f rest]; [exact H|].
    rewrite exec_members. destruct f; cbn [members_after]; try exact H.
    + destruct (Z.eqb_spec q q0); cbn [andb]; [subst|exact H].
      destruct (Z.ltb_spec (Z.of_nat (length (members s q0))) (cmax c q0)); [|exact H].
      rewrite app_length. cbn [length]. lia.
    + destruct (Z.eqb_spec q q0); [subst|exact H].
      assert (L := length_remove_first (e, self t) (members s q0)). lia.
    + destruct ((q =? q0) && (e <=? now s)) eqn:B; [|exact H].
      apply andb_prop in B. destruct B as [B _]. apply Z.eqb_eq in B. subst.
      assert (L := length_remove_first (e, r) (members s q0)). lia.
  - exact H.
Qed.

Lemma bound_reachable : forall c t0 s, reachable c t0 s ->
  forall q, Z.of_nat (length (members s q)) <= Z.max 0 (cmax c q).
Proof.
  intros c t0 s R q. revert s R.
  apply (reachable_ind c t0 (fun s => Z.of_nat (length (members s q)) <= Z.max 0 (cmax c q))).
  - cbn. lia.
  - intros. apply bound_step. assumption.
Qed.

(* A request is in flight under q: it holds the status of an admitted slot of
   q whose expiry has not passed and whose release has not begun. *)
Definition inflight (s : state) (q r : Z) : Prop :=
  exists e, status s q r = Some e /\ now s < e /\ ~ In (FDecDel q) (stk s (Req r)).

Lemma inflight_member : forall s q r, Inv1 s -> inflight s q r -> In r (map snd (members s q)).
Proof.
  intros s q r I [e [Hs [Hn Hd]]].
  destruct (i_A s I q e r Hs) as [A|[A|A]]; [|lia|contradiction].
  apply in_map_iff. exists (e, r). split; [reflexivity|exact A].
Qed.

Lemma inflight_count : forall s q rs, Inv1 s -> NoDup rs ->
  (forall r, In r rs -> inflight s q r) ->
  (length rs <= length (members s q))%nat.
Proof.
  intros s q rs I ND H.
  rewrite <- (map_length snd (members s q)).
  apply NoDup_incl_length; [exact ND|].
  intros r Hr. apply inflight_member; auto.
Qed.

(* ------------------------------------------------------------------ *)
(* What one step can do to a member set                                 *)

Inductive member_change (c : config) (s : state) (ev : event) (q : Z) : list (Z * Z) -> Prop :=
| mc_same : member_change c s ev q (members s q)
| mc_add : forall r e rest,
    ev = EStep (Req r) -> stk s (Req r) = FSAdd q e :: rest ->
    Z.of_nat (length (members s q)) < cmax c q ->
    member_change c s ev q (members s q ++ [(e, r)])
| mc_own_release : forall r e rest,           (* Dec of the request itself: response or drop *)
    ev = EStep (Req r) -> stk s (Req r) = FDecRem q e :: rest ->
    member_change c s ev q (remove_first (e, r) (members s q))
| mc_expired : forall e r rest,               (* GC: only a member whose expiry has passed *)
    ev = EStep (Gc q) -> stk s (Gc q) = GItem q e r :: rest -> e <= now s ->
    member_change c s ev q (remove_first (e, r) (members s q)).

Lemma step_member_change : forall c s ev q, Inv1 s ->
  member_change c s ev q (members (step c s ev) q).
Proof.
  intros c s ev q I. destruct ev as [t o|t|x]; cbn [step].
  - destruct (stk s t); [destruct (op_fits t o)|]; proj; apply mc_same.
  - destruct (stk s t) as [|f rest] eqn:E; [apply mc_same|].
    rewrite exec_members.
    destruct t as [r|q0].
    + destruct (req_top_kind s r f rest I E) as [[K _]|[K _]];
        destruct f; try discriminate K; cbn [members_after self]; try apply mc_same.
      * destruct (Z.eqb_spec q q0); cbn [andb]; [subst|apply mc_same].
        destruct (Z.ltb_spec (Z.of_nat (length (members s q0))) (cmax c q0)); [|apply mc_same].
        eapply mc_add; eauto.
      * destruct (Z.eqb_spec q q0); [subst|apply mc_same].
        eapply mc_own_release; eauto.
    + assert (G := gc_top s q0 f rest I E).
      destruct f; try discriminate G; cbn [members_after]; try apply mc_same.
      cbn in G. apply Z.eqb_eq in G. subst q1.
      destruct (Z.eqb_spec q q0); cbn [andb]; [subst|apply mc_same].
      destruct (Z.leb_spec e (now s)); [|apply mc_same].
      eapply mc_expired; eauto.
  - proj. apply mc_same.
Qed.

(* a Dec of a request that holds no status in q does nothing at all *)
Lemma dec_without_status_noop : forall c s r q,
  stk s (Req r) = [] -> status s q r = None ->
  let s1 := step c s (ECall (Req r) (ODec q)) in
  let s2 := step c s1 (EStep (Req r)) in
  stk s2 (Req r) = [] /\ members s2 = members s /\ status s2 = status s /\ firstq s2 = firstq s.
Proof.
  intros c s r q E H. cbn [step]. rewrite E. cbn [op_fits frames_of]. proj.
  rewrite updt_same. cbn [exec self]. proj. rewrite H. proj.
  rewrite updt_same. auto.
Qed.
