(* C02 — the two hypotheses of the uniqueness / no-leak / interleaving
   theorems as boolean functions with their correctness lemmas:
     [wfb rows]        acyclic forest (parent index below the child's), for the
                       configurations-as-data of the suites ([mkcfg rows]);
     [phasedb]         phasedness of an event list (exact);
     [calls_phasedb]   a state-independent sufficient check that only looks at
                       the ORDER of the calls of each request: no Inc / Allowed
                       call after a Dec / drop / finish call.  It is the check
                       the harness performs on every engine trace.
   And the bridge for [clear_verdict]: the suites reset the verdict register
   between operations; that is not an event, but the states they go through
   differ from reachable states in the verdict register only. *)
From Coq Require Import List ZArith Bool Lia.
From Verif Require Import C02.Model C02.Proofs C02.Proofs2 C02.Proofs3 C02.Proofs4.
Import ListNotations.
Open Scope Z_scope.

(* ------------------------------------------------------------------ *)
(* acyclic forest                                                       *)

Lemma zth_neg : forall A (l : list A) i d, i < 0 -> zth l i d = d.
Proof.
  induction l as [|x l IH]; intros i d H; cbn; [reflexivity|].
  destruct (Z.eqb_spec i 0); [lia|]. apply IH. lia.
Qed.

Lemma wf_rows_sound : forall rows i q p, wf_rows_from i rows = true ->
  snd (zth rows q (0, 0, None)) = Some p -> 0 <= p < i + q.
Proof.
  induction rows as [|row t IH]; intros i q p H S; cbn in *; [discriminate|].
  apply andb_prop in H. destruct H as [H1 H2].
  destruct (Z.eqb_spec q 0) as [->|N].
  - rewrite S in H1. apply andb_prop in H1. destruct H1 as [A B].
    apply Z.leb_le in A. apply Z.ltb_lt in B. lia.
  - assert (X := IH (i + 1) (q - 1) p H2 S). lia.
Qed.

Lemma wf_rows_complete : forall rows i,
  (forall q p, snd (zth rows q (0, 0, None)) = Some p -> 0 <= p < i + q) ->
  wf_rows_from i rows = true.
Proof.
  induction rows as [|row t IH]; intros i H; cbn; [reflexivity|].
  apply andb_true_intro. split.
  - destruct (snd row) as [p|] eqn:S; [|reflexivity].
    assert (X := H 0 p). cbn in X. specialize (X S).
    apply andb_true_intro. split; [apply Z.leb_le|apply Z.ltb_lt]; lia.
  - apply IH. intros q p S. destruct (Z.lt_ge_cases q 0) as [L|L].
    + rewrite zth_neg in S by exact L. discriminate.
    + assert (X := H (q + 1) p). cbn in X.
      destruct (Z.eqb_spec (q + 1) 0); [lia|].
      replace (q + 1 - 1) with q in X by lia. specialize (X S). lia.
Qed.

Lemma wfb_spec : forall rows, wfb rows = true <-> wf (mkcfg rows).
Proof.
  intros rows. unfold wfb, wf, mkcfg. cbn [cpar]. split.
  - intros H q p S. assert (X := wf_rows_sound rows 0 q p H S). lia.
  - intros H. apply wf_rows_complete. intros q p S. specialize (H q p S). lia.
Qed.

(* ------------------------------------------------------------------ *)
(* phasedness, exactly                                                   *)

Definition ok_evb (g : Z -> bool) (ev : event) : bool :=
  match ev with
  | ECall (Req r) o => negb (is_acquire o) || negb (g r)
  | _ => true
  end.

Fixpoint phasedb_from (c : config) (g : Z -> bool) (s : state) (evs : list event) : bool :=
  match evs with
  | [] => true
  | ev :: rest => ok_evb g ev && phasedb_from c (ghost' g s ev) (step c s ev) rest
  end.

Definition phasedb (c : config) (t0 : Z) (evs : list event) : bool :=
  phasedb_from c (fun _ => false) (init t0) evs.

Lemma ok_evb_spec : forall g ev, ok_evb g ev = true <-> ok_ev g ev.
Proof.
  intros g [[r|q] o| |]; cbn; try tauto.
  destruct (is_acquire o), (g r); cbn; split; intros; try reflexivity; try discriminate; auto.
  specialize (H eq_refl). discriminate.
Qed.

Lemma phasedb_from_spec : forall c evs g s, phasedb_from c g s evs = true <-> phased_from c g s evs.
Proof.
  intros c. induction evs as [|ev evs IH]; intros g s; cbn; [tauto|].
  rewrite andb_true_iff, ok_evb_spec, IH. tauto.
Qed.

Lemma phasedb_spec : forall c t0 evs, phasedb c t0 evs = true <-> phased c t0 evs.
Proof. intros. apply phasedb_from_spec. Qed.

(* ------------------------------------------------------------------ *)
(* phasedness from the order of the calls alone                          *)

Fixpoint calls_phasedb (seen : Z -> bool) (evs : list event) : bool :=
  match evs with
  | [] => true
  | ECall (Req r) o :: rest =>
      (negb (is_acquire o) || negb (seen r)) &&
      calls_phasedb (if is_release o then upd seen r true else seen) rest
  | _ :: rest => calls_phasedb seen rest
  end.

Lemma calls_phased_from : forall c evs g s seen,
  (forall r, g r = true -> seen r = true) ->
  calls_phasedb seen evs = true -> phased_from c g s evs.
Proof.
  intros c. induction evs as [|ev evs IH]; intros g s seen Sub H; cbn; [exact I|].
  destruct ev as [[r|q] o|t|x]; cbn [calls_phasedb] in H.
  - apply andb_prop in H. destruct H as [H1 H2]. split.
    + cbn. intros A. rewrite A in H1. cbn in H1.
      destruct (g r) eqn:G; [|reflexivity]. rewrite (Sub r G) in H1. discriminate.
    + apply (IH _ _ (if is_release o then upd seen r true else seen)); [|exact H2].
      intros r0 G. cbn [ghost'] in G.
      destruct (stk s (Req r)).
      * destruct (is_release o); [|auto]. unfold upd in *. destruct (r0 =? r); auto.
      * destruct (is_release o); [|auto]. unfold upd. destruct (r0 =? r); auto.
  - split; [exact I|]. apply (IH _ _ seen); auto.
  - split; [exact I|]. apply (IH _ _ seen); auto.
  - split; [exact I|]. apply (IH _ _ seen); auto.
Qed.

Lemma calls_phased : forall c t0 evs, calls_phasedb (fun _ => false) evs = true -> phased c t0 evs.
Proof.
  intros c t0 evs H. apply (calls_phased_from c evs _ _ (fun _ => false)); [|exact H].
  intros r X. discriminate.
Qed.

(* ------------------------------------------------------------------ *)
(* the suites' states and reachable states                               *)

(* equal up to the verdict register *)
Definition sbv (s s' : state) : Prop :=
  now s = now s' /\ members s = members s' /\ status s = status s' /\
  firstq s = firstq s' /\ stk s = stk s'.

Lemma sbv_refl : forall s, sbv s s.
Proof. intros s. repeat split. Qed.

Lemma sbv_clear : forall s r, sbv (clear_verdict s r) s.
Proof. intros s r. repeat split. Qed.

Lemma sbv_trans : forall a b d, sbv a b -> sbv b d -> sbv a d.
Proof. unfold sbv. intros a b d [? [? [? [? ?]]]] [? [? [? [? ?]]]]. repeat split; congruence. Qed.

(* no lock region reads the verdict register *)
Lemma sbv_step : forall c s s' ev, sbv s s' -> sbv (step c s ev) (step c s' ev).
Proof.
  intros c [n m st fq sk v] [n' m' st' fq' sk' v'] ev [A [B [C [D E]]]]. cbn in A, B, C, D, E. subst.
  destruct ev as [t o|t|x]; cbn [step stk].
  - destruct (sk' t); [destruct (op_fits t o)|]; repeat split.
  - destruct (sk' t) as [|f rest]; [repeat split|].
    destruct f; cbn [exec now members status firstq stk self];
      repeat match goal with
      | |- context [match ?x with _ => _ end] => destruct x
      end; repeat split.
  - repeat split.
Qed.

Lemma sbv_run : forall c evs s s', sbv s s' -> sbv (run c s evs) (run c s' evs).
Proof.
  intros c. induction evs as [|ev evs IH]; intros s s' H; cbn; [exact H|].
  apply IH. apply sbv_step. exact H.
Qed.

(* one step of suite "res", as events *)
Definition rstep_events (s : state) (x : rstep) : list event :=
  match x with
  | RTick dt => [ETick (now s + dt)]
  | ROp r o => ECall (Req r) o :: repeat (EStep (Req r)) fuel0
  | RGc q => ECall (Gc q) (OGc q) :: repeat (EStep (Gc q)) fuel0
  end.

Lemma do_rstep_events : forall c s x, sbv (fst (do_rstep c s x)) (run c s (rstep_events s x)).
Proof.
  intros c s [dt|r o|q]; cbn [do_rstep fst rstep_events].
  - apply sbv_refl.
  - rewrite run_op_run. apply sbv_run. apply sbv_clear.
  - rewrite run_op_run. apply sbv_refl.
Qed.

Definition rsteps_state (c : config) (s : state) (xs : list rstep) : state :=
  fold_left (fun a x => fst (do_rstep c a x)) xs s.

(* every state suite "res" goes through is, up to the verdict register, a
   reachable state of the machine the theorems are about *)
Lemma rsteps_reachable : forall c t0 xs s s', sbv s s' -> reachable c t0 s' ->
  exists s2, sbv (rsteps_state c s xs) s2 /\ reachable c t0 s2.
Proof.
  intros c t0. induction xs as [|x xs IH]; intros s s' H R; cbn.
  - exists s'. auto.
  - apply (IH _ (run c s' (rstep_events s x))).
    + eapply sbv_trans; [apply do_rstep_events|]. apply sbv_run. exact H.
    + destruct R as [evs ->]. exists (evs ++ rstep_events s x). rewrite run_app. reflexivity.
Qed.

(* suite "eng": operations of one engine event *)
Lemma run_ops_events : forall c os s r, exists evs,
  sbv (fst (run_ops c s r os)) (run c s evs) /\
  evs = flat_map (fun o => ECall (Req r) o :: repeat (EStep (Req r)) fuel0) os.
Proof.
  intros c. induction os as [|o os IH]; intros s r; cbn [run_ops flat_map].
  - exists []. split; [apply sbv_refl|reflexivity].
  - destruct (IH (run_op c fuel0 (clear_verdict s r) (Req r) o) r) as [evs [H ->]].
    eexists. split; [|reflexivity].
    destruct (run_ops c (run_op c fuel0 (clear_verdict s r) (Req r) o) r os) as [s2 vs] eqn:X.
    cbn [fst] in *. rewrite run_app.
    eapply sbv_trans; [exact H|]. apply sbv_run. rewrite run_op_run. apply sbv_run. apply sbv_clear.
Qed.

Lemma do_eev_events : forall c s e, exists evs, sbv (fst (do_eev c s e)) (run c s evs).
Proof.
  intros c s [r trace|r|dt|qs]; cbn [do_eev].
  - destruct (run_ops_events c (flat_map ops_of_pev trace) s r) as [evs [H _]]. eauto.
  - destruct (run_ops_events c [ODrop] s r) as [evs [H _]]. eauto.
  - exists [ETick (now s + dt)]. apply sbv_refl.
  - cbn [fst].
    assert (G : forall qs a, exists evs,
      sbv (fst (fold_left (fun (a : state * list Z) q =>
                   let s' := run_op c fuel0 (fst a) (Gc q) (OGc q) in
                   (s', match stk s' (Gc q) with [] => snd a | _ :: _ => -99 :: snd a end)) qs a))
          (run c (fst a) evs)).
    { induction qs0 as [|q qs0 IH]; intros a; cbn [fold_left].
      - exists []. apply sbv_refl.
      - destruct (IH (run_op c fuel0 (fst a) (Gc q) (OGc q),
                     match stk (run_op c fuel0 (fst a) (Gc q) (OGc q)) (Gc q) with
                     | [] => snd a | _ :: _ => -99 :: snd a end)) as [evs H].
        cbn [fst] in H.
        exists ((ECall (Gc q) (OGc q) :: repeat (EStep (Gc q)) fuel0) ++ evs).
        rewrite run_app, <- run_op_run. exact H. }
    destruct (G qs (s, [])) as [evs H]. exists evs. exact H.
Qed.

Definition eevs_state (c : config) (s : state) (es : list eev) : state :=
  fold_left (fun a e => fst (do_eev c a e)) es s.

Lemma eevs_reachable : forall c t0 es s s', sbv s s' -> reachable c t0 s' ->
  exists s2, sbv (eevs_state c s es) s2 /\ reachable c t0 s2.
Proof.
  intros c t0. induction es as [|e es IH]; intros s s' H R; cbn.
  - exists s'. auto.
  - destruct (do_eev_events c s e) as [evs X].
    apply (IH _ (run c s' evs)).
    + eapply sbv_trans; [exact X|]. apply sbv_run. exact H.
    + destruct R as [evs0 ->]. exists (evs0 ++ evs). rewrite run_app. reflexivity.
Qed.

(* the observations of the suites are those of [rsteps_state] / [eevs_state] *)
Lemma run_rsteps_states : forall rows c xs s,
  map snd (run_rsteps rows c s xs) =
  map (fun k => counts rows (rsteps_state c s (firstn (S k) xs))) (seq 0 (length xs)).
Proof.
  intros rows c. induction xs as [|x xs IH]; intros s; [reflexivity|].
  cbn [run_rsteps length seq map]. destruct (do_rstep c s x) as [s1 v] eqn:X.
  cbn [map snd]. f_equal.
  - cbn. rewrite X. reflexivity.
  - rewrite IH. rewrite <- seq_shift, map_map. apply map_ext. intros k.
    cbn [firstn rsteps_state fold_left]. rewrite X. reflexivity.
Qed.
