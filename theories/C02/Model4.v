(* C02 — members as STRINGS: "<expiryUnixNano>::<request id>::<instance id>".

   Model.v keeps a member as the pair (expiry, request) and lets the GC item
   frame compare the expiry with the clock: it abstracts
   [generateMember] / [extractMemberFromItem] (concurrent_strategy.go) into a
   perfect pair of inverse functions.  This file removes that abstraction for
   the third component, the gateway INSTANCE id: it is whatever the
   cluster-liveness object returns — main.go registers
   NewLunarCluster(environment.GetGatewayInstanceID()), the raw
   GATEWAY_INSTANCE_ID variable: EMPTY for an engine started outside the stock
   container start-up, any operator-chosen byte string otherwise ("::" inside
   included); "unknown" when no liveness object is registered.

   Strings are lists of byte codes ([list Z], as Lib/GoSem.gostring).  Executable
   definitions only.

     render e rid inst        generateMember: fmt.Sprintf("%d::%s::%s", ...)
     splitk k cur s           strings.Split (k = None) / strings.SplitN(s, "::", n)
                              (k = Some (n-1) cuts left), separator "::"
     parse v item             extractMemberFromItem under variant v
     gc_item v now item       what one GC item does: true = SRem + delete
                              (validateMemberIntegrity; IsPartOfCluster is
                              constantly true in the free build and absent
                              without liveness)

   Variant switches:
     split_all     the parser cuts at EVERY "::" and demands exactly 3 parts
                   (strings.Split: /repo before fix F-C02c) instead of cutting
                   off the first two components (strings.SplitN(.., 3))
     reject_empty  seeded change C02-12: a member with an empty component is
                   "invalid format" (never collected)

   The decimal rendering / parsing of the expiry (fmt %d, strconv.ParseInt) is
   a parameter [dec] / [undec] of every definition ([dec_ok]); [dec10] /
   [undec10] below are the real ones (strconv.FormatInt / ParseInt base 10, 64
   bits), proved to meet it in Proofs10.v and compared with Go by suite [dec]. *)
From Coq Require Import List ZArith Bool Lia.
Import ListNotations.
Open Scope Z_scope.

Definition str := list Z.

Definition colon : Z := 58.
Definition sep : str := [58; 58].

(* no ':' anywhere (request ids: HAProxy's unique id; the digits of the expiry) *)
Definition cfree (s : str) : Prop := Forall (fun c => c <> 58) s.
Definition cfreeb (s : str) : bool := forallb (fun c => negb (c =? 58)) s.

Definition render (dec : Z -> str) (e : Z) (rid inst : str) : str :=
  dec e ++ sep ++ rid ++ sep ++ inst.

Definition less (k : option nat) : option nat :=
  match k with Some (S n) => Some n | _ => k end.

(* left-to-right, non-overlapping, as strings.Split / SplitN (genSplit) *)
Fixpoint splitk (k : option nat) (cur s : str) {struct s} : list str :=
  match s with
  | [] => [rev cur]
  | c :: t =>
    match k with
    | Some O => [rev cur ++ s]
    | _ =>
      match t with
      | d :: u =>
        if (c =? 58) && (d =? 58) then rev cur :: splitk (less k) [] u
        else splitk k (c :: cur) t
      | [] => [rev (c :: cur)]
      end
    end
  end.

Record variant4 := mkV4 { split_all : bool; reject_empty : bool }.
Definition head4 : variant4 := mkV4 false false.       (* the code with fix F-C02c *)
Definition unfixed4 : variant4 := mkV4 true false.     (* strings.Split, exactly 3 parts *)
Definition seeded12 : variant4 := mkV4 false true.     (* seeded C02-12 *)
Definition seeded12u : variant4 := mkV4 true true.     (* seeded C02-12 on the unfixed tree *)

Definition isnil (s : str) : bool := match s with [] => true | _ => false end.

Definition parse (undec : str -> option Z) (v : variant4) (item : str) : option (Z * str * str) :=
  match splitk (if split_all v then None else Some 2%nat) [] item with
  | [ex; rid; inst] =>
    if reject_empty v && (isnil ex || isnil rid || isnil inst) then None
    else match undec ex with
         | Some e => Some (e, rid, inst)
         | None => None
         end
  | _ => None
  end.

(* one item of a GC pass at clock reading [now]: collected iff it parses and
   its expiry has passed (Until(expiry) <= 0) *)
Definition gc_item (undec : str -> option Z) (v : variant4) (now : Z) (item : str) : bool :=
  match parse undec v item with
  | Some (e, _, _) => e <=? now
  | None => false
  end.

(* what is trusted about fmt "%d" / strconv.ParseInt *)
Definition dec_ok (dec : Z -> str) (undec : str -> option Z) : Prop :=
  (forall e, undec (dec e) = Some e) /\ (forall e, cfree (dec e)).

(* ---- the REAL decimal rendering (extension 3): executable, proved [dec_ok]
   in Proofs10.v, compared with Go's fmt %d / strconv by suite [dec] ---- *)

Definition int64 (e : Z) : Prop := -9223372036854775808 <= e <= 9223372036854775807.
Definition int64b (e : Z) : bool := (-9223372036854775808 <=? e) && (e <=? 9223372036854775807).

(* digits of n >= 0, most significant first, in front of [acc]; [fuel] bounds
   the number of digit positions (n < 2^fuel is enough: Proofs10.puint_udigits) *)
Fixpoint udigits (fuel : nat) (n : Z) (acc : str) : str :=
  match fuel with
  | O => acc
  | S f => if n <? 10 then (48 + n) :: acc else udigits f (n / 10) ((48 + n mod 10) :: acc)
  end.

(* fuel = number of BITS of n (64 at most for an int64; never a measure of the
   value itself) *)
Definition udec (n : Z) : str := udigits (S (Z.to_nat (Z.log2 n))) n [].

(* strconv.FormatInt(e, 10) = fmt.Sprintf("%d", e): '-' and the digits of |e| *)
Definition dec10 (e : Z) : str := if e <? 0 then 45 :: udec (- e) else udec e.

(* strconv.ParseInt(s, 10, 64) (lim = true) with the class of its error;
   lim = false: the same reading without any range check (ideal integers) *)
Inductive pres := POk (z : Z) | PSyntax | PRange.

Definition isdigit (c : Z) : bool := (48 <=? c) && (c <=? 57).
Definition maxu64 : Z := 18446744073709551615.
Definition cut63 : Z := 9223372036854775808.

(* ParseUint's loop: per byte, first the syntax check, then the overflow check
   (n >= cutoff || n*10 + d wraps or exceeds maxVal  <->  10*n + d > 2^64-1) *)
Fixpoint puint (lim : bool) (acc : Z) (s : str) : pres :=
  match s with
  | [] => POk acc
  | c :: t =>
    if isdigit c then
      if lim && (maxu64 <? 10 * acc + (c - 48)) then PRange
      else puint lim (10 * acc + (c - 48)) t
    else PSyntax
  end.

(* after the sign: ParseUint's empty check and loop, then ParseInt's cutoff *)
Definition pbody (lim neg : bool) (body : str) : pres :=
  match body with
  | [] => PSyntax
  | _ =>
    match puint lim 0 body with
    | POk un =>
      if lim && (if neg then cut63 <? un else cut63 <=? un) then PRange
      else POk (if neg then - un else un)
    | r => r
    end
  end.

Definition parse10 (lim : bool) (s : str) : pres :=
  match s with
  | [] => PSyntax
  | c :: t =>
    if c =? 45 then pbody lim true t
    else if c =? 43 then pbody lim false t
    else pbody lim false s
  end.

Definition undec10 (s : str) : option Z :=
  match parse10 true s with POk z => Some z | _ => None end.
Definition undecZ (s : str) : option Z :=
  match parse10 false s with POk z => Some z | _ => None end.

(* suite [dec]: Go's fmt.Sprintf("%d", e) (when the case carries an e) and
   strconv.ParseInt(s, 10, 64) (value or error class) against dec10 / parse10 *)
Fixpoint str_eqb (a b : str) : bool :=
  match a, b with
  | [], [] => true
  | x :: a', y :: b' => (x =? y) && str_eqb a' b'
  | _, _ => false
  end.
Definition pres_eqb (a b : pres) : bool :=
  match a, b with
  | POk x, POk y => x =? y
  | PSyntax, PSyntax => true
  | PRange, PRange => true
  | _, _ => false
  end.
Record case_dec := mkCD { cd_e : option Z; cd_s : str; cd_res : pres }.
Definition run_dec (k : case_dec) : option (option str * pres) :=
  let f := match cd_e k with Some e => Some (dec10 e) | None => None end in
  let r := parse10 true (cd_s k) in
  if match f with Some s => str_eqb s (cd_s k) | None => true end && pres_eqb r (cd_res k)
  then None else Some (f, r).

(* a (degenerate, one-code) rendering that satisfies [dec_ok] for every Z: the
   hypothesis is consistent *)
Definition dec1 (e : Z) : str := [if e <? 58 then e else e + 1].
Definition undec1 (s : str) : option Z :=
  match s with [c] => Some (if c <? 58 then c else c - 1) | _ => None end.

(* ---- suite [member] (extension 4): render / splitk / parse / gc_item
   evaluated on WHOLE member strings against the real generateMember /
   extractMemberFromItem / validateMemberIntegrity (driven through the shim
   quota/verif_c02b.go) ---- *)

(* timeDeltaForDeadRequestDecision (= Model.delta: Property4.C02_slack_is_delta) *)
Definition slack : Z := 10000000.

(* what extractMemberFromItem leaves in parsedMember.ExpiryTime:
   clock.Until(time.Unix(0, e)) — time.Time.Sub SATURATES at the ends of
   Duration — and then "if < 0 then 0" *)
Definition sat64 (d : Z) : Z :=
  Z.max (-9223372036854775808) (Z.min 9223372036854775807 d).
Definition remaining (now e : Z) : Z := Z.max 0 (sat64 (e - now)).

(* the observable reading of one item at clock [now]: (ExpiryTime, ReqID,
   InstanceID), None = extractMemberFromItem returned an error *)
Definition parsed_obs (now : Z) (item : str) : option (Z * str * str) :=
  match parse undec10 head4 item with
  | Some (e, rid, inst) => Some (remaining now e, rid, inst)
  | None => None
  end.

Definition parsed_eqb (a b : option (Z * str * str)) : bool :=
  match a, b with
  | None, None => true
  | Some (x, r, i), Some (y, r', i') => (x =? y) && str_eqb r r' && str_eqb i i'
  | _, _ => false
  end.

(* one case: [cm_gen] = Some (g, ttl): the code's generateMember, called with
   the clock at g, request expiry ttl, request id cm_rid under instance id
   cm_inst, wrote cm_item; None: cm_item is a string the harness made up.
   Then one GC item on cm_item at clock cm_now: cm_parsed = what
   extractMemberFromItem returned, cm_coll = the item was collected
   (validateMemberIntegrity took the SRem + delete branch; false also when the
   parser refused: the GC loop skips the item) *)
Record case_member := mkCM {
  cm_gen : option (Z * Z);
  cm_rid : str;
  cm_inst : str;
  cm_item : str;
  cm_now : Z;
  cm_parsed : option (Z * str * str);
  cm_coll : bool }.

Definition member_expiry (g ttl : Z) : Z := g + ttl + slack.

Definition run_member (k : case_member) : option (option str * option (Z * str * str) * bool) :=
  let w := match cm_gen k with
           | Some (g, ttl) => Some (render dec10 (member_expiry g ttl) (cm_rid k) (cm_inst k))
           | None => None
           end in
  let p := parsed_obs (cm_now k) (cm_item k) in
  let c := gc_item undec10 head4 (cm_now k) (cm_item k) in
  if match w with Some s => str_eqb s (cm_item k) | None => true end
     && parsed_eqb p (cm_parsed k) && Bool.eqb c (cm_coll k)
  then None else Some (w, p, c).
