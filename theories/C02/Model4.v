(* C02 — members as STRINGS: "<expiryUnixNano>::<request id>::<instance id>".

   Model.v keeps a member as the pair (expiry, request) and lets the GC item
   frame compare the expiry with the clock: it abstracts
   [generateMember] / [extractMemberFromItem] (concurrent_strategy.go) into a
   perfect pair of inverse functions.  This file removes that abstraction for
   the third component, the gateway INSTANCE id: it is whatever the
   cluster-liveness object returns — main.go registers
   NewLunarCluster(environment.GetGatewayInstanceID()), the raw
   GATEWAY_INSTANCE_ID variable: EMPTY for an engine started outside the stock
   container start-up, any operator-chosen byte string otherwise ("::" inside
   included); "unknown" when no liveness object is registered.

   Strings are lists of byte codes ([list Z], as Lib/GoSem.gostring).  Executable
   definitions only.

     render e rid inst        generateMember: fmt.Sprintf("%d::%s::%s", ...)
     splitk k cur s           strings.Split (k = None) / strings.SplitN(s, "::", n)
                              (k = Some (n-1) cuts left), separator "::"
     parse v item             extractMemberFromItem under variant v
     gc_item v now item       what one GC item does: true = SRem + delete
                              (validateMemberIntegrity; IsPartOfCluster is
                              constantly true in the free build and absent
                              without liveness)

   Variant switches:
     split_all     the parser cuts at EVERY "::" and demands exactly 3 parts
                   (strings.Split: /repo before fix F-C02c) instead of cutting
                   off the first two components (strings.SplitN(.., 3))
     reject_empty  seeded change C02-12: a member with an empty component is
                   "invalid format" (never collected)

   The decimal rendering / parsing of the expiry (fmt %d, strconv.ParseInt) is
   a parameter [dec] / [undec] of every definition (trusted: [dec_ok]);
   [dec10] / [undec10] are executable decimal versions used by the examples. *)
From Coq Require Import List ZArith Bool Lia.
Import ListNotations.
Open Scope Z_scope.

Definition str := list Z.

Definition colon : Z := 58.
Definition sep : str := [58; 58].

(* no ':' anywhere (request ids: HAProxy's unique id; the digits of the expiry) *)
Definition cfree (s : str) : Prop := Forall (fun c => c <> 58) s.
Definition cfreeb (s : str) : bool := forallb (fun c => negb (c =? 58)) s.

Definition render (dec : Z -> str) (e : Z) (rid inst : str) : str :=
  dec e ++ sep ++ rid ++ sep ++ inst.

Definition less (k : option nat) : option nat :=
  match k with Some (S n) => Some n | _ => k end.

(* left-to-right, non-overlapping, as strings.Split / SplitN (genSplit) *)
Fixpoint splitk (k : option nat) (cur s : str) {struct s} : list str :=
  match s with
  | [] => [rev cur]
  | c :: t =>
    match k with
    | Some O => [rev cur ++ s]
    | _ =>
      match t with
      | d :: u =>
        if (c =? 58) && (d =? 58) then rev cur :: splitk (less k) [] u
        else splitk k (c :: cur) t
      | [] => [rev (c :: cur)]
      end
    end
  end.

Record variant4 := mkV4 { split_all : bool; reject_empty : bool }.
Definition head4 : variant4 := mkV4 false false.       (* the code with fix F-C02c *)
Definition unfixed4 : variant4 := mkV4 true false.     (* strings.Split, exactly 3 parts *)
Definition seeded12 : variant4 := mkV4 false true.     (* seeded C02-12 *)
Definition seeded12u : variant4 := mkV4 true true.     (* seeded C02-12 on the unfixed tree *)

Definition isnil (s : str) : bool := match s with [] => true | _ => false end.

Definition parse (undec : str -> option Z) (v : variant4) (item : str) : option (Z * str * str) :=
  match splitk (if split_all v then None else Some 2%nat) [] item with
  | [ex; rid; inst] =>
    if reject_empty v && (isnil ex || isnil rid || isnil inst) then None
    else match undec ex with
         | Some e => Some (e, rid, inst)
         | None => None
         end
  | _ => None
  end.

(* one item of a GC pass at clock reading [now]: collected iff it parses and
   its expiry has passed (Until(expiry) <= 0) *)
Definition gc_item (undec : str -> option Z) (v : variant4) (now : Z) (item : str) : bool :=
  match parse undec v item with
  | Some (e, _, _) => e <=? now
  | None => false
  end.

(* what is trusted about fmt "%d" / strconv.ParseInt *)
Definition dec_ok (dec : Z -> str) (undec : str -> option Z) : Prop :=
  (forall e, undec (dec e) = Some e) /\ (forall e, cfree (dec e)).

(* executable decimal, for the examples (non-negative: UnixNano of the mock /
   real clock) *)
Fixpoint digits (fuel : nat) (n : Z) (acc : str) : str :=
  match fuel with
  | O => acc
  | S f => if n <? 10 then (48 + n) :: acc else digits f (n / 10) ((48 + n mod 10) :: acc)
  end.
Definition dec10 (e : Z) : str := digits 40 e [].
Definition undec10 (s : str) : option Z :=
  match s with
  | [] => None
  | _ => fold_left (fun a c => match a with
                               | Some x => if (48 <=? c) && (c <=? 57) then Some (10 * x + (c - 48)) else None
                               | None => None
                               end) s (Some 0)
  end.

(* a (degenerate, one-code) rendering that satisfies [dec_ok] for every Z: the
   hypothesis is consistent *)
Definition dec1 (e : Z) : str := [if e <? 58 then e else e + 1].
Definition undec1 (s : str) : option Z :=
  match s with [c] => Some (if c <? 58 then c else c - 1) | _ => None end.
