(* C02 — Concurrency quotas bound in-flight requests and always free their
   slots.  Final statements only; proofs are in Proofs.v ... Proofs6.v.

   Layout: bound; release exactly once; no leak; the ways a slot is given back
   by ONE thread running alone (whole chain held); examples; then
   (A) the same on a PARTIALLY held chain (maximal held prefix), with step
       bounds, (B) the fuel bridge to [run_op] (what the suites evaluate),
   (C) release under EVERY interleaving of a phased schedule, (D) GC pass
   under every interleaving and the history-level "never stays exhausted",
   (E) why [phased] is needed (refutation) and what an orphan status is,
   (F) the hypotheses as boolean checks ([wfb], [phasedb], [calls_phasedb]),
       the suites' states are reachable states up to the verdict register,
       and the window of the merged setReqStatus frame,
   (G) STREAMS: a transaction's calls carry a sequence id next to the
       transaction id (Model2.v) — under the code as it is ([head]) the sequence
       id is irrelevant, so everything above holds for all schedules of
       streams; the bound and the release stated over transactions, refuted
       for the variant that keys slots by the sequence id (seeded C02-7),
   (H) the ends of a transaction the ENGINE itself produces (response
       processed, answered early): every quota whose QuotaProcessorDec the
       walk runs is released, whichever quota the transaction met first;
       refuted for the variant whose Dec processor skips the walk that
       follows an early answer (seeded C02-8).

   Schedules are arbitrary lists of events of the small-step machine of
   Model.v: any transaction thread or GC thread executes its next lock region
   ([EStep]), an idle thread starts any operation ([ECall]), the clock moves
   forward ([ETick], monotone by construction).  [reachable c t0 s] = s is the
   state after some event list from the empty state at instant t0. *)
From Coq Require Import List ZArith Bool Lia.
From Verif Require Import C02.Model C02.Proofs C02.Proofs2 C02.Proofs3 C02.Proofs4 C02.Proofs5 C02.Proofs6 C02.Phased C02.Model2 C02.Proofs7 C02.Proofs9.
Import ListNotations.
Open Scope Z_scope.

(* ---- bound ---------------------------------------------------------- *)

(* After every schedule the member set of every quota has at most max
   elements, and the requests in flight under the quota (status of an admitted
   slot held, expiry not passed, release not begun: [inflight]) are pairwise
   different members of that set — so at every instant at most max
   transactions are in flight.  No hypothesis on the configuration or on what
   the transactions do. *)
Theorem C02_bound : forall c t0 s, reachable c t0 s -> forall q,
  Z.of_nat (length (members s q)) <= Z.max 0 (cmax c q) /\
  forall rs, NoDup rs -> (forall r, In r rs -> inflight s q r) ->
    (forall r, In r rs -> In r (map snd (members s q))) /\
    Z.of_nat (length rs) <= Z.max 0 (cmax c q).
Proof.
  intros c t0 s R q. assert (B := bound_reachable c t0 s R q). split; [exact B|].
  intros rs ND H. assert (I := Inv1_reachable c t0 s R). split.
  - intros r Hr. apply inflight_member; auto.
  - assert (L := inflight_count s q rs I ND H). lia.
Qed.
Print Assumptions C02_bound.

(* An admitted request whose Allowed verdict is being produced holds the
   status of the quota: the verdict "allowed" is only ever written by the
   status check of a root quota, and the check of a child passes control to
   its parent only when the child's status is held. *)
Theorem C02_admitted_holds_status : forall c s r q rest,
  stk s (Req r) = FACheck q :: rest ->
  let s' := step c s (EStep (Req r)) in
  (status s q r = None -> verdict s' r = Some false /\ stk s' (Req r) = rest) /\
  (status s q r <> None -> cpar c q = None -> verdict s' r = Some true /\ stk s' (Req r) = rest) /\
  (status s q r <> None -> forall p, cpar c q = Some p ->
     verdict s' r = verdict s r /\ stk s' (Req r) = FIncCheck p :: FACheck p :: rest).
Proof.
  intros c s r q rest E. cbn [step]. rewrite E. cbn [exec self].
  destruct (status s q r) eqn:S; repeat split; try congruence; intros;
    cbn [verdict stk set_stk set_verdict]; rewrite ?updt_same, ?upd_same; try reflexivity.
  - rewrite H0. cbn [verdict stk set_stk set_verdict]. rewrite upd_same. reflexivity.
  - rewrite H0. cbn [verdict stk set_stk set_verdict]. rewrite updt_same. reflexivity.
  - rewrite H0. reflexivity.
  - rewrite H0. cbn [verdict stk set_stk set_verdict]. rewrite updt_same. reflexivity.
Qed.
Print Assumptions C02_admitted_holds_status.

(* ---- release exactly once ------------------------------------------- *)

(* One event changes the member set of a quota in at most one way:
   nothing; one member appended by the stepping request while there is room;
   one occurrence removed that is the stepping request's OWN member (its Dec:
   response flow or drop); one occurrence removed by the GC of that quota whose
   expiry has passed ([e <= now]).  Nobody else's unexpired member is ever
   removed. *)
Theorem C02_release_once_step : forall c t0 s ev q, reachable c t0 s ->
  member_change c s ev q (members (step c s ev) q).
Proof.
  intros c t0 s ev q R. apply step_member_change. eapply Inv1_reachable; eauto.
Qed.
Print Assumptions C02_release_once_step.

(* A Dec of a request that holds no status in the quota (it was refused, or it
   released or lost the slot before) changes nothing: no count goes down a
   second time. *)
Theorem C02_second_dec_noop : forall c s r q,
  stk s (Req r) = [] -> status s q r = None ->
  let s1 := step c s (ECall (Req r) (ODec q)) in
  let s2 := step c s1 (EStep (Req r)) in
  stk s2 (Req r) = [] /\ members s2 = members s /\ status s2 = status s /\ firstq s2 = firstq s.
Proof. exact dec_without_status_noop. Qed.
Print Assumptions C02_second_dec_noop.

(* For every phased schedule (no transaction is asked to Inc/Allowed after it
   was asked to Dec/drop/finish) on an acyclic configuration: a request has at
   most one member per quota, so the one removal of C02_release_once_step is
   the only one there can be; and every member belongs to a request that
   holds its status or is just recording it. *)
Theorem C02_release_once : forall c t0 evs, wf c -> phased c t0 evs ->
  let s := run c (init t0) evs in
  forall q,
    NoDup (map snd (members s q)) /\
    forall e r, In (e, r) (members s q) ->
      status s q r = Some e \/ In (FSet q e) (stk s (Req r)).
Proof.
  intros c t0 evs WF P s q. destruct (Inv2_reachable c t0 evs WF P) as [g J].
  split; [apply (j_H g _ J)|apply (j_E g _ J)].
Qed.
Print Assumptions C02_release_once.

(* ---- no leak --------------------------------------------------------- *)

(* If, after a phased schedule, no request holds or is recording a status of
   quota q — every transaction that was admitted has ended: its Dec ran
   (response end flow or drop of its first chain), or the GC deleted its
   status after its expiry — then the member set of q is empty. *)
Theorem C02_no_leak : forall c t0 evs, wf c -> phased c t0 evs ->
  let s := run c (init t0) evs in
  forall q,
    (forall r, status s q r = None) ->
    (forall r e, ~ In (FSet q e) (stk s (Req r))) ->
    members s q = [].
Proof.
  intros c t0 evs WF P s q H1 H2. destruct (Inv2_reachable c t0 evs WF P) as [g J].
  destruct (members s q) as [|[e r] l] eqn:M; [reflexivity|]. exfalso.
  destruct (j_E g _ J q e r) as [A|A].
  - fold s. rewrite M. left. reflexivity.
  - fold s in A. rewrite H1 in A. discriminate.
  - exact (H2 r e A).
Qed.
Print Assumptions C02_no_leak.

(* Then a fresh probe is admitted: if no request holds or is recording a
   status on any quota of the chain of q and every max on the chain is
   positive, an idle request p without status that runs Allowed(q) (alone, to
   completion) gets the verdict "allowed". *)
Theorem C02_no_leak_probe : forall c t0 evs, wf c -> phased c t0 evs ->
  let s := run c (init t0) evs in
  forall q p,
    stk s (Req p) = [] ->
    (forall q', anc c q q' ->
       0 < cmax c q' /\ (forall r, status s q' r = None) /\
       (forall r e, ~ In (FSet q' e) (stk s (Req r)))) ->
    exists n,
      let s' := run c s (ECall (Req p) (OAllowed q) :: repeat (EStep (Req p)) n) in
      stk s' (Req p) = [] /\ verdict s' p = Some true.
Proof.
  intros c t0 evs WF P s q p E H. apply probe_admitted; [exact WF|exact E|].
  intros q' A. destruct (H q' A) as [Mx [H1 H2]]. split; [apply H1|].
  assert (X := C02_no_leak c t0 evs WF P q' H1 H2). cbn zeta in X. fold s in X.
  rewrite X. cbn. exact Mx.
Qed.
Print Assumptions C02_no_leak_probe.

(* The same without any history: whenever there is room on the whole chain, a
   request without status is admitted (no spurious refusal). *)
Theorem C02_room_admits : forall c, wf c -> forall s p q,
  stk s (Req p) = [] ->
  (forall q', anc c q q' ->
     status s q' p = None /\ Z.of_nat (length (members s q')) < cmax c q') ->
  exists n,
    let s' := run c s (ECall (Req p) (OAllowed q) :: repeat (EStep (Req p)) n) in
    stk s' (Req p) = [] /\ verdict s' p = Some true.
Proof. exact probe_admitted. Qed.
Print Assumptions C02_room_admits.

(* ---- the ways a slot is given back ----------------------------------- *)

(* Response: the Dec of a quota (QuotaProcessorDec of the end flow), run to
   completion by a request that holds the status of the whole chain, removes
   exactly its own member from every quota of the chain, deletes its statuses
   there, and changes no other quota and no other request's status. *)
Theorem C02_dec_releases_chain : forall c, wf c -> forall s r q,
  stk s (Req r) = [] ->
  (forall q', anc c q q' -> status s q' r <> None) ->
  exists n,
    let s' := run c s (ECall (Req r) (ODec q) :: repeat (EStep (Req r)) n) in
    stk s' (Req r) = [] /\
    (forall q', anc c q q' ->
       status s' q' r = None /\
       exists e, status s q' r = Some e /\ members s' q' = remove_first (e, r) (members s q')) /\
    (forall q', ~ anc c q q' -> members s' q' = members s q') /\
    (forall q' r', ~ anc c q q' \/ r' <> r -> status s' q' r' = status s q' r').
Proof.
  intros c WF s r q E H.
  set (s0 := step c s (ECall (Req r) (ODec q))).
  assert (E0 : stk s0 (Req r) = [FDec1 q]).
  { unfold s0. cbn [step]. rewrite E. cbn [op_fits frames_of stk set_stk]. apply updt_same. }
  assert (X0 : members s0 = members s /\ status s0 = status s).
  { unfold s0. cbn [step]. rewrite E. cbn [op_fits]. split; reflexivity. }
  destruct X0 as [M0 St0].
  destruct (dec_drain c WF q s0 [] r E0) as [n F]; [rewrite St0; exact H|].
  exists n. cbn zeta in *. rewrite alone_call. fold s0. rewrite M0, St0 in F. exact F.
Qed.
Print Assumptions C02_dec_releases_chain.

(* Early answer / proxy error: OnRequestDrop releases the chain of the FIRST
   quota the transaction was associated with (reqIDToQuota) ... *)
Theorem C02_drop_releases_first_chain : forall c, wf c -> forall s r q1,
  stk s (Req r) = [] -> firstq s r = Some q1 ->
  (forall q', anc c q1 q' -> status s q' r <> None) ->
  exists n,
    let s' := run c s (ECall (Req r) ODrop :: repeat (EStep (Req r)) n) in
    stk s' (Req r) = [] /\ firstq s' r = None /\
    (forall q', anc c q1 q' ->
       status s' q' r = None /\
       exists e, status s q' r = Some e /\ members s' q' = remove_first (e, r) (members s q')).
Proof.
  intros c WF s r q1 E F H.
  set (s0 := step c s (ECall (Req r) ODrop)).
  assert (E0 : stk s0 (Req r) = [FDrop]).
  { unfold s0. cbn [step]. rewrite E. cbn [op_fits frames_of stk set_stk]. apply updt_same. }
  assert (X0 : members s0 = members s /\ status s0 = status s /\ firstq s0 = firstq s).
  { unfold s0. cbn [step]. rewrite E. cbn [op_fits]. auto. }
  destruct X0 as [M0 [St0 F0]].
  set (s1 := exec c s0 (Req r) FDrop []).
  assert (E1 : stk s1 (Req r) = [FDec1 q1]).
  { unfold s1. cbn [exec self]. rewrite F0, F. cbn [stk set_stk]. apply updt_same. }
  assert (X1 : members s1 = members s /\ status s1 = status s /\ firstq s1 r = None).
  { unfold s1. cbn [exec self]. rewrite F0, F. cbn [members status firstq set_stk set_firstq].
    rewrite upd_same. auto. }
  destruct X1 as [M1 [St1 F1]].
  destruct (dec_drain c WF q1 s1 [] r E1) as [n [G1 [G2 [G3 G4]]]]; [rewrite St1; exact H|].
  cbn zeta in *. exists (1 + n)%nat. rewrite alone_call. fold s0. rewrite alone_add.
  assert (A1 : alone c s0 (Req r) 1 = s1) by (rewrite (alone_top c s0 _ _ _ _ E0); reflexivity).
  rewrite A1. split; [exact G1|]. split.
  - assert (D : dec_stack (anc c q1) (stk s1 (Req r))).
    { rewrite E1. intros f [<-|[]]. exists q1. split; [reflexivity|apply anc_refl]. }
    destruct (dec_alone_outside c (anc c q1) r (anc_closed c q1) n s1 D) as [_ [_ [_ [FF _]]]].
    cbn zeta in FF. rewrite FF. exact F1.
  - intros q' A. rewrite M1, St1 in G2. apply G2. exact A.
Qed.
Print Assumptions C02_drop_releases_first_chain.

(* ... and ONLY that chain: whatever the request holds, however long it runs,
   a drop changes no member set and no status of a quota outside the chain of
   the first-touched quota.  A slot the request holds in a second, unrelated
   quota stays where it is ... *)
Theorem C02_drop_only_first_chain : forall c s r q1 n,
  stk s (Req r) = [] -> firstq s r = Some q1 ->
  let s' := run c s (ECall (Req r) ODrop :: repeat (EStep (Req r)) n) in
  forall q2, ~ anc c q1 q2 ->
    members s' q2 = members s q2 /\ forall r', status s' q2 r' = status s q2 r'.
Proof.
  intros c s r q1 n E F. cbn zeta. rewrite alone_call.
  set (s0 := step c s (ECall (Req r) ODrop)).
  assert (E0 : stk s0 (Req r) = [FDrop]).
  { unfold s0. cbn [step]. rewrite E. cbn [op_fits frames_of stk set_stk]. apply updt_same. }
  assert (X0 : members s0 = members s /\ status s0 = status s /\ firstq s0 = firstq s).
  { unfold s0. cbn [step]. rewrite E. cbn [op_fits]. auto. }
  destruct X0 as [M0 [St0 F0]].
  destruct n as [|n]; [rewrite alone_0, M0, St0; auto|].
  rewrite (alone_top c s0 _ _ _ _ E0).
  set (s1 := exec c s0 (Req r) FDrop []).
  assert (E1 : stk s1 (Req r) = [FDec1 q1]).
  { unfold s1. cbn [exec self]. rewrite F0, F. cbn [stk set_stk]. apply updt_same. }
  assert (X1 : members s1 = members s /\ status s1 = status s).
  { unfold s1. cbn [exec self]. rewrite F0, F. auto. }
  destruct X1 as [M1 St1].
  assert (D : dec_stack (anc c q1) (stk s1 (Req r))).
  { rewrite E1. intros f [<-|[]]. exists q1. split; [reflexivity|apply anc_refl]. }
  destruct (dec_alone_outside c (anc c q1) r (anc_closed c q1) n s1 D) as [_ [G1 [G2 _]]].
  cbn zeta in *. intros q2 N. rewrite G1, M1 by exact N. split; [reflexivity|].
  intros r'. rewrite G2, St1; auto.
Qed.
Print Assumptions C02_drop_only_first_chain.

(* ... until its expiry passes: one GC pass of a quota (run alone) removes
   exactly the members whose expiry is <= now — every one of them, in one
   pass — deletes their requests' statuses in that quota, and keeps every
   unexpired member, in order; other quotas are untouched. *)
Theorem C02_gc_releases_expired : forall c s q,
  stk s (Gc q) = [] ->
  exists n,
    let s' := run c s (ECall (Gc q) (OGc q) :: repeat (EStep (Gc q)) n) in
    stk s' (Gc q) = [] /\
    members s' q = filter (fun m => now s <? fst m) (members s q) /\
    (forall e r, In (e, r) (members s q) -> e <= now s ->
       ~ In (e, r) (members s' q) /\ status s' q r = None) /\
    (forall q', q' <> q -> members s' q' = members s q' /\ forall r, status s' q' r = status s q' r).
Proof.
  intros c s q E. destruct (gc_pass c s q E) as [n [F1 [F2 [F3 [F4 [F5 [F6 F7]]]]]]].
  exists n. cbn zeta in *. split; [exact F1|]. split; [exact F2|]. split.
  - intros e r H L. split; [|eapply F5; eauto].
    rewrite F2. intros X. apply filter_In in X. destruct X as [_ X]. unfold live in X. cbn in X.
    apply Z.ltb_lt in X. lia.
  - intros q' N. split; [apply F4; exact N|intros r; apply F7; exact N].
Qed.
Print Assumptions C02_gc_releases_expired.

(* ---- the hypotheses are satisfiable ---------------------------------- *)

Definition ex_rows : list qrow := [(2, 1000000000, None); (1, 1000000000, Some 0); (1, 2000000000, None)].
Definition ex_cfg : config := mkcfg ex_rows.

Example C02_ex_wf : wf ex_cfg.
Proof.
  intros q p H. unfold ex_cfg, mkcfg in H. cbn [cpar] in H.
  destruct (Z.eqb_spec q 0) as [->|N0]; [vm_compute in H; discriminate|].
  destruct (Z.eqb_spec q 1) as [->|N1]; [vm_compute in H; inversion H; lia|].
  destruct (Z.eqb_spec q 2) as [->|N2]; [vm_compute in H; discriminate|].
  exfalso. unfold ex_rows, zth in H.
  apply Z.eqb_neq in N0. rewrite N0 in H.
  assert (Q1 : (q - 1 =? 0) = false) by (apply Z.eqb_neq; lia). rewrite Q1 in H.
  assert (Q2 : (q - 1 - 1 =? 0) = false) by (apply Z.eqb_neq; lia). rewrite Q2 in H.
  discriminate H.
Qed.

(* request 1 goes through the child quota 1 (parent 0) and the unrelated quota
   2, request 2 is refused by the full child, request 1 is dropped: the first
   chain is released, the slot in quota 2 stays; it goes with the GC pass after
   its expiry (2.01 s); a probe is admitted afterwards *)
Example C02_ex_history :
  run_rsteps ex_rows ex_cfg (init 0)
    [ROp 1 (OGetQ 1); ROp 1 (OAllowed 1); ROp 1 (OGetQ 2); ROp 1 (OAllowed 2);
     ROp 2 (OAllowed 1); ROp 1 ODrop; ROp 2 (OAllowed 1);
     RTick 2009999999; RGc 2; RTick 1; RGc 2; ROp 3 (OAllowed 2)]
  = [(-1, [0; 0; 0]); (1, [1; 1; 0]); (-1, [1; 1; 0]); (1, [1; 1; 1]);
     (0, [1; 1; 1]); (-1, [0; 0; 1]); (1, [1; 1; 1]);
     (-1, [1; 1; 1]); (-1, [1; 1; 1]); (-1, [1; 1; 1]); (-1, [1; 1; 0]); (1, [1; 1; 1])].
Proof. vm_compute. reflexivity. Qed.

Definition ex_evs : list event :=
  ECall (Req 1) (OAllowed 1) :: repeat (EStep (Req 1)) 12 ++
  ECall (Req 2) (OAllowed 1) :: repeat (EStep (Req 2)) 12.

(* a phased schedule after which request 1 is in flight under both quotas of
   its chain and request 2 was refused *)
Example C02_ex_inflight :
  phased ex_cfg 0 ex_evs /\
  let s := run ex_cfg (init 0) ex_evs in
  inflight s 1 1 /\ inflight s 0 1 /\ verdict s 1 = Some true /\ verdict s 2 = Some false /\
  status s 1 2 = None.
Proof.
  split; [unfold phased; cbn; intuition discriminate|].
  cbn zeta. split; [|split; [|split; [|split]]].
  - exists 1010000000. split; [vm_compute; reflexivity|].
    split; [vm_compute; reflexivity|vm_compute; tauto].
  - exists 1010000000. split; [vm_compute; reflexivity|].
    split; [vm_compute; reflexivity|vm_compute; tauto].
  - vm_compute; reflexivity.
  - vm_compute; reflexivity.
  - vm_compute; reflexivity.
Qed.


(* ====================================================================== *)
(* (A) Dec / drop on a partially held chain                                *)

(* [held c s r q q']: q' belongs to the maximal prefix q, parent q, ... of the
   chain of q on which request r holds a status without interruption
   (decidable: [heldb], a walk of at most q+1 steps on an acyclic forest). *)

(* Response: Dec of q, run to completion by an idle request — WHATEVER it
   holds — removes its own member from exactly the quotas of the held prefix,
   deletes its statuses there, stops at the first quota of the chain without
   status (that quota and everything above keep member and status: they wait
   for their own expiry), and changes nothing else: no other quota, no other
   request's status, no association, no other thread, not the clock.  It takes
   at most 4*q+5 lock regions. *)
Theorem C02_dec_releases_held_prefix : forall c, wf c -> forall s r q,
  stk s (Req r) = [] ->
  exists n, Z.of_nat n <= 4 * Z.max 0 q + 5 /\
    let s' := run c s (ECall (Req r) (ODec q) :: repeat (EStep (Req r)) n) in
    stk s' (Req r) = [] /\
    (forall q', held c s r q q' ->
       status s' q' r = None /\
       exists e, status s q' r = Some e /\ members s' q' = remove_first (e, r) (members s q')) /\
    (forall q', ~ held c s r q q' -> members s' q' = members s q') /\
    (forall q' r', ~ held c s r q q' \/ r' <> r -> status s' q' r' = status s q' r') /\
    firstq s' = firstq s /\ now s' = now s /\
    (forall t', t' <> Req r -> stk s' t' = stk s t').
Proof. exact dec_prefix. Qed.
Print Assumptions C02_dec_releases_held_prefix.

(* the prefix is the whole chain when the whole chain is held (so
   C02_dec_releases_chain is the special case), and it is computable *)
Theorem C02_held_whole_chain : forall c s r q,
  (forall q', anc c q q' -> status s q' r <> None) ->
  forall q', held c s r q q' <-> anc c q q'.
Proof. intros c s r q H q'. split; [apply held_anc|apply held_all; exact H]. Qed.
Print Assumptions C02_held_whole_chain.

Theorem C02_held_decidable : forall c s r, wf c -> forall q q', 0 <= q ->
  held c s r q q' <-> heldb c s r (Z.to_nat (q + 1)) q q' = true.
Proof.
  intros c s r WF q q' Q. split; [|apply heldb_sound].
  intros H. apply heldb_complete; auto. lia.
Qed.
Print Assumptions C02_held_decidable.

(* Early answer / proxy error: the drop pops the association and releases the
   held prefix of the chain of the first-touched quota — in particular the
   child's slot of a request that the PARENT refused (429 after a parent's
   refusal: the prefix is the child alone). *)
Theorem C02_drop_releases_held_prefix : forall c, wf c -> forall s r q1,
  stk s (Req r) = [] -> firstq s r = Some q1 ->
  exists n, Z.of_nat n <= 4 * Z.max 0 q1 + 6 /\
    let s' := run c s (ECall (Req r) ODrop :: repeat (EStep (Req r)) n) in
    stk s' (Req r) = [] /\ firstq s' r = None /\
    (forall r', r' <> r -> firstq s' r' = firstq s r') /\
    (forall q', held c s r q1 q' ->
       status s' q' r = None /\
       exists e, status s q' r = Some e /\ members s' q' = remove_first (e, r) (members s q')) /\
    (forall q', ~ held c s r q1 q' -> members s' q' = members s q') /\
    (forall q' r', ~ held c s r q1 q' \/ r' <> r -> status s' q' r' = status s q' r') /\
    now s' = now s /\
    (forall t', t' <> Req r -> stk s' t' = stk s t').
Proof. exact drop_prefix. Qed.
Print Assumptions C02_drop_releases_held_prefix.

(* a drop of a request that is associated with no quota changes nothing *)
Theorem C02_drop_without_quota_noop : forall c s r,
  stk s (Req r) = [] -> firstq s r = None ->
  let s' := run c s [ECall (Req r) ODrop; EStep (Req r)] in
  stk s' (Req r) = [] /\ members s' = members s /\ status s' = status s /\ firstq s' = firstq s.
Proof. exact drop_without_quota. Qed.
Print Assumptions C02_drop_without_quota_noop.

(* the 429 after a parent's refusal, spelled out: the request holds the child
   q (the parent p refused, no status there); the drop gives the child's slot
   back and touches no other quota — the parent's set in particular *)
Theorem C02_drop_after_parent_refusal : forall c, wf c -> forall s r q p e,
  stk s (Req r) = [] -> firstq s r = Some q ->
  status s q r = Some e -> cpar c q = Some p -> status s p r = None ->
  exists n, Z.of_nat n <= 4 * Z.max 0 q + 6 /\
    let s' := run c s (ECall (Req r) ODrop :: repeat (EStep (Req r)) n) in
    stk s' (Req r) = [] /\ firstq s' r = None /\ status s' q r = None /\
    members s' q = remove_first (e, r) (members s q) /\
    (forall q', q' <> q -> members s' q' = members s q' /\ forall r', status s' q' r' = status s q' r').
Proof. exact drop_after_parent_refusal. Qed.
Print Assumptions C02_drop_after_parent_refusal.

(* ---- the hypotheses are satisfiable: a parent that refuses ------------- *)

Definition pr_rows : list qrow := [(1, 2000000000, None); (2, 2000000000, Some 0)].
Definition pr_cfg : config := mkcfg pr_rows.
Definition pr_evs : list event :=
  ECall (Req 0) (OAllowed 1) :: repeat (EStep (Req 0)) 12 ++
  ECall (Req 1) (OGetQ 1) :: EStep (Req 1) ::
  ECall (Req 1) (OAllowed 1) :: repeat (EStep (Req 1)) 12.

(* request 0 fills the parent (max 1); request 1 is admitted by the child
   (max 2) and refused by the parent: it is answered 429 while it holds the
   child's slot; the hypotheses of C02_drop_after_parent_refusal hold in that
   reachable state, and the drop run by the model frees the child's slot *)
Example C02_ex_parent_refusal :
  let s := run pr_cfg (init 0) pr_evs in
  phased pr_cfg 0 pr_evs /\
  verdict s 0 = Some true /\ verdict s 1 = Some false /\
  stk s (Req 1) = [] /\ firstq s 1 = Some 1 /\ status s 1 1 = Some 2010000000 /\
  cpar pr_cfg 1 = Some 0 /\ status s 0 1 = None /\
  members s 1 = [(2010000000, 0); (2010000000, 1)] /\
  let s' := run_op pr_cfg fuel0 s (Req 1) ODrop in
  members s' 1 = [(2010000000, 0)] /\ members s' 0 = [(2010000000, 0)] /\ status s' 1 1 = None.
Proof.
  cbn zeta. split; [unfold phased; cbn; intuition discriminate|].
  vm_compute. repeat split; reflexivity.
Qed.

(* ====================================================================== *)
(* (B) fuel: what the suites evaluate is the run of the theorems            *)

(* [run_op c fuel s t o] (Model.v; used by run_res / run_eng with fuel0 = 200)
   is literally the solo run of the theorems with n = fuel ... *)
Theorem C02_run_op_is_run : forall c fuel s t o,
  run_op c fuel s t o = run c s (ECall t o :: repeat (EStep t) fuel).
Proof. exact run_op_run. Qed.
Print Assumptions C02_run_op_is_run.

(* ... and a finished solo run does not depend on the fuel: whenever the run of
   a theorem ends idle after n steps and either fuel >= n or the fuelled run
   ended idle too (verdict code <> -99 in the suites), the two states are
   equal.  Fuel exhaustion cannot make a suite agree for the wrong reason. *)
Theorem C02_run_op_fuel : forall c fuel s t o n,
  stk (run c s (ECall t o :: repeat (EStep t) n)) t = [] ->
  (n <= fuel)%nat \/ stk (run_op c fuel s t o) t = [] ->
  run_op c fuel s t o = run c s (ECall t o :: repeat (EStep t) n).
Proof. exact run_op_fuel. Qed.
Print Assumptions C02_run_op_fuel.

(* the four run-to-completion statements in terms of [run_op] with a fuel that
   is large enough (fuel0 = 200 covers quota ids up to 32 — the chain depth —
   and sets of up to 99 members; the harness uses ids <= 3, max <= 3) *)
Theorem C02_dec_op : forall c, wf c -> forall s r q fuel,
  stk s (Req r) = [] -> 4 * Z.max 0 q + 5 <= Z.of_nat fuel ->
  let s' := run_op c fuel s (Req r) (ODec q) in
  stk s' (Req r) = [] /\
  (forall q', held c s r q q' ->
     status s' q' r = None /\
     exists e, status s q' r = Some e /\ members s' q' = remove_first (e, r) (members s q')) /\
  (forall q', ~ held c s r q q' -> members s' q' = members s q') /\
  (forall q' r', ~ held c s r q q' \/ r' <> r -> status s' q' r' = status s q' r').
Proof.
  intros c WF s r q fuel E B. destruct (dec_prefix c WF s r q E) as [n [Bn [G1 [G2 [G3 [G4 _]]]]]].
  cbn zeta in *. rewrite (run_op_fuel c fuel s (Req r) (ODec q) n G1) by (left; lia). auto.
Qed.
Print Assumptions C02_dec_op.

Theorem C02_drop_op : forall c, wf c -> forall s r q1 fuel,
  stk s (Req r) = [] -> firstq s r = Some q1 -> 4 * Z.max 0 q1 + 6 <= Z.of_nat fuel ->
  let s' := run_op c fuel s (Req r) ODrop in
  stk s' (Req r) = [] /\ firstq s' r = None /\
  (forall q', held c s r q1 q' ->
     status s' q' r = None /\
     exists e, status s q' r = Some e /\ members s' q' = remove_first (e, r) (members s q')) /\
  (forall q', ~ held c s r q1 q' -> members s' q' = members s q') /\
  (forall q' r', ~ held c s r q1 q' \/ r' <> r -> status s' q' r' = status s q' r').
Proof.
  intros c WF s r q1 fuel E F B.
  destruct (drop_prefix c WF s r q1 E F) as [n [Bn [G1 [G2 [_ [G3 [G4 [G5 _]]]]]]]].
  cbn zeta in *. rewrite (run_op_fuel c fuel s (Req r) ODrop n G1) by (left; lia). auto.
Qed.
Print Assumptions C02_drop_op.

Theorem C02_gc_op : forall c s q fuel,
  stk s (Gc q) = [] -> (2 * length (members s q) + 1 <= fuel)%nat ->
  let s' := run_op c fuel s (Gc q) (OGc q) in
  stk s' (Gc q) = [] /\
  members s' q = filter (fun m => now s <? fst m) (members s q) /\
  (forall e r, In (e, r) (members s q) -> e <= now s -> status s' q r = None) /\
  (forall q', q' <> q -> members s' q' = members s q' /\ forall r, status s' q' r = status s q' r).
Proof.
  intros c s q fuel E B. destruct (gc_pass_b c s q E) as [n [Bn [F1 [F2 [_ [F4 [F5 [_ F7]]]]]]]].
  cbn zeta in *. rewrite (run_op_fuel c fuel s (Gc q) (OGc q) n F1) by (left; lia).
  split; [exact F1|]. split; [exact F2|]. split; [exact F5|].
  intros q' N. split; [apply F4; exact N|intros r; apply F7; exact N].
Qed.
Print Assumptions C02_gc_op.

Theorem C02_probe_op : forall c, wf c -> forall s p q fuel,
  stk s (Req p) = [] ->
  (forall q', anc c q q' ->
     status s q' p = None /\ Z.of_nat (length (members s q')) < cmax c q') ->
  6 * Z.max 0 q + 5 <= Z.of_nat fuel ->
  let s' := run_op c fuel s (Req p) (OAllowed q) in
  stk s' (Req p) = [] /\ verdict s' p = Some true.
Proof.
  intros c WF s p q fuel E H B. destruct (probe_admitted_b c WF s p q E H) as [n [Bn [F1 F2]]].
  cbn zeta in *. rewrite (run_op_fuel c fuel s (Req p) (OAllowed q) n F1) by (left; lia). auto.
Qed.
Print Assumptions C02_probe_op.

(* ====================================================================== *)
(* (C) release under every interleaving                                    *)

(* Whatever the other threads (transactions, GC passes, the clock) do in
   between: once a Dec of quota q — or a drop of a request whose first-touched
   quota is q — that request r started is over (r is idle again, possibly
   after further operations), r holds no status and no member in q.  Phased
   schedule, acyclic forest; no condition on expiry. *)
Theorem C02_release_completes_interleaved : forall c t0 evs1 evs2 r o q, wf c ->
  phased c t0 (evs1 ++ ECall (Req r) o :: evs2) ->
  let s1 := run c (init t0) evs1 in
  let s2 := run c s1 (ECall (Req r) o :: evs2) in
  stk s1 (Req r) = [] ->                       (* the call is accepted *)
  (o = ODec q \/ (o = ODrop /\ firstq s1 r = Some q)) ->
  stk s2 (Req r) = [] ->                       (* r is idle at the end *)
  status s2 q r = None /\ forall e, ~ In (e, r) (members s2 q).
Proof. exact release_completes. Qed.
Print Assumptions C02_release_completes_interleaved.

(* The ancestors: if none of the statuses r holds on the chain expires before
   the end of the schedule (the response is processed in time), the
   interleaved Dec frees exactly what the solo Dec frees — the whole held
   prefix — under every interleaving.  (When a status did expire, the GC of
   that quota may delete it between two lock regions of the Dec; Dec then
   stops there and the quotas above are freed by their own expiry:
   C02_gc_pass_interleaved.) *)
Theorem C02_dec_releases_held_prefix_interleaved : forall c t0 evs1 evs2 r q, wf c ->
  phased c t0 (evs1 ++ ECall (Req r) (ODec q) :: evs2) ->
  let s1 := run c (init t0) evs1 in
  let s2 := run c s1 (ECall (Req r) (ODec q) :: evs2) in
  stk s1 (Req r) = [] -> stk s2 (Req r) = [] ->
  (forall q' e, anc c q q' -> status s1 q' r = Some e -> now s2 < e) ->
  forall q', held c s1 r q q' ->
    status s2 q' r = None /\ forall e, ~ In (e, r) (members s2 q').
Proof. exact dec_interleaved_prefix. Qed.
Print Assumptions C02_dec_releases_held_prefix_interleaved.

Theorem C02_drop_releases_held_prefix_interleaved : forall c t0 evs1 evs2 r q1, wf c ->
  phased c t0 (evs1 ++ ECall (Req r) ODrop :: evs2) ->
  let s1 := run c (init t0) evs1 in
  let s2 := run c s1 (ECall (Req r) ODrop :: evs2) in
  stk s1 (Req r) = [] -> firstq s1 r = Some q1 -> stk s2 (Req r) = [] ->
  (forall q' e, anc c q1 q' -> status s1 q' r = Some e -> now s2 < e) ->
  forall q', held c s1 r q1 q' ->
    status s2 q' r = None /\ forall e, ~ In (e, r) (members s2 q').
Proof. exact drop_interleaved_prefix. Qed.
Print Assumptions C02_drop_releases_held_prefix_interleaved.

(* ---- satisfiable: a Dec interleaved with a GC pass and another request -- *)

Definition il_rows : list qrow := [(2, 3000000000, None); (1, 1000000000, Some 0)].
Definition il_cfg : config := mkcfg il_rows.
Definition il_evs1 : list event :=
  ECall (Req 1) (OAllowed 1) :: repeat (EStep (Req 1)) 12 ++ [ETick 500000000].
Definition il_evs2 : list event :=
  [EStep (Req 1); ECall (Gc 1) (OGc 1); EStep (Req 1); EStep (Gc 1);
   ECall (Req 2) (OAllowed 1); EStep (Req 1); EStep (Req 2); EStep (Gc 1);
   EStep (Req 1); EStep (Req 2); EStep (Req 1); EStep (Req 2);
   EStep (Req 1); EStep (Req 1); EStep (Req 1); EStep (Req 1)].

Lemma il_anc : forall q q', anc il_cfg q q' -> q = 1 -> q' = 1 \/ q' = 0.
Proof.
  intros q q' A. induction A as [q|q p q' P A IH]; intros ->; [left; reflexivity|].
  vm_compute in P. inversion P; subst p. right.
  inversion A as [|? p2 ? P2 _]; subst; [reflexivity|]. vm_compute in P2. discriminate.
Qed.

Example C02_ex_il_wf : wf il_cfg.
Proof.
  intros q p H. unfold il_cfg, mkcfg in H. cbn [cpar] in H.
  destruct (Z.eqb_spec q 0) as [->|N0]; [vm_compute in H; discriminate|].
  destruct (Z.eqb_spec q 1) as [->|N1]; [vm_compute in H; inversion H; lia|].
  exfalso. unfold il_rows, zth in H.
  apply Z.eqb_neq in N0. rewrite N0 in H.
  assert (Q1 : (q - 1 =? 0) = false) by (apply Z.eqb_neq; lia). rewrite Q1 in H.
  discriminate H.
Qed.

(* request 1 holds child and parent; its Dec of the child runs while the
   child's GC takes a (fruitless) pass and request 2 acquires the freed
   child slot; the hypotheses of the interleaved theorem hold, and — as it
   says — request 1 ends without status and member on both quotas *)
Example C02_ex_interleaved_dec :
  let s1 := run il_cfg (init 0) il_evs1 in
  let s2 := run il_cfg s1 (ECall (Req 1) (ODec 1) :: il_evs2) in
  phased il_cfg 0 (il_evs1 ++ ECall (Req 1) (ODec 1) :: il_evs2) /\
  stk s1 (Req 1) = [] /\ stk s2 (Req 1) = [] /\
  (forall q' e, anc il_cfg 1 q' -> status s1 q' 1 = Some e -> now s2 < e) /\
  held il_cfg s1 1 1 1 /\ held il_cfg s1 1 1 0 /\
  status s2 1 1 = None /\ status s2 0 1 = None /\ members s2 0 = [] /\
  members s2 1 = [(1510000000, 2)].
Proof.
  cbn zeta. split; [unfold phased; cbn; intuition discriminate|].
  split; [vm_compute; reflexivity|]. split; [vm_compute; reflexivity|].
  split.
  { intros q' e A S. destruct (il_anc 1 q' A eq_refl) as [->| ->];
      vm_compute in S; inversion S; subst e; vm_compute; reflexivity. }
  split; [apply (heldb_sound _ _ _ 2%nat); vm_compute; reflexivity|].
  split; [apply (heldb_sound _ _ _ 2%nat); vm_compute; reflexivity|].
  vm_compute. repeat split; reflexivity.
Qed.

(* ====================================================================== *)
(* (D) expiry under every interleaving; "never stays exhausted"            *)

(* A GC pass of q that takes its snapshot at s1 and has ended at s2, with ANY
   events of other threads in between (phased schedule): for every request r
   that executes no lock region during the pass — it ended, or was abandoned
   at any point — every member of r still in the set expires after the
   snapshot instant, i.e. every member of r that was expired at the snapshot
   is gone, and r's status in q is deleted.  (A request that does step during
   the pass may add a new member; that one is for the next pass.) *)
Theorem C02_gc_pass_interleaved : forall c t0 evs1 evs2 q rest, wf c ->
  phased c t0 (evs1 ++ EStep (Gc q) :: evs2) ->
  let s1 := run c (init t0) evs1 in
  let s2 := run c s1 (EStep (Gc q) :: evs2) in
  stk s1 (Gc q) = GSnap q :: rest ->          (* the pass takes its snapshot now *)
  stk s2 (Gc q) = [] ->                        (* ... and has ended *)
  forall r, ~ In (EStep (Req r)) evs2 ->
    (forall e, In (e, r) (members s2 q) -> now s1 < e) /\
    (forall e, In (e, r) (members s1 q) -> e <= now s1 -> status s2 q r = None).
Proof. exact gc_pass_interleaved. Qed.
Print Assumptions C02_gc_pass_interleaved.

(* [swept c t0 evs q]: in the schedule evs a GC pass of q took its snapshot
   when every member of the set had expired, no REQUEST thread executed a lock
   region from then on (transactions have ended or are abandoned; GC threads of
   all quotas, the clock and calls on idle threads are free to interleave),
   and the pass has ended.  Then the set is empty ... *)
Theorem C02_swept_empty : forall c t0 evs q, wf c -> phased c t0 evs ->
  swept c t0 evs q -> members (run c (init t0) evs) q = [].
Proof. exact swept_empty. Qed.
Print Assumptions C02_swept_empty.

(* ... and the quota does not stay exhausted: once every quota of the chain
   of q was swept, a fresh request is admitted (run alone, at most 6*q+5 lock
   regions). *)
Theorem C02_never_stays_exhausted : forall c t0 evs q p, wf c -> phased c t0 evs ->
  let s := run c (init t0) evs in
  (forall q', anc c q q' -> swept c t0 evs q' /\ 0 < cmax c q') ->
  stk s (Req p) = [] -> (forall q', anc c q q' -> status s q' p = None) ->
  exists n, Z.of_nat n <= 6 * Z.max 0 q + 5 /\
    let s' := run c s (ECall (Req p) (OAllowed q) :: repeat (EStep (Req p)) n) in
    stk s' (Req p) = [] /\ verdict s' p = Some true.
Proof. exact swept_probe. Qed.
Print Assumptions C02_never_stays_exhausted.

(* ---- satisfiable: an abandoned transaction, two interleaved GC passes --- *)

Definition sw_evs1 : list event :=
  ECall (Req 1) (OAllowed 1) :: repeat (EStep (Req 1)) 12 ++
  [ETick 4000000000; ECall (Gc 1) (OGc 1); ECall (Gc 0) (OGc 0)].
Definition sw_evs : list event :=
  sw_evs1 ++ [EStep (Gc 1); EStep (Gc 0); EStep (Gc 1); EStep (Gc 0);
              ECall (Req 7) (OGetQ 1); EStep (Gc 0); EStep (Gc 1)].

Example C02_ex_swept :
  phased il_cfg 0 sw_evs /\ swept il_cfg 0 sw_evs 1 /\ swept il_cfg 0 sw_evs 0 /\
  0 < cmax il_cfg 1 /\ 0 < cmax il_cfg 0 /\
  let s := run il_cfg (init 0) sw_evs in
  stk s (Req 2) = [] /\ status s 1 2 = None /\ status s 0 2 = None /\
  verdict (run_op il_cfg fuel0 s (Req 2) (OAllowed 1)) 2 = Some true.
Proof.
  split; [unfold phased; cbn; intuition discriminate|].
  split.
  { exists sw_evs1, [EStep (Gc 0); EStep (Gc 1); EStep (Gc 0); ECall (Req 7) (OGetQ 1); EStep (Gc 0); EStep (Gc 1)], [].
    split; [reflexivity|]. split; [vm_compute; reflexivity|].
    split; [intros r H; cbn in H; intuition discriminate|].
    split; [|vm_compute; reflexivity].
    intros e r H. vm_compute in H. destruct H as [H|[]]. inversion H; subst. vm_compute. discriminate. }
  split.
  { exists (sw_evs1 ++ [EStep (Gc 1)]), [EStep (Gc 1); EStep (Gc 0); ECall (Req 7) (OGetQ 1); EStep (Gc 0); EStep (Gc 1)], [].
    split; [reflexivity|]. split; [vm_compute; reflexivity|].
    split; [intros r H; cbn in H; intuition discriminate|].
    split; [|vm_compute; reflexivity].
    intros e r H. vm_compute in H. destruct H as [H|[]]. inversion H; subst. vm_compute. discriminate. }
  vm_compute. repeat split; reflexivity.
Qed.

(* ====================================================================== *)
(* (E) why [phased] is needed; orphan statuses                              *)

(* The statement of C02_release_once / C02_no_leak without the phasedness
   hypothesis ... *)
Definition C02_release_once_full : Prop := forall c t0 evs, wf c ->
  let s := run c (init t0) evs in
  forall q e r, In (e, r) (members s q) ->
    status s q r = Some e \/ In (FSet q e) (stk s (Req r)).

Definition np_cfg : config := mkcfg [(2, 1000000000, None)].
(* the GC has removed request 1's expired member and has not yet executed
   delete(allowedReq, 1); request 1 releases, RE-ACQUIRES (new member, new
   status), and the pending delete erases the new status *)
Definition np_evs : list event :=
  [ECall (Req 1) (OAllowed 0)] ++ repeat (EStep (Req 1)) 6 ++
  [ETick 2000000000; ECall (Gc 0) (OGc 0); EStep (Gc 0); EStep (Gc 0)] ++
  [ECall (Req 1) (ODec 0)] ++ repeat (EStep (Req 1)) 5 ++
  [ECall (Req 1) (OInc 0)] ++ repeat (EStep (Req 1)) 5 ++
  [EStep (Gc 0)].

Example C02_np_wf : wf np_cfg.
Proof.
  intros q p H. unfold np_cfg, mkcfg in H. cbn [cpar] in H. exfalso.
  destruct (Z.eqb_spec q 0) as [->|N0]; [vm_compute in H; discriminate|].
  unfold zth in H. apply Z.eqb_neq in N0. rewrite N0 in H. discriminate H.
Qed.

(* ... is false: a member without status, which a later Dec does not release
   (it leaves with its expiry, C02_gc_releases_expired).  Real transactions
   never re-acquire after their release began; the harness checks that on
   every engine trace. *)
Theorem C02_release_once_needs_phased : ~ C02_release_once_full.
Proof.
  intros H. specialize (H np_cfg 0 np_evs C02_np_wf 0 3010000000 1).
  cbn zeta in H. destruct H as [H|H].
  - vm_compute. left. reflexivity.
  - vm_compute in H. discriminate.
  - vm_compute in H. exact H.
Qed.
Print Assumptions C02_release_once_needs_phased.

Example C02_np_leak :
  ~ phased np_cfg 0 np_evs /\
  let s := run np_cfg (init 0) np_evs in
  members s 0 = [(3010000000, 1)] /\ status s 0 1 = None /\ stk s (Req 1) = [] /\
  members (run_op np_cfg fuel0 s (Req 1) (ODec 0)) 0 = [(3010000000, 1)].
Proof.
  split.
  - unfold phased. cbn. intuition discriminate.
  - vm_compute. repeat split; reflexivity.
Qed.

(* An orphan status in a PHASED schedule: the thread of request 1 stalls
   between its add and its setReqStatus for longer than ttl + 10 ms, the GC
   collects the fresh member, then the status is recorded.  The set is empty,
   the status stays: the hypotheses of C02_no_leak_probe ("nobody holds a
   status") fail although the quota is free — C02_room_admits (room on the
   chain) and C02_never_stays_exhausted are the statements to rely on. *)
Definition orphan_evs : list event :=
  [ECall (Req 1) (OInc 0); EStep (Req 1); EStep (Req 1); EStep (Req 1)] ++
  [ETick 2000000000; ECall (Gc 0) (OGc 0); EStep (Gc 0); EStep (Gc 0); EStep (Gc 0)] ++
  [EStep (Req 1)].

Example C02_ex_orphan_status :
  phased np_cfg 0 orphan_evs /\
  let s := run np_cfg (init 0) orphan_evs in
  members s 0 = [] /\ status s 0 1 = Some 1010000000 /\ stk s (Req 1) = [] /\ stk s (Gc 0) = [] /\
  verdict (run_op np_cfg fuel0 s (Req 2) (OAllowed 0)) 2 = Some true.
Proof.
  split; [unfold phased; cbn; intuition discriminate|].
  vm_compute. repeat split; reflexivity.
Qed.


(* ====================================================================== *)
(* (F) the hypotheses as checks; suites and reachable states               *)

(* [wf] on the configurations-as-data of the suites is the boolean [wfb]
   (Model.v); the suites' functions evaluate it on every case (today
   Model2.run_res2h and Model3.run_eng3h, through run_res2 / run_eng2; the older
   Model.run_res / run_eng do the same but are evaluated by no suite any more:
   run_res is the right-hand side of the bridge C02_suite_res2_is_res, run_eng
   is unused). *)
Theorem C02_wfb_spec : forall rows, wfb rows = true <-> wf (mkcfg rows).
Proof. exact wfb_spec. Qed.
Print Assumptions C02_wfb_spec.

Theorem C02_phasedb_spec : forall c t0 evs, phasedb c t0 evs = true <-> phased c t0 evs.
Proof. exact phasedb_spec. Qed.
Print Assumptions C02_phasedb_spec.

(* a schedule in which, for every request, no Inc / Allowed call follows a
   Dec / drop / finish call is phased — whatever the steps in between (the
   check the harness performs on the operations of every engine trace) *)
Theorem C02_calls_phased : forall c t0 evs,
  calls_phasedb (fun _ => false) evs = true -> phased c t0 evs.
Proof. exact calls_phased. Qed.
Print Assumptions C02_calls_phased.

Example C02_ex_checks :
  wfb ex_rows = true /\ wfb il_rows = true /\ wfb [(1, 1, Some 0)] = false /\
  calls_phasedb (fun _ => false) ex_evs = true /\ phasedb ex_cfg 0 ex_evs = true /\
  calls_phasedb (fun _ => false) np_evs = false /\ phasedb np_cfg 0 np_evs = false.
Proof. vm_compute. repeat split; reflexivity. Qed.

(* "suite res" / "suite eng" in the three statements below are the OLD suite
   functions of Model.v ([rsteps_state], [eevs_state]); what the harness
   evaluates today is tied to them by C02_suite_res2_is_res (equality) and, for
   the engine level, restated directly in C02_suite_eng2_states_reachable /
   C02_bound_suite_eng2 (section G).
   The suites reset the verdict register between operations ([clear_verdict]),
   which is not an event.  Every state they go through equals a reachable
   state of the machine in everything but that register ([sbv]); no lock
   region reads it, and no theorem above mentions it except as the output of
   the probe. *)
Theorem C02_suite_res_states_reachable : forall rows xs,
  exists s2, sbv (rsteps_state (mkcfg rows) (init 0) xs) s2 /\ reachable (mkcfg rows) 0 s2.
Proof.
  intros rows xs. apply (rsteps_reachable _ 0 xs (init 0) (init 0)); [apply sbv_refl|].
  exists []. reflexivity.
Qed.
Print Assumptions C02_suite_res_states_reachable.

Theorem C02_suite_eng_states_reachable : forall rows es,
  exists s2, sbv (eevs_state (mkcfg rows) (init 0) es) s2 /\ reachable (mkcfg rows) 0 s2.
Proof.
  intros rows es. apply (eevs_reachable _ 0 es (init 0) (init 0)); [apply sbv_refl|].
  exists []. reflexivity.
Qed.
Print Assumptions C02_suite_eng_states_reachable.

(* so, e.g., the bound holds in every state suite "res" goes through *)
Theorem C02_bound_suite_res : forall rows xs q,
  Z.of_nat (length (members (rsteps_state (mkcfg rows) (init 0) xs) q)) <= Z.max 0 (cmax (mkcfg rows) q).
Proof.
  intros rows xs q. destruct (C02_suite_res_states_reachable rows xs) as [s2 [[_ [M _]] R]].
  rewrite M. apply (C02_bound _ _ _ R).
Qed.
Print Assumptions C02_bound_suite_res.

(* The frame FSet merges setReqStatus and the assignment of the member (two
   acquisitions of cs.mutex, concurrent_strategy.go:196-200).  Between the two
   the real code holds a map entry that a GC pass could delete (the assignment
   would then dereference nil).  In every phased schedule the GC has a
   deletion for request r in hand while r is recording its status only when
   the expiry of that very status has passed: the thread of r must have
   stalled for more than ttl + 10 ms between generateMember and the end of
   Inc.  (The window itself is below the model's granularity: trusted.) *)
Theorem C02_gc_delete_while_recording_only_after_expiry : forall c t0 evs, wf c -> phased c t0 evs ->
  let s := run c (init t0) evs in
  forall q r e, In (FSet q e) (stk s (Req r)) ->
    (In (GDel q r) (stk s (Gc q)) \/ exists e', In (GItem q e' r) (stk s (Gc q)) /\ e' <= now s) ->
    e <= now s.
Proof. exact gc_delete_while_recording. Qed.
Print Assumptions C02_gc_delete_while_recording_only_after_expiry.

(* the premise is reachable (audit 2): the first 8 events of [orphan_evs] (up to
   the GC's item step) are a phased schedule that leaves request 1 about to
   record its status (FSet pending) while the GC of quota 0 has the deletion
   for request 1 in hand; the conclusion
   then says what it must: the expiry of that status (1.01 s) has passed (2 s) *)
Example C02_ex_gc_delete_while_recording :
  let evs := firstn 8 orphan_evs in
  wf np_cfg /\ phased np_cfg 0 evs /\
  let s := run np_cfg (init 0) evs in
  stk s (Req 1) = [FSet 0 1010000000] /\ stk s (Gc 0) = [GDel 0 1] /\ now s = 2000000000 /\
  In (FSet 0 1010000000) (stk s (Req 1)) /\ In (GDel 0 1) (stk s (Gc 0)) /\ (1010000000 <=? now s) = true.
Proof.
  cbn zeta. split; [exact C02_np_wf|]. split; [apply C02_phasedb_spec; vm_compute; reflexivity|].
  vm_compute. repeat split; try reflexivity; left; reflexivity.
Qed.


(* ====================================================================== *)
(* (G) streams: transaction id and sequence id                             *)

(* Model2.v: every call of a transaction is made with a stream (r, sq): r =
   APIStream.GetID(), sq = APIStream.GetSequenceID().  Different transactions
   may carry the same sequence id (a client's retries carry the id of the first
   attempt; parallel calls may be stamped alike), different calls of one
   transaction may carry different ones (Stream.OnError builds a stream with
   ID = SequenceID = transaction id, whatever the request carried).  The code
   as it is keys every piece of bookkeeping by the transaction id: for EVERY
   schedule of streams and from every state, the machine over streams is the
   machine of Model.v on the schedule with the sequence ids erased. *)
Theorem C02_sequence_id_irrelevant : forall c ks evs,
  base (krun head c ks evs) = run c (base ks) (map erase evs).
Proof. intros c ks evs. apply krun_head. Qed.
Print Assumptions C02_sequence_id_irrelevant.

(* The bound, over TRANSACTIONS: after every schedule of streams, the
   transactions (distinct transaction ids) whose slot — looked up the way the
   variant's code looks it up for the stream of the transaction's latest call —
   is held, unexpired and not being released, number at most max. *)
Definition C02_bound_transactions (v : variant) : Prop :=
  forall c t0 evs q rs,
    let ks := krun v c (kinit t0) evs in
    NoDup rs -> (forall r, In r rs -> kinflight v ks q r) ->
    Z.of_nat (length rs) <= Z.max 0 (cmax c q).

(* It holds for the code as it is, whatever sequence ids the streams carry and
   share (and the transactions in flight are pairwise different members of the
   set) ... *)
Theorem C02_bound_any_sequence_ids : C02_bound_transactions head.
Proof. intros c t0 evs q rs ks ND H. apply (bound_transactions_head c t0 evs q rs ND H). Qed.
Print Assumptions C02_bound_any_sequence_ids.

Theorem C02_inflight_transactions_are_members : forall c t0 evs q rs,
  let ks := krun head c (kinit t0) evs in
  NoDup rs -> (forall r, In r rs -> kinflight head ks q r) ->
  forall r, In r rs -> In r (map snd (members (base ks) q)).
Proof. intros c t0 evs q rs ks ND H. apply (bound_transactions_head c t0 evs q rs ND H). Qed.
Print Assumptions C02_inflight_transactions_are_members.

(* ... and is FALSE for the variant that tracks slots under the sequence id
   (seeded change C02-7): two transactions stamped with one sequence id, max 1,
   both admitted and in flight. *)
Definition sq_rows : list qrow := [(1, 1000000000, None)].
Definition sq_cfg : config := mkcfg sq_rows.
Definition sq_evs : list kevent :=
  KCall 1 7 (OAllowed 0) :: repeat (KStep (Req 1)) 6 ++
  KCall 2 7 (OAllowed 0) :: repeat (KStep (Req 2)) 6.

Example C02_sq_wf : wf sq_cfg.
Proof. apply C02_wfb_spec. vm_compute. reflexivity. Qed.

Theorem C02_bound_keyed_by_sequence_id_refuted : ~ C02_bound_transactions seeded7.
Proof.
  intros H. specialize (H sq_cfg 0 sq_evs 0 [1; 2]). cbn zeta in H.
  assert (X : Z.of_nat (length [1; 2]) <= Z.max 0 (cmax sq_cfg 0)).
  { apply H.
    - repeat constructor; cbn; intuition discriminate.
    - intros r [<-|[<-|[]]]; unfold kinflight; exists 1010000000;
        (split; [vm_compute; reflexivity|]); (split; [vm_compute; reflexivity|vm_compute; tauto]). }
  vm_compute in X. apply X. reflexivity.
Qed.
Print Assumptions C02_bound_keyed_by_sequence_id_refuted.

(* the same schedule under both variants: the code as it is refuses the second
   transaction; the seeded variant admits both on one member *)
Example C02_ex_shared_sequence_id :
  let h := base (krun head sq_cfg (kinit 0) sq_evs) in
  let x := base (krun seeded7 sq_cfg (kinit 0) sq_evs) in
  verdict h 1 = Some true /\ verdict h 2 = Some false /\ members h 0 = [(1010000000, 1)] /\
  verdict x 1 = Some true /\ verdict x 2 = Some true /\ members x 0 = [(1010000000, 7)].
Proof. vm_compute. repeat split; reflexivity. Qed.

(* Release, over streams: once a Dec of q — or a drop whose first quota is q —
   that transaction r started on ANY stream (r, sq) is over, no status and no
   member is left in q under the key of ANY stream (r, sq0) of that transaction,
   whatever the other threads did in between.  In particular the proxy-error
   drop (sq = r) of a retried call (sq0 = the first attempt's id) frees its
   slot. *)
Definition C02_release_any_stream (v : variant) : Prop :=
  forall c t0 evs1 evs2 r sq o q, wf c ->
    phased c t0 (map erase (evs1 ++ KCall r sq o :: evs2)) ->
    let ks1 := krun v c (kinit t0) evs1 in
    let ks2 := krun v c ks1 (KCall r sq o :: evs2) in
    stk (base ks1) (Req r) = [] ->
    (o = ODec q \/ (o = ODrop /\ firstq (base ks1) r = Some q)) ->
    stk (base ks2) (Req r) = [] ->
    forall sq0, status (base ks2) q (skey v r sq0) = None /\
                forall e, ~ In (e, skey v r sq0) (members (base ks2) q).

Theorem C02_release_any_stream_head : C02_release_any_stream head.
Proof.
  intros c t0 evs1 evs2 r sq o q WF P ks1 ks2 E O E2 sq0. rewrite skey_head.
  unfold ks2, ks1 in *. rewrite !krun_head in *. cbn [kinit base map erase] in *.
  rewrite map_app in P. cbn [map erase] in P.
  exact (release_completes c t0 (map erase evs1) (map erase evs2) r o q WF P E O E2).
Qed.
Print Assumptions C02_release_any_stream_head.

(* seeded C02-7: the retry (transaction 1, sequence id 7) is admitted under key
   7; the proxy reports transaction 1 as failed; Dec looks key 1 up, finds
   nothing, and the slot stays *)
Definition sr_evs1 : list kevent :=
  [KCall 1 7 (OGetQ 0); KStep (Req 1); KCall 1 7 (OAllowed 0)] ++ repeat (KStep (Req 1)) 6.
Definition sr_evs2 : list kevent := repeat (KStep (Req 1)) 6.

Theorem C02_release_keyed_by_sequence_id_refuted : ~ C02_release_any_stream seeded7.
Proof.
  intros H. specialize (H sq_cfg 0 sr_evs1 sr_evs2 1 1 ODrop 0 C02_sq_wf).
  cbn zeta in H.
  assert (X : status (base (krun seeded7 sq_cfg (krun seeded7 sq_cfg (kinit 0) sr_evs1) (KCall 1 1 ODrop :: sr_evs2))) 0
                (skey seeded7 1 7) = None).
  { apply H.
    - unfold phased. cbn. intuition discriminate.
    - vm_compute. reflexivity.
    - right. split; [reflexivity|vm_compute; reflexivity].
    - vm_compute. reflexivity. }
  vm_compute in X. discriminate X.
Qed.
Print Assumptions C02_release_keyed_by_sequence_id_refuted.

(* suite "res2" (operations with their streams) evaluates, under [head], the
   function of suite "res" on the case with the sequence ids erased: every
   statement about the states of suite "res" (C02_suite_res_states_reachable,
   C02_bound_suite_res) is a statement about what the harness compares *)
Theorem C02_suite_res2_is_res : forall k, run_res2h k = run_res (erase_case_res k).
Proof. exact run_res2_head. Qed.
Print Assumptions C02_suite_res2_is_res.

(* suite "eng2": the operations of an ExecuteFlow call are run by [run_ops] of
   Model.v, and every state the suite goes through is, up to the verdict
   register, a reachable state *)
Theorem C02_suite_eng2_ops : forall c os ks r sq,
  base (fst (krun_ops head c ks r sq os)) = fst (run_ops c (base ks) r os) /\
  snd (krun_ops head c ks r sq os) = snd (run_ops c (base ks) r os).
Proof. exact krun_ops_head. Qed.
Print Assumptions C02_suite_eng2_ops.

Theorem C02_suite_eng2_states_reachable : forall rows es,
  exists s2, sbv (base (eevs2_state head (mkcfg rows) (kinit 0) es)) s2 /\ reachable (mkcfg rows) 0 s2.
Proof.
  intros rows es. apply (eevs2_reachable _ 0 es (kinit 0) (init 0)); [apply sbv_refl|].
  exists []. reflexivity.
Qed.
Print Assumptions C02_suite_eng2_states_reachable.

(* so the bound holds in every state the engine-level suite goes through (the
   analogue of C02_bound_suite_res for the function evaluated today; suite
   "eng" = run_eng3h steps with eevs2_state, C02_suite_eng3_is_eng2) *)
Theorem C02_bound_suite_eng2 : forall rows es q,
  Z.of_nat (length (members (base (eevs2_state head (mkcfg rows) (kinit 0) es)) q))
    <= Z.max 0 (cmax (mkcfg rows) q).
Proof.
  intros rows es q. destruct (C02_suite_eng2_states_reachable rows es) as [s2 [[_ [M _]] R]].
  rewrite M. apply (C02_bound _ _ _ R).
Qed.
Print Assumptions C02_bound_suite_eng2.

(* ====================================================================== *)
(* (H) the ends of a transaction the engine itself produces                *)

(* A quota id outside the rows of the configuration is a quota of another
   strategy (a rate limit): its processors only look it up ([PTouch]), which
   makes it the FIRST quota of the transaction when it comes first — then
   OnRequestDrop releases nothing of the concurrency side.

   Answered early: the engine calls OnRequestDrop, walks the response flows
   (the QuotaProcessorDec of every quota in [qs], in any order, each GetQuota +
   Dec) and finishes.  Run by an idle transaction from ANY state — whatever it
   holds, whichever quota it met first: it ends idle and without a status in
   every quota of [qs]; no other transaction's status changes.  The conclusion
   of the two "_frees_every_slot" statements is about STATUSES only: from an
   arbitrary state a member without status can exist and stays (Dec looks the
   member up through the status).  In a state reached by a phased schedule no
   such member exists (C02_release_once), and the composed statement — the
   transaction is no MEMBER of any quota of [qs] afterwards — is
   C02_end_frees_every_member below.  Quota ids are bounded by 48 only because
   the suites' fuel is 200. *)
Definition end_early (qs : list Z) : list pev2 := POld PGen :: decs qs ++ [POld PFinish].
Definition end_response (qs : list Z) : list pev2 := decs qs ++ [POld PFinish].

Definition C02_early_answer_frees_every_slot (v : variant) : Prop :=
  forall c, wf c -> forall s r qs,
    stk s (Req r) = [] ->
    (forall q, In q qs -> q <= 48) -> (forall q1, firstq s r = Some q1 -> q1 <= 48) ->
    let s' := fst (run_ops c s r (ops_of_trace v false (end_early qs))) in
    stk s' (Req r) = [] /\
    (forall q, In q qs -> status s' q r = None) /\
    (forall q r', r' <> r -> status s' q r' = status s q r').

Theorem C02_early_answer_frees_every_slot_head : C02_early_answer_frees_every_slot head.
Proof.
  intros c WF s r qs E Q F. cbn zeta. unfold end_early. cbn [ops_of_trace].
  rewrite ops_of_decs_head. cbn [ops_of_trace ops_of_pev app].
  destruct (release_ops c WF (ODrop :: flat_map (fun q => [OGetQ q; ODec q]) qs ++ [OFinish]) s r E)
    as [A [_ [B D]]].
  - cbn [forallb rel_op andb]. apply rel_flat. reflexivity.
  - intros o [<-|H]; [cbn; lia|]. apply (quota_flat qs [OFinish] o Q); [|exact H].
    intros o' [<-|[]]. cbn. lia.
  - exact F.
  - cbn zeta in *. split; [exact A|]. split; [|exact D].
    intros q H. apply B. right. apply dec_in_flat. exact H.
Qed.
Print Assumptions C02_early_answer_frees_every_slot_head.

(* the response walk alone (response processed) *)
Theorem C02_response_frees_every_slot : forall c, wf c -> forall s r qs,
  stk s (Req r) = [] ->
  (forall q, In q qs -> q <= 48) -> (forall q1, firstq s r = Some q1 -> q1 <= 48) ->
  let s' := fst (run_ops c s r (ops_of_trace head false (end_response qs))) in
  stk s' (Req r) = [] /\
  (forall q, In q qs -> status s' q r = None) /\
  (forall q r', r' <> r -> status s' q r' = status s q r').
Proof.
  intros c WF s r qs E Q F. cbn zeta. unfold end_response.
  rewrite ops_of_decs_head. cbn [ops_of_trace ops_of_pev app].
  destruct (release_ops c WF (flat_map (fun q => [OGetQ q; ODec q]) qs ++ [OFinish]) s r E)
    as [A [_ [B D]]].
  - apply rel_flat. reflexivity.
  - intros o H. apply (quota_flat qs [OFinish] o Q); [|exact H].
    intros o' [<-|[]]. cbn. lia.
  - exact F.
  - cbn zeta in *. split; [exact A|]. split; [|exact D].
    intros q H. apply B. apply dec_in_flat. exact H.
Qed.
Print Assumptions C02_response_frees_every_slot.

(* The two statements above composed with C02_release_once (audit 2): in a
   state reached by a PHASED schedule (acyclic configuration) an idle
   transaction that ends — response processed, or answered early — is
   afterwards no member of any quota whose Dec processor the walk ran: the slot
   itself is free, not only the status. *)
Theorem C02_end_frees_every_member : forall c t0 evs, wf c -> phased c t0 evs ->
  let s := run c (init t0) evs in
  forall r qs, stk s (Req r) = [] ->
    (forall q, In q qs -> q <= 48) -> (forall q1, firstq s r = Some q1 -> q1 <= 48) ->
    forall tr, tr = end_response qs \/ tr = end_early qs ->
    let s' := fst (run_ops c s r (ops_of_trace head false tr)) in
    forall q e, In q qs -> ~ In (e, r) (members s' q).
Proof.
  intros c t0 evs WF P s r qs E Q F tr Htr. cbn zeta.
  assert (X : exists pre, ops_of_trace head false tr =
                pre ++ flat_map (fun q => [OGetQ q; ODec q]) qs ++ [OFinish] /\ (pre = [] \/ pre = [ODrop])).
  { destruct Htr as [->| ->]; [exists []|exists [ODrop]]; (split; [|auto]).
    - unfold end_response. rewrite ops_of_decs_head. reflexivity.
    - unfold end_early. cbn [ops_of_trace]. rewrite ops_of_decs_head. reflexivity. }
  destruct X as [pre [-> Hpre]]. intros q e Hq.
  apply (release_ops_members c t0 evs WF P _ r E).
  - destruct Hpre as [->| ->]; cbn [app forallb rel_op andb]; apply rel_flat; reflexivity.
  - intros o H. destruct Hpre as [->| ->]; cbn [app] in H.
    + apply (quota_flat qs [OFinish] o Q); [|exact H]. intros o' [<-|[]]. cbn. lia.
    + destruct H as [<-|H]; [cbn; lia|]. apply (quota_flat qs [OFinish] o Q); [|exact H].
      intros o' [<-|[]]. cbn. lia.
  - exact F.
  - apply in_or_app. right. apply dec_in_flat. exact Hq.
Qed.
Print Assumptions C02_end_frees_every_member.

(* seeded C02-8: the QuotaProcessorDec does nothing in the walk that follows an
   early answer.  Rate limiter (quota id 1, outside the rows) first, then the
   concurrency limiter on quota 0; transaction 1 is admitted and answered
   early: the drop releases the rate quota only, the walk skips quota 0 — its
   status (and slot) stay until the expiry. *)
Definition ea_rows : list qrow := [(1, 2000000000, None)].
Definition ea_cfg : config := mkcfg ea_rows.
Definition ea_state : state := fst (run_ops ea_cfg (init 0) 1 [OGetQ 1; OGetQ 0; OInc 0; OAllowed 0]).

Example C02_ea_wf : wf ea_cfg.
Proof. apply C02_wfb_spec. vm_compute. reflexivity. Qed.

Theorem C02_early_answer_dec_skipped_refuted : ~ C02_early_answer_frees_every_slot seeded8.
Proof.
  intros H. destruct (H ea_cfg C02_ea_wf ea_state 1 [0]) as [_ [X _]].
  - vm_compute. reflexivity.
  - intros q [<-|[]]. lia.
  - intros q1 Fq. vm_compute in Fq. inversion Fq. lia.
  - specialize (X 0 (or_introl eq_refl)). vm_compute in X. discriminate X.
Qed.
Print Assumptions C02_early_answer_dec_skipped_refuted.

(* the hypotheses of the positive theorem hold in that (reachable) state, and
   the two variants side by side on the engine-level history the harness
   replays: transaction 0 admitted and answered early, then a fresh probe *)
Definition ea_script : list eev2 :=
  [Ev2Txn 0 0 [PTouch 1; POld (PLim 0); POld PGen; POld (PDec 0); POld PFinish];
   Ev2Txn 100 100 [PTouch 1; POld (PLim 0)]].

Example C02_ex_early_answer_after_rate_limiter :
  stk ea_state (Req 1) = [] /\ firstq ea_state 1 = Some 1 /\ status ea_state 0 1 = Some 2010000000 /\
  members ea_state 0 = [(2010000000, 1)] /\
  members (fst (run_ops ea_cfg ea_state 1 (ops_of_trace head false (end_early [0])))) 0 = [] /\
  members (fst (run_ops ea_cfg ea_state 1 (ops_of_trace seeded8 false (end_early [0])))) 0 = [(2010000000, 1)] /\
  run_eevs2 head ea_rows ea_cfg (kinit 0) ea_script = [([1], [0]); ([1], [1])] /\
  run_eevs2 seeded8 ea_rows ea_cfg (kinit 0) ea_script = [([1], [1]); ([0], [1])].
Proof. vm_compute. repeat split; reflexivity. Qed.

(* C02_end_frees_every_member is not vacuous: the state of the example above as
   a run of events (phased), transaction 1 idle and a member of quota 0; after
   the early-answer walk the set of quota 0 is empty *)
Definition ea_evs : list event :=
  flat_map (fun o => ECall (Req 1) o :: repeat (EStep (Req 1)) 8) [OGetQ 1; OGetQ 0; OInc 0; OAllowed 0].

Example C02_ex_end_frees_member :
  phased ea_cfg 0 ea_evs /\
  let s := run ea_cfg (init 0) ea_evs in
  stk s (Req 1) = [] /\ firstq s 1 = Some 1 /\ members s 0 = [(2010000000, 1)] /\
  members (fst (run_ops ea_cfg s 1 (ops_of_trace head false (end_early [0])))) 0 = [] /\
  members (fst (run_ops ea_cfg s 1 (ops_of_trace head false (end_response [0])))) 0 = [].
Proof.
  split; [apply C02_phasedb_spec; vm_compute; reflexivity|].
  vm_compute. repeat split; reflexivity.
Qed.

(* a retried call through the engine: transaction 1 carries the sequence id of
   transaction 0 while that one is still in flight (max 1), then both fail *)
Definition sq_script : list eev2 :=
  [Ev2Txn 0 0 [POld (PLim 0)]; Ev2Txn 1 0 [POld (PLim 0)]; Ev2Err 0;
   Ev2Txn 2 0 [POld (PLim 0)]; Ev2Err 2; Ev2Txn 100 100 [POld (PLim 0)]].

Example C02_ex_retried_call :
  run_eevs2 head sq_rows sq_cfg (kinit 0) sq_script =
    [([1], [1]); ([0], [1]); ([], [0]); ([1], [1]); ([], [0]); ([1], [1])] /\
  run_eevs2 seeded7 sq_rows sq_cfg (kinit 0) sq_script =
    [([1], [1]); ([1], [1]); ([], [0]); ([1], [1]); ([], [1]); ([0], [1])].
Proof. vm_compute. repeat split; reflexivity. Qed.
