(* C02 — final statements (work in progress) *)
From Coq Require Import List ZArith Bool.
From Verif Require Import C02.Model C02.Proofs.
Import ListNotations.
Open Scope Z_scope.
