(* C02 — Concurrency quotas bound in-flight requests and always free their
   slots.  Final statements only; proofs are in Proofs.v / Proofs2.v / Proofs3.v.

   Schedules are arbitrary lists of events of the small-step machine of
   Model.v: any transaction thread or GC thread executes its next lock region
   ([EStep]), an idle thread starts any operation ([ECall]), the clock moves
   forward ([ETick], monotone by construction).  [reachable c t0 s] = s is the
   state after some event list from the empty state at instant t0. *)
From Coq Require Import List ZArith Bool Lia.
From Verif Require Import C02.Model C02.Proofs C02.Proofs2 C02.Proofs3.
Import ListNotations.
Open Scope Z_scope.

(* ---- bound ---------------------------------------------------------- *)

(* After every schedule the member set of every quota has at most max
   elements, and the requests in flight under the quota (status of an admitted
   slot held, expiry not passed, release not begun: [inflight]) are pairwise
   different members of that set — so at every instant at most max
   transactions are in flight.  No hypothesis on the configuration or on what
   the transactions do. *)
Theorem C02_bound : forall c t0 s, reachable c t0 s -> forall q,
  Z.of_nat (length (members s q)) <= Z.max 0 (cmax c q) /\
  forall rs, NoDup rs -> (forall r, In r rs -> inflight s q r) ->
    (forall r, In r rs -> In r (map snd (members s q))) /\
    Z.of_nat (length rs) <= Z.max 0 (cmax c q).
Proof.
  intros c t0 s R q. assert (B := bound_reachable c t0 s R q). split; [exact B|].
  intros rs ND H. assert (I := Inv1_reachable c t0 s R). split.
  - intros r Hr. apply inflight_member; auto.
  - assert (L := inflight_count s q rs I ND H). lia.
Qed.
Print Assumptions C02_bound.

(* An admitted request whose Allowed verdict is being produced holds the
   status of the quota: the verdict "allowed" is only ever written by the
   status check of a root quota, and the check of a child passes control to
   its parent only when the child's status is held. *)
Theorem C02_admitted_holds_status : forall c s r q rest,
  stk s (Req r) = FACheck q :: rest ->
  let s' := step c s (EStep (Req r)) in
  (status s q r = None -> verdict s' r = Some false /\ stk s' (Req r) = rest) /\
  (status s q r <> None -> cpar c q = None -> verdict s' r = Some true /\ stk s' (Req r) = rest) /\
  (status s q r <> None -> forall p, cpar c q = Some p ->
     verdict s' r = verdict s r /\ stk s' (Req r) = FIncCheck p :: FACheck p :: rest).
Proof.
  intros c s r q rest E. cbn [step]. rewrite E. cbn [exec self].
  destruct (status s q r) eqn:S; repeat split; try congruence; intros;
    cbn [verdict stk set_stk set_verdict]; rewrite ?updt_same, ?upd_same; try reflexivity.
  - rewrite H0. cbn [verdict stk set_stk set_verdict]. rewrite upd_same. reflexivity.
  - rewrite H0. cbn [verdict stk set_stk set_verdict]. rewrite updt_same. reflexivity.
  - rewrite H0. reflexivity.
  - rewrite H0. cbn [verdict stk set_stk set_verdict]. rewrite updt_same. reflexivity.
Qed.
Print Assumptions C02_admitted_holds_status.

(* ---- release exactly once ------------------------------------------- *)

(* One event changes the member set of a quota in at most one way:
   nothing; one member appended by the stepping request while there is room;
   one occurrence removed that is the stepping request's OWN member (its Dec:
   response flow or drop); one occurrence removed by the GC of that quota whose
   expiry has passed ([e <= now]).  Nobody else's unexpired member is ever
   removed. *)
Theorem C02_release_once_step : forall c t0 s ev q, reachable c t0 s ->
  member_change c s ev q (members (step c s ev) q).
Proof.
  intros c t0 s ev q R. apply step_member_change. eapply Inv1_reachable; eauto.
Qed.
Print Assumptions C02_release_once_step.

(* A Dec of a request that holds no status in the quota (it was refused, or it
   released or lost the slot before) changes nothing: no count goes down a
   second time. *)
Theorem C02_second_dec_noop : forall c s r q,
  stk s (Req r) = [] -> status s q r = None ->
  let s1 := step c s (ECall (Req r) (ODec q)) in
  let s2 := step c s1 (EStep (Req r)) in
  stk s2 (Req r) = [] /\ members s2 = members s /\ status s2 = status s /\ firstq s2 = firstq s.
Proof. exact dec_without_status_noop. Qed.
Print Assumptions C02_second_dec_noop.

(* For every phased schedule (no transaction is asked to Inc/Allowed after it
   was asked to Dec/drop/finish) on an acyclic configuration: a request has at
   most one member per quota, so the one removal of C02_release_once_step is
   the only one there can be; and every member belongs to a request that
   holds its status or is just recording it. *)
Theorem C02_release_once : forall c t0 evs, wf c -> phased c t0 evs ->
  let s := run c (init t0) evs in
  forall q,
    NoDup (map snd (members s q)) /\
    forall e r, In (e, r) (members s q) ->
      status s q r = Some e \/ In (FSet q e) (stk s (Req r)).
Proof.
  intros c t0 evs WF P s q. destruct (Inv2_reachable c t0 evs WF P) as [g J].
  split; [apply (j_H g _ J)|apply (j_E g _ J)].
Qed.
Print Assumptions C02_release_once.

(* ---- no leak --------------------------------------------------------- *)

(* If, after a phased schedule, no request holds or is recording a status of
   quota q — every transaction that was admitted has ended: its Dec ran
   (response end flow or drop of its first chain), or the GC deleted its
   status after its expiry — then the member set of q is empty. *)
Theorem C02_no_leak : forall c t0 evs, wf c -> phased c t0 evs ->
  let s := run c (init t0) evs in
  forall q,
    (forall r, status s q r = None) ->
    (forall r e, ~ In (FSet q e) (stk s (Req r))) ->
    members s q = [].
Proof.
  intros c t0 evs WF P s q H1 H2. destruct (Inv2_reachable c t0 evs WF P) as [g J].
  destruct (members s q) as [|[e r] l] eqn:M; [reflexivity|]. exfalso.
  destruct (j_E g _ J q e r) as [A|A].
  - fold s. rewrite M. left. reflexivity.
  - fold s in A. rewrite H1 in A. discriminate.
  - exact (H2 r e A).
Qed.
Print Assumptions C02_no_leak.

(* Then a fresh probe is admitted: if no request holds or is recording a
   status on any quota of the chain of q and every max on the chain is
   positive, an idle request p without status that runs Allowed(q) (alone, to
   completion) gets the verdict "allowed". *)
Theorem C02_no_leak_probe : forall c t0 evs, wf c -> phased c t0 evs ->
  let s := run c (init t0) evs in
  forall q p,
    stk s (Req p) = [] ->
    (forall q', anc c q q' ->
       0 < cmax c q' /\ (forall r, status s q' r = None) /\
       (forall r e, ~ In (FSet q' e) (stk s (Req r)))) ->
    exists n,
      let s' := run c s (ECall (Req p) (OAllowed q) :: repeat (EStep (Req p)) n) in
      stk s' (Req p) = [] /\ verdict s' p = Some true.
Proof.
  intros c t0 evs WF P s q p E H. apply probe_admitted; [exact WF|exact E|].
  intros q' A. destruct (H q' A) as [Mx [H1 H2]]. split; [apply H1|].
  assert (X := C02_no_leak c t0 evs WF P q' H1 H2). cbn zeta in X. fold s in X.
  rewrite X. cbn. exact Mx.
Qed.
Print Assumptions C02_no_leak_probe.

(* The same without any history: whenever there is room on the whole chain, a
   request without status is admitted (no spurious refusal). *)
Theorem C02_room_admits : forall c, wf c -> forall s p q,
  stk s (Req p) = [] ->
  (forall q', anc c q q' ->
     status s q' p = None /\ Z.of_nat (length (members s q')) < cmax c q') ->
  exists n,
    let s' := run c s (ECall (Req p) (OAllowed q) :: repeat (EStep (Req p)) n) in
    stk s' (Req p) = [] /\ verdict s' p = Some true.
Proof. exact probe_admitted. Qed.
Print Assumptions C02_room_admits.

(* ---- the ways a slot is given back ----------------------------------- *)

(* Response: the Dec of a quota (QuotaProcessorDec of the end flow), run to
   completion by a request that holds the status of the whole chain, removes
   exactly its own member from every quota of the chain, deletes its statuses
   there, and changes no other quota and no other request's status. *)
Theorem C02_dec_releases_chain : forall c, wf c -> forall s r q,
  stk s (Req r) = [] ->
  (forall q', anc c q q' -> status s q' r <> None) ->
  exists n,
    let s' := run c s (ECall (Req r) (ODec q) :: repeat (EStep (Req r)) n) in
    stk s' (Req r) = [] /\
    (forall q', anc c q q' ->
       status s' q' r = None /\
       exists e, status s q' r = Some e /\ members s' q' = remove_first (e, r) (members s q')) /\
    (forall q', ~ anc c q q' -> members s' q' = members s q') /\
    (forall q' r', ~ anc c q q' \/ r' <> r -> status s' q' r' = status s q' r').
Proof.
  intros c WF s r q E H.
  set (s0 := step c s (ECall (Req r) (ODec q))).
  assert (E0 : stk s0 (Req r) = [FDec1 q]).
  { unfold s0. cbn [step]. rewrite E. cbn [op_fits frames_of stk set_stk]. apply updt_same. }
  assert (X0 : members s0 = members s /\ status s0 = status s).
  { unfold s0. cbn [step]. rewrite E. cbn [op_fits]. split; reflexivity. }
  destruct X0 as [M0 St0].
  destruct (dec_drain c WF q s0 [] r E0) as [n F]; [rewrite St0; exact H|].
  exists n. cbn zeta in *. rewrite alone_call. fold s0. rewrite M0, St0 in F. exact F.
Qed.
Print Assumptions C02_dec_releases_chain.

(* Early answer / proxy error: OnRequestDrop releases the chain of the FIRST
   quota the transaction was associated with (reqIDToQuota) ... *)
Theorem C02_drop_releases_first_chain : forall c, wf c -> forall s r q1,
  stk s (Req r) = [] -> firstq s r = Some q1 ->
  (forall q', anc c q1 q' -> status s q' r <> None) ->
  exists n,
    let s' := run c s (ECall (Req r) ODrop :: repeat (EStep (Req r)) n) in
    stk s' (Req r) = [] /\ firstq s' r = None /\
    (forall q', anc c q1 q' ->
       status s' q' r = None /\
       exists e, status s q' r = Some e /\ members s' q' = remove_first (e, r) (members s q')).
Proof.
  intros c WF s r q1 E F H.
  set (s0 := step c s (ECall (Req r) ODrop)).
  assert (E0 : stk s0 (Req r) = [FDrop]).
  { unfold s0. cbn [step]. rewrite E. cbn [op_fits frames_of stk set_stk]. apply updt_same. }
  assert (X0 : members s0 = members s /\ status s0 = status s /\ firstq s0 = firstq s).
  { unfold s0. cbn [step]. rewrite E. cbn [op_fits]. auto. }
  destruct X0 as [M0 [St0 F0]].
  set (s1 := exec c s0 (Req r) FDrop []).
  assert (E1 : stk s1 (Req r) = [FDec1 q1]).
  { unfold s1. cbn [exec self]. rewrite F0, F. cbn [stk set_stk]. apply updt_same. }
  assert (X1 : members s1 = members s /\ status s1 = status s /\ firstq s1 r = None).
  { unfold s1. cbn [exec self]. rewrite F0, F. cbn [members status firstq set_stk set_firstq].
    rewrite upd_same. auto. }
  destruct X1 as [M1 [St1 F1]].
  destruct (dec_drain c WF q1 s1 [] r E1) as [n [G1 [G2 [G3 G4]]]]; [rewrite St1; exact H|].
  cbn zeta in *. exists (1 + n)%nat. rewrite alone_call. fold s0. rewrite alone_add.
  assert (A1 : alone c s0 (Req r) 1 = s1) by (rewrite (alone_top c s0 _ _ _ _ E0); reflexivity).
  rewrite A1. split; [exact G1|]. split.
  - assert (D : dec_stack (anc c q1) (stk s1 (Req r))).
    { rewrite E1. intros f [<-|[]]. exists q1. split; [reflexivity|apply anc_refl]. }
    destruct (dec_alone_outside c (anc c q1) r (anc_closed c q1) n s1 D) as [_ [_ [_ [FF _]]]].
    cbn zeta in FF. rewrite FF. exact F1.
  - intros q' A. rewrite M1, St1 in G2. apply G2. exact A.
Qed.
Print Assumptions C02_drop_releases_first_chain.

(* ... and ONLY that chain: whatever the request holds, however long it runs,
   a drop changes no member set and no status of a quota outside the chain of
   the first-touched quota.  A slot the request holds in a second, unrelated
   quota stays where it is ... *)
Theorem C02_drop_only_first_chain : forall c s r q1 n,
  stk s (Req r) = [] -> firstq s r = Some q1 ->
  let s' := run c s (ECall (Req r) ODrop :: repeat (EStep (Req r)) n) in
  forall q2, ~ anc c q1 q2 ->
    members s' q2 = members s q2 /\ forall r', status s' q2 r' = status s q2 r'.
Proof.
  intros c s r q1 n E F. cbn zeta. rewrite alone_call.
  set (s0 := step c s (ECall (Req r) ODrop)).
  assert (E0 : stk s0 (Req r) = [FDrop]).
  { unfold s0. cbn [step]. rewrite E. cbn [op_fits frames_of stk set_stk]. apply updt_same. }
  assert (X0 : members s0 = members s /\ status s0 = status s /\ firstq s0 = firstq s).
  { unfold s0. cbn [step]. rewrite E. cbn [op_fits]. auto. }
  destruct X0 as [M0 [St0 F0]].
  destruct n as [|n]; [rewrite alone_0, M0, St0; auto|].
  rewrite (alone_top c s0 _ _ _ _ E0).
  set (s1 := exec c s0 (Req r) FDrop []).
  assert (E1 : stk s1 (Req r) = [FDec1 q1]).
  { unfold s1. cbn [exec self]. rewrite F0, F. cbn [stk set_stk]. apply updt_same. }
  assert (X1 : members s1 = members s /\ status s1 = status s).
  { unfold s1. cbn [exec self]. rewrite F0, F. auto. }
  destruct X1 as [M1 St1].
  assert (D : dec_stack (anc c q1) (stk s1 (Req r))).
  { rewrite E1. intros f [<-|[]]. exists q1. split; [reflexivity|apply anc_refl]. }
  destruct (dec_alone_outside c (anc c q1) r (anc_closed c q1) n s1 D) as [_ [G1 [G2 _]]].
  cbn zeta in *. intros q2 N. rewrite G1, M1 by exact N. split; [reflexivity|].
  intros r'. rewrite G2, St1; auto.
Qed.
Print Assumptions C02_drop_only_first_chain.

(* ... until its expiry passes: one GC pass of a quota (run alone) removes
   exactly the members whose expiry is <= now — every one of them, in one
   pass — deletes their requests' statuses in that quota, and keeps every
   unexpired member, in order; other quotas are untouched. *)
Theorem C02_gc_releases_expired : forall c s q,
  stk s (Gc q) = [] ->
  exists n,
    let s' := run c s (ECall (Gc q) (OGc q) :: repeat (EStep (Gc q)) n) in
    stk s' (Gc q) = [] /\
    members s' q = filter (fun m => now s <? fst m) (members s q) /\
    (forall e r, In (e, r) (members s q) -> e <= now s ->
       ~ In (e, r) (members s' q) /\ status s' q r = None) /\
    (forall q', q' <> q -> members s' q' = members s q' /\ forall r, status s' q' r = status s q' r).
Proof.
  intros c s q E. destruct (gc_pass c s q E) as [n [F1 [F2 [F3 [F4 [F5 [F6 F7]]]]]]].
  exists n. cbn zeta in *. split; [exact F1|]. split; [exact F2|]. split.
  - intros e r H L. split; [|eapply F5; eauto].
    rewrite F2. intros X. apply filter_In in X. destruct X as [_ X]. unfold live in X. cbn in X.
    apply Z.ltb_lt in X. lia.
  - intros q' N. split; [apply F4; exact N|intros r; apply F7; exact N].
Qed.
Print Assumptions C02_gc_releases_expired.

(* ---- the hypotheses are satisfiable ---------------------------------- *)

Definition ex_rows : list qrow := [(2, 1000000000, None); (1, 1000000000, Some 0); (1, 2000000000, None)].
Definition ex_cfg : config := mkcfg ex_rows.

Example C02_ex_wf : wf ex_cfg.
Proof.
  intros q p H. unfold ex_cfg, mkcfg in H. cbn [cpar] in H.
  destruct (Z.eqb_spec q 0) as [->|N0]; [vm_compute in H; discriminate|].
  destruct (Z.eqb_spec q 1) as [->|N1]; [vm_compute in H; inversion H; lia|].
  destruct (Z.eqb_spec q 2) as [->|N2]; [vm_compute in H; discriminate|].
  exfalso. unfold ex_rows, zth in H.
  apply Z.eqb_neq in N0. rewrite N0 in H.
  assert (Q1 : (q - 1 =? 0) = false) by (apply Z.eqb_neq; lia). rewrite Q1 in H.
  assert (Q2 : (q - 1 - 1 =? 0) = false) by (apply Z.eqb_neq; lia). rewrite Q2 in H.
  discriminate H.
Qed.

(* request 1 goes through the child quota 1 (parent 0) and the unrelated quota
   2, request 2 is refused by the full child, request 1 is dropped: the first
   chain is released, the slot in quota 2 stays; it goes with the GC pass after
   its expiry (2.01 s); a probe is admitted afterwards *)
Example C02_ex_history :
  run_rsteps ex_rows ex_cfg (init 0)
    [ROp 1 (OGetQ 1); ROp 1 (OAllowed 1); ROp 1 (OGetQ 2); ROp 1 (OAllowed 2);
     ROp 2 (OAllowed 1); ROp 1 ODrop; ROp 2 (OAllowed 1);
     RTick 2009999999; RGc 2; RTick 1; RGc 2; ROp 3 (OAllowed 2)]
  = [(-1, [0; 0; 0]); (1, [1; 1; 0]); (-1, [1; 1; 0]); (1, [1; 1; 1]);
     (0, [1; 1; 1]); (-1, [0; 0; 1]); (1, [1; 1; 1]);
     (-1, [1; 1; 1]); (-1, [1; 1; 1]); (-1, [1; 1; 1]); (-1, [1; 1; 0]); (1, [1; 1; 1])].
Proof. vm_compute. reflexivity. Qed.

Definition ex_evs : list event :=
  ECall (Req 1) (OAllowed 1) :: repeat (EStep (Req 1)) 12 ++
  ECall (Req 2) (OAllowed 1) :: repeat (EStep (Req 2)) 12.

(* a phased schedule after which request 1 is in flight under both quotas of
   its chain and request 2 was refused *)
Example C02_ex_inflight :
  phased ex_cfg 0 ex_evs /\
  let s := run ex_cfg (init 0) ex_evs in
  inflight s 1 1 /\ inflight s 0 1 /\ verdict s 1 = Some true /\ verdict s 2 = Some false /\
  status s 1 2 = None.
Proof.
  split; [unfold phased; cbn; intuition discriminate|].
  cbn zeta. split; [|split; [|split; [|split]]].
  - exists 1010000000. split; [vm_compute; reflexivity|].
    split; [vm_compute; reflexivity|vm_compute; tauto].
  - exists 1010000000. split; [vm_compute; reflexivity|].
    split; [vm_compute; reflexivity|vm_compute; tauto].
  - vm_compute; reflexivity.
  - vm_compute; reflexivity.
  - vm_compute; reflexivity.
Qed.
