(* C02 — lemmas, part 7: streams (transaction id + sequence id) and the ends of
   a transaction the engine itself produces.

   (a) Under [head] the machine over streams of Model2.v is the machine of
       Model.v on the schedule with the sequence ids erased ([krun_head]): the
       code never looks at the sequence id.  Every statement about all
       schedules therefore holds for all schedules of streams, whatever
       sequence ids they carry and share; the suites "res2" / "eng2" evaluate
       the same function as "res" / "eng".
   (b) The operations by which the engine ends a transaction (GetQuota / Dec of
       every quota of the response walk, OnRequestDrop, OnResponseFinish), run
       to completion one after the other by an idle request from an ARBITRARY
       state: the request ends without a status in every quota whose
       QuotaProcessorDec ran, nobody else's status changes
       ([release_ops]). *)
From Coq Require Import List ZArith Bool Lia.
From Verif Require Import C02.Model C02.Proofs C02.Proofs2 C02.Proofs3 C02.Proofs4 C02.Proofs5 C02.Phased C02.Model2.
Import ListNotations.
Open Scope Z_scope.

(* ------------------------------------------------------------------ *)
(* (a) the sequence id is irrelevant under [head]                       *)

Lemma exec2_same : forall c s r f rest, exec2 c s (Req r) r r f rest = exec c s (Req r) f rest.
Proof. intros c s r f rest. destruct f; reflexivity. Qed.

Lemma skey_head : forall r sq, skey head r sq = r.
Proof. reflexivity. Qed.

Lemma kstep_head : forall c ks ev, base (kstep head c ks ev) = step c (base ks) (erase ev).
Proof.
  intros c ks [r sq o|q|[r|q]|x]; cbn [kstep erase step].
  - destruct (stk (base ks) (Req r)); [destruct (op_fits (Req r) o)|]; reflexivity.
  - reflexivity.
  - destruct (stk (base ks) (Req r)) as [|f rest]; [reflexivity|].
    cbn [base]. rewrite skey_head. apply exec2_same.
  - reflexivity.
  - reflexivity.
Qed.

Lemma krun_head : forall c evs ks, base (krun head c ks evs) = run c (base ks) (map erase evs).
Proof.
  intros c. induction evs as [|ev evs IH]; intros ks; [reflexivity|].
  cbn [krun run fold_left map]. unfold krun, run in IH. rewrite IH, kstep_head. reflexivity.
Qed.

Lemma krun_app : forall v c evs1 evs2 ks, krun v c ks (evs1 ++ evs2) = krun v c (krun v c ks evs1) evs2.
Proof. intros. unfold krun. apply fold_left_app. Qed.

Lemma ksteps_head : forall c n t ks, base (ksteps head c n t ks) = steps c n t (base ks).
Proof.
  intros c. induction n as [|n IH]; intros t ks; [reflexivity|].
  cbn [ksteps steps]. destruct (stk (base ks) t); [reflexivity|].
  rewrite IH, kstep_head. reflexivity.
Qed.

Lemma krun_op_head : forall c fuel ks r sq o,
  base (krun_op head c fuel ks r sq o) = run_op c fuel (base ks) (Req r) o.
Proof. intros. unfold krun_op, run_op. rewrite ksteps_head, kstep_head. reflexivity. Qed.

(* ---- suite "res2" evaluates suite "res" ---- *)
Definition erase_rstep (x : rstep2) : rstep :=
  match x with R2Tick dt => RTick dt | R2Op r _ o => ROp r o | R2Gc q => RGc q end.

Lemma do_rstep2_head : forall c ks x,
  base (fst (do_rstep2 head c ks x)) = fst (do_rstep c (base ks) (erase_rstep x)) /\
  snd (do_rstep2 head c ks x) = snd (do_rstep c (base ks) (erase_rstep x)).
Proof.
  intros c ks [dt|r sq o|q]; cbn [do_rstep2 do_rstep erase_rstep fst snd].
  - split; [apply kstep_head|reflexivity].
  - rewrite krun_op_head. cbn [kclear base]. split; reflexivity.
  - cbn [kgc base]. split; reflexivity.
Qed.

Lemma run_rsteps2_head : forall rows c xs ks,
  run_rsteps2 head rows c ks xs = run_rsteps rows c (base ks) (map erase_rstep xs).
Proof.
  intros rows c. induction xs as [|x xs IH]; intros ks; [reflexivity|].
  cbn [run_rsteps2 run_rsteps map].
  destruct (do_rstep2_head c ks x) as [A B].
  destruct (do_rstep2 head c ks x) as [ks' w]. destruct (do_rstep c (base ks) (erase_rstep x)) as [s' w'].
  cbn [fst snd] in A, B. subst. rewrite IH. reflexivity.
Qed.

Definition erase_case_res (k : case_res2) : case_res :=
  (fst k, map (fun p => (erase_rstep (fst p), snd p)) (snd k)).

Lemma run_res2_head : forall k, run_res2 head k = run_res (erase_case_res k).
Proof.
  intros [rows script]. unfold run_res2, run_res, erase_case_res. cbn [fst snd].
  rewrite run_rsteps2_head. cbn [kinit base]. rewrite !map_map. cbn [fst snd]. reflexivity.
Qed.

(* ---- suite "eng2": the operations of a call are run by [run_ops] ---- *)
Lemma krun_ops_head : forall c os ks r sq,
  base (fst (krun_ops head c ks r sq os)) = fst (run_ops c (base ks) r os) /\
  snd (krun_ops head c ks r sq os) = snd (run_ops c (base ks) r os).
Proof.
  intros c. induction os as [|o os IH]; intros ks r sq; [split; reflexivity|].
  cbn [krun_ops run_ops].
  assert (E : base (krun_op head c fuel0 (kclear ks r) r sq o) =
              run_op c fuel0 (clear_verdict (base ks) r) (Req r) o) by apply krun_op_head.
  destruct (IH (krun_op head c fuel0 (kclear ks r) r sq o) r sq) as [A B].
  destruct (krun_ops head c (krun_op head c fuel0 (kclear ks r) r sq o) r sq os) as [ks2 ws].
  rewrite E in A, B. rewrite E.
  destruct (run_ops c (run_op c fuel0 (clear_verdict (base ks) r) (Req r) o) r os) as [s2 ws'].
  cbn [fst snd] in *. subst. split; reflexivity.
Qed.

Definition eevs2_state (v : variant) (c : config) (ks : kstate) (es : list eev2) : kstate :=
  fold_left (fun a e => fst (do_eev2 v c a e)) es ks.

Lemma do_eev2_events : forall c ks e, exists evs, sbv (base (fst (do_eev2 head c ks e))) (run c (base ks) evs).
Proof.
  intros c ks [r sq trace|r|dt|qs]; cbn [do_eev2].
  - destruct (krun_ops_head c (ops_of_trace head false trace) ks r sq) as [A _]. rewrite A.
    destruct (run_ops_events c (ops_of_trace head false trace) (base ks) r) as [evs [H _]]. eauto.
  - destruct (krun_ops_head c [ODrop] ks r r) as [A _]. rewrite A.
    destruct (run_ops_events c [ODrop] (base ks) r) as [evs [H _]]. eauto.
  - cbn [fst]. rewrite kstep_head. exists [ETick (now (base ks) + dt)]. apply sbv_refl.
  - assert (G : forall qs a, exists evs,
      sbv (base (fst (fold_left (fun (a : kstate * list Z) q =>
                   let ks' := kgc c fuel0 (fst a) q in
                   (ks', match stk (base ks') (Gc q) with [] => snd a | _ :: _ => -99 :: snd a end)) qs a)))
          (run c (base (fst a)) evs)).
    { induction qs0 as [|q qs0 IH]; intros a; cbn [fold_left].
      - exists []. apply sbv_refl.
      - destruct (IH (kgc c fuel0 (fst a) q,
                     match stk (base (kgc c fuel0 (fst a) q)) (Gc q) with
                     | [] => snd a | _ :: _ => -99 :: snd a end)) as [evs H].
        cbn [fst] in H. cbn [kgc base] in H.
        exists ((ECall (Gc q) (OGc q) :: repeat (EStep (Gc q)) fuel0) ++ evs).
        rewrite run_app, <- run_op_run. exact H. }
    destruct (G qs (ks, [])) as [evs H]. exists evs. exact H.
Qed.

Lemma eevs2_reachable : forall c t0 es ks s', sbv (base ks) s' -> reachable c t0 s' ->
  exists s2, sbv (base (eevs2_state head c ks es)) s2 /\ reachable c t0 s2.
Proof.
  intros c t0. induction es as [|e es IH]; intros ks s' H R; cbn.
  - exists s'. auto.
  - destruct (do_eev2_events c ks e) as [evs X].
    apply (IH _ (run c s' evs)).
    + eapply sbv_trans; [exact X|]. apply sbv_run. exact H.
    + destruct R as [evs0 ->]. exists (evs0 ++ evs). rewrite run_app. reflexivity.
Qed.

(* ---- transactions in flight, whatever sequence ids they carry ---- *)

(* transaction r is in flight under q: the status the code finds for the stream
   of r's latest call is held, unexpired, and its release has not begun *)
Definition kinflight (v : variant) (ks : kstate) (q r : Z) : Prop :=
  inflight (base ks) q (skey v r (cur ks r)).

Lemma reachable_krun_head : forall c t0 evs, reachable c t0 (base (krun head c (kinit t0) evs)).
Proof. intros c t0 evs. exists (map erase evs). rewrite krun_head. reflexivity. Qed.

Lemma bound_transactions_head : forall c t0 evs q rs,
  let ks := krun head c (kinit t0) evs in
  NoDup rs -> (forall r, In r rs -> kinflight head ks q r) ->
  (forall r, In r rs -> In r (map snd (members (base ks) q))) /\
  Z.of_nat (length rs) <= Z.max 0 (cmax c q).
Proof.
  intros c t0 evs q rs ks ND H.
  assert (R := reachable_krun_head c t0 evs). fold ks in R.
  assert (I := Inv1_reachable c t0 _ R). assert (B := bound_reachable c t0 _ R q).
  assert (H' : forall r, In r rs -> inflight (base ks) q r).
  { intros r Hr. exact (H r Hr). }
  split.
  - intros r Hr. apply inflight_member; auto.
  - assert (L := inflight_count (base ks) q rs I ND H'). lia.
Qed.

(* ------------------------------------------------------------------ *)
(* (b) the operations that end a transaction                            *)

Ltac proj7 :=
  cbn [now members status firstq stk verdict set_now set_members set_status
       set_firstq set_stk set_verdict clear_verdict] in *.

Definition rel_op (o : op) : bool :=
  match o with OGetQ _ | ODec _ | ODrop | OFinish => true | _ => false end.

Definition op_quota (o : op) : Z :=
  match o with OGetQ q | OInc q | OAllowed q | ODec q | OGc q => q | ODrop | OFinish => 0 end.

(* one-frame operations, run with any positive fuel *)
Lemma run_op_getq : forall c fuel s r q, stk s (Req r) = [] -> (1 <= fuel)%nat ->
  let s' := run_op c fuel s (Req r) (OGetQ q) in
  stk s' (Req r) = [] /\ status s' = status s /\ members s' = members s /\
  (firstq s' r = firstq s r \/ (firstq s r = None /\ firstq s' r = Some q)).
Proof.
  intros c fuel s r q E F. cbn zeta.
  assert (X : let s1 := run c s [ECall (Req r) (OGetQ q); EStep (Req r)] in
              stk s1 (Req r) = [] /\ status s1 = status s /\ members s1 = members s /\
              (firstq s1 r = firstq s r \/ (firstq s r = None /\ firstq s1 r = Some q))).
  { cbn [run fold_left step]. rewrite E. cbn [op_fits frames_of]. proj7. rewrite updt_same.
    cbn [exec self]. proj7. destruct (firstq s r) eqn:Fq; proj7; rewrite ?updt_same, ?upd_same; repeat split; auto. }
  cbn zeta in X.
  rewrite (run_op_fuel c fuel s (Req r) (OGetQ q) 1); [exact X| apply X | left; lia].
Qed.

Lemma run_op_finish : forall c fuel s r, stk s (Req r) = [] -> (1 <= fuel)%nat ->
  let s' := run_op c fuel s (Req r) OFinish in
  stk s' (Req r) = [] /\ status s' = status s /\ members s' = members s /\ firstq s' r = None.
Proof.
  intros c fuel s r E F. cbn zeta.
  assert (X : let s1 := run c s [ECall (Req r) OFinish; EStep (Req r)] in
              stk s1 (Req r) = [] /\ status s1 = status s /\ members s1 = members s /\ firstq s1 r = None).
  { cbn [run fold_left step]. rewrite E. cbn [op_fits frames_of]. proj7. rewrite updt_same.
    cbn [exec self]. proj7. rewrite updt_same, upd_same. repeat split; auto. }
  cbn zeta in X.
  rewrite (run_op_fuel c fuel s (Req r) OFinish 1); [exact X| apply X | left; lia].
Qed.

Lemma run_op_dec_status : forall c, wf c -> forall fuel s r q,
  stk s (Req r) = [] -> 4 * Z.max 0 q + 5 <= Z.of_nat fuel ->
  let s' := run_op c fuel s (Req r) (ODec q) in
  stk s' (Req r) = [] /\ status s' q r = None /\
  (forall q', status s q' r = None -> status s' q' r = None) /\
  (forall q' r', r' <> r -> status s' q' r' = status s q' r') /\
  firstq s' = firstq s.
Proof.
  intros c WF fuel s r q E B. cbn zeta.
  destruct (dec_prefix c WF s r q E) as [n [Bn [G1 [G2 [_ [G4 [G5 _]]]]]]]. cbn zeta in *.
  rewrite (run_op_fuel c fuel s (Req r) (ODec q) n G1) by (left; lia).
  set (s' := run c s (ECall (Req r) (ODec q) :: repeat (EStep (Req r)) n)) in *.
  split; [exact G1|]. split; [|split; [|split]].
  - destruct (status s' q r) as [e|] eqn:S; [exfalso|reflexivity].
    assert (N : ~ held c s r q q).
    { intros H. destruct (G2 q H) as [X _]. congruence. }
    rewrite (G4 q r (or_introl N)) in S. apply N. apply held_here. congruence.
  - intros q' S0. destruct (status s' q' r) as [e|] eqn:S; [exfalso|reflexivity].
    assert (N : ~ held c s r q q').
    { intros H. destruct (G2 q' H) as [X _]. congruence. }
    rewrite (G4 q' r (or_introl N)) in S. congruence.
  - intros q' r' N. apply G4. right. exact N.
  - exact G5.
Qed.

Lemma run_op_drop_status : forall c, wf c -> forall fuel s r,
  stk s (Req r) = [] ->
  (forall q1, firstq s r = Some q1 -> 4 * Z.max 0 q1 + 6 <= Z.of_nat fuel) -> (2 <= fuel)%nat ->
  let s' := run_op c fuel s (Req r) ODrop in
  stk s' (Req r) = [] /\ firstq s' r = None /\
  (forall q', status s q' r = None -> status s' q' r = None) /\
  (forall q' r', r' <> r -> status s' q' r' = status s q' r').
Proof.
  intros c WF fuel s r E B F2. cbn zeta.
  destruct (firstq s r) as [q1|] eqn:Fq.
  - destruct (drop_prefix c WF s r q1 E Fq) as [n [Bn [G1 [G2 [_ [G3 [_ [G5 _]]]]]]]]. cbn zeta in *.
    specialize (B q1 eq_refl).
    rewrite (run_op_fuel c fuel s (Req r) ODrop n G1) by (left; lia).
    set (s' := run c s (ECall (Req r) ODrop :: repeat (EStep (Req r)) n)) in *.
    split; [exact G1|]. split; [exact G2|]. split.
    + intros q' S0. destruct (status s' q' r) as [e|] eqn:S; [exfalso|reflexivity].
      assert (N : ~ held c s r q1 q').
      { intros H. destruct (G3 q' H) as [X _]. congruence. }
      rewrite (G5 q' r (or_introl N)) in S. congruence.
    + intros q' r' N. apply G5. right. exact N.
  - destruct (drop_without_quota c s r E Fq) as [D1 [_ [D3 D4]]]. cbn zeta in *.
    rewrite (run_op_fuel c fuel s (Req r) ODrop 1); [|exact D1|left; lia].
    cbn [repeat]. split; [exact D1|]. split; [rewrite D4; exact Fq|]. split.
    + intros q' S0. rewrite D3. exact S0.
    + intros q' r' N. rewrite D3. reflexivity.
Qed.

(* the release operations of a call, one after the other, by an idle request,
   from ANY state *)
Lemma release_ops : forall c, wf c -> forall os s r,
  stk s (Req r) = [] -> forallb rel_op os = true ->
  (forall o, In o os -> op_quota o <= 48) ->
  (forall q1, firstq s r = Some q1 -> q1 <= 48) ->
  let s' := fst (run_ops c s r os) in
  stk s' (Req r) = [] /\
  (forall q, status s q r = None -> status s' q r = None) /\
  (forall q, In (ODec q) os -> status s' q r = None) /\
  (forall q r', r' <> r -> status s' q r' = status s q r').
Proof.
  intros c WF. induction os as [|o os IH]; intros s r E R Q F; cbn zeta.
  - cbn [run_ops fst]. repeat split; auto. intros q [].
  - cbn [run_ops]. cbn [forallb] in R. apply andb_prop in R. destruct R as [Ro Ros].
    set (s0 := clear_verdict s r).
    assert (E0 : stk s0 (Req r) = []) by exact E.
    set (s1 := run_op c fuel0 s0 (Req r) o).
    assert (Qo : op_quota o <= 48) by (apply Q; left; reflexivity).
    assert (Qs : forall o', In o' os -> op_quota o' <= 48) by (intros o' H; apply Q; right; exact H).
    assert (K : stk s1 (Req r) = [] /\
                (forall q, status s q r = None -> status s1 q r = None) /\
                (forall q, o = ODec q -> status s1 q r = None) /\
                (forall q r', r' <> r -> status s1 q r' = status s q r') /\
                (forall q1, firstq s1 r = Some q1 -> q1 <= 48)).
    { destruct o as [q|q|q|q| | |q]; try discriminate Ro; cbn [op_quota] in Qo.
      - destruct (run_op_getq c fuel0 s0 r q E0) as [A [B [_ D]]]; [unfold fuel0; lia|]. fold s1 in A, B, D.
        split; [exact A|]. split; [intros q' S; rewrite B; exact S|]. split; [intros q' X; discriminate X|].
        split; [intros q' r' N; rewrite B; reflexivity|].
        intros q1 Fq. destruct D as [D|[_ D]].
        + apply F. change (firstq s0 r = Some q1). rewrite <- D. exact Fq.
        + rewrite D in Fq. inversion Fq. lia.
      - destruct (run_op_dec_status c WF fuel0 s0 r q E0) as [A [B [C [D G]]]]; [unfold fuel0; lia|].
        fold s1 in A, B, C, D, G.
        split; [exact A|]. split; [intros q' S; apply C; exact S|].
        split; [intros q' X; inversion X; subst; exact B|].
        split; [intros q' r' N; apply D; exact N|].
        intros q1 Fq. rewrite G in Fq. apply F. exact Fq.
      - destruct (run_op_drop_status c WF fuel0 s0 r E0) as [A [B [C D]]].
        { intros q1 Fq. specialize (F q1 Fq). unfold fuel0. lia. }
        { unfold fuel0. lia. }
        fold s1 in A, B, C, D.
        split; [exact A|]. split; [intros q' S; apply C; exact S|]. split; [intros q' X; discriminate X|].
        split; [intros q' r' N; apply D; exact N|].
        intros q1 Fq. rewrite B in Fq. discriminate Fq.
      - destruct (run_op_finish c fuel0 s0 r E0) as [A [B [_ D]]]; [unfold fuel0; lia|]. fold s1 in A, B, D.
        split; [exact A|]. split; [intros q' S; rewrite B; exact S|]. split; [intros q' X; discriminate X|].
        split; [intros q' r' N; rewrite B; reflexivity|].
        intros q1 Fq. rewrite D in Fq. discriminate Fq. }
    destruct K as [K1 [K2 [K3 [K4 K5]]]].
    destruct (IH s1 r K1 Ros Qs K5) as [J1 [J2 [J3 J4]]]. cbn zeta in *.
    destruct (run_ops c s1 r os) as [s2 vs] eqn:X. cbn [fst] in *.
    split; [exact J1|]. split; [|split].
    + intros q S. apply J2. apply K2. exact S.
    + intros q [H|H].
      * apply J2. apply K3. exact H.
      * apply J3. exact H.
    + intros q r' N. rewrite J4, K4; auto.
Qed.

(* what the walks look like as operations, under [head] *)
Definition decs (qs : list Z) : list pev2 := map (fun q => POld (PDec q)) qs.

Lemma ops_of_decs_head : forall early qs tail,
  ops_of_trace head early (decs qs ++ tail) =
  flat_map (fun q => [OGetQ q; ODec q]) qs ++ ops_of_trace head early tail.
Proof.
  intros early. induction qs as [|q qs IH]; intros tail; [reflexivity|].
  cbn [decs map app ops_of_trace flat_map]. cbn [head dec_skips_after_early andb].
  fold (decs qs). rewrite IH. reflexivity.
Qed.

Lemma rel_flat : forall qs tail, forallb rel_op tail = true ->
  forallb rel_op (flat_map (fun q => [OGetQ q; ODec q]) qs ++ tail) = true.
Proof. induction qs as [|q qs IH]; intros tail H; cbn; auto. Qed.

Lemma quota_flat : forall qs tail o, (forall q, In q qs -> q <= 48) ->
  (forall o', In o' tail -> op_quota o' <= 48) ->
  In o (flat_map (fun q => [OGetQ q; ODec q]) qs ++ tail) -> op_quota o <= 48.
Proof.
  induction qs as [|q qs IH]; intros tail o Hq Ht H; cbn in H.
  - apply Ht. exact H.
  - destruct H as [<-|[<-|H]]; cbn [op_quota].
    + apply Hq. left. reflexivity.
    + apply Hq. left. reflexivity.
    + apply (IH tail); auto. intros q' Hq'. apply Hq. right. exact Hq'.
Qed.

Lemma dec_in_flat : forall qs tail q, In q qs ->
  In (ODec q) (flat_map (fun q => [OGetQ q; ODec q]) qs ++ tail).
Proof.
  induction qs as [|q0 qs IH]; intros tail q H; [destruct H|].
  cbn. destruct H as [->|H]; [right; left; reflexivity|right; right; apply IH; exact H].
Qed.
