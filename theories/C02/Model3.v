(* C02 — third layer of the model: quota FILTERS and the selection of the
   system flows.

   The slot of a transaction is given back on its response by the quota's
   system END flow (QuotaProcessorDec); the slot of a quota no user flow
   references is taken by its system START flow (QuotaProcessorInc).  Both carry
   the quota's own filter and are selected per stream by FilterTree.GetFlow ->
   FilterNode.validate (filter_lookup_validation.go):

     URL          the URL tree (both directions: a response stream carries the
                  URL of its request);
     method       evaluated on both directions (a response stream carries the
                  method of its request; no method declared = GET POST PUT
                  DELETE PATCH);
     headers      request streams only: `if APIStream.GetType().IsResponseType()
                  { return true }` (values of one key are alternatives,
                  different keys must all be met);
     query params request streams only.

   A response is not an echo of its request: the provider's headers, no query
   string.  The stream of the walk that follows an early answer has type
   response but no response object: it still carries the request's headers.

   Variant switch [hdr_on_resp]: false = HEAD; true = seeded change C02-9 (the
   header requirements are evaluated on response streams too, against the
   headers of the stream's own direction).

   Strings are interned by the harness (numbers).  Executable definitions only. *)
From Coq Require Import List ZArith Bool.
From Verif Require Import C02.Model C02.Model2.
Import ListNotations.
Open Scope Z_scope.

(* what a quota declares: f_decl = false: a child limit without a filter of its
   own (it shares its parent's); f_path = 0: "<host>/*", p: "<host>/<p>/*" *)
Record qfilter := mkF { f_decl : bool; f_path : Z; f_methods : list Z;
                        f_headers : list (Z * Z); f_query : list (Z * Z) }.

(* one stream: a_resp = its type is response; a_headers = the headers the
   stream's header lookup sees *)
Record sattr := mkA { a_resp : bool; a_path : Z; a_method : Z;
                      a_headers : list (Z * Z); a_query : list (Z * Z) }.

Record variant3 := { hdr_on_resp : bool }.
Definition head3 : variant3 := {| hdr_on_resp := false |}.
Definition seeded9 : variant3 := {| hdr_on_resp := true |}.

Definition zmem (x : Z) (l : list Z) : bool := existsb (Z.eqb x) l.
Definition kv_eqb (a b : Z * Z) : bool := (fst a =? fst b) && (snd a =? snd b).
Definition kvmem (x : Z * Z) (l : list (Z * Z)) : bool := existsb (kv_eqb x) l.

(* Filter.Extend: the child's filter extended by its parent's *)
Definition extend (f p : qfilter) : qfilter :=
  {| f_decl := true;
     f_path := if f_path f =? 0 then f_path p else f_path f;
     f_methods := f_methods f ++ filter (fun m => negb (zmem m (f_methods f))) (f_methods p);
     f_headers := f_headers f ++ filter (fun kv => negb (kvmem kv (f_headers f))) (f_headers p);
     f_query := f_query f ++ filter (fun kv => negb (kvmem kv (f_query f))) (f_query p) |}.

Definition f_none : qfilter := mkF true 0 [] [] [].

(* the effective filter of every quota, in declaration order (parent before child) *)
Fixpoint effs (rows : list qrow) (fs : list qfilter) (acc : list qfilter) : list qfilter :=
  match rows, fs with
  | (_, _, par) :: rows', f :: fs' =>
      let e := match par with
               | None => f
               | Some p => let pe := nth (Z.to_nat p) acc f_none in
                           if f_decl f then extend f pe else pe
               end in
      effs rows' fs' (acc ++ [e])
  | _, _ => acc
  end.

Definition path_ok (f : qfilter) (a : sattr) : bool := (f_path f =? 0) || (f_path f =? a_path a).

Definition method_ok (f : qfilter) (a : sattr) : bool :=
  match f_methods f with
  | [] => zmem (a_method a) [1; 2; 3]     (* GET POST PUT (DELETE, PATCH: not generated) *)
  | ms => zmem (a_method a) ms
  end.

(* Every key the filter names is present with one of the values the filter
   lists for it.  The alternatives of a key are grouped by the key AS WRITTEN
   (isHeadersQualified: headerMap[data.Key]; "X-Plan" and "x-plan" are two
   groups and each must be met), the stream is asked for the lower-cased name
   (GetHeader).  Interning: a key that is not all lower-case = 100 + the id of
   its lower-case form; [lowk] = the name the stream is asked for. *)
Definition lowk (k : Z) : Z := Z.modulo k 100.
Definition headers_ok (want have : list (Z * Z)) : bool :=
  forallb (fun kv => existsb (fun kv' => (fst kv' =? fst kv) && kvmem (lowk (fst kv'), snd kv') have) want) want.

Definition query_ok (want have : list (Z * Z)) : bool := forallb (fun kv => kvmem kv have) want.

(* FilterNode.validate for a system flow that carries filter f, on stream a *)
Definition sel (v : variant3) (f : qfilter) (a : sattr) : bool :=
  path_ok f a && method_ok f a &&
  (if a_resp a
   then (if hdr_on_resp v then headers_ok (f_headers f) (a_headers a) else true)
   else headers_ok (f_headers f) (a_headers a) && query_ok (f_query f) (a_query a)).

(* the quotas (indices) whose system flows are selected for stream a *)
Fixpoint sel_from (v : variant3) (i : Z) (fs : list qfilter) (a : sattr) : list Z :=
  match fs with
  | [] => []
  | f :: rest => (if sel v f a then [i] else []) ++ sel_from v (i + 1) rest a
  end.
Definition sel_list (v : variant3) (fs : list qfilter) (a : sattr) : list Z := sel_from v 0 fs a.

(* the stream of the walk over the response flows that follows an early answer:
   type response, no response object — the request's headers are still seen *)
Definition as_walk (a : sattr) : sattr := mkA true (a_path a) (a_method a) (a_headers a) (a_query a).

(* ---- what the trace of one ExecuteFlow call shows ---- *)
Fixpoint incs_of (tr : list pev2) : list Z :=
  match tr with
  | [] => []
  | POld (PInc q _) :: rest => q :: incs_of rest
  | _ :: rest => incs_of rest
  end.
Fixpoint decs_of (tr : list pev2) : list Z :=
  match tr with
  | [] => []
  | POld (PDec q) :: rest => q :: decs_of rest
  | _ :: rest => decs_of rest
  end.
Fixpoint has_gen (tr : list pev2) : bool :=
  match tr with
  | [] => false
  | POld PGen :: _ => true
  | _ :: rest => has_gen rest
  end.

Definition set_eqb (a b : list Z) : bool :=
  forallb (fun x => zmem x b) a && forallb (fun x => zmem x a) b.

(* what the model expects of a call: (system-start Inc processors run, system-end Dec processors run) *)
Definition expect (v : variant3) (fs : list qfilter) (tr : list pev2) (a : sattr) : list Z * list Z :=
  if a_resp a then ([], sel_list v fs a)
  else (sel_list v fs a, if has_gen tr then sel_list v fs (as_walk a) else []).

Definition call_ok (v : variant3) (fs : list qfilter) (tr : list pev2) (a : sattr) : bool :=
  let '(i, d) := expect v fs tr a in
  (if a_resp a then true else set_eqb (incs_of tr) i) && set_eqb (decs_of tr) d.

Fixpoint calls_ok (v : variant3) (fs : list qfilter) (es : list eev2) (ats : list (option sattr)) : bool :=
  match es, ats with
  | [], [] => true
  | Ev2Txn _ _ tr :: es', Some a :: ats' => call_ok v fs tr a && calls_ok v fs es' ats'
  | Ev2Txn _ _ _ :: _, _ => false
  | _ :: es', _ :: ats' => calls_ok v fs es' ats'
  | _, _ => false
  end.

Fixpoint expects (v : variant3) (fs : list qfilter) (es : list eev2) (ats : list (option sattr)) : list (list Z * list Z) :=
  match es, ats with
  | Ev2Txn _ _ tr :: es', Some a :: ats' => expect v fs tr a :: expects v fs es' ats'
  | _ :: es', _ :: ats' => ([], []) :: expects v fs es' ats'
  | _, _ => []
  end.

(* ------------------------------------------------------------------ *)
(* suite "eng3": ExecuteFlow calls with their streams' attributes, quotas with filters *)

Definition case_eng3 := (list qfilter * list (option sattr) * case_eng2)%type.

Definition run_eng3 (v : variant) (v3 : variant3) (k : case_eng3) : option (list eobs * list (list Z * list Z)) :=
  let '(fs, ats, k2) := k in
  let '(rows, script) := k2 in
  let m := run_eevs2 v rows (mkcfg rows) (kinit 0) (map fst script) in
  let ef := effs rows fs [] in
  if wfb rows && eobs_eqb m (map snd script) && (Z.of_nat (length fs) =? Z.of_nat (length rows))
     && calls_ok v3 ef (map fst script) ats
  then None else Some (m, expects v3 ef (map fst script) ats).

(* what the harness evaluates: the code as it is *)
Definition run_eng3h : case_eng3 -> option (list eobs * list (list Z * list Z)) := run_eng3 head head3.
