(* C02 — lemmas for suite [member] (extension 4): what an accepted case says. *)
From Coq Require Import List ZArith Bool Lia.
From Verif Require Import C02.Model4.
Import ListNotations.
Open Scope Z_scope.

Lemma str_eqb_eq : forall a b, str_eqb a b = true -> a = b.
Proof.
  induction a as [|x a IH]; intros [|y b] H; cbn in H; try discriminate; [reflexivity|].
  apply andb_true_iff in H. destruct H as [Hx Hr].
  apply Z.eqb_eq in Hx. rewrite Hx, (IH b Hr). reflexivity.
Qed.

Lemma parsed_eqb_eq : forall a b, parsed_eqb a b = true -> a = b.
Proof.
  intros [[[x r] i]|] [[[y r'] i']|] H; cbn in H; try discriminate; [|reflexivity].
  apply andb_true_iff in H. destruct H as [H Hi].
  apply andb_true_iff in H. destruct H as [Hx Hr].
  apply Z.eqb_eq in Hx. rewrite Hx, (str_eqb_eq _ _ Hr), (str_eqb_eq _ _ Hi). reflexivity.
Qed.

(* the three comparisons of an accepted case, as equalities *)
Lemma run_member_accepted : forall k, run_member k = None ->
  (forall g ttl, cm_gen k = Some (g, ttl) ->
     cm_item k = render dec10 (member_expiry g ttl) (cm_rid k) (cm_inst k)) /\
  cm_parsed k = parsed_obs (cm_now k) (cm_item k) /\
  cm_coll k = gc_item undec10 head4 (cm_now k) (cm_item k).
Proof.
  intros k H. unfold run_member in H.
  destruct (_ && _ && _) eqn:E in H; [|discriminate].
  apply andb_true_iff in E. destruct E as [E Hc].
  apply andb_true_iff in E. destruct E as [Hw Hp].
  split; [|split].
  - intros g ttl Hg. rewrite Hg in Hw. symmetry. exact (str_eqb_eq _ _ Hw).
  - symmetry. exact (parsed_eqb_eq _ _ Hp).
  - symmetry. exact (eqb_prop _ _ Hc).
Qed.
