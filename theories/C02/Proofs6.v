(* C02 — lemmas, part 6: a GC pass interleaved with anything (phased
   schedules).  Every member that was expired when the pass took its snapshot
   and belongs to a request that takes no step during the pass is gone when
   the pass ends, and the status of that request is deleted; if no request
   thread steps at all during the pass (the transactions have ended or are
   abandoned) and everything in the set had expired, the quota is empty. *)
From Coq Require Import List ZArith Bool Lia.
From Verif Require Import C02.Model C02.Proofs C02.Proofs2 C02.Proofs3 C02.Proofs4 C02.Proofs5.
Import ListNotations.
Open Scope Z_scope.

Ltac proj :=
  cbn [now members status firstq stk verdict set_now set_members set_status
       set_firstq set_stk set_verdict] in *.

Section Sweep.
Variable c : config.
Hypothesis WF : wf c.
Variables (q T : Z) (R : Z -> Prop).        (* R: the requests that take no step *)

Definition quiet_ev (ev : event) : Prop := forall r, R r -> ev <> EStep (Req r).

(* a member of a quiet request that was expired at the snapshot instant T is
   still on the list of items the pass has to visit *)
Definition covered (s : state) : Prop :=
  forall e r, R r -> In (e, r) (members s q) -> e <= T -> In (GItem q e r) (stk s (Gc q)).

Lemma covered_step : forall g s ev, Inv1 s -> Inv2 g s -> T <= now s -> quiet_ev ev ->
  covered s -> covered (step c s ev).
Proof.
  intros g s ev I J NT QE CV e r Rr M Le. destruct ev as [t o|t|x].
  - destruct (call_fields c s t o) as [Mm [_ [_ [_ K]]]]. rewrite Mm in M.
    assert (HI := CV e r Rr M Le).
    destruct (tid_eqb_spec t (Gc q)) as [->|N].
    + cbn [step]. destruct (stk s (Gc q)) eqn:E; [contradiction|rewrite E; exact HI].
    + rewrite K by congruence. exact HI.
  - cbn [step] in *. destruct (stk s t) as [|f rest] eqn:E; [apply CV; auto|].
    destruct (x_member_old c s t f rest I E q e r M) as [Mo|[_ [-> _]]].
    2:{ exfalso. exact (QE r Rr eq_refl). }
    assert (HI := CV e r Rr Mo Le).
    destruct (tid_eqb_spec t (Gc q)) as [->|N].
    + rewrite E in HI. rewrite exec_stk. destruct (tid_eqb_spec (Gc q) (Gc q)); [|congruence].
      destruct HI as [HI|HI]; [|apply in_or_app; right; exact HI].
      subst f. exfalso. rewrite exec_members in M. cbn [members_after] in M.
      rewrite Z.eqb_refl in M. assert (X : (e <=? now s) = true) by (apply Z.leb_le; lia).
      rewrite X in M. cbn [andb] in M.
      exact (nodup_snd_removed _ e r (j_H g s J q) Mo e M).
    + rewrite x_stk_other by congruence. exact HI.
  - exact (CV e r Rr M Le).
Qed.

(* the request of such a member: its item is pending, or the deletion of its
   status is pending, or its status is deleted *)
Definition collected (s : state) (r : Z) : Prop :=
  (exists e, e <= T /\ In (GItem q e r) (stk s (Gc q))) \/
  In (GDel q r) (stk s (Gc q)) \/ status s q r = None.

Lemma collected_step : forall s ev r, Inv1 s -> T <= now s -> R r -> quiet_ev ev ->
  collected s r -> collected (step c s ev) r.
Proof.
  intros s ev r I NT Rr QE CL. destruct ev as [t o|t|x].
  - destruct (call_fields c s t o) as [_ [St [_ [_ K]]]]. unfold collected. rewrite St.
    destruct (tid_eqb_spec t (Gc q)) as [->|N].
    + cbn [step]. destruct (stk s (Gc q)) eqn:E; [|unfold collected in CL; rewrite E in CL; rewrite E; exact CL].
      destruct CL as [[e [_ X]]|[X|X]]; try (rewrite E in X; contradiction). right. right. exact X.
    + rewrite K by congruence. exact CL.
  - cbn [step]. destruct (stk s t) as [|f rest] eqn:E; [exact CL|].
    destruct CL as [[e [Le HI]]|[HD|SN]].
    + destruct (tid_eqb_spec t (Gc q)) as [->|N].
      * rewrite E in HI. destruct HI as [HI|HI].
        -- subst f. right. left. rewrite exec_stk. destruct (tid_eqb_spec (Gc q) (Gc q)); [|congruence].
           cbn [pushed]. assert (X : (e <=? now s) = true) by (apply Z.leb_le; lia). rewrite X.
           left. reflexivity.
        -- left. exists e. split; [exact Le|]. rewrite exec_stk.
           destruct (tid_eqb_spec (Gc q) (Gc q)); [|congruence]. apply in_or_app. right. exact HI.
      * left. exists e. split; [exact Le|]. rewrite x_stk_other by congruence. exact HI.
    + destruct (tid_eqb_spec t (Gc q)) as [->|N].
      * rewrite E in HD. destruct HD as [HD|HD].
        -- subst f. right. right. rewrite exec_status. cbn [status_after]. rewrite !Z.eqb_refl. reflexivity.
        -- right. left. rewrite exec_stk. destruct (tid_eqb_spec (Gc q) (Gc q)); [|congruence].
           apply in_or_app. right. exact HD.
      * right. left. rewrite x_stk_other by congruence. exact HD.
    + right. right. apply (x_status_none c s t f rest I E q r SN).
      intros [e0 [_ ->]]. exact (QE r Rr eq_refl).
  - exact CL.
Qed.

Lemma sweep_run : forall evs g s, Inv1 s -> Inv2 g s -> T <= now s -> phased_from c g s evs ->
  Forall quiet_ev evs ->
  (covered s -> covered (run c s evs)) /\
  (forall r, R r -> collected s r -> collected (run c s evs) r).
Proof.
  induction evs as [|ev evs IH]; intros g s I J NT P Q; cbn; [auto|].
  destruct P as [OK P]. inversion Q as [|? ? Q1 Q2]; subst.
  assert (N1 := now_step c s ev).
  destruct (IH (ghost' g s ev) (step c s ev)) as [A B]; auto.
  - apply Inv1_step; exact I.
  - apply Inv2_step; assumption.
  - lia.
  - split.
    + intros CV. apply A. eapply covered_step; eauto.
    + intros r Rr CL. apply B; [exact Rr|]. apply collected_step; auto.
Qed.
End Sweep.

Lemma gc_pass_interleaved : forall c t0 evs1 evs2 q rest, wf c ->
  phased c t0 (evs1 ++ EStep (Gc q) :: evs2) ->
  let s1 := run c (init t0) evs1 in
  let s2 := run c s1 (EStep (Gc q) :: evs2) in
  stk s1 (Gc q) = GSnap q :: rest -> stk s2 (Gc q) = [] ->
  forall r, ~ In (EStep (Req r)) evs2 ->
    (forall e, In (e, r) (members s2 q) -> now s1 < e) /\
    (forall e, In (e, r) (members s1 q) -> e <= now s1 -> status s2 q r = None).
Proof.
  intros c t0 evs1 evs2 q rest WF P s1 s2 E E2 r QR.
  destruct (phased_prefix c t0 evs1 _ WF P) as [g1 [I1 [J1 P1]]]. fold s1 in I1, J1, P1.
  destruct P1 as [OK P2].
  set (s1' := step c s1 (EStep (Gc q))) in *.
  set (g1' := ghost' g1 s1 (EStep (Gc q))) in *.
  assert (I1' : Inv1 s1') by (apply Inv1_step; exact I1).
  assert (J1' : Inv2 g1' s1') by (apply Inv2_step; assumption).
  assert (X : stk s1' (Gc q) = map (fun m => GItem q (fst m) (snd m)) (members s1 q) ++ rest /\
              members s1' = members s1 /\ now s1' = now s1).
  { unfold s1'. cbn [step]. rewrite E. cbn [exec]. proj. rewrite updt_same. auto. }
  destruct X as [K1 [M1 N1]].
  set (R := fun r' : Z => r' = r).
  assert (Q : Forall (quiet_ev R) evs2).
  { apply Forall_forall. intros ev Hev r' -> ->. exact (QR Hev). }
  assert (NT : now s1 <= now s1') by lia.
  destruct (sweep_run c WF q (now s1) R evs2 g1' s1' I1' J1' NT P2 Q) as [A B].
  change (run c s1' evs2) with s2 in *.
  split.
  - intros e M. destruct (Z.lt_ge_cases (now s1) e) as [L|L]; [exact L|exfalso].
    assert (CV : covered q (now s1) R s1').
    { intros e' r' _ M' _. rewrite K1. apply in_or_app. left. rewrite M1 in M'.
      apply in_map_iff. exists (e', r'). auto. }
    assert (HI := A CV e r eq_refl M L). rewrite E2 in HI. contradiction.
  - intros e M L.
    assert (CL : collected q (now s1) s1' r).
    { left. exists e. split; [exact L|]. rewrite K1. apply in_or_app. left.
      apply in_map_iff. exists (e, r). auto. }
    destruct (B r eq_refl CL) as [[e' [_ X]]|[X|X]]; [rewrite E2 in X; contradiction| |exact X].
    rewrite E2 in X. contradiction.
Qed.

(* without request steps a member set only shrinks *)
Lemma members_shrink : forall c evs s, Inv1 s -> (forall r, ~ In (EStep (Req r)) evs) ->
  forall q x, In x (members (run c s evs) q) -> In x (members s q).
Proof.
  intros c. induction evs as [|ev evs IH]; intros s I NR q x H; cbn in H; [exact H|].
  assert (H1 : In x (members (step c s ev) q)).
  { apply (IH (step c s ev)); [apply Inv1_step; exact I| |exact H].
    intros r X. apply (NR r). right. exact X. }
  assert (MC := step_member_change c s ev q I).
  remember (members (step c s ev) q) as m eqn:Em. clear Em.
  destruct MC as [|r e rest0 Ev _ _|r e rest0 Ev _|e r rest0 Ev _ _].
  - exact H1.
  - exfalso. apply (NR r). left. exact Ev.
  - exfalso. apply (NR r). left. exact Ev.
  - eapply in_remove_first; eauto.
Qed.

(* quota q was swept in the schedule evs: a GC pass of q took its snapshot
   when everything in the set had expired, no request thread stepped
   afterwards, and the pass has ended *)
Definition swept (c : config) (t0 : Z) (evs : list event) (q : Z) : Prop :=
  exists evs1 evs2 rest, evs = evs1 ++ EStep (Gc q) :: evs2 /\
    stk (run c (init t0) evs1) (Gc q) = GSnap q :: rest /\
    (forall r, ~ In (EStep (Req r)) evs2) /\
    (forall e r, In (e, r) (members (run c (init t0) evs1) q) -> e <= now (run c (init t0) evs1)) /\
    stk (run c (init t0) evs) (Gc q) = [].

Lemma swept_empty : forall c t0 evs q, wf c -> phased c t0 evs -> swept c t0 evs q ->
  members (run c (init t0) evs) q = [].
Proof.
  intros c t0 evs q WF P [evs1 [evs2 [rest [-> [E [NR [EX E2]]]]]]].
  rewrite run_app in *. set (s1 := run c (init t0) evs1) in *.
  destruct (members (run c s1 (EStep (Gc q) :: evs2)) q) as [|[e r] l] eqn:M; [reflexivity|exfalso].
  destruct (gc_pass_interleaved c t0 evs1 evs2 q rest WF P E E2 r (NR r)) as [A _].
  fold s1 in A. assert (L := A e). rewrite M in L. specialize (L (or_introl eq_refl)).
  assert (I1 : Inv1 s1) by (apply Inv1_run; apply Inv1_init).
  assert (Old : In (e, r) (members s1 q)).
  { apply (members_shrink c (EStep (Gc q) :: evs2) s1 I1).
    - intros r0 [X|X]; [discriminate|exact (NR r0 X)].
    - rewrite M. left. reflexivity. }
  specialize (EX e r Old). lia.
Qed.

(* once every quota of the chain was swept, a fresh request is admitted *)
Lemma swept_probe : forall c t0 evs q p, wf c -> phased c t0 evs ->
  let s := run c (init t0) evs in
  (forall q', anc c q q' -> swept c t0 evs q' /\ 0 < cmax c q') ->
  stk s (Req p) = [] -> (forall q', anc c q q' -> status s q' p = None) ->
  exists n, Z.of_nat n <= 6 * Z.max 0 q + 5 /\
    let s' := run c s (ECall (Req p) (OAllowed q) :: repeat (EStep (Req p)) n) in
    stk s' (Req p) = [] /\ verdict s' p = Some true.
Proof.
  intros c t0 evs q p WF P s H E S. apply probe_admitted_b; [exact WF|exact E|].
  intros q' A. destruct (H q' A) as [SW Mx]. split; [apply S; exact A|].
  unfold s. rewrite (swept_empty c t0 evs q' WF P SW). cbn. exact Mx.
Qed.

(* the window of the merged setReqStatus frame *)
Lemma gc_delete_while_recording : forall c t0 evs, wf c -> phased c t0 evs ->
  let s := run c (init t0) evs in
  forall q r e, In (FSet q e) (stk s (Req r)) ->
    (In (GDel q r) (stk s (Gc q)) \/ exists e', In (GItem q e' r) (stk s (Gc q)) /\ e' <= now s) ->
    e <= now s.
Proof.
  intros c t0 evs WF P s q r e HF HG.
  destruct (Inv2_reachable c t0 evs WF P) as [g J]. fold s in J.
  assert (I : Inv1 s) by (apply (Inv1_reachable c t0); exists evs; reflexivity).
  destruct (i_B s I q e r HF) as [M|L]; [|exact L].
  destruct HG as [HD|[e' [HI L]]].
  - exfalso. destruct (j_G g s J q r HD) as [X _]. exact (X e M).
  - destruct (j_SN g s J q e' r HI) as [M'|[_ X]]; [|exfalso; exact (X e M)].
    assert (e' = e) by (eapply snd_unique; eauto; apply (j_H g s J)). lia.
Qed.
