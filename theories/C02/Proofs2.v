(* C02 — lemmas, part 2: uniqueness of members and absence of leaks, for
   schedules in which a transaction does not acquire after it began releasing. *)
From Coq Require Import List ZArith Bool Lia.
From Verif Require Import C02.Model C02.Proofs.
Import ListNotations.
Open Scope Z_scope.

Ltac proj :=
  cbn [now members status firstq stk verdict set_now set_members set_status
       set_firstq set_stk set_verdict] in *.

(* ------------------------------------------------------------------ *)
(* phased schedules                                                     *)

Definition is_release (o : op) : bool :=
  match o with ODec _ | ODrop | OFinish => true | _ => false end.
Definition is_acquire (o : op) : bool :=
  match o with OInc _ | OAllowed _ => true | _ => false end.

(* ghost: the request threads that have started a release operation *)
Definition ghost' (g : Z -> bool) (s : state) (ev : event) : Z -> bool :=
  match ev with
  | ECall (Req r) o =>
      match stk s (Req r) with
      | [] => if is_release o then upd g r true else g
      | _ :: _ => g
      end
  | _ => g
  end.

Definition ok_ev (g : Z -> bool) (ev : event) : Prop :=
  match ev with
  | ECall (Req r) o => is_acquire o = true -> g r = false
  | _ => True
  end.

Fixpoint phased_from (c : config) (g : Z -> bool) (s : state) (evs : list event) : Prop :=
  match evs with
  | [] => True
  | ev :: rest => ok_ev g ev /\ phased_from c (ghost' g s ev) (step c s ev) rest
  end.

(* no transaction is asked to Inc / Allowed after it was asked to Dec / drop / finish *)
Definition phased (c : config) (t0 : Z) (evs : list event) : Prop :=
  phased_from c (fun _ => false) (init t0) evs.

(* ------------------------------------------------------------------ *)
(* stack shapes                                                         *)

Definition slotf (f : frame) : bool :=
  match f with
  | FIncCheck _ | FGen _ | FSAdd _ _ | FSet _ _ | FACheck _ => true
  | _ => false
  end.

Definition qslot (f : frame) : option Z :=
  match f with
  | FIncCheck q | FGen q | FSAdd q _ | FSet q _ => Some q
  | _ => None
  end.

Definition stack_lt (q : Z) (st : list frame) : Prop :=
  forall f q', In f st -> qslot f = Some q' -> q < q'.

Fixpoint shape (st : list frame) : Prop :=
  match st with
  | [] => True
  | f :: rest =>
      (forall q, qslot f = Some q -> stack_lt q rest) /\
      (forall q, f = FACheck q -> rest = []) /\ shape rest
  end.

(* frames that only ever sit on top of a stack *)
Definition topf (f : frame) : bool :=
  match f with
  | FIncCheck _ | FGen _ | FSAdd _ _ | FDec2 _ _ | FDecRem _ _ => true
  | _ => false
  end.

Definition is_item (f : frame) : bool := match f with GItem _ _ _ => true | _ => false end.

Definition gc_shape (st : list frame) : Prop :=
  match st with
  | [] => True
  | GSnap _ :: rest => rest = []
  | _ :: rest => Forall (fun f => is_item f = true) rest
  end.

Fixpoint item_reqs (st : list frame) : list Z :=
  match st with
  | [] => []
  | GItem _ _ r :: rest => r :: item_reqs rest
  | _ :: rest => item_reqs rest
  end.

Record Inv2 (g : Z -> bool) (s : state) : Prop := {
  j_H : forall q, NoDup (map snd (members s q));
  j_E : forall q e r, In (e, r) (members s q) ->
          status s q r = Some e \/ In (FSet q e) (stk s (Req r));
  j_S : forall q r rest, (stk s (Req r) = FGen q :: rest \/ exists e, stk s (Req r) = FSAdd q e :: rest) ->
          status s q r = None;
  j_S2 : forall q e r, In (FSet q e) (stk s (Req r)) -> status s q r = None;
  j_SH : forall r, shape (stk s (Req r));
  j_T : forall r f rest, stk s (Req r) = f :: rest -> Forall (fun g => topf g = false) rest;
  j_D2 : forall q e r rest, stk s (Req r) = FDec2 q e :: rest ->
          status s q r = Some e \/ status s q r = None;
  j_R : forall q r, In (FDecDel q) (stk s (Req r)) ->
          forall e, In (e, r) (members s q) -> In (FDecRem q e) (stk s (Req r));
  j_G : forall q r, In (GDel q r) (stk s (Gc q)) ->
          (forall e, ~ In (e, r) (members s q)) /\
          (status s q r <> None \/ (exists e, In (FSet q e) (stk s (Req r))) \/ g r = true);
  j_SN : forall q e r, In (GItem q e r) (stk s (Gc q)) ->
          In (e, r) (members s q) \/ (g r = true /\ forall e', ~ In (e', r) (members s q));
  j_ND : forall q, NoDup (item_reqs (stk s (Gc q)));
  j_GS : forall q, gc_shape (stk s (Gc q));
  j_RL : forall r, g r = true -> Forall (fun f => slotf f = false) (stk s (Req r));
  j_RG : forall r f, In f (stk s (Req r)) -> relf f = true -> g r = true
}.

Lemma Inv2_init : forall t0, Inv2 (fun _ => false) (init t0).
Proof.
  intros. constructor; cbn; intros; try constructor; try tauto; try discriminate.
Qed.

(* ------------------------------------------------------------------ *)
(* list facts                                                           *)

Lemma snd_unique : forall (l : list (Z * Z)) e e' r,
  NoDup (map snd l) -> In (e, r) l -> In (e', r) l -> e = e'.
Proof.
  induction l as [|[a b] l IH]; cbn; intros e e' r ND H1 H2; [tauto|].
  inversion ND as [|? ? N1 N2]; subst.
  destruct H1 as [H1|H1], H2 as [H2|H2].
  - congruence.
  - inversion H1; subst. exfalso. apply N1. apply in_map_iff. exists (e', r). auto.
  - inversion H2; subst. exfalso. apply N1. apply in_map_iff. exists (e, r). auto.
  - eapply IH; eauto.
Qed.

Lemma nodup_snd_remove : forall m (l : list (Z * Z)),
  NoDup (map snd l) -> NoDup (map snd (remove_first m l)).
Proof.
  induction l as [|x l IH]; cbn; intros ND; [constructor|].
  inversion ND as [|? ? N1 N2]; subst.
  destruct (mem_eqb x m); [exact N2|]. cbn. constructor; [|apply IH; exact N2].
  intros H. apply N1. apply in_map_iff in H. destruct H as [y [Hy Hin]].
  apply in_map_iff. exists y. split; [exact Hy|]. eapply in_remove_first; eauto.
Qed.

Lemma nodup_snd_removed : forall (l : list (Z * Z)) e r,
  NoDup (map snd l) -> In (e, r) l -> forall e', ~ In (e', r) (remove_first (e, r) l).
Proof.
  induction l as [|x l IH]; cbn; intros e r ND H e'; [tauto|].
  inversion ND as [|? ? N1 N2]; subst.
  destruct (mem_eqb_spec x (e, r)) as [->|NE].
  - cbn in N1. intros X. apply N1. apply in_map_iff. exists (e', r). auto.
  - destruct H as [H|H]; [congruence|].
    intros [X|X].
    + subst x. cbn in N1. apply N1. apply in_map_iff. exists (e, r). auto.
    + eapply IH; eauto.
Qed.

Lemma nodup_snd_app : forall (l : list (Z * Z)) e r,
  NoDup (map snd l) -> ~ In r (map snd l) -> NoDup (map snd (l ++ [(e, r)])).
Proof.
  induction l as [|x l IH]; cbn; intros e r ND N.
  - constructor; [tauto|constructor].
  - inversion ND as [|? ? N1 N2]; subst. constructor.
    + rewrite map_app, in_app_iff. cbn. intuition.
    + apply IH; auto.
Qed.

Lemma notin_remove_first : forall m (l : list (Z * Z)) x, ~ In x l -> ~ In x (remove_first m l).
Proof. intros m l x N H. apply N. eapply in_remove_first; eauto. Qed.

Lemma item_reqs_map : forall q (l : list (Z * Z)),
  item_reqs (map (fun m => GItem q (fst m) (snd m)) l) = map snd l.
Proof. induction l as [|x l IH]; cbn; [reflexivity|]. f_equal. exact IH. Qed.

Lemma item_reqs_in : forall st q e r, In (GItem q e r) st -> In r (item_reqs st).
Proof.
  induction st as [|f st IH]; cbn; intros q e r H; [tauto|].
  destruct H as [->|H]; [left; reflexivity|].
  destruct f; cbn; eauto.
Qed.

Lemma in_tail : forall A (x : A) l, In x (tl l) -> In x l.
Proof. intros A x [|y l] H; [exact H|right; exact H]. Qed.

(* ------------------------------------------------------------------ *)
(* inversion of the pushed frames                                       *)

Lemma pushed_GDel : forall c s t f q r, In (GDel q r) (pushed c s t f) ->
  exists e, f = GItem q e r /\ e <= now s.
Proof.
  intros c s t f q r H. unfold pushed, par_inc, par_dec in H.
  destruct f; inpush H. eexists; split; [reflexivity|]. apply Z.leb_le. assumption.
Qed.

Lemma pushed_GItem : forall c s t f q e r, In (GItem q e r) (pushed c s t f) ->
  f = GSnap q /\ In (e, r) (members s q).
Proof.
  intros c s t f q e r H. unfold pushed, par_inc, par_dec in H.
  destruct f; inpush H. split; [reflexivity|]. destruct m; exact Hm.
Qed.

Lemma pushed_FDecRem : forall c s t f q e, In (FDecRem q e) (pushed c s t f) ->
  f = FDec2 q e /\ status s q (self t) <> None.
Proof.
  intros c s t f q e H. unfold pushed, par_inc, par_dec in H.
  destruct f; inpush H; split; congruence.
Qed.

Lemma pushed_slot_kind : forall c s t f g, In g (pushed c s t f) -> slotf g = true -> slotf f = true.
Proof.
  intros c s t f g H K. unfold pushed, par_inc, par_dec in H.
  destruct f; inpush H; try discriminate K; reflexivity.
Qed.

Lemma pushed_rel_kind : forall c s t f g, In g (pushed c s t f) -> relf g = true -> relf f = true.
Proof.
  intros c s t f g H K. unfold pushed, par_inc, par_dec in H.
  destruct f; inpush H; try discriminate K; reflexivity.
Qed.

(* all frames pushed below the first one are not top-only frames *)
Lemma pushed_tail_nontop : forall c s t f,
  Forall (fun g => topf g = false) (tl (pushed c s t f)).
Proof.
  intros c s t f. unfold pushed, par_inc, par_dec.
  destruct f;
    repeat match goal with
    | |- context [match ?x with _ => _ end] => destruct x
    end; cbn; repeat constructor.
  apply Forall_forall. intros x H. apply in_tail in H. apply in_map_iff in H.
  destruct H as [m [<- _]]. reflexivity.
Qed.

(* ------------------------------------------------------------------ *)
(* preservation                                                         *)

Lemma Inv2_tick : forall g s x, Inv2 g s -> Inv2 g (set_now s x).
Proof. intros g s x J. destruct J. constructor; proj; assumption. Qed.

Lemma frames_of_shape : forall o, shape (frames_of o).
Proof.
  destruct o; cbn; repeat split; try discriminate; try tauto;
    intros; unfold stack_lt; cbn; intros; intuition; subst; discriminate.
Qed.

Lemma Inv2_call : forall c g s t o, Inv1 s -> Inv2 g s -> ok_ev g (ECall t o) ->
  Inv2 (ghost' g s (ECall t o)) (step c s (ECall t o)).
Proof.
  intros c g s t o I J OK. cbn [step ghost'].
  destruct (stk s t) as [|f0 st0] eqn:E.
  2:{ destruct t; [rewrite E|]; exact J. }
  destruct (op_fits t o) eqn:F.
  2:{ destruct t as [r|q]; [rewrite E|exact J].
      destruct o; cbn in F; try discriminate F. cbn. exact J. }
  (* accepted call *)
  set (g' := match t with
             | Req r => match stk s (Req r) with
                        | [] => if is_release o then upd g r true else g
                        | _ :: _ => g end
             | Gc _ => g end).
  assert (Gmono : forall r, g r = true -> g' r = true).
  { intros r H. unfold g'. destruct t as [r0|q0]; [|exact H].
    destruct (stk s (Req r0)); [|exact H]. destruct (is_release o); [|exact H].
    unfold upd. destruct (r =? r0); auto. }
  assert (Gother : forall r, t <> Req r -> g' r = g r).
  { intros r H. unfold g'. destruct t as [r0|q0]; [|reflexivity].
    destruct (stk s (Req r0)); [|reflexivity]. destruct (is_release o); [|reflexivity].
    unfold upd. destruct (Z.eqb_spec r r0); [congruence|reflexivity]. }
  assert (Sother : forall t', t' <> t -> stk (set_stk s t (frames_of o)) t' = stk s t').
  { intros t' H. proj. apply updt_other. exact H. }
  assert (Sself : stk (set_stk s t (frames_of o)) t = frames_of o).
  { proj. apply updt_same. }
  constructor.
  - intros q. proj. apply (j_H g s J).
  - intros q e r H. proj. destruct (j_E g s J q e r H) as [A|A]; [left; exact A|].
    destruct (tid_eqb_spec (Req r) t) as [<-|N]; [rewrite E in A; contradiction|].
    right. rewrite updt_other by exact N. exact A.
  - intros q r rest H. proj. destruct (tid_eqb_spec (Req r) t) as [<-|N].
    + rewrite updt_same in H. destruct o; cbn in H; destruct H as [H|[e H]]; discriminate H.
    + rewrite updt_other in H by exact N. apply (j_S g s J q r rest H).
  - intros q e r H. proj. destruct (tid_eqb_spec (Req r) t) as [<-|N].
    + rewrite updt_same in H. destruct o; cbn in H; intuition; discriminate.
    + rewrite updt_other in H by exact N. apply (j_S2 g s J q e r H).
  - intros r. destruct (tid_eqb_spec (Req r) t) as [<-|N].
    + rewrite Sself. apply frames_of_shape.
    + rewrite Sother by exact N. apply (j_SH g s J).
  - intros r f rest H. destruct (tid_eqb_spec (Req r) t) as [<-|N].
    + rewrite Sself in H. destruct o; cbn in H; inversion H; subst; repeat constructor.
    + rewrite Sother in H by exact N. apply (j_T g s J r f rest H).
  - intros q e r rest H. proj. destruct (tid_eqb_spec (Req r) t) as [<-|N].
    + rewrite updt_same in H. destruct o; cbn in H; discriminate H.
    + rewrite updt_other in H by exact N. apply (j_D2 g s J q e r rest H).
  - intros q r H e M. destruct (tid_eqb_spec (Req r) t) as [<-|N].
    + rewrite Sself in H. destruct o; cbn in H; intuition; discriminate.
    + rewrite Sother in * by exact N. proj. apply (j_R g s J q r H e M).
  - intros q r H. destruct (tid_eqb_spec (Gc q) t) as [<-|N].
    + rewrite Sself in H. destruct o; cbn in H; intuition; discriminate.
    + rewrite Sother in H by exact N. destruct (j_G g s J q r H) as [G1 G2]. proj.
      split; [exact G1|]. destruct G2 as [G2|[[e G2]|G2]]; [left; exact G2| |right; right; auto].
      destruct (tid_eqb_spec (Req r) t) as [<-|N2]; [rewrite E in G2; contradiction|].
      right. left. exists e. rewrite updt_other by exact N2. exact G2.
  - intros q e r H. destruct (tid_eqb_spec (Gc q) t) as [<-|N].
    + rewrite Sself in H. destruct o; cbn in H; intuition; discriminate.
    + rewrite Sother in H by exact N. proj.
      destruct (j_SN g s J q e r H) as [A|[A1 A2]]; [left; exact A|right; split; auto].
  - intros q. destruct (tid_eqb_spec (Gc q) t) as [<-|N].
    + rewrite Sself. destruct o; cbn; constructor.
    + rewrite Sother by exact N. apply (j_ND g s J).
  - intros q. destruct (tid_eqb_spec (Gc q) t) as [<-|N].
    + rewrite Sself. destruct o; cbn in *; try discriminate F; auto.
    + rewrite Sother by exact N. apply (j_GS g s J).
  - intros r H. destruct (tid_eqb_spec (Req r) t) as [<-|N].
    + rewrite Sself. cbn in OK. unfold g' in H. rewrite E in H.
      destruct o; cbn in *; repeat constructor; try discriminate F.
      * rewrite OK in H by reflexivity. discriminate H.
      * rewrite OK in H by reflexivity. discriminate H.
      * rewrite OK in H by reflexivity. discriminate H.
    + rewrite Sother by exact N. apply (j_RL g s J). rewrite <- Gother by congruence. exact H.
  - intros r f H K. destruct (tid_eqb_spec (Req r) t) as [<-|N].
    + rewrite Sself in H. unfold g'. rewrite E.
      destruct o; cbn in H; intuition; subst; try discriminate K; cbn; apply upd_same.
    + rewrite Sother in H by exact N. apply Gmono. apply (j_RG g s J r f H K).
Qed.

Lemma top_req : forall s t f rest, Inv1 s -> stk s t = f :: rest ->
  acqf f = true \/ relf f = true -> exists r0, t = Req r0.
Proof.
  intros s t f rest I E K. destruct t as [r0|q0]; [eauto|].
  assert (G := gc_top s q0 f rest I E). destruct f; cbn in *; destruct K; discriminate.
Qed.

Lemma top_gc : forall s t f rest, Inv1 s -> stk s t = f :: rest ->
  (exists q, gcf q f = true) -> exists q0, t = Gc q0 /\ gcf q0 f = true.
Proof.
  intros s t f rest I E [q K]. destruct t as [r0|q0].
  - destruct (req_top_kind s r0 f rest I E) as [[A _]|[A _]]; destruct f; cbn in *; discriminate.
  - exists q0. split; [reflexivity|]. eapply gc_top; eauto.
Qed.

Section Exec.
Variable c : config.
Hypothesis WF : wf c.
Variables (g : Z -> bool) (s : state) (t : tid) (f : frame) (rest : list frame).
Hypothesis I : Inv1 s.
Hypothesis J : Inv2 g s.
Hypothesis E : stk s t = f :: rest.

Let s' := exec c s t f rest.

Lemma x_stk_self : stk s' t = pushed c s t f ++ rest.
Proof. unfold s'. rewrite exec_stk. destruct (tid_eqb_spec t t); congruence. Qed.

Lemma x_stk_other : forall t', t' <> t -> stk s' t' = stk s t'.
Proof. intros t' N. unfold s'. rewrite exec_stk. destruct (tid_eqb_spec t' t); congruence. Qed.

(* a frame of the new stack of the stepping thread is pushed or was below the top *)
Lemma x_in_self : forall h, In h (stk s' t) -> In h (pushed c s t f) \/ In h rest.
Proof. intros h H. rewrite x_stk_self in H. apply in_app_or. exact H. Qed.

Lemma x_rest_in : forall h, In h rest -> In h (stk s' t).
Proof. intros h H. rewrite x_stk_self. apply in_or_app. right. exact H. Qed.

Lemma x_H : forall q, NoDup (map snd (members s' q)).
Proof.
  intros q. unfold s'. rewrite exec_members.
  destruct f eqn:F; cbn [members_after]; try apply (j_H g s J).
  - destruct ((q =? q0) && (Z.of_nat (length (members s q0)) <? cmax c q0)) eqn:B; [|apply (j_H g s J)].
    apply andb_prop in B. destruct B as [B1 B2]. apply Z.eqb_eq in B1. subst q0.
    destruct (top_req s t _ rest I E) as [r0 ->]; [left; reflexivity|]. cbn [self].
    apply nodup_snd_app; [apply (j_H g s J)|].
    intros H. apply in_map_iff in H. destruct H as [[e' r'] [Hr Hin]]. cbn in Hr. subst r'.
    destruct (j_E g s J q e' r0 Hin) as [A|A].
    + rewrite (j_S g s J q r0 rest) in A; [discriminate|right; eauto].
    + rewrite E in A. destruct A as [A|A]; [discriminate|].
      assert (SH := j_SH g s J r0). rewrite E in SH. cbn in SH. destruct SH as [SH _].
      specialize (SH q eq_refl (FSet q e') q A eq_refl). lia.
  - destruct (q =? q0); [apply nodup_snd_remove|]; apply (j_H g s J).
  - destruct ((q =? q0) && (e <=? now s)); [apply nodup_snd_remove|]; apply (j_H g s J).
Qed.

(* a member of the new set is new (added by this very step) or old *)
Lemma x_member_old : forall q e r, In (e, r) (members s' q) ->
  In (e, r) (members s q) \/
  (f = FSAdd q e /\ t = Req r /\ (Z.of_nat (length (members s q)) <? cmax c q) = true).
Proof.
  intros q e r H. unfold s' in H. rewrite exec_members in H.
  destruct f eqn:F; cbn [members_after] in H; auto.
  - destruct ((q =? q0) && (Z.of_nat (length (members s q0)) <? cmax c q0)) eqn:B; auto.
    apply andb_prop in B. destruct B as [B1 B2]. apply Z.eqb_eq in B1. subst q0.
    apply in_app_or in H. destruct H as [H|H]; auto. right.
    destruct H as [H|[]]. inversion H; subst.
    destruct (top_req s t _ rest I E) as [r0 ->]; [left; reflexivity|]. cbn [self]. auto.
  - destruct (Z.eqb_spec q q0); auto. subst. left. eapply in_remove_first; eauto.
  - destruct ((q =? q0) && (e0 <=? now s)) eqn:B; auto.
    apply andb_prop in B. destruct B as [B1 _]. apply Z.eqb_eq in B1. subst.
    left. eapply in_remove_first; eauto.
Qed.

Lemma x_E : forall q e r, In (e, r) (members s' q) ->
  status s' q r = Some e \/ In (FSet q e) (stk s' (Req r)).
Proof.
  intros q e r H. destruct (x_member_old q e r H) as [Hold|[F [T B]]].
  2:{ (* just added: FSet was pushed *)
      right. rewrite <- T. rewrite x_stk_self. apply in_or_app. left.
      rewrite F. cbn [pushed]. rewrite B. apply in_or_app. right. left. reflexivity. }
  destruct (j_E g s J q e r Hold) as [A|A].
  - (* status held: it is not being deleted *)
    left. unfold s'. rewrite exec_status.
    destruct f eqn:F; cbn [status_after]; auto.
    + (* FSet on the same key: impossible, the status was None *)
      destruct ((q =? q0) && (r =? self t)) eqn:B; auto.
      apply andb_prop in B. destruct B as [B1 B2]. apply Z.eqb_eq in B1. apply Z.eqb_eq in B2. subst.
      destruct (top_req s t _ rest I E) as [r0 ->]; [left; reflexivity|]. cbn [self] in *.
      rewrite (j_S2 g s J q0 e0 r0) in A; [discriminate|]. rewrite E. left. reflexivity.
    + (* FDecDel: the member would have to be awaiting its SRem below: impossible *)
      destruct ((q =? q0) && (r =? self t)) eqn:B; auto. exfalso.
      apply andb_prop in B. destruct B as [B1 B2]. apply Z.eqb_eq in B1. apply Z.eqb_eq in B2. subst.
      destruct (top_req s t _ rest I E) as [r0 ->]; [right; reflexivity|]. cbn [self] in *.
      assert (R := j_R g s J q0 r0). rewrite E in R.
      specialize (R (or_introl eq_refl) e Hold). destruct R as [R|R]; [discriminate|].
      assert (T := j_T g s J r0 _ _ E). rewrite Forall_forall in T. apply T in R. discriminate R.
    + (* GDel: the GC removed every member of that request before *)
      destruct ((q =? q0) && (r =? r0)) eqn:B; auto. exfalso.
      apply andb_prop in B. destruct B as [B1 B2]. apply Z.eqb_eq in B1. apply Z.eqb_eq in B2. subst.
      destruct (top_gc s t _ rest I E) as [q1 [-> K]]; [exists q0; cbn; apply Z.eqb_refl|].
      cbn in K. apply Z.eqb_eq in K. subst q1.
      destruct (j_G g s J q0 r0) as [G1 _]; [rewrite E; left; reflexivity|].
      exact (G1 e Hold).
  - (* FSet pending *)
    destruct (tid_eqb_spec (Req r) t) as [T|N].
    + rewrite T, E in A. destruct A as [A|A].
      * left. unfold s'. rewrite exec_status, A. cbn [status_after]. rewrite <- T. cbn [self].
        rewrite !Z.eqb_refl. reflexivity.
      * right. rewrite T. apply x_rest_in. exact A.
    + right. rewrite x_stk_other by exact N. exact A.
Qed.

(* the head of the new stack, when it is a top-only frame, was pushed by this step *)
Lemma x_head_pushed : forall r h rest', t = Req r -> stk s' (Req r) = h :: rest' -> topf h = true ->
  exists l, pushed c s t f = h :: l.
Proof.
  intros r h rest' T H K. rewrite <- T in H. rewrite x_stk_self in H.
  destruct (pushed c s t f) as [|x l] eqn:P.
  - cbn in H. rewrite T in E. assert (NT := j_T g s J r _ _ E). rewrite H in NT.
    inversion NT; subst. congruence.
  - cbn in H. inversion H; subst. eauto.
Qed.

Lemma pushed_head_FGen : forall q l, pushed c s t f = FGen q :: l ->
  f = FIncCheck q /\ status s q (self t) = None.
Proof.
  intros q l H. unfold pushed, par_inc, par_dec in H.
  destruct f; repeat match type of H with
    | context [match ?x with _ => _ end] => destruct x eqn:?
    end; cbn in H; try discriminate H; inversion H; subst; auto.
  destruct (members s q0); discriminate.
Qed.

Lemma pushed_head_FSAdd : forall q e l, pushed c s t f = FSAdd q e :: l -> f = FGen q.
Proof.
  intros q e l H. unfold pushed, par_inc, par_dec in H.
  destruct f; repeat match type of H with
    | context [match ?x with _ => _ end] => destruct x eqn:?
    end; cbn in H; try discriminate H; inversion H; subst; auto.
  destruct (members s q0); discriminate.
Qed.

Lemma pushed_head_FDec2 : forall q e l, pushed c s t f = FDec2 q e :: l ->
  f = FDec1 q /\ status s q (self t) = Some e.
Proof.
  intros q e l H. unfold pushed, par_inc, par_dec in H.
  destruct f; repeat match type of H with
    | context [match ?x with _ => _ end] => destruct x eqn:?
    end; cbn in H; try discriminate H; inversion H; subst; auto.
  destruct (members s q0); discriminate.
Qed.

Lemma x_status_none : forall q r, status s q r = None ->
  ~ (exists e0, f = FSet q e0 /\ t = Req r) -> status s' q r = None.
Proof.
  intros q r H N. unfold s'. rewrite exec_status.
  destruct f eqn:F; cbn [status_after]; auto.
  - destruct ((q =? q0) && (r =? self t)) eqn:B; auto. exfalso. apply N.
    apply andb_prop in B. destruct B as [B1 B2]. apply Z.eqb_eq in B1. apply Z.eqb_eq in B2. subst.
    destruct (top_req s t _ rest I E) as [r0 T]; [left; reflexivity|]. rewrite T. cbn. eauto.
  - destruct ((q =? q0) && (r =? self t)); auto.
  - destruct ((q =? q0) && (r =? r0)); auto.
Qed.

Lemma x_status_some : forall q r e, status s q r = Some e ->
  status s' q r = Some e \/ status s' q r = None \/ (exists e0, f = FSet q e0 /\ t = Req r).
Proof.
  intros q r e H. unfold s'. rewrite exec_status.
  destruct f eqn:F; cbn [status_after]; auto.
  - destruct ((q =? q0) && (r =? self t)) eqn:B; auto. right. right.
    apply andb_prop in B. destruct B as [B1 B2]. apply Z.eqb_eq in B1. apply Z.eqb_eq in B2. subst.
    destruct (top_req s t _ rest I E) as [r0 T]; [left; reflexivity|]. rewrite T. cbn. eauto.
  - destruct ((q =? q0) && (r =? self t)); auto.
  - destruct ((q =? q0) && (r =? r0)); auto.
Qed.

Lemma x_S : forall q r rest',
  (stk s' (Req r) = FGen q :: rest' \/ exists e, stk s' (Req r) = FSAdd q e :: rest') ->
  status s' q r = None.
Proof.
  intros q r rest' H. destruct (tid_eqb_spec (Req r) t) as [T|N].
  - symmetry in T. destruct H as [H|[e H]].
    + destruct (x_head_pushed r _ _ T H eq_refl) as [l P].
      apply pushed_head_FGen in P. destruct P as [F S0]. rewrite T in S0. cbn in S0.
      apply x_status_none; [exact S0|]. intros [e0 [F2 _]]. congruence.
    + destruct (x_head_pushed r _ _ T H eq_refl) as [l P].
      apply pushed_head_FSAdd in P.
      assert (S0 : status s q r = None).
      { apply (j_S g s J q r rest). left. rewrite <- T. rewrite E. congruence. }
      apply x_status_none; [exact S0|]. intros [e0 [F2 _]]. congruence.
  - rewrite x_stk_other in H by exact N.
    apply x_status_none; [apply (j_S g s J q r rest' H)|]. intros [e0 [_ T]]. congruence.
Qed.

Lemma x_S2 : forall q e r, In (FSet q e) (stk s' (Req r)) -> status s' q r = None.
Proof.
  intros q e r H. destruct (tid_eqb_spec (Req r) t) as [T|N].
  - rewrite T in H. apply x_in_self in H. destruct H as [H|H].
    + apply pushed_FSet in H. destruct H as [F _].
      apply x_status_none; [|intros [e0 [F2 _]]; congruence].
      apply (j_S g s J q r rest). right. exists e. rewrite T, E. congruence.
    + assert (S0 : status s q r = None).
      { apply (j_S2 g s J q e r). rewrite T, E. right. exact H. }
      apply x_status_none; [exact S0|]. intros [e0 [F2 _]].
      assert (SH := j_SH g s J r). rewrite T, E, F2 in SH. cbn in SH. destruct SH as [SH _].
      specialize (SH q eq_refl (FSet q e) q H eq_refl). lia.
  - rewrite x_stk_other in H by exact N.
    apply x_status_none; [apply (j_S2 g s J q e r H)|]. intros [e0 [_ T]]. congruence.
Qed.

Lemma shape_nonslot_app : forall a b,
  (forall x, In x a -> qslot x = None /\ (forall q, x <> FACheck q)) -> shape b -> shape (a ++ b).
Proof.
  induction a as [|x a IH]; cbn; intros b Ha Hb; [exact Hb|].
  destruct (Ha x (or_introl eq_refl)) as [Q A]. repeat split.
  - intros q Hq. congruence.
  - intros q Hq. exfalso. eapply A; eauto.
  - apply IH; auto.
Qed.

Lemma shape_cons_nonslot : forall x l,
  qslot x = None -> (forall q, x <> FACheck q) -> shape l -> shape (x :: l).
Proof.
  intros x l Q A H. cbn. repeat split; auto.
  - intros q Hq. congruence.
  - intros q Hq. exfalso. eapply A; eauto.
Qed.

Lemma x_SH : forall r, shape (stk s' (Req r)).
Proof.
  intros r. destruct (tid_eqb_spec (Req r) t) as [T|N].
  2:{ rewrite x_stk_other by exact N. apply (j_SH g s J). }
  rewrite T, x_stk_self.
  assert (SH := j_SH g s J r). rewrite T, E in SH. cbn [shape] in SH. destruct SH as [S1 [S2 S3]].
  assert (NS : forall a, (forall x, In x a -> qslot x = None /\ (forall q, x <> FACheck q)) -> shape (a ++ rest))
    by (intros; apply shape_nonslot_app; auto).
  unfold pushed, par_inc, par_dec.
  destruct f eqn:F;
    repeat match goal with
    | |- context [match ?x with _ => _ end] => destruct x eqn:?
    end; cbn [app]; try exact S3;
    try (repeat (apply shape_cons_nonslot; [reflexivity|discriminate|]); exact S3).
  - (* FIncCheck -> FGen *) cbn in *. repeat split; auto; discriminate.
  - (* FGen -> FSAdd *) cbn in *. repeat split; auto; discriminate.
  - (* FSAdd with a parent *)
    assert (P := WF _ _ Heqo). cbn [shape qslot].
    split; [|split; [intros; discriminate|split; [|split; [intros; discriminate|exact S3]]]].
    + intros q' Q. inversion Q; subst q'. intros x qx Hx Qx. destruct Hx as [<-|Hx].
      * cbn in Qx. inversion Qx; subst. lia.
      * specialize (S1 q eq_refl x qx Hx Qx). lia.
    + intros q' Q. inversion Q; subst q'. apply (S1 q eq_refl).
  - (* FSAdd at a root *)
    cbn [shape qslot]. split; [|split; [intros; discriminate|exact S3]].
    intros q' Q. inversion Q; subst q'. apply (S1 q eq_refl).
  - (* FACheck with a parent: nothing was below *)
    rewrite (S2 q eq_refl). cbn [shape qslot].
    split; [|split; [intros; discriminate|split; [intros; discriminate|split; [reflexivity|exact Logic.I]]]].
    intros q' Q x qx Hx Qx. destruct Hx as [<-|[]]. discriminate Qx.
  - (* GSnap *)
    apply shape_nonslot_app; [|exact S3]. intros x Hx. apply in_map_iff in Hx.
    destruct Hx as [m [<- _]]. split; [reflexivity|discriminate].
Qed.

Lemma x_T : forall r h rest', stk s' (Req r) = h :: rest' -> Forall (fun x => topf x = false) rest'.
Proof.
  intros r h rest' H. destruct (tid_eqb_spec (Req r) t) as [T|N].
  2:{ rewrite x_stk_other in H by exact N. apply (j_T g s J r h rest' H). }
  rewrite T, x_stk_self in H.
  assert (NT : Forall (fun x => topf x = false) rest) by (rewrite <- T in E; apply (j_T g s J r _ _ E)).
  assert (PT := pushed_tail_nontop c s t f).
  destruct (pushed c s t f) as [|x l]; cbn in H, PT.
  - rewrite H in NT. inversion NT; assumption.
  - inversion H; subst. apply Forall_app. split; assumption.
Qed.

Lemma x_D2 : forall q e r rest', stk s' (Req r) = FDec2 q e :: rest' ->
  status s' q r = Some e \/ status s' q r = None.
Proof.
  intros q e r rest' H. destruct (tid_eqb_spec (Req r) t) as [T|N].
  - symmetry in T. destruct (x_head_pushed r _ _ T H eq_refl) as [l P].
    apply pushed_head_FDec2 in P. destruct P as [F S0]. rewrite T in S0. cbn in S0.
    destruct (x_status_some q r e S0) as [A|[A|[e0 [F2 _]]]]; auto. congruence.
  - rewrite x_stk_other in H by exact N.
    destruct (j_D2 g s J q e r rest' H) as [A|A].
    + destruct (x_status_some q r e A) as [B|[B|[e0 [_ T]]]]; auto. congruence.
    + right. apply x_status_none; [exact A|]. intros [e0 [_ T]]. congruence.
Qed.

Lemma x_R : forall q r, In (FDecDel q) (stk s' (Req r)) ->
  forall e, In (e, r) (members s' q) -> In (FDecRem q e) (stk s' (Req r)).
Proof.
  intros q r H e M. destruct (tid_eqb_spec (Req r) t) as [T|N].
  2:{ rewrite x_stk_other in * by exact N.
      destruct (x_member_old q e r M) as [Mo|[_ [T _]]]; [|congruence].
      apply (j_R g s J q r H e Mo). }
  rewrite T in *. symmetry in T.
  assert (Er : stk s (Req r) = f :: rest) by (rewrite <- T; exact E).
  destruct (req_top_kind s r f rest I Er) as [[K R]|[K R]].
  { (* acquiring threads hold no FDecDel *)
    apply x_in_self in H. exfalso. destruct H as [H|H].
    - apply pushed_FDecDel in H. destruct H as [e0 F]. rewrite F in K. discriminate K.
    - rewrite Forall_forall in R. apply R in H. discriminate H. }
  destruct (x_member_old q e r M) as [Mo|[F _]]; [|rewrite F in K; discriminate K].
  apply x_in_self in H. destruct H as [H|H].
  - (* FDecDel pushed now, by FDec2 *)
    apply pushed_FDecDel in H. destruct H as [e0 F].
    assert (D2 : status s q r = Some e0 \/ status s q r = None)
      by (apply (j_D2 g s J q e0 r rest); rewrite Er, F; reflexivity).
    destruct (j_E g s J q e r Mo) as [A|A].
    + destruct D2 as [D2|D2]; [|congruence].
      assert (e0 = e) by congruence. subst e0.
      rewrite x_stk_self, F. cbn [pushed]. rewrite T. cbn [self]. rewrite A.
      left. reflexivity.
    + exfalso. rewrite Er in A. destruct A as [A|A]; [congruence|].
      rewrite Forall_forall in R. apply R in A. discriminate A.
  - (* FDecDel was already pending *)
    assert (Hold : In (FDecDel q) (stk s (Req r))) by (rewrite Er; right; exact H).
    assert (Rm := j_R g s J q r Hold e Mo). rewrite Er in Rm. destruct Rm as [Rm|Rm].
    + (* the SRem runs now: the member is gone *)
      exfalso. unfold s' in M. rewrite exec_members, Rm in M. cbn [members_after] in M.
      rewrite Z.eqb_refl, T in M. cbn [self] in M.
      exact (nodup_snd_removed _ e r (j_H g s J q) Mo e M).
    + apply x_rest_in. exact Rm.
Qed.

Lemma x_status_deleted : forall q r e0, status s q r = Some e0 -> status s' q r = None ->
  (f = FDecDel q /\ t = Req r) \/ f = GDel q r.
Proof.
  intros q r e0 H H'. unfold s' in H'. rewrite exec_status in H'.
  destruct f eqn:F; cbn [status_after] in H'; try congruence.
  - destruct ((q =? q0) && (r =? self t)); congruence.
  - destruct ((q =? q0) && (r =? self t)) eqn:B; [|congruence]. left.
    apply andb_prop in B. destruct B as [B1 B2]. apply Z.eqb_eq in B1. apply Z.eqb_eq in B2. subst.
    destruct (top_req s t _ rest I E) as [r0 T]; [right; reflexivity|]. rewrite T. cbn. auto.
  - destruct ((q =? q0) && (r =? r0)) eqn:B; [|congruence]. right.
    apply andb_prop in B. destruct B as [B1 B2]. apply Z.eqb_eq in B1. apply Z.eqb_eq in B2. subst. reflexivity.
Qed.

(* the GC thread of q: its top frame is about q, the frames below are items *)
Lemma x_gc_rest_items : forall q, t = Gc q -> (exists q', f = GSnap q') -> rest = [].
Proof.
  intros q T [q' F]. assert (GS := j_GS g s J q). rewrite <- T, E, F in GS. exact GS.
Qed.

Lemma x_gc_rest_items2 : forall q, t = Gc q -> Forall (fun h => is_item h = true) rest.
Proof.
  intros q T. assert (GS := j_GS g s J q). rewrite <- T, E in GS. cbn in GS.
  destruct f; try exact GS. subst rest. constructor.
Qed.

Lemma x_G : forall q r, In (GDel q r) (stk s' (Gc q)) ->
  (forall e, ~ In (e, r) (members s' q)) /\
  (status s' q r <> None \/ (exists e, In (FSet q e) (stk s' (Req r))) \/ g r = true).
Proof.
  intros q r H. destruct (tid_eqb_spec (Gc q) t) as [T|N].
  - (* the GC thread of q steps *)
    symmetry in T. rewrite <- T in H. apply x_in_self in H. destruct H as [H|H].
    2:{ exfalso. assert (IT := x_gc_rest_items2 q T). rewrite Forall_forall in IT.
        apply IT in H. discriminate H. }
    apply pushed_GDel in H. destruct H as [e [F L]].
    assert (Hin : In (GItem q e r) (stk s (Gc q))) by (rewrite <- T, E, F; left; reflexivity).
    assert (Ms : members s' q = remove_first (e, r) (members s q)).
    { unfold s'. rewrite exec_members, F. cbn [members_after]. rewrite Z.eqb_refl.
      apply Z.leb_le in L. rewrite L. reflexivity. }
    assert (Ss : forall r', status s' q r' = status s q r').
    { intros r'. unfold s'. rewrite exec_status, F. reflexivity. }
    assert (Ks : stk s' (Req r) = stk s (Req r)) by (apply x_stk_other; rewrite T; discriminate).
    destruct (j_SN g s J q e r Hin) as [A|[A1 A2]].
    + split.
      * intros e'. rewrite Ms. apply nodup_snd_removed; [apply (j_H g s J)|exact A].
      * rewrite Ss, Ks. destruct (j_E g s J q e r A) as [B|B]; [left; congruence|right; left; eauto].
    + split; [|right; right; exact A1].
      intros e'. rewrite Ms. apply notin_remove_first. apply A2.
  - (* another thread steps *)
    rewrite x_stk_other in H by exact N. destruct (j_G g s J q r H) as [G1 G2]. split.
    + intros e M. destruct (x_member_old q e r M) as [Mo|[F [T B]]]; [exact (G1 e Mo)|].
      (* the request itself would be adding a member: impossible while the deletion is pending *)
      assert (Er : stk s (Req r) = FSAdd q e :: rest) by (rewrite <- T, E, F; reflexivity).
      destruct G2 as [G2|[[e' G2]|G2]].
      * apply G2. apply (j_S g s J q r rest). right. eauto.
      * rewrite Er in G2. destruct G2 as [G2|G2]; [discriminate|].
        assert (SH := j_SH g s J r). rewrite Er in SH. cbn in SH. destruct SH as [SH _].
        specialize (SH q eq_refl (FSet q e') q G2 eq_refl). lia.
      * assert (RL := j_RL g s J r G2). rewrite Er in RL. inversion RL; subst. discriminate.
    + destruct G2 as [G2|[[e G2]|G2]]; [| |right; right; exact G2].
      * destruct (status s q r) as [e0|] eqn:S0; [|congruence].
        destruct (status s' q r) eqn:S1; [left; discriminate|].
        destruct (x_status_deleted q r e0 S0 S1) as [[F T]|F].
        -- right. right. apply (j_RG g s J r (FDecDel q)); [|reflexivity].
           rewrite <- T, E, F. left. reflexivity.
        -- exfalso. destruct (top_gc s t _ rest I E) as [q1 [T K]]; [exists q; rewrite F; cbn; apply Z.eqb_refl|].
           rewrite F in K. cbn in K. apply Z.eqb_eq in K. subst q1. congruence.
      * destruct (tid_eqb_spec (Req r) t) as [T|N2].
        -- rewrite T, E in G2. destruct G2 as [G2|G2].
           ++ left. unfold s'. rewrite exec_status, G2. cbn [status_after]. rewrite <- T. cbn [self].
              rewrite !Z.eqb_refl. discriminate.
           ++ right. left. exists e. rewrite T. apply x_rest_in. exact G2.
        -- right. left. exists e. rewrite x_stk_other by exact N2. exact G2.
Qed.

Lemma x_SN : forall q e r, In (GItem q e r) (stk s' (Gc q)) ->
  In (e, r) (members s' q) \/ (g r = true /\ forall e', ~ In (e', r) (members s' q)).
Proof.
  intros q e r H. destruct (tid_eqb_spec (Gc q) t) as [T|N].
  - symmetry in T. rewrite <- T in H. apply x_in_self in H. destruct H as [H|H].
    + apply pushed_GItem in H. destruct H as [F M]. left.
      unfold s'. rewrite exec_members, F. exact M.
    + assert (Hin : In (GItem q e r) (stk s (Gc q))) by (rewrite <- T, E; right; exact H).
      assert (Old := j_SN g s J q e r Hin).
      assert (K := gc_top s q f rest I). rewrite <- T in K. specialize (K E).
      assert (R0 := x_gc_rest_items q T).
      unfold s'. destruct f eqn:F; cbn in K; try discriminate K; apply Z.eqb_eq in K; subst q0.
      * (* GSnap: nothing below *)
        rewrite R0 in H by eauto. contradiction.
      * (* GItem q e0 r0 on top: a different request *)
        assert (ND := j_ND g s J q). rewrite <- T, E in ND. cbn in ND. inversion ND as [|? ? N1 N2]; subst.
        assert (r <> r0) by (intros ->; apply N1; eapply item_reqs_in; eauto).
        destruct Old as [A|[A1 A2]].
        -- left. rewrite exec_members. cbn [members_after]. rewrite Z.eqb_refl. cbn [andb].
           destruct (e0 <=? now s); [|exact A]. apply in_remove_first_neq; [exact A|congruence].
        -- right. split; [exact A1|]. intros e'. rewrite exec_members. cbn [members_after].
           rewrite Z.eqb_refl. cbn [andb]. destruct (e0 <=? now s); [|apply A2].
           apply notin_remove_first. apply A2.
      * (* GDel: members unchanged *)
        destruct Old as [A|[A1 A2]]; [left|right; split; [exact A1|intros e']];
          rewrite exec_members; cbn [members_after]; auto.
  - rewrite x_stk_other in H by exact N.
    destruct (j_SN g s J q e r H) as [A|[A1 A2]].
    + destruct (members_after_keep c s t f q _ A) as [M|[[e' [F X]]|[e' [r' [F [X L]]]]]].
      * left. unfold s'. rewrite exec_members. exact M.
      * (* the request's own SRem *)
        destruct (top_req s t _ rest I E) as [r0 T]; [right; rewrite F; reflexivity|].
        rewrite T in X. cbn [self] in X. inversion X; subst e' r0.
        right. split.
        -- apply (j_RG g s J r (FDecRem q e)); [|reflexivity]. rewrite <- T, E, F. left. reflexivity.
        -- intros e'. unfold s'. rewrite exec_members, F. cbn [members_after]. rewrite Z.eqb_refl, T.
           cbn [self]. apply nodup_snd_removed; [apply (j_H g s J)|exact A].
      * exfalso. destruct (top_gc s t _ rest I E) as [q1 [T K]]; [exists q; rewrite F; cbn; apply Z.eqb_refl|].
        rewrite F in K. cbn in K. apply Z.eqb_eq in K. subst q1. congruence.
    + right. split; [exact A1|]. intros e' M.
      destruct (x_member_old q e' r M) as [Mo|[F [T B]]]; [exact (A2 e' Mo)|].
      assert (RL := j_RL g s J r A1). rewrite <- T, E, F in RL. inversion RL; subst. discriminate.
Qed.

Lemma x_ND : forall q, NoDup (item_reqs (stk s' (Gc q))).
Proof.
  intros q. destruct (tid_eqb_spec (Gc q) t) as [T|N].
  2:{ rewrite x_stk_other by exact N. apply (j_ND g s J). }
  symmetry in T. rewrite <- T, x_stk_self.
  assert (ND := j_ND g s J q). rewrite <- T, E in ND.
  assert (G := gc_top s q f rest I). rewrite <- T in G. specialize (G E).
  assert (R0 := x_gc_rest_items q T).
  destruct f eqn:F; cbn in G; try discriminate G; apply Z.eqb_eq in G; subst q0; cbn [pushed].
  - rewrite R0 by eauto. rewrite app_nil_r, item_reqs_map. apply (j_H g s J).
  - cbn in ND. inversion ND; subst. destruct (e <=? now s); cbn; assumption.
  - cbn in ND. cbn. exact ND.
Qed.

Lemma gc_shape_items : forall l, Forall (fun h => is_item h = true) l -> gc_shape l.
Proof.
  intros [|x l] H; cbn; [exact Logic.I|]. inversion H; subst.
  destruct x; try discriminate; assumption.
Qed.

Lemma x_GS : forall q, gc_shape (stk s' (Gc q)).
Proof.
  intros q. destruct (tid_eqb_spec (Gc q) t) as [T|N].
  2:{ rewrite x_stk_other by exact N. apply (j_GS g s J). }
  symmetry in T. rewrite <- T, x_stk_self.
  assert (IT := x_gc_rest_items2 q T).
  assert (G := gc_top s q f rest I). rewrite <- T in G. specialize (G E).
  assert (R0 := x_gc_rest_items q T).
  destruct f eqn:F; cbn in G; try discriminate G; cbn [pushed].
  - rewrite R0 by eauto. rewrite app_nil_r. apply gc_shape_items.
    apply Forall_forall. intros x Hx. apply in_map_iff in Hx. destruct Hx as [m [<- _]]. reflexivity.
  - destruct (e <=? now s); cbn [app]; [cbn; exact IT|apply gc_shape_items; exact IT].
  - cbn [app]. apply gc_shape_items; exact IT.
Qed.

Lemma x_RL : forall r, g r = true -> Forall (fun h => slotf h = false) (stk s' (Req r)).
Proof.
  intros r H. destruct (tid_eqb_spec (Req r) t) as [T|N].
  2:{ rewrite x_stk_other by exact N. apply (j_RL g s J r H). }
  rewrite T, x_stk_self. assert (RL := j_RL g s J r H). rewrite T, E in RL.
  assert (R1 := Forall_inv RL). assert (R2 := Forall_inv_tail RL). cbn in R1.
  apply Forall_app. split; [|exact R2].
  apply Forall_forall. intros h Hh. destruct (slotf h) eqn:K; [|reflexivity].
  rewrite (pushed_slot_kind c s t f h Hh K) in R1. discriminate R1.
Qed.

Lemma x_RG : forall r h, In h (stk s' (Req r)) -> relf h = true -> g r = true.
Proof.
  intros r h H K. destruct (tid_eqb_spec (Req r) t) as [T|N].
  2:{ rewrite x_stk_other in H by exact N. apply (j_RG g s J r h H K). }
  rewrite T in H. apply x_in_self in H. destruct H as [H|H].
  - apply (j_RG g s J r f); [rewrite T, E; left; reflexivity|].
    eapply pushed_rel_kind; eauto.
  - apply (j_RG g s J r h); [rewrite T, E; right; exact H|exact K].
Qed.

Lemma Inv2_exec : Inv2 g s'.
Proof.
  constructor.
  - apply x_H. - apply x_E. - apply x_S. - apply x_S2. - apply x_SH. - apply x_T.
  - apply x_D2. - apply x_R. - apply x_G. - apply x_SN. - apply x_ND. - apply x_GS.
  - apply x_RL. - apply x_RG.
Qed.
End Exec.

Lemma Inv2_step : forall c g s ev, wf c -> Inv1 s -> Inv2 g s -> ok_ev g ev ->
  Inv2 (ghost' g s ev) (step c s ev).
Proof.
  intros c g s ev WF I J OK. destruct ev as [t o|t|x].
  - apply Inv2_call; assumption.
  - cbn [step ghost']. destruct (stk s t) as [|f rest] eqn:E; [exact J|].
    apply Inv2_exec; assumption.
  - cbn [step ghost']. apply Inv2_tick. exact J.
Qed.

Lemma Inv2_run : forall c, wf c -> forall evs g s, Inv1 s -> Inv2 g s -> phased_from c g s evs ->
  exists g', Inv2 g' (run c s evs).
Proof.
  intros c WF. induction evs as [|ev evs IH]; intros g s I J P; cbn.
  - exists g. exact J.
  - destruct P as [OK P]. apply (IH (ghost' g s ev) (step c s ev)).
    + apply Inv1_step. exact I.
    + apply Inv2_step; assumption.
    + exact P.
Qed.

Lemma Inv2_reachable : forall c t0 evs, wf c -> phased c t0 evs ->
  exists g, Inv2 g (run c (init t0) evs).
Proof.
  intros c t0 evs WF P. eapply Inv2_run; eauto. apply Inv1_init. apply Inv2_init.
Qed.
