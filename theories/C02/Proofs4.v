(* C02 — lemmas, part 4:
   (a) fuel bridges: [steps] / [run_op] (what the correspondence suites
       evaluate) are literally the solo runs  ECall t o :: repeat (EStep t) n
       the theorems speak about, and a finished solo run does not depend on the
       amount of fuel;
   (b) Dec and drop on a PARTIALLY held chain: Dec walks upwards from q as long
       as the request holds the status, releases exactly that maximal held
       prefix ([held]) and stops at the first quota without status. *)
From Coq Require Import List ZArith Bool Lia.
From Verif Require Import C02.Model C02.Proofs C02.Proofs3.
Import ListNotations.
Open Scope Z_scope.

Ltac proj :=
  cbn [now members status firstq stk verdict set_now set_members set_status
       set_firstq set_stk set_verdict] in *.

(* ------------------------------------------------------------------ *)
(* (a) fuel                                                             *)

Lemma step_idle : forall c s t, stk s t = [] -> step c s (EStep t) = s.
Proof. intros c s t E. cbn [step]. rewrite E. reflexivity. Qed.

Lemma alone_idle : forall c n t s, stk s t = [] -> alone c s t n = s.
Proof.
  induction n as [|n IH]; intros t s E; [reflexivity|].
  rewrite alone_S, step_idle by exact E. apply IH. exact E.
Qed.

Lemma steps_alone : forall c n t s, steps c n t s = alone c s t n.
Proof.
  induction n as [|n IH]; intros t s; [reflexivity|].
  cbn [steps]. destruct (stk s t) eqn:E.
  - symmetry. apply alone_idle. exact E.
  - rewrite alone_S. apply IH.
Qed.

Lemma run_op_run : forall c n s t o,
  run_op c n s t o = run c s (ECall t o :: repeat (EStep t) n).
Proof. intros. unfold run_op. rewrite steps_alone, alone_call. reflexivity. Qed.

Lemma alone_mono : forall c s t n m,
  stk (alone c s t n) t = [] -> (n <= m)%nat -> alone c s t m = alone c s t n.
Proof.
  intros c s t n m E L. replace m with (n + (m - n))%nat by lia.
  rewrite alone_add. apply alone_idle. exact E.
Qed.

(* two finished solo runs of the same thread from the same state are equal *)
Lemma alone_done_unique : forall c s t n m,
  stk (alone c s t n) t = [] -> stk (alone c s t m) t = [] ->
  alone c s t n = alone c s t m.
Proof.
  intros c s t n m En Em. destruct (Nat.le_ge_cases n m) as [L|L].
  - symmetry. apply alone_mono; assumption.
  - apply alone_mono; assumption.
Qed.

(* what the suites execute IS the run of the theorems: with enough fuel, or
   whenever the fuelled run finished (verdict code <> -99) *)
Lemma run_op_fuel : forall c fuel s t o n,
  stk (run c s (ECall t o :: repeat (EStep t) n)) t = [] ->
  (n <= fuel)%nat \/ stk (run_op c fuel s t o) t = [] ->
  run_op c fuel s t o = run c s (ECall t o :: repeat (EStep t) n).
Proof.
  intros c fuel s t o n E H. rewrite run_op_run in *. rewrite !alone_call in *.
  destruct H as [H|H].
  - apply alone_mono; assumption.
  - apply alone_done_unique; assumption.
Qed.

(* ------------------------------------------------------------------ *)
(* (b) the maximal held prefix of the chain of q                        *)

(* q' belongs to the prefix of the chain q, parent q, ... on which request r
   holds a status without interruption, starting at q itself *)
Inductive held (c : config) (s : state) (r : Z) : Z -> Z -> Prop :=
| held_here : forall q, status s q r <> None -> held c s r q q
| held_up : forall q p q', status s q r <> None -> cpar c q = Some p ->
    held c s r p q' -> held c s r q q'.

Lemma held_anc : forall c s r q q', held c s r q q' -> anc c q q'.
Proof.
  intros c s r q q' H. induction H as [q _|q p q' _ P _ IH]; [apply anc_refl|].
  eapply anc_up; eauto.
Qed.

Lemma held_top : forall c s r q q', held c s r q q' -> status s q r <> None.
Proof. intros c s r q q' H. destruct H; assumption. Qed.

Lemma held_status : forall c s r q q', held c s r q q' -> status s q' r <> None.
Proof. intros c s r q q' H. induction H; assumption. Qed.

Lemma held_inv : forall c s r q q', held c s r q q' ->
  status s q r <> None /\
  (q' = q \/ exists p, cpar c q = Some p /\ held c s r p q').
Proof. intros c s r q q' H. destruct H; split; eauto. Qed.

Lemma held_ext : forall c s s' r q q',
  (forall q0, anc c q q0 -> status s' q0 r = status s q0 r) ->
  held c s r q q' -> held c s' r q q'.
Proof.
  intros c s s' r q q' X H. induction H as [q S|q p q' S P _ IH].
  - apply held_here. rewrite X by apply anc_refl. exact S.
  - eapply held_up; eauto.
    + rewrite X by apply anc_refl. exact S.
    + apply IH. intros q0 A. apply X. eapply anc_up; eauto.
Qed.

(* the whole chain is held: the prefix is the chain *)
Lemma held_all : forall c s r q,
  (forall q', anc c q q' -> status s q' r <> None) ->
  forall q', anc c q q' -> held c s r q q'.
Proof.
  intros c s r q H q' A. induction A as [q|q p q' P A IH].
  - apply held_here. apply H. apply anc_refl.
  - eapply held_up; eauto.
    + apply H. apply anc_refl.
    + apply IH. intros q'' A'. apply H. eapply anc_up; eauto.
Qed.

(* decidable: the prefix is computed by walking up; on an acyclic forest the
   walk from q needs at most q+1 steps *)
Fixpoint heldb (c : config) (s : state) (r : Z) (fuel : nat) (q q' : Z) : bool :=
  match fuel with
  | O => false
  | S k =>
      match status s q r with
      | None => false
      | Some _ =>
          (q' =? q) || match cpar c q with
                       | Some p => heldb c s r k p q'
                       | None => false
                       end
      end
  end.

Lemma heldb_sound : forall c s r k q q', heldb c s r k q q' = true -> held c s r q q'.
Proof.
  induction k as [|k IH]; intros q q' H; cbn in H; [discriminate|].
  destruct (status s q r) as [e|] eqn:S; [|discriminate].
  apply orb_prop in H. destruct H as [H|H].
  - apply Z.eqb_eq in H. subst. apply held_here. congruence.
  - destruct (cpar c q) as [p|] eqn:P; [|discriminate].
    eapply held_up; eauto. congruence.
Qed.

Lemma heldb_complete : forall c s r, wf c -> forall k q q',
  held c s r q q' -> 0 <= q < Z.of_nat k -> heldb c s r k q q' = true.
Proof.
  intros c s r WF. induction k as [|k IH]; intros q q' H L; [lia|].
  cbn [heldb]. destruct (held_inv _ _ _ _ _ H) as [S [->|[p [P Hp]]]].
  - destruct (status s q r); [|congruence]. rewrite Z.eqb_refl. reflexivity.
  - destruct (status s q r); [|congruence]. rewrite P.
    rewrite (IH p q' Hp); [apply orb_true_r|]. specialize (WF _ _ P). lia.
Qed.

(* Dec of q: releases exactly the held prefix *)
Lemma dec_drain_prefix : forall c, wf c -> forall q, forall s rest r,
  stk s (Req r) = FDec1 q :: rest ->
  exists n, Z.of_nat n <= 4 * Z.max 0 q + 5 /\
    let s' := alone c s (Req r) n in
    stk s' (Req r) = rest /\
    (forall q', held c s r q q' ->
       status s' q' r = None /\
       exists e, status s q' r = Some e /\ members s' q' = remove_first (e, r) (members s q')) /\
    (forall q', ~ held c s r q q' -> members s' q' = members s q') /\
    (forall q' r', ~ held c s r q q' \/ r' <> r -> status s' q' r' = status s q' r').
Proof.
  intros c WF q0. induction q0 as [q IH] using (well_founded_induction (Z.lt_wf 0)).
  intros s rest r E.
  destruct (status s q r) as [e|] eqn:Sq.
  2:{ (* no status: Dec returns at "not found", nothing is released *)
      exists 1%nat. split; [lia|]. cbn zeta. rewrite (alone_top c s _ _ _ _ E), alone_0.
      cbn [exec self]. rewrite Sq. proj. split; [apply updt_same|]. split; [|split]; auto.
      intros q' H. exfalso. apply (held_top _ _ _ _ _ H). exact Sq. }
  assert (Hq : status s q r <> None) by congruence.
  set (s1 := exec c s (Req r) (FDec1 q) rest).
  assert (E1 : stk s1 (Req r) = FDec2 q e :: rest).
  { unfold s1. cbn [exec self]. rewrite Sq. proj. apply updt_same. }
  assert (X1 : members s1 = members s /\ status s1 = status s)
    by (unfold s1; cbn [exec self]; rewrite Sq; split; reflexivity).
  destruct X1 as [M1 St1].
  set (s2 := exec c s1 (Req r) (FDec2 q e) rest).
  assert (Sq1 : status s1 q r = Some e) by (rewrite St1; exact Sq).
  assert (E2 : stk s2 (Req r) = FDecRem q e :: par_dec c q ++ FDecDel q :: rest).
  { unfold s2. cbn [exec self]. rewrite Sq1. proj. apply updt_same. }
  assert (X2 : members s2 = members s /\ status s2 = status s)
    by (unfold s2; cbn [exec self]; rewrite Sq1; split; assumption).
  destruct X2 as [M2 St2].
  set (s3 := exec c s2 (Req r) (FDecRem q e) (par_dec c q ++ FDecDel q :: rest)).
  assert (E3 : stk s3 (Req r) = par_dec c q ++ FDecDel q :: rest).
  { unfold s3. cbn [exec self]. proj. apply updt_same. }
  assert (M3q : members s3 q = remove_first (e, r) (members s q)).
  { unfold s3. cbn [exec self]. proj. rewrite upd_same, M2. reflexivity. }
  assert (M3 : forall q', q' <> q -> members s3 q' = members s q').
  { intros q' N. unfold s3. cbn [exec self]. proj. rewrite upd_other by exact N. rewrite M2. reflexivity. }
  assert (St3 : status s3 = status s) by (unfold s3; cbn [exec self]; exact St2).
  assert (A3 : alone c s (Req r) 3 = s3).
  { rewrite (alone_top c s _ _ _ _ E). fold s1. rewrite (alone_top c s1 _ _ _ _ E1). fold s2.
    rewrite (alone_top c s2 _ _ _ _ E2). reflexivity. }
  assert (H3 : forall a b, held c s3 r a b <-> held c s r a b).
  { intros a b. split; apply held_ext; intros; rewrite St3; reflexivity. }
  unfold par_dec in E3. destruct (cpar c q) as [p'|] eqn:P.
  - cbn [app] in E3.
    assert (Hp : 0 <= p' < q) by (apply WF; exact P).
    destruct (IH p' Hp s3 (FDecDel q :: rest) r E3) as [n [Bn [F1 [F2 [F3 F4]]]]].
    cbn zeta in F1, F2, F3, F4. set (s4 := alone c s3 (Req r) n) in *.
    set (s5 := exec c s4 (Req r) (FDecDel q) rest).
    assert (NQ : ~ held c s3 r p' q).
    { intros A. apply held_anc in A. eapply anc_parent_neq; eauto. }
    exists (3 + n + 1)%nat. split; [lia|]. cbn zeta.
    rewrite !alone_add, A3. fold s4. rewrite (alone_top c s4 _ _ _ _ F1), alone_0. fold s5.
    split; [unfold s5; cbn [exec self]; proj; apply updt_same|]. split; [|split].
    + intros q' A. destruct (held_inv _ _ _ _ _ A) as [_ [->|[p2 [P2 A2]]]].
      * split; [unfold s5; cbn [exec self]; proj; apply upd2_same|].
        exists e. split; [exact Sq|]. unfold s5. cbn [exec self]. proj.
        rewrite (F3 q NQ). exact M3q.
      * assert (p2 = p') by congruence. subst p2.
        assert (NE : q' <> q) by (apply held_anc in A2; eapply anc_parent_neq; eauto).
        apply H3 in A2.
        destruct (F2 q' A2) as [G1 [e' [G2 G3]]].
        split; [unfold s5; cbn [exec self]; proj; rewrite upd2_other by congruence; exact G1|].
        exists e'. rewrite St3 in G2. split; [exact G2|].
        unfold s5. cbn [exec self]. proj. rewrite G3, M3 by exact NE. reflexivity.
    + intros q' N. unfold s5. cbn [exec self]. proj.
      assert (NE : q' <> q) by (intros ->; apply N; apply held_here; exact Hq).
      rewrite F3, M3; auto. intros A. apply N. apply H3 in A. eapply held_up; eauto.
    + intros q' r' N. unfold s5. cbn [exec self]. proj.
      assert (NK : (q', r') <> (q, r)).
      { intros X. inversion X; subst. destruct N as [N|N]; [apply N; apply held_here; exact Hq|congruence]. }
      rewrite upd2_other by exact NK. rewrite F4, St3; auto.
      destruct N as [N|N]; [left|right; exact N]. intros A. apply N. apply H3 in A. eapply held_up; eauto.
  - cbn [app] in E3. set (s5 := exec c s3 (Req r) (FDecDel q) rest).
    exists 4%nat. split; [lia|]. cbn zeta. change 4%nat with (3 + 1)%nat. rewrite alone_add, A3.
    rewrite (alone_top c s3 _ _ _ _ E3), alone_0. fold s5.
    split; [unfold s5; cbn [exec self]; proj; apply updt_same|]. split; [|split].
    + intros q' A. destruct (held_inv _ _ _ _ _ A) as [_ [->|[p2 [P2 _]]]]; [|congruence].
      split; [unfold s5; cbn [exec self]; proj; apply upd2_same|].
      exists e. split; [exact Sq|]. unfold s5. cbn [exec self]. proj. exact M3q.
    + intros q' N. unfold s5. cbn [exec self]. proj. apply M3. intros ->. apply N. apply held_here; exact Hq.
    + intros q' r' N. unfold s5. cbn [exec self]. proj.
      assert (NK : (q', r') <> (q, r)).
      { intros X. inversion X; subst. destruct N as [N|N]; [apply N; apply held_here; exact Hq|congruence]. }
      rewrite upd2_other by exact NK. rewrite St3. reflexivity.
Qed.

Lemma held_closed_stack : forall c q, dec_stack (anc c q) [FDec1 q].
Proof. intros c q f [<-|[]]. exists q. split; [reflexivity|apply anc_refl]. Qed.

(* Dec as an operation, from an idle thread *)
Lemma dec_prefix : forall c, wf c -> forall s r q,
  stk s (Req r) = [] ->
  exists n, Z.of_nat n <= 4 * Z.max 0 q + 5 /\
    let s' := run c s (ECall (Req r) (ODec q) :: repeat (EStep (Req r)) n) in
    stk s' (Req r) = [] /\
    (forall q', held c s r q q' ->
       status s' q' r = None /\
       exists e, status s q' r = Some e /\ members s' q' = remove_first (e, r) (members s q')) /\
    (forall q', ~ held c s r q q' -> members s' q' = members s q') /\
    (forall q' r', ~ held c s r q q' \/ r' <> r -> status s' q' r' = status s q' r') /\
    firstq s' = firstq s /\ now s' = now s /\
    (forall t', t' <> Req r -> stk s' t' = stk s t').
Proof.
  intros c WF s r q E.
  set (s0 := step c s (ECall (Req r) (ODec q))).
  assert (E0 : stk s0 (Req r) = [FDec1 q]).
  { unfold s0. cbn [step]. rewrite E. cbn [op_fits frames_of stk set_stk]. apply updt_same. }
  assert (X0 : members s0 = members s /\ status s0 = status s /\ firstq s0 = firstq s /\ now s0 = now s /\
               forall t', t' <> Req r -> stk s0 t' = stk s t').
  { unfold s0. cbn [step]. rewrite E. cbn [op_fits]. repeat split; auto.
    intros t' N. proj. apply updt_other. exact N. }
  destruct X0 as [M0 [St0 [F0 [N0 K0]]]].
  assert (H0 : forall a b, held c s0 r a b <-> held c s r a b).
  { intros a b. split; apply held_ext; intros; rewrite St0; reflexivity. }
  destruct (dec_drain_prefix c WF q s0 [] r E0) as [n [Bn [G1 [G2 [G3 G4]]]]].
  assert (D : dec_stack (anc c q) (stk s0 (Req r))) by (rewrite E0; apply held_closed_stack).
  destruct (dec_alone_outside c (anc c q) r (anc_closed c q) n s0 D) as [_ [_ [_ [FF [NN KK]]]]].
  exists n. split; [exact Bn|]. cbn zeta in *. rewrite alone_call. fold s0.
  split; [exact G1|]. split; [|split; [|split; [|split; [|split]]]].
  - intros q' A. apply H0 in A. destruct (G2 q' A) as [X [e [Y Z]]].
    split; [exact X|]. exists e. rewrite St0, M0 in *. split; assumption.
  - intros q' N. rewrite G3, M0; [reflexivity|]. intros A. apply N. apply H0. exact A.
  - intros q' r' N. rewrite G4, St0; [reflexivity|].
    destruct N as [N|N]; [left|right; exact N]. intros A. apply N. apply H0. exact A.
  - congruence.
  - congruence.
  - intros t' N. rewrite KK, K0; auto.
Qed.

(* drop as an operation: pops the association and runs Dec of the first quota *)
Lemma drop_prefix : forall c, wf c -> forall s r q1,
  stk s (Req r) = [] -> firstq s r = Some q1 ->
  exists n, Z.of_nat n <= 4 * Z.max 0 q1 + 6 /\
    let s' := run c s (ECall (Req r) ODrop :: repeat (EStep (Req r)) n) in
    stk s' (Req r) = [] /\ firstq s' r = None /\
    (forall r', r' <> r -> firstq s' r' = firstq s r') /\
    (forall q', held c s r q1 q' ->
       status s' q' r = None /\
       exists e, status s q' r = Some e /\ members s' q' = remove_first (e, r) (members s q')) /\
    (forall q', ~ held c s r q1 q' -> members s' q' = members s q') /\
    (forall q' r', ~ held c s r q1 q' \/ r' <> r -> status s' q' r' = status s q' r') /\
    now s' = now s /\
    (forall t', t' <> Req r -> stk s' t' = stk s t').
Proof.
  intros c WF s r q1 E F.
  set (s0 := step c s (ECall (Req r) ODrop)).
  assert (E0 : stk s0 (Req r) = [FDrop]).
  { unfold s0. cbn [step]. rewrite E. cbn [op_fits frames_of stk set_stk]. apply updt_same. }
  assert (X0 : members s0 = members s /\ status s0 = status s /\ firstq s0 = firstq s /\ now s0 = now s /\
               forall t', t' <> Req r -> stk s0 t' = stk s t').
  { unfold s0. cbn [step]. rewrite E. cbn [op_fits]. repeat split; auto.
    intros t' N. proj. apply updt_other. exact N. }
  destruct X0 as [M0 [St0 [F0 [N0 K0]]]].
  set (s1 := exec c s0 (Req r) FDrop []).
  assert (E1 : stk s1 (Req r) = [FDec1 q1]).
  { unfold s1. cbn [exec self]. rewrite F0, F. cbn [stk set_stk]. apply updt_same. }
  assert (X1 : members s1 = members s /\ status s1 = status s /\ firstq s1 r = None /\
               (forall r', r' <> r -> firstq s1 r' = firstq s r') /\ now s1 = now s /\
               forall t', t' <> Req r -> stk s1 t' = stk s t').
  { unfold s1. cbn [exec self]. rewrite F0, F. proj. rewrite upd_same. repeat split; auto.
    - intros r' N. rewrite upd_other by exact N. rewrite F0. reflexivity.
    - intros t' N. rewrite updt_other by exact N. apply K0. exact N. }
  destruct X1 as [M1 [St1 [F1 [F1o [N1 K1]]]]].
  assert (H1 : forall a b, held c s1 r a b <-> held c s r a b).
  { intros a b. split; apply held_ext; intros; rewrite St1; reflexivity. }
  destruct (dec_drain_prefix c WF q1 s1 [] r E1) as [n [Bn [G1 [G2 [G3 G4]]]]].
  assert (D : dec_stack (anc c q1) (stk s1 (Req r))) by (rewrite E1; apply held_closed_stack).
  destruct (dec_alone_outside c (anc c q1) r (anc_closed c q1) n s1 D) as [_ [_ [_ [FF [NN KK]]]]].
  exists (1 + n)%nat. split; [lia|]. cbn zeta in *. rewrite alone_call. fold s0. rewrite alone_add.
  assert (A1 : alone c s0 (Req r) 1 = s1) by (rewrite (alone_top c s0 _ _ _ _ E0); reflexivity).
  rewrite A1. split; [exact G1|]. split; [rewrite FF; exact F1|].
  split; [intros r' N; rewrite FF; apply F1o; exact N|].
  split; [|split; [|split; [|split]]].
  - intros q' A. apply H1 in A. destruct (G2 q' A) as [X [e [Y Z]]].
    split; [exact X|]. exists e. rewrite St1, M1 in *. split; assumption.
  - intros q' N. rewrite G3, M1; [reflexivity|]. intros A. apply N. apply H1. exact A.
  - intros q' r' N. rewrite G4, St1; [reflexivity|].
    destruct N as [N|N]; [left|right; exact N]. intros A. apply N. apply H1. exact A.
  - congruence.
  - intros t' N. rewrite KK, K1; auto.
Qed.

(* a drop of a request that is associated with no quota only pops nothing *)
Lemma drop_without_quota : forall c s r,
  stk s (Req r) = [] -> firstq s r = None ->
  let s' := run c s [ECall (Req r) ODrop; EStep (Req r)] in
  stk s' (Req r) = [] /\ members s' = members s /\ status s' = status s /\ firstq s' = firstq s.
Proof.
  intros c s r E F. cbn [run fold_left step]. rewrite E. cbn [op_fits frames_of]. proj.
  rewrite updt_same. cbn [exec self]. proj. rewrite F. proj. rewrite updt_same. auto.
Qed.

(* the 429 after a parent's refusal: the held prefix is the child alone *)
Lemma drop_after_parent_refusal : forall c, wf c -> forall s r q p e,
  stk s (Req r) = [] -> firstq s r = Some q ->
  status s q r = Some e -> cpar c q = Some p -> status s p r = None ->
  exists n, Z.of_nat n <= 4 * Z.max 0 q + 6 /\
    let s' := run c s (ECall (Req r) ODrop :: repeat (EStep (Req r)) n) in
    stk s' (Req r) = [] /\ firstq s' r = None /\ status s' q r = None /\
    members s' q = remove_first (e, r) (members s q) /\
    (forall q', q' <> q -> members s' q' = members s q' /\ forall r', status s' q' r' = status s q' r').
Proof.
  intros c WF s r q p e E F S P Sp.
  assert (HQ : forall q', held c s r q q' <-> q' = q).
  { intros q'. split.
    - intros H. destruct (held_inv _ _ _ _ _ H) as [_ [->|[p2 [P2 H2]]]]; [reflexivity|].
      exfalso. assert (p2 = p) by congruence. subst p2. apply (held_top _ _ _ _ _ H2). exact Sp.
    - intros ->. apply held_here. congruence. }
  destruct (drop_prefix c WF s r q E F) as [n [B [G1 [G2 [_ [G3 [G4 [G5 _]]]]]]]].
  exists n. split; [exact B|]. cbn zeta in *. split; [exact G1|]. split; [exact G2|].
  destruct (G3 q (proj2 (HQ q) eq_refl)) as [X [e' [Y Z]]].
  assert (e' = e) by congruence. subst e'.
  split; [exact X|]. split; [exact Z|].
  intros q' N. assert (NH : ~ held c s r q q') by (intros H; apply N; apply HQ; exact H).
  split; [apply G4; exact NH|]. intros r'. apply G5. left. exact NH.
Qed.
