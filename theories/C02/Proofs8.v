(* C02 — lemmas about members as strings (Model4.v). *)
From Coq Require Import List ZArith Bool Lia.
From Verif Require Import C02.Model4.
Import ListNotations.
Open Scope Z_scope.

Lemma cfree_cons c s : cfree (c :: s) -> c <> 58 /\ cfree s.
Proof. intros H. inversion H; subst. split; assumption. Qed.

(* a ':'-free prefix followed by the separator: one cut, exactly there *)
Lemma splitk_prefix : forall a, cfree a -> forall k cur rest, k <> Some O ->
  splitk k cur (a ++ 58 :: 58 :: rest) = (rev cur ++ a) :: splitk (less k) [] rest.
Proof.
  induction a as [|c a IH]; intros Hf k cur rest Hk.
  - cbn [app splitk]. destruct k as [[|n]|]; [congruence| |];
      rewrite Z.eqb_refl; cbn [andb]; rewrite app_nil_r; reflexivity.
  - apply cfree_cons in Hf. destruct Hf as [Hc Hf].
    assert (E : (c =? 58) = false) by (apply Z.eqb_neq; exact Hc).
    cbn [app].
    destruct (a ++ 58 :: 58 :: rest) as [|d u] eqn:Et.
    { destruct a; discriminate Et. }
    assert (S : splitk k cur (c :: d :: u) = splitk k (c :: cur) (d :: u)).
    { cbn [splitk]. destruct k as [[|n]|]; [congruence| |]; rewrite E; cbn [andb]; reflexivity. }
    rewrite S, <- Et, (IH Hf k (c :: cur) rest Hk). cbn [rev]. rewrite <- app_assoc. reflexivity.
Qed.

Lemma splitk_zero cur s : splitk (Some O) cur s = [rev cur ++ s].
Proof. destruct s; cbn [splitk]; [rewrite app_nil_r|]; reflexivity. Qed.

(* no cut inside a ':'-free string *)
Lemma splitk_cfree : forall a, cfree a -> forall k cur, splitk k cur a = [rev cur ++ a].
Proof.
  induction a as [|c a IH]; intros Hf k cur.
  - cbn [splitk]. rewrite app_nil_r. reflexivity.
  - apply cfree_cons in Hf. destruct Hf as [Hc Hf].
    assert (E : (c =? 58) = false) by (apply Z.eqb_neq; exact Hc).
    destruct a as [|d u].
    + cbn [splitk rev]. destruct k as [[|n]|]; reflexivity.
    + assert (S : splitk k cur (c :: d :: u) = splitk k (c :: cur) (d :: u) \/ k = Some O).
      { destruct k as [[|n]|]; [right; reflexivity| |]; left; cbn [splitk]; rewrite E; reflexivity. }
      destruct S as [S|S].
      * rewrite S, (IH Hf). cbn [rev]. rewrite <- app_assoc. reflexivity.
      * subst k. apply splitk_zero.
Qed.

(* the three components, cut off from the left: ANY instance id *)
Lemma split3_render dec e rid inst :
  cfree (dec e) -> cfree rid ->
  splitk (Some 2%nat) [] (render dec e rid inst) = [dec e; rid; inst].
Proof.
  intros He Hr. unfold render, sep. cbn [app].
  rewrite (splitk_prefix _ He) by discriminate. cbn [less rev app].
  rewrite (splitk_prefix _ Hr) by discriminate. cbn [less rev app].
  rewrite splitk_zero. reflexivity.
Qed.

(* cutting everywhere: the parts of the instance id follow *)
Lemma splitall_render dec e rid inst :
  cfree (dec e) -> cfree rid ->
  splitk None [] (render dec e rid inst) = dec e :: rid :: splitk None [] inst.
Proof.
  intros He Hr. unfold render, sep. cbn [app].
  rewrite (splitk_prefix _ He) by discriminate. cbn [less rev app].
  rewrite (splitk_prefix _ Hr) by discriminate. reflexivity.
Qed.

Lemma dec_nonnil dec undec e : dec_ok dec undec -> undec [] = None -> isnil (dec e) = false.
Proof.
  intros [R _] N. destruct (dec e) eqn:E; [|reflexivity].
  specialize (R e). rewrite E, N in R. discriminate R.
Qed.

Lemma parse_head dec undec e rid inst :
  dec_ok dec undec -> cfree rid ->
  parse undec head4 (render dec e rid inst) = Some (e, rid, inst).
Proof.
  intros [R F] Hr. unfold parse. cbn [split_all reject_empty head4 andb].
  rewrite (split3_render dec e rid inst (F e) Hr), R. reflexivity.
Qed.

Lemma parse_unfixed_cfree dec undec e rid inst :
  dec_ok dec undec -> cfree rid -> cfree inst ->
  parse undec unfixed4 (render dec e rid inst) = Some (e, rid, inst).
Proof.
  intros [R F] Hr Hi. unfold parse. cbn [split_all reject_empty unfixed4 andb].
  rewrite (splitall_render dec e rid inst (F e) Hr), (splitk_cfree _ Hi), R. reflexivity.
Qed.

(* seeded C02-12: the empty instance id is "invalid format", whichever split *)
Lemma parse_reject_empty dec undec v e rid :
  dec_ok dec undec -> cfree rid -> reject_empty v = true ->
  parse undec v (render dec e rid []) = None.
Proof.
  intros [R F] Hr Hv. unfold parse. rewrite Hv.
  destruct (split_all v).
  - rewrite (splitall_render dec e rid [] (F e) Hr). cbn [splitk rev isnil andb].
    rewrite !orb_true_r. reflexivity.
  - rewrite (split3_render dec e rid [] (F e) Hr). cbn [isnil andb].
    rewrite !orb_true_r. reflexivity.
Qed.

(* unfixed tree: an instance id with the separator inside gives 4 parts *)
Lemma parse_split_all_sep dec undec v e rid :
  dec_ok dec undec -> cfree rid -> split_all v = true ->
  parse undec v (render dec e rid [100; 58; 58; 103]) = None.
Proof.
  intros [R F] Hr Hv. unfold parse. rewrite Hv.
  rewrite (splitall_render dec e rid _ (F e) Hr). reflexivity.
Qed.

Lemma dec1_ok : dec_ok dec1 undec1.
Proof.
  split; intros e; unfold dec1, undec1.
  - destruct (e <? 58) eqn:E.
    + rewrite E. reflexivity.
    + apply Z.ltb_ge in E. assert (E2 : (e + 1 <? 58) = false) by (apply Z.ltb_ge; lia).
      rewrite E2. f_equal. lia.
  - constructor; [|constructor]. destruct (e <? 58) eqn:E.
    + apply Z.ltb_lt in E. lia.
    + apply Z.ltb_ge in E. lia.
Qed.

Lemma cfreeb_spec s : cfreeb s = true <-> cfree s.
Proof.
  unfold cfreeb, cfree. rewrite forallb_forall, Forall_forall. split; intros H c Hc.
  - specialize (H c Hc). apply negb_true_iff, Z.eqb_neq in H. exact H.
  - apply negb_true_iff, Z.eqb_neq. exact (H c Hc).
Qed.
