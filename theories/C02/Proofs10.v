(* C02 — the real decimal rendering (Model4.dec10 / parse10 / undec10): round
   trip, no ':' among the digits, ParseInt = ideal reading + range check. *)
From Coq Require Import List ZArith Bool Lia.
From Verif Require Import C02.Model4 C02.Proofs8.
Import ListNotations.
Open Scope Z_scope.

Lemma isdigit_small n : 0 <= n < 10 -> isdigit (48 + n) = true.
Proof.
  intros H. unfold isdigit. apply andb_true_intro. split; apply Z.leb_le; lia.
Qed.

Lemma isdigit_range c : isdigit c = true -> 48 <= c <= 57.
Proof.
  unfold isdigit. intros H. apply andb_prop in H. destruct H as [A B].
  apply Z.leb_le in A. apply Z.leb_le in B. lia.
Qed.

(* one digit through ParseUint's loop body *)
Lemma puint_digit lim acc d t :
  0 <= d < 10 -> (lim = true -> 10 * acc + d <= maxu64) ->
  puint lim acc ((48 + d) :: t) = puint lim (10 * acc + d) t.
Proof.
  intros Hd Hm. cbn [puint]. rewrite (isdigit_small d Hd).
  replace (48 + d - 48) with d by lia.
  destruct lim; cbn [andb]; [|reflexivity].
  destruct (Z.ltb_spec maxu64 (10 * acc + d)) as [L|L]; [|reflexivity].
  specialize (Hm eq_refl). lia.
Qed.

(* reading the digits written for n in front of [rest] = continuing from n *)
Lemma puint_udigits lim : forall fuel n rest,
  0 <= n < 2 ^ Z.of_nat fuel -> (lim = true -> n <= maxu64) ->
  puint lim 0 (udigits fuel n rest) = puint lim n rest.
Proof.
  induction fuel as [|f IH]; intros n rest Hn Hm.
  - change (Z.of_nat 0) with 0 in Hn. rewrite Z.pow_0_r in Hn.
    assert (n = 0) by lia. subst n. reflexivity.
  - rewrite Nat2Z.inj_succ, Z.pow_succ_r in Hn by lia.
    assert (Hp : 0 < 2 ^ Z.of_nat f) by (apply Z.pow_pos_nonneg; lia).
    remember (2 ^ Z.of_nat f) as p eqn:Ep.
    cbn [udigits]. destruct (Z.ltb_spec n 10) as [L|L].
    + rewrite (puint_digit lim 0 n rest); [|lia|intros E; specialize (Hm E); lia].
      replace (10 * 0 + n) with n by lia. reflexivity.
    + pose proof (Z.div_mod n 10 ltac:(lia)) as DM.
      pose proof (Z.mod_pos_bound n 10 ltac:(lia)) as MB.
      assert (D0 : 0 <= n / 10) by (apply Z.div_pos; lia).
      assert (D1 : n / 10 < p) by (apply Z.div_lt_upper_bound; lia).
      rewrite (IH (n / 10) ((48 + n mod 10) :: rest)).
      * rewrite (puint_digit lim (n / 10) (n mod 10) rest).
        -- replace (10 * (n / 10) + n mod 10) with n by lia. reflexivity.
        -- exact MB.
        -- intros E. specialize (Hm E). lia.
      * subst p. lia.
      * intros E. specialize (Hm E). lia.
Qed.

Lemma udec_fuel n : 0 <= n -> 0 <= n < 2 ^ Z.of_nat (S (Z.to_nat (Z.log2 n))).
Proof.
  intros Hn. rewrite Nat2Z.inj_succ, Z2Nat.id by apply Z.log2_nonneg.
  destruct (Z.eq_dec n 0) as [E|E].
  - subst n. cbn. lia.
  - pose proof (Z.log2_spec n ltac:(lia)) as S. lia.
Qed.

Lemma puint_udec lim n :
  0 <= n -> (lim = true -> n <= maxu64) -> puint lim 0 (udec n) = POk n.
Proof.
  intros Hn Hm. unfold udec.
  rewrite (puint_udigits lim _ n [] (udec_fuel n Hn) Hm). reflexivity.
Qed.

(* the rendering of n >= 0 starts with a digit (so: not empty, no sign) *)
Lemma udigits_head : forall fuel n acc, 0 <= n ->
  (fuel <> O \/ exists d t, acc = d :: t /\ isdigit d = true) ->
  exists d t, udigits fuel n acc = d :: t /\ isdigit d = true.
Proof.
  induction fuel as [|f IH]; intros n acc Hn H.
  - destruct H as [H|H]; [congruence|exact H].
  - cbn [udigits]. destruct (Z.ltb_spec n 10) as [L|L].
    + exists (48 + n), acc. split; [reflexivity|apply isdigit_small; lia].
    + apply IH; [apply Z.div_pos; lia|]. right.
      exists (48 + n mod 10), acc. split; [reflexivity|].
      apply isdigit_small, Z.mod_pos_bound. lia.
Qed.

Lemma udec_head n : 0 <= n -> exists d t, udec n = d :: t /\ isdigit d = true.
Proof. intros Hn. apply udigits_head; [exact Hn|left; discriminate]. Qed.

Lemma udigits_cfree : forall fuel n acc, 0 <= n -> cfree acc -> cfree (udigits fuel n acc).
Proof.
  induction fuel as [|f IH]; intros n acc Hn Ha; cbn [udigits]; [exact Ha|].
  destruct (Z.ltb_spec n 10) as [L|L].
  - unfold cfree. constructor; [lia|exact Ha].
  - apply IH; [apply Z.div_pos; lia|].
    pose proof (Z.mod_pos_bound n 10 ltac:(lia)) as MB.
    unfold cfree. constructor; [lia|exact Ha].
Qed.

Lemma dec10_cfree e : cfree (dec10 e).
Proof.
  unfold dec10. destruct (Z.ltb_spec e 0) as [L|L].
  - unfold cfree. constructor; [discriminate|]. apply udigits_cfree; [lia|constructor].
  - apply udigits_cfree; [lia|constructor].
Qed.

Lemma parse10_minus lim t : parse10 lim (45 :: t) = pbody lim true t.
Proof. reflexivity. Qed.

Lemma parse10_digit lim d t : isdigit d = true -> parse10 lim (d :: t) = pbody lim false (d :: t).
Proof.
  intros H. apply isdigit_range in H. unfold parse10.
  destruct (Z.eqb_spec d 45) as [E|E]; [lia|].
  destruct (Z.eqb_spec d 43) as [E'|E']; [lia|]. reflexivity.
Qed.

Lemma pbody_udec lim (neg : bool) n :
  0 <= n -> (lim = true -> n <= (if neg then cut63 else cut63 - 1)) ->
  pbody lim neg (udec n) = POk (if neg then - n else n).
Proof.
  intros Hn Hm. unfold pbody.
  rewrite (puint_udec lim n Hn).
  2:{ intros E. specialize (Hm E). unfold cut63, maxu64 in *. destruct neg; lia. }
  destruct (udec_head n Hn) as (d & t & E & _). rewrite E.
  destruct lim; cbn [andb]; [|reflexivity]. specialize (Hm eq_refl).
  destruct neg.
  - destruct (Z.ltb_spec cut63 n); [lia|reflexivity].
  - destruct (Z.leb_spec cut63 n); [lia|reflexivity].
Qed.

(* ParseInt reads back what FormatInt wrote: every int64 with the range checks,
   every integer without *)
Lemma parse10_dec10 lim e : (lim = true -> int64 e) -> parse10 lim (dec10 e) = POk e.
Proof.
  intros Hm. unfold dec10. destruct (Z.ltb_spec e 0) as [L|L].
  - rewrite parse10_minus, (pbody_udec lim true (- e)).
    + rewrite Z.opp_involutive. reflexivity.
    + lia.
    + intros E. specialize (Hm E). unfold int64 in Hm. unfold cut63. lia.
  - destruct (udec_head e L) as (d & t & E & Hd).
    rewrite E, (parse10_digit lim d t Hd), <- E, (pbody_udec lim false e).
    + reflexivity.
    + exact L.
    + intros E'. specialize (Hm E'). unfold int64 in Hm. unfold cut63. lia.
Qed.

Lemma undec10_dec10 e : int64 e -> undec10 (dec10 e) = Some e.
Proof. intros H. unfold undec10. rewrite (parse10_dec10 true e (fun _ => H)). reflexivity. Qed.

Lemma undecZ_dec10 e : undecZ (dec10 e) = Some e.
Proof.
  unfold undecZ. rewrite (parse10_dec10 false e); [reflexivity|discriminate].
Qed.

Lemma dec10_ok_ideal : dec_ok dec10 undecZ.
Proof. split; [exact undecZ_dec10|exact dec10_cfree]. Qed.

Lemma int64b_spec e : int64b e = true <-> int64 e.
Proof.
  unfold int64b, int64. rewrite andb_true_iff, !Z.leb_le. reflexivity.
Qed.

(* ---- ParseInt accepts exactly: the ideal reading, when it is an int64 ---- *)

Lemma puint_mono lim : forall s acc z, 0 <= acc -> puint lim acc s = POk z -> acc <= z.
Proof.
  induction s as [|c t IH]; intros acc z Ha H; cbn [puint] in H.
  - inversion H. lia.
  - destruct (isdigit c) eqn:Ed; [|discriminate H]. apply isdigit_range in Ed.
    destruct (lim && (maxu64 <? 10 * acc + (c - 48))); [discriminate H|].
    apply IH in H; lia.
Qed.

Lemma puint_lim_ideal : forall s acc z, puint true acc s = POk z -> puint false acc s = POk z.
Proof.
  induction s as [|c t IH]; intros acc z H; cbn [puint] in *; [exact H|].
  destruct (isdigit c); [|discriminate H]. cbn [andb] in *.
  destruct (maxu64 <? 10 * acc + (c - 48)); [discriminate H|]. apply IH. exact H.
Qed.

(* no prefix overflows when the whole value fits *)
Lemma puint_ideal_lim : forall s acc z, 0 <= acc ->
  puint false acc s = POk z -> z <= maxu64 -> puint true acc s = POk z.
Proof.
  induction s as [|c t IH]; intros acc z Ha H Hz; cbn [puint] in *; [exact H|].
  destruct (isdigit c) eqn:Ed; [|discriminate H]. cbn [andb] in *.
  apply isdigit_range in Ed.
  assert (M : 10 * acc + (c - 48) <= z) by (apply (puint_mono false t); [lia|exact H]).
  destruct (Z.ltb_spec maxu64 (10 * acc + (c - 48))) as [L|L]; [lia|].
  apply IH; [lia|exact H|exact Hz].
Qed.

Lemma pbody_sound neg s z : pbody true neg s = POk z -> pbody false neg s = POk z /\ int64 z.
Proof.
  unfold pbody. destruct s as [|c t]; [discriminate|].
  destruct (puint true 0 (c :: t)) as [un| |] eqn:E; try discriminate.
  pose proof (puint_mono true _ _ _ (Z.le_refl 0) E) as M.
  rewrite (puint_lim_ideal _ _ _ E). cbn [andb]. intros H.
  unfold int64. unfold cut63 in H.
  destruct neg.
  - destruct (Z.ltb_spec 9223372036854775808 un); [discriminate H|]. inversion H. split; [reflexivity|lia].
  - destruct (Z.leb_spec 9223372036854775808 un); [discriminate H|]. inversion H. split; [reflexivity|lia].
Qed.

Lemma pbody_complete neg s z : pbody false neg s = POk z -> int64 z -> pbody true neg s = POk z.
Proof.
  unfold pbody. destruct s as [|c t]; [discriminate|].
  destruct (puint false 0 (c :: t)) as [un| |] eqn:E; try discriminate.
  pose proof (puint_mono false _ _ _ (Z.le_refl 0) E) as M.
  cbn [andb]. intros H Hz. inversion H as [Hu]. unfold int64 in Hz.
  rewrite (puint_ideal_lim _ 0 un (Z.le_refl 0) E) by (unfold maxu64; destruct neg; lia).
  cbn [andb]. unfold cut63. destruct neg.
  - destruct (Z.ltb_spec 9223372036854775808 un); [lia|reflexivity].
  - destruct (Z.leb_spec 9223372036854775808 un); [lia|reflexivity].
Qed.

Lemma undec10_spec s z : undec10 s = Some z <-> undecZ s = Some z /\ int64 z.
Proof.
  unfold undec10, undecZ, parse10. destruct s as [|c t].
  - split; [discriminate|intros [H _]; discriminate H].
  - destruct (c =? 45); [|destruct (c =? 43)].
    all: match goal with |- context [pbody true ?n ?b] =>
           pose proof (pbody_sound n b z) as S; pose proof (pbody_complete n b z) as C;
           destruct (pbody true n b) as [x| |] eqn:E1; destruct (pbody false n b) as [y| |] eqn:E2
         end.
    all: split; [intros H; inversion H; subst; try (destruct (S eq_refl) as [S1 S2]; inversion S1; subst; split; [reflexivity|exact S2]); try (destruct (S eq_refl) as [S1 _]; discriminate S1)
                |intros [H Hz]; inversion H; subst; try (specialize (C eq_refl Hz); inversion C; reflexivity); try (specialize (C eq_refl Hz); discriminate C)].
Qed.

(* the pointwise form of Proofs8.parse_head: what is needed of dec / undec is
   needed at this expiry only *)
Lemma parse_head_at dec undec e rid inst :
  undec (dec e) = Some e -> cfree (dec e) -> cfree rid ->
  parse undec head4 (render dec e rid inst) = Some (e, rid, inst).
Proof.
  intros R F Hr. unfold parse. cbn [split_all reject_empty head4 andb].
  rewrite (split3_render dec e rid inst F Hr), R. reflexivity.
Qed.

Lemma parse_unfixed_cfree_at dec undec e rid inst :
  undec (dec e) = Some e -> cfree (dec e) -> cfree rid -> cfree inst ->
  parse undec unfixed4 (render dec e rid inst) = Some (e, rid, inst).
Proof.
  intros R F Hr Hi. unfold parse. cbn [split_all reject_empty unfixed4 andb].
  rewrite (splitall_render dec e rid inst F Hr), (splitk_cfree _ Hi), R. reflexivity.
Qed.
