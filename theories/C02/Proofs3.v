(* C02 — lemmas, part 3: one thread running alone until it is idle again
   (a fresh probe is admitted; a drop releases exactly the first-touched chain;
   one GC pass removes every expired member). *)
From Coq Require Import List ZArith Bool Lia.
From Verif Require Import C02.Model C02.Proofs.
Import ListNotations.
Open Scope Z_scope.

Ltac proj :=
  cbn [now members status firstq stk verdict set_now set_members set_status
       set_firstq set_stk set_verdict] in *.

(* q' is q or one of its ancestors *)
Inductive anc (c : config) : Z -> Z -> Prop :=
| anc_refl : forall q, anc c q q
| anc_up : forall q p q', cpar c q = Some p -> anc c p q' -> anc c q q'.

Lemma anc_le : forall c q q', wf c -> anc c q q' -> q' <= q.
Proof.
  intros c q q' WF H. induction H as [q|q p q' P _ IH]; [lia|].
  specialize (WF _ _ P). lia.
Qed.

Lemma anc_parent_neq : forall c q p q', wf c -> cpar c q = Some p -> anc c p q' -> q' <> q.
Proof. intros c q p q' WF P A. assert (L := anc_le c p q' WF A). specialize (WF _ _ P). lia. Qed.

Lemma anc_inv : forall c q q', anc c q q' -> q' = q \/ exists p, cpar c q = Some p /\ anc c p q'.
Proof. intros c q q' H. inversion H; subst; eauto. Qed.

(* thread t alone executes n of its lock regions *)
Definition alone (c : config) (s : state) (t : tid) (n : nat) : state :=
  run c s (repeat (EStep t) n).

Lemma alone_0 : forall c s t, alone c s t 0 = s.
Proof. reflexivity. Qed.

Lemma alone_S : forall c s t n, alone c s t (S n) = alone c (step c s (EStep t)) t n.
Proof. reflexivity. Qed.

Lemma alone_top : forall c s t n f rest, stk s t = f :: rest ->
  alone c s t (S n) = alone c (exec c s t f rest) t n.
Proof. intros. rewrite alone_S. cbn [step]. rewrite H. reflexivity. Qed.

Lemma alone_add : forall c s t n m, alone c s t (n + m) = alone c (alone c s t n) t m.
Proof. intros. unfold alone. rewrite repeat_app, run_app. reflexivity. Qed.

Lemma alone_call : forall c s t o n,
  run c s (ECall t o :: repeat (EStep t) n) = alone c (step c s (ECall t o)) t n.
Proof. reflexivity. Qed.

(* ------------------------------------------------------------------ *)
(* Inc along the chain, for a request without status and with room      *)

Lemma inc_drain_b : forall c, wf c -> forall q, forall s rest p,
  stk s (Req p) = FIncCheck q :: rest ->
  (forall q', anc c q q' ->
     status s q' p = None /\ Z.of_nat (length (members s q')) < cmax c q') ->
  exists n, Z.of_nat n <= 4 * Z.max 0 q + 4 /\ let s' := alone c s (Req p) n in
    stk s' (Req p) = rest /\
    (forall q', anc c q q' -> status s' q' p <> None) /\
    verdict s' = verdict s.
Proof.
  intros c WF q0. induction q0 as [q IH] using (well_founded_induction (Z.lt_wf 0)).
  intros s rest p E H.
  destruct (H q (anc_refl c q)) as [S0 R0].
  (* FIncCheck: no status *)
  set (s1 := exec c s (Req p) (FIncCheck q) rest).
  assert (E1 : stk s1 (Req p) = FGen q :: rest).
  { unfold s1. cbn [exec self]. rewrite S0. proj. apply updt_same. }
  set (s2 := exec c s1 (Req p) (FGen q) rest).
  set (e := now s1 + cttl c q + delta).
  assert (E2 : stk s2 (Req p) = FSAdd q e :: rest).
  { unfold s2. cbn [exec]. proj. apply updt_same. }
  assert (M2 : members s2 = members s) by (unfold s2, s1; cbn [exec self]; rewrite S0; reflexivity).
  assert (St2 : status s2 = status s) by (unfold s2, s1; cbn [exec self]; rewrite S0; reflexivity).
  assert (V2 : verdict s2 = verdict s) by (unfold s2, s1; cbn [exec self]; rewrite S0; reflexivity).
  set (s3 := exec c s2 (Req p) (FSAdd q e) rest).
  assert (Room : (Z.of_nat (length (members s2 q)) <? cmax c q) = true)
    by (rewrite M2; apply Z.ltb_lt; exact R0).
  assert (E3 : stk s3 (Req p) = par_inc c q ++ FSet q e :: rest).
  { unfold s3. cbn [exec self]. rewrite Room. proj. apply updt_same. }
  assert (M3 : forall q', q' <> q -> members s3 q' = members s q').
  { intros q' N. unfold s3. cbn [exec self]. rewrite Room. proj. rewrite upd_other by exact N.
    rewrite M2. reflexivity. }
  assert (St3 : status s3 = status s) by (unfold s3; cbn [exec self]; rewrite Room; exact St2).
  assert (V3 : verdict s3 = verdict s) by (unfold s3; cbn [exec self]; rewrite Room; exact V2).
  assert (A3 : alone c s (Req p) 3 = s3).
  { rewrite (alone_top c s _ _ _ _ E). fold s1. rewrite (alone_top c s1 _ _ _ _ E1). fold s2.
    rewrite (alone_top c s2 _ _ _ _ E2). reflexivity. }
  unfold par_inc in E3. destruct (cpar c q) as [p'|] eqn:P.
  - (* the parent's Inc, then the status of q *)
    cbn [app] in E3.
    assert (Hp : 0 <= p' < q) by (apply WF; exact P).
    destruct (IH p' Hp s3 (FSet q e :: rest) p E3) as [n [Bn [F1 [F2 F3]]]].
    { intros q' A. destruct (H q' (anc_up c q p' q' P A)) as [X Y].
      assert (q' <> q) by (eapply anc_parent_neq; eauto).
      rewrite St3, M3 by assumption. split; assumption. }
    cbn zeta in F1, F2, F3. set (s4 := alone c s3 (Req p) n) in *.
    set (s5 := exec c s4 (Req p) (FSet q e) rest).
    exists (3 + n + 1)%nat. split; [lia|]. cbn zeta.
    rewrite !alone_add, A3. fold s4. rewrite (alone_top c s4 _ _ _ _ F1). rewrite alone_0. fold s5.
    repeat split.
    + unfold s5. cbn [exec self]. proj. apply updt_same.
    + intros q' A. unfold s5. cbn [exec self]. proj.
      destruct (anc_inv c q q' A) as [->|[p2 [P2 A2]]].
      * rewrite upd2_same. discriminate.
      * assert (p2 = p') by congruence. subst p2.
        assert (q' <> q) by (eapply anc_parent_neq; eauto).
        rewrite upd2_other by congruence. apply F2. exact A2.
    + unfold s5. cbn [exec self]. proj. congruence.
  - (* root: record the status *)
    cbn [app] in E3. set (s5 := exec c s3 (Req p) (FSet q e) rest).
    exists 4%nat. split; [lia|]. cbn zeta. change 4%nat with (3 + 1)%nat. rewrite alone_add, A3.
    rewrite (alone_top c s3 _ _ _ _ E3). rewrite alone_0. fold s5. repeat split.
    + unfold s5. cbn [exec self]. proj. apply updt_same.
    + intros q' A. destruct (anc_inv c q q' A) as [->|[p2 [P2 _]]]; [|congruence].
      unfold s5. cbn [exec self]. proj. rewrite upd2_same. discriminate.
    + unfold s5. cbn [exec self]. proj. exact V3.
Qed.

Lemma inc_drain : forall c, wf c -> forall q, forall s rest p,
  stk s (Req p) = FIncCheck q :: rest ->
  (forall q', anc c q q' ->
     status s q' p = None /\ Z.of_nat (length (members s q')) < cmax c q') ->
  exists n, let s' := alone c s (Req p) n in
    stk s' (Req p) = rest /\
    (forall q', anc c q q' -> status s' q' p <> None) /\
    verdict s' = verdict s.
Proof.
  intros c WF q s rest p E H. destruct (inc_drain_b c WF q s rest p E H) as [n [_ F]].
  exists n. exact F.
Qed.

(* the status checks of Allowed along the chain, all statuses held *)
Lemma acheck_drain_b : forall c, wf c -> forall q, forall s rest p,
  stk s (Req p) = FACheck q :: rest ->
  (forall q', anc c q q' -> status s q' p <> None) ->
  exists n, Z.of_nat n <= 2 * Z.max 0 q + 1 /\ let s' := alone c s (Req p) n in
    stk s' (Req p) = rest /\ verdict s' p = Some true.
Proof.
  intros c WF q0. induction q0 as [q IH] using (well_founded_induction (Z.lt_wf 0)).
  intros s rest p E H.
  assert (S0 := H q (anc_refl c q)).
  destruct (status s q p) as [e0|] eqn:Sq; [clear S0|congruence].
  destruct (cpar c q) as [p'|] eqn:P.
  - set (s1 := exec c s (Req p) (FACheck q) rest).
    assert (E1 : stk s1 (Req p) = FIncCheck p' :: FACheck p' :: rest).
    { unfold s1. cbn [exec self]. rewrite Sq, P. proj. apply updt_same. }
    assert (St1 : status s1 = status s) by (unfold s1; cbn [exec self]; rewrite Sq, P; reflexivity).
    assert (Sp : status s1 p' p <> None) by (rewrite St1; apply H; eapply anc_up; eauto; apply anc_refl).
    destruct (status s1 p' p) as [e1|] eqn:Sp'; [clear Sp|congruence].
    set (s2 := exec c s1 (Req p) (FIncCheck p') (FACheck p' :: rest)).
    assert (E2 : stk s2 (Req p) = FACheck p' :: rest).
    { unfold s2. cbn [exec self]. rewrite Sp'. proj. apply updt_same. }
    assert (St2 : status s2 = status s) by (unfold s2; cbn [exec self]; rewrite Sp'; exact St1).
    assert (Hp : 0 <= p' < q) by (apply WF; exact P).
    destruct (IH p' Hp s2 rest p E2) as [n [Bn [F1 F2]]].
    { intros q' A. rewrite St2. apply H. eapply anc_up; eauto. }
    exists (2 + n)%nat. split; [lia|]. cbn zeta. rewrite alone_add.
    assert (A2 : alone c s (Req p) 2 = s2).
    { rewrite (alone_top c s _ _ _ _ E). fold s1. rewrite (alone_top c s1 _ _ _ _ E1). reflexivity. }
    rewrite A2. split; assumption.
  - exists 1%nat. split; [lia|]. cbn zeta. rewrite (alone_top c s _ _ _ _ E), alone_0.
    cbn [exec self]. rewrite Sq, P. proj. rewrite updt_same, upd_same. auto.
Qed.

Lemma acheck_drain : forall c, wf c -> forall q, forall s rest p,
  stk s (Req p) = FACheck q :: rest ->
  (forall q', anc c q q' -> status s q' p <> None) ->
  exists n, let s' := alone c s (Req p) n in
    stk s' (Req p) = rest /\ verdict s' p = Some true.
Proof.
  intros c WF q s rest p E H. destruct (acheck_drain_b c WF q s rest p E H) as [n [_ F]].
  exists n. exact F.
Qed.

Lemma probe_admitted_b : forall c, wf c -> forall s p q,
  stk s (Req p) = [] ->
  (forall q', anc c q q' ->
     status s q' p = None /\ Z.of_nat (length (members s q')) < cmax c q') ->
  exists n, Z.of_nat n <= 6 * Z.max 0 q + 5 /\
    let s' := run c s (ECall (Req p) (OAllowed q) :: repeat (EStep (Req p)) n) in
    stk s' (Req p) = [] /\ verdict s' p = Some true.
Proof.
  intros c WF s p q E H.
  set (s0 := step c s (ECall (Req p) (OAllowed q))).
  assert (E0 : stk s0 (Req p) = [FIncCheck q; FACheck q]).
  { unfold s0. cbn [step]. rewrite E. cbn [op_fits frames_of]. proj. apply updt_same. }
  assert (X0 : members s0 = members s /\ status s0 = status s).
  { unfold s0. cbn [step]. rewrite E. cbn [op_fits]. split; reflexivity. }
  destruct X0 as [M0 St0].
  destruct (inc_drain_b c WF q s0 [FACheck q] p E0) as [n1 [B1 [F1 [F2 _]]]].
  { intros q' A. rewrite M0, St0. apply H. exact A. }
  cbn zeta in F1, F2.
  destruct (acheck_drain_b c WF q (alone c s0 (Req p) n1) [] p F1 F2) as [n2 [B2 [G1 G2]]].
  exists (n1 + n2)%nat. split; [lia|].
  cbn zeta. rewrite alone_call. fold s0. rewrite alone_add. split; assumption.
Qed.

Lemma probe_admitted : forall c, wf c -> forall s p q,
  stk s (Req p) = [] ->
  (forall q', anc c q q' ->
     status s q' p = None /\ Z.of_nat (length (members s q')) < cmax c q') ->
  exists n, let s' := run c s (ECall (Req p) (OAllowed q) :: repeat (EStep (Req p)) n) in
    stk s' (Req p) = [] /\ verdict s' p = Some true.
Proof.
  intros c WF s p q E H. destruct (probe_admitted_b c WF s p q E H) as [n [_ F]].
  exists n. exact F.
Qed.

(* ------------------------------------------------------------------ *)
(* Dec along the chain                                                  *)

(* the quotas a release frame works on *)
Definition dec_quota (f : frame) : option Z :=
  match f with
  | FDec1 q | FDec2 q _ | FDecRem q _ | FDecDel q => Some q
  | _ => None
  end.

Definition dec_stack (S : Z -> Prop) (st : list frame) : Prop :=
  forall f, In f st -> exists q, dec_quota f = Some q /\ S q.

(* a thread whose pending frames are Dec frames of quotas in a parent-closed
   set S changes nothing outside S (and nothing of other requests) *)
Lemma dec_step_outside : forall c (S : Z -> Prop) s r,
  (forall q p, S q -> cpar c q = Some p -> S p) ->
  dec_stack S (stk s (Req r)) ->
  let s' := step c s (EStep (Req r)) in
  dec_stack S (stk s' (Req r)) /\
  (forall q, ~ S q -> members s' q = members s q) /\
  (forall q r', ~ S q \/ r' <> r -> status s' q r' = status s q r') /\
  firstq s' = firstq s /\ now s' = now s /\
  (forall t', t' <> Req r -> stk s' t' = stk s t').
Proof.
  intros c S s r Cl D. cbn zeta. cbn [step].
  destruct (stk s (Req r)) as [|f rest] eqn:E; [repeat split; auto; rewrite E; exact D|].
  destruct (D f (or_introl eq_refl)) as [q [Q Sq]].
  assert (Dr : dec_stack S rest) by (intros h Hh; apply D; right; exact Hh).
  assert (Par : dec_stack S (par_dec c q ++ FDecDel q :: rest)).
  { intros h Hh. apply in_app_or in Hh. destruct Hh as [Hh|[<-|Hh]].
    - unfold par_dec in Hh. destruct (cpar c q) as [p|] eqn:P; [|contradiction].
      destruct Hh as [<-|[]]. exists p. split; [reflexivity|]. eapply Cl; eauto.
    - exists q. auto.
    - apply Dr. exact Hh. }
  destruct f; cbn in Q; inversion Q; subst q0; cbn [exec self].
  - destruct (status s q r); proj; rewrite updt_same; repeat split; auto;
      try (intros; apply updt_other; assumption).
    intros h [<-|Hh]; [exists q; auto|apply Dr; exact Hh].
  - destruct (status s q r); proj; rewrite updt_same; repeat split; auto;
      try (intros; apply updt_other; assumption).
    intros h [<-|Hh]; [exists q; auto|apply Par; exact Hh].
  - proj. rewrite updt_same. repeat split; auto; try (intros; apply updt_other; assumption).
    intros q' N. apply upd_other. congruence.
  - proj. rewrite updt_same. repeat split; auto; try (intros; apply updt_other; assumption).
    intros q' r' N. apply upd2_other. destruct N as [N|N]; congruence.
Qed.

Lemma dec_alone_outside : forall c (S : Z -> Prop) r,
  (forall q p, S q -> cpar c q = Some p -> S p) ->
  forall n s, dec_stack S (stk s (Req r)) ->
  let s' := alone c s (Req r) n in
  dec_stack S (stk s' (Req r)) /\
  (forall q, ~ S q -> members s' q = members s q) /\
  (forall q r', ~ S q \/ r' <> r -> status s' q r' = status s q r') /\
  firstq s' = firstq s /\ now s' = now s /\
  (forall t', t' <> Req r -> stk s' t' = stk s t').
Proof.
  intros c S r Cl. induction n as [|n IH]; intros s D; cbn zeta.
  - rewrite alone_0. repeat split; auto.
  - rewrite alone_S.
    destruct (dec_step_outside c S s r Cl D) as [D1 [M1 [S1 [F1 [N1 K1]]]]].
    destruct (IH _ D1) as [D2 [M2 [S2 [F2 [N2 K2]]]]]. cbn zeta in *.
    repeat split; auto.
    + intros q N. rewrite M2, M1; auto.
    + intros q r' N. rewrite S2, S1; auto.
    + congruence.
    + congruence.
    + intros t' N. rewrite K2, K1; auto.
Qed.

Lemma anc_closed : forall c q1 q p, anc c q1 q -> cpar c q = Some p -> anc c q1 p.
Proof.
  intros c q1 q p A P. induction A as [q|q0 p0 q P0 _ IH].
  - eapply anc_up; eauto. apply anc_refl.
  - eapply anc_up; eauto.
Qed.

(* Dec of a request that holds the status of the whole chain *)
Lemma dec_drain : forall c, wf c -> forall q, forall s rest r,
  stk s (Req r) = FDec1 q :: rest ->
  (forall q', anc c q q' -> status s q' r <> None) ->
  exists n, let s' := alone c s (Req r) n in
    stk s' (Req r) = rest /\
    (forall q', anc c q q' ->
       status s' q' r = None /\
       exists e, status s q' r = Some e /\ members s' q' = remove_first (e, r) (members s q')) /\
    (forall q', ~ anc c q q' -> members s' q' = members s q') /\
    (forall q' r', ~ anc c q q' \/ r' <> r -> status s' q' r' = status s q' r').
Proof.
  intros c WF q0. induction q0 as [q IH] using (well_founded_induction (Z.lt_wf 0)).
  intros s rest r E H.
  assert (S0 := H q (anc_refl c q)).
  destruct (status s q r) as [e|] eqn:Sq; [clear S0|congruence].
  set (s1 := exec c s (Req r) (FDec1 q) rest).
  assert (E1 : stk s1 (Req r) = FDec2 q e :: rest).
  { unfold s1. cbn [exec self]. rewrite Sq. proj. apply updt_same. }
  assert (X1 : members s1 = members s /\ status s1 = status s)
    by (unfold s1; cbn [exec self]; rewrite Sq; split; reflexivity).
  destruct X1 as [M1 St1].
  set (s2 := exec c s1 (Req r) (FDec2 q e) rest).
  assert (Sq1 : status s1 q r = Some e) by (rewrite St1; exact Sq).
  assert (E2 : stk s2 (Req r) = FDecRem q e :: par_dec c q ++ FDecDel q :: rest).
  { unfold s2. cbn [exec self]. rewrite Sq1. proj. apply updt_same. }
  assert (X2 : members s2 = members s /\ status s2 = status s)
    by (unfold s2; cbn [exec self]; rewrite Sq1; split; assumption).
  destruct X2 as [M2 St2].
  set (s3 := exec c s2 (Req r) (FDecRem q e) (par_dec c q ++ FDecDel q :: rest)).
  assert (E3 : stk s3 (Req r) = par_dec c q ++ FDecDel q :: rest).
  { unfold s3. cbn [exec self]. proj. apply updt_same. }
  assert (M3q : members s3 q = remove_first (e, r) (members s q)).
  { unfold s3. cbn [exec self]. proj. rewrite upd_same, M2. reflexivity. }
  assert (M3 : forall q', q' <> q -> members s3 q' = members s q').
  { intros q' N. unfold s3. cbn [exec self]. proj. rewrite upd_other by exact N. rewrite M2. reflexivity. }
  assert (St3 : status s3 = status s) by (unfold s3; cbn [exec self]; exact St2).
  assert (A3 : alone c s (Req r) 3 = s3).
  { rewrite (alone_top c s _ _ _ _ E). fold s1. rewrite (alone_top c s1 _ _ _ _ E1). fold s2.
    rewrite (alone_top c s2 _ _ _ _ E2). reflexivity. }
  unfold par_dec in E3. destruct (cpar c q) as [p'|] eqn:P.
  - cbn [app] in E3.
    assert (Hp : 0 <= p' < q) by (apply WF; exact P).
    destruct (IH p' Hp s3 (FDecDel q :: rest) r E3) as [n [F1 [F2 [F3 F4]]]].
    { intros q' A. rewrite St3. apply H. eapply anc_up; eauto. }
    cbn zeta in F1, F2, F3, F4. set (s4 := alone c s3 (Req r) n) in *.
    set (s5 := exec c s4 (Req r) (FDecDel q) rest).
    assert (NQ : ~ anc c p' q) by (intros A; eapply anc_parent_neq; eauto).
    exists (3 + n + 1)%nat. cbn zeta.
    rewrite !alone_add, A3. fold s4. rewrite (alone_top c s4 _ _ _ _ F1), alone_0. fold s5.
    split; [unfold s5; cbn [exec self]; proj; apply updt_same|]. split; [|split].
    + intros q' A. destruct (anc_inv c q q' A) as [->|[p2 [P2 A2]]].
      * split; [unfold s5; cbn [exec self]; proj; apply upd2_same|].
        exists e. split; [exact Sq|]. unfold s5. cbn [exec self]. proj.
        rewrite (F3 q NQ). exact M3q.
      * assert (p2 = p') by congruence. subst p2.
        assert (NE : q' <> q) by (eapply anc_parent_neq; eauto).
        destruct (F2 q' A2) as [G1 [e' [G2 G3]]].
        split; [unfold s5; cbn [exec self]; proj; rewrite upd2_other by congruence; exact G1|].
        exists e'. rewrite St3 in G2. split; [exact G2|].
        unfold s5. cbn [exec self]. proj. rewrite G3, M3 by exact NE. reflexivity.
    + intros q' N. unfold s5. cbn [exec self]. proj.
      assert (NE : q' <> q) by (intros ->; apply N; apply anc_refl).
      rewrite F3, M3; auto. intros A. apply N. eapply anc_up; eauto.
    + intros q' r' N. unfold s5. cbn [exec self]. proj.
      assert (NK : (q', r') <> (q, r)).
      { intros X. inversion X; subst. destruct N as [N|N]; [apply N; apply anc_refl|congruence]. }
      rewrite upd2_other by exact NK. rewrite F4, St3; auto.
      destruct N as [N|N]; [left|right; exact N]. intros A. apply N. eapply anc_up; eauto.
  - cbn [app] in E3. set (s5 := exec c s3 (Req r) (FDecDel q) rest).
    exists 4%nat. cbn zeta. change 4%nat with (3 + 1)%nat. rewrite alone_add, A3.
    rewrite (alone_top c s3 _ _ _ _ E3), alone_0. fold s5.
    split; [unfold s5; cbn [exec self]; proj; apply updt_same|]. split; [|split].
    + intros q' A. destruct (anc_inv c q q' A) as [->|[p2 [P2 _]]]; [|congruence].
      split; [unfold s5; cbn [exec self]; proj; apply upd2_same|].
      exists e. split; [exact Sq|]. unfold s5. cbn [exec self]. proj. exact M3q.
    + intros q' N. unfold s5. cbn [exec self]. proj. apply M3. intros ->. apply N. apply anc_refl.
    + intros q' r' N. unfold s5. cbn [exec self]. proj.
      assert (NK : (q', r') <> (q, r)).
      { intros X. inversion X; subst. destruct N as [N|N]; [apply N; apply anc_refl|congruence]. }
      rewrite upd2_other by exact NK. rewrite St3. reflexivity.
Qed.

(* ------------------------------------------------------------------ *)
(* one GC pass running alone                                            *)

Definition live (t : Z) (m : Z * Z) : bool := t <? fst m.

Lemma remove_first_mid : forall m a b, ~ In m a -> remove_first m (a ++ m :: b) = a ++ b.
Proof.
  induction a as [|x a IH]; cbn; intros b N.
  - destruct (mem_eqb_spec m m); congruence.
  - destruct (mem_eqb_spec x m) as [->|NE]; [tauto|]. f_equal. apply IH. tauto.
Qed.

Lemma gc_drain_b : forall c q l s A,
  stk s (Gc q) = map (fun m => GItem q (fst m) (snd m)) l ->
  members s q = A ++ l ->
  Forall (fun m => live (now s) m = true) A ->
  exists n, (n <= 2 * length l)%nat /\ let s' := alone c s (Gc q) n in
    stk s' (Gc q) = [] /\
    members s' q = A ++ filter (live (now s)) l /\
    now s' = now s /\
    (forall q', q' <> q -> members s' q' = members s q') /\
    (forall q' r, status s' q' r = status s q' r \/ status s' q' r = None) /\
    (forall e r, In (e, r) l -> e <= now s -> status s' q r = None) /\
    (forall q' r, q' <> q -> status s' q' r = status s q' r).
Proof.
  intros c q. induction l as [|[e r] l IH]; intros s A E M L.
  - exists 0%nat. split; [cbn; lia|]. cbn zeta. rewrite alone_0. cbn. repeat split; auto. intros ? ? [].
  - cbn [map fst snd] in E. destruct (Z.leb_spec e (now s)) as [X|X].
    + (* expired: SRem, then the status deletion *)
      set (s1 := exec c s (Gc q) (GItem q e r) (map (fun m => GItem q (fst m) (snd m)) l)).
      assert (Xb : (e <=? now s) = true) by (apply Z.leb_le; exact X).
      assert (NA : ~ In (e, r) A).
      { intros H. rewrite Forall_forall in L. apply L in H. unfold live in H. cbn in H.
        apply Z.ltb_lt in H. lia. }
      assert (E1 : stk s1 (Gc q) = GDel q r :: map (fun m => GItem q (fst m) (snd m)) l).
      { unfold s1. cbn [exec]. rewrite Xb. proj. apply updt_same. }
      assert (M1 : members s1 q = A ++ l).
      { unfold s1. cbn [exec]. rewrite Xb. proj. rewrite upd_same, M. apply remove_first_mid. exact NA. }
      assert (M1o : forall q', q' <> q -> members s1 q' = members s q').
      { intros q' N. unfold s1. cbn [exec]. rewrite Xb. proj. apply upd_other. exact N. }
      assert (Y1 : now s1 = now s /\ status s1 = status s)
        by (unfold s1; cbn [exec]; rewrite Xb; split; reflexivity).
      destruct Y1 as [N1 St1].
      set (s2 := exec c s1 (Gc q) (GDel q r) (map (fun m => GItem q (fst m) (snd m)) l)).
      assert (E2 : stk s2 (Gc q) = map (fun m => GItem q (fst m) (snd m)) l).
      { unfold s2. cbn [exec]. proj. apply updt_same. }
      assert (Y2 : members s2 = members s1 /\ now s2 = now s) by (unfold s2; cbn [exec]; proj; auto).
      destruct Y2 as [M2 N2].
      assert (L2 : Forall (fun m => live (now s2) m = true) A) by (rewrite N2; exact L).
      destruct (IH s2 A E2) as [n [Bn [F1 [F2 [F3 [F4 [F5 [F6 F7]]]]]]]]; [rewrite M2; exact M1|exact L2|].
      cbn zeta in *. set (s3 := alone c s2 (Gc q) n) in *.
      exists (2 + n)%nat. split; [cbn [length]; lia|]. rewrite alone_add.
      assert (A2 : alone c s (Gc q) 2 = s2).
      { rewrite (alone_top c s _ _ _ _ E). fold s1. rewrite (alone_top c s1 _ _ _ _ E1). reflexivity. }
      rewrite A2. fold s3.
      assert (St2 : forall q' r', status s2 q' r' = status s q' r' \/ status s2 q' r' = None).
      { intros q' r'. unfold s2. cbn [exec]. proj. unfold upd2.
        destruct ((q' =? q) && (r' =? r)); [right; reflexivity|left; rewrite St1; reflexivity]. }
      assert (St2r : status s2 q r = None) by (unfold s2; cbn [exec]; proj; apply upd2_same).
      split; [exact F1|]. split; [|split; [congruence|split; [|split; [|split]]]].
      * rewrite F2, N2. cbn [filter]. unfold live at 2. cbn [fst].
        assert (Hl : (now s <? e) = false) by (apply Z.ltb_ge; exact X). rewrite Hl. reflexivity.
      * intros q' N. rewrite F4, M2 by exact N. apply M1o. exact N.
      * intros q' r'. destruct (F5 q' r') as [G|G]; [|right; exact G].
        destruct (St2 q' r') as [G2|G2]; [left|right]; congruence.
      * intros e' r' [Hin|Hin] Le.
        -- inversion Hin; subst. destruct (F5 q r') as [G|G]; congruence.
        -- apply (F6 e' r' Hin). rewrite N2. exact Le.
      * intros q' r' N. rewrite F7 by exact N. unfold s2. cbn [exec]. proj.
        rewrite upd2_other by congruence. rewrite St1. reflexivity.
    + (* unexpired: kept *)
      set (s1 := exec c s (Gc q) (GItem q e r) (map (fun m => GItem q (fst m) (snd m)) l)).
      assert (Xb : (e <=? now s) = false) by (apply Z.leb_gt; exact X).
      assert (E1 : stk s1 (Gc q) = map (fun m => GItem q (fst m) (snd m)) l).
      { unfold s1. cbn [exec]. rewrite Xb. proj. apply updt_same. }
      assert (Y1 : members s1 = members s /\ now s1 = now s /\ status s1 = status s)
        by (unfold s1; cbn [exec]; rewrite Xb; auto).
      destruct Y1 as [M1 [N1 St1]].
      destruct (IH s1 (A ++ [(e, r)]) E1) as [n [Bn [F1 [F2 [F3 [F4 [F5 [F6 F7]]]]]]]].
      { rewrite M1, M, <- app_assoc. reflexivity. }
      { rewrite N1. apply Forall_app. split; [exact L|]. constructor; [|constructor].
        unfold live. cbn. apply Z.ltb_lt. exact X. }
      cbn zeta in *. set (s3 := alone c s1 (Gc q) n) in *.
      exists (1 + n)%nat. split; [cbn [length]; lia|]. rewrite alone_add.
      assert (A1 : alone c s (Gc q) 1 = s1) by (rewrite (alone_top c s _ _ _ _ E); reflexivity).
      rewrite A1. fold s3.
      split; [exact F1|]. split; [|split; [congruence|split; [|split; [|split]]]].
      * rewrite F2, N1, <- app_assoc. cbn [filter app]. unfold live at 2. cbn [fst].
        assert (Hl : (now s <? e) = true) by (apply Z.ltb_lt; exact X). rewrite Hl. reflexivity.
      * intros q' N. rewrite F4, M1 by exact N. reflexivity.
      * intros q' r'. rewrite <- St1. apply F5.
      * intros e' r' [Hin|Hin] Le; [inversion Hin; subst; lia|].
        apply (F6 e' r' Hin). rewrite N1. exact Le.
      * intros q' r' N. rewrite F7, St1 by exact N. reflexivity.
Qed.

Lemma gc_drain : forall c q l s A,
  stk s (Gc q) = map (fun m => GItem q (fst m) (snd m)) l ->
  members s q = A ++ l ->
  Forall (fun m => live (now s) m = true) A ->
  exists n, let s' := alone c s (Gc q) n in
    stk s' (Gc q) = [] /\
    members s' q = A ++ filter (live (now s)) l /\
    now s' = now s /\
    (forall q', q' <> q -> members s' q' = members s q') /\
    (forall q' r, status s' q' r = status s q' r \/ status s' q' r = None) /\
    (forall e r, In (e, r) l -> e <= now s -> status s' q r = None) /\
    (forall q' r, q' <> q -> status s' q' r = status s q' r).
Proof.
  intros c q l s A E M L. destruct (gc_drain_b c q l s A E M L) as [n [_ F]]. exists n. exact F.
Qed.

Lemma gc_pass_b : forall c s q,
  stk s (Gc q) = [] ->
  exists n, (n <= 2 * length (members s q) + 1)%nat /\
    let s' := run c s (ECall (Gc q) (OGc q) :: repeat (EStep (Gc q)) n) in
    stk s' (Gc q) = [] /\
    members s' q = filter (live (now s)) (members s q) /\
    now s' = now s /\
    (forall q', q' <> q -> members s' q' = members s q') /\
    (forall e r, In (e, r) (members s q) -> e <= now s -> status s' q r = None) /\
    (forall q' r, status s' q' r = status s q' r \/ status s' q' r = None) /\
    (forall q' r, q' <> q -> status s' q' r = status s q' r).
Proof.
  intros c s q E.
  set (s0 := step c s (ECall (Gc q) (OGc q))).
  assert (E0 : stk s0 (Gc q) = [GSnap q]).
  { unfold s0. cbn [step]. rewrite E. cbn [op_fits frames_of]. rewrite Z.eqb_refl. proj. apply updt_same. }
  assert (X0 : members s0 = members s /\ status s0 = status s /\ now s0 = now s).
  { unfold s0. cbn [step]. rewrite E. cbn [op_fits]. rewrite Z.eqb_refl. auto. }
  destruct X0 as [M0 [St0 N0]].
  set (s1 := exec c s0 (Gc q) (GSnap q) []).
  assert (E1 : stk s1 (Gc q) = map (fun m => GItem q (fst m) (snd m)) (members s q)).
  { unfold s1. cbn [exec]. proj. rewrite updt_same, app_nil_r, M0. reflexivity. }
  assert (X1 : members s1 = members s /\ status s1 = status s /\ now s1 = now s)
    by (unfold s1; cbn [exec]; proj; auto).
  destruct X1 as [M1 [St1 N1]].
  destruct (gc_drain_b c q (members s q) s1 [] E1) as [n [Bn [F1 [F2 [F3 [F4 [F5 [F6 F7]]]]]]]].
  { rewrite M1. reflexivity. } { constructor. }
  cbn zeta in *. exists (1 + n)%nat. split; [lia|]. rewrite alone_call. fold s0. rewrite alone_add.
  assert (A1 : alone c s0 (Gc q) 1 = s1) by (rewrite (alone_top c s0 _ _ _ _ E0); reflexivity).
  rewrite A1. rewrite N1, M1, St1 in *. cbn [app] in F2. repeat split; auto.
Qed.

Lemma gc_pass : forall c s q,
  stk s (Gc q) = [] ->
  exists n, let s' := run c s (ECall (Gc q) (OGc q) :: repeat (EStep (Gc q)) n) in
    stk s' (Gc q) = [] /\
    members s' q = filter (live (now s)) (members s q) /\
    now s' = now s /\
    (forall q', q' <> q -> members s' q' = members s q') /\
    (forall e r, In (e, r) (members s q) -> e <= now s -> status s' q r = None) /\
    (forall q' r, status s' q' r = status s q' r \/ status s' q' r = None) /\
    (forall q' r, q' <> q -> status s' q' r = status s q' r).
Proof.
  intros c s q E. destruct (gc_pass_b c s q E) as [n [_ F]]. exists n. exact F.
Qed.
