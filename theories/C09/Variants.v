(* C09 — two more dimensions of the model, each with a variant switch (executable
   definitions only; lemmas in VariantsProofs.v, final statements in Property.v).

   1. The budget a group's share is taken of when spill-over carried something over:
      the code rounds up ONCE, ceil((allowed + carried over) * ratio).
        WholeBudget    = HEAD (Model.try_inc)
        SplitCeilings  = seeded change C09-12: ceil(allowed*ratio) + ceil(carried*ratio)
   2. One plugin instance (a process-lifetime singleton) across configuration changes:
      which allocation table decides the ratio of a request.
        LiveTable      = HEAD (Model.plugin_pre): the table of the configuration passed
                         with the request
        IndexedPerName = seeded change C09-11: a per-remedy-name index of the table kept in
                         the plugin, rebuilt only when the NUMBER of groups differs *)
From Coq Require Import List ZArith Bool.
From Verif Require Import C09.Model.
Import ListNotations.
Open Scope Z_scope.

(* ------------------------------------------------------------------ *)
(** * 1. share of the budget including the carried-over amount *)

Inductive carry_share := WholeBudget | SplitCeilings.

(* scaledSpillover of the seeded change (a negative amount is shared out by magnitude) *)
Definition scaled_spill (sp parts : Z) : Z :=
  if sp <? 0 then - scaled_quota (- sp) parts else scaled_quota sp parts.

Definition limit_with_carry (v : carry_share) (allowed carry parts : Z) : Z :=
  match v with
  | WholeBudget => scaled_quota (allowed + carry) parts
  | SplitCeilings =>
      if carry =? 0 then scaled_quota allowed parts
      else scaled_quota allowed parts + scaled_spill carry parts   (* int64 saturation not modelled *)
  end.

(* TryToIncrement with the limit of variant [v] *)
Definition try_inc_v (v : carry_share) (now : Z) (wd : wdata) (s : st) : st * verdict :=
  let s0 := with_wd s wd in
  if wW wd =? 0 then (s0, Panic)
  else
    let s1 := ensure now s0 in
    let lim := limit_with_carry v (wAllowed wd) (spill s1) (wParts wd) in
    if lim <=? cnt s1 then (s1, Block)
    else ({| cnt := cnt s1 + 1; spill := spill s1; wend := wend s1; swd := wd |}, Proceed).

(* "a request proceeds exactly when the requests already counted in its window are fewer
   than the group's share of the whole budget (allowed + carried over), the share being
   budget * parts / 10^9 as a rational number" -- for every state, instant and window data
   with a positive budget, a positive ratio and no int64 saturation *)
Definition carry_share_exact (v : carry_share) : Prop :=
  forall now wd s,
    wW wd <> 0 -> 0 < wParts wd < two63 ->
    let s1 := ensure now (with_wd s wd) in
    0 < wAllowed wd + spill s1 ->
    cdiv ((wAllowed wd + spill s1) * wParts wd) scale <= max_i64 ->
    (snd (try_inc_v v now wd s) = Proceed <->
     cnt s1 * scale < (wAllowed wd + spill s1) * wParts wd).

(* ------------------------------------------------------------------ *)
(** * 2. one plugin instance across configuration changes *)

Inductive table_source := LiveTable | IndexedPerName.

(* plugin.groupRatios of the seeded change: remedy name -> (number of groups, table);
   a Go map: the newest binding of a name is the one found *)
Definition tindex := list (str * (nat * list alloc)).

Fixpoint ix_get (ix : tindex) (name : str) : option (nat * list alloc) :=
  match ix with
  | [] => None
  | (n, e) :: r => if str_eqb n name then Some e else ix_get r name
  end.

(* the percentage (float64 bits) found for header value [hv]; "first entry of a header
   value wins" in the index as in the scan, so the index is the list itself *)
Definition lookup_v (v : table_source) (ix : tindex) (name : str) (gs : list alloc) (hv : str)
  : tindex * option Z :=
  match v with
  | LiveTable => (ix, find_alloc gs hv)
  | IndexedPerName =>
      match ix_get ix name with
      | Some (n, old) =>
          if Nat.eqb n (length gs) then (ix, find_alloc old hv)
          else ((name, (length gs, gs)) :: ix, find_alloc gs hv)
      | None => ((name, (length gs, gs)) :: ix, find_alloc gs hv)
      end
  end.

(* what OnRequest decides before it reaches the limiter, on a plugin instance whose index
   is [ix] (Model.plugin_pre with the table look-up of variant [v]) *)
Definition plugin_pre_v (v : table_source) (ix : tindex) (r : remedy) (hs : list (str * str))
  : tindex * pre :=
  match rGqa r with
  | None => (ix, PreLimit {| kLimiter := rName r; kGrouped := false; kGroup := s_ungrouped |} bits_one)
  | Some g =>
      let hv := header hs (gHeader g) in
      let k := {| kLimiter := rName r; kGrouped := true;
                  kGroup := lower (gHeader g) ++ [58] ++ trim hv |} in
      let '(ix', found) := lookup_v v ix (rName r) (gGroups g) hv in
      (ix', match found with
            | Some pct => PreLimit k (ratio_of_pct_bits pct)
            | None =>
                if str_eqb (gDefault g) s_allow then PreDone PNoOp
                else if str_eqb (gDefault g) s_block then PreDone (PEarly (status_of r))
                else if str_eqb (gDefault g) s_use_default
                     then PreLimit k (ratio_of_pct_bits (gDefPct g))
                else PreDone PNoOp
            end)
  end.

(* a history of requests on ONE plugin instance, each with the configuration (remedy
   record) passed with it -- versions of a remedy under one name are different records *)
Fixpoint run_pre_v (v : table_source) (ix : tindex) (h : list (remedy * list (str * str)))
  : list pre :=
  match h with
  | [] => []
  | (r, hs) :: rest =>
      let '(ix', p) := plugin_pre_v v ix r hs in p :: run_pre_v v ix' rest
  end.

(* "every request is decided -- counter key, ratio, default behaviour -- by the allocation
   table of the configuration in force when it is handled, whatever this plugin instance
   served before" *)
Definition table_in_force (v : table_source) : Prop :=
  forall h ix, run_pre_v v ix h = map (fun rh => plugin_pre (fst rh) (snd rh)) h.

(* witnesses for the refutations *)
Definition cs_wd : wdata :=
  {| wW := 10; wAllowed := 5; wParts := 500000000; wSpillOn := true; wRenew := 0 |}.
(* in window (20,30], 4 requests counted, 3 carried over: budget 8 at 50 % = 4 *)
Definition cs_st : st := {| cnt := 4; spill := 3; wend := 30; swd := cs_wd |}.

Definition s_a : str := [97].
Definition s_hdr : str := [120].
Definition rl_remedy (pct_bits : Z) : remedy :=
  {| rName := [114]; rAllowed := 10; rWsec := 10; rStatus := 503; rSpillOn := false; rRenew := 0;
     rGqa := Some {| gHeader := s_hdr; gGroups := [{| aVal := s_a; aPct := pct_bits |}];
                     gDefault := s_block; gDefPct := 0 |} |}.
Definition bits_50 : Z := 4632233691727265792.   (* float64(50) *)
Definition bits_20 : Z := 4626322717216342016.   (* float64(20) *)
Definition rl_history : list (remedy * list (str * str)) :=
  [(rl_remedy bits_50, [(s_hdr, s_a)]); (rl_remedy bits_20, [(s_hdr, s_a)])].
