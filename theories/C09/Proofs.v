(* C09 — lemmas.  Final statements are in Property.v. *)
From Coq Require Import List ZArith Bool Lia.
From Verif Require Import C09.Model C09.Spec.
Import ListNotations.
Open Scope Z_scope.

(* ================================================================== *)
(** * A. The limit                                                      *)

Lemma cdiv_spec a b : 0 < b -> (cdiv a b - 1) * b < a <= cdiv a b * b.
Proof.
  intros Hb. unfold cdiv.
  pose proof (Z.div_mod (- a) b ltac:(lia)) as E.
  pose proof (Z.mod_pos_bound (- a) b Hb) as M.
  nia.
Qed.

Lemma cdiv_unique a b q : 0 < b -> (q - 1) * b < a <= q * b -> cdiv a b = q.
Proof.
  intros Hb H. pose proof (cdiv_spec a b Hb) as S. nia.
Qed.

Lemma cdiv_mul_r a b c : 0 < b -> 0 < c -> cdiv (a * c) (b * c) = cdiv a b.
Proof.
  intros Hb Hc. apply cdiv_unique; [nia|].
  pose proof (cdiv_spec a b Hb) as S. nia.
Qed.

Lemma cdiv_nonneg a b : 0 < b -> 0 <= a -> 0 <= cdiv a b.
Proof. intros Hb Ha. pose proof (cdiv_spec a b Hb). nia. Qed.

Lemma cdiv_mono a a' b : 0 < b -> a <= a' -> cdiv a b <= cdiv a' b.
Proof.
  intros Hb H. pose proof (cdiv_spec a b Hb). pose proof (cdiv_spec a' b Hb). nia.
Qed.

Lemma scaled_quota_nonneg total parts : 0 <= scaled_quota total parts.
Proof.
  unfold scaled_quota.
  destruct ((total <=? 0) || (parts <=? 0)) eqn:E; [lia|].
  apply orb_false_iff in E. destruct E as [Ht Hp].
  apply Z.leb_gt in Ht. apply Z.leb_gt in Hp.
  destruct (two63 <=? parts); [unfold max_i64; lia|].
  apply Z.min_glb; [unfold max_i64; lia|].
  apply cdiv_nonneg; [unfold scale; lia | nia].
Qed.

(* the integer part is the exact ceiling whenever nothing saturates *)
Lemma scaled_quota_ceiling total parts :
  0 < total -> 0 < parts < two63 -> cdiv (total * parts) scale <= max_i64 ->
  scaled_quota total parts = cdiv (total * parts) scale.
Proof.
  intros Ht Hp Hq. unfold scaled_quota.
  replace (total <=? 0) with false by (symmetry; apply Z.leb_gt; lia).
  replace (parts <=? 0) with false by (symmetry; apply Z.leb_gt; lia).
  replace (two63 <=? parts) with false by (symmetry; apply Z.leb_gt; lia).
  cbn [orb]. apply Z.min_r. exact Hq.
Qed.

(* a ratio read as h/10000 (h hundredths of a percent): the limit is the exact
   rounded-up share, for every int64 count *)
Lemma scaled_quota_hundredths total h :
  0 <= total <= max_i64 -> 0 <= h <= 10000 ->
  scaled_quota total (h * 100000) = limit_exact total h.
Proof.
  intros Ht Hh. unfold limit_exact.
  destruct (Z.eq_dec total 0) as [->|Hn].
  { unfold scaled_quota. cbn. reflexivity. }
  destruct (Z.eq_dec h 0) as [->|Hh0].
  { unfold scaled_quota. rewrite !Z.mul_0_r.
    replace (0 * 100000 <=? 0) with true by reflexivity.
    rewrite orb_true_r. reflexivity. }
  assert (E : cdiv (total * (h * 100000)) scale = cdiv (total * h) 10000).
  { unfold scale. replace (total * (h * 100000)) with ((total * h) * 100000) by ring.
    replace 1000000000 with (10000 * 100000) by reflexivity.
    apply cdiv_mul_r; lia. }
  rewrite scaled_quota_ceiling.
  - exact E.
  - lia.
  - unfold two63. lia.
  - rewrite E. pose proof (cdiv_spec (total * h) 10000 ltac:(lia)). unfold max_i64 in *. nia.
Qed.

(* ================================================================== *)
(** * B. Keys and the store                                             *)

Lemma str_eqb_eq a : forall b, str_eqb a b = true <-> a = b.
Proof.
  induction a as [|x a IH]; intros [|y b]; cbn; split; intros H;
    try reflexivity; try discriminate.
  - apply andb_prop in H. destruct H as [H1 H2]. apply Z.eqb_eq in H1.
    apply IH in H2. subst. reflexivity.
  - inversion H; subst. rewrite Z.eqb_refl. cbn. apply IH. reflexivity.
Qed.

Lemma key_eqb_eq a b : key_eqb a b = true <-> a = b.
Proof.
  unfold key_eqb. destruct a as [l g i], b as [l' g' i']. cbn. split.
  - intros H. apply andb_prop in H. destruct H as [H H3].
    apply andb_prop in H. destruct H as [H1 H2].
    apply str_eqb_eq in H1. apply str_eqb_eq in H3. apply Bool.eqb_prop in H2.
    subst. reflexivity.
  - intros H. inversion H; subst.
    rewrite (proj2 (str_eqb_eq l' l') eq_refl), (proj2 (str_eqb_eq i' i') eq_refl),
      Bool.eqb_reflx. reflexivity.
Qed.

Lemma key_eqb_refl k : key_eqb k k = true.
Proof. apply key_eqb_eq. reflexivity. Qed.

Lemma key_eqb_neq a b : a <> b -> key_eqb a b = false.
Proof.
  intros H. destruct (key_eqb a b) eqn:E; [|reflexivity].
  apply key_eqb_eq in E. contradiction.
Qed.

Lemma get_set_same m k s : get (set m k s) k = Some s.
Proof.
  induction m as [|[k' s'] m IH]; cbn.
  - rewrite key_eqb_refl. reflexivity.
  - destruct (key_eqb k k') eqn:E; cbn.
    + rewrite key_eqb_refl. reflexivity.
    + rewrite E. exact IH.
Qed.

Lemma get_set_other m k s k' : k' <> k -> get (set m k s) k' = get m k'.
Proof.
  intros Hn. induction m as [|[k0 s0] m IH]; cbn.
  - rewrite (key_eqb_neq _ _ Hn). reflexivity.
  - destruct (key_eqb k k0) eqn:E; cbn.
    + apply key_eqb_eq in E. subst k0. rewrite (key_eqb_neq _ _ Hn). reflexivity.
    + destruct (key_eqb k' k0); [reflexivity | exact IH].
Qed.

Lemma get_map_peek m now k :
  get (map (fun ks => (fst ks, peek now (snd ks))) m) k = option_map (peek now) (get m k).
Proof.
  induction m as [|[k0 s0] m IH]; cbn; [reflexivity|].
  destruct (key_eqb k k0); [reflexivity | exact IH].
Qed.

(* ================================================================== *)
(** * C. One limiter state                                              *)

Lemma count_app p a b : count p (a ++ b) = count p a + count p b.
Proof. induction a as [|e a IH]; cbn [app count]; [reflexivity | rewrite IH; ring]. Qed.

Lemma count_nonneg p tr : 0 <= count p tr.
Proof.
  induction tr as [|e r IH]; cbn [count]; [lia|].
  destruct (is_pass e && p (s_now e)); lia.
Qed.

Lemma count_zero p tr :
  (forall e, In e tr -> is_pass e = true -> p (s_now e) = false) -> count p tr = 0.
Proof.
  induction tr as [|e r IH]; intros H; cbn [count]; [reflexivity|].
  rewrite IH by (intros e' Hi; apply H; right; exact Hi).
  destruct (is_pass e) eqn:P; cbn [andb]; [|reflexivity].
  rewrite (H e (or_introl eq_refl) P). reflexivity.
Qed.

Lemma count_le_1 p e : 0 <= count p [e] <= 1.
Proof. cbn [count]. destruct (is_pass e && p (s_now e)); lia. Qed.

Lemma count_nonpass p e : is_pass e = false -> count p [e] = 0.
Proof. intros H. cbn [count]. rewrite H. reflexivity. Qed.

(* the last request that proceeded inside p, if there is one *)
Lemma count_pos_last p tr :
  0 < count p tr ->
  exists pre e post, tr = pre ++ e :: post /\ is_pass e = true /\ p (s_now e) = true /\
                     count p post = 0.
Proof.
  induction tr as [|x r IH] using rev_ind; [cbn; lia|].
  rewrite count_app. intros H.
  destruct (is_pass x && p (s_now x)) eqn:E.
  - apply andb_prop in E. destruct E as [E1 E2].
    exists r, x, []. repeat split; assumption || reflexivity.
  - assert (Hx : count p [x] = 0) by (cbn [count]; rewrite E; reflexivity).
    rewrite Hx in H. destruct IH as (pre & e & post & -> & P & Q & Z0); [lia|].
    exists pre, e, (post ++ [x]). rewrite <- app_assoc. cbn [app].
    repeat split; try assumption. rewrite count_app, Z0, Hx. reflexivity.
Qed.

Lemma quot_gt W now : 0 < W -> now < Z.quot now W * W + W.
Proof.
  intros HW. pose proof (Z.quot_rem' now W) as E.
  destruct (Z.le_ge_cases 0 now) as [Hn|Hn].
  - pose proof (Z.rem_bound_pos now W Hn HW). nia.
  - pose proof (Z.rem_bound_neg_pos now W ltac:(lia) HW). nia.
Qed.

Lemma quot_le W now : 0 < W -> 0 <= now -> Z.quot now W * W <= now.
Proof.
  intros HW Hn. pose proof (Z.quot_rem' now W) as E.
  pose proof (Z.rem_bound_pos now W Hn HW). nia.
Qed.

Lemma ensure_cases now s :
  (wend s < now /\ cnt (ensure now s) = 0 /   wend (ensure now s) = Z.quot now (wW (swd s)) * wW (swd s) + wW (swd s) /   swd (ensure now s) = swd s)
  \/ (now <= wend s /\ ensure now s = s).
Proof.
  unfold ensure. destruct (wend s <? now) eqn:E.
  - left. apply Z.ltb_lt in E. cbn. repeat split; try reflexivity. exact E.
  - right. apply Z.ltb_ge in E. split; [exact E | reflexivity].
Qed.

Lemma try_inc_cases now wd s :
  wW wd <> 0 ->
  let s1 := ensure now (with_wd s wd) in
  let lim := limit_at now wd s in
  (lim <= cnt s1 /\ try_inc now wd s = (s1, Block))
  \/ (cnt s1 < lim /      try_inc now wd s =
      ({| cnt := cnt s1 + 1; spill := spill s1; wend := wend s1; swd := wd |}, Proceed)).
Proof.
  intros HW. unfold try_inc, limit_at.
  replace (wW wd =? 0) with false by (symmetry; apply Z.eqb_neq; exact HW).
  cbn zeta.
  destruct (scaled_quota _ _ <=? cnt _) eqn:E.
  - left. apply Z.leb_le in E. split; [exact E | reflexivity].
  - right. apply Z.leb_gt in E. split; [exact E | reflexivity].
Qed.

Section SingleBound.
  Variable W B : Z.
  Hypothesis HW : 0 < W.

  Record InvS (s : st) (pre : list sentry) (lo : Z) : Prop := {
    i_al : wend s = B \/ (W | wend s);
    i_lo : forall e, In e pre -> s_now e <= lo;
    i_pw : forall e, In e pre -> is_pass e = true -> s_now e <= wend s;
    i_ct : forall k, good_window W B k -> lo <= (k + 1) * W ->
                     count (in_right W k) pre <= cnt s
  }.

  Definition Inv (o : option st) (pre : list sentry) (lo : Z) : Prop :=
    match o with
    | None => pre = []
    | Some s => wW (swd s) = W /\ InvS s pre lo
    end.

  Lemma InvS_init lo : InvS init [] lo.
  Proof.
    constructor; cbn.
    - right. exists 0. reflexivity.
    - intros e [].
    - intros e [].
    - intros; lia.
  Qed.

  Lemma InvS_with_wd s wd pre lo : InvS s pre lo -> InvS (with_wd s wd) pre lo.
  Proof. intros [A L P C]. constructor; cbn; assumption. Qed.

  (* no grid window that matters straddles the end of the stored window *)
  Lemma no_straddle we k t now :
    (we = B \/ (W | we)) -> good_window W B k ->
    in_right W k t = true -> t <= we -> we < now -> now <= (k + 1) * W -> False.
  Proof.
    intros A G I T1 T2 T3. unfold in_right in I. apply andb_prop in I.
    destruct I as [I1 I2]. apply Z.ltb_lt in I1. apply Z.leb_le in I2.
    assert (D : (W | we) \/ we <= k * W).
    { destruct A as [->|A]; [exact G | left; exact A]. }
    destruct D as [[j ->]|D]; nia.
  Qed.

  Lemma ensure_InvS s pre lo now :
    wW (swd s) = W -> InvS s pre lo -> lo <= now ->
    InvS (ensure now s) pre now /\ now <= wend (ensure now s) /\
    wW (swd (ensure now s)) = W.
  Proof.
    intros HS [A L P C] Hlo.
    destruct (ensure_cases now s) as [(Hlt & Hc & Hw & Hd)|(Hle & ->)].
    - rewrite HS in Hw. pose proof (quot_gt W now HW) as Hq.
      split; [|split; [lia | rewrite Hd; exact HS]].
      constructor.
      + right. rewrite Hw. exists (Z.quot now W + 1). ring.
      + intros e Hi. specialize (L e Hi). lia.
      + intros e Hi Hp. specialize (P e Hi Hp). lia.
      + intros k G Hk. rewrite Hc.
        rewrite count_zero; [lia|].
        intros e Hi Hp. destruct (in_right W k (s_now e)) eqn:I; [|reflexivity].
        exfalso. exact (no_straddle (wend s) k (s_now e) now A G I (P e Hi Hp) Hlt Hk).
    - split; [|split; [exact Hle | exact HS]].
      constructor; try assumption.
      + intros e Hi. specialize (L e Hi). lia.
      + intros k G Hk. apply C; [exact G | lia].
  Qed.

  Lemma inc_step s pre lo now wd s' v :
    wW wd = W -> InvS s pre lo -> lo <= now -> try_inc now wd s = (s', v) ->
    let e := {| s_now := now; s_verdict := v; s_lim := limit_at now wd s |} in
    wW (swd s') = W /\ InvS s' (pre ++ [e]) now /\
    (v = Proceed -> forall k, good_window W B k -> in_right W k now = true ->
                    count (in_right W k) (pre ++ [e]) <= limit_at now wd s).
  Proof.
    intros Hwd HI Hlo HT.
    assert (Hnz : wW wd <> 0) by lia.
    pose proof (ensure_InvS (with_wd s wd) pre lo now Hwd (InvS_with_wd s wd pre lo HI) Hlo)
      as (HI1 & Hnow & HS1).
    destruct (try_inc_cases now wd s Hnz) as [(Hc & E)|(Hc & E)];
      rewrite E in HT; inversion HT; subst s' v; clear HT; cbn zeta.
    - (* Block *)
      split; [exact HS1|]. split; [|discriminate].
      destruct HI1 as [A L P C]. constructor.
      + exact A.
      + intros e Hi. apply in_app_or in Hi. destruct Hi as [Hi|[<-|[]]]; [apply L; exact Hi | cbn; lia].
      + intros e Hi Hp. apply in_app_or in Hi. destruct Hi as [Hi|[<-|[]]]; [apply P; assumption | discriminate].
      + intros k G Hk. rewrite count_app, count_nonpass by reflexivity.
        specialize (C k G Hk). lia.
    - (* Proceed *)
      split; [exact Hwd|].
      set (s1 := ensure now (with_wd s wd)) in *.
      set (e := {| s_now := now; s_verdict := Proceed; s_lim := limit_at now wd s |}).
      destruct HI1 as [A L P C].
      assert (HI' : InvS {| cnt := cnt s1 + 1; spill := spill s1; wend := wend s1; swd := wd |}
                         (pre ++ [e]) now).
      { constructor; cbn [cnt wend].
        + exact A.
        + intros x Hi. apply in_app_or in Hi. destruct Hi as [Hi|[<-|[]]]; [apply L; exact Hi | cbn; lia].
        + intros x Hi Hp. apply in_app_or in Hi. destruct Hi as [Hi|[<-|[]]]; [apply P; assumption | cbn; exact Hnow].
        + intros k G Hk. rewrite count_app. specialize (C k G Hk).
          pose proof (count_le_1 (in_right W k) e). lia. }
      split; [exact HI'|].
      intros _ k G I. destruct HI' as [_ _ _ C'].
      assert (Hk : now <= (k + 1) * W).
      { unfold in_right in I. apply andb_prop in I. destruct I as [_ I]. apply Z.leb_le in I. exact I. }
      specialize (C' k G Hk). cbn [cnt] in C'. lia.
  Qed.

  Lemma single_bound h : forall o pre lo,
    Inv o pre lo -> const_window W h -> mono_from lo (map sev_now h) ->
    forall mid e post k, run_single o h = mid ++ e :: post -> is_pass e = true ->
      good_window W B k -> in_right W k (s_now e) = true ->
      count (in_right W k) (pre ++ mid ++ [e]) <= s_lim e.
  Proof.
    induction h as [|ev r IH]; intros o pre lo HI HC HM mid e post k HR HP G I.
    { cbn in HR. destruct mid; discriminate. }
    inversion HC as [|? ? Hev HCr]; subst. cbn [map mono_from] in HM. destruct HM as [Hlo HMr].
    destruct ev as [now wd|now]; cbn [sev_now] in *.
    - (* a request *)
      cbn [run_single step_single] in HR.
      destruct (try_inc now wd (or_init o)) as [s' v] eqn:ET. cbn [app] in HR.
      assert (HIs : InvS (or_init o) pre lo).
      { destruct o as [s|]; cbn [Inv or_init] in *; [exact (proj2 HI) | subst pre; apply InvS_init]. }
      pose proof (inc_step (or_init o) pre lo now wd s' v Hev HIs Hlo ET) as (HS' & HI' & Hb).
      destruct mid as [|x mid]; cbn [app] in HR; inversion HR; subst.
      + cbn [app]. cbn [s_now s_lim] in *. apply Hb; [|exact G|exact I].
        unfold is_pass in HP. cbn [s_verdict] in HP. destruct v; try discriminate. reflexivity.
      + replace (pre ++ (_ :: mid) ++ [e]) with ((pre ++ [{| s_now := now; s_verdict := v;
                 s_lim := match v with Panic => 0 | _ => limit_at now wd (or_init o) end |}]) ++ mid ++ [e])
          by (rewrite <- app_assoc; reflexivity).
        assert (Hv : match v with Panic => 0 | _ => limit_at now wd (or_init o) end
                     = limit_at now wd (or_init o)).
        { destruct v; try reflexivity. exfalso.
          destruct (try_inc_cases now wd (or_init o) ltac:(lia)) as [(_ & E)|(_ & E)];
            rewrite E in ET; discriminate. }
        rewrite Hv in *.
        eapply (IH (Some s') _ now); try eassumption.
        cbn [Inv]. split; assumption.
    - (* Counters() *)
      cbn [run_single step_single app] in HR.
      eapply (IH (option_map (peek now) o) pre now); try eassumption.
      destruct o as [s|]; cbn [Inv option_map] in *; [|exact HI].
      destruct HI as [HS HI]. unfold peek.
      replace (wW (swd s) =? 0) with false by (symmetry; apply Z.eqb_neq; lia).
      pose proof (ensure_InvS s pre lo now HS HI Hlo) as (H1 & _ & H3). split; assumption.
  Qed.
End SingleBound.
