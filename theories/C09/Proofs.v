(* C09 — lemmas.  Final statements are in Property.v. *)
From Coq Require Import List ZArith Bool Lia.
From Verif Require Import C09.Model.
Import ListNotations.
Open Scope Z_scope.

(* ================================================================== *)
(** * A. The limit                                                      *)

Lemma cdiv_spec a b : 0 < b -> (cdiv a b - 1) * b < a <= cdiv a b * b.
Proof.
  intros Hb. unfold cdiv.
  pose proof (Z.div_mod (- a) b ltac:(lia)) as E.
  pose proof (Z.mod_pos_bound (- a) b Hb) as M.
  nia.
Qed.

Lemma cdiv_unique a b q : 0 < b -> (q - 1) * b < a <= q * b -> cdiv a b = q.
Proof.
  intros Hb H. pose proof (cdiv_spec a b Hb) as S. nia.
Qed.

Lemma cdiv_mul_r a b c : 0 < b -> 0 < c -> cdiv (a * c) (b * c) = cdiv a b.
Proof.
  intros Hb Hc. apply cdiv_unique; [nia|].
  pose proof (cdiv_spec a b Hb) as S. nia.
Qed.

Lemma cdiv_nonneg a b : 0 < b -> 0 <= a -> 0 <= cdiv a b.
Proof. intros Hb Ha. pose proof (cdiv_spec a b Hb). nia. Qed.

Lemma cdiv_mono a a' b : 0 < b -> a <= a' -> cdiv a b <= cdiv a' b.
Proof.
  intros Hb H. pose proof (cdiv_spec a b Hb). pose proof (cdiv_spec a' b Hb). nia.
Qed.

Lemma scaled_quota_nonneg total parts : 0 <= scaled_quota total parts.
Proof.
  unfold scaled_quota.
  destruct ((total <=? 0) || (parts <=? 0)) eqn:E; [lia|].
  apply orb_false_iff in E. destruct E as [Ht Hp].
  apply Z.leb_gt in Ht. apply Z.leb_gt in Hp.
  destruct (two63 <=? parts); [unfold max_i64; lia|].
  apply Z.min_glb; [unfold max_i64; lia|].
  apply cdiv_nonneg; [unfold scale; lia | nia].
Qed.

(* the integer part is the exact ceiling whenever nothing saturates *)
Lemma scaled_quota_ceiling total parts :
  0 < total -> 0 < parts < two63 -> cdiv (total * parts) scale <= max_i64 ->
  scaled_quota total parts = cdiv (total * parts) scale.
Proof.
  intros Ht Hp Hq. unfold scaled_quota.
  replace (total <=? 0) with false by (symmetry; apply Z.leb_gt; lia).
  replace (parts <=? 0) with false by (symmetry; apply Z.leb_gt; lia).
  replace (two63 <=? parts) with false by (symmetry; apply Z.leb_gt; lia).
  cbn [orb]. apply Z.min_r. exact Hq.
Qed.

(* a ratio read as h/10000 (h hundredths of a percent): the limit is the exact
   rounded-up share, for every int64 count *)
Lemma scaled_quota_hundredths total h :
  0 <= total <= max_i64 -> 0 <= h <= 10000 ->
  scaled_quota total (h * 100000) = limit_exact total h.
Proof.
  intros Ht Hh. unfold limit_exact.
  destruct (Z.eq_dec total 0) as [->|Hn].
  { unfold scaled_quota. cbn. reflexivity. }
  destruct (Z.eq_dec h 0) as [->|Hh0].
  { unfold scaled_quota. rewrite !Z.mul_0_r.
    replace (0 * 100000 <=? 0) with true by reflexivity.
    rewrite orb_true_r. reflexivity. }
  assert (E : cdiv (total * (h * 100000)) scale = cdiv (total * h) 10000).
  { unfold scale. replace (total * (h * 100000)) with ((total * h) * 100000) by ring.
    replace 1000000000 with (10000 * 100000) by reflexivity.
    apply cdiv_mul_r; lia. }
  rewrite scaled_quota_ceiling.
  - exact E.
  - lia.
  - unfold two63. lia.
  - rewrite E. pose proof (cdiv_spec (total * h) 10000 ltac:(lia)). unfold max_i64 in *. nia.
Qed.

(* ================================================================== *)
(** * B. Keys and the store                                             *)

Lemma str_eqb_eq a : forall b, str_eqb a b = true <-> a = b.
Proof.
  induction a as [|x a IH]; intros [|y b]; cbn; split; intros H;
    try reflexivity; try discriminate.
  - apply andb_prop in H. destruct H as [H1 H2]. apply Z.eqb_eq in H1.
    apply IH in H2. subst. reflexivity.
  - inversion H; subst. rewrite Z.eqb_refl. cbn. apply IH. reflexivity.
Qed.

Lemma key_eqb_eq a b : key_eqb a b = true <-> a = b.
Proof.
  unfold key_eqb. destruct a as [l g i], b as [l' g' i']. cbn. split.
  - intros H. apply andb_prop in H. destruct H as [H H3].
    apply andb_prop in H. destruct H as [H1 H2].
    apply str_eqb_eq in H1. apply str_eqb_eq in H3. apply Bool.eqb_prop in H2.
    subst. reflexivity.
  - intros H. inversion H; subst.
    rewrite (proj2 (str_eqb_eq l' l') eq_refl), (proj2 (str_eqb_eq i' i') eq_refl),
      Bool.eqb_reflx. reflexivity.
Qed.

Lemma key_eqb_refl k : key_eqb k k = true.
Proof. apply key_eqb_eq. reflexivity. Qed.

Lemma key_eqb_neq a b : a <> b -> key_eqb a b = false.
Proof.
  intros H. destruct (key_eqb a b) eqn:E; [|reflexivity].
  apply key_eqb_eq in E. contradiction.
Qed.

Lemma get_set_same m k s : get (set m k s) k = Some s.
Proof.
  induction m as [|[k' s'] m IH]; cbn.
  - rewrite key_eqb_refl. reflexivity.
  - destruct (key_eqb k k') eqn:E; cbn.
    + rewrite key_eqb_refl. reflexivity.
    + rewrite E. exact IH.
Qed.

Lemma get_set_other m k s k' : k' <> k -> get (set m k s) k' = get m k'.
Proof.
  intros Hn. induction m as [|[k0 s0] m IH]; cbn.
  - rewrite (key_eqb_neq _ _ Hn). reflexivity.
  - destruct (key_eqb k k0) eqn:E; cbn.
    + apply key_eqb_eq in E. subst k0. rewrite (key_eqb_neq _ _ Hn). reflexivity.
    + destruct (key_eqb k' k0); [reflexivity | exact IH].
Qed.

Lemma get_map_peek m now k :
  get (map (fun ks => (fst ks, peek now (snd ks))) m) k = option_map (peek now) (get m k).
Proof.
  induction m as [|[k0 s0] m IH]; cbn; [reflexivity|].
  destruct (key_eqb k k0); [reflexivity | exact IH].
Qed.
