(* C09 — lemmas.  Final statements are in Property.v. *)
From Coq Require Import List ZArith Bool Lia.
From Verif Require Import C09.Model C09.Spec.
Import ListNotations.
Open Scope Z_scope.

(* ================================================================== *)
(** * A. The limit                                                      *)

Lemma cdiv_spec a b : 0 < b -> (cdiv a b - 1) * b < a <= cdiv a b * b.
Proof.
  intros Hb. unfold cdiv.
  pose proof (Z.div_mod (- a) b ltac:(lia)) as E.
  pose proof (Z.mod_pos_bound (- a) b Hb) as M.
  nia.
Qed.

Lemma cdiv_unique a b q : 0 < b -> (q - 1) * b < a <= q * b -> cdiv a b = q.
Proof.
  intros Hb H. pose proof (cdiv_spec a b Hb) as S. nia.
Qed.

Lemma cdiv_mul_r a b c : 0 < b -> 0 < c -> cdiv (a * c) (b * c) = cdiv a b.
Proof.
  intros Hb Hc. apply cdiv_unique; [nia|].
  pose proof (cdiv_spec a b Hb) as S. nia.
Qed.

Lemma cdiv_nonneg a b : 0 < b -> 0 <= a -> 0 <= cdiv a b.
Proof. intros Hb Ha. pose proof (cdiv_spec a b Hb). nia. Qed.

Lemma cdiv_mono a a' b : 0 < b -> a <= a' -> cdiv a b <= cdiv a' b.
Proof.
  intros Hb H. pose proof (cdiv_spec a b Hb). pose proof (cdiv_spec a' b Hb). nia.
Qed.

Lemma scaled_quota_nonneg total parts : 0 <= scaled_quota total parts.
Proof.
  unfold scaled_quota.
  destruct ((total <=? 0) || (parts <=? 0)) eqn:E; [lia|].
  apply orb_false_iff in E. destruct E as [Ht Hp].
  apply Z.leb_gt in Ht. apply Z.leb_gt in Hp.
  destruct (two63 <=? parts); [unfold max_i64; lia|].
  apply Z.min_glb; [unfold max_i64; lia|].
  apply cdiv_nonneg; [unfold scale; lia | nia].
Qed.

(* the integer part is the exact ceiling whenever nothing saturates *)
Lemma scaled_quota_ceiling total parts :
  0 < total -> 0 < parts < two63 -> cdiv (total * parts) scale <= max_i64 ->
  scaled_quota total parts = cdiv (total * parts) scale.
Proof.
  intros Ht Hp Hq. unfold scaled_quota.
  replace (total <=? 0) with false by (symmetry; apply Z.leb_gt; lia).
  replace (parts <=? 0) with false by (symmetry; apply Z.leb_gt; lia).
  replace (two63 <=? parts) with false by (symmetry; apply Z.leb_gt; lia).
  cbn [orb]. apply Z.min_r. exact Hq.
Qed.

(* a ratio read as h/10000 (h hundredths of a percent): the limit is the exact
   rounded-up share, for every int64 count *)
Lemma scaled_quota_hundredths total h :
  0 <= total <= max_i64 -> 0 <= h <= 10000 ->
  scaled_quota total (h * 100000) = limit_exact total h.
Proof.
  intros Ht Hh. unfold limit_exact.
  destruct (Z.eq_dec total 0) as [->|Hn].
  { unfold scaled_quota. cbn. reflexivity. }
  destruct (Z.eq_dec h 0) as [->|Hh0].
  { unfold scaled_quota. rewrite !Z.mul_0_r.
    replace (0 * 100000 <=? 0) with true by reflexivity.
    rewrite orb_true_r. reflexivity. }
  assert (E : cdiv (total * (h * 100000)) scale = cdiv (total * h) 10000).
  { unfold scale. replace (total * (h * 100000)) with ((total * h) * 100000) by ring.
    replace 1000000000 with (10000 * 100000) by reflexivity.
    apply cdiv_mul_r; lia. }
  rewrite scaled_quota_ceiling.
  - exact E.
  - lia.
  - unfold two63. lia.
  - rewrite E. pose proof (cdiv_spec (total * h) 10000 ltac:(lia)). unfold max_i64 in *. nia.
Qed.

(* ================================================================== *)
(** * B. Keys and the store                                             *)

Lemma str_eqb_eq a : forall b, str_eqb a b = true <-> a = b.
Proof.
  induction a as [|x a IH]; intros [|y b]; cbn; split; intros H;
    try reflexivity; try discriminate.
  - apply andb_prop in H. destruct H as [H1 H2]. apply Z.eqb_eq in H1.
    apply IH in H2. subst. reflexivity.
  - inversion H; subst. rewrite Z.eqb_refl. cbn. apply IH. reflexivity.
Qed.

Lemma key_eqb_eq a b : key_eqb a b = true <-> a = b.
Proof.
  unfold key_eqb. destruct a as [l g i], b as [l' g' i']. cbn. split.
  - intros H. apply andb_prop in H. destruct H as [H H3].
    apply andb_prop in H. destruct H as [H1 H2].
    apply str_eqb_eq in H1. apply str_eqb_eq in H3. apply Bool.eqb_prop in H2.
    subst. reflexivity.
  - intros H. inversion H; subst.
    rewrite (proj2 (str_eqb_eq l' l') eq_refl), (proj2 (str_eqb_eq i' i') eq_refl),
      Bool.eqb_reflx. reflexivity.
Qed.

Lemma key_eqb_refl k : key_eqb k k = true.
Proof. apply key_eqb_eq. reflexivity. Qed.

Lemma key_eqb_neq a b : a <> b -> key_eqb a b = false.
Proof.
  intros H. destruct (key_eqb a b) eqn:E; [|reflexivity].
  apply key_eqb_eq in E. contradiction.
Qed.

Lemma get_set_same m k s : get (set m k s) k = Some s.
Proof.
  induction m as [|[k' s'] m IH]; cbn.
  - rewrite key_eqb_refl. reflexivity.
  - destruct (key_eqb k k') eqn:E; cbn.
    + rewrite key_eqb_refl. reflexivity.
    + rewrite E. exact IH.
Qed.

Lemma get_set_other m k s k' : k' <> k -> get (set m k s) k' = get m k'.
Proof.
  intros Hn. induction m as [|[k0 s0] m IH]; cbn.
  - rewrite (key_eqb_neq _ _ Hn). reflexivity.
  - destruct (key_eqb k k0) eqn:E; cbn.
    + apply key_eqb_eq in E. subst k0. rewrite (key_eqb_neq _ _ Hn). reflexivity.
    + destruct (key_eqb k' k0); [reflexivity | exact IH].
Qed.

Lemma get_map_peek m now k :
  get (map (fun ks => (fst ks, peek now (snd ks))) m) k = option_map (peek now) (get m k).
Proof.
  induction m as [|[k0 s0] m IH]; cbn; [reflexivity|].
  destruct (key_eqb k k0); [reflexivity | exact IH].
Qed.

(* ================================================================== *)
(** * C. One limiter state                                              *)

Lemma count_app p a b : count p (a ++ b) = count p a + count p b.
Proof. induction a as [|e a IH]; cbn [app count]; [reflexivity | rewrite IH; ring]. Qed.

Lemma count_nonneg p tr : 0 <= count p tr.
Proof.
  induction tr as [|e r IH]; cbn [count]; [lia|].
  destruct (is_pass e && p (s_now e)); lia.
Qed.

Lemma count_zero p tr :
  (forall e, In e tr -> is_pass e = true -> p (s_now e) = false) -> count p tr = 0.
Proof.
  induction tr as [|e r IH]; intros H; cbn [count]; [reflexivity|].
  rewrite IH by (intros e' Hi; apply H; right; exact Hi).
  destruct (is_pass e) eqn:P; cbn [andb]; [|reflexivity].
  rewrite (H e (or_introl eq_refl) P). reflexivity.
Qed.

Lemma count_le_1 p e : 0 <= count p [e] <= 1.
Proof. cbn [count]. destruct (is_pass e && p (s_now e)); lia. Qed.

Lemma count_nonpass p e : is_pass e = false -> count p [e] = 0.
Proof. intros H. cbn [count]. rewrite H. reflexivity. Qed.

(* the last request that proceeded inside p, if there is one *)
Lemma count_pos_last p tr :
  0 < count p tr ->
  exists pre e post, tr = pre ++ e :: post /\ is_pass e = true /\ p (s_now e) = true /\
                     count p post = 0.
Proof.
  induction tr as [|x r IH] using rev_ind; [cbn; lia|].
  rewrite count_app. intros H.
  destruct (is_pass x && p (s_now x)) eqn:E.
  - apply andb_prop in E. destruct E as [E1 E2].
    exists r, x, []. repeat split; assumption || reflexivity.
  - assert (Hx : count p [x] = 0) by (cbn [count]; rewrite E; reflexivity).
    rewrite Hx in H. destruct IH as (pre & e & post & -> & P & Q & Z0); [lia|].
    exists pre, e, (post ++ [x]). rewrite <- app_assoc. cbn [app].
    repeat split; try assumption. rewrite count_app, Z0, Hx. reflexivity.
Qed.

Lemma quot_gt W now : 0 < W -> now < Z.quot now W * W + W.
Proof.
  intros HW. pose proof (Z.quot_rem' now W) as E.
  destruct (Z.le_ge_cases 0 now) as [Hn|Hn].
  - pose proof (Z.rem_bound_pos now W Hn HW). nia.
  - pose proof (Z.rem_bound_pos_neg now W HW ltac:(lia)). nia.
Qed.

Lemma quot_le W now : 0 < W -> 0 <= now -> Z.quot now W * W <= now.
Proof.
  intros HW Hn. pose proof (Z.quot_rem' now W) as E.
  pose proof (Z.rem_bound_pos now W Hn HW). nia.
Qed.

Lemma ensure_cases now s :
  (wend s < now /\ cnt (ensure now s) = 0 /\
   wend (ensure now s) = Z.quot now (wW (swd s)) * wW (swd s) + wW (swd s) /\
   swd (ensure now s) = swd s)
  \/ (now <= wend s /\ ensure now s = s).
Proof.
  unfold ensure. destruct (wend s <? now) eqn:E.
  - left. apply Z.ltb_lt in E. cbn. repeat split; try reflexivity. exact E.
  - right. apply Z.ltb_ge in E. split; [exact E | reflexivity].
Qed.

Lemma try_inc_cases now wd s :
  wW wd <> 0 ->
  let s1 := ensure now (with_wd s wd) in
  let lim := limit_at now wd s in
  (lim <= cnt s1 /\ try_inc now wd s = (s1, Block))
  \/ (cnt s1 < lim /\
      try_inc now wd s =
      ({| cnt := cnt s1 + 1; spill := spill s1; wend := wend s1; swd := wd |}, Proceed)).
Proof.
  intros HW. unfold try_inc, limit_at.
  replace (wW wd =? 0) with false by (symmetry; apply Z.eqb_neq; exact HW).
  cbn zeta.
  destruct (scaled_quota _ _ <=? cnt _) eqn:E.
  - left. apply Z.leb_le in E. split; [exact E | reflexivity].
  - right. apply Z.leb_gt in E. split; [exact E | reflexivity].
Qed.

Section SingleBound.
  Variable W B : Z.
  Hypothesis HW : 0 < W.

  Record InvS (s : st) (pre : list sentry) (lo : Z) : Prop := {
    i_al : wend s = B \/ (W | wend s);
    i_lo : forall e, In e pre -> s_now e <= lo;
    i_pw : forall e, In e pre -> is_pass e = true -> s_now e <= wend s;
    i_ct : forall k, good_window W B k -> lo <= (k + 1) * W ->
                     count (in_right W k) pre <= cnt s
  }.

  Definition Inv (o : option st) (pre : list sentry) (lo : Z) : Prop :=
    match o with
    | None => pre = []
    | Some s => wW (swd s) = W /\ InvS s pre lo
    end.

  Lemma InvS_init lo : InvS init [] lo.
  Proof.
    constructor; cbn.
    - right. exists 0. reflexivity.
    - intros e [].
    - intros e [].
    - intros; lia.
  Qed.

  Lemma InvS_with_wd s wd pre lo : InvS s pre lo -> InvS (with_wd s wd) pre lo.
  Proof. intros [A L P C]. constructor; cbn; assumption. Qed.

  (* no grid window that matters straddles the end of the stored window *)
  Lemma no_straddle we k t now :
    (we = B \/ (W | we)) -> good_window W B k ->
    in_right W k t = true -> t <= we -> we < now -> now <= (k + 1) * W -> False.
  Proof.
    intros A G I T1 T2 T3. unfold in_right in I. apply andb_prop in I.
    destruct I as [I1 I2]. apply Z.ltb_lt in I1. apply Z.leb_le in I2.
    assert (D : (W | we) \/ we <= k * W).
    { destruct A as [->|A]; [exact G | left; exact A]. }
    destruct D as [[j ->]|D]; [|lia].
    assert (k < j) by nia. assert (j < k + 1) by nia. lia.
  Qed.

  Lemma ensure_InvS s pre lo now :
    wW (swd s) = W -> InvS s pre lo -> lo <= now ->
    InvS (ensure now s) pre now /\ now <= wend (ensure now s) /\
    wW (swd (ensure now s)) = W.
  Proof.
    intros HS [A L P C] Hlo.
    destruct (ensure_cases now s) as [(Hlt & Hc & Hw & Hd)|(Hle & ->)].
    - rewrite HS in Hw. pose proof (quot_gt W now HW) as Hq.
      split; [|split; [lia | rewrite Hd; exact HS]].
      constructor.
      + right. rewrite Hw. exists (Z.quot now W + 1). ring.
      + intros e Hi. specialize (L e Hi). lia.
      + intros e Hi Hp. specialize (P e Hi Hp). lia.
      + intros k G Hk. rewrite Hc.
        rewrite count_zero; [lia|].
        intros e Hi Hp. destruct (in_right W k (s_now e)) eqn:I; [|reflexivity].
        exfalso. exact (no_straddle (wend s) k (s_now e) now A G I (P e Hi Hp) Hlt Hk).
    - split; [|split; [exact Hle | exact HS]].
      constructor; try assumption.
      + intros e Hi. specialize (L e Hi). lia.
      + intros k G Hk. apply C; [exact G | lia].
  Qed.

  Lemma inc_step s pre lo now wd s' v :
    wW wd = W -> InvS s pre lo -> lo <= now -> try_inc now wd s = (s', v) ->
    let e := {| s_now := now; s_verdict := v; s_lim := limit_at now wd s |} in
    wW (swd s') = W /\ InvS s' (pre ++ [e]) now /\
    (v = Proceed -> forall k, good_window W B k -> in_right W k now = true ->
                    count (in_right W k) (pre ++ [e]) <= limit_at now wd s).
  Proof.
    intros Hwd HI Hlo HT.
    assert (Hnz : wW wd <> 0) by lia.
    pose proof (ensure_InvS (with_wd s wd) pre lo now Hwd (InvS_with_wd s wd pre lo HI) Hlo)
      as (HI1 & Hnow & HS1).
    destruct (try_inc_cases now wd s Hnz) as [(Hc & E)|(Hc & E)];
      rewrite E in HT; inversion HT; subst s' v; clear HT; cbn zeta.
    - (* Block *)
      split; [exact HS1|]. split; [|discriminate].
      destruct HI1 as [A L P C]. constructor.
      + exact A.
      + intros e Hi. apply in_app_or in Hi. destruct Hi as [Hi|[<-|[]]]; [apply L; exact Hi | cbn; lia].
      + intros e Hi Hp. apply in_app_or in Hi. destruct Hi as [Hi|[<-|[]]]; [apply P; assumption | discriminate].
      + intros k G Hk. rewrite count_app, count_nonpass by reflexivity.
        specialize (C k G Hk). lia.
    - (* Proceed *)
      split; [exact Hwd|].
      set (s1 := ensure now (with_wd s wd)) in *.
      set (e := {| s_now := now; s_verdict := Proceed; s_lim := limit_at now wd s |}).
      destruct HI1 as [A L P C].
      assert (HI' : InvS {| cnt := cnt s1 + 1; spill := spill s1; wend := wend s1; swd := wd |}
                         (pre ++ [e]) now).
      { constructor; cbn [cnt wend].
        + exact A.
        + intros x Hi. apply in_app_or in Hi. destruct Hi as [Hi|[<-|[]]]; [apply L; exact Hi | cbn; lia].
        + intros x Hi Hp. apply in_app_or in Hi. destruct Hi as [Hi|[<-|[]]]; [apply P; assumption | cbn; exact Hnow].
        + intros k G Hk. rewrite count_app. specialize (C k G Hk).
          pose proof (count_le_1 (in_right W k) e). lia. }
      split; [exact HI'|].
      intros _ k G I. destruct HI' as [_ _ _ C'].
      assert (Hk : now <= (k + 1) * W).
      { unfold in_right in I. apply andb_prop in I. destruct I as [_ I]. apply Z.leb_le in I. exact I. }
      specialize (C' k G Hk). cbn [cnt] in C'. lia.
  Qed.

  Lemma single_bound h : forall o pre lo,
    Inv o pre lo -> const_window W h -> mono_from lo (map sev_now h) ->
    forall mid e post k, run_single o h = mid ++ e :: post -> is_pass e = true ->
      good_window W B k -> in_right W k (s_now e) = true ->
      count (in_right W k) (pre ++ mid ++ [e]) <= s_lim e.
  Proof.
    induction h as [|ev r IH]; intros o pre lo HI HC HM mid e post k HR HP G I.
    { cbn in HR. destruct mid; discriminate. }
    inversion HC as [|? ? Hev HCr]; subst. cbn [map mono_from] in HM. destruct HM as [Hlo HMr].
    destruct ev as [now wd|now]; cbn [sev_now] in *.
    - (* a request *)
      cbn [run_single step_single] in HR.
      destruct (try_inc now wd (or_init o)) as [s' v] eqn:ET. cbn [app] in HR.
      assert (HIs : InvS (or_init o) pre lo).
      { destruct o as [s|]; cbn [Inv or_init] in *; [exact (proj2 HI) | subst pre; apply InvS_init]. }
      pose proof (inc_step (or_init o) pre lo now wd s' v Hev HIs Hlo ET) as (HS' & HI' & Hb).
      destruct mid as [|x mid]; cbn [app] in HR; inversion HR; subst.
      + cbn [app]. cbn [s_now s_lim] in *.
        unfold is_pass in HP. cbn [s_verdict] in HP. destruct v; try discriminate.
        cbn iota. apply Hb; [reflexivity | exact G | exact I].
      + replace (pre ++ (_ :: mid) ++ [e]) with ((pre ++ [{| s_now := now; s_verdict := v;
                 s_lim := match v with Panic => 0 | _ => limit_at now wd (or_init o) end |}]) ++ mid ++ [e])
          by (rewrite <- app_assoc; reflexivity).
        assert (Hv : match v with Panic => 0 | _ => limit_at now wd (or_init o) end
                     = limit_at now wd (or_init o)).
        { destruct v; try reflexivity. exfalso.
          destruct (try_inc_cases now wd (or_init o) ltac:(lia)) as [(_ & E)|(_ & E)];
            rewrite E in ET; discriminate. }
        rewrite Hv in *.
        eapply (IH (Some s') _ now); try eassumption.
        cbn [Inv]. split; assumption.
    - (* Counters() *)
      cbn [run_single step_single app] in HR.
      eapply (IH (option_map (peek now) o) pre now); try eassumption.
      destruct o as [s|]; cbn [Inv option_map] in *; [|exact HI].
      destruct HI as [HS HI]. unfold peek.
      replace (wW (swd s) =? 0) with false by (symmetry; apply Z.eqb_neq; lia).
      pose proof (ensure_InvS s pre lo now HS HI Hlo) as (H1 & _ & H3). split; assumption.
  Qed.
End SingleBound.

Lemma mono_mono_from l : mono l -> exists lo, mono_from lo l.
Proof.
  destruct l as [|t r]; cbn; intros H; [exists 0; exact I|].
  exists t. split; [lia | exact H].
Qed.

Lemma single_bounded_fresh W h :
  0 < W -> const_window W h -> mono (map sev_now h) ->
  bounded_right W 0 (run_single None h).
Proof.
  intros HW HC HM pre e post k HR HP G I.
  destruct (mono_mono_from _ HM) as [lo Hlo].
  exact (single_bound W 0 HW h None [] lo eq_refl HC Hlo pre e post k HR HP G I).
Qed.

Lemma single_bounded_resized W h s1 :
  0 < W -> wW (swd s1) = W -> 0 <= cnt s1 -> const_window W h -> mono (map sev_now h) ->
  bounded_right W (wend s1) (run_single (Some s1) h).
Proof.
  intros HW HS Hc HC HM pre e post k HR HP G I.
  destruct (mono_mono_from _ HM) as [lo Hlo].
  assert (HI : Inv W (wend s1) (Some s1) [] lo).
  { split; [exact HS|]. constructor.
    - left. reflexivity.
    - intros x [].
    - intros x [].
    - intros; cbn; lia. }
  exact (single_bound W (wend s1) HW h (Some s1) [] lo HI HC Hlo pre e post k HR HP G I).
Qed.

(* --- constant window data, spill-over off: one limit for the whole history --- *)

Definition spill_off (o : option st) : Prop :=
  match o with None => True | Some s => spill s = 0 /\ wSpillOn (swd s) = false end.

Lemma ensure_spill_off now s :
  spill s = 0 -> wSpillOn (swd s) = false ->
  spill (ensure now s) = 0 /\ wSpillOn (swd (ensure now s)) = false.
Proof.
  intros H1 H2. unfold ensure. destruct (wend s <? now); cbn; [|split; assumption].
  rewrite H2. cbn. split; first [assumption | reflexivity].
Qed.

Lemma run_const_lim wd h :
  wSpillOn wd = false -> wW wd <> 0 -> const_data wd h ->
  forall o, spill_off o ->
    Forall (fun e => s_lim e = scaled_quota (wAllowed wd) (wParts wd)) (run_single o h).
Proof.
  intros Hso Hnz. induction h as [|ev r IH]; intros HC o HO; [constructor|].
  inversion HC as [|? ? Hev HCr]; subst.
  destruct ev as [now wd'|now]; cbn [run_single step_single].
  - subst wd'.
    assert (HS : spill (or_init o) = 0).
    { destruct o as [s|]; [exact (proj1 HO) | reflexivity]. }
    pose proof (ensure_spill_off now (with_wd (or_init o) wd) HS Hso) as [E1 E2].
    destruct (try_inc now wd (or_init o)) as [s' v] eqn:ET. cbn [app].
    destruct (try_inc_cases now wd (or_init o) Hnz) as [(_ & E)|(_ & E)];
      rewrite E in ET; inversion ET; subst s' v; clear ET.
    + constructor.
      * cbn [s_lim]. unfold limit_at. rewrite E1, Z.add_0_r. reflexivity.
      * apply IH; [exact HCr|]. cbn. split; assumption.
    + constructor.
      * cbn [s_lim]. unfold limit_at. rewrite E1, Z.add_0_r. reflexivity.
      * apply IH; [exact HCr|]. cbn. split; [exact E1 | exact Hso].
  - cbn [app]. apply IH; [exact HCr|].
    destruct o as [s|]; cbn [option_map spill_off] in *; [|exact I].
    destruct HO as [H1 H2]. unfold peek. destruct (wW (swd s) =? 0); [split; assumption|].
    apply ensure_spill_off; assumption.
Qed.

Lemma const_data_window wd h : const_data wd h -> const_window (wW wd) h.
Proof.
  intros H. induction H as [|ev r Hev _ IH]; constructor; [|exact IH].
  destruct ev; [subst; reflexivity | exact I].
Qed.

Lemma single_window_bound wd h :
  0 < wW wd -> wSpillOn wd = false -> const_data wd h -> mono (map sev_now h) ->
  forall k, count (in_right (wW wd) k) (run_single None h)
            <= scaled_quota (wAllowed wd) (wParts wd).
Proof.
  intros HW Hso HC HM k.
  set (tr := run_single None h). set (L := scaled_quota (wAllowed wd) (wParts wd)).
  destruct (Z.lt_ge_cases 0 (count (in_right (wW wd) k) tr)) as [Hpos|Hz].
  2:{ pose proof (scaled_quota_nonneg (wAllowed wd) (wParts wd)). fold L in H. lia. }
  destruct (count_pos_last _ _ Hpos) as (pre & e & post & Etr & HP & HI & Hz).
  pose proof (single_bounded_fresh (wW wd) h HW (const_data_window wd h HC) HM) as Hb.
  specialize (Hb pre e post k Etr HP (or_introl (Z.divide_0_r _)) HI).
  pose proof (run_const_lim wd h Hso ltac:(lia) HC None I) as Hl. fold tr in Hl.
  rewrite Etr in Hl. apply Forall_app in Hl. destruct Hl as [_ Hl].
  inversion Hl as [|? ? He _]; subst.
  rewrite Etr. replace (pre ++ e :: post) with ((pre ++ [e]) ++ post)
    by (rewrite <- app_assoc; reflexivity).
  rewrite count_app, Hz. fold L in He. lia.
Qed.

(* --- a rejection means the share of the closed grid cell around it is used up --- *)

Lemma count_ext p q tr : (forall t, p t = q t) -> count p tr = count q tr.
Proof.
  intros H. induction tr as [|e r IH]; cbn [count]; [reflexivity|].
  rewrite IH, H. reflexivity.
Qed.

Section SingleExact.
  Variable W B : Z.
  Hypothesis HW : 0 < W.

  Definition cell (we t : Z) : bool := (we - W <=? t) && (t <=? we).

  Definition InvE (s : st) (pre : list sentry) (lo : Z) : Prop :=
    wend s = B \/
    ((W | wend s) /\ wend s - W <= lo /\ cnt s <= count (cell (wend s)) pre).

  Definition InvEo (o : option st) (pre : list sentry) (lo : Z) : Prop :=
    match o with
    | None => B = 0 /\ pre = []
    | Some s => wW (swd s) = W /\ InvE s pre lo
    end.

  (* after the window was brought up to date at an instant past B the state is
     on the grid *)
  Lemma ensure_InvE s pre lo now :
    wW (swd s) = W -> InvE s pre lo -> 0 <= lo <= now ->
    InvE (ensure now s) pre now /\ wW (swd (ensure now s)) = W /\
    (B < now ->
     (W | wend (ensure now s)) /\ wend (ensure now s) - W <= now <= wend (ensure now s) /\
     cnt (ensure now s) <= count (cell (wend (ensure now s))) pre).
  Proof.
    intros HS HI Hlo.
    destruct (ensure_cases now s) as [(Hlt & Hc & Hw & Hd)|(Hle & ->)].
    - rewrite HS in Hw. pose proof (quot_gt W now HW) as Hq.
      pose proof (quot_le W now HW ltac:(lia)) as Hq'.
      assert (HA : (W | wend (ensure now s)) /\
                   wend (ensure now s) - W <= now <= wend (ensure now s) /\
                   cnt (ensure now s) <= count (cell (wend (ensure now s))) pre).
      { rewrite Hw, Hc. split; [exists (Z.quot now W + 1); ring|].
        split; [lia|]. apply count_nonneg. }
      split; [right; destruct HA as (A1 & A2 & A3); repeat split; try assumption; lia|].
      split; [rewrite Hd; exact HS|]. intros _. exact HA.
    - split; [|split; [exact HS|]].
      + destruct HI as [HI|(A1 & A2 & A3)]; [left; exact HI|].
        right. repeat split; try assumption. lia.
      + intros HB. destruct HI as [HI|(A1 & A2 & A3)]; [lia|].
        repeat split; try assumption; lia.
  Qed.

  Lemma single_exact h : forall o pre lo,
    InvEo o pre lo -> 0 <= lo -> const_window W h -> mono_from lo (map sev_now h) ->
    forall mid e post, run_single o h = mid ++ e :: post ->
      s_verdict e = Block -> B < s_now e ->
      exists j, in_closed W j (s_now e) = true /\
                s_lim e <= count (in_closed W j) (pre ++ mid).
  Proof.
    induction h as [|ev r IH]; intros o pre lo HI H0 HC HM mid e post HR HV HB.
    { cbn in HR. destruct mid; discriminate. }
    inversion HC as [|? ? Hev HCr]; subst. cbn [map mono_from] in HM. destruct HM as [Hlo HMr].
    destruct ev as [now wd|now]; cbn [sev_now] in *.
    - cbn [run_single step_single] in HR.
      destruct (try_inc now wd (or_init o)) as [s' v] eqn:ET. cbn [app] in HR.
      assert (HIs : InvE (or_init o) pre lo).
      { destruct o as [s|]; cbn [InvEo or_init] in *; [exact (proj2 HI)|].
        left. cbn. symmetry. exact (proj1 HI). }
      assert (Hnz : wW wd <> 0) by lia.
      assert (HIw : InvE (with_wd (or_init o) wd) pre lo) by exact HIs.
      pose proof (ensure_InvE (with_wd (or_init o) wd) pre lo now Hev HIw ltac:(lia))
        as (HI1 & HS1 & HA).
      set (s1 := ensure now (with_wd (or_init o) wd)) in *.
      destruct (try_inc_cases now wd (or_init o) Hnz) as [(Hc & E)|(Hc & E)];
        fold s1 in Hc, E; rewrite E in ET; inversion ET; subst s' v; clear ET.
      + (* this request was rejected *)
        destruct mid as [|x mid]; cbn [app] in HR; inversion HR; subst.
        * cbn [s_now s_lim s_verdict] in *. rewrite app_nil_r.
          destruct (HA HB) as ((j & Hj) & Hin & Hcnt).
          exists (j - 1). split.
          -- unfold in_closed. apply andb_true_intro. split; [apply Z.leb_le | apply Z.leb_le]; lia.
          -- rewrite (count_ext (in_closed W (j - 1)) (cell (wend s1))); [lia|].
             intros t. unfold in_closed, cell. rewrite Hj.
             replace ((j - 1) * W) with (j * W - W) by ring.
             replace ((j - 1 + 1) * W) with (j * W) by ring. reflexivity.
        * replace (pre ++ _ :: mid) with ((pre ++ [{| s_now := now; s_verdict := Block;
                 s_lim := limit_at now wd (or_init o) |}]) ++ mid)
            by (rewrite <- app_assoc; reflexivity).
          eapply (IH (Some s1) _ now); try eassumption; [|lia].
          cbn [InvEo]. split; [exact HS1|].
          destruct HI1 as [HI1|(A1 & A2 & A3)]; [left; exact HI1|].
          right. repeat split; try assumption.
          rewrite count_app, count_nonpass by reflexivity. lia.
      + (* this request proceeded *)
        destruct mid as [|x mid]; cbn [app] in HR; inversion HR; subst.
        * cbn [s_verdict] in HV. discriminate.
        * replace (pre ++ _ :: mid) with ((pre ++ [{| s_now := now; s_verdict := Proceed;
                 s_lim := limit_at now wd (or_init o) |}]) ++ mid)
            by (rewrite <- app_assoc; reflexivity).
          eapply (IH (Some _) _ now); try eassumption; [|lia].
          cbn [InvEo swd]. split; [exact Hev|].
          destruct HI1 as [HI1|(A1 & A2 & A3)]; [left; exact HI1|].
          right. cbn [wend cnt]. repeat split; try assumption.
          rewrite count_app.
          assert (Hin : now <= wend s1).
          { destruct (ensure_cases now (with_wd (or_init o) wd)) as [(Hlt & _ & Hw & _)|(Hle & Eq)].
            - fold s1 in Hw. cbn [swd with_wd] in Hw. rewrite Hev in Hw.
              pose proof (quot_gt W now HW). lia.
            - fold s1 in Eq. rewrite Eq. exact Hle. }
          assert (Hone : count (cell (wend s1))
                     [{| s_now := now; s_verdict := Proceed; s_lim := limit_at now wd (or_init o) |}] = 1).
          { cbn [count s_now]. unfold is_pass, cell. cbn [s_verdict verdict_eqb andb].
            replace (wend s1 - W <=? now) with true by (symmetry; apply Z.leb_le; lia).
            replace (now <=? wend s1) with true by (symmetry; apply Z.leb_le; lia).
            reflexivity. }
          rewrite Hone. lia.
    - cbn [run_single step_single app] in HR.
      eapply (IH (option_map (peek now) o) pre now); try eassumption; [|lia].
      destruct o as [s|]; cbn [InvEo option_map] in *; [|exact HI].
      destruct HI as [HS HI]. unfold peek.
      replace (wW (swd s) =? 0) with false by (symmetry; apply Z.eqb_neq; lia).
      pose proof (ensure_InvE s pre lo now HS HI ltac:(lia)) as (H1 & H2 & _).
      split; assumption.
  Qed.
End SingleExact.

(* ================================================================== *)
(** * D. The store: a key sees only its own sub-history                 *)

Lemma entries_of_app k a b : entries_of k (a ++ b) = entries_of k a ++ entries_of k b.
Proof. unfold entries_of. apply flat_map_app. Qed.

Lemma project_cons k now a r :
  project k ((now, a) :: r) =
  match a with
  | AInc k' wd => if key_eqb k k' then [SInc now wd] else []
  | APeek => [SPeek now]
  end ++ project k r.
Proof. reflexivity. Qed.

Lemma project_run h : forall m k, key_valid k = true ->
  entries_of k (run_map m h) = run_single (get m k) (project k h).
Proof.
  induction h as [|[now a] r IH]; intros m k Hk; [reflexivity|].
  rewrite project_cons. cbn [run_map]. destruct a as [k' wd|].
  - cbn [step_map]. destruct (key_valid k') eqn:V.
    + destruct (try_inc now wd (or_init (get m k'))) as [s' v] eqn:ET.
      rewrite entries_of_app. unfold entries_of at 1. cbn [flat_map e_key e_now e_verdict e_lim].
      destruct (key_eqb k k') eqn:E.
      * apply key_eqb_eq in E. subst k'. cbn [app run_single step_single].
        rewrite ET. cbn [app]. rewrite IH by exact Hk. rewrite get_set_same. reflexivity.
      * cbn [app]. rewrite IH by exact Hk. rewrite get_set_other; [reflexivity|].
        intros ->. rewrite key_eqb_refl in E. discriminate.
    + rewrite entries_of_app. unfold entries_of at 1. cbn [flat_map e_key].
      destruct (key_eqb k k') eqn:E.
      * apply key_eqb_eq in E. subst k'. congruence.
      * cbn [app]. apply IH. exact Hk.
  - cbn [step_map app]. rewrite IH by exact Hk.
    cbn [run_single step_single app]. rewrite get_map_peek. reflexivity.
Qed.

Lemma step_map_frame m now k wd k' :
  k' <> k -> get (fst (step_map m now (AInc k wd))) k' = get m k'.
Proof.
  intros Hn. cbn [step_map]. destruct (key_valid k); [|reflexivity].
  destruct (try_inc now wd (or_init (get m k))) as [s' v]. cbn [fst].
  apply get_set_other. exact Hn.
Qed.

Lemma run_map_app h1 : forall m h2,
  run_map m (h1 ++ h2) = run_map m h1 ++ run_map (final_map m h1) h2.
Proof.
  induction h1 as [|[now a] r IH]; intros m h2; [reflexivity|].
  cbn [app run_map final_map]. destruct (step_map m now a) as [m' es]. cbn [fst].
  rewrite IH, app_assoc. reflexivity.
Qed.

(* counters never go negative *)
Definition cnt_nonneg (m : smap) : Prop := forall k s, get m k = Some s -> 0 <= cnt s.

Lemma ensure_cnt_nonneg now s : 0 <= cnt s -> 0 <= cnt (ensure now s).
Proof. intros H. unfold ensure. destruct (wend s <? now); cbn; lia. Qed.

Lemma try_inc_cnt_nonneg now wd s : 0 <= cnt s -> 0 <= cnt (fst (try_inc now wd s)).
Proof.
  intros H. unfold try_inc. destruct (wW wd =? 0); [exact H|].
  pose proof (ensure_cnt_nonneg now (with_wd s wd) H).
  destruct (_ <=? _); cbn; lia.
Qed.

Lemma step_cnt_nonneg m now a : cnt_nonneg m -> cnt_nonneg (fst (step_map m now a)).
Proof.
  intros H k s. destruct a as [k' wd|]; cbn [step_map].
  - destruct (key_valid k'); [|apply H].
    destruct (try_inc now wd (or_init (get m k'))) as [s' v] eqn:ET. cbn [fst].
    destruct (key_eqb k k') eqn:E.
    + apply key_eqb_eq in E. subst k'. rewrite get_set_same. intros [= <-].
      replace s' with (fst (try_inc now wd (or_init (get m k)))) by (rewrite ET; reflexivity).
      apply try_inc_cnt_nonneg. destruct (get m k) eqn:G; cbn; [eapply H; exact G | lia].
    + rewrite get_set_other; [apply H|]. intros ->. rewrite key_eqb_refl in E. discriminate.
  - cbn [fst]. rewrite get_map_peek. destruct (get m k) eqn:G; cbn; [|discriminate].
    intros [= <-]. unfold peek. destruct (wW (swd s0) =? 0); [eapply H; exact G|].
    apply ensure_cnt_nonneg. eapply H. exact G.
Qed.

Lemma final_cnt_nonneg h : forall m, cnt_nonneg m -> cnt_nonneg (final_map m h).
Proof.
  induction h as [|[now a] r IH]; intros m H; [exact H|].
  cbn [final_map]. apply IH. apply step_cnt_nonneg. exact H.
Qed.

Lemma cnt_nonneg_empty : cnt_nonneg [].
Proof. intros k s. discriminate. Qed.

(* ================================================================== *)
(** * E. The plugin                                                     *)

(* shape of the key OnRequest hands to the store *)
Lemma plugin_pre_limit r hs k rb :
  plugin_pre r hs = PreLimit k rb ->
  kLimiter k = rName r /\
  match rGqa r with
  | None => kGrouped k = false /\ kGroup k = s_ungrouped
  | Some g => kGrouped k = true /\
              kGroup k = lower (gHeader g) ++ [58] ++ trim (header hs (gHeader g))
  end.
Proof.
  unfold plugin_pre. destruct (rGqa r) as [g|].
  - destruct (find_alloc (gGroups g) (header hs (gHeader g))).
    + intros [= <- _]. cbn. repeat split.
    + destruct (str_eqb (gDefault g) s_allow); [discriminate|].
      destruct (str_eqb (gDefault g) s_block); [discriminate|].
      destruct (str_eqb (gDefault g) s_use_default); [|discriminate].
      intros [= <- _]. cbn. repeat split.
  - intros [= <- _]. cbn. repeat split.
Qed.

Lemma plugin_pre_done_early r hs s :
  plugin_pre r hs = PreDone (PEarly s) -> s = status_of r.
Proof.
  unfold plugin_pre. destruct (rGqa r) as [g|]; [|discriminate].
  destruct (find_alloc _ _); [discriminate|].
  destruct (str_eqb (gDefault g) s_allow); [discriminate|].
  destruct (str_eqb (gDefault g) s_block); [intros [= <-]; reflexivity|].
  destruct (str_eqb (gDefault g) s_use_default); discriminate.
Qed.

Lemma plugin_status m now r hs m' s :
  plugin_step m now r hs = (m', PEarly s) -> s = status_of r.
Proof.
  unfold plugin_step. destruct (plugin_pre r hs) as [o|k rb] eqn:E.
  - intros [= _ ->]. exact (plugin_pre_done_early r hs s E).
  - destruct (step_map m now (AInc k (wd_of_remedy r rb))) as [m2 es].
    destruct es as [|e es]; [discriminate|].
    destruct (e_verdict e); intros [= _ H]; try discriminate. congruence.
Qed.

Lemma plugin_keys_distinct r r' hs hs' k k' rb rb' :
  plugin_pre r hs = PreLimit k rb -> plugin_pre r' hs' = PreLimit k' rb' ->
  (rName r <> rName r' -> k <> k') /\
  (forall g, rGqa r = Some g -> rGqa r' = Some g ->
     trim (header hs (gHeader g)) <> trim (header hs' (gHeader g)) -> k <> k').
Proof.
  intros H H'.
  destruct (plugin_pre_limit r hs k rb H) as [L G].
  destruct (plugin_pre_limit r' hs' k' rb' H') as [L' G'].
  split.
  - intros Hn E. subst k'. congruence.
  - intros g Hg Hg' Hn E. subst k'. rewrite Hg in G. rewrite Hg' in G'.
    destruct G as [_ G]. destruct G' as [_ G']. rewrite G in G'.
    apply app_inv_head in G'. apply app_inv_head in G'. contradiction.
Qed.

(* default behaviours that decide without a counter leave the store alone *)
Lemma plugin_done_no_effect m now r hs o :
  plugin_pre r hs = PreDone o -> plugin_step m now r hs = (m, o).
Proof. intros H. unfold plugin_step. rewrite H. reflexivity. Qed.

(* ================================================================== *)
(** * F. Store-level statements                                         *)

Lemma invalid_key_no_effect m now k wd :
  key_valid k = false -> fst (step_map m now (AInc k wd)) = m.
Proof. intros H. cbn [step_map]. rewrite H. reflexivity. Qed.

Lemma try_inc_verdict now wd s :
  wW wd <> 0 ->
  let s1 := ensure now (with_wd s wd) in
  (snd (try_inc now wd s) = Block <-> limit_at now wd s <= cnt s1) /\
  (snd (try_inc now wd s) = Proceed <-> cnt s1 < limit_at now wd s).
Proof.
  intros HW s1.
  destruct (try_inc_cases now wd s HW) as [(Hc & E)|(Hc & E)]; fold s1 in Hc, E;
    rewrite E; cbn [snd]; split; split; intros H; try reflexivity; try discriminate; lia.
Qed.

Lemma map_grid_bound h k W :
  0 < W -> key_valid k = true ->
  const_window W (project k h) -> mono (map sev_now (project k h)) ->
  bounded_right W 0 (entries_of k (run_map [] h)).
Proof.
  intros HW Hk HC HM. rewrite (project_run h [] k Hk).
  exact (single_bounded_fresh W (project k h) HW HC HM).
Qed.

Lemma map_grid_bound_const h k wd :
  0 < wW wd -> wSpillOn wd = false -> key_valid k = true ->
  const_data wd (project k h) -> mono (map sev_now (project k h)) ->
  forall j, count (in_right (wW wd) j) (entries_of k (run_map [] h))
            <= scaled_quota (wAllowed wd) (wParts wd).
Proof.
  intros HW Hs Hk HC HM j. rewrite (project_run h [] k Hk).
  exact (single_window_bound wd (project k h) HW Hs HC HM j).
Qed.

Lemma map_grid_bound_after_resize h1 h2 k W s1 :
  0 < W -> key_valid k = true ->
  get (final_map [] h1) k = Some s1 -> wW (swd s1) = W ->
  const_window W (project k h2) -> mono (map sev_now (project k h2)) ->
  bounded_right W (wend s1) (entries_of k (run_map (final_map [] h1) h2)).
Proof.
  intros HW Hk HG HS HC HM.
  rewrite (project_run h2 (final_map [] h1) k Hk), HG.
  apply single_bounded_resized; try assumption.
  exact (final_cnt_nonneg h1 [] cnt_nonneg_empty k s1 HG).
Qed.

Lemma map_rejected_used_up h k W pre e post :
  0 < W -> key_valid k = true ->
  const_window W (project k h) -> mono_from 0 (map sev_now (project k h)) ->
  entries_of k (run_map [] h) = pre ++ e :: post ->
  s_verdict e = Block -> 0 < s_now e ->
  exists j, in_closed W j (s_now e) = true /\ s_lim e <= count (in_closed W j) pre.
Proof.
  intros HW Hk HC HM HR HV HB.
  rewrite (project_run h [] k Hk) in HR.
  exact (single_exact W 0 HW (project k h) None [] 0 (conj eq_refl eq_refl) (Z.le_refl 0)
           HC HM pre e post HR HV HB).
Qed.

(* the left-closed half fails: instants 1, 3, 4, 4, window 3, limit 2 *)
Lemma left_closed_half_fails :
  exists h k W, 0 < W /\ key_valid k = true /\ const_window W (project k h) /\
    mono (map sev_now (project k h)) /\
    ~ bounded_left W 0 (entries_of k (run_map [] h)).
Proof.
  set (k := {| kLimiter := [65]; kGrouped := false; kGroup := [] |}).
  set (wd := {| wW := 3; wAllowed := 2; wParts := scale; wSpillOn := false; wRenew := 0 |}).
  exists [(1, AInc k wd); (3, AInc k wd); (4, AInc k wd); (4, AInc k wd)], k, 3.
  split; [lia|]. split; [reflexivity|]. split; [repeat constructor|].
  split; [cbn; lia|].
  intros H.
  specialize (H [ {| s_now := 1; s_verdict := Proceed; s_lim := 2 |};
                  {| s_now := 3; s_verdict := Proceed; s_lim := 2 |};
                  {| s_now := 4; s_verdict := Proceed; s_lim := 2 |} ]
                {| s_now := 4; s_verdict := Proceed; s_lim := 2 |} [] 1
                eq_refl eq_refl (or_introl (Z.divide_0_r 3)) eq_refl).
  vm_compute in H. apply H. reflexivity.
Qed.

Lemma limit_is_ceiling total h :
  0 <= total <= max_i64 -> 0 <= h <= 10000 ->
  scaled_quota total (h * 100000) = limit_exact total h.
Proof. exact (scaled_quota_hundredths total h). Qed.
