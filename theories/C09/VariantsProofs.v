(* C09 — lemmas about the variants of Variants.v *)
From Coq Require Import List ZArith Bool Lia.
From Verif Require Import C09.Model C09.Proofs C09.Variants.
Import ListNotations.
Open Scope Z_scope.

(* the variant WholeBudget is the model's TryToIncrement *)
Lemma try_inc_whole_budget now wd s : try_inc_v WholeBudget now wd s = try_inc now wd s.
Proof. reflexivity. Qed.

Lemma limit_at_whole_budget now wd s :
  limit_at now wd s =
  limit_with_carry WholeBudget (wAllowed wd) (spill (ensure now (with_wd s wd))) (wParts wd).
Proof. reflexivity. Qed.

Lemma carry_share_exact_whole : carry_share_exact WholeBudget.
Proof.
  intros now wd s HW Hp s1 Hb Hq.
  unfold try_inc_v. fold s1.
  destruct (wW wd =? 0) eqn:EW; [apply Z.eqb_eq in EW; contradiction|].
  cbn [limit_with_carry].
  rewrite (scaled_quota_ceiling _ _ Hb Hp Hq).
  pose proof (cdiv_spec ((wAllowed wd + spill s1) * wParts wd) scale ltac:(reflexivity)) as [Hlo Hhi].
  set (L := cdiv ((wAllowed wd + spill s1) * wParts wd) scale) in *.
  set (P := (wAllowed wd + spill s1) * wParts wd) in *.
  unfold scale in *.
  destruct (L <=? cnt s1) eqn:EL; cbn [snd].
  - apply Z.leb_le in EL. split; [discriminate|]. intros Hc. exfalso. lia.
  - apply Z.leb_gt in EL. split; [|reflexivity]. intros _. lia.
Qed.

Lemma carry_share_exact_split_refuted : ~ carry_share_exact SplitCeilings.
Proof.
  intros H.
  assert (E : snd (try_inc_v SplitCeilings 25 cs_wd cs_st) = Proceed) by (vm_compute; reflexivity).
  apply (H 25 cs_wd cs_st) in E; vm_compute in E |- *; try discriminate; try (split; reflexivity);
    try reflexivity; try (intros HH; discriminate HH).
Qed.

(* the variant LiveTable is the model's plugin_pre; it never touches the index *)
Lemma plugin_pre_live ix r hs : plugin_pre_v LiveTable ix r hs = (ix, plugin_pre r hs).
Proof.
  unfold plugin_pre_v, plugin_pre. destruct (rGqa r) as [g|]; [|reflexivity].
  cbn [lookup_v]. reflexivity.
Qed.

Lemma table_in_force_live : table_in_force LiveTable.
Proof.
  intros h. induction h as [|[r hs] rest IH]; intros ix; [reflexivity|].
  cbn [run_pre_v map fst snd]. rewrite plugin_pre_live. rewrite IH. reflexivity.
Qed.

Lemma table_in_force_indexed_refuted : ~ table_in_force IndexedPerName.
Proof.
  intros H. specialize (H rl_history []). vm_compute in H. discriminate H.
Qed.
