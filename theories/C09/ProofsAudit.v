(* C09 — lemmas for the statements added after the audit:
     A. the limit in force is the nominal one until spill-over is first enabled (F-C09c)
     B. windows inside the window left open by a size change
     C. the plugin: histories of OnRequest calls
   Final statements are in Property.v. *)
From Coq Require Import List ZArith Bool Lia.
From Verif Require Import C09.Model C09.Spec C09.Proofs.
Import ListNotations.
Open Scope Z_scope.

(* ================================================================== *)
(** * A. Nominal limit                                                  *)

Lemma run_single_wd_snd h : forall o, map snd (run_single_wd o h) = run_single o h.
Proof.
  induction h as [|ev r IH]; intros o; [reflexivity|].
  cbn [run_single_wd run_single]. destruct (step_single o ev) as [o' es] eqn:E.
  rewrite map_app, IH. f_equal.
  destruct ev as [now wd|now].
  - rewrite map_map. cbn. apply map_id.
  - cbn in E. injection E as _ <-. reflexivity.
Qed.

Lemma spill_free_iff l : spill_freeb l = true <-> spill_free l.
Proof.
  unfold spill_freeb, spill_free. rewrite forallb_forall, Forall_forall.
  split; intros H x Hx; specialize (H x Hx); destruct (wSpillOn (fst x)); cbn in *; congruence.
Qed.

Lemma try_inc_spill_off now wd s :
  spill s = 0 -> wSpillOn wd = false ->
  spill (fst (try_inc now wd s)) = 0 /\ wSpillOn (swd (fst (try_inc now wd s))) = false.
Proof.
  intros H1 H2. unfold try_inc. destruct (wW wd =? 0); [cbn; split; assumption|].
  cbn zeta. pose proof (ensure_spill_off now (with_wd s wd) H1 H2) as [E1 E2].
  destruct (_ <=? _); cbn [fst spill swd]; split; assumption.
Qed.

Lemma limit_at_spill_off now wd s :
  spill s = 0 -> wSpillOn wd = false -> limit_at now wd s = nominal wd.
Proof.
  intros H1 H2. unfold limit_at, nominal.
  destruct (ensure_spill_off now (with_wd s wd) H1 H2) as [E _]. rewrite E, Z.add_0_r. reflexivity.
Qed.

Lemma or_init_spill_off o : spill_off o -> spill (or_init o) = 0.
Proof. destruct o as [s|]; cbn; [intros [H _]; exact H | reflexivity]. Qed.

(* as long as no request had spill-over enabled the limit in force is the nominal one *)
Lemma run_wd_nominal h : forall o, spill_off o ->
  forall pre wd e post, run_single_wd o h = pre ++ (wd, e) :: post ->
    spill_free (pre ++ [(wd, e)]) -> s_verdict e <> Panic -> s_lim e = nominal wd.
Proof.
  induction h as [|ev r IH]; intros o HO pre wd e post HR HF HV.
  { destruct pre; discriminate. }
  cbn [run_single_wd] in HR. destruct ev as [now wd'|now].
  - cbn [step_single] in HR.
    destruct (try_inc now wd' (or_init o)) as [s' v] eqn:ET. cbn [map app] in HR.
    destruct pre as [|p pre']; cbn [app] in HR, HF.
    + injection HR as <- <- _. cbn [s_verdict s_lim] in *.
      inversion HF as [|? ? Hwd _]; subst. cbn [fst] in Hwd.
      destruct v; try (apply limit_at_spill_off; [apply or_init_spill_off; exact HO | exact Hwd]).
      contradiction.
    + injection HR as <- HR. inversion HF as [|? ? Hwd HF']; subst. cbn [fst] in Hwd.
      eapply (IH (Some s')); [|exact HR|exact HF'|exact HV].
      replace s' with (fst (try_inc now wd' (or_init o))) by (rewrite ET; reflexivity).
      cbn [spill_off]. apply try_inc_spill_off; [apply or_init_spill_off; exact HO | exact Hwd].
  - cbn [step_single app] in HR. eapply (IH (option_map (peek now) o)); try eassumption.
    destruct o as [s|]; cbn [option_map spill_off] in *; [|exact I].
    destruct HO as [H1 H2]. unfold peek. destruct (wW (swd s) =? 0); [split; assumption|].
    apply ensure_spill_off; assumption.
Qed.

Lemma judged_entries h k :
  key_valid k = true -> map snd (judged k h) = entries_of k (run_map [] h).
Proof. intros Hk. unfold judged. rewrite run_single_wd_snd. symmetry. exact (project_run h [] k Hk). Qed.

Lemma judged_split h k pre wd e post :
  key_valid k = true -> judged k h = pre ++ (wd, e) :: post ->
  entries_of k (run_map [] h) = map snd pre ++ e :: map snd post.
Proof.
  intros Hk E. rewrite <- (judged_entries h k Hk), E, map_app. reflexivity.
Qed.

Lemma map_nominal_right h k W :
  0 < W -> key_valid k = true ->
  const_window W (project k h) -> mono (map sev_now (project k h)) ->
  nominal_right spill_free W (judged k h).
Proof.
  intros HW Hk HC HM pre wd e post j E HP _ HF HI.
  pose proof (map_grid_bound h k W HW Hk HC HM) as HB.
  specialize (HB (map snd pre) e (map snd post) j (judged_split h k pre wd e post Hk E) HP
                 (or_introl (Z.divide_0_r W)) HI).
  rewrite (run_wd_nominal (project k h) None I pre wd e post E HF) in HB; [exact HB|].
  unfold is_pass in HP. destruct (s_verdict e); discriminate.
Qed.

Lemma map_nominal_rejections h k W :
  0 < W -> key_valid k = true ->
  const_window W (project k h) -> mono_from 0 (map sev_now (project k h)) ->
  nominal_rejections spill_free W (judged k h).
Proof.
  intros HW Hk HC HM pre wd e post E HV Hpos _ HF.
  destruct (map_rejected_used_up h k W (map snd pre) e (map snd post) HW Hk HC HM
              (judged_split h k pre wd e post Hk E) HV Hpos) as (j & Hj & Hc).
  exists j. split; [exact Hj|].
  rewrite <- (run_wd_nominal (project k h) None I pre wd e post E HF); [exact Hc|].
  rewrite HV. discriminate.
Qed.

(* ================================================================== *)
(** * B. Windows inside the window left open by a size change           *)

Definition count_all (tr : list sentry) : Z := count (fun _ => true) tr.

Lemma count_le_all p tr : count p tr <= count_all tr.
Proof.
  unfold count_all. induction tr as [|e r IH]; cbn [count]; [lia|].
  destruct (is_pass e); cbn [andb]; [|lia]. destruct (p (s_now e)); lia.
Qed.

Lemma run_single_nows h : forall o lo, mono_from lo (map sev_now h) ->
  Forall (fun e => lo <= s_now e) (run_single o h).
Proof.
  induction h as [|ev r IH]; intros o lo HM; [constructor|].
  cbn [map mono_from] in HM. destruct HM as [Hlo HMr].
  cbn [run_single]. destruct (step_single o ev) as [o' es] eqn:E.
  apply Forall_app. split.
  - destruct ev as [now wd|now]; cbn [step_single] in E.
    + destruct (try_inc now wd (or_init o)) as [s' v]. injection E as _ <-.
      constructor; [exact Hlo | constructor].
    + injection E as _ <-. constructor.
  - eapply Forall_impl; [|apply (IH o' (sev_now ev) HMr)]. cbn. intros; lia.
Qed.

Section Stale.
  Variable W B : Z.
  Hypothesis HW : 0 < W.

  (* while the clock has not passed B the window that ends at B stays open: the counter
     counts every request that proceeded *)
  Lemma single_bound_stale h : forall s pre lo,
    wend s = B -> wW (swd s) = W -> count_all pre <= cnt s ->
    const_window W h -> mono_from lo (map sev_now h) ->
    forall mid e post, run_single (Some s) h = mid ++ e :: post -> is_pass e = true ->
      s_now e <= B -> count_all (pre ++ mid ++ [e]) <= s_lim e.
  Proof.
    induction h as [|ev r IH]; intros s pre lo HB HS HC HCW HM mid e post HR HP HE.
    { cbn in HR. destruct mid; discriminate. }
    inversion HCW as [|? ? Hev HCr]; subst. cbn [map mono_from] in HM. destruct HM as [Hlo HMr].
    assert (Hlater : forall o, Forall (fun x => sev_now ev <= s_now x) (run_single o r)).
    { intros o. apply run_single_nows. exact HMr. }
    destruct ev as [now wd|now]; cbn [sev_now] in *.
    - cbn [run_single step_single or_init] in HR.
      destruct (try_inc now wd s) as [s' v] eqn:ET. cbn [app] in HR.
      assert (Hnow : now <= wend s).
      { destruct mid as [|x mid]; cbn [app] in HR; injection HR as HR1 HR2.
        - subst e. cbn in HE. lia.
        - specialize (Hlater (Some s')). rewrite HR2 in Hlater.
          apply Forall_app in Hlater. destruct Hlater as [_ Hl]. inversion Hl; subst. lia. }
      assert (Hnz : wW wd <> 0) by lia.
      assert (Hens : ensure now (with_wd s wd) = with_wd s wd).
      { destruct (ensure_cases now (with_wd s wd)) as [(Hlt & _)|(_ & Eq)]; [cbn in Hlt; lia | exact Eq]. }
      destruct (try_inc_cases now wd s Hnz) as [(Hc & E)|(Hc & E)];
        rewrite Hens in Hc, E; rewrite E in ET; inversion ET; subst s' v; clear ET.
      + (* rejected *)
        destruct mid as [|x mid]; cbn [app] in HR; injection HR as HR1 HR2.
        * subst e. discriminate.
        * subst x. replace (pre ++ (_ :: mid) ++ [e]) with ((pre ++ [{| s_now := now; s_verdict := Block;
              s_lim := limit_at now wd s |}]) ++ mid ++ [e]) by (rewrite <- app_assoc; reflexivity).
          eapply (IH (with_wd s wd) _ now); try eassumption; try reflexivity.
          unfold count_all in *. rewrite count_app, count_nonpass by reflexivity. cbn [with_wd cnt]. lia.
      + (* proceeded *)
        destruct mid as [|x mid]; cbn [app] in HR; injection HR as HR1 HR2.
        * subst e. cbn [s_lim app]. unfold count_all in *. rewrite count_app.
          pose proof (count_le_1 (fun _ => true) {| s_now := now; s_verdict := Proceed; s_lim := limit_at now wd s |}).
          cbn [with_wd cnt] in Hc. lia.
        * subst x. replace (pre ++ (_ :: mid) ++ [e]) with ((pre ++ [{| s_now := now; s_verdict := Proceed;
              s_lim := limit_at now wd s |}]) ++ mid ++ [e]) by (rewrite <- app_assoc; reflexivity).
          eapply (IH {| cnt := cnt (with_wd s wd) + 1; spill := spill (with_wd s wd);
                       wend := wend (with_wd s wd); swd := wd |} _ now); try eassumption; try reflexivity.
          unfold count_all in *. rewrite count_app. cbn [cnt with_wd].
          pose proof (count_le_1 (fun _ => true) {| s_now := now; s_verdict := Proceed; s_lim := limit_at now wd s |}).
          lia.
    - cbn [run_single step_single app option_map] in HR.
      assert (Hnow : now <= wend s).
      { specialize (Hlater (Some (peek now s))). rewrite HR in Hlater.
        apply Forall_app in Hlater. destruct Hlater as [_ Hl]. inversion Hl; subst. lia. }
      assert (Hp : peek now s = s).
      { unfold peek. destruct (wW (swd s) =? 0); [reflexivity|].
        destruct (ensure_cases now s) as [(Hlt & _)|(_ & Eq)]; [lia | exact Eq]. }
      rewrite Hp in HR. eapply (IH s pre now); try eassumption; reflexivity.
  Qed.
End Stale.

Lemma single_bounded_resized_tight W h s1 :
  0 < W -> wW (swd s1) = W -> 0 <= cnt s1 -> const_window W h -> mono (map sev_now h) ->
  bounded_right_tight W (wend s1) (run_single (Some s1) h).
Proof.
  intros HW HS Hc HC HM pre e post k HR HP [G|G] I.
  - exact (single_bounded_resized W h s1 HW HS Hc HC HM pre e post k HR HP G I).
  - destruct (mono_mono_from _ HM) as [lo Hlo].
    assert (HE : s_now e <= wend s1).
    { unfold in_right in I. apply andb_prop in I. destruct I as [_ I]. apply Z.leb_le in I. lia. }
    pose proof (single_bound_stale W (wend s1) HW h s1 [] lo eq_refl HS Hc HC Hlo pre e post HR HP HE) as Hb.
    cbn [app] in Hb. pose proof (count_le_all (in_right W k) (pre ++ [e])). lia.
Qed.

Lemma map_grid_bound_after_resize_tight h1 h2 k W s1 :
  0 < W -> key_valid k = true ->
  get (final_map [] h1) k = Some s1 -> wW (swd s1) = W ->
  const_window W (project k h2) -> mono (map sev_now (project k h2)) ->
  bounded_right_tight W (wend s1) (entries_of k (run_map (final_map [] h1) h2)).
Proof.
  intros HW Hk HG HS HC HM.
  rewrite (project_run h2 (final_map [] h1) k Hk), HG.
  apply single_bounded_resized_tight; try assumption.
  exact (final_cnt_nonneg h1 [] cnt_nonneg_empty k s1 HG).
Qed.

(* a rejection after the window left open by the size change has ended *)
Lemma map_rejected_used_up_after_resize h1 h2 k W s1 pre e post :
  0 < W -> key_valid k = true ->
  get (final_map [] h1) k = Some s1 -> wW (swd s1) = W ->
  const_window W (project k h2) -> mono_from 0 (map sev_now (project k h2)) ->
  entries_of k (run_map (final_map [] h1) h2) = pre ++ e :: post ->
  s_verdict e = Block -> wend s1 < s_now e ->
  exists j, in_closed W j (s_now e) = true /\ s_lim e <= count (in_closed W j) pre.
Proof.
  intros HW Hk HG HS HC HM HR HV HB.
  rewrite (project_run h2 (final_map [] h1) k Hk), HG in HR.
  assert (HI : InvEo W (wend s1) (Some s1) [] 0).
  { split; [exact HS | left; reflexivity]. }
  exact (single_exact W (wend s1) HW (project k h2) (Some s1) [] 0 HI (Z.le_refl 0) HC HM
           pre e post HR HV HB).
Qed.

(* ================================================================== *)
(** * C. The plugin                                                     *)

Definition out_of_verdict (status : Z) (v : verdict) : pout :=
  match v with Proceed => PNoOp | Block => PEarly status | Invalid => PErr | Panic => PPanic end.

(* OnRequest on a request that reaches a counter = the store step, verdict mapped to the action *)
Lemma plugin_step_limit m now r hs k rb :
  plugin_pre r hs = PreLimit k rb ->
  plugin_step m now r hs =
  (fst (step_map m now (AInc k (wd_of_remedy r rb))),
   match snd (step_map m now (AInc k (wd_of_remedy r rb))) with
   | e :: _ => out_of_verdict (status_of r) (e_verdict e)
   | [] => PErr
   end).
Proof.
  intros H. unfold plugin_step. rewrite H.
  destruct (step_map m now (AInc k (wd_of_remedy r rb))) as [m' es]. cbn [fst snd].
  destruct es as [|e es]; [reflexivity|]. destruct (e_verdict e); reflexivity.
Qed.

Lemma plugin_outcome m now r hs k rb :
  plugin_pre r hs = PreLimit k rb -> key_valid k = true -> wW (wd_of_remedy r rb) <> 0 ->
  let v := snd (try_inc now (wd_of_remedy r rb) (or_init (get m k))) in
  (v = Proceed /\ snd (plugin_step m now r hs) = PNoOp) \/
  (v = Block /\ snd (plugin_step m now r hs) = PEarly (status_of r)).
Proof.
  intros H Hk HW v. rewrite (plugin_step_limit m now r hs k rb H). cbn [step_map]. rewrite Hk.
  subst v. destruct (try_inc_cases now (wd_of_remedy r rb) (or_init (get m k)) HW) as [(_ & E)|(_ & E)];
    rewrite E; cbn; [right | left]; split; reflexivity.
Qed.

Lemma run_plugin_reqs_hist base rs reqs : forall m,
  run_plugin_reqs base rs m reqs =
  option_map (fun h => map (fun e => code_of_pout (p_out e)) (run_plugin_hist m h))
             (pevs_of_reqs base rs reqs).
Proof.
  induction reqs as [|[[now i] hs] rest IH]; intros m; [reflexivity|].
  cbn [run_plugin_reqs pevs_of_reqs]. destruct (nth_error rs i) as [r|]; [|reflexivity].
  destruct (plugin_step m (base + now) r hs) as [m' o] eqn:E. rewrite IH.
  destruct (pevs_of_reqs base rs rest) as [h|]; [|reflexivity].
  cbn [option_map run_plugin_hist]. rewrite E. reflexivity.
Qed.

(* what a key sees of a plugin history, against the store-level entries of the same key *)
Definition pmatch (pe : pentry) (se : sentry) : Prop :=
  p_now pe = s_now se /\ p_out pe = out_of_verdict (p_status pe) (s_verdict se).

Lemma plugin_hist_entries h : forall m k,
  Forall2 pmatch (pentries_of k (run_plugin_hist m h)) (entries_of k (run_map m (store_hist h))).
Proof.
  induction h as [|ev r IH]; intros m k; [constructor|].
  destruct ev as [now rm hs|now]; cbn [run_plugin_hist store_hist flat_map store_ev].
  - destruct (plugin_step m now rm hs) as [m' o] eqn:EP. unfold pkey_of.
    destruct (plugin_pre rm hs) as [o'|k' rb] eqn:EPre.
    + cbn [app pentries_of filter p_key reaches].
      rewrite (plugin_done_no_effect m now rm hs o' EPre) in EP. injection EP as <- <-. apply IH.
    + pose proof (plugin_step_limit m now rm hs k' rb EPre) as EL. rewrite EP in EL.
      fold (store_hist r). cbn [app run_map].
      destruct (step_map m now (AInc k' (wd_of_remedy rm rb))) as [m2 es] eqn:ES.
      cbn [fst snd] in EL. injection EL as -> ->.
      rewrite entries_of_app. cbn [pentries_of filter p_key reaches].
      assert (Hes : exists e, es = [e] /\ e_key e = k' /\ e_now e = now).
      { cbn [step_map] in ES. destruct (key_valid k').
        - destruct (try_inc _ _ _) as [s' v]. injection ES as _ <-. eexists. repeat split.
        - injection ES as _ <-. eexists. repeat split. }
      destruct Hes as (e & -> & Ek & En).
      unfold entries_of at 1. cbn [flat_map app]. rewrite Ek.
      destruct (key_eqb k k'); cbn [app]; [|apply IH].
      constructor; [|apply IH]. split; cbn; [symmetry; exact En | reflexivity].
  - fold (store_hist r). cbn [app run_map]. cbn [step_map fst]. cbn [app]. apply IH.
Qed.

Lemma pcount_match p ps ss :
  Forall2 pmatch ps ss ->
  Forall (fun se => s_verdict se = Proceed \/ s_verdict se = Block) ss ->
  pcount p ps = count p ss /\ Forall (fun e => p_out e = PNoOp \/ p_out e = PEarly (p_status e)) ps.
Proof.
  induction 1 as [|pe se ps ss [Hn Ho] _ IH]; intros HV; [split; [reflexivity | constructor]|].
  inversion HV as [|? ? Hv HVr]; subst. destruct (IH HVr) as [IH1 IH2].
  cbn [pcount count]. rewrite IH1, Ho, Hn. unfold is_pass.
  destruct Hv as [Hv|Hv]; rewrite Hv in *; cbn [out_of_verdict verdict_eqb andb] in *;
    (split; [reflexivity | constructor; [|exact IH2]]).
  - left. exact Ho.
  - right. exact Ho.
Qed.

(* the sub-history key k sees of the store-level history = the events that concern it *)
Lemma project_store_hist k h :
  map sev_now (project k (store_hist h)) = map pev_now (filter (concerns k) h).
Proof.
  induction h as [|ev r IH]; [reflexivity|].
  unfold store_hist. cbn [flat_map]. fold (store_hist r).
  unfold project. rewrite flat_map_app. fold (project k (store_hist r)). rewrite map_app, IH.
  destruct ev as [now rm hs|now]; cbn [store_ev concerns filter].
  - unfold pkey_of. destruct (plugin_pre rm hs) as [o|k' rb]; cbn [flat_map reaches app map]; [reflexivity|].
    cbn [snd fst]. destruct (key_eqb k k'); reflexivity.
  - reflexivity.
Qed.

Lemma project_store_const k wd h :
  plugin_requests_use k wd h -> const_data wd (project k (store_hist h)).
Proof.
  intros HU. induction HU as [|ev r Hev _ IH]; [constructor|].
  unfold store_hist. cbn [flat_map]. fold (store_hist r).
  unfold project. rewrite flat_map_app. fold (project k (store_hist r)).
  apply Forall_app. split; [|exact IH].
  destruct ev as [now rm hs|now]; cbn [store_ev].
  - destruct (plugin_pre rm hs) as [o|k' rb] eqn:E; cbn [flat_map app snd fst]; [constructor|].
    destruct (key_eqb k k') eqn:Ek; [|constructor].
    apply key_eqb_eq in Ek. constructor; [|constructor]. apply (Hev k' rb eq_refl). congruence.
  - cbn. constructor; [exact I | constructor].
Qed.

(* with non-zero window sizes and a valid key every entry of the key is Proceed or Block *)
Lemma run_single_verdicts h : forall o,
  Forall (fun ev => match ev with SInc _ wd => wW wd <> 0 | SPeek _ => True end) h ->
  Forall (fun se => s_verdict se = Proceed \/ s_verdict se = Block) (run_single o h).
Proof.
  induction h as [|ev r IH]; intros o HF; [constructor|].
  inversion HF as [|? ? Hev HFr]; subst.
  destruct ev as [now wd|now]; cbn [run_single step_single].
  - destruct (try_inc now wd (or_init o)) as [s' v] eqn:ET. cbn [app].
    constructor; [|apply IH; exact HFr]. cbn [s_verdict].
    destruct (try_inc_cases now wd (or_init o) Hev) as [(_ & E)|(_ & E)]; rewrite E in ET;
      injection ET as _ <-; [right | left]; reflexivity.
  - cbn [app]. apply IH. exact HFr.
Qed.

Lemma plugin_window_bound h k wd :
  0 < wW wd -> wSpillOn wd = false -> key_valid k = true ->
  plugin_requests_use k wd h -> mono (map pev_now (filter (concerns k) h)) ->
  (forall j, pcount (in_right (wW wd) j) (pentries_of k (run_plugin_hist [] h)) <= nominal wd) /\
  Forall (fun e => p_out e = PNoOp \/ p_out e = PEarly (p_status e))
         (pentries_of k (run_plugin_hist [] h)).
Proof.
  intros HW Hs Hk HU HM.
  pose proof (plugin_hist_entries h [] k) as HF2.
  pose proof (project_store_const k wd h HU) as HC.
  assert (HV : Forall (fun se => s_verdict se = Proceed \/ s_verdict se = Block)
                      (entries_of k (run_map [] (store_hist h)))).
  { rewrite (project_run (store_hist h) [] k Hk). apply run_single_verdicts.
    eapply Forall_impl; [|exact HC]. intros [now wd'|now]; [intros ->; lia | trivial]. }
  split.
  - intros j. destruct (pcount_match (in_right (wW wd) j) _ _ HF2 HV) as [-> _].
    apply map_grid_bound_const; try assumption. rewrite project_store_hist. exact HM.
  - destruct (pcount_match (fun _ => true) _ _ HF2 HV) as [_ H]. exact H.
Qed.

(* one configuration version of remedy r, group header value v listed in its table: every
   request that reaches the key of (r, v) carries the window data of r with v's percentage *)
Lemma one_version_uses r g v pct h :
  rGqa r = Some g -> find_alloc (gGroups g) v = Some pct ->
  Forall (fun e => match e with
                   | PReq _ r' hs => rName r' = rName r ->
                                     r' = r /\ (trim (header hs (gHeader g)) = trim v ->
                                                header hs (gHeader g) = v)
                   | PCol _ => True
                   end) h ->
  plugin_requests_use {| kLimiter := rName r; kGrouped := true;
                         kGroup := lower (gHeader g) ++ [58] ++ trim v |}
                      (wd_of_remedy r (ratio_of_pct_bits pct)) h.
Proof.
  intros Hg Hf HF. eapply Forall_impl; [|exact HF].
  intros [now r' hs|now]; [|trivial]. intros H k' rb Hpre ->.
  destruct (plugin_pre_limit r' hs _ rb Hpre) as [HL HG]. cbn [kLimiter] in HL.
  destruct (H (eq_sym HL)) as [-> Hv]. rewrite Hg in HG. destruct HG as [_ HG]. cbn [kGroup] in HG.
  apply app_inv_head in HG. apply app_inv_head in HG. specialize (Hv (eq_sym HG)).
  unfold plugin_pre in Hpre. rewrite Hg, Hv, Hf in Hpre. injection Hpre; intros; subst; reflexivity.
Qed.
