(* C09 — the hand-written model equals what the translator reads off the source.

   theories/C09/Gen.v is regenerated from the current tree by /verif/gotocoq on
   every check run (singleRateLimitState.ensureWindowIsUpdated, TryToIncrement,
   Counter).  The theorems below are simulation squares

        repr (Gen.f s args) = Model.f (repr s) args          for ALL s, args

   between the generated definitions and Model.ensure / try_inc / peek (Counter: of the
   tree with patches/C09/fix-F-C09b.patch).  They are
   proved, not sampled: when an operator, the order of two effects or what is
   stored on a path changes in the Go source, Gen.v changes and these proofs stop
   compiling.

   Not translated (tied by the differential suites only): scaledQuota enters the
   generated definitions as a function parameter; RateLimitState (the keyed
   store) and the plugin.

   The theorems are stated for ANY reading [rd] of the float64 bit pattern of
   QuotaAllocationRatio as parts per 1e9, with scaledQuota total ratio :=
   scaled_quota total (rd ratio); the model uses rd := snap (then the parameter
   is Model.limit_code, see [limit_code_is_instance]).  Stated this way the
   theorems do not mention Flocq's binary64 and are closed under the global
   context. *)
From Coq Require Import List ZArith Bool Lia.
From Verif Require Import Lib.GoSem C09.Model.
From Verif Require C09.Gen.
Import ListNotations.
Open Scope Z_scope.

(* ---------------------------------------------------------------- representation *)

(* limit.WindowData -> wdata: the float64 ratio is read as parts per 1e9 *)
Section Reading.
(* how the 64-bit pattern of the float64 ratio is read as parts per 1e9 (the
   model: snap); the theorems hold for every reading *)
Variable rd : Z -> Z.

Definition repr_wd (w : Gen.WindowData) : wdata :=
  {| wW := Gen.WindowData_WindowSize w;
     wAllowed := Gen.WindowData_AllowedRequestCount w;
     wParts := rd (Gen.WindowData_QuotaAllocationRatio w);
     wSpillOn := Gen.WindowData_SpilloverEnabled w;
     wRenew := Gen.WindowData_SpilloverRenewOnDay w |}.

Definition repr (s : Gen.srl) : st :=
  {| cnt := Gen.srl_counter s;
     spill := Gen.srl_spillover s;
     wend := Gen.srl_windowEndTime s;
     swd := repr_wd (Gen.srl_windowData s) |}.

Definition repr_verdict (c : Gen.CurrentState) : verdict :=
  match c with Gen.Block => Block | Gen.Proceed => Proceed end.

(* the result of TryToIncrement as the model reports it: a panic keeps the state
   reached so far *)
Definition repr_try (o : outcome Gen.srl Gen.CurrentLimitState) : st * verdict :=
  match o with
  | Panicked s => (repr s, Panic)
  | Normal s r => (repr s, repr_verdict (Gen.CurrentLimitState_LimitSate r))
  end.

Definition out_state {A} (o : outcome Gen.srl A) : Gen.srl :=
  match o with Panicked s => s | Normal s _ => s end.

(* scaledQuota as the model computes it, for a reading rd of the ratio *)
Definition quota_fn (total ratio : Z) : Z := scaled_quota total (rd ratio).

Definition size_of (s : Gen.srl) : Z := Gen.WindowData_WindowSize (Gen.srl_windowData s).

(* ---------------------------------------------------------------- ensureWindowIsUpdated *)

Lemma time_day_is_day_of_month t : time_day t = day_of_month t.
Proof. reflexivity. Qed.

Lemma gen_ensure_panics s now :
  size_of s = 0 -> Gen.ensureWindowIsUpdated s now = Panicked s.
Proof.
  unfold size_of, Gen.ensureWindowIsUpdated. intros ->. reflexivity.
Qed.

Lemma gen_ensure_normal s now :
  size_of s <> 0 ->
  exists s', Gen.ensureWindowIsUpdated s now = Normal s' tt
             /\ repr s' = ensure now (repr s)
             /\ Gen.srl_windowData s' = Gen.srl_windowData s.
Proof.
  unfold size_of. intros HW.
  destruct s as [c sp [W al ra so rday] we]. cbn in HW.
  unfold Gen.ensureWindowIsUpdated, ensure, repr, repr_wd.
  cbn [Gen.srl_counter Gen.srl_spillover Gen.srl_windowData Gen.srl_windowEndTime
       Gen.WindowData_WindowSize Gen.WindowData_AllowedRequestCount
       Gen.WindowData_QuotaAllocationRatio Gen.WindowData_SpilloverEnabled
       Gen.WindowData_SpilloverRenewOnDay cnt spill wend swd wW wAllowed wParts wSpillOn wRenew].
  destruct (W =? 0) eqn:EW; [apply Z.eqb_eq in EW; contradiction|].
  unfold time_after, time_add, time_sub. rewrite time_day_is_day_of_month.
  change Gen.epochTime with 0. rewrite Z.sub_0_r, Z.add_0_l.
  destruct (we <? now) eqn:Ewe.
  - destruct so; cbn [andb].
    + destruct (we =? 0) eqn:E0; cbn [negb].
      * eexists; split; [reflexivity|]. cbn. split; reflexivity.
      * destruct (day_of_month now =? rday) eqn:Ed.
        -- eexists; split; [reflexivity|]. cbn. split; reflexivity.
        -- eexists; split; [reflexivity|]. cbn. split; reflexivity.
    + eexists; split; [reflexivity|]. cbn. split; reflexivity.
  - eexists; split; [reflexivity|]. cbn. split; reflexivity.
Qed.

(* the square for ensureWindowIsUpdated: it panics exactly when the stored window
   size is zero (the model's [ensure] is only used for a non-zero size) *)
Theorem C09_gen_ensureWindowIsUpdated : forall s now,
  match Gen.ensureWindowIsUpdated s now with
  | Panicked s' => wW (swd (repr s)) = 0 /\ s' = s
  | Normal s' _ => wW (swd (repr s)) <> 0 /\ repr s' = ensure now (repr s)
  end.
Proof.
  intros s now. destruct (Z.eq_dec (size_of s) 0) as [H0|H0].
  - rewrite (gen_ensure_panics s now H0). split; [exact H0|reflexivity].
  - destruct (gen_ensure_normal s now H0) as (s' & -> & Hr & _). split; [exact H0|exact Hr].
Qed.

(* ---------------------------------------------------------------- TryToIncrement *)

Theorem C09_gen_TryToIncrement : forall s wd now,
  repr_try (Gen.TryToIncrement quota_fn s wd now) = try_inc now (repr_wd wd) (repr s).
Proof.
  intros s wd now. unfold Gen.TryToIncrement, try_inc.
  set (s0 := Gen.set_srl_windowData wd s).
  assert (Hs0 : repr s0 = with_wd (repr s) (repr_wd wd)) by reflexivity.
  assert (Hsz : size_of s0 = wW (repr_wd wd)) by reflexivity.
  destruct (wW (repr_wd wd) =? 0) eqn:EW.
  - apply Z.eqb_eq in EW. rewrite (gen_ensure_panics s0 now) by (rewrite Hsz; exact EW).
    cbn [repr_try]. now rewrite Hs0.
  - apply Z.eqb_neq in EW.
    destruct (gen_ensure_normal s0 now) as (s1 & -> & Hr & Hwd); [rewrite Hsz; exact EW|].
    rewrite <- Hs0, <- Hr.
    assert (Hlim : quota_fn (Gen.WindowData_AllowedRequestCount wd + Gen.srl_spillover s1)
                              (Gen.WindowData_QuotaAllocationRatio wd)
                   = scaled_quota (wAllowed (repr_wd wd) + spill (repr s1)) (wParts (repr_wd wd)))
      by reflexivity.
    rewrite Hlim. change (cnt (repr s1)) with (Gen.srl_counter s1).
    destruct (scaled_quota (wAllowed (repr_wd wd) + spill (repr s1)) (wParts (repr_wd wd))
              <=? Gen.srl_counter s1) eqn:El.
    + reflexivity.
    + cbn [repr_try Gen.CurrentLimitState_LimitSate repr_verdict]. f_equal.
      unfold repr. destruct s1 as [c1 sp1 wd1 we1]. cbn in Hwd. subst wd1. reflexivity.
Qed.

(* the counter TryToIncrement reports is the stored one *)
Theorem C09_gen_TryToIncrement_counter : forall s wd now s' r,
  Gen.TryToIncrement quota_fn s wd now = Normal s' r ->
  Gen.CurrentLimitState_NewCounter r = cnt (repr s').
Proof.
  intros s wd now s' r. unfold Gen.TryToIncrement.
  destruct (Gen.ensureWindowIsUpdated (Gen.set_srl_windowData wd s) now) as [s1 u|s1]; [|discriminate].
  destruct (_ <=? _); intros H; inversion H; subst; reflexivity.
Qed.

(* ---------------------------------------------------------------- Counter *)

(* Counter() of the tree with patches/C09/fix-F-C09b.patch: it never panics -- on a state
   whose window size is still 0 (registered by getLimiterState, window data not stored yet)
   it returns the counter as it is, which is what Model.peek says.  On the unpatched tree
   the generated Counter is [Panicked] there and this proof does not compile. *)
Theorem C09_gen_Counter : forall s now,
  exists s', Gen.Counter s now = Normal s' (cnt (peek now (repr s))) /\
             repr s' = peek now (repr s).
Proof.
  intros s now. unfold Gen.Counter, peek.
  change (wW (swd (repr s))) with (size_of s).
  change (Gen.WindowData_WindowSize (Gen.srl_windowData s)) with (size_of s).
  destruct (size_of s =? 0) eqn:E.
  - exists s. split; reflexivity.
  - apply Z.eqb_neq in E. destruct (gen_ensure_normal s now E) as (s' & -> & Hr & _).
    exists s'. rewrite <- Hr. split; reflexivity.
Qed.

End Reading.
Print Assumptions C09_gen_Counter.

(* the model's instance: rd = snap, scaledQuota = limit_code (this lemma mentions
   Flocq's binary64 and therefore rests on the axioms named in props/C09.json) *)
Lemma limit_code_is_instance : quota_fn snap = limit_code.
Proof. reflexivity. Qed.
