(* C09 — lemmas about the registry machine (Registry.v):
     A. lists, registry map
     B. one limiter: total run function, link with Model.run_single
     C. HEAD: every schedule refines the single-limiter runs (invariant)
     D. clock readings of the lock regions
     E. window data of the lock regions come from the requests
     F. metrics collections erased from a schedule
     G. Counters() and later verdicts of one limiter
     H. the snapshot-and-prune variant *)
From Coq Require Import List ZArith Bool Arith Lia.
From Verif Require Import C09.Model C09.Spec C09.Proofs C09.Registry.
Import ListNotations.
Open Scope Z_scope.

(* ================================================================== *)
(** * A. Lists and the registry map                                     *)

Lemma nth_error_upd {A : Type} (l : list A) : forall i x j y,
  nth_error l i = Some y ->
  nth_error (upd l i x) j = if Nat.eqb j i then Some x else nth_error l j.
Proof.
  induction l as [|a r IH]; intros i x j y H.
  - destruct i; discriminate.
  - destruct i as [|i]; destruct j as [|j]; cbn in *; try reflexivity.
    eapply IH. exact H.
Qed.

Lemma upd_cases {A : Type} (l : list A) i x j y t :
  nth_error l i = Some y -> nth_error (upd l i x) j = Some t ->
  (j = i /\ t = x) \/ (j <> i /\ nth_error l j = Some t).
Proof.
  intros H1 H2. rewrite (nth_error_upd l i x j y H1) in H2.
  destruct (Nat.eqb j i) eqn:E.
  - left. apply Nat.eqb_eq in E. split; [exact E | congruence].
  - right. apply Nat.eqb_neq in E. split; assumption.
Qed.

Lemma length_upd {A : Type} (l : list A) : forall i x, length (upd l i x) = length l.
Proof. induction l as [|a r IH]; intros [|i] x; cbn; try reflexivity. rewrite IH. reflexivity. Qed.

Lemma nth_upd_same {A : Type} (l : list A) : forall p x d, (p < length l)%nat -> nth p (upd l p x) d = x.
Proof.
  induction l as [|a r IH]; intros [|p] x d H; cbn in *; try lia; try reflexivity.
  apply IH. lia.
Qed.

Lemma nth_upd_other {A : Type} (l : list A) : forall p q x d, p <> q -> nth q (upd l p x) d = nth q l d.
Proof.
  induction l as [|a r IH]; intros [|p] [|q] x d H; cbn; try reflexivity; try congruence.
  apply IH. congruence.
Qed.

Lemma In_remove_nth {A : Type} (l : list A) : forall i x, In x (remove_nth l i) -> In x l.
Proof.
  induction l as [|a r IH]; intros [|i] x H; cbn in *; try contradiction.
  - right. exact H.
  - destruct H as [H|H]; [left; exact H | right; eapply IH; exact H].
Qed.

Lemma rget_app m k k' p :
  rget (m ++ [(k', p)]) k =
  match rget m k with Some q => Some q | None => if key_eqb k k' then Some p else None end.
Proof.
  induction m as [|[k0 p0] r IH]; cbn; [reflexivity|].
  destruct (key_eqb k k0); [reflexivity | exact IH].
Qed.

Lemma key_eqb_false_neq a b : key_eqb a b = false -> a <> b.
Proof. intros H ->. rewrite key_eqb_refl in H. discriminate. Qed.

Lemma log_of_app k a b : log_of k (a ++ b) = log_of k a ++ log_of k b.
Proof. unfold log_of. apply flat_map_app. Qed.

Lemma log_of_one k k' e : log_of k [(k', e)] = if key_eqb k k' then [e] else [].
Proof. unfold log_of. cbn. destruct (key_eqb k k'); reflexivity. Qed.

Lemma entries_of_one k e :
  entries_of k [e] = if key_eqb k (e_key e)
                     then [{| s_now := e_now e; s_verdict := e_verdict e; s_lim := e_lim e |}] else [].
Proof. unfold entries_of. cbn. destruct (key_eqb k (e_key e)); reflexivity. Qed.

(* ================================================================== *)
(** * B. One limiter                                                    *)

Lemma peek_init now : peek now init = init.
Proof. reflexivity. Qed.

Lemma run_single_srun h : forall o, run_single o h = srun (or_init o) h.
Proof.
  induction h as [|e r IH]; intros o; [reflexivity|].
  destruct e as [now wd|now]; cbn [run_single step_single srun sstep].
  - destruct (try_inc now wd (or_init o)) as [s' v]. cbn [fst snd]. rewrite IH. reflexivity.
  - cbn [fst snd app]. rewrite IH. destruct o as [s|]; reflexivity.
Qed.

Lemma srun_app h1 : forall s h2, srun s (h1 ++ h2) = srun s h1 ++ srun (sfinal s h1) h2.
Proof.
  induction h1 as [|e r IH]; intros s h2; [reflexivity|].
  cbn [app srun sfinal]. rewrite IH, app_assoc. reflexivity.
Qed.

Lemma sfinal_app h1 : forall s h2, sfinal s (h1 ++ h2) = sfinal (sfinal s h1) h2.
Proof. induction h1 as [|e r IH]; intros s h2; [reflexivity|]. cbn [app sfinal]. apply IH. Qed.

(* ================================================================== *)
(** * C. HEAD: the invariant                                            *)

Definition state_of (c : config) (k : key) : st :=
  match rget (c_map c) k with Some p => nth p (c_heap c) init | None => init end.

Record Inv (c : config) : Prop := {
  inv_bound : forall k p, rget (c_map c) k = Some p -> (p < length (c_heap c))%nat;
  inv_inj : forall k1 k2 p, rget (c_map c) k1 = Some p -> rget (c_map c) k2 = Some p -> k1 = k2;
  inv_in : forall k p, In (k, p) (c_map c) -> rget (c_map c) k = Some p;
  inv_have : forall i k wd p,
      nth_error (c_threads c) i = Some (TReq k wd (RHave p)) -> rget (c_map c) k = Some p;
  inv_todo : forall i todo acc idle k p,
      nth_error (c_threads c) i = Some (TCol (CWork todo acc idle)) ->
      In (k, p) todo -> rget (c_map c) k = Some p;
  inv_state : forall k, sfinal init (log_of k (c_log c)) = state_of c k;
  inv_trace : forall k, key_valid k = true ->
      entries_of k (c_trace c) = srun init (log_of k (c_log c))
}.

Lemma inv_init ts : forallb initial ts = true -> Inv (init_config ts).
Proof.
  intros H. constructor; cbn; try discriminate; try contradiction; try reflexivity.
  - intros i k wd p E. apply nth_error_In in E.
    rewrite forallb_forall in H. apply H in E. discriminate.
  - intros i todo acc idle k p E. apply nth_error_In in E.
    rewrite forallb_forall in H. apply H in E. discriminate.
Qed.

(* a step that only moves a thread *)
Lemma inv_set_thread c i t t0 :
  Inv c -> nth_error (c_threads c) i = Some t0 ->
  (forall k wd p, t = TReq k wd (RHave p) -> rget (c_map c) k = Some p) ->
  (forall todo acc idle k p, t = TCol (CWork todo acc idle) -> In (k, p) todo ->
                             rget (c_map c) k = Some p) ->
  Inv (set_thread c i t).
Proof.
  intros I E H1 H2. destruct I as [Ib Ij Ii Ih It Is Ir].
  constructor; cbn [set_thread c_map c_heap c_threads c_trace c_log]; try assumption.
  - intros j k wd p Ej. destruct (upd_cases _ _ _ _ _ _ E Ej) as [[_ Eq]|[_ Eo]].
    + eapply H1. symmetry. exact Eq.
    + eapply Ih. exact Eo.
  - intros j todo acc idle k p Ej HIn. destruct (upd_cases _ _ _ _ _ _ E Ej) as [[_ Eq]|[_ Eo]].
    + eapply H2; [symmetry; exact Eq | exact HIn].
    + eapply It; [exact Eo | exact HIn].
Qed.

Lemma state_of_frame c c' k :
  c_map c' = c_map c ->
  (forall p, rget (c_map c) k = Some p -> nth p (c_heap c') init = nth p (c_heap c) init) ->
  state_of c' k = state_of c k.
Proof.
  intros Em Eh. unfold state_of. rewrite Em. destruct (rget (c_map c) k) as [p|] eqn:G; [|reflexivity].
  apply Eh. reflexivity.
Qed.

(* a lock region of limiter k0 (pointer p) that replaces its state by s' and logs e *)
Lemma inv_region c i t t0 k0 p s' e tr :
  Inv c -> nth_error (c_threads c) i = Some t0 ->
  rget (c_map c) k0 = Some p ->
  s' = fst (sstep (nth p (c_heap c) init) e) ->
  (forall k, key_valid k = true ->
             entries_of k tr = if key_eqb k k0 then snd (sstep (nth p (c_heap c) init) e) else []) ->
  (forall k wd q, t = TReq k wd (RHave q) -> rget (c_map c) k = Some q) ->
  (forall todo acc idle k q, t = TCol (CWork todo acc idle) -> In (k, q) todo ->
                             rget (c_map c) k = Some q) ->
  Inv {| c_map := c_map c; c_heap := upd (c_heap c) p s'; c_threads := upd (c_threads c) i t;
         c_trace := c_trace c ++ tr; c_log := c_log c ++ [(k0, e)] |}.
Proof.
  intros I E G Es Et H1 H2. pose proof I as [Ib Ij Ii Ih It Is Ir].
  pose proof (Ib _ _ G) as Hp.
  constructor; cbn [c_map c_heap c_threads c_trace c_log].
  - intros k q Gq. rewrite length_upd. eapply Ib. exact Gq.
  - exact Ij.
  - exact Ii.
  - intros j k wd q Ej. destruct (upd_cases _ _ _ _ _ _ E Ej) as [[_ Eq]|[_ Eo]].
    + eapply H1. symmetry. exact Eq.
    + eapply Ih. exact Eo.
  - intros j todo acc idle k q Ej HIn. destruct (upd_cases _ _ _ _ _ _ E Ej) as [[_ Eq]|[_ Eo]].
    + eapply H2; [symmetry; exact Eq | exact HIn].
    + eapply It; [exact Eo | exact HIn].
  - intros k. rewrite log_of_app, sfinal_app, Is, log_of_one.
    unfold state_of at 2. cbn [c_map c_heap].
    destruct (key_eqb k k0) eqn:Ek.
    + apply key_eqb_eq in Ek. subst k0. rewrite G. cbn [sfinal].
      unfold state_of. rewrite G. rewrite nth_upd_same by exact Hp. symmetry. exact Es.
    + cbn [sfinal]. unfold state_of. destruct (rget (c_map c) k) as [q|] eqn:Gq; [|reflexivity].
      rewrite nth_upd_other; [reflexivity|]. intros ->.
      apply key_eqb_false_neq in Ek. apply Ek. eapply Ij; eassumption.
  - intros k Hk. rewrite entries_of_app, (Ir k Hk), log_of_app, srun_app, (Et k Hk), Is, log_of_one.
    destruct (key_eqb k k0) eqn:Ek.
    + apply key_eqb_eq in Ek. subst k0. cbn [srun]. unfold state_of. rewrite G, app_nil_r. reflexivity.
    + reflexivity.
Qed.

Lemma step_head_inv c l c' : Inv c -> step Head c l = Some c' -> Inv c'.
Proof.
  intros I. pose proof I as [Ib Ij Ii Ih It Is Ir]. unfold step.
  destruct (nth_error (c_threads c) (l_tid l)) as [t|] eqn:E; [|discriminate].
  destruct t as [k wd pc|pc].
  - (* a request *)
    destruct pc as [| |p|v]; cbn [step_req].
    + destruct (reading (c_threads c)); [discriminate|]. intros [= <-].
      eapply inv_set_thread; try eassumption; intros; discriminate.
    + destruct (key_valid k) eqn:V; cbn [negb].
      * destruct (reg_locked Head (c_threads c)); [discriminate|].
        destruct (rget (c_map c) k) as [p|] eqn:G.
        -- intros [= <-]. eapply inv_set_thread; try eassumption; [|intros; discriminate].
           intros k1 wd1 p1 [= <- _ <-]. exact G.
        -- intros [= <-].
           assert (Hget : forall k1, rget (c_map c ++ [(k, length (c_heap c))]) k1 =
                                     if key_eqb k1 k then Some (length (c_heap c)) else rget (c_map c) k1).
           { intros k1. rewrite rget_app. destruct (key_eqb k1 k) eqn:E1.
             - apply key_eqb_eq in E1. subst k1. rewrite G. reflexivity.
             - destruct (rget (c_map c) k1); reflexivity. }
           assert (Hold : forall k1 p1, rget (c_map c) k1 = Some p1 ->
                                        rget (c_map c ++ [(k, length (c_heap c))]) k1 = Some p1).
           { intros k1 p1 G1. rewrite Hget. destruct (key_eqb k1 k) eqn:E1; [|exact G1].
             apply key_eqb_eq in E1. subst k1. congruence. }
           constructor; cbn [c_map c_heap c_threads c_trace c_log].
           ++ intros k1 p1. rewrite Hget, app_length. cbn [length].
              destruct (key_eqb k1 k); [intros [= <-]; lia|]. intros G1. apply Ib in G1. lia.
           ++ intros k1 k2 p1. rewrite !Hget.
              destruct (key_eqb k1 k) eqn:E1; destruct (key_eqb k2 k) eqn:E2.
              ** apply key_eqb_eq in E1, E2. congruence.
              ** intros [= <-] G2. apply Ib in G2. lia.
              ** intros G1 [= <-]. apply Ib in G1. lia.
              ** apply Ij.
           ++ intros k1 p1 HIn. apply in_app_or in HIn. destruct HIn as [HIn|[[= <- <-]|[]]].
              ** apply Hold. apply Ii. exact HIn.
              ** rewrite Hget, key_eqb_refl. reflexivity.
           ++ intros j k1 wd1 p1 Ej. destruct (upd_cases _ _ _ _ _ _ E Ej) as [[_ [= -> _ ->]]|[_ Eo]].
              ** rewrite Hget, key_eqb_refl. reflexivity.
              ** apply Hold. eapply Ih. exact Eo.
           ++ intros j todo acc idle k1 p1 Ej HIn.
              destruct (upd_cases _ _ _ _ _ _ E Ej) as [[_ [=]]|[_ Eo]].
              apply Hold. eapply It; eassumption.
           ++ intros k1. rewrite Is. unfold state_of. cbn [c_map c_heap]. rewrite Hget.
              destruct (key_eqb k1 k) eqn:E1.
              ** apply key_eqb_eq in E1. subst k1. rewrite G.
                 rewrite app_nth2 by lia. rewrite Nat.sub_diag. reflexivity.
              ** destruct (rget (c_map c) k1) as [p1|] eqn:G1; [|reflexivity].
                 rewrite app_nth1; [reflexivity|]. eapply Ib. exact G1.
           ++ exact Ir.
      * intros [= <-]. constructor; cbn [c_map c_heap c_threads c_trace c_log]; try assumption.
        -- intros j k1 wd1 p1 Ej. destruct (upd_cases _ _ _ _ _ _ E Ej) as [[_ [=]]|[_ Eo]].
           eapply Ih. exact Eo.
        -- intros j todo acc idle k1 p1 Ej HIn.
           destruct (upd_cases _ _ _ _ _ _ E Ej) as [[_ [=]]|[_ Eo]]. eapply It; eassumption.
        -- intros k1 Hk1. rewrite entries_of_app, entries_of_one. cbn [e_key].
           destruct (key_eqb k1 k) eqn:E1.
           ++ apply key_eqb_eq in E1. subst k1. congruence.
           ++ rewrite app_nil_r. apply Ir. exact Hk1.
    + (* the limiter region of a request *)
      pose proof (Ih _ _ _ _ E) as G.
      destruct (try_inc (l_now l) wd (nth p (c_heap c) init)) as [s' vd] eqn:ET.
      intros [= <-].
      eapply (inv_region c (l_tid l) _ _ k p s' (SInc (l_now l) wd)); try eassumption.
      * cbn [sstep]. rewrite ET. reflexivity.
      * intros k1 _. rewrite entries_of_one. unfold mk_entry. cbn [e_key e_now e_verdict e_lim sstep].
        rewrite ET. reflexivity.
      * intros; discriminate.
      * intros; discriminate.
    + discriminate.
  - (* a collection *)
    destruct pc as [| |todo acc idle|acc idle|out]; cbn [step_col].
    + intros [= <-]. eapply inv_set_thread; try eassumption; intros; discriminate.
    + destruct (reg_locked Head (c_threads c)); [discriminate|]. intros [= <-].
      eapply inv_set_thread; try eassumption; [intros; discriminate|].
      intros todo acc idle k p [= <- _ _] HIn. apply Ii. exact HIn.
    + destruct todo as [|x todo'].
      * intros [= <-]. eapply inv_set_thread; try eassumption; intros; discriminate.
      * destruct (nth_error (x :: todo') (l_pick l)) as [[k p]|] eqn:EP; [|discriminate].
        pose proof (It _ _ _ _ k p E (nth_error_In _ _ EP)) as G.
        cbn [divides andb]. intros [= <-].
        replace (c_trace c) with (c_trace c ++ []) by apply app_nil_r.
        eapply (inv_region c (l_tid l) _ _ k p _ (SPeek (l_now l))); try eassumption.
        -- reflexivity.
        -- intros k1 _. cbn. destruct (key_eqb k1 k); reflexivity.
        -- intros; discriminate.
        -- intros todo1 acc1 idle1 k1 q [= <- _ _] HIn.
           eapply It; [exact E|]. eapply In_remove_nth. exact HIn.
    + discriminate.
    + discriminate.
Qed.

Lemma run_head_inv sch : forall c c', Inv c -> run Head c sch = Some c' -> Inv c'.
Proof.
  induction sch as [|l r IH]; intros c c' I; cbn [run].
  - intros [= <-]. exact I.
  - destruct (step Head c l) as [c1|] eqn:ES; [|discriminate].
    apply IH. eapply step_head_inv; eassumption.
Qed.

(* every schedule of the HEAD machine: what a limiter key sees is the single-limiter run of
   its own lock regions *)
Lemma head_refines ts sch c' k :
  forallb initial ts = true -> run Head (init_config ts) sch = Some c' -> key_valid k = true ->
  entries_of k (c_trace c') = run_single None (log_of k (c_log c')).
Proof.
  intros Hi HR Hk. rewrite run_single_srun. cbn [or_init].
  apply (inv_trace c' (run_head_inv sch _ _ (inv_init ts Hi) HR) k Hk).
Qed.

(* ================================================================== *)
(** * D. Clock readings of the lock regions                             *)

Definition lognows (c : config) : list Z := map (fun ke => sev_now (snd ke)) (c_log c).

Lemma mono_from_weaken l : forall lo lo', lo' <= lo -> mono_from lo l -> mono_from lo' l.
Proof. destruct l as [|t r]; cbn; intros lo lo' H1 H2; [exact I|]. split; [lia | apply H2]. Qed.

Lemma mono_from_snoc l : forall lo t,
  mono_from lo l -> Forall (fun x => x <= t) l -> lo <= t -> mono_from lo (l ++ [t]).
Proof.
  induction l as [|x r IH]; intros lo t HM HF Hlo; cbn in *.
  - split; [exact Hlo | exact I].
  - inversion HF as [|? ? Hx HFr]; subst. split; [apply HM|]. apply IH; [apply HM | exact HFr | exact Hx].
Qed.

Lemma mono_snoc l t : mono l -> Forall (fun x => x <= t) l -> mono (l ++ [t]).
Proof.
  destruct l as [|x r]; cbn; intros HM HF; [exact I|].
  inversion HF as [|? ? Hx HFr]; subst. apply mono_from_snoc; assumption.
Qed.

Lemma mono_from_mono lo l : mono_from lo l -> mono l.
Proof. destruct l as [|t r]; cbn; [trivial|]. intros [_ H]. exact H. Qed.

Definition static (t : thread) : option (key * wdata) :=
  match t with TReq k wd _ => Some (k, wd) | TCol _ => None end.

Lemma map_upd_same {A B : Type} (f : A -> B) (l : list A) : forall i x y,
  nth_error l i = Some y -> f x = f y -> map f (upd l i x) = map f l.
Proof.
  induction l as [|a r IH]; intros [|i] x y H E; cbn in *; try discriminate.
  - injection H as ->. rewrite E. reflexivity.
  - rewrite (IH i x y H E). reflexivity.
Qed.

(* what one step does to the ghost log and to the static part of the threads *)
Lemma step_log v c l c' : step v c l = Some c' ->
  map static (c_threads c') = map static (c_threads c) /\
  (c_log c' = c_log c \/
   exists k e, c_log c' = c_log c ++ [(k, e)] /\ sev_now e = l_now l /\
               match e with
               | SInc _ wd => In (Some (k, wd)) (map static (c_threads c))
               | SPeek _ => True
               end).
Proof.
  unfold step. destruct (nth_error (c_threads c) (l_tid l)) as [t|] eqn:E; [|discriminate].
  assert (HS : forall t', static t' = static t ->
                          map static (upd (c_threads c) (l_tid l) t') = map static (c_threads c)).
  { intros t' Et. eapply map_upd_same; eassumption. }
  destruct t as [k wd pc|pc].
  - destruct pc as [| |p|vd]; cbn [step_req].
    + destruct (reading _); [discriminate|]. intros [= <-]. cbn. split; [apply HS; reflexivity | left; reflexivity].
    + destruct (negb (key_valid k)).
      * intros [= <-]. cbn. split; [apply HS; reflexivity | left; reflexivity].
      * destruct (reg_locked v _); [discriminate|]. destruct (rget _ _); intros [= <-]; cbn;
          (split; [apply HS; reflexivity | left; reflexivity]).
    + destruct (try_inc _ _ _) as [s' vd]. intros [= <-]. cbn. split; [apply HS; reflexivity|].
      right. exists k, (SInc (l_now l) wd). split; [reflexivity|]. split; [reflexivity|].
      apply nth_error_In in E. apply (in_map static) in E. exact E.
    + discriminate.
  - destruct pc as [| |todo acc idle|acc idle|out]; cbn [step_col].
    + intros [= <-]. cbn. split; [apply HS; reflexivity | left; reflexivity].
    + destruct (reg_locked v _); [discriminate|]. intros [= <-]. cbn.
      split; [apply HS; reflexivity | left; reflexivity].
    + destruct todo as [|x todo'].
      * destruct v; intros [= <-]; cbn; (split; [apply HS; reflexivity | left; reflexivity]).
      * destruct (nth_error (x :: todo') (l_pick l)) as [[k p]|]; [|discriminate].
        destruct (divides v && (wW (swd (nth p (c_heap c) init)) =? 0)).
        -- intros [= <-]. cbn. split; [apply HS; reflexivity | left; reflexivity].
        -- intros [= <-]. cbn. split; [apply HS; reflexivity|].
           right. exists k, (SPeek (l_now l)). repeat split.
    + destruct v; try discriminate. intros [= <-]. cbn. split; [apply HS; reflexivity | left; reflexivity].
    + discriminate.
Qed.

Lemma run_log_mono v sch : forall c c' cur,
  run v c sch = Some c' -> mono_from cur (map l_now sch) ->
  mono (lognows c) -> Forall (fun x => x <= cur) (lognows c) -> mono (lognows c').
Proof.
  induction sch as [|l r IH]; intros c c' cur HR HM Hm HF; cbn [run] in HR.
  - injection HR as <-. exact Hm.
  - destruct (step v c l) as [c1|] eqn:ES; [|discriminate].
    cbn [map] in HM. destruct HM as [Hc HMr].
    apply (IH c1 c' (l_now l) HR HMr).
    + destruct (step_log v c l c1 ES) as [_ [EL|(k & e & EL & En & _)]]; unfold lognows; rewrite EL.
      * exact Hm.
      * rewrite map_app. cbn [map snd]. rewrite En. apply mono_snoc; [exact Hm|].
        eapply Forall_impl; [|exact HF]. cbn. intros; lia.
    + destruct (step_log v c l c1 ES) as [_ [EL|(k & e & EL & En & _)]]; unfold lognows; rewrite EL.
      * eapply Forall_impl; [|exact HF]. cbn. intros; lia.
      * rewrite map_app. apply Forall_app. split.
        -- eapply Forall_impl; [|exact HF]. cbn. intros; lia.
        -- cbn. constructor; [lia | constructor].
Qed.

Lemma mono_log_of k lg : forall lo,
  mono_from lo (map (fun ke => sev_now (snd ke)) lg) -> mono_from lo (map sev_now (log_of k lg)).
Proof.
  induction lg as [|[k' e] r IH]; intros lo H; [exact I|].
  cbn [map snd] in H. destruct H as [H1 H2].
  change (log_of k ((k', e) :: r)) with ((if key_eqb k k' then [e] else []) ++ log_of k r).
  destruct (key_eqb k k'); cbn [app map].
  - split; [exact H1 | apply IH; exact H2].
  - eapply mono_from_weaken; [exact H1 | apply IH; exact H2].
Qed.

Lemma run_key_mono v ts sch c' k :
  run v (init_config ts) sch = Some c' -> mono (map l_now sch) ->
  mono (map sev_now (log_of k (c_log c'))).
Proof.
  intros HR HM. destruct (mono_mono_from _ HM) as [cur Hcur].
  pose proof (run_log_mono v sch (init_config ts) c' cur HR Hcur I (Forall_nil _)) as Hm.
  destruct (mono_mono_from _ Hm) as [lo Hlo]. unfold lognows in Hlo.
  eapply mono_from_mono. apply mono_log_of. exact Hlo.
Qed.

(* the same with a lower bound on the readings *)
Lemma run_log_ge v sch : forall c c' lo,
  run v c sch = Some c' -> Forall (fun l => lo <= l_now l) sch ->
  Forall (fun x => lo <= x) (lognows c) -> Forall (fun x => lo <= x) (lognows c').
Proof.
  induction sch as [|l r IH]; intros c c' lo HR HF HL; cbn [run] in HR.
  - injection HR as <-. exact HL.
  - destruct (step v c l) as [c1|] eqn:ES; [|discriminate].
    inversion HF as [|? ? Hl HFr]; subst.
    apply (IH c1 c' lo HR HFr).
    destruct (step_log v c l c1 ES) as [_ [EL|(k & e & EL & En & _)]]; unfold lognows; rewrite EL.
    + exact HL.
    + rewrite map_app. apply Forall_app. split; [exact HL|]. cbn. constructor; [lia | constructor].
Qed.

(* ================================================================== *)
(** * E. Window data of the lock regions come from the requests         *)

Definition log_src (ss : list (option (key * wdata))) (lg : list (key * sev)) : Prop :=
  Forall (fun ke => match snd ke with
                    | SInc _ wd => In (Some (fst ke, wd)) ss
                    | SPeek _ => True
                    end) lg.

Lemma run_log_src v sch : forall c c',
  run v c sch = Some c' -> log_src (map static (c_threads c)) (c_log c) ->
  map static (c_threads c') = map static (c_threads c) /\
  log_src (map static (c_threads c)) (c_log c').
Proof.
  induction sch as [|l r IH]; intros c c' HR HL; cbn [run] in HR.
  - injection HR as <-. split; [reflexivity | exact HL].
  - destruct (step v c l) as [c1|] eqn:ES; [|discriminate].
    destruct (step_log v c l c1 ES) as [Est HLg].
    assert (HL1 : log_src (map static (c_threads c1)) (c_log c1)).
    { rewrite Est. destruct HLg as [EL|(k & e & EL & _ & Hsrc)]; rewrite EL; [exact HL|].
      apply Forall_app. split; [exact HL|]. constructor; [|constructor]. cbn [snd fst].
      destruct e; [exact Hsrc | exact I]. }
    destruct (IH c1 c' HR HL1) as [E1 E2]. rewrite Est in E1, E2. split; assumption.
Qed.

Lemma log_src_const ss lg k wd :
  log_src ss lg ->
  (forall k' wd', In (Some (k', wd')) ss -> key_eqb k k' = true -> wd' = wd) ->
  const_data wd (log_of k lg).
Proof.
  intros HL HC. induction HL as [|[k' e] r He _ IH]; [constructor|].
  change (log_of k ((k', e) :: r)) with ((if key_eqb k k' then [e] else []) ++ log_of k r).
  destruct (key_eqb k k') eqn:Ek; cbn [app]; [|exact IH].
  constructor; [|exact IH]. destruct e as [now wd'|now]; [|exact I].
  cbn [snd fst] in He. eapply HC; eassumption.
Qed.

Definition requests_use (k : key) (wd : wdata) (ts : list thread) : Prop :=
  Forall (fun t => match t with
                   | TReq k' wd' _ => key_eqb k k' = true -> wd' = wd
                   | TCol _ => True
                   end) ts.

Lemma run_const_data v ts sch c' k wd :
  run v (init_config ts) sch = Some c' -> requests_use k wd ts ->
  const_data wd (log_of k (c_log c')).
Proof.
  intros HR HU.
  destruct (run_log_src v sch (init_config ts) c' HR (Forall_nil _)) as [_ HL].
  eapply log_src_const; [exact HL|]. cbn [init_config c_threads].
  intros k' wd' HIn Ek. apply in_map_iff in HIn. destruct HIn as (t & Et & HIn).
  unfold requests_use in HU. rewrite Forall_forall in HU. specialize (HU t HIn).
  destruct t as [k1 wd1 pc|pc]; [|discriminate]. cbn in Et. injection Et as -> ->. apply HU. exact Ek.
Qed.

(* ================================================================== *)
(** * F. Metrics collections erased from a schedule                     *)

Definition pc_sim (a b : rpc) : Prop :=
  match a, b with
  | RGate, RGate | RLook, RLook => True
  | RHave p, RHave q => p = q
  | RDone _, RDone _ => True
  | _, _ => False
  end.

Definition th_sim (a b : thread) : Prop :=
  match a, b with
  | TReq k wd pc, TReq k' wd' pc' => k = k' /\ wd = wd' /\ pc_sim pc pc'
  | TCol _, TCol CNew => True
  | _, _ => False
  end.

(* c: a run with collections; d: the run of the erased schedule.  The requests are at the
   same place with the same pointers; the registry map is the same; the lock regions of the
   requests are the same (verdicts and limiter states may differ). *)
Record Sim (ts0 : list thread) (c d : config) : Prop := {
  sim_map : c_map d = c_map c;
  sim_len : length (c_heap d) = length (c_heap c);
  sim_th : Forall2 th_sim (c_threads c) (c_threads d);
  sim_kind : forall i, is_req (c_threads c) i = is_req ts0 i;
  sim_log : c_log d = filter (fun ke => is_inc (snd ke)) (c_log c)
}.

Lemma Forall2_nth {A B : Type} (R : A -> B -> Prop) l1 l2 :
  Forall2 R l1 l2 -> forall i a, nth_error l1 i = Some a -> exists b, nth_error l2 i = Some b /\ R a b.
Proof.
  induction 1 as [|x y r1 r2 Hxy _ IH]; intros [|i] a E; cbn in *; try discriminate.
  - injection E as <-. exists y. split; [reflexivity | exact Hxy].
  - apply IH. exact E.
Qed.

Lemma Forall2_upd {A B : Type} (R : A -> B -> Prop) l1 l2 :
  Forall2 R l1 l2 -> forall i x y, R x y -> Forall2 R (upd l1 i x) (upd l2 i y).
Proof.
  induction 1 as [|a b r1 r2 Hab Hr IH]; intros [|i] x y Hxy; cbn; constructor; auto.
Qed.

Lemma Forall2_upd_l {A B : Type} (R : A -> B -> Prop) l1 l2 :
  Forall2 R l1 l2 -> forall i x y, nth_error l2 i = Some y -> R x y -> Forall2 R (upd l1 i x) l2.
Proof.
  induction 1 as [|a b r1 r2 Hab Hr IH]; intros [|i] x y E Hxy; cbn in *; try discriminate.
  - injection E as ->. constructor; assumption.
  - constructor; [exact Hab|]. eapply IH; eassumption.
Qed.

Definition same_kind (a b : thread) : Prop :=
  match a, b with TReq _ _ _, TReq _ _ _ | TCol _, TCol _ => True | _, _ => False end.

Lemma is_req_upd ts i t t0 j :
  nth_error ts i = Some t0 -> same_kind t t0 -> is_req (upd ts i t) j = is_req ts j.
Proof.
  intros E K. unfold is_req. rewrite (nth_error_upd ts i t j t0 E).
  destruct (Nat.eqb j i) eqn:Eji; [|reflexivity].
  apply Nat.eqb_eq in Eji. subst j. rewrite E. destruct t, t0; cbn in K; try contradiction; reflexivity.
Qed.

Lemma sim_quiet tc td :
  Forall2 th_sim tc td -> reading td = false /\ reg_locked Head td = false.
Proof.
  induction 1 as [|a b r1 r2 Hab _ [IH1 IH2]]; [split; reflexivity|].
  cbn [reading reg_locked existsb] in *.
  destruct a as [k wd pc|pc]; destruct b as [k' wd' pc'|pc']; cbn in Hab; try contradiction.
  - split; assumption.
  - destruct pc'; try contradiction. split; assumption.
Qed.

Lemma filter_inc_snoc (lg : list (key * sev)) k e :
  filter (fun ke => is_inc (snd ke)) (lg ++ [(k, e)]) =
  filter (fun ke => is_inc (snd ke)) lg ++ (if is_inc e then [(k, e)] else []).
Proof. rewrite filter_app. cbn. destruct (is_inc e); reflexivity. Qed.

Lemma sim_step ts0 c d l c' :
  Sim ts0 c d -> step Head c l = Some c' ->
  if is_req ts0 (l_tid l) then exists d', step Head d l = Some d' /\ Sim ts0 c' d'
  else Sim ts0 c' d.
Proof.
  intros [Sm Sl St Sk Sg]. unfold step.
  destruct (nth_error (c_threads c) (l_tid l)) as [t|] eqn:E; [|discriminate].
  pose proof (Sk (l_tid l)) as Hk. unfold is_req at 1 in Hk. rewrite E in Hk.
  destruct (Forall2_nth _ _ _ St _ _ E) as (b & Eb & Hb).
  destruct (sim_quiet _ _ St) as [Qr Ql].
  assert (HK : forall t', same_kind t' t -> forall i, is_req (upd (c_threads c) (l_tid l) t') i = is_req ts0 i).
  { intros t' K i. rewrite (is_req_upd _ _ _ _ _ E K). apply Sk. }
  destruct t as [k wd pc|pc].
  - (* a request: the same step is possible in d *)
    rewrite <- Hk. destruct b as [k' wd' pc'|pc']; cbn in Hb; [|contradiction].
    destruct Hb as (<- & <- & Hpc). rewrite Eb.
    destruct pc as [| |p|vd]; destruct pc' as [| |p'|vd']; cbn in Hpc; try contradiction; cbn [step_req].
    + destruct (reading (c_threads c)); [discriminate|]. intros [= <-]. rewrite Qr.
      eexists. split; [reflexivity|]. constructor; cbn; try assumption.
      * apply Forall2_upd; [exact St|]. cbn. auto.
      * apply HK. exact I.
    + destruct (key_valid k); cbn [negb].
      * destruct (reg_locked Head (c_threads c)); [discriminate|]. rewrite Ql, Sm.
        destruct (rget (c_map c) k) as [p|].
        -- intros [= <-]. eexists. split; [reflexivity|]. constructor; cbn; try assumption.
           ++ apply Forall2_upd; [exact St|]. cbn. auto.
           ++ apply HK. exact I.
        -- intros [= <-]. eexists. split; [reflexivity|]. constructor; cbn.
           ++ rewrite Sl. reflexivity.
           ++ rewrite !app_length, Sl. reflexivity.
           ++ apply Forall2_upd; [exact St|]. cbn. rewrite Sl. auto.
           ++ apply HK. exact I.
           ++ exact Sg.
      * intros [= <-]. eexists. split; [reflexivity|]. constructor; cbn; try assumption.
        -- apply Forall2_upd; [exact St|]. cbn. auto.
        -- apply HK. exact I.
    + subst p'. destruct (try_inc (l_now l) wd (nth p (c_heap c) init)) as [s1 v1].
      destruct (try_inc (l_now l) wd (nth p (c_heap d) init)) as [s2 v2].
      intros [= <-]. eexists. split; [reflexivity|]. constructor; cbn.
      * exact Sm.
      * rewrite !length_upd. exact Sl.
      * apply Forall2_upd; [exact St|]. cbn. auto.
      * apply HK. exact I.
      * rewrite filter_inc_snoc, Sg. reflexivity.
    + discriminate.
  - (* a collection: d stays where it is *)
    rewrite <- Hk. destruct b as [k' wd' pc'|pc']; cbn in Hb; [contradiction|].
    destruct pc'; try contradiction.
    assert (HT : forall pc1, Forall2 th_sim (upd (c_threads c) (l_tid l) (TCol pc1)) (c_threads d)).
    { intros pc1. eapply Forall2_upd_l; [exact St | exact Eb | exact I]. }
    destruct pc as [| |todo acc idle|acc idle|out]; cbn [step_col].
    + intros [= <-]. constructor; cbn; try assumption; [apply HT | apply HK; exact I].
    + destruct (reg_locked Head (c_threads c)); [discriminate|].
      intros [= <-]. constructor; cbn; try assumption; [apply HT | apply HK; exact I].
    + destruct todo as [|x todo'].
      * intros [= <-]. constructor; cbn; try assumption; [apply HT | apply HK; exact I].
      * destruct (nth_error (x :: todo') (l_pick l)) as [[k p]|]; [|discriminate].
        cbn [divides andb]. intros [= <-]. constructor; cbn.
        -- exact Sm.
        -- rewrite length_upd. exact Sl.
        -- apply HT.
        -- apply HK. exact I.
        -- rewrite filter_inc_snoc. cbn. rewrite app_nil_r. exact Sg.
    + discriminate.
    + discriminate.
Qed.

Lemma sim_run ts0 sch : forall c d c',
  Sim ts0 c d -> run Head c sch = Some c' ->
  exists d', run Head d (erase ts0 sch) = Some d' /\ Sim ts0 c' d'.
Proof.
  induction sch as [|l r IH]; intros c d c' S HR; cbn [run] in HR.
  - injection HR as <-. exists d. split; [reflexivity | exact S].
  - destruct (step Head c l) as [c1|] eqn:ES; [|discriminate].
    pose proof (sim_step ts0 c d l c1 S ES) as H. unfold erase. cbn [filter]. fold (erase ts0 r).
    destruct (is_req ts0 (l_tid l)).
    + destruct H as (d1 & ED & S1). cbn [run]. rewrite ED. apply (IH c1 d1 c' S1 HR).
    + apply (IH c1 d c' H HR).
Qed.

Lemma sim_init ts : forallb initial ts = true -> Sim ts (init_config ts) (init_config ts).
Proof.
  intros H. constructor; cbn; try reflexivity.
  induction ts as [|t r IH]; [constructor|].
  cbn in H. apply andb_true_iff in H. destruct H as [Ht Hr]. constructor; [|apply IH; exact Hr].
  destruct t as [k wd pc|pc]; cbn in *.
  - destruct pc; try discriminate; repeat split.
  - destruct pc; try discriminate; exact I.
Qed.

Lemma log_of_filter_inc k lg :
  log_of k (filter (fun ke => is_inc (snd ke)) lg) = filter is_inc (log_of k lg).
Proof.
  induction lg as [|[k' e] r IH]; [reflexivity|].
  change (log_of k ((k', e) :: r)) with ((if key_eqb k k' then [e] else []) ++ log_of k r).
  rewrite filter_app. cbn [filter snd]. destruct (is_inc e) eqn:Ei.
  - change (log_of k ((k', e) :: filter (fun ke => is_inc (snd ke)) r))
      with ((if key_eqb k k' then [e] else []) ++ log_of k (filter (fun ke => is_inc (snd ke)) r)).
    rewrite IH. destruct (key_eqb k k'); cbn [filter app]; [rewrite Ei|]; reflexivity.
  - rewrite IH. destruct (key_eqb k k'); cbn [filter app]; [rewrite Ei|]; reflexivity.
Qed.

(* ================================================================== *)
(** * G. Counters() and the later verdicts of one limiter               *)

Section Neutral.
  Variable wd : wdata.
  Hypothesis HW : 0 < wW wd.
  Hypothesis Hso : wSpillOn wd = false.

  Definition gridend (t : Z) : Z := Z.quot t (wW wd) * wW wd + wW wd.

  (* s was rolled by a Counters() reading at t, s' is still in the window before *)
  Definition ahead (lo : Z) (s s' : st) : Prop :=
    exists t, 0 <= t <= lo /\ swd s = wd /\ swd s' = wd /\ cnt s = 0 /\ spill s = spill s' /\
              wend s' < t /\ wend s = gridend t.

  Definition NRel (lo : Z) (s s' : st) : Prop :=
    (s = s' /\ (wW (swd s) = 0 \/ swd s = wd)) \/ ahead lo s s'.

  Lemma with_wd_same s : swd s = wd -> with_wd s wd = s.
  Proof. destruct s as [c sp we sw]. cbn. intros ->. reflexivity. Qed.

  Lemma ensure_off now s :
    swd s = wd ->
    ensure now s = if wend s <? now
                   then {| cnt := 0; spill := spill s; wend := gridend now; swd := wd |} else s.
  Proof.
    intros E. unfold ensure, gridend. rewrite E, Hso. cbn [andb]. reflexivity.
  Qed.

  Lemma gridend_same t now :
    0 <= t <= now -> now <= gridend t -> now mod wW wd <> 0 -> gridend now = gridend t.
  Proof.
    intros Ht Hle Hoff. unfold gridend in *.
    rewrite !Z.quot_div_nonneg by lia.
    pose proof (Z.div_mod t (wW wd) ltac:(lia)) as E1.
    pose proof (Z.mod_pos_bound t (wW wd) HW) as B1.
    rewrite Z.quot_div_nonneg in Hle by lia.
    assert (Hne : now <> (t / wW wd + 1) * wW wd).
    { intros ->. apply Hoff. apply Z_mod_mult. }
    assert (Eq : now / wW wd = t / wW wd).
    { symmetry. apply (Z.div_unique now (wW wd) (t / wW wd) (now - wW wd * (t / wW wd))); nia. }
    rewrite Eq. reflexivity.
  Qed.

  Lemma ahead_ensure lo now s s' :
    ahead lo s s' -> lo <= now -> now mod wW wd <> 0 ->
    ensure now (with_wd s wd) = ensure now (with_wd s' wd).
  Proof.
    intros (t & Ht & E1 & E2 & Ec & Es & Hw & He) Hlo Hoff.
    rewrite !with_wd_same by assumption. rewrite !ensure_off by assumption.
    replace (wend s' <? now) with true by (symmetry; apply Z.ltb_lt; lia).
    destruct (wend s <? now) eqn:El.
    - rewrite Es. reflexivity.
    - apply Z.ltb_ge in El. rewrite He in El.
      rewrite (gridend_same t now) by (try lia; assumption).
      destruct s as [c sp we sw]. cbn in *. subst. reflexivity.
  Qed.

  Lemma sstep_inc_eq now s s' :
    ensure now (with_wd s wd) = ensure now (with_wd s' wd) ->
    sstep s (SInc now wd) = sstep s' (SInc now wd).
  Proof.
    intros E. cbn [sstep]. unfold try_inc, limit_at.
    replace (wW wd =? 0) with false by (symmetry; apply Z.eqb_neq; lia).
    rewrite E. reflexivity.
  Qed.

  Lemma sstep_inc_swd now s : swd (fst (sstep s (SInc now wd))) = wd.
  Proof.
    cbn [sstep]. unfold try_inc. destruct (wW wd =? 0); [destruct s; reflexivity|].
    cbn zeta. destruct (_ <=? _); cbn [fst]; [|reflexivity].
    unfold ensure. destruct (_ <? _); reflexivity.
  Qed.

  Lemma neutral h : forall lo s s',
    0 <= lo -> mono_from lo (map sev_now h) -> const_data wd h ->
    Forall (fun e => sev_now e mod wW wd <> 0) h ->
    NRel lo s s' -> srun s h = srun s' (filter is_inc h).
  Proof.
    induction h as [|e r IH]; intros lo s s' Hlo HM HC HO HR; [reflexivity|].
    cbn [map] in HM. destruct HM as [Hle HMr].
    inversion HC as [|? ? He HCr]; subst. inversion HO as [|? ? Hoff HOr]; subst.
    destruct e as [now wd'|now]; cbn [sev_now] in *.
    - subst wd'. cbn [filter is_inc srun].
      assert (E : sstep s (SInc now wd) = sstep s' (SInc now wd)).
      { destruct HR as [[-> _]|HA]; [reflexivity|].
        apply sstep_inc_eq. eapply ahead_ensure; eassumption. }
      rewrite E. f_equal. apply (IH now); try assumption; [lia|].
      left. split; [reflexivity|]. right. apply sstep_inc_swd.
    - cbn [filter is_inc srun sstep fst snd app].
      apply (IH now); try assumption; [lia|].
      destruct HR as [[<- Hst]|HA].
      + unfold peek. destruct Hst as [Hz|Hs].
        * rewrite Hz. cbn. left. split; [reflexivity | left; exact Hz].
        * replace (wW (swd s) =? 0) with false by (symmetry; apply Z.eqb_neq; rewrite Hs; lia).
          rewrite ensure_off by exact Hs. destruct (wend s <? now) eqn:El.
          -- apply Z.ltb_lt in El. right. exists now. cbn. repeat split; try lia; try assumption; reflexivity.
          -- left. split; [reflexivity | right; exact Hs].
      + destruct HA as (t & Ht & E1 & E2 & Ec & Es & Hw & Hend).
        unfold peek. replace (wW (swd s) =? 0) with false by (symmetry; apply Z.eqb_neq; rewrite E1; lia).
        rewrite ensure_off by exact E1. destruct (wend s <? now) eqn:El.
        * right. exists now. cbn. repeat split; try lia; try assumption; reflexivity.
        * right. exists t. repeat split; try lia; assumption.
  Qed.
End Neutral.

(* ================================================================== *)
(** * H. Consequences                                                   *)

(* The clock hypothesis of the consequences is PER KEY: the readings of the lock regions of
   the limiter of k, in the order of the ghost log, are non-decreasing (these regions exclude
   each other and each reads the clock inside).  Nothing is asked of the readings of other
   limiters or of the order in which regions of different limiters are listed in the schedule
   (audit 2, item 3b: the forced schedules of suite overlap execute a parked region with the
   reading it took earlier, so their label sequence is not globally monotone).  A schedule
   whose readings are globally non-decreasing satisfies it for every key: run_key_mono /
   run_key_mono_from below; the schedule-level forms are kept as corollaries. *)
Lemma head_grid_bound_key ts sch c' k W :
  forallb initial ts = true -> run Head (init_config ts) sch = Some c' ->
  mono (map sev_now (log_of k (c_log c'))) -> key_valid k = true -> 0 < W ->
  const_window W (log_of k (c_log c')) ->
  bounded_right W 0 (entries_of k (c_trace c')).
Proof.
  intros Hi HR HM Hk HW HC. rewrite (head_refines ts sch c' k Hi HR Hk).
  apply single_bounded_fresh; [exact HW | exact HC | exact HM].
Qed.

Lemma head_grid_bound ts sch c' k W :
  forallb initial ts = true -> run Head (init_config ts) sch = Some c' ->
  mono (map l_now sch) -> key_valid k = true -> 0 < W ->
  const_window W (log_of k (c_log c')) ->
  bounded_right W 0 (entries_of k (c_trace c')).
Proof.
  intros Hi HR HM. apply (head_grid_bound_key ts sch c' k W Hi HR). eapply run_key_mono; eassumption.
Qed.

Lemma head_grid_bound_const_key ts sch c' k wd :
  forallb initial ts = true -> run Head (init_config ts) sch = Some c' ->
  mono (map sev_now (log_of k (c_log c'))) -> key_valid k = true ->
  0 < wW wd -> wSpillOn wd = false -> requests_use k wd ts ->
  forall j, count (in_right (wW wd) j) (entries_of k (c_trace c'))
            <= scaled_quota (wAllowed wd) (wParts wd).
Proof.
  intros Hi HR HM Hk HW Hs HU j. rewrite (head_refines ts sch c' k Hi HR Hk).
  apply single_window_bound; try assumption.
  eapply run_const_data; eassumption.
Qed.

Lemma head_grid_bound_const ts sch c' k wd :
  forallb initial ts = true -> run Head (init_config ts) sch = Some c' ->
  mono (map l_now sch) -> key_valid k = true ->
  0 < wW wd -> wSpillOn wd = false -> requests_use k wd ts ->
  forall j, count (in_right (wW wd) j) (entries_of k (c_trace c'))
            <= scaled_quota (wAllowed wd) (wParts wd).
Proof.
  intros Hi HR HM. apply (head_grid_bound_const_key ts sch c' k wd Hi HR).
  eapply run_key_mono; eassumption.
Qed.

Lemma mono_from_ge lo l : mono_from lo l -> Forall (fun x => lo <= x) l.
Proof.
  revert lo. induction l as [|t r IH]; intros lo H; [constructor|].
  cbn in H. destruct H as [H1 H2]. constructor; [exact H1|].
  eapply Forall_impl; [|apply IH; exact H2]. cbn. intros; lia.
Qed.

Lemma log_of_nows_ge k lg lo :
  Forall (fun x => lo <= x) (map (fun ke => sev_now (snd ke)) lg) ->
  Forall (fun x => lo <= x) (map sev_now (log_of k lg)).
Proof.
  induction lg as [|[k' e] r IH]; intros H; [constructor|].
  change (log_of k ((k', e) :: r)) with ((if key_eqb k k' then [e] else []) ++ log_of k r).
  cbn [map snd] in H. inversion H as [|? ? H1 H2]; subst.
  destruct (key_eqb k k'); cbn [app map]; [constructor; [exact H1|]|]; apply IH; exact H2.
Qed.

Lemma mono_from_of_mono_ge lo l : mono l -> Forall (fun x => lo <= x) l -> mono_from lo l.
Proof.
  destruct l as [|t r]; cbn; intros HM HF; [exact I|].
  inversion HF; subst. split; assumption.
Qed.

(* globally non-decreasing readings from lo on: every key's readings are so too *)
Lemma run_key_mono_from v ts sch c' k lo :
  run v (init_config ts) sch = Some c' -> mono_from lo (map l_now sch) ->
  mono_from lo (map sev_now (log_of k (c_log c'))).
Proof.
  intros HR HM. apply mono_from_of_mono_ge.
  - eapply run_key_mono; [exact HR|]. eapply mono_from_mono. exact HM.
  - apply log_of_nows_ge.
    apply (run_log_ge v sch (init_config ts) c' lo HR).
    + apply mono_from_ge in HM. rewrite Forall_map in HM. exact HM.
    + constructor.
Qed.

Lemma head_rejected_used_up_key ts sch c' k W pre e post :
  forallb initial ts = true -> run Head (init_config ts) sch = Some c' ->
  mono_from 0 (map sev_now (log_of k (c_log c'))) -> key_valid k = true -> 0 < W ->
  const_window W (log_of k (c_log c')) ->
  entries_of k (c_trace c') = pre ++ e :: post ->
  s_verdict e = Block -> 0 < s_now e ->
  exists j, in_closed W j (s_now e) = true /\ s_lim e <= count (in_closed W j) pre.
Proof.
  intros Hi HR HM Hk HW HC HE HV HB.
  rewrite (head_refines ts sch c' k Hi HR Hk) in HE.
  exact (single_exact W 0 HW (log_of k (c_log c')) None [] 0 (conj eq_refl eq_refl) (Z.le_refl 0)
           HC HM pre e post HE HV HB).
Qed.

Lemma head_rejected_used_up ts sch c' k W pre e post :
  forallb initial ts = true -> run Head (init_config ts) sch = Some c' ->
  mono_from 0 (map l_now sch) -> key_valid k = true -> 0 < W ->
  const_window W (log_of k (c_log c')) ->
  entries_of k (c_trace c') = pre ++ e :: post ->
  s_verdict e = Block -> 0 < s_now e ->
  exists j, in_closed W j (s_now e) = true /\ s_lim e <= count (in_closed W j) pre.
Proof.
  intros Hi HR HM. apply (head_rejected_used_up_key ts sch c' k W pre e post Hi HR).
  eapply run_key_mono_from; eassumption.
Qed.

(* erasing the collections: the requests take the same steps, the registry map is the same,
   and what a limiter key sees is its history without the Counter() regions *)
Lemma head_erase ts sch c' :
  forallb initial ts = true -> run Head (init_config ts) sch = Some c' ->
  exists c'', run Head (init_config ts) (erase ts sch) = Some c'' /\
              c_map c'' = c_map c' /\
              forall k, key_valid k = true ->
                entries_of k (c_trace c'') = srun init (filter is_inc (log_of k (c_log c'))) /\
                entries_of k (c_trace c') = srun init (log_of k (c_log c')).
Proof.
  intros Hi HR.
  destruct (sim_run ts sch _ _ c' (sim_init ts Hi) HR) as (d & HD & [Sm Sl St Sk Sg]).
  exists d. split; [exact HD|]. split; [exact Sm|]. intros k Hk. split.
  - rewrite (inv_trace d (run_head_inv _ _ _ (inv_init ts Hi) HD) k Hk), Sg, log_of_filter_inc.
    reflexivity.
  - apply (inv_trace c' (run_head_inv _ _ _ (inv_init ts Hi) HR) k Hk).
Qed.

Lemma head_metrics_neutral_key ts sch c' k wd :
  forallb initial ts = true -> run Head (init_config ts) sch = Some c' ->
  mono_from 0 (map sev_now (log_of k (c_log c'))) -> key_valid k = true ->
  0 < wW wd -> wSpillOn wd = false -> requests_use k wd ts ->
  Forall (fun e => sev_now e mod wW wd <> 0) (log_of k (c_log c')) ->
  exists c'', run Head (init_config ts) (erase ts sch) = Some c'' /\
              c_map c'' = c_map c' /\
              entries_of k (c_trace c'') = entries_of k (c_trace c').
Proof.
  intros Hi HR HM Hk HW Hs HU HO.
  destruct (head_erase ts sch c' Hi HR) as (d & HD & Em & HE).
  exists d. split; [exact HD|]. split; [exact Em|].
  destruct (HE k Hk) as [E1 E2]. rewrite E1, E2. symmetry.
  apply (neutral wd HW Hs (log_of k (c_log c')) 0 init init (Z.le_refl 0)).
  - exact HM.
  - eapply run_const_data; eassumption.
  - exact HO.
  - left. split; [reflexivity | left; reflexivity].
Qed.

Lemma head_metrics_neutral ts sch c' k wd :
  forallb initial ts = true -> run Head (init_config ts) sch = Some c' ->
  mono_from 0 (map l_now sch) -> key_valid k = true ->
  0 < wW wd -> wSpillOn wd = false -> requests_use k wd ts ->
  Forall (fun e => sev_now e mod wW wd <> 0) (log_of k (c_log c')) ->
  exists c'', run Head (init_config ts) (erase ts sch) = Some c'' /\
              c_map c'' = c_map c' /\
              entries_of k (c_trace c'') = entries_of k (c_trace c').
Proof.
  intros Hi HR HM. apply (head_metrics_neutral_key ts sch c' k wd Hi HR).
  eapply run_key_mono_from; eassumption.
Qed.

(* --- no deadlock: an unfinished thread can always be scheduled --- *)

Definition finished (t : thread) : bool :=
  match t with TReq _ _ (RDone _) | TCol (CDone _) => true | _ => false end.
Definition not_releasing (t : thread) : bool :=
  match t with TCol (CRelease _ _) => false | _ => true end.

Lemma existsb_nth {A : Type} (f : A -> bool) l :
  existsb f l = true -> exists i x, nth_error l i = Some x /\ f x = true.
Proof.
  intros H. apply existsb_exists in H. destruct H as (x & HIn & Hf).
  apply In_nth_error in HIn. destruct HIn as [i Hi]. exists i, x. split; assumption.
Qed.

Lemma existsb_false_nth {A : Type} (f : A -> bool) l i x :
  existsb f l = false -> nth_error l i = Some x -> f x = false.
Proof.
  intros H E. destruct (f x) eqn:Ef; [|reflexivity].
  assert (existsb f l = true); [|congruence].
  apply existsb_exists. exists x. split; [eapply nth_error_In; exact E | exact Ef].
Qed.

Lemma head_progress c :
  forallb not_releasing (c_threads c) = true ->
  existsb (fun t => negb (finished t)) (c_threads c) = true ->
  exists l c', step Head c l = Some c'.
Proof.
  intros HN HU.
  destruct (reg_locked Head (c_threads c)) eqn:EL.
  - (* the collection that holds the registry can go on *)
    cbn [reg_locked] in EL. destruct (existsb_nth _ _ EL) as (i & t & Ei & Ht).
    destruct t as [|pc]; [discriminate|]. destruct pc as [| |todo acc idle| |]; try discriminate.
    exists {| l_tid := i; l_now := 0; l_pick := 0 |}. unfold step. cbn [l_tid l_now l_pick]. rewrite Ei.
    cbn [step_col]. destruct todo as [|[k p] todo']; [eexists; reflexivity|].
    cbn [nth_error divides andb]. eexists; reflexivity.
  - destruct (reading (c_threads c)) eqn:ER.
    + (* a collection waiting for the registry, which is free *)
      unfold reading in ER. destruct (existsb_nth _ _ ER) as (i & t & Ei & Ht).
      destruct t as [|pc]; [discriminate|].
      exists {| l_tid := i; l_now := 0; l_pick := 0 |}. unfold step. cbn [l_tid l_now l_pick]. rewrite Ei.
      destruct pc as [| |todo acc idle|acc idle|]; try discriminate; cbn [step_col].
      * rewrite EL. eexists; reflexivity.
      * cbn [reg_locked] in EL. pose proof (existsb_false_nth _ _ _ _ EL Ei). discriminate.
      * rewrite forallb_forall in HN. apply nth_error_In in Ei. apply HN in Ei. discriminate.
    + (* nothing is locked: any unfinished thread can move *)
      destruct (existsb_nth _ _ HU) as (i & t & Ei & Ht).
      exists {| l_tid := i; l_now := 0; l_pick := 0 |}. unfold step. cbn [l_tid l_now l_pick]. rewrite Ei.
      destruct t as [k wd pc|pc].
      * destruct pc as [| |p|vd]; cbn [step_req]; try discriminate.
        -- rewrite ER. eexists; reflexivity.
        -- destruct (negb (key_valid k)); [eexists; reflexivity|]. rewrite EL.
           destruct (rget (c_map c) k); eexists; reflexivity.
        -- destruct (try_inc 0 wd (nth p (c_heap c) init)). eexists; reflexivity.
      * unfold reading in ER. pose proof (existsb_false_nth _ _ _ _ ER Ei) as Hr.
        destruct pc as [| |todo acc idle|acc idle|]; try discriminate.
        cbn [step_col]. eexists; reflexivity.
Qed.

Lemma forallb_upd {A : Type} (f : A -> bool) l : forall i x,
  forallb f l = true -> f x = true -> forallb f (upd l i x) = true.
Proof.
  induction l as [|a r IH]; intros [|i] x H Hx; cbn in *; try reflexivity;
    apply andb_true_iff in H; destruct H as [H1 H2]; apply andb_true_iff; split; auto.
Qed.

Lemma step_head_not_releasing c l c' :
  step Head c l = Some c' -> forallb not_releasing (c_threads c) = true ->
  forallb not_releasing (c_threads c') = true.
Proof.
  unfold step. destruct (nth_error (c_threads c) (l_tid l)) as [t|]; [|discriminate].
  intros HS HN.
  assert (HU : forall t', not_releasing t' = true ->
                          forallb not_releasing (upd (c_threads c) (l_tid l) t') = true).
  { intros t' Ht. apply forallb_upd; assumption. }
  destruct t as [k wd pc|pc].
  - destruct pc as [| |p|vd]; cbn [step_req] in HS.
    + destruct (reading _); [discriminate|]. injection HS as <-. apply HU. reflexivity.
    + destruct (negb (key_valid k)).
      * injection HS as <-. apply HU. reflexivity.
      * destruct (reg_locked Head _); [discriminate|].
        destruct (rget _ _); injection HS as <-; apply HU; reflexivity.
    + destruct (try_inc _ _ _). injection HS as <-. apply HU. reflexivity.
    + discriminate.
  - destruct pc as [| |todo acc idle|acc idle|out]; cbn [step_col] in HS.
    + injection HS as <-. apply HU. reflexivity.
    + destruct (reg_locked Head _); [discriminate|]. injection HS as <-. apply HU. reflexivity.
    + destruct todo as [|x todo'].
      * injection HS as <-. apply HU. reflexivity.
      * destruct (nth_error _ _) as [[k p]|]; [|discriminate].
        cbn [divides andb] in HS. injection HS as <-; apply HU; reflexivity.
    + discriminate.
    + discriminate.
Qed.

Lemma run_head_not_releasing sch : forall c c',
  run Head c sch = Some c' -> forallb not_releasing (c_threads c) = true ->
  forallb not_releasing (c_threads c') = true.
Proof.
  induction sch as [|l r IH]; intros c c' HR HN; cbn [run] in HR.
  - injection HR as <-. exact HN.
  - destruct (step Head c l) as [c1|] eqn:ES; [|discriminate].
    apply (IH c1 c' HR). eapply step_head_not_releasing; eassumption.
Qed.

Lemma initial_not_releasing ts : forallb initial ts = true -> forallb not_releasing ts = true.
Proof.
  intros H. rewrite forallb_forall in *. intros t HIn. specialize (H t HIn).
  destruct t as [k wd pc|pc]; [reflexivity|]. destruct pc; try discriminate; reflexivity.
Qed.

(* --- the snapshot-and-prune variant: a witness --- *)

Definition wit_key : key := {| kLimiter := [65]; kGrouped := false; kGroup := [] |}.
Definition wit_wd : wdata :=
  {| wW := 10; wAllowed := 1; wParts := scale; wSpillOn := false; wRenew := 0 |}.
Definition wit_threads : list thread :=
  [TReq wit_key wit_wd RLook; TCol CNew; TReq wit_key wit_wd RLook; TReq wit_key wit_wd RLook].
Definition lab (i : nat) (t : Z) : label := {| l_tid := i; l_now := t; l_pick := 0 |}.
(* request 0 passes at 1 (window (0,10]).  At 11 a collection copies the map and finds the
   limiter idle (its counter was just reset); request 1 increments that state (passes); the
   collection unlinks it; request 2 gets a fresh state at 12 and passes too: two requests in
   (10,20] with limit 1 *)
Definition wit_schedule : list label :=
  [lab 0 1; lab 0 1;
   lab 1 11; lab 1 11; lab 1 11;
   lab 2 11; lab 2 11;
   lab 1 11; lab 1 11;
   lab 3 12; lab 3 12].

Lemma snapshot_prune_witness :
  exists c', run SnapshotPrune (init_config wit_threads) wit_schedule = Some c' /\
             map (fun e => (s_now e, s_verdict e, s_lim e)) (entries_of wit_key (c_trace c')) =
               [(1, Proceed, 1); (11, Proceed, 1); (12, Proceed, 1)] /\
             count (in_right 10 1) (entries_of wit_key (c_trace c')) = 2 /\
             count (in_left 10 1) (entries_of wit_key (c_trace c')) = 2.
Proof. eexists. split; [vm_compute; reflexivity|]. vm_compute. repeat split. Qed.

(* HEAD: request 1 has to wait at that point (the same labels are not a schedule) ... *)
Lemma head_blocks_witness : run Head (init_config wit_threads) wit_schedule = None.
Proof. vm_compute. reflexivity. Qed.

(* ... and once the collection is over it is counted on the registered state *)
Definition wit_schedule_head : list label :=
  [lab 0 1; lab 0 1;
   lab 1 11; lab 1 11; lab 1 11; lab 1 11;
   lab 2 11; lab 2 11;
   lab 3 12; lab 3 12].
Lemma head_witness :
  exists c', run Head (init_config wit_threads) wit_schedule_head = Some c' /\
             map (fun e => (s_now e, s_verdict e)) (entries_of wit_key (c_trace c')) =
               [(1, Proceed); (11, Proceed); (12, Block)].
Proof. eexists. split; [vm_compute; reflexivity|]. vm_compute. reflexivity. Qed.

(* Counters() can change a later verdict when a request arrives exactly on the grid instant
   that ends the window the collection opened: limiter with limit 1, window 10, first request
   at 5; a collection reads 15; requests at 20 and 21 *)
Definition nwit_threads : list thread :=
  [TReq wit_key wit_wd RLook; TCol CNew; TReq wit_key wit_wd RLook; TReq wit_key wit_wd RLook].
Definition nwit_schedule : list label :=
  [lab 0 5; lab 0 5;
   lab 1 15; lab 1 15; lab 1 15; lab 1 15;
   lab 2 20; lab 2 20; lab 3 21; lab 3 21].
Lemma neutral_witness :
  exists c' c'', run Head (init_config nwit_threads) nwit_schedule = Some c' /\
                 run Head (init_config nwit_threads) (erase nwit_threads nwit_schedule) = Some c'' /\
                 map e_verdict (c_trace c') = [Proceed; Proceed; Proceed] /\
                 map e_verdict (c_trace c'') = [Proceed; Proceed; Block].
Proof.
  eexists. eexists. split; [vm_compute; reflexivity|]. split; [vm_compute; reflexivity|].
  split; vm_compute; reflexivity.
Qed.

(* --- metrics collections always complete (Counter() of patches/C09/fix-F-C09b.patch) --- *)

Definition not_failed (t : thread) : bool :=
  match t with TCol (CDone None) => false | _ => true end.

Lemma step_head_not_failed c l c' :
  step Head c l = Some c' -> forallb not_failed (c_threads c) = true ->
  forallb not_failed (c_threads c') = true.
Proof.
  unfold step. destruct (nth_error (c_threads c) (l_tid l)) as [t|]; [|discriminate].
  intros HS HN.
  assert (HU : forall t', not_failed t' = true ->
                          forallb not_failed (upd (c_threads c) (l_tid l) t') = true).
  { intros t' Ht. apply forallb_upd; assumption. }
  destruct t as [k wd pc|pc].
  - destruct pc as [| |p|vd]; cbn [step_req] in HS.
    + destruct (reading _); [discriminate|]. injection HS as <-. apply HU. reflexivity.
    + destruct (negb (key_valid k)).
      * injection HS as <-. apply HU. reflexivity.
      * destruct (reg_locked Head _); [discriminate|].
        destruct (rget _ _); injection HS as <-; apply HU; reflexivity.
    + destruct (try_inc _ _ _). injection HS as <-. apply HU. reflexivity.
    + discriminate.
  - destruct pc as [| |todo acc idle|acc idle|out]; cbn [step_col] in HS.
    + injection HS as <-. apply HU. reflexivity.
    + destruct (reg_locked Head _); [discriminate|]. injection HS as <-. apply HU. reflexivity.
    + destruct todo as [|x todo'].
      * injection HS as <-. apply HU. reflexivity.
      * destruct (nth_error _ _) as [[k p]|]; [|discriminate].
        cbn [divides andb] in HS. injection HS as <-; apply HU; reflexivity.
    + discriminate.
    + discriminate.
Qed.

Lemma run_head_not_failed sch : forall c c',
  run Head c sch = Some c' -> forallb not_failed (c_threads c) = true ->
  forallb not_failed (c_threads c') = true.
Proof.
  induction sch as [|l r IH]; intros c c' HR HN; cbn [run] in HR.
  - injection HR as <-. exact HN.
  - destruct (step Head c l) as [c1|] eqn:ES; [|discriminate].
    apply (IH c1 c' HR). eapply step_head_not_failed; eassumption.
Qed.

Lemma initial_not_failed ts : forallb initial ts = true -> forallb not_failed ts = true.
Proof.
  intros H. rewrite forallb_forall in *. intros t HIn. specialize (H t HIn).
  destruct t as [k wd pc|pc]; [reflexivity|]. destruct pc; try discriminate; reflexivity.
Qed.

Lemma head_collections_complete ts sch c' i out :
  forallb initial ts = true -> run Head (init_config ts) sch = Some c' ->
  nth_error (c_threads c') i = Some (TCol (CDone out)) -> out <> None.
Proof.
  intros Hi HR E ->.
  pose proof (run_head_not_failed sch _ _ HR (initial_not_failed ts Hi)) as HN.
  rewrite forallb_forall in HN. apply nth_error_In in E. apply HN in E. discriminate.
Qed.

(* the unpatched Counter(): a request has registered its limiter (window 10) and not yet
   stored the window data; a collection visits that state and divides by zero.  With the
   patched Counter() the same collection reports 0 for the key and the request proceeds. *)
Definition fwit_threads : list thread := [TReq wit_key wit_wd RLook; TCol CNew].
Definition fwit_schedule : list label := [lab 0 1; lab 1 1; lab 1 1; lab 1 1].
Definition fwit_schedule_head : list label := fwit_schedule ++ [lab 1 1; lab 0 1].

Lemma fresh_divides_witness :
  exists c', run FreshDivides (init_config fwit_threads) fwit_schedule = Some c' /\
             nth_error (c_threads c') 1 = Some (TCol (CDone None)).
Proof. eexists. split; vm_compute; reflexivity. Qed.

Lemma fresh_head_witness :
  exists c', run Head (init_config fwit_threads) fwit_schedule_head = Some c' /\
             c_threads c' = [TReq wit_key wit_wd (RDone Proceed); TCol (CDone (Some [(wit_key, 0)]))].
Proof. eexists. split; vm_compute; reflexivity. Qed.
